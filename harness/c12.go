package main

// C12 — homomorphic linear transformations.
//
// Tie lines (the Lean model must reproduce the output exactly):
//   bsgsindex / bestratio / galels / alloc / at / permdiags   pure index functions of circuits/common/lintrans
//   eval                                                        NewLinearTransformation + Encode + Evaluate*/EvaluateMany/
//                                                               EvaluateSequential on a real ciphertext: N1, Vec keys,
//                                                               advertised Galois elements, ORDERED trace of Galois keys
//                                                               requested from the rlwe.EvaluationKeySet, output level,
//                                                               scale and decrypted slot values (bgv: exact mod t;
//                                                               ckks: integer inputs, decoded values rounded).
// Probes (predicates on the real code): keys_sufficient, matvec (decrypted = M·v computed by an
// independent reference), ckks_close, level_scale, plain_evaluate (Diagonals.Evaluate = M·v),
// at_negative, empty/malformed behaviour.

import (
	"fmt"
	"math"
	"math/big"
	"sort"
	"strings"

	bgvlt "github.com/tuneinsight/lattigo/v6/circuits/bgv/lintrans"
	ckkslt "github.com/tuneinsight/lattigo/v6/circuits/ckks/lintrans"
	clt "github.com/tuneinsight/lattigo/v6/circuits/common/lintrans"
	"github.com/tuneinsight/lattigo/v6/core/rlwe"
	"github.com/tuneinsight/lattigo/v6/ring"
	"github.com/tuneinsight/lattigo/v6/schemes"
	"github.com/tuneinsight/lattigo/v6/schemes/bgv"
	"github.com/tuneinsight/lattigo/v6/schemes/ckks"
)

func init() { register("C12", genC12) }

// ---------- logging key set ----------

type c12LogKeys struct {
	inner   *rlwe.MemEvaluationKeySet
	reqs    *[]uint64
	missing *[]uint64
}

func (l *c12LogKeys) GetGaloisKey(g uint64) (*rlwe.GaloisKey, error) {
	*l.reqs = append(*l.reqs, g)
	k, err := l.inner.GetGaloisKey(g)
	if err != nil {
		*l.missing = append(*l.missing, g)
	}
	return k, err
}
func (l *c12LogKeys) GetGaloisKeysList() []uint64 { return l.inner.GetGaloisKeysList() }
func (l *c12LogKeys) GetRelinearizationKey() (*rlwe.RelinearizationKey, error) {
	return l.inner.GetRelinearizationKey()
}
func (l *c12LogKeys) ShallowCopy() rlwe.EvaluationKeySet { return l }

// ---------- scheme context ----------

type c12Ctx struct {
	scheme  string // bgv | ckks
	logN    int
	t       uint64
	rows    int
	maxCols int
	logMaxC int
	nthRoot uint64
	bp      bgv.Parameters
	cp      ckks.Parameters
	rp      *rlwe.Parameters
	kgen    *rlwe.KeyGenerator
	sk      *rlwe.SecretKey
	enc     *rlwe.Encryptor
	dec     *rlwe.Decryptor
	becd    *bgv.Encoder
	cecd    *ckks.Encoder
	cecdBig *ckks.Encoder // precision 90 bits: the big.Float path of the encoder
	cache   map[c12KeyID]*rlwe.GaloisKey
	maxErr  float64
}

func newC12Ctx(scheme string, logN int) *c12Ctx {
	return newC12CtxQP(scheme, logN, []int{54, 45, 45, 45}, []int{56})
}

// newC12CtxQP: bgv context with an explicit modulus chain (used for several auxiliary primes and for
// 60/61-bit primes, where the lazy-accumulation margins floor(2^64/q) are smallest).
func newC12CtxQP(scheme string, logN int, logQ, logP []int) *c12Ctx {
	x := &c12Ctx{scheme: scheme, logN: logN, cache: map[c12KeyID]*rlwe.GaloisKey{}}
	if scheme == "bgv" {
		lit := bgv.ParametersLiteral{LogN: logN, LogQ: logQ, LogP: logP, PlaintextModulus: 65537}
		for _, b := range logQ {
			if b > 60 {
				// LogQ only generates primes up to 60 bits: give the ciphertext primes explicitly
				// (2^b - e, i.e. just below 2^b: the smallest margins floor(2^64/q) for that size)
				// P explicitly as well: with Q explicit and P by size the library picks P = Q[0]
				// (NewParametersFromLiteral accepts the resulting non-coprime Q and P).
				g := ring.NewNTTFriendlyPrimesGenerator(uint64(b), uint64(2<<logN))
				qs, err := g.NextDownstreamPrimes(len(logQ) + len(logP))
				if err != nil {
					panic(err)
				}
				lit.LogQ, lit.Q = nil, qs[len(logP):]
				lit.LogP, lit.P = nil, qs[:len(logP)]
				break
			}
		}
		p, err := bgv.NewParametersFromLiteral(lit)
		if err != nil {
			panic(err)
		}
		x.bp, x.t, x.rows, x.maxCols, x.logMaxC = p, 65537, 2, p.N()/2, logN-1
		x.rp = p.GetRLWEParameters()
		x.becd = bgv.NewEncoder(p)
		x.kgen = rlwe.NewKeyGenerator(p)
		x.sk = x.kgen.GenSecretKeyNew()
		x.enc = rlwe.NewEncryptor(p, x.sk)
		x.dec = rlwe.NewDecryptor(p, x.sk)
	} else {
		p, err := ckks.NewParametersFromLiteral(ckks.ParametersLiteral{LogN: logN, LogQ: []int{58, 40, 40, 40}, LogP: []int{60}, LogDefaultScale: 40})
		if err != nil {
			panic(err)
		}
		x.cp, x.t, x.rows, x.maxCols, x.logMaxC = p, 0, 1, p.MaxSlots(), p.LogMaxSlots()
		x.rp = p.GetRLWEParameters()
		x.cecd = ckks.NewEncoder(p)
		x.cecdBig = ckks.NewEncoder(p, 90)
		x.kgen = rlwe.NewKeyGenerator(p)
		x.sk = x.kgen.GenSecretKeyNew()
		x.enc = rlwe.NewEncryptor(p, x.sk)
		x.dec = rlwe.NewDecryptor(p, x.sk)
	}
	x.nthRoot = x.rp.RingQ().NthRoot()
	return x
}

func (x *c12Ctx) maxLevel() int { return x.rp.MaxLevel() }

func (x *c12Ctx) newScale(s uint64) rlwe.Scale {
	if x.scheme == "bgv" {
		return x.bp.NewScale(s)
	}
	return rlwe.NewScale(s)
}

// ltScale: the Scale field of the transformation's Parameters, built the way lt.skind says
func (x *c12Ctx) ltScale(lt *c12LT) rlwe.Scale {
	if lt.scaleBig != nil {
		return rlwe.NewScale(lt.scaleBig)
	}
	switch lt.skind {
	case 1:
		return x.rp.DefaultScale()
	case 2:
		return rlwe.NewScale(lt.scale)
	}
	return x.newScale(lt.scale)
}

func (x *c12Ctx) schemeEval(evk rlwe.EvaluationKeySet) schemes.Evaluator {
	if x.scheme == "bgv" {
		return bgv.NewEvaluator(x.bp, evk)
	}
	return ckks.NewEvaluator(x.cp, evk)
}

type c12KeyID struct {
	g  uint64
	lp int
}

// keysFor: Galois keys for exactly galEls, generated at auxiliary level levelP.
func (x *c12Ctx) keysFor(galEls []uint64, levelP int) (*c12LogKeys, *[]uint64, *[]uint64) {
	gks := make([]*rlwe.GaloisKey, 0, len(galEls))
	for _, g := range galEls {
		k, ok := x.cache[c12KeyID{g, levelP}]
		if !ok {
			lp := levelP
			k = x.kgen.GenGaloisKeyNew(g, x.sk, rlwe.EvaluationKeyParameters{LevelP: &lp})
			x.cache[c12KeyID{g, levelP}] = k
		}
		gks = append(gks, k)
	}
	reqs, missing := &[]uint64{}, &[]uint64{}
	return &c12LogKeys{inner: rlwe.NewMemEvaluationKeySet(nil, gks...), reqs: reqs, missing: missing}, reqs, missing
}

// encrypt a rows*cols integer vector at the given level, scale and column count.
func (x *c12Ctx) encrypt(v []int64, level int, scale uint64, logCols int) *rlwe.Ciphertext {
	var pt *rlwe.Plaintext
	if x.scheme == "bgv" {
		pt = bgv.NewPlaintext(x.bp, level)
		pt.Scale = x.bp.NewScale(scale)
		if err := x.becd.Encode(v, pt); err != nil {
			panic(err)
		}
	} else {
		pt = ckks.NewPlaintext(x.cp, level)
		pt.Scale = rlwe.NewScale(scale)
		pt.LogDimensions = ring.Dimensions{Rows: 0, Cols: logCols}
		z := make([]float64, len(v))
		for i := range v {
			z[i] = float64(v[i])
		}
		if err := x.cecd.Encode(z, pt); err != nil {
			panic(err)
		}
	}
	ct, err := x.enc.EncryptNew(pt)
	if err != nil {
		panic(err)
	}
	return ct
}

// decrypt to rows*cols integers (bgv: in [0,t); ckks: rounded real parts, rounding error recorded)
func (x *c12Ctx) decrypt(ct *rlwe.Ciphertext, n int) []int64 {
	pt := x.dec.DecryptNew(ct)
	out := make([]int64, n)
	if x.scheme == "bgv" {
		u := make([]uint64, n)
		if err := x.becd.Decode(pt, u); err != nil {
			panic(err)
		}
		for i := range u {
			out[i] = int64(u[i])
		}
		return out
	}
	z := make([]float64, n)
	if err := x.cecd.Decode(pt, z); err != nil {
		panic(err)
	}
	for i := range z {
		r := math.Round(z[i])
		if e := math.Abs(z[i] - r); e > x.maxErr || math.IsNaN(e) {
			x.maxErr = e
			if math.IsNaN(e) {
				x.maxErr = math.Inf(1)
			}
		}
		if math.Abs(r) > 9e18 || math.IsNaN(r) {
			r = 0
			x.maxErr = math.Inf(1)
		}
		out[i] = int64(r)
	}
	return out
}

func (x *c12Ctx) scaleStr(s rlwe.Scale) string {
	if x.scheme == "bgv" {
		// value AND modulus: the modulus rides on the scale and every later modular scale operation reads it
		if s.Mod == nil {
			return s.Value.Text('f', 0) + "%nil"
		}
		return s.Value.Text('f', 0) + "%" + s.Mod.String()
	}
	f := new(big.Float).Copy(&s.Value)
	if f.IsInt() {
		return f.Text('f', 0)
	}
	return "frac"
}

// ---------- one linear transformation of a test case ----------

type c12LT struct {
	levelP  int // LevelP of the transformation = of the Galois keys (all transformations of a case share it)
	ratio   int
	level   int
	scale   uint64
	skind   int // how Parameters.Scale is built: 0 params.NewScale(scale) (bgv: modulus t attached; ckks: rlwe.NewScale),
	// 1 params.DefaultScale() (scale = its value), 2 rlwe.NewScale(scale) WITHOUT modulus (bgv: scale may be >= t)
	alias    map[int]int // k -> k0 < k: diagonal k is given as THE SAME slice object as diagonal k0 (equal contents)
	short    []int       // non-nil: short[k] > 0: diagonal k is given with that many entries only (the rest is zero)
	raw      [][]uint64  // bgv, non-nil: the diagonals are given as []uint64 with these UNREDUCED entries (diag = raw mod t)
	scaleBig *big.Int // ckks, non-nil: the scale (e.g. a product of two primes of the chain, far above 2^64)
	encBig   bool     // ckks: encode the diagonals with the arbitrary-precision encoder (prec 90: embedArbitrary)
	logCols int
	idx     []int     // diagonal indices as given by the user (may be negative)
	diag    [][]int64 // diag[k] = rows*cols values of diagonal idx[k]
}

func (lt *c12LT) scaleInt() *big.Int {
	if lt.scaleBig != nil {
		return lt.scaleBig
	}
	return new(big.Int).SetUint64(lt.scale)
}

func (x *c12Ctx) red(v int64) int64 {
	if x.t == 0 {
		return v
	}
	m := v % int64(x.t)
	if m < 0 {
		m += int64(x.t)
	}
	return m
}

// independent reference: out[r][c] = sum_d diag_d[r][c] * v[r][(c+d) mod cols]
func (x *c12Ctx) refMatVec(lt *c12LT, v []int64) []int64 {
	cols := 1 << lt.logCols
	out := make([]int64, len(v))
	for k, d := range lt.idx {
		dd := ((d % cols) + cols) % cols
		for r := 0; r < x.rows; r++ {
			for c := 0; c < cols; c++ {
				out[r*cols+c] = x.red(out[r*cols+c] + x.red(lt.diag[k][r*cols+c])*x.red(v[r*cols+(c+dd)%cols]))
			}
		}
	}
	return out
}

type c12Built struct {
	common clt.LinearTransformation
	adv    []uint64
	advPkg []uint64 // the package-level GaloisElements(params, ltparams) on the caller's own index list
	encErr bool
}

func (x *c12Ctx) dims(logCols int) ring.Dimensions {
	if x.scheme == "bgv" {
		return ring.Dimensions{Rows: 1, Cols: logCols}
	}
	return ring.Dimensions{Rows: 0, Cols: logCols}
}

// c12Slices: the slices the caller hands over for the diagonals: aliases share ONE slice object, short diagonals are
// allocated with exactly their length (no hidden capacity)
func c12Slices[T any](lt *c12LT, conv func(k, i int) T) [][]T {
	sl := make([][]T, len(lt.idx))
	for k := range lt.idx {
		if a, ok := lt.alias[k]; ok {
			sl[k] = sl[a]
			continue
		}
		n := len(lt.diag[k])
		if lt.short != nil && lt.short[k] > 0 {
			n = lt.short[k]
		}
		sl[k] = make([]T, n)
		for i := range sl[k] {
			sl[k][i] = conv(k, i)
		}
	}
	return sl
}

func c12BuildBGV[T bgv.Integer](x *c12Ctx, lt *c12LT, sl [][]T) (b c12Built) {
	dg := bgvlt.Diagonals[T]{}
	for k, d := range lt.idx {
		dg[d] = sl[k]
	}
	p := bgvlt.Parameters{DiagonalsIndexList: dg.DiagonalsIndexList(), LevelQ: lt.level, LevelP: lt.levelP,
		Scale: x.ltScale(lt), LogDimensions: x.dims(lt.logCols), LogBabyStepGiantStepRatio: lt.ratio}
	l := bgvlt.NewLinearTransformation(x.bp, p)
	if err := bgvlt.Encode(x.becd, dg, l); err != nil {
		b.encErr = true
	}
	b.common = clt.LinearTransformation(l)
	b.adv = l.GaloisElements(x.bp)
	b.advPkg = clt.GaloisElements(x.bp, p.DiagonalsIndexList, 1<<lt.logCols, lt.ratio)
	return
}

// build allocates and encodes through the scheme wrappers.
func (x *c12Ctx) build(lt *c12LT) (b c12Built) {
	if x.scheme == "bgv" {
		if lt.raw != nil {
			return c12BuildBGV(x, lt, c12Slices(lt, func(k, i int) uint64 { return lt.raw[k][i] }))
		}
		return c12BuildBGV(x, lt, c12Slices(lt, func(k, i int) int64 { return lt.diag[k][i] }))
	}
	dg := ckkslt.Diagonals[float64]{}
	sl := c12Slices(lt, func(k, i int) float64 { return float64(lt.diag[k][i]) })
	for k, d := range lt.idx {
		dg[d] = sl[k]
	}
	p := ckkslt.Parameters{DiagonalsIndexList: dg.DiagonalsIndexList(), LevelQ: lt.level, LevelP: lt.levelP,
		Scale: x.ltScale(lt), LogDimensions: x.dims(lt.logCols), LogBabyStepGiantStepRatio: lt.ratio}
	l := ckkslt.NewTransformation(x.cp, p)
	ecd := x.cecd
	if lt.encBig {
		ecd = x.cecdBig
	}
	if err := ckkslt.Encode(ecd, dg, l); err != nil {
		b.encErr = true
	}
	b.common = clt.LinearTransformation(l)
	b.adv = l.GaloisElements(x.cp)
	b.advPkg = ckkslt.GaloisElements(x.cp, p)
	return
}

func c12SortedU(v []uint64) []uint64 {
	w := append([]uint64{}, v...)
	sort.Slice(w, func(i, j int) bool { return w[i] < w[j] })
	return w
}

func c12Keys(l clt.LinearTransformation) []int {
	ks := make([]int, 0, len(l.Vec))
	for k := range l.Vec {
		ks = append(ks, k)
	}
	sort.Ints(ks)
	return ks
}

func c12I64(v []int64) string {
	if len(v) == 0 {
		return "-"
	}
	var sb strings.Builder
	for i, a := range v {
		if i > 0 {
			sb.WriteByte(',')
		}
		fmt.Fprintf(&sb, "%d", a)
	}
	return sb.String()
}

func c12Eq(a, b []int64) bool {
	if len(a) != len(b) {
		return false
	}
	for i := range a {
		if a[i] != b[i] {
			return false
		}
	}
	return true
}

// ---------- the eval op ----------

type c12Case struct {
	mode    string // single | new | many | seq
	inplace bool
	ctLevel int
	ctScale uint64
	outLvl  int
	logCols int
	v       []int64
	lts     []*c12LT
	vraw    []uint64 // bgv, non-nil: the input is encoded from these UNREDUCED uint64 values (v = vraw mod t)
	pkgKeys bool // the Galois keys come ONLY from the package-level GaloisElements(params, ltparams)
	cont    bool // run the continuation probes on every output
}

func (x *c12Ctx) describe(cs *c12Case) string {
	var sb strings.Builder
	fmt.Fprintf(&sb, "eval %s nth=%d t=%d rows=%d logcols=%d mode=%s inplace=%d ctlvl=%d ctscale=%d outlvl=%d", x.scheme, x.nthRoot, x.t, x.rows, cs.logCols, cs.mode, b2i(cs.inplace), cs.ctLevel, cs.ctScale, cs.outLvl)
	if x.scheme == "bgv" {
		// q_l mod t, for the rescaling rule of EvaluateSequential
		qs := make([]uint64, 0)
		for _, q := range x.rp.Q() {
			qs = append(qs, q%x.t)
		}
		fmt.Fprintf(&sb, " qmodt=%s", Vec(qs))
	} else {
		fmt.Fprintf(&sb, " qmodt=-")
	}
	fmt.Fprintf(&sb, " v=%s", c12I64(cs.v))
	for _, lt := range cs.lts {
		fmt.Fprintf(&sb, " LT ratio=%d lvl=%d scale=%s levelp=%d skind=%d encbig=%d", lt.ratio, lt.level, lt.scaleInt().String(), lt.levelP, lt.skind, b2i(lt.encBig))
		if lt.alias != nil || lt.short != nil || lt.raw != nil {
			fmt.Fprintf(&sb, " given=alias%v,short%v,raw%d", strings.ReplaceAll(fmt.Sprint(lt.alias), " ", ";"), strings.ReplaceAll(fmt.Sprint(lt.short), " ", ";"), b2i(lt.raw != nil))
		}
		for k, d := range lt.idx {
			fmt.Fprintf(&sb, " D %d %s", d, c12I64(lt.diag[k]))
		}
	}
	return sb.String()
}

func b2i(b bool) int {
	if b {
		return 1
	}
	return 0
}

// runCase executes the real code and emits the tie line and the probes.
func (x *c12Ctx) runCase(c *Ctx, cs *c12Case) {
	n := x.rows << cs.logCols
	desc := x.describe(cs)
	built := make([]c12Built, len(cs.lts))
	var adv []uint64
	seen := map[uint64]bool{}
	var head strings.Builder
	anyEncErr := false
	for i, lt := range cs.lts {
		built[i] = x.build(lt)
		anyEncErr = anyEncErr || built[i].encErr
		a := built[i].adv
		if built[i].common.N1 != 0 {
			a = c12SortedU(a)
		}
		fmt.Fprintf(&head, "lt N1=%d keys=%s adv=%s ", built[i].common.N1, IVec(c12Keys(built[i].common)), Vec(a))
		from := built[i].adv
		if cs.pkgKeys {
			from = built[i].advPkg
		}
		for _, g := range from {
			if !seen[g] {
				seen[g] = true
				adv = append(adv, g)
			}
		}
	}
	for i := range built {
		if !built[i].encErr {
			x.qpConsistent(c, cs.lts[i], built[i].common)
		}
	}
	if anyEncErr {
		c.Emit(desc, head.String()+"encode-err")
		c.Count("eval:encode-err")
		return
	}
	keys, reqs, missing := x.keysFor(adv, cs.lts[0].levelP)
	ev := x.schemeEval(keys)
	ct := x.encrypt(cs.v, cs.ctLevel, cs.ctScale, cs.logCols)
	if cs.vraw != nil {
		pt := bgv.NewPlaintext(x.bp, cs.ctLevel)
		pt.Scale = x.bp.NewScale(cs.ctScale)
		if err := x.becd.Encode(cs.vraw, pt); err != nil {
			panic(err)
		}
		var err error
		if ct, err = x.enc.EncryptNew(pt); err != nil {
			panic(err)
		}
	}
	commons := make([]clt.LinearTransformation, len(cs.lts))
	for i := range built {
		commons[i] = built[i].common
	}
	lev := clt.Evaluator{Evaluator: ev}
	var outs []*rlwe.Ciphertext
	status := Try(func() string {
		var err error
		switch cs.mode {
		case "single":
			var out *rlwe.Ciphertext
			if cs.inplace {
				out = ct
			} else {
				out = rlwe.NewCiphertext(x.rp, 1, cs.outLvl)
			}
			if x.scheme == "bgv" {
				err = bgvlt.NewEvaluator(ev).Evaluate(ct, bgvlt.LinearTransformation(commons[0]), out)
			} else {
				err = ckkslt.NewEvaluator(ev).Evaluate(ct, ckkslt.LinearTransformation(commons[0]), out)
			}
			outs = []*rlwe.Ciphertext{out}
		case "new":
			var out *rlwe.Ciphertext
			if x.scheme == "bgv" {
				out, err = bgvlt.NewEvaluator(ev).EvaluateNew(ct, bgvlt.LinearTransformation(commons[0]))
			} else {
				out, err = ckkslt.NewEvaluator(ev).EvaluateNew(ct, ckkslt.LinearTransformation(commons[0]))
			}
			outs = []*rlwe.Ciphertext{out}
		case "many":
			outs = make([]*rlwe.Ciphertext, len(commons))
			for i := range outs {
				outs[i] = rlwe.NewCiphertext(x.rp, 1, commons[i].LevelQ)
			}
			err = lev.EvaluateMany(ct, commons, outs)
		case "seq":
			out := rlwe.NewCiphertext(x.rp, 1, commons[0].LevelQ)
			err = lev.EvaluateSequential(ct, commons, out)
			outs = []*rlwe.Ciphertext{out}
		}
		if err != nil {
			return "err"
		}
		return "ok"
	})
	var sb strings.Builder
	sb.WriteString(head.String())
	fmt.Fprintf(&sb, "req=%s %s", Vec(*reqs), status)
	c.Count("eval:" + x.scheme + ":" + cs.mode + ":" + status)
	pname := "keys_sufficient"
	if cs.pkgKeys {
		pname = "keys_sufficient_pkg" // keys generated only from lintrans.GaloisElements on the raw index list
	}
	if len(*missing) != 0 {
		c.Probe(pname, desc, "C12-keys-missing", fmt.Sprintf("missing=%s", Vec(*missing)))
	} else {
		c.Probe(pname, fmt.Sprintf("%s logN=%d nLT=%d", x.scheme, x.logN, len(cs.lts)), "C12-keys-missing", "")
	}
	if status == "ok" {
		// references
		var want [][]int64
		switch cs.mode {
		case "seq":
			w := cs.v
			for _, lt := range cs.lts {
				w = x.refMatVec(lt, w)
			}
			want = [][]int64{w}
		default:
			for _, lt := range cs.lts {
				want = append(want, x.refMatVec(lt, cs.v))
			}
		}
		for i, out := range outs {
			x.maxErr = 0
			got := x.decrypt(out, n)
			vals := c12I64(got)
			if !c12Eq(got, want[i]) || math.IsInf(x.maxErr, 1) {
				// the tie is on "is the result the specified one": the model predicts exactly when it is not
				vals = "wrong"
				c.Count("eval:wrong-result")
			}
			if x.scheme == "ckks" && cs.mode == "seq" {
				fmt.Fprintf(&sb, " out lvl=%d scale=- vals=%s", out.Level(), vals)
			} else {
				fmt.Fprintf(&sb, " out lvl=%d scale=%s vals=%s", out.Level(), x.scaleStr(out.Scale), vals)
			}
			detail := ""
			if !c12Eq(got, want[i]) || math.IsInf(x.maxErr, 1) {
				detail = desc
			}
			name := "matvec_" + x.scheme
			c.Probe(name, fmt.Sprintf("logN=%d mode=%s i=%d", x.logN, cs.mode, i), "C12-matvec-wrong", detail)
			if x.scheme == "ckks" {
				d := ""
				if !(x.maxErr < 1.0/256) {
					d = fmt.Sprintf("maxerr>2^-8 %s", desc)
				}
				c.Probe("ckks_close_2pow-8", fmt.Sprintf("logN=%d mode=%s i=%d", x.logN, cs.mode, i), "C12-ckks-precision", d)
			}
			x.scaleProbe(c, cs, i, out, desc)
			// ckks along EvaluateSequential: the scale is no longer a power of two and another operation at another
			// scale matches scales only approximately — no exact expectation to probe
			if cs.cont && !(x.scheme == "ckks" && cs.mode == "seq") {
				x.continuations(c, cs, i, out, want[i], ev, desc)
			}
		}
	}
	c.Emit(desc, sb.String())
}

// qpConsistent: every encoded diagonal is ONE integer polynomial: its limbs modulo the auxiliary primes P are the
// residues of the (centred) integer polynomial its limbs modulo Q reconstruct.
func (x *c12Ctx) qpConsistent(c *Ctx, lt *c12LT, l clt.LinearTransformation) {
	tag := fmt.Sprintf("%s logN=%d lvl=%d levelp=%d big=%d", x.scheme, x.logN, lt.level, lt.levelP, b2i(lt.scaleBig != nil))
	d := ""
	N := x.rp.N()
	coeffs := make([]*big.Int, N)
	for i := range coeffs {
		coeffs[i] = new(big.Int)
	}
	keys := c12Keys(l)
	for _, k := range keys {
		v := l.Vec[k]
		if v.P.Level() < 0 {
			continue
		}
		rq := x.rp.RingQ().AtLevel(v.Q.Level())
		rpp := x.rp.RingP().AtLevel(v.P.Level())
		q, p := v.Q.CopyNew(), v.P.CopyNew()
		rq.IMForm(*q, *q)
		rq.INTT(*q, *q)
		rpp.IMForm(*p, *p)
		rpp.INTT(*p, *p)
		rq.PolyToBigintCentered(*q, 1, coeffs)
		tmp := new(big.Int)
		for j, pj := range rpp.ModuliChain()[:v.P.Level()+1] {
			pb := new(big.Int).SetUint64(pj)
			for i := 0; i < N && d == ""; i++ {
				if tmp.Mod(coeffs[i], pb); tmp.Uint64() != p.Coeffs[j][i] {
					d = fmt.Sprintf("diagonal key %d coefficient %d: the limb mod P[%d] is %d, the Q limbs give %s mod P[%d] = %d", k, i, j, p.Coeffs[j][i], coeffs[i].String(), j, tmp.Uint64())
				}
			}
		}
	}
	c.Probe("encode_qp_consistent", tag, "C12-encode-qp", d)
}

// scaleProbe: the recorded output scale is EXACTLY the documented ctIn.Scale * matrix.Scale — bgv: the integer
// product reduced modulo t, carrying the modulus t (rlwe.Scale.Mod), whichever way the transformation's scale was
// built (with or without a modulus, below or above t); along EvaluateSequential divided by the consumed q_l mod t.
// ckks: the exact product, no modulus (not along EvaluateSequential, where Rescale divides by a prime).
func (x *c12Ctx) scaleProbe(c *Ctx, cs *c12Case, i int, out *rlwe.Ciphertext, desc string) {
	tag := fmt.Sprintf("%s logN=%d mode=%s i=%d skind=%d", x.scheme, x.logN, cs.mode, i, cs.lts[utilsMin(i, len(cs.lts)-1)].skind)
	d := ""
	if x.scheme == "bgv" {
		t := new(big.Int).SetUint64(x.t)
		w := new(big.Int).SetUint64(cs.ctScale)
		mulmod := func(k uint64) { w.Mul(w, new(big.Int).SetUint64(k)); w.Mod(w, t) }
		if cs.mode == "seq" {
			lvl := cs.ctLevel
			for _, lt := range cs.lts {
				lvl = utilsMin(lvl, lt.level)
				mulmod(lt.scale)
				qi := new(big.Int).ModInverse(new(big.Int).SetUint64(x.rp.Q()[lvl]%x.t), t)
				w.Mul(w, qi)
				w.Mod(w, t)
				lvl--
			}
		} else {
			mulmod(cs.lts[i].scale)
		}
		got, acc := out.Scale.Value.Int(nil)
		switch {
		case out.Scale.Mod == nil:
			d = "the output scale carries no modulus"
		case out.Scale.Mod.Cmp(t) != 0:
			d = "the output scale carries the modulus " + out.Scale.Mod.String()
		case acc != big.Exact || got.Cmp(w) != 0:
			d = fmt.Sprintf("output scale %s, want %s = ctIn.Scale * matrix.Scale mod t", out.Scale.Value.Text('f', 3), w.String())
		}
	} else if cs.mode != "seq" {
		w := new(big.Float).SetPrec(256).SetUint64(cs.ctScale)
		w.Mul(w, new(big.Float).SetPrec(256).SetInt(cs.lts[i].scaleInt()))
		if out.Scale.Mod != nil {
			d = "the output scale carries a modulus"
		} else if out.Scale.Value.Cmp(w) != 0 {
			d = fmt.Sprintf("output scale %s, want %s", out.Scale.Value.Text('f', 3), w.Text('f', 0))
		}
	}
	if d != "" {
		d += " " + desc
	}
	c.Probe("out_scale_exact", tag, "C12-out-scale", d)
}

// continuations: the output of Evaluate/EvaluateMany/EvaluateSequential goes on through one more scale-dependent
// operation of the scheme evaluator (on a copy) and is decoded: bgv exactly, ckks within 2^-8.
//   cont_rescale   Rescale (divides the scale by q_level — modulo t for bgv)
//   cont_mulpt     Mul by a plaintext encoded at another scale
//   cont_add       Add with a fresh ciphertext at ANOTHER scale (the evaluator matches the scales)
//   cont_lintrans  one more Evaluate (the identity transformation at another scale) followed by Rescale
func (x *c12Ctx) continuations(c *Ctx, cs *c12Case, i int, out *rlwe.Ciphertext, want []int64, ev schemes.Evaluator, desc string) {
	n := len(want)
	tag := fmt.Sprintf("%s logN=%d mode=%s i=%d skind=%d", x.scheme, x.logN, cs.mode, i, cs.lts[utilsMin(i, len(cs.lts)-1)].skind)
	check := func(name string, ct *rlwe.Ciphertext, st string, w []int64) {
		d := ""
		if st != "ok" {
			d = "status=" + st + " " + desc
		} else {
			x.maxErr = 0
			got := x.decrypt(ct, n)
			if !c12Eq(got, w) || math.IsInf(x.maxErr, 1) || (x.scheme == "ckks" && !(x.maxErr < 1.0/256)) {
				d = "wrong values after the operation " + desc
			}
		}
		c.Probe(name, tag, "C12-continuation", d)
	}
	// ckks: only where the approximate arithmetic has room — bits more of scale fit under the modulus of the level,
	// and a Rescale leaves a scale of at least 2^30
	room := func(bits float64) bool {
		if x.scheme == "bgv" {
			return true
		}
		logQ := 0.0
		for _, q := range x.rp.Q()[:out.Level()+1] {
			logQ += math.Log2(float64(q))
		}
		return out.Scale.Log2()+bits+12 < logQ
	}
	keeps := func(bits float64) bool {
		return x.scheme == "bgv" || out.Scale.Log2()+bits-math.Log2(float64(x.rp.Q()[out.Level()])) >= 30
	}
	other := x.randVec(c, cs.logCols)
	oscale := x.ctScale(c)
	if x.scheme == "bgv" {
		oscale = 2 + c.rng.Below(x.t-2)
	}
	if out.Level() >= 1 && keeps(0) {
		ct := out.CopyNew()
		st := Try(func() string {
			if err := ev.Rescale(ct, ct); err != nil {
				return "err"
			}
			return "ok"
		})
		check("cont_rescale", ct, st, want)
	}
	if out.Level() >= 2 && x.scheme == "ckks" && out.Scale.Log2()-math.Log2(float64(x.rp.Q()[out.Level()]))-math.Log2(float64(x.rp.Q()[out.Level()-1])) >= 30 {
		// a transformation scale of two primes is rescaled twice
		ct := out.CopyNew()
		st := Try(func() string {
			for k := 0; k < 2; k++ {
				if err := ev.Rescale(ct, ct); err != nil {
					return "err"
				}
			}
			return "ok"
		})
		check("cont_rescale_twice", ct, st, want)
	}
	if room(34) {
		ct := out.CopyNew()
		var pt *rlwe.Plaintext
		small := make([]int64, n)
		w := make([]int64, n)
		for k := range small {
			small[k] = other[k]
			if x.scheme == "ckks" {
				small[k] = int64(c.rng.Intn(5)) - 2
			}
			w[k] = x.red(x.red(want[k]) * x.red(small[k]))
		}
		if x.scheme == "bgv" {
			pt = bgv.NewPlaintext(x.bp, ct.Level())
			pt.Scale = x.bp.NewScale(oscale)
			if err := x.becd.Encode(small, pt); err != nil {
				panic(err)
			}
		} else {
			pt = ckks.NewPlaintext(x.cp, ct.Level())
			pt.Scale = rlwe.NewScale(uint64(1 << 34))
			pt.LogDimensions = ring.Dimensions{Rows: 0, Cols: cs.logCols}
			z := make([]float64, n)
			for k := range z {
				z[k] = float64(small[k])
			}
			if err := x.cecd.Encode(z, pt); err != nil {
				panic(err)
			}
		}
		st := Try(func() string {
			if err := ev.Mul(ct, pt, ct); err != nil {
				return "err"
			}
			return "ok"
		})
		check("cont_mulpt", ct, st, w)
	}
	if room(0) {
		ct := out.CopyNew()
		fresh := x.encrypt(other, ct.Level(), oscale, cs.logCols)
		w := make([]int64, n)
		for k := range w {
			w[k] = x.red(x.red(want[k]) + x.red(other[k]))
		}
		st := Try(func() string {
			if err := ev.Add(ct, fresh, ct); err != nil {
				return "err"
			}
			return "ok"
		})
		check("cont_add", ct, st, w)
	}
	if out.Level() >= 1 && room(40) && keeps(40) {
		id := &c12LT{ratio: -1, level: out.Level(), logCols: cs.logCols, levelP: cs.lts[0].levelP, idx: []int{0}, scale: oscale}
		if x.scheme == "ckks" {
			id.scale = 1 << 40
		}
		one := make([]int64, n)
		for k := range one {
			one[k] = 1
		}
		id.diag = [][]int64{one}
		b := x.build(id)
		ct := rlwe.NewCiphertext(x.rp, 1, out.Level())
		st := Try(func() string {
			var err error
			if x.scheme == "bgv" {
				err = bgvlt.NewEvaluator(ev).Evaluate(out.CopyNew(), bgvlt.LinearTransformation(b.common), ct)
			} else {
				err = ckkslt.NewEvaluator(ev).Evaluate(out.CopyNew(), ckkslt.LinearTransformation(b.common), ct)
			}
			if err != nil {
				return "err"
			}
			if err = ev.Rescale(ct, ct); err != nil {
				return "err"
			}
			return "ok"
		})
		check("cont_lintrans", ct, st, want)
	}
}

// c12Scales: transformation scales built in every legal way x every size of k, every evaluation entry point,
// naive and BSGS; every output goes through scaleProbe and the continuation probes.
func c12Scales(c *Ctx, x *c12Ctx) {
	L := x.maxLevel()
	type sk struct {
		kind int
		k    uint64
	}
	var scales []sk
	if x.scheme == "bgv" {
		t := x.t
		scales = []sk{{1, 1}}
		for _, k := range []uint64{1, 3, 2 + c.rng.Below(t-3), t - 1} {
			scales = append(scales, sk{0, k}, sk{2, k})
		}
		// without a modulus nothing reduces k: above t as well (t+1 = 1, 2t-1 = t-1, a random one)
		scales = append(scales, sk{2, t + 1}, sk{2, 2*t - 1}, sk{2, t + 2 + c.rng.Below(1<<20)})
	} else {
		scales = []sk{{0, 1 << 40}, {1, 1 << 40}, {0, 1 << 36}, {2, 1 << 40}}
	}
	modes := []string{"single", "new", "many", "seq"}
	for si, s := range scales {
		for mi, mode := range modes {
			for _, ratio := range []int{-1, 1} {
				if !c.Thorough() && (si+mi+ratio)%2 == 0 && mode != "seq" {
					continue
				}
				logCols := x.logMaxC
				cs := &c12Case{ctLevel: L, ctScale: x.ctScale(c), logCols: logCols, v: x.randVec(c, logCols), mode: mode, cont: true, outLvl: L}
				if x.scheme == "bgv" && c.rng.Intn(3) == 0 {
					cs.ctScale = 1
				}
				nlt := 1
				if mode == "many" || mode == "seq" {
					nlt = 2
				}
				for i := 0; i < nlt; i++ {
					lt := x.randLT(c, logCols, 2+c.rng.Intn(3), ratio, L)
					lt.scale, lt.skind = s.k, s.kind
					if i == 1 && c.rng.Intn(2) == 0 {
						o := scales[c.rng.Intn(len(scales))]
						lt.scale, lt.skind = o.k, o.kind
					}
					cs.lts = append(cs.lts, lt)
				}
				if mode == "single" {
					cs.inplace = c.rng.Intn(2) == 0
				}
				c.Count(fmt.Sprintf("scales:%s:skind%d", x.scheme, s.kind))
				x.runCase(c, cs)
			}
		}
	}
}

// c12BigScales (ckks): transformation scale = q_L * q_(L-1) (about 2^80, far above Q[0]/2 and above 2^64: meant to be
// rescaled twice), entries up to 2^10 in absolute value, at the highest levels, naive and BSGS, both precision paths of
// the encoder (float64 / big.Float), every LevelP; value probes on the output and after rescaling twice.
func c12BigScales(c *Ctx, x *c12Ctx) {
	L := x.maxLevel()
	for _, lvl := range []int{L, L - 1} {
		if lvl < 1 {
			continue
		}
		sb := new(big.Int).Mul(new(big.Int).SetUint64(x.rp.Q()[lvl]), new(big.Int).SetUint64(x.rp.Q()[lvl-1]))
		for _, ratio := range []int{-1, 0, 2} {
			for _, encBig := range []bool{false, true} {
				for _, mode := range []string{"single", "new", "many"} {
					if !c.Thorough() && (lvl+ratio+b2i(encBig)+len(mode))%2 == 0 {
						continue
					}
					logCols := x.logMaxC
					if c.rng.Intn(3) == 0 {
						logCols = 1 + c.rng.Intn(x.logMaxC)
					}
					cs := &c12Case{ctLevel: lvl, ctScale: 1 << 40, logCols: logCols, v: x.randVec(c, logCols), mode: mode, cont: true, outLvl: lvl}
					nlt := 1
					if mode == "many" {
						nlt = 2
					}
					for i := 0; i < nlt; i++ {
						lt := x.randLT(c, logCols, 2+c.rng.Intn(3), ratio, lvl)
						lt.scaleBig, lt.encBig = sb, encBig
						lt.levelP = c.rng.Intn(x.rp.MaxLevelP() + 1)
						if i > 0 {
							lt.levelP = cs.lts[0].levelP
						}
						for k := range lt.diag {
							for j := range lt.diag[k] {
								lt.diag[k][j] = int64(c.rng.Intn(2049)) - 1024
							}
						}
						cs.lts = append(cs.lts, lt)
					}
					c.Count("bigscale:" + mode)
					x.runCase(c, cs)
				}
			}
		}
	}
}

// c12Round6: how the caller may legally GIVE the diagonals.
//   shared   several diagonal indexes hold ONE slice object (same backing array), in the same and in different
//            giant steps (indexes i, i+n/4, i+n/2, ...), non-constant contents
//   mixed    diagonals of different lengths in one map: a few entries, one row (bgv), half a row, full — the encoders
//            zero-pad (with BSGS only diagonals of the first giant step: the others are rotated row by row)
//   raw      bgv: entries given as unreduced uint64 (up to 2^64-1, top bit set, just above multiples of t) and as
//            int64 of any magnitude and sign; the input vector encoded from unreduced uint64 as well
// every combination naive / BSGS; matvec value probes (bgv exact per row, ckks 2^-8), trace, level and scale tied.
func c12Round6(c *Ctx, x *c12Ctx) {
	L := x.maxLevel()
	logCols := x.logMaxC
	cols := 1 << logCols
	n := x.rows * cols
	rawU := func() uint64 {
		switch c.rng.Intn(5) {
		case 0:
			return c.rng.U64() | 1<<63
		case 1:
			return ^uint64(0) - c.rng.Below(3)
		case 2:
			return (2+c.rng.Below(1<<20))*x.t + c.rng.Below(3)
		case 3:
			return c.rng.Below(1<<40) | 1<<39
		}
		return c.rng.U64()
	}
	for _, ratio := range []int{-1, 0, 1, 2} {
		for variant := 0; variant < 3; variant++ {
			for rep := 0; rep < c.Scale(2, 6); rep++ {
				lt := &c12LT{ratio: ratio, level: L, logCols: logCols, levelP: x.rp.MaxLevelP(), scale: x.ctScale(c)}
				if x.scheme == "ckks" {
					lt.scale = 1 << 40
				}
				randDiag := func() []int64 {
					d := make([]int64, n)
					for i := range d {
						if x.scheme == "bgv" {
							d[i] = int64(c.rng.Below(x.t))
						} else {
							d[i] = int64(c.rng.Intn(9)) - 4
						}
					}
					return d
				}
				cs := &c12Case{ctLevel: L, ctScale: x.ctScale(c), logCols: logCols, v: x.randVec(c, logCols), mode: []string{"single", "new"}[rep%2], outLvl: L}
				switch variant {
				case 0: // shared slice objects
					base := c.rng.Intn(cols / 4)
					lt.idx = []int{base, base + cols/4, base + cols/2, (base + 1) % cols, base + cols/4 + 2}
					if rep%2 == 1 {
						lt.idx = append(lt.idx, base+3*cols/4, (base+2)%cols)
					}
					// (small rings: the offsets may coincide — give those indexes distinct, unused ones)
					seenIdx := map[int]bool{}
					for k := range lt.idx {
						for seenIdx[lt.idx[k]%cols] {
							lt.idx[k] = (lt.idx[k] + 1) % cols
						}
						seenIdx[lt.idx[k]%cols] = true
					}
					lt.alias = map[int]int{}
					d0 := randDiag()
					for k := range lt.idx {
						switch {
						case k == 0:
							lt.diag = append(lt.diag, d0)
						case k <= 2 || k == 5: // the same object under indexes a quarter / half / three quarters of a row apart
							lt.diag = append(lt.diag, d0)
							lt.alias[k] = 0
						case k == 4: // ... and a second shared object, next to its twin
							lt.diag = append(lt.diag, lt.diag[3])
							lt.alias[4] = 3
						default:
							lt.diag = append(lt.diag, randDiag())
						}
					}
				case 1: // mixed lengths
					lt.idx = []int{0, 1, 2, 3}
					if rep%2 == 1 {
						lt.idx = append(lt.idx, cols/2, cols-1)
					}
					N1 := cols
					if ratio >= 0 {
						N1 = clt.FindBestBSGSRatio(lt.idx, cols, ratio)
					}
					lt.short = make([]int, len(lt.idx))
					lens := []int{1 + c.rng.Intn(cols-1), cols, cols / 2, n, 3}
					for k, d := range lt.idx {
						dd := randDiag()
						if d < N1 && (k+rep)%4 != 3 {
							ln := lens[(k+rep+variant)%len(lens)]
							if k == 1 {
								ln = cols // the first row only (bgv) / the whole row (ckks)
							}
							if ln < n {
								lt.short[k] = ln
								for i := ln; i < n; i++ {
									dd[i] = 0
								}
							}
						}
						lt.diag = append(lt.diag, dd)
					}
				default: // unreduced representatives
					if x.scheme != "bgv" {
						continue
					}
					lt.idx = x.randDiagSet(c, logCols, 2+c.rng.Intn(3))
					if rep%2 == 0 {
						for range lt.idx {
							r := make([]uint64, n)
							d := make([]int64, n)
							for i := range r {
								r[i] = rawU()
								d[i] = int64(r[i] % x.t)
							}
							lt.raw = append(lt.raw, r)
							lt.diag = append(lt.diag, d)
						}
						cs.vraw = make([]uint64, n)
						for i := range cs.vraw {
							cs.vraw[i] = rawU()
							cs.v[i] = int64(cs.vraw[i] % x.t)
						}
					} else {
						for range lt.idx {
							d := make([]int64, n)
							for i := range d {
								switch c.rng.Intn(4) {
								case 0:
									d[i] = -int64(c.rng.Below(1 << 62))
								case 1:
									d[i] = math.MinInt64 + int64(c.rng.Below(3))
								case 2:
									d[i] = -int64((1+c.rng.Below(1<<20))*x.t + c.rng.Below(3))
								default:
									d[i] = int64(c.rng.Below(1<<63 - 1))
								}
							}
							lt.diag = append(lt.diag, d)
						}
					}
				}
				cs.lts = []*c12LT{lt}
				c.Count(fmt.Sprintf("round6:%s:variant%d", x.scheme, variant))
				x.runCase(c, cs)
			}
		}
	}
}

// ---------- generators ----------

func (x *c12Ctx) randDiagSet(c *Ctx, logCols int, kind int) []int {
	cols := 1 << logCols
	pick := map[int]bool{} // normalised index -> chosen
	var idx []int
	add := func(d int) {
		nd := ((d % cols) + cols) % cols
		if pick[nd] {
			return
		}
		pick[nd] = true
		// spell it positively or negatively
		if nd != 0 && c.rng.Intn(2) == 0 {
			idx = append(idx, nd-cols)
		} else {
			idx = append(idx, nd)
		}
	}
	switch kind {
	case 0: // identity
		add(0)
	case 1: // a shift
		add(1 + c.rng.Intn(cols-1))
	case 2: // dense
		for d := 0; d < cols; d++ {
			add(d)
		}
	case 3: // band around 0
		w := 1 + c.rng.Intn(utilsMin(cols/2, 5))
		for d := -w; d <= w; d++ {
			add(d)
		}
	case 6: // empty set (boundary)
		return []int{}
	case 7: // index outside (-n, n) (malformed)
		return []int{cols + 1 + c.rng.Intn(3)}
	case 4: // the test-suite style list
		for _, d := range []int{-15, -4, -1, 0, 1, 2, 3, 4, 15} {
			if d > -cols && d < cols {
				add(d)
			}
		}
	default: // random subset
		k := 1 + c.rng.Intn(cols)
		for i := 0; i < k; i++ {
			add(c.rng.Intn(2*cols-1) - (cols - 1))
		}
	}
	// shuffle
	for i := len(idx) - 1; i > 0; i-- {
		j := c.rng.Intn(i + 1)
		idx[i], idx[j] = idx[j], idx[i]
	}
	return idx
}

func utilsMin(a, b int) int {
	if a < b {
		return a
	}
	return b
}

func (x *c12Ctx) randLT(c *Ctx, logCols, kind, ratio, level int) *c12LT {
	cols := 1 << logCols
	lt := &c12LT{ratio: ratio, level: level, logCols: logCols, levelP: x.rp.MaxLevelP()}
	lt.idx = x.randDiagSet(c, logCols, kind)
	if x.scheme == "bgv" {
		lt.scale = 1 + c.rng.Below(x.t-1)
	} else {
		lt.scale = 1 << 40
	}
	for range lt.idx {
		d := make([]int64, x.rows*cols)
		for i := range d {
			if x.scheme == "bgv" {
				d[i] = int64(c.rng.Below(x.t))
			} else {
				d[i] = int64(c.rng.Intn(9)) - 4
			}
			if kind == 0 || kind == 1 {
				// identity / shift matrices proper
				d[i] = 1
			}
		}
		lt.diag = append(lt.diag, d)
	}
	return lt
}

func (x *c12Ctx) randVec(c *Ctx, logCols int) []int64 {
	v := make([]int64, x.rows<<logCols)
	for i := range v {
		if x.scheme == "bgv" {
			v[i] = int64(c.rng.Below(x.t))
		} else {
			v[i] = int64(c.rng.Intn(17)) - 8
		}
	}
	return v
}

func (x *c12Ctx) ctScale(c *Ctx) uint64 {
	if x.scheme == "bgv" {
		return 1 + c.rng.Below(x.t-1)
	}
	return 1 << 40
}

func genC12(c *Ctx) {
	c12Index(c)
	logNs := []int{5, 6}
	if c.Thorough() {
		logNs = []int{4, 5, 6, 7}
	}
	for _, scheme := range []string{"bgv", "ckks"} {
		for _, logN := range logNs {
			x := newC12Ctx(scheme, logN)
			c12Evals(c, x)
			c12Scales(c, x)
			c12PermE2E(c, x)
			c12Round6(c, x)
			if scheme == "ckks" {
				c12BigScales(c, x)
			}
		}
	}
	c12LevelP(c)
	c12BigPrimes(c)
	c12Margins(c)
	c12PkgKeys(c)
}

// c12PkgKeys: the Galois keys are generated ONLY for what the package-level GaloisElements(params, ltparams)
// advertises for the caller's own list of diagonal indices (negative spellings kept as given) — sparse packing
// (ckks: every column count below the maximum; there 5^(-k mod N/2) != 5^(cols-k)), the naive algorithm and
// every BSGS ratio, single / new / many evaluation.  keys_sufficient_pkg: no key is missing; the result is M*v.
func c12PkgKeys(c *Ctx) {
	for _, scheme := range []string{"ckks", "bgv"} {
		x := newC12Ctx(scheme, c.Scale(5, 6))
		L := x.maxLevel()
		lcs := []int{x.logMaxC}
		if scheme == "ckks" {
			lcs = nil
			for lc := 1; lc <= x.logMaxC; lc++ {
				lcs = append(lcs, lc)
			}
		}
		for _, logCols := range lcs {
			for _, ratio := range []int{-1, -1, 0, 2} {
				for _, kind := range []int{1, 3, 4, 5} {
					if !c.Thorough() && (kind+logCols+ratio)%2 == 0 && ratio >= 0 {
						continue
					}
					cols := 1 << logCols
					lt := x.randLT(c, logCols, kind, ratio, L)
					// every non-zero index in its NEGATIVE spelling
					for i, d := range lt.idx {
						if d > 0 && c.rng.Intn(4) != 0 {
							lt.idx[i] = d - cols
						}
					}
					cs := &c12Case{ctLevel: L, ctScale: x.ctScale(c), logCols: logCols, v: x.randVec(c, logCols), mode: "new", outLvl: L, pkgKeys: true}
					cs.lts = []*c12LT{lt}
					if kind == 5 && c.rng.Intn(2) == 0 {
						cs.mode = "many"
						lt2 := x.randLT(c, logCols, 3, -1, L)
						for i, d := range lt2.idx {
							if d > 0 {
								lt2.idx[i] = d - cols
							}
						}
						cs.lts = append(cs.lts, lt2)
					}
					c.Count(fmt.Sprintf("pkgkeys:%s:ratio%d", scheme, ratio))
					x.runCase(c, cs)
				}
			}
		}
	}
}

// c12Margins: the only observable of the lazy-accumulation schedule — Parameters.QiOverflowMargin(level)
// and PiOverflowMargin(level) (the halved values are the windows of MultiplyByDiagMatrixBSGS) — on chains
// with 40..61-bit primes in Q and up to 62 bits in P, at every level, and without P.
func c12Margins(c *Ctx) {
	type chain struct{ q, p []int }
	chains := []chain{{[]int{54, 45, 45, 45}, []int{56}}, {[]int{60, 40, 58}, []int{61, 60}}, {[]int{40, 40}, nil}}
	if c.Thorough() {
		chains = append(chains, chain{[]int{55, 60, 35, 50, 59}, []int{57, 61, 58}}, chain{[]int{30, 31, 32, 33}, []int{34}})
	}
	emit := func(rp rlwe.Parameters) {
		for l := 0; l <= rp.MaxLevel(); l++ {
			c.Emit("margin "+Vec(rp.Q()[:l+1]), I(rp.QiOverflowMargin(l)))
		}
		for l := -1; l <= rp.MaxLevelP(); l++ {
			if l < 0 {
				c.Emit("margin -", I(rp.PiOverflowMargin(l)))
			} else {
				c.Emit("margin "+Vec(rp.P()[:l+1]), I(rp.PiOverflowMargin(l)))
			}
		}
	}
	for _, ch := range chains {
		rp, err := rlwe.NewParametersFromLiteral(rlwe.ParametersLiteral{LogN: 6, LogQ: ch.q, LogP: ch.p, NTTFlag: true})
		if err != nil {
			panic(err)
		}
		emit(rp)
	}
	// explicit primes just below 2^61 (Q) and 2^62 (P): the smallest margins (8 and 4)
	for _, bits := range [][2]int{{61, 62}, {61, 61}, {60, 62}} {
		gq := ring.NewNTTFriendlyPrimesGenerator(uint64(bits[0]), 128)
		qs, err := gq.NextDownstreamPrimes(3)
		if err != nil {
			panic(err)
		}
		gp := ring.NewNTTFriendlyPrimesGenerator(uint64(bits[1]), 128)
		ps, err := gp.NextDownstreamPrimes(5)
		if err != nil {
			panic(err)
		}
		rp, err := rlwe.NewParametersFromLiteral(rlwe.ParametersLiteral{LogN: 6, Q: qs, P: ps[3:], NTTFlag: true})
		if err != nil {
			c.Count("margins:chain-rejected")
			continue
		}
		emit(rp)
	}
}

// c12LevelP: several auxiliary primes, transformations and Galois keys at every LevelP in 0..max
// (the un-rotated part of the BSGS/naive evaluation is multiplied by the product of the first
// LevelP+1 auxiliary primes only).
func c12LevelP(c *Ctx) {
	logPs := [][]int{{56, 56, 56}}
	if c.Thorough() {
		logPs = [][]int{{56, 56}, {56, 56, 56}}
	}
	for _, logP := range logPs {
		x := newC12CtxQP("bgv", 5, []int{54, 45, 45, 45}, logP)
		L := x.maxLevel()
		for lp := 0; lp <= x.rp.MaxLevelP(); lp++ {
			for _, ratio := range []int{-1, 0, 1, 2} {
				kinds := []int{2, 3 + 2*c.rng.Intn(2)}
				if c.Thorough() {
					kinds = []int{1, 2, 3, 4, 5}
				}
				for _, kind := range kinds {
					lvl := 1 + c.rng.Intn(L)
					cs := &c12Case{ctLevel: 1 + c.rng.Intn(L), ctScale: x.ctScale(c), logCols: x.logMaxC, v: x.randVec(c, x.logMaxC), mode: "new", outLvl: lvl}
					lt := x.randLT(c, x.logMaxC, kind, ratio, lvl)
					lt.levelP = lp
					cs.lts = []*c12LT{lt}
					c.Count(fmt.Sprintf("levelP:%d/%d", lp, x.rp.MaxLevelP()))
					x.runCase(c, cs)
				}
			}
			// many and sequential at this LevelP
			for _, mode := range []string{"many", "seq"} {
				cs := &c12Case{ctLevel: L, ctScale: x.ctScale(c), logCols: x.logMaxC, v: x.randVec(c, x.logMaxC), mode: mode}
				for i := 0; i < 2; i++ {
					lvl := L
					if mode == "many" {
						lvl = 1 + c.rng.Intn(L)
					}
					lt := x.randLT(c, x.logMaxC, 2+c.rng.Intn(4), []int{-1, 0, 1, 2}[c.rng.Intn(4)], lvl)
					lt.levelP = lp
					cs.lts = append(cs.lts, lt)
				}
				cs.outLvl = cs.lts[0].level
				c.Count(fmt.Sprintf("levelP:%d/%d", lp, x.rp.MaxLevelP()))
				x.runCase(c, cs)
			}
		}
	}
}

// c12BigPrimes: 60/61-bit primes in Q and P, where the lazy-accumulation margins floor(2^64/q)
// (halved in the BSGS algorithm) are 16/8 resp. 8/4, and dense matrices with at least
// 2*floor(2^64/q) baby steps per giant step (256 consecutive diagonals, ratio 3 -> N1 = 32), plus
// the naive algorithm with many diagonals.
func c12BigPrimes(c *Ctx) {
	chains := [][2][]int{{{60, 60}, {61}}}
	if c.Thorough() {
		chains = [][2][]int{{{60, 60}, {61}}, {{61, 61}, {61}}, {{60, 45}, {61, 61}}}
	}
	for _, ch := range chains {
		x := newC12CtxQP("bgv", 9, ch[0], ch[1])
		L := x.maxLevel()
		cols := 1 << x.logMaxC
		type spec struct{ ratio, ndiag int }
		specs := []spec{{3, cols}, {-1, 64}}
		if c.Thorough() {
			specs = []spec{{3, cols}, {2, cols}, {4, cols}, {-1, 64}, {-1, cols}, {3, 200}}
		}
		for _, sp := range specs {
			lt := &c12LT{ratio: sp.ratio, level: L, logCols: x.logMaxC, levelP: x.rp.MaxLevelP(), scale: 1 + c.rng.Below(x.t-1)}
			start := c.rng.Intn(cols)
			for k := 0; k < sp.ndiag; k++ {
				d := (start + k) % cols
				if d != 0 && c.rng.Intn(2) == 0 {
					d -= cols
				}
				lt.idx = append(lt.idx, d)
				dv := make([]int64, x.rows*cols)
				for i := range dv {
					dv[i] = int64(c.rng.Below(x.t))
				}
				lt.diag = append(lt.diag, dv)
			}
			cs := &c12Case{ctLevel: L, ctScale: x.ctScale(c), logCols: x.logMaxC, v: x.randVec(c, x.logMaxC), mode: "new", outLvl: L}
			cs.lts = []*c12LT{lt}
			c.Count(fmt.Sprintf("bigprime:Q%v:ratio%d:diags%d", ch[0], sp.ratio, sp.ndiag))
			x.runCase(c, cs)
		}
	}
}

func c12Evals(c *Ctx, x *c12Ctx) {
	ratios := []int{-1, 0, 1, 2, 3}
	L := x.maxLevel()
	logColsChoices := []int{x.logMaxC}
	if x.scheme == "ckks" {
		logColsChoices = nil
		for lc := 1; lc <= x.logMaxC; lc++ {
			logColsChoices = append(logColsChoices, lc)
		}
	}
	reps := c.Scale(1, 4)
	for rep := 0; rep < reps; rep++ {
		for kind := 0; kind <= 5; kind++ {
			for _, ratio := range ratios {
				logCols := logColsChoices[c.rng.Intn(len(logColsChoices))]
				ltLevel := 1 + c.rng.Intn(L)
				ctLevel := 1 + c.rng.Intn(L)
				if c.rng.Intn(3) == 0 {
					ltLevel, ctLevel = L, L
				}
				cs := &c12Case{ctLevel: ctLevel, ctScale: x.ctScale(c), logCols: logCols, v: x.randVec(c, logCols)}
				cs.lts = []*c12LT{x.randLT(c, logCols, kind, ratio, ltLevel)}
				switch c.rng.Intn(3) {
				case 0:
					cs.mode = "new"
					cs.outLvl = ltLevel
				case 1:
					cs.mode, cs.inplace = "single", true
					cs.outLvl = ctLevel
				default:
					cs.mode = "single"
					cs.outLvl = 1 + c.rng.Intn(L)
				}
				c.Count(fmt.Sprintf("kind:%d", kind))
				c.Count(fmt.Sprintf("ratio:%d", ratio))
				x.runCase(c, cs)
			}
		}
		// many / sequential
		for k := 0; k < c.Scale(3, 8); k++ {
			logCols := logColsChoices[c.rng.Intn(len(logColsChoices))]
			nlt := 2 + c.rng.Intn(2)
			cs := &c12Case{ctLevel: L, ctScale: x.ctScale(c), logCols: logCols, v: x.randVec(c, logCols), mode: "many"}
			if k%2 == 1 {
				cs.mode = "seq"
				nlt = utilsMin(nlt, L)
			}
			for i := 0; i < nlt; i++ {
				lvl := 1 + c.rng.Intn(L)
				if cs.mode == "seq" {
					lvl = L
				}
				kind := 1 + c.rng.Intn(5)
				cs.lts = append(cs.lts, x.randLT(c, logCols, kind, ratios[c.rng.Intn(len(ratios))], lvl))
			}
			cs.outLvl = cs.lts[0].level
			x.runCase(c, cs)
		}
	}
	// boundary / malformed stream
	for _, kind := range []int{6, 7} {
		for _, ratio := range []int{-1, 0, 2} {
			for _, inplace := range []bool{false, true} {
				cs := &c12Case{ctLevel: L, ctScale: x.ctScale(c), logCols: x.logMaxC, v: x.randVec(c, x.logMaxC), mode: "single", inplace: inplace, outLvl: L}
				cs.lts = []*c12LT{x.randLT(c, x.logMaxC, kind, ratio, L)}
				c.Count(fmt.Sprintf("boundary:kind%d", kind))
				x.runCase(c, cs)
			}
		}
	}
	// EvaluateSequential with fewer levels than transformations: must be an error, not a panic
	{
		cs := &c12Case{ctLevel: 1, ctScale: x.ctScale(c), logCols: x.logMaxC, v: x.randVec(c, x.logMaxC), mode: "seq"}
		for i := 0; i < 3; i++ {
			cs.lts = append(cs.lts, x.randLT(c, x.logMaxC, 3, 1, L))
		}
		cs.outLvl = L
		c.Count("boundary:seq-too-few-levels")
		x.runCase(c, cs)
	}
}

// ---------- pure index functions ----------

func c12IndexStr(index map[int][]int) string {
	ks := make([]int, 0, len(index))
	for k := range index {
		ks = append(ks, k)
	}
	sort.Ints(ks)
	if len(ks) == 0 {
		return "-"
	}
	parts := make([]string, len(ks))
	for i, k := range ks {
		parts[i] = fmt.Sprintf("%d:%s", k, IVec(index[k]))
	}
	return strings.Join(parts, "|")
}

func c12Index(c *Ctx) {
	n := c.Scale(150, 1500)
	for it := 0; it < n; it++ {
		logSlots := 1 + c.rng.Intn(7)
		slots := 1 << logSlots
		var diags []int
		switch c.rng.Intn(6) {
		case 0:
			diags = []int{}
		case 1:
			for d := 0; d < slots; d++ {
				diags = append(diags, d)
			}
		case 2:
			diags = []int{c.rng.Intn(2*slots-1) - (slots - 1)}
		default:
			k := 1 + c.rng.Intn(slots)
			seen := map[int]bool{}
			for i := 0; i < k; i++ {
				d := c.rng.Intn(2*slots-1) - (slots - 1)
				if !seen[d] {
					seen[d] = true
					diags = append(diags, d)
				}
			}
		}
		N1 := 1 << c.rng.Intn(logSlots+1)
		{
			index, r1, r2 := clt.BSGSIndex(diags, slots, N1)
			c.Emit(fmt.Sprintf("bsgsindex %s %d %d", IVec(diags), slots, N1),
				fmt.Sprintf("%s %s %s", c12IndexStr(index), IVec(r1), IVec(r2)))
		}
		for _, lr := range []int{0, 1, 2, 3} {
			if c.rng.Intn(2) == 0 {
				continue
			}
			c.Emit(fmt.Sprintf("bestratio %s %d %d", IVec(diags), slots, lr), I(clt.FindBestBSGSRatio(diags, slots, lr)))
		}
		// advertised Galois elements through the public function
		{
			logN := logSlots + 1
			if logN < 4 {
				logN = 4
			}
			p, err := rlwe.NewParametersFromLiteral(rlwe.ParametersLiteral{LogN: logN, LogQ: []int{50}, LogP: []int{50}, NTTFlag: true})
			if err != nil {
				panic(err)
			}
			ratio := c.rng.Intn(5) - 1
			g := clt.GaloisElements(p, diags, slots, ratio)
			if ratio >= 0 {
				g = c12SortedU(g)
			}
			c.Emit(fmt.Sprintf("galels %d %s %d %d", p.RingQ().NthRoot(), IVec(diags), slots, ratio), Vec(g))
			// allocation
			lt := clt.NewLinearTransformation(p, clt.Parameters{DiagonalsIndexList: diags, LevelQ: 0, LevelP: 0, Scale: rlwe.NewScale(1),
				LogDimensions: ring.Dimensions{Rows: 0, Cols: logSlots}, LogBabyStepGiantStepRatio: ratio})
			c.Emit(fmt.Sprintf("alloc %s %d %d", IVec(diags), logSlots, ratio), fmt.Sprintf("%d %s", lt.N1, IVec(c12Keys(lt))))
		}
		// Diagonals.At
		if len(diags) > 0 {
			m := clt.Diagonals[int]{}
			for _, d := range diags {
				m[d] = []int{d}
			}
			for k := 0; k < 3; k++ {
				i := c.rng.Intn(2*slots-1) - (slots - 1)
				out := "err"
				if v, err := m.At(i, slots); err == nil {
					out = I(v[0])
				}
				c.Emit(fmt.Sprintf("at %s %d %d", IVec(diags), i, slots), out)
				// documented equivalence -i = n-i
				nd := ((i % slots) + slots) % slots
				_, has := m[nd]
				_, has2 := m[nd-slots]
				detail := ""
				if (has || has2) && out == "err" {
					detail = fmt.Sprintf("keys=%s At(%d,%d)=err", IVec(diags), i, slots)
				}
				c.Probe("at_equivalence", fmt.Sprintf("%d %d", i, slots), "C12-At-negative-index", detail)
			}
		}
	}
	c12Perm(c)
}

func c12Perm(c *Ctx) {
	n := c.Scale(20, 200)
	for it := 0; it < n; it++ {
		logSlots := 2 + c.rng.Intn(4) // bgv: 2 x 2^(logSlots-1)
		half := 1 << (logSlots - 1)
		var perm [2][]bgvlt.PermutationMapping[uint64]
		var desc strings.Builder
		for r := 0; r < 2; r++ {
			p := make([]int, half)
			for i := range p {
				p[i] = i
			}
			for i := half - 1; i > 0; i-- {
				j := c.rng.Intn(i + 1)
				p[i], p[j] = p[j], p[i]
			}
			k := c.rng.Intn(half + 1)
			for j := 0; j < k; j++ {
				s := 1 + c.rng.Below(65536)
				perm[r] = append(perm[r], bgvlt.PermutationMapping[uint64]{From: j, To: p[j], Scaling: s})
				fmt.Fprintf(&desc, " M %d %d %d %d", r, j, p[j], s)
			}
		}
		dg := bgvlt.Permutation[uint64](perm).GetDiagonals(logSlots)
		ks := make([]int, 0)
		for k := range dg {
			ks = append(ks, k)
		}
		sort.Ints(ks)
		parts := []string{}
		for _, k := range ks {
			parts = append(parts, fmt.Sprintf("%d:%s", k, Vec(dg[k])))
		}
		out := strings.Join(parts, "|")
		if out == "" {
			out = "-"
		}
		c.Emit(fmt.Sprintf("permdiags %d%s", half, desc.String()), out)
		// probe: the diagonals of a permutation, applied as a matrix, realise the permutation
		v := make([]uint64, 2*half)
		for i := range v {
			v[i] = c.rng.Below(65537)
		}
		want := make([]uint64, 2*half)
		for r := 0; r < 2; r++ {
			for _, pm := range perm[r] {
				want[r*half+pm.To] = pm.Scaling * v[r*half+pm.From] % 65537
			}
		}
		got := make([]uint64, 2*half)
		for d, dv := range dg {
			for r := 0; r < 2; r++ {
				for cc := 0; cc < half; cc++ {
					got[r*half+cc] = (got[r*half+cc] + dv[r*half+cc]%65537*v[r*half+(cc+d)%half]) % 65537
				}
			}
		}
		detail := ""
		for i := range got {
			if got[i] != want[i] {
				detail = desc.String()
			}
		}
		c.Probe("perm_diagonals_realise_permutation", I(half), "C12-perm-diagonals", detail)
	}
}
