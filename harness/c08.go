package main

// C08 — serialization is faithful, size-exact, stream-composable and fails cleanly.
//
// For every serializable type the generator builds values over small parameters and emits
//   * tie lines   enc/size/wt/dec/decc/many : the Lean codec model must reproduce the bytes
//     written by the real WriteTo, the number announced by BinarySize and the object decoded
//     by the real ReadFrom;
//   * probe lines: the property's predicates evaluated on the real code (size_exact,
//     writers_agree, roundtrip_fresh, roundtrip_dirty, chunked_read, back_to_back,
//     truncation, corrupt_length, writer_fails, ...).
// Every call into lattigo is wrapped in recover; calls that can kill the process are made
// in a child process (c08_child.go).

import (
	"bufio"
	"bytes"
	"fmt"
	"hash/fnv"
	"io"
	"os"
	"runtime"
	"sort"
	"strings"
	"time"

	"github.com/tuneinsight/lattigo/v6/circuits/ckks/bootstrapping"
	"github.com/tuneinsight/lattigo/v6/circuits/common/polynomial"
	"github.com/tuneinsight/lattigo/v6/core/rgsw"
	"github.com/tuneinsight/lattigo/v6/core/rlwe"
	"github.com/tuneinsight/lattigo/v6/multiparty"
	"github.com/tuneinsight/lattigo/v6/ring"
	"github.com/tuneinsight/lattigo/v6/ring/ringqp"
	"github.com/tuneinsight/lattigo/v6/utils/bignum"
	"github.com/tuneinsight/lattigo/v6/utils/buffer"
	"github.com/tuneinsight/lattigo/v6/utils/structs"
)

func init() { register("C08", genC08) }

var c08T [3]time.Duration

type c08Obj interface {
	BinarySize() int
	io.WriterTo
	io.ReaderFrom
	MarshalBinary() ([]byte, error)
	UnmarshalBinary([]byte) error
}

type c08Spec struct {
	ty     string // model format name
	goType string // Go type (finding keys, child registry)
	label  string // variant
	mk     func() c08Obj
}

// c08Fresh: zero receivers by Go type (also used by the child process).
var c08Fresh = map[string]func() c08Obj{
	"structs.Vector[uint64]":                func() c08Obj { return new(structs.Vector[uint64]) },
	"structs.Vector[uint32]":                func() c08Obj { return new(structs.Vector[uint32]) },
	"structs.Vector[uint16]":                func() c08Obj { return new(structs.Vector[uint16]) },
	"structs.Vector[uint8]":                 func() c08Obj { return new(structs.Vector[uint8]) },
	"structs.Matrix[uint64]":                func() c08Obj { return new(structs.Matrix[uint64]) },
	"structs.Map[uint64,ring.Poly]":         func() c08Obj { return new(structs.Map[uint64, ring.Poly]) },
	"ring.Poly":                             func() c08Obj { return new(ring.Poly) },
	"ringqp.Poly":                           func() c08Obj { return new(ringqp.Poly) },
	"rlwe.PlaintextMetaData":                func() c08Obj { return new(rlwe.PlaintextMetaData) },
	"rlwe.CiphertextMetaData":               func() c08Obj { return new(rlwe.CiphertextMetaData) },
	"rlwe.MetaData":                         func() c08Obj { return new(rlwe.MetaData) },
	"rlwe.Ciphertext":                       func() c08Obj { return new(rlwe.Ciphertext) },
	"rlwe.Plaintext":                        func() c08Obj { return new(rlwe.Plaintext) },
	"rlwe.Element[ringqp.Poly]":             func() c08Obj { return new(rlwe.Element[ringqp.Poly]) },
	"rlwe.VectorQP":                         func() c08Obj { return new(rlwe.VectorQP) },
	"rlwe.PublicKey":                        func() c08Obj { return new(rlwe.PublicKey) },
	"rlwe.SecretKey":                        func() c08Obj { return new(rlwe.SecretKey) },
	"rlwe.GadgetCiphertext":                 func() c08Obj { return new(rlwe.GadgetCiphertext) },
	"rlwe.EvaluationKey":                    func() c08Obj { return new(rlwe.EvaluationKey) },
	"rlwe.RelinearizationKey":               func() c08Obj { return new(rlwe.RelinearizationKey) },
	"rlwe.GaloisKey":                        func() c08Obj { return new(rlwe.GaloisKey) },
	"rlwe.MemEvaluationKeySet":              func() c08Obj { return new(rlwe.MemEvaluationKeySet) },
	"rgsw.Ciphertext":                       func() c08Obj { return new(rgsw.Ciphertext) },
	"polynomial.PowerBasis":                 func() c08Obj { return new(polynomial.PowerBasis) },
	"bootstrapping.EvaluationKeys":          func() c08Obj { return new(bootstrapping.EvaluationKeys) },
	"rlwe.Parameters":                       func() c08Obj { return new(rlwe.Parameters) },
	"multiparty.PublicKeyGenShare":          func() c08Obj { return new(multiparty.PublicKeyGenShare) },
	"multiparty.EvaluationKeyGenShare":      func() c08Obj { return new(multiparty.EvaluationKeyGenShare) },
	"multiparty.RelinearizationKeyGenShare": func() c08Obj { return new(multiparty.RelinearizationKeyGenShare) },
	"multiparty.GaloisKeyGenShare":          func() c08Obj { return new(multiparty.GaloisKeyGenShare) },
	"multiparty.KeySwitchShare":             func() c08Obj { return new(multiparty.KeySwitchShare) },
	"multiparty.PublicKeySwitchShare":       func() c08Obj { return new(multiparty.PublicKeySwitchShare) },
	"multiparty.RefreshShare":               func() c08Obj { return new(multiparty.RefreshShare) },
	"multiparty.ShamirSecretShare":          func() c08Obj { return new(multiparty.ShamirSecretShare) },
}

// ---------------------------------------------------------------------------------------
// value construction

type c08Gen struct {
	c      *Ctx
	pA, pB rlwe.Parameters // pA: LogN 4, 2 Q, 1 P   pB: LogN 4, 1 Q, no P
	pC     rlwe.Parameters // pC: LogN 5, 3 Q, 2 P
	child  *c08Child
	// rng: private stream. Ctx.rng streams of consecutive seeds are shifted copies of one
	// another (state = (seed+k)*G + c), so the stream used here is re-keyed through one
	// mixed output of it.
	rng *SplitMix
}

func c08MustParams(logN int, logQ, logP []int) rlwe.Parameters {
	p, err := rlwe.NewParametersFromLiteral(rlwe.ParametersLiteral{LogN: logN, LogQ: logQ, LogP: logP, NTTFlag: true})
	if err != nil {
		panic(err)
	}
	return p
}

func (g *c08Gen) fillVec(v []uint64) {
	for i := range v {
		switch g.rng.Intn(16) {
		case 0:
			v[i] = 0
		case 1:
			v[i] = ^uint64(0)
		default:
			v[i] = g.rng.U64()
		}
	}
}
func (g *c08Gen) fillPoly(p ring.Poly) {
	for i := range p.Coeffs {
		g.fillVec(p.Coeffs[i])
	}
}
func (g *c08Gen) fillQP(p ringqp.Poly) { g.fillPoly(p.Q); g.fillPoly(p.P) }
func (g *c08Gen) fillGadget(ct *rlwe.GadgetCiphertext) {
	for i := range ct.Value {
		for j := range ct.Value[i] {
			for k := range ct.Value[i][j] {
				g.fillQP(ct.Value[i][j][k])
			}
		}
	}
}
func (g *c08Gen) newPoly(n, level int) ring.Poly {
	p := ring.NewPoly(n, level)
	g.fillPoly(p)
	return p
}
func (g *c08Gen) newQP(n, lq, lp int) ringqp.Poly {
	p := ringqp.Poly{Q: ring.NewPoly(n, lq)}
	if lp >= 0 {
		p.P = ring.NewPoly(n, lp)
	}
	g.fillQP(p)
	return p
}

// metadata variants: index -> (scale, flags, dims)
func (g *c08Gen) meta(i int) *rlwe.MetaData {
	m := &rlwe.MetaData{}
	switch i % 6 {
	case 0:
		m.Scale = rlwe.NewScale(1 << 40)
		m.IsNTT, m.IsMontgomery = true, false
		m.IsBatched = true
		m.LogDimensions = ring.Dimensions{Rows: 0, Cols: 3}
	case 1:
		m.Scale = rlwe.NewScaleModT(3, 65537)
		m.IsNTT, m.IsMontgomery = true, true
		m.IsBatched, m.IsBitReversed = true, true
		m.LogDimensions = ring.Dimensions{Rows: -1, Cols: -128}
	case 2:
		m.Scale = rlwe.NewScale(1.5)
		m.LogDimensions = ring.Dimensions{Rows: 0, Cols: 0}
	case 3:
		m.Scale = rlwe.NewScale(float64(g.rng.U64()>>11) * 1.25)
		m.IsMontgomery = true
		m.IsBitReversed = true
		m.LogDimensions = ring.Dimensions{Rows: 127, Cols: -2}
	case 4:
		m.Scale = rlwe.NewScaleModT(g.rng.Below(65537), 65537)
		m.IsNTT = true
		m.LogDimensions = ring.Dimensions{Rows: -128, Cols: 127}
	case 5: // zero value of the struct (Scale.Value = 0, precision 0)
	}
	return m
}

func (g *c08Gen) ciphertext(p rlwe.Parameters, degree, level, metaIdx int) *rlwe.Ciphertext {
	ct := rlwe.NewCiphertext(p, degree, level)
	for i := range ct.Value {
		g.fillPoly(ct.Value[i])
	}
	if metaIdx < 0 {
		ct.MetaData = nil
	} else {
		ct.MetaData = g.meta(metaIdx)
	}
	return ct
}

func (g *c08Gen) evk(p rlwe.Parameters, compressed, expand bool, b2d int, lq, lp int) *rlwe.EvaluationKey {
	kgen := rlwe.NewKeyGenerator(p)
	sk, sk2 := kgen.GenSecretKeyNew(), kgen.GenSecretKeyNew()
	ep := rlwe.EvaluationKeyParameters{Compressed: compressed, BaseTwoDecomposition: &b2d, LevelQ: &lq, LevelP: &lp}
	k := kgen.GenEvaluationKeyNew(sk, sk2, ep)
	if expand {
		if err := k.Expand(p, nil); err != nil {
			panic(err)
		}
	}
	return k
}

func (g *c08Gen) galoisKey(p rlwe.Parameters, galEl uint64, compressed bool) *rlwe.GaloisKey {
	kgen := rlwe.NewKeyGenerator(p)
	sk := kgen.GenSecretKeyNew()
	return kgen.GenGaloisKeyNew(galEl, sk, rlwe.EvaluationKeyParameters{Compressed: compressed})
}

func (g *c08Gen) relinKey(p rlwe.Parameters, compressed bool) *rlwe.RelinearizationKey {
	kgen := rlwe.NewKeyGenerator(p)
	sk := kgen.GenSecretKeyNew()
	return kgen.GenRelinearizationKeyNew(sk, rlwe.EvaluationKeyParameters{Compressed: compressed})
}

func (g *c08Gen) gadget(p rlwe.Parameters, degree, lq, lp, b2d int) *rlwe.GadgetCiphertext {
	ct := rlwe.NewGadgetCiphertext(p, degree, lq, lp, b2d)
	g.fillGadget(ct)
	return ct
}

func (g *c08Gen) specs() []c08Spec {
	pA, pB, pC := g.pA, g.pB, g.pC
	var s []c08Spec
	add := func(ty, goType, label string, mk func() c08Obj) {
		s = append(s, c08Spec{ty: ty, goType: goType, label: label, mk: mk})
	}

	// structs.Vector[uint64]: lengths around the bufio buffer size (4096 bytes = 512 words)
	for _, n := range []int{0, 1, 5, 511, 512, 600} {
		n := n
		add("vecu64", "structs.Vector[uint64]", fmt.Sprintf("len%d", n), func() c08Obj {
			v := make(structs.Vector[uint64], n)
			g.fillVec(v)
			return &v
		})
	}
	// the other element widths of structs.Vector (buffer.ReadUint8/16/32Slice), Matrix and Map
	for _, n := range []int{0, 1, 7, 4096, 5000} {
		n := n
		add("vecu32", "structs.Vector[uint32]", fmt.Sprintf("len%d", n), func() c08Obj {
			v := make(structs.Vector[uint32], n)
			for i := range v {
				v[i] = uint32(g.rng.U64())
			}
			return &v
		})
		add("vecu16", "structs.Vector[uint16]", fmt.Sprintf("len%d", n), func() c08Obj {
			v := make(structs.Vector[uint16], n)
			for i := range v {
				v[i] = uint16(g.rng.U64())
			}
			return &v
		})
		add("vecu8", "structs.Vector[uint8]", fmt.Sprintf("len%d", n), func() c08Obj {
			v := make(structs.Vector[uint8], n)
			for i := range v {
				v[i] = uint8(g.rng.U64())
			}
			return &v
		})
	}
	for _, sh := range [][2]int{{0, 0}, {1, 16}, {3, 5}, {2, 600}} {
		sh := sh
		add("poly", "structs.Matrix[uint64]", fmt.Sprintf("%dx%d", sh[0], sh[1]), func() c08Obj {
			m := make(structs.Matrix[uint64], sh[0])
			for i := range m {
				m[i] = make([]uint64, sh[1])
				g.fillVec(m[i])
			}
			return &m
		})
	}
	for _, keys := range [][]uint64{{}, {7}, {1 << 63, 3, 5}} {
		keys := keys
		add("mappoly", "structs.Map[uint64,ring.Poly]", fmt.Sprintf("keys%d", len(keys)), func() c08Obj {
			m := structs.Map[uint64, ring.Poly]{}
			for i, k := range keys {
				p := g.newPoly(16, i%2)
				m[k] = &p
			}
			return &m
		})
	}
	// ring.Poly
	for _, sh := range [][2]int{{16, 0}, {16, 1}, {16, 2}, {32, 0}, {1024, 0}} {
		sh := sh
		add("poly", "ring.Poly", fmt.Sprintf("N%d-L%d", sh[0], sh[1]), func() c08Obj { p := g.newPoly(sh[0], sh[1]); return &p })
	}
	add("poly", "ring.Poly", "norows", func() c08Obj { return &ring.Poly{} })
	add("poly", "ring.Poly", "emptyrows", func() c08Obj { return &ring.Poly{Coeffs: [][]uint64{{}, {}}} })
	// ringqp.Poly
	for _, sh := range [][3]int{{16, 1, 0}, {16, 0, -1}, {32, 2, 1}} {
		sh := sh
		add("polyqp", "ringqp.Poly", fmt.Sprintf("N%d-LQ%d-LP%d", sh[0], sh[1], sh[2]), func() c08Obj { p := g.newQP(sh[0], sh[1], sh[2]); return &p })
	}
	// metadata blocks
	for i := 0; i < 6; i++ {
		i := i
		add("meta", "rlwe.MetaData", fmt.Sprintf("m%d", i), func() c08Obj { return g.meta(i) })
		add("ptmeta", "rlwe.PlaintextMetaData", fmt.Sprintf("m%d", i), func() c08Obj { m := g.meta(i).PlaintextMetaData; return &m })
	}
	for i := 0; i < 4; i++ {
		i := i
		add("ctmeta", "rlwe.CiphertextMetaData", fmt.Sprintf("ntt%d-mont%d", i&1, i>>1), func() c08Obj {
			return &rlwe.CiphertextMetaData{IsNTT: i&1 == 1, IsMontgomery: i>>1 == 1}
		})
	}
	// ciphertexts: degree x level x metadata
	type ctShape struct {
		p             rlwe.Parameters
		pn            string
		deg, lvl, mdx int
	}
	for _, sh := range []ctShape{{pA, "A", 1, 1, 0}, {pA, "A", 1, 0, 1}, {pA, "A", 2, 1, 3}, {pA, "A", 0, 1, 2}, {pA, "A", 1, 1, -1}, {pB, "B", 1, 0, 4}, {pC, "C", 1, 2, 5}, {pA, "A", 1, 1, 5}} {
		sh := sh
		add("ct", "rlwe.Ciphertext", fmt.Sprintf("p%s-deg%d-L%d-meta%d", sh.pn, sh.deg, sh.lvl, sh.mdx), func() c08Obj {
			return g.ciphertext(sh.p, sh.deg, sh.lvl, sh.mdx)
		})
	}
	for _, sh := range []ctShape{{pA, "A", 0, 1, 1}, {pA, "A", 0, 0, 0}, {pB, "B", 0, 0, -1}, {pC, "C", 0, 2, 3}} {
		sh := sh
		add("pt", "rlwe.Plaintext", fmt.Sprintf("p%s-L%d-meta%d", sh.pn, sh.lvl, sh.mdx), func() c08Obj {
			pt := rlwe.NewPlaintext(sh.p, sh.lvl)
			g.fillPoly(pt.Value)
			if sh.mdx < 0 {
				pt.MetaData = nil
			} else {
				pt.MetaData = g.meta(sh.mdx)
			}
			return pt
		})
	}
	for _, sh := range [][3]int{{1, 1, 0}, {0, 0, 0}, {2, 1, -1}} {
		sh := sh
		add("elqp", "rlwe.Element[ringqp.Poly]", fmt.Sprintf("deg%d-LQ%d-LP%d", sh[0], sh[1], sh[2]), func() c08Obj {
			e := rlwe.NewElementExtended(pA, sh[0], sh[1], sh[2])
			for i := range e.Value {
				g.fillQP(e.Value[i])
			}
			if sh[2] < 0 {
				e.MetaData = nil
			}
			return e
		})
	}
	g.schemePlaintextSpecs(add)
	// keys
	add("sk", "rlwe.SecretKey", "pA", func() c08Obj { return rlwe.NewKeyGenerator(pA).GenSecretKeyNew() })
	add("sk", "rlwe.SecretKey", "pB", func() c08Obj { return rlwe.NewKeyGenerator(pB).GenSecretKeyNew() })
	add("sk", "rlwe.SecretKey", "pC", func() c08Obj { return rlwe.NewKeyGenerator(pC).GenSecretKeyNew() })
	add("pk", "rlwe.PublicKey", "pA", func() c08Obj { _, pk := rlwe.NewKeyGenerator(pA).GenKeyPairNew(); return pk })
	add("pk", "rlwe.PublicKey", "pB", func() c08Obj { _, pk := rlwe.NewKeyGenerator(pB).GenKeyPairNew(); return pk })
	add("pk", "rlwe.PublicKey", "pC", func() c08Obj { _, pk := rlwe.NewKeyGenerator(pC).GenKeyPairNew(); return pk })
	for _, n := range []int{0, 1, 3} {
		n := n
		add("vecqp", "rlwe.VectorQP", fmt.Sprintf("len%d", n), func() c08Obj {
			v := rlwe.NewVectorQP(pA, n, 1, 0)
			for i := range v {
				g.fillQP(v[i])
			}
			return &v
		})
	}
	for _, sh := range [][4]int{{1, 1, 0, 0}, {0, 1, 0, 0}, {1, 1, -1, 12}, {1, 0, 0, 0}} {
		sh := sh
		add("gct", "rlwe.GadgetCiphertext", fmt.Sprintf("deg%d-LQ%d-LP%d-b2d%d", sh[0], sh[1], sh[2], sh[3]), func() c08Obj {
			return g.gadget(pA, sh[0], sh[1], sh[2], sh[3])
		})
	}
	type evkShape struct {
		name     string
		comp, ex bool
		b2d      int
		lq, lp   int
	}
	evks := []evkShape{{"plain", false, false, 0, 1, 0}, {"compressed", true, false, 0, 1, 0}, {"expanded", true, true, 0, 1, 0},
		{"plain-b2d12-noP", false, false, 12, 1, -1}, {"compressed-L0", true, false, 0, 0, 0}}
	for _, sh := range evks {
		sh := sh
		add("evk", "rlwe.EvaluationKey", sh.name, func() c08Obj { return g.evk(pA, sh.comp, sh.ex, sh.b2d, sh.lq, sh.lp) })
	}
	add("rlk", "rlwe.RelinearizationKey", "plain", func() c08Obj { return g.relinKey(pA, false) })
	add("rlk", "rlwe.RelinearizationKey", "compressed", func() c08Obj { return g.relinKey(pA, true) })
	add("rlk", "rlwe.RelinearizationKey", "expanded", func() c08Obj {
		k := g.relinKey(pA, true)
		if err := k.Expand(pA, nil); err != nil {
			panic(err)
		}
		return k
	})
	add("gk", "rlwe.GaloisKey", "plain-g5", func() c08Obj { return g.galoisKey(pA, 5, false) })
	add("gk", "rlwe.GaloisKey", "compressed-g25", func() c08Obj { return g.galoisKey(pA, 25, true) })
	add("gk", "rlwe.GaloisKey", "expanded-g31", func() c08Obj {
		k := g.galoisKey(pA, 31, true)
		if err := k.Expand(pA, nil); err != nil {
			panic(err)
		}
		return k
	})
	add("gk", "rlwe.GaloisKey", "plain-pB-g3", func() c08Obj { return g.galoisKey(pB, 3, false) })
	add("evkset", "rlwe.MemEvaluationKeySet", "rlk+g5,g25", func() c08Obj {
		return rlwe.NewMemEvaluationKeySet(g.relinKey(pA, false), g.galoisKey(pA, 5, false), g.galoisKey(pA, 25, false))
	})
	add("evkset", "rlwe.MemEvaluationKeySet", "norlk+g3", func() c08Obj {
		return rlwe.NewMemEvaluationKeySet(nil, g.galoisKey(pA, 3, true))
	})
	add("evkset", "rlwe.MemEvaluationKeySet", "rlk+emptymap", func() c08Obj {
		return rlwe.NewMemEvaluationKeySet(g.relinKey(pB, false))
	})
	add("evkset", "rlwe.MemEvaluationKeySet", "rlk+nilmap", func() c08Obj {
		return &rlwe.MemEvaluationKeySet{RelinearizationKey: g.relinKey(pA, true)}
	})
	add("evkset", "rlwe.MemEvaluationKeySet", "allnil", func() c08Obj { return &rlwe.MemEvaluationKeySet{} })
	add("evkset", "rlwe.MemEvaluationKeySet", "norlk+g7,g9,g11", func() c08Obj {
		return rlwe.NewMemEvaluationKeySet(nil, g.galoisKey(pB, 7, false), g.galoisKey(pB, 9, false), g.galoisKey(pB, 11, false))
	})
	// rgsw
	for _, sh := range [][3]int{{1, 0, 0}, {0, -1, 7}} {
		sh := sh
		add("rgsw", "rgsw.Ciphertext", fmt.Sprintf("LQ%d-LP%d-b2d%d", sh[0], sh[1], sh[2]), func() c08Obj {
			ct := rgsw.NewCiphertext(pA, sh[0], sh[1], sh[2])
			g.fillGadget(&ct.Value[0])
			g.fillGadget(&ct.Value[1])
			return ct
		})
	}
	// power basis
	add("pb", "polynomial.PowerBasis", "monomial-1", func() c08Obj {
		pb := polynomial.NewPowerBasis(g.ciphertext(pA, 1, 1, 0), bignum.Monomial)
		return &pb
	})
	add("pb", "polynomial.PowerBasis", "chebyshev-1,2,4", func() c08Obj {
		pb := polynomial.NewPowerBasis(g.ciphertext(pA, 1, 1, 1), bignum.Chebyshev)
		pb.Value[2] = g.ciphertext(pA, 1, 1, 3)
		pb.Value[4] = g.ciphertext(pA, 1, 0, 2)
		return &pb
	})
	add("pb", "polynomial.PowerBasis", "monomial-3,5", func() c08Obj {
		return &polynomial.PowerBasis{Basis: bignum.Monomial, Value: map[int]*rlwe.Ciphertext{3: g.ciphertext(pB, 1, 0, 4), 5: g.ciphertext(pB, 2, 0, -1)}}
	})
	add("pb", "polynomial.PowerBasis", "empty", func() c08Obj {
		return &polynomial.PowerBasis{Basis: bignum.Chebyshev, Value: map[int]*rlwe.Ciphertext{}}
	})
	// bootstrapping c08Key bundle
	add("btpkeys", "bootstrapping.EvaluationKeys", "allnil", func() c08Obj { return &bootstrapping.EvaluationKeys{} })
	add("btpkeys", "bootstrapping.EvaluationKeys", "dense-sparse+set", func() c08Obj {
		return &bootstrapping.EvaluationKeys{
			EvkDenseToSparse:    g.evk(pB, false, false, 0, 0, -1),
			EvkSparseToDense:    g.evk(pB, false, false, 0, 0, -1),
			MemEvaluationKeySet: rlwe.NewMemEvaluationKeySet(g.relinKey(pB, false), g.galoisKey(pB, 5, false)),
		}
	})
	add("btpkeys", "bootstrapping.EvaluationKeys", "all", func() c08Obj {
		return &bootstrapping.EvaluationKeys{
			EvkN1ToN2: g.evk(pB, false, false, 0, 0, -1), EvkN2ToN1: g.evk(pB, true, false, 0, 0, -1),
			EvkRealToCmplx: g.evk(pB, false, false, 0, 0, -1), EvkCmplxToReal: g.evk(pB, false, false, 0, 0, -1),
			EvkDenseToSparse: g.evk(pB, false, false, 0, 0, -1), EvkSparseToDense: g.evk(pB, false, false, 0, 0, -1),
			MemEvaluationKeySet: rlwe.NewMemEvaluationKeySet(nil),
		}
	})
	add("btpkeys", "bootstrapping.EvaluationKeys", "n1n2-only", func() c08Obj {
		return &bootstrapping.EvaluationKeys{EvkN1ToN2: g.evk(pB, false, false, 0, 0, -1)}
	})
	// parameters
	add("params", "rlwe.Parameters", "pA", func() c08Obj { p := pA; return &p })
	add("params", "rlwe.Parameters", "pB", func() c08Obj { p := pB; return &p })
	add("params", "rlwe.Parameters", "pC", func() c08Obj { p := pC; return &p })
	// multiparty shares
	add("cpkshare", "multiparty.PublicKeyGenShare", "pA", func() c08Obj { return &multiparty.PublicKeyGenShare{Value: g.newQP(16, 1, 0)} })
	add("cpkshare", "multiparty.PublicKeyGenShare", "pB", func() c08Obj { return &multiparty.PublicKeyGenShare{Value: g.newQP(16, 0, -1)} })
	add("evkshare", "multiparty.EvaluationKeyGenShare", "pA", func() c08Obj {
		return &multiparty.EvaluationKeyGenShare{GadgetCiphertext: *g.gadget(pA, 0, 1, 0, 0)}
	})
	add("evkshare", "multiparty.EvaluationKeyGenShare", "pA-b2d9", func() c08Obj {
		return &multiparty.EvaluationKeyGenShare{GadgetCiphertext: *g.gadget(pA, 0, 0, 0, 9)}
	})
	add("rlkshare", "multiparty.RelinearizationKeyGenShare", "pA", func() c08Obj {
		return &multiparty.RelinearizationKeyGenShare{GadgetCiphertext: *g.gadget(pA, 1, 1, 0, 0)}
	})
	add("rlkshare", "multiparty.RelinearizationKeyGenShare", "pB", func() c08Obj {
		return &multiparty.RelinearizationKeyGenShare{GadgetCiphertext: *g.gadget(pB, 1, 0, -1, 0)}
	})
	add("galshare", "multiparty.GaloisKeyGenShare", "g5", func() c08Obj {
		return &multiparty.GaloisKeyGenShare{GaloisElement: 5, EvaluationKeyGenShare: multiparty.EvaluationKeyGenShare{GadgetCiphertext: *g.gadget(pA, 0, 1, 0, 0)}}
	})
	add("galshare", "multiparty.GaloisKeyGenShare", "g2^63+1", func() c08Obj {
		return &multiparty.GaloisKeyGenShare{GaloisElement: 1<<63 + 1, EvaluationKeyGenShare: multiparty.EvaluationKeyGenShare{GadgetCiphertext: *g.gadget(pB, 0, 0, -1, 0)}}
	})
	add("ksshare", "multiparty.KeySwitchShare", "L1", func() c08Obj { return &multiparty.KeySwitchShare{Value: g.newPoly(16, 1)} })
	add("ksshare", "multiparty.KeySwitchShare", "L0", func() c08Obj { return &multiparty.KeySwitchShare{Value: g.newPoly(16, 0)} })
	add("pksshare", "multiparty.PublicKeySwitchShare", "L1-meta", func() c08Obj {
		return &multiparty.PublicKeySwitchShare{Element: g.ciphertext(pA, 1, 1, 1).Element}
	})
	add("pksshare", "multiparty.PublicKeySwitchShare", "L0-nometa", func() c08Obj {
		return &multiparty.PublicKeySwitchShare{Element: g.ciphertext(pA, 1, 0, -1).Element}
	})
	add("refreshshare", "multiparty.RefreshShare", "L1-m0", func() c08Obj {
		return &multiparty.RefreshShare{EncToShareShare: multiparty.KeySwitchShare{Value: g.newPoly(16, 1)}, ShareToEncShare: multiparty.KeySwitchShare{Value: g.newPoly(16, 1)}, MetaData: *g.meta(0)}
	})
	add("refreshshare", "multiparty.RefreshShare", "L0/L2-m1", func() c08Obj {
		return &multiparty.RefreshShare{EncToShareShare: multiparty.KeySwitchShare{Value: g.newPoly(16, 0)}, ShareToEncShare: multiparty.KeySwitchShare{Value: g.newPoly(16, 2)}, MetaData: *g.meta(1)}
	})
	add("shamirshare", "multiparty.ShamirSecretShare", "pA", func() c08Obj { return &multiparty.ShamirSecretShare{Poly: g.newQP(16, 1, 0)} })
	add("shamirshare", "multiparty.ShamirSecretShare", "pB", func() c08Obj { return &multiparty.ShamirSecretShare{Poly: g.newQP(16, 0, -1)} })
	return s
}

// ---------------------------------------------------------------------------------------
// entry points

// c08Write writes o through the named writing entry point; returns the bytes that reached
// the destination, the reported n and the outcome class.
func c08Write(o c08Obj, entry string) (out []byte, n int64, cls string) {
	cls = c08Call(func() (err error) {
		switch entry {
		case "WriteTo(bytes.Buffer)":
			var b bytes.Buffer
			n, err = o.WriteTo(&b)
			out = b.Bytes()
		case "WriteTo(io.Writer)":
			w := &c08PlainWriter{}
			n, err = o.WriteTo(w)
			out = w.buf
		case "WriteTo(bufio.Writer)+Flush":
			var b bytes.Buffer
			w := bufio.NewWriter(&b)
			n, err = o.WriteTo(w)
			if err == nil {
				err = w.Flush()
			}
			out = b.Bytes()
		case "WriteTo(bufio.Writer16)+Flush":
			var b bytes.Buffer
			w := bufio.NewWriterSize(&b, 16)
			n, err = o.WriteTo(w)
			if err == nil {
				err = w.Flush()
			}
			out = b.Bytes()
		case "WriteTo(buffer.Buffer)":
			w := buffer.NewBufferSize(o.BinarySize())
			n, err = o.WriteTo(w)
			out = w.Bytes()[:c08Min64(n, int64(len(w.Bytes())))]
		case "MarshalBinary":
			out, err = o.MarshalBinary()
			n = int64(len(out))
		}
		return
	})
	return
}

func c08Min64(a, b int64) int64 {
	if a < b {
		return a
	}
	return b
}

// c08Read decodes data into recv through the named reading entry point.
func c08Read(recv c08Obj, entry string, data []byte, sizes []int) (n int64, cls string) {
	data = append([]byte(nil), data...)
	cls = c08Call(func() (err error) {
		switch entry {
		case "UnmarshalBinary(guarded)": // same code path as UnmarshalBinary: ReadFrom(buffer.NewBuffer(p))
			n, err = recv.ReadFrom(c08NewGuardBuf(data))
		case "ReadFrom(buffer.Buffer)":
			n, err = recv.ReadFrom(buffer.NewBuffer(data))
		case "UnmarshalBinary":
			n = int64(len(data))
			err = recv.UnmarshalBinary(data)
		case "ReadFrom(bufio.Reader)":
			n, err = recv.ReadFrom(bufio.NewReader(bytes.NewReader(data)))
		case "ReadFrom(bytes.Reader)":
			n, err = recv.ReadFrom(bytes.NewReader(data))
		case "ReadFrom(io.Reader)":
			n, err = recv.ReadFrom(&c08ChunkReader{data: data, sizes: []int{1 << 30}})
		case "ReadFrom(chunked io.Reader)":
			n, err = recv.ReadFrom(&c08ChunkReader{data: data, sizes: sizes})
		case "ReadFrom(chunked io.Reader, EOF with data)":
			n, err = recv.ReadFrom(&c08ChunkReader{data: data, sizes: sizes, eofWithData: true})
		case "ReadFrom(bufio.Reader over chunked)":
			n, err = recv.ReadFrom(bufio.NewReader(&c08ChunkReader{data: data, sizes: sizes}))
		case "ReadFrom(bufio.Reader64 over chunked)":
			n, err = recv.ReadFrom(bufio.NewReaderSize(&c08ChunkReader{data: data, sizes: sizes}, 64))
		}
		return
	})
	return
}

func c08RenderSafe(o c08Obj) (s string) {
	defer func() {
		if r := recover(); r != nil {
			s = "render-panic"
		}
	}()
	return c08Render(o).String()
}

func c08TreeSafe(o c08Obj) (t *c08Gv) {
	defer func() {
		if r := recover(); r != nil {
			t = nil
		}
	}()
	return c08Render(o)
}

// ---------------------------------------------------------------------------------------
// finding keys: one c08Key per root cause (Go function + symptom), not per outer type.

const (
	c08KRecursion   = "C08/buffer.ReadUintNSlice/unbounded-recursion-on-short-buffer.Buffer"
	c08KShortMeta   = "C08/rlwe.MetaData.ReadFrom/single-Read-call-short-read"
	c08KShortParams = "C08/rlwe.Parameters.ReadFrom/single-Read-call-short-read"
	c08KPlainReader = "C08/ReadFrom(io.Reader)/private-bufio-overreads-next-object"
	c08KFlagValue   = "C08/presence-byte/values-other-than-0-and-1-accepted-as-absent"
	c08KPtEmpty     = "C08/rlwe.Plaintext.ReadFrom/index-out-of-range-on-empty-value"
	c08KEvkEmpty    = "C08/rlwe.EvaluationKey.ReadFrom/index-out-of-range-on-empty-gadget"
	c08KSeedSize    = "C08/rlwe.EvaluationKey.BinarySize/counts-Seed-after-Expand"
	c08KMapFlush    = "C08/structs.Map.WriteTo/missing-Flush"
)

func c08Key(goType, entry, symptom string) string {
	return "C08/" + goType + "." + entry + "/" + symptom
}

var c08HasMeta = map[string]bool{"meta": true, "ptmeta": true, "ctmeta": true, "ct": true, "pt": true, "elqp": true, "pb": true, "pksshare": true, "refreshshare": true}
var c08HasEvk = map[string]bool{"evk": true, "rlk": true, "gk": true, "evkset": true, "btpkeys": true}

func c08LengthKey(tag string) string {
	switch tag {
	case "structs.Map.ReadFrom":
		return "C08/structs.Map.ReadFrom/unchecked-count"
	case "rlwe.Parameters.ReadFrom":
		return "C08/rlwe.Parameters.ReadFrom/unchecked-length"
	}
	return "C08/structs.Vector.ReadFrom/unchecked-length"
}

// c08MalformedKey: c08Key for a decode of malformed input (truncated or corrupted) that ended in
// class cls instead of "err".
func c08MalformedKey(s c08Spec, entry, cls string, f *c08Field) string {
	if s.ty == "vecu8" && cls == "ok" {
		return c08KUint8Slice
	}
	tag := ""
	if f != nil {
		tag = f.tag
	}
	switch cls {
	case "livelock", "crash:stack-overflow":
		return c08KRecursion
	case "alloc", "crash:out-of-memory", "crash", "panic:makeslice", "panic:slice-bounds":
		return c08LengthKey(tag)
	case "panic:index":
		if s.ty == "pt" {
			return c08KPtEmpty
		}
		if c08HasEvk[s.ty] {
			return c08KEvkEmpty
		}
	case "ok":
		if f != nil && f.kind == "flag" {
			return c08KFlagValue
		}
		return c08Key(s.goType, entry, "malformed-input-accepted")
	}
	return c08Key(s.goType, entry, strings.ReplaceAll(cls, ":", "-"))
}

// ---------------------------------------------------------------------------------------
// generator

func genC08(c *Ctx) {
	g := &c08Gen{c: c, child: &c08Child{}}
	g.rng = NewSplitMix(c.rng.U64() ^ 0xC08C08C08)
	g.pA = c08MustParams(4, []int{30, 30}, []int{31})
	g.pB = c08MustParams(4, []int{28}, nil)
	g.pC = c08MustParams(5, []int{30, 30, 30}, []int{31, 31})
	defer g.child.stop()

	specs := g.specs()
	byType := map[string][]int{}
	for i, s := range specs {
		byType[s.goType] = append(byType[s.goType], i)
	}
	for round := 0; round < c.Scale(1, 3); round++ {
		seenOfType := map[string]int{}
		for i, s := range specs {
			if round > 0 {
				s.label += fmt.Sprintf("#%d", round)
			}
			var val c08Obj
			if cls := c08Call(func() error { val = s.mk(); return nil }); cls != "ok" {
				c.Probe("construct", s.goType+" "+s.label, c08Key(s.goType, "construct", "panic"), "constructor panicked")
				continue
			}
			c.Count("type:" + s.goType)
			if os.Getenv("VERIF_DEBUG") != "" {
				var ms runtime.MemStats
				runtime.ReadMemStats(&ms)
				fmt.Fprintf(os.Stderr, "[c08] %s %s sys=%dMB total=%dMB\n", s.goType, s.label, ms.Sys>>20, ms.TotalAlloc>>20)
			}
			tree := c08Render(val)
			vs := tree.String()
			id := s.goType + " " + s.label
			// reference encoding: WriteTo into a bufio.Writer that the caller flushes
			enc, n, cls := c08Write(val, "WriteTo(bufio.Writer)+Flush")
			detail := ""
			if cls != "ok" {
				detail = "WriteTo(bufio.Writer) on a valid value: " + cls
			}
			c.Probe("write", id, c08Key(s.goType, "WriteTo", strings.ReplaceAll(cls, ":", "-")), detail)
			if cls != "ok" {
				continue
			}
			enc = append([]byte(nil), enc...)
			seenOfType[s.goType]++
			first := seenOfType[s.goType] == 1

			// --- ties
			c.Emit("enc "+s.ty+" "+vs, Hex(enc))
			c.Emit("size "+s.ty+" "+vs, I(val.BinarySize()))
			c.Emit("marshal "+s.ty+" "+vs, func() string {
				var b []byte
				if cls := c08Call(func() (err error) { b, err = val.MarshalBinary(); return }); cls != "ok" {
					return cls
				}
				return Hex(b)
			}())
			g.tieDec(s, enc)
			// --- probes
			g.probeSizeExact(s, id, val, enc, n)
			g.probeWriters(s, id, val, enc)
			g.probeRoundtripFresh(s, id, tree, enc)
			for _, j := range byType[s.goType] {
				if j != i {
					g.probeRoundtripDirty(s, id, tree, enc, specs[j])
				}
			}
			g.probeChunked(s, id, tree, enc)
			t0 := time.Now()
			g.probeTruncation(s, id, enc, first)
			t1 := time.Now()
			g.probeCorrupt(s, id, tree, enc, seenOfType[s.goType] <= 1)
			t2 := time.Now()
			g.probeWriterFails(s, id, val, enc)
			g.probeWindow(s, id, val, enc)
			g.probeReaderSizes(s, id, tree, enc)
			c08T[0] += t1.Sub(t0)
			c08T[1] += t2.Sub(t1)
			c08T[2] += time.Since(t2)
		}
	}
	g.probeBackToBack(specs, byType)
	g.tieFields()
	g.probeBufferHelpers()
	g.probeLibraryReceivers()
	g.probeBufioBoundary()
	g.probeMetaFields()
	g.probeByteFieldRange()
	g.probeScale()
	g.probeJSONTypes()
	c.Stats["child-spawns"] = g.child.spawns
	if os.Getenv("VERIF_DEBUG") != "" {
		fmt.Fprintf(os.Stderr, "[c08 time] trunc=%v corrupt=%v wfail=%v\n", c08T[0], c08T[1], c08T[2])
	}
}

// tieDec: the model decoder must return the object the real ReadFrom returns (fresh receiver).
func (g *c08Gen) tieDec(s c08Spec, enc []byte) {
	c := g.c
	dec := func(entry string, data []byte) string {
		recv := c08Fresh[s.goType]()
		n, cls := c08Read(recv, entry, data, nil)
		if cls != "ok" {
			return cls
		}
		return "ok " + I(int(n)) + " " + c08RenderSafe(recv)
	}
	c.Emit("dec "+s.ty+" "+Hex(enc), dec("ReadFrom(bufio.Reader)", enc))
	// with trailing bytes: exact consumption
	tail := append(append([]byte(nil), enc...), 0xde, 0xad, 0xbe, 0xef, 1, 2, 3, 4, 5, 6, 7, 8)
	c.Emit("dec "+s.ty+" "+Hex(tail), dec("ReadFrom(buffer.Buffer)", tail))
	if len(enc) <= 4096 {
		// the short-count model decoder against the real decoder on a transport that returns
		// exactly these short counts
		szs := []int{1 + g.rng.Intn(5), 1 + g.rng.Intn(300), 1, 1 + g.rng.Intn(17)}
		recv := c08Fresh[s.goType]()
		n, cls := c08Read(recv, "ReadFrom(bufio.Reader over chunked)", enc, szs)
		out := cls
		if cls == "ok" {
			out = "ok " + I(int(n)) + " " + c08RenderSafe(recv)
		}
		c.Emit("decs "+s.ty+" "+IVec(szs)+" "+Hex(enc), out)
	}
	if len(enc) <= 4096 {
		// the chunked model decoder is tied to the real decoder on the unfragmented stream
		sizes := []int{1 + g.rng.Intn(7), g.rng.Intn(3), 1 + g.rng.Intn(40)}
		c.Emit("decc "+s.ty+" "+IVec(sizes)+" "+Hex(enc), dec("ReadFrom(bufio.Reader)", enc))
	}
}

func (g *c08Gen) probeSizeExact(s c08Spec, id string, val c08Obj, enc []byte, n int64) {
	detail := ""
	bs := -1
	k := c08Key(s.goType, "BinarySize", "differs-from-bytes-written")
	if cls := c08Call(func() error { bs = val.BinarySize(); return nil }); cls != "ok" {
		detail = "BinarySize " + cls
	} else if bs != len(enc) || int(n) != len(enc) {
		detail = fmt.Sprintf("BinarySize=%d WriteTo.n=%d bytes-written=%d", bs, n, len(enc))
		if c08HasEvk[s.ty] && bs-len(enc) == 32 {
			k = c08KSeedSize
		}
	}
	g.c.Probe("size_exact", id, k, detail)
}

var c08WriteEntries = []string{"WriteTo(io.Writer)", "WriteTo(bytes.Buffer)", "WriteTo(bufio.Writer16)+Flush", "WriteTo(buffer.Buffer)", "MarshalBinary"}

func (g *c08Gen) probeWriters(s c08Spec, id string, val c08Obj, enc []byte) {
	for _, e := range c08WriteEntries {
		out, n, cls := c08Write(val, e)
		detail, k := "", ""
		switch {
		case cls != "ok":
			detail, k = "outcome "+cls, c08Key(s.goType, e, strings.ReplaceAll(cls, ":", "-"))
		case int(n) != len(enc) && e != "MarshalBinary":
			detail, k = fmt.Sprintf("reported n=%d, reference WriteTo(bufio.Writer)+Flush wrote %d", n, len(enc)), c08Key(s.goType, e, "wrong-n")
		case len(out) < len(enc) && bytes.Equal(out, enc[:len(out)]):
			detail, k = fmt.Sprintf("only %d of %d bytes delivered (missing Flush)", len(out), len(enc)), c08Key(s.goType, e, "bytes-not-flushed")
			if s.ty == "pb" {
				k = c08KMapFlush
			}
		case len(out) > len(enc) && bytes.Equal(out[:len(enc)], enc):
			detail, k = fmt.Sprintf("%d trailing bytes after the %d-byte encoding", len(out)-len(enc), len(enc)), c08Key(s.goType, e, "trailing-bytes")
			if c08HasEvk[s.ty] && len(out)-len(enc) == 32 {
				k = c08KSeedSize
			}
		case !bytes.Equal(out, enc):
			detail, k = fmt.Sprintf("len=%d vs %d, first difference at %d", len(out), len(enc), c08FirstDiff(out, enc)), c08Key(s.goType, e, "bytes-differ")
		}
		g.c.Probe("writers_agree", id+" "+e, k, detail)
	}
}

func c08FirstDiff(a, b []byte) int {
	for i := 0; i < len(a) && i < len(b); i++ {
		if a[i] != b[i] {
			return i
		}
	}
	if len(a) < len(b) {
		return len(a)
	}
	return len(b)
}

var c08ReadEntries = []string{"ReadFrom(bufio.Reader)", "ReadFrom(buffer.Buffer)", "ReadFrom(bytes.Reader)", "ReadFrom(io.Reader)", "UnmarshalBinary"}

// checkDecoded judges a decode of a VALID encoding: returns ("","") when recv equals the
// original; else a detail and the finding c08Key.
const c08KUint8Slice = "C08/buffer.ReadUint8Slice/single-Read-call-short-read"

func (g *c08Gen) checkDecoded(s c08Spec, entry string, recv c08Obj, n int64, cls string, want *c08Gv, wantLen int, needN bool, fragmented bool) (detail, k string) {
	detail, k = g.checkDecoded0(s, entry, recv, n, cls, want, wantLen, needN, fragmented)
	if detail != "" && s.ty == "vecu8" {
		k = c08KUint8Slice // the only reader of a byte slice: one Read call, count not checked
	}
	return
}

func (g *c08Gen) checkDecoded0(s c08Spec, entry string, recv c08Obj, n int64, cls string, want *c08Gv, wantLen int, needN bool, fragmented bool) (detail, k string) {
	if cls != "ok" {
		detail = "outcome " + cls + " on a valid encoding"
		switch {
		case cls == "err" && fragmented && s.ty == "params":
			return detail, c08KShortParams
		case cls == "err" && fragmented && c08HasMeta[s.ty]:
			return detail, c08KShortMeta
		case cls == "err" && fragmented:
			return detail, c08Key(s.goType, "ReadFrom", "error-on-fragmented-stream")
		}
		return detail, c08Key(s.goType, entry, strings.ReplaceAll(cls, ":", "-"))
	}
	if needN && int(n) != wantLen {
		return fmt.Sprintf("consumed %d, written %d", n, wantLen), c08Key(s.goType, entry, "wrong-n")
	}
	got := c08TreeSafe(recv)
	if got == nil {
		return "decoded object cannot be rendered (panic)", c08Key(s.goType, entry, "decoded-object-broken")
	}
	gs, ws := got.String(), want.String()
	if gs != ws {
		cause := c08GfDiff(c08Fmts[s.ty], got, want)
		detail = "decoded object differs from the original: " + c08TreeDiff(gs, ws)
		if cause == "" || cause == "?" {
			return detail, c08Key(s.goType, entry, "value-differs")
		}
		return detail, "C08/" + cause
	}
	if pt, ok := recv.(*rlwe.Plaintext); ok && len(pt.Element.Value) > 0 && len(pt.Value.Coeffs) > 0 && len(pt.Value.Coeffs[0]) > 0 {
		if &pt.Value.Coeffs[0][0] != &pt.Element.Value[0].Coeffs[0][0] {
			return "Plaintext.Value does not alias Element.Value[0] after decoding", c08Key(s.goType, entry, "alias-lost")
		}
	}
	return "", ""
}

// c08TreeDiff: short description of the first difference between two rendered trees.
func c08TreeDiff(got, want string) string {
	i := 0
	for i < len(got) && i < len(want) && got[i] == want[i] {
		i++
	}
	lo := i - 24
	if lo < 0 {
		lo = 0
	}
	cut := func(s string) string {
		hi := i + 24
		if hi > len(s) {
			hi = len(s)
		}
		if lo > len(s) {
			return ""
		}
		return s[lo:hi]
	}
	return fmt.Sprintf("at char %d got …%s… want …%s…", i, cut(got), cut(want))
}

func (g *c08Gen) probeRoundtripFresh(s c08Spec, id string, tree *c08Gv, enc []byte) {
	for _, e := range c08ReadEntries {
		recv := c08Fresh[s.goType]()
		n, cls := c08Read(recv, e, enc, nil)
		detail, k := g.checkDecoded(s, e, recv, n, cls, tree, len(enc), e != "UnmarshalBinary", false)
		g.c.Probe("roundtrip_fresh", id+" "+e, k, detail)
	}
}

func (g *c08Gen) probeRoundtripDirty(s c08Spec, id string, tree *c08Gv, enc []byte, other c08Spec) {
	for _, e := range []string{"ReadFrom(bufio.Reader)", "UnmarshalBinary"} {
		var recv c08Obj
		if cls := c08Call(func() error { recv = other.mk(); return nil }); cls != "ok" {
			return
		}
		recvTree := ""
		if e == "ReadFrom(bufio.Reader)" {
			recvTree = c08RenderSafe(recv)
		}
		n, cls := c08Read(recv, e, enc, nil)
		if recvTree != "" && recvTree != "render-panic" {
			// tie: the receiver model `decInto` must reproduce what the real decoder leaves in
			// the dirty receiver (including the leaked state)
			out := cls
			if cls == "ok" {
				out = "ok " + I(int(n)) + " " + c08RenderSafe(recv)
			}
			g.c.Emit("into "+s.ty+" "+recvTree+" "+Hex(enc), out)
		}
		detail, k := g.checkDecoded(s, e, recv, n, cls, tree, len(enc), e != "UnmarshalBinary", false)
		if strings.HasSuffix(k, "/value-differs") {
			k = c08Key(s.goType, e, "receiver-state-leaks")
		}
		g.c.Probe("roundtrip_dirty", id+" into:"+other.label+" "+e, k, detail)
	}
}

func (g *c08Gen) probeChunked(s c08Spec, id string, tree *c08Gv, enc []byte) {
	c := g.c
	half := len(enc) / 2
	if half < 1 {
		half = 1
	}
	rnd := make([]int, 8)
	for i := range rnd {
		rnd[i] = 1 + g.rng.Intn(97)
	}
	type rk struct {
		name  string
		entry string
		sizes []int
	}
	for _, r := range []rk{
		{"1-byte", "ReadFrom(chunked io.Reader)", []int{1}},
		{"halves", "ReadFrom(chunked io.Reader)", []int{half}},
		{"random", "ReadFrom(chunked io.Reader)", rnd},
		{"random+EOF-with-data", "ReadFrom(chunked io.Reader, EOF with data)", rnd},
		{"1-byte", "ReadFrom(bufio.Reader over chunked)", []int{1}},
		{"random", "ReadFrom(bufio.Reader64 over chunked)", rnd},
	} {
		recv := c08Fresh[s.goType]()
		n, cls := c08Read(recv, r.entry, enc, r.sizes)
		detail, k := g.checkDecoded(s, "ReadFrom", recv, n, cls, tree, len(enc), true, true)
		c.Probe("chunked_read", id+" "+r.name+" "+r.entry+" sizes="+IVec(r.sizes), k, detail)
	}
}

// offsets to sweep: all when small, else both ends and a random sample.
func (g *c08Gen) offsets(n int, limit int) []int {
	if n <= limit {
		o := make([]int, n)
		for i := range o {
			o[i] = i
		}
		return o
	}
	set := map[int]bool{}
	for i := 0; i < 64 && i < n; i++ {
		set[i] = true
		set[n-1-i] = true
	}
	for len(set) < limit {
		set[g.rng.Intn(n)] = true
	}
	o := make([]int, 0, len(set))
	for k := range set {
		o = append(o, k)
	}
	sort.Ints(o)
	return o
}

// c08Worst: the most severe class observed that is not the required outcome "err".
func c08Worst(counts map[string]int) string {
	for _, k := range []string{"crash:stack-overflow", "crash:out-of-memory", "crash", "panic:index", "panic:nil", "panic:other", "panic:makeslice", "panic:slice-bounds", "livelock", "alloc", "ok"} {
		if counts[k] > 0 {
			return k
		}
	}
	for k := range counts {
		if k != "err" {
			return k
		}
	}
	return ""
}

func c08CountsStr(counts map[string]int) string {
	ks := make([]string, 0, len(counts))
	for k := range counts {
		ks = append(ks, k)
	}
	sort.Strings(ks)
	var sb strings.Builder
	for i, k := range ks {
		if i > 0 {
			sb.WriteByte(',')
		}
		fmt.Fprintf(&sb, "%s=%d", k, counts[k])
	}
	return sb.String()
}

func (g *c08Gen) probeTruncation(s c08Spec, id string, enc []byte, first bool) {
	c := g.c
	offs := g.offsets(len(enc), c.Scale(600, 6000))
	for _, e := range []string{"ReadFrom(bufio.Reader)", "UnmarshalBinary(guarded)"} {
		counts := map[string]int{}
		firstBad := map[string]int{}
		for _, k := range offs {
			recv := c08Fresh[s.goType]()
			_, cls := c08Read(recv, e, enc[:k], nil)
			counts[cls]++
			if _, ok := firstBad[cls]; !ok {
				firstBad[cls] = k
			}
		}
		w := c08Worst(counts)
		detail := ""
		if w != "" {
			detail = fmt.Sprintf("len=%d offsets=%d outcomes{%s} first-%s-at=%d", len(enc), len(offs), c08CountsStr(counts), w, firstBad[w])
		}
		entry := strings.TrimSuffix(e, "(guarded)")
		c.Probe("truncation", id+" "+e, c08MalformedKey(s, entry, w, nil), detail)
		// confirmation with the unmodified entry point in a child process
		if e == "UnmarshalBinary(guarded)" && len(enc) > 0 && (first || c.Thorough()) {
			ks := []int{len(enc) - 1}
			if k, ok := firstBad["livelock"]; ok {
				ks = append(ks, k)
			}
			for _, k := range ks {
				res := g.child.run(s.goType, "UnmarshalBinary", enc[:k])
				cls := strings.Fields(res + " x")[0]
				detail := ""
				if cls != "err" {
					detail = fmt.Sprintf("UnmarshalBinary(first %d of %d bytes) in a child process: %s", k, len(enc), res)
				}
				c.Probe("truncation_child", fmt.Sprintf("%s UnmarshalBinary k=%d", id, k), c08MalformedKey(s, "UnmarshalBinary", cls, nil), detail)
			}
		}
	}
}

func c08PutLE(b []byte, w int, v uint64) {
	for i := 0; i < w; i++ {
		b[i] = byte(v >> (8 * i))
	}
}

// probeCorrupt overwrites one header field (count or presence flag) with a bad value and
// decodes in the child process (even `count+1` can make the decoder read payload words as
// a length and allocate gigabytes).
//
//	judged kinds  (huge counts, invalid flag values): the decoder must return an error;
//	unjudged kinds (count+1, count=0, flag flipped): a format without redundancy cannot
//	always detect them, so "ok" is tolerated, but a panic / crash / unbounded allocation is not.
func (g *c08Gen) probeCorrupt(s c08Spec, id string, tree *c08Gv, enc []byte, few bool) {
	c := g.c
	if !(few || c.Thorough()) {
		return
	}
	var fields []c08Field
	end, ok := c08GfWalk(c08Fmts[s.ty], tree, 0, &fields)
	if !ok || end != len(enc) {
		// the value is outside the format (e.g. an expanded c08Key still carrying its seed)
		c.Count("corrupt:skipped-not-well-typed")
		return
	}
	if len(fields) == 0 {
		return
	}
	pick := map[int]bool{}
	for i := 0; i < len(fields) && i < c.Scale(4, 12); i++ {
		pick[i] = true
	}
	pick[len(fields)-1] = true
	for i := 0; i < c.Scale(2, 10); i++ {
		pick[g.rng.Intn(len(fields))] = true
	}
	idx := make([]int, 0, len(pick))
	for i := range pick {
		idx = append(idx, i)
	}
	sort.Ints(idx)

	type cv struct {
		name   string
		judged bool
		val    func(f c08Field) (uint64, bool)
	}
	kinds := []cv{
		{"count=maxuint", true, func(f c08Field) (uint64, bool) { return 1<<(8*uint(f.w)) - 1, f.kind == "count" }},
		{"count=2^63", true, func(f c08Field) (uint64, bool) { return 1 << 63, f.kind == "count" && f.w == 8 }},
		{"count=2^62", true, func(f c08Field) (uint64, bool) { return 1 << 62, f.kind == "count" && f.w == 8 }},
		{"count=2^40", true, func(f c08Field) (uint64, bool) { return 1 << 40, f.kind == "count" && f.w == 8 }},
		{"count=2^20", true, func(f c08Field) (uint64, bool) { return 1 << 20, f.kind == "count" }},
		{"flag=2", true, func(f c08Field) (uint64, bool) { return 2, f.kind == "flag" }},
		{"flag=255", true, func(f c08Field) (uint64, bool) { return 255, f.kind == "flag" }},
		{"count+1", false, func(f c08Field) (uint64, bool) { return f.val + 1, f.kind == "count" }},
		{"count=0", false, func(f c08Field) (uint64, bool) { return 0, f.kind == "count" && f.val != 0 }},
		{"flag-flipped", false, func(f c08Field) (uint64, bool) { return 1 - f.val, f.kind == "flag" }},
	}
	for _, k := range kinds {
		entries := []string{"ReadFrom(bufio.Reader)", "UnmarshalBinary"}
		if !c.Thorough() && (k.name == "count=2^63" || k.name == "count=2^62" || k.name == "count=2^40" || k.name == "flag=255") {
			entries = entries[:1] // quick tier: both entry points share the code that fails here
		}
		for _, e := range entries {
			counts := map[string]int{}
			witness := map[string]c08Field{}
			tried := 0
			for _, i := range idx {
				v, ok := k.val(fields[i])
				if !ok {
					continue
				}
				if tried >= c.Scale(2, 12) {
					break
				}
				tried++
				data := append([]byte(nil), enc...)
				c08PutLE(data[fields[i].off:], fields[i].w, v)
				res := g.child.run(s.goType, e, data)
				toks := strings.Fields(res + " 0 0")
				cls := toks[0]
				if cls == "err" {
					// second token: bytes allocated by the decoder while failing
					var alloc uint64
					fmt.Sscan(toks[1], &alloc)
					if alloc > uint64(64*len(data)+(4<<20)) {
						cls = "alloc"
					}
				}
				if cls == "ok" && !k.judged {
					cls = "err" // tolerated, see above
				}
				counts[cls]++
				if _, ok := witness[cls]; !ok {
					witness[cls] = fields[i]
				}
			}
			if tried == 0 {
				continue
			}
			// one line per outcome class other than the required "err"
			bad := make([]string, 0, len(counts))
			for cls := range counts {
				if cls != "err" {
					bad = append(bad, cls)
				}
			}
			sort.Strings(bad)
			if len(bad) == 0 {
				c.Probe("corrupt_length", id+" "+k.name+" "+e, "", "")
			}
			for _, w := range bad {
				f := witness[w]
				detail := fmt.Sprintf("fields=%d outcomes{%s} first-%s: %s field of %s at offset %d (width %d, true value %d)", tried, c08CountsStr(counts), w, f.kind, f.tag, f.off, f.w, f.val)
				c.Probe("corrupt_length", id+" "+k.name+" "+e+" class="+w, c08MalformedKey(s, e, w, &f), detail)
			}
		}
	}
}

const (
	c08KWindow      = "C08/buffer.Buffer.Write/window-shorter-than-capacity-overrun-or-silent-truncation"
	c08KPartialElem = "C08/buffer.ReadUintNSlice/partial-element-discarded"
)

// probeWindow: WriteTo into a buffer.Buffer built over a WINDOW of a larger allocation
// (len < cap, e.g. pooled scratch memory). When the window is too short for the object the
// write must fail, report at most the window length, and leave the memory beyond the window
// untouched; a window of exactly the object size must succeed.
func (g *c08Gen) probeWindow(s c08Spec, id string, val c08Obj, enc []byte) {
	c := g.c
	size := len(enc)
	const spare, sentinel = 96, 0xA5
	offs := g.offsets(size, c.Scale(120, 2000))
	counts := map[string]int{}
	first := map[string]int{}
	note := func(cls string, k int) {
		counts[cls]++
		if _, ok := first[cls]; !ok {
			first[cls] = k
		}
	}
	for _, k := range append(offs, size) {
		backing := make([]byte, size+spare)
		for i := range backing {
			backing[i] = sentinel
		}
		w := buffer.NewBuffer(backing[:k])
		var n int64
		cls := c08Call(func() (err error) { n, err = val.WriteTo(w); return })
		beyond := -1
		for i := k; i < len(backing); i++ {
			if backing[i] != sentinel {
				beyond = i
				break
			}
		}
		switch {
		case strings.HasPrefix(cls, "panic"):
			note("panic", k)
		case beyond >= 0:
			note("wrote-beyond-window", k)
		case k < size && cls == "ok":
			note("no-error", k)
		case k < size && int(n) > k:
			note("n-exceeds-window", k)
		case k == size && (cls != "ok" || int(n) != size || !bytes.Equal(backing[:size], enc)):
			note("exact-window-failed", k)
		default:
			note("fine", k)
		}
	}
	detail := ""
	for _, cls := range []string{"panic", "wrote-beyond-window", "no-error", "n-exceeds-window", "exact-window-failed"} {
		if counts[cls] > 0 {
			detail = fmt.Sprintf("object of %d bytes, windows tried %d, outcomes{%s} first-%s at window length %d (capacity %d)", size, len(offs)+1, c08CountsStr(counts), cls, first[cls], size+spare)
			break
		}
	}
	c.Probe("window_write", id+" WriteTo(buffer.Buffer over backing[:k], len<cap)", c08KWindow, detail)
}

// probeReaderSizes: chunking independence includes the size of the caller's bufio.Reader.
func (g *c08Gen) probeReaderSizes(s c08Spec, id string, tree *c08Gv, enc []byte) {
	c := g.c
	h := fnv.New64a()
	h.Write([]byte(tree.String()))
	want := fmt.Sprintf("ok %d %016x", len(enc), h.Sum64())
	sizes := []int{16, 17, 100, 1023, 4097}
	if c.Thorough() {
		sizes = append(sizes, 20, 33, 255, 4095, 65537)
	}
	for _, sz := range sizes {
		res := g.child.run(s.goType, "ReadFromSized:"+I(sz), enc)
		detail, k := "", ""
		if res != want {
			cls := strings.Fields(res + " x")[0]
			detail = fmt.Sprintf("ReadFrom(bufio.NewReaderSize(r, %d)) on a valid %d-byte encoding: %s", sz, len(enc), cls)
			switch {
			case cls == "err" && sz < 64 && c08HasEvk[s.ty]:
				// the 32-byte seed is fetched with Peek(32): needs a buffer of at least 32 bytes
				k = "C08/buffer.Read/block-larger-than-bufio-buffer"
			case s.ty == "vecu8":
				k = c08KUint8Slice
			case cls == "ok":
				// decoded, but to another value: not the reader's arithmetic (see the other probes)
				k = c08Key(s.goType, "ReadFrom(bufio.ReaderSize)", "value-differs")
			default:
				k = c08KPartialElem
			}
		}
		c.Probe("reader_size", id+" bufio.NewReaderSize "+I(sz), k, detail)
	}
}

func (g *c08Gen) probeWriterFails(s c08Spec, id string, val c08Obj, enc []byte) {
	c := g.c
	offs := g.offsets(len(enc), c.Scale(300, 3000))
	for _, e := range []string{"WriteTo(io.Writer)", "WriteTo(bufio.Writer16)"} {
		counts := map[string]int{}
		firstBad := map[string]int{}
		for _, k := range offs {
			fw := &c08FailWriter{limit: k}
			cls := c08Call(func() error {
				var err error
				if e == "WriteTo(io.Writer)" {
					_, err = val.WriteTo(fw)
				} else {
					w := bufio.NewWriterSize(fw, 16)
					if _, err = val.WriteTo(w); err == nil {
						err = w.Flush()
					}
				}
				return err
			})
			counts[cls]++
			if _, ok := firstBad[cls]; !ok {
				firstBad[cls] = k
			}
		}
		detail, k := "", ""
		w := c08Worst(counts)
		switch {
		case strings.HasPrefix(w, "panic"):
			k = c08Key(s.goType, "WriteTo", "panic-on-writer-failure")
			detail = fmt.Sprintf("outcomes{%s} first panic with writer failing after %d bytes", c08CountsStr(counts), firstBad[w])
		case w == "ok":
			k = c08Key(s.goType, "WriteTo", "write-error-swallowed")
			if s.ty == "pb" {
				k = c08KMapFlush
			}
			detail = fmt.Sprintf("outcomes{%s} no error although the writer failed after %d of %d bytes", c08CountsStr(counts), firstBad["ok"], len(enc))
		}
		c.Probe("writer_fails", id+" "+e, k, detail)
	}
}

// probeBackToBack: several objects on one stream.
func (g *c08Gen) probeBackToBack(specs []c08Spec, byType map[string][]int) {
	c := g.c
	types := make([]string, 0, len(byType))
	for t := range byType {
		types = append(types, t)
	}
	sort.Strings(types)
	for _, t := range types {
		idx := byType[t]
		for rep := 0; rep < c.Scale(2, 6); rep++ {
			k := 2 + rep%2
			var stream bytes.Buffer
			var want []*c08Gv
			var lens []int
			var used []c08Spec
			ty := specs[idx[0]].ty
			okBuild, okSize := true, true
			labels := ""
			for j := 0; j < k; j++ {
				s := specs[idx[(rep+j*2)%len(idx)]]
				var val c08Obj
				if c08Call(func() error { val = s.mk(); return nil }) != "ok" {
					okBuild = false
					break
				}
				before := stream.Len()
				if cls := c08Call(func() error {
					w := bufio.NewWriter(&stream)
					if _, err := val.WriteTo(w); err != nil {
						return err
					}
					return w.Flush()
				}); cls != "ok" {
					okBuild = false
					break
				}
				lens = append(lens, stream.Len()-before)
				if bs := val.BinarySize(); bs != stream.Len()-before {
					okSize = false
				}
				want = append(want, c08Render(val))
				used = append(used, s)
				labels += "," + s.label
			}
			if !okBuild {
				continue
			}
			objBytes := stream.Len()
			trailer := []byte("\x00\x01TRAILER-after-the-last-object\xff\xfe")
			stream.Write(trailer)
			data := append([]byte(nil), stream.Bytes()...)
			id := t + " [" + strings.TrimPrefix(labels, ",") + "]"
			_ = okSize
			// tie: the model decodes the same k objects from the stream as the real decoder
			if objBytes <= 40000 {
				c.Emit("many "+ty+" "+I(k)+" "+Hex(data[:objBytes]), func() string {
					rd := buffer.NewBuffer(data[:objBytes])
					var got []string
					total := 0
					for j := 0; j < k; j++ {
						recv := c08Fresh[t]()
						var n int64
						if cls := c08Call(func() (err error) { n, err = recv.ReadFrom(rd); return }); cls != "ok" {
							return cls
						}
						total += int(n)
						got = append(got, c08RenderSafe(recv))
					}
					return "ok " + I(total) + " [" + strings.Join(got, ",") + "]"
				}())
			}
			type rd struct {
				name       string
				fragmented bool
				mk         func() io.Reader
			}
			for _, r := range []rd{
				{"shared bufio.Reader", true, func() io.Reader { return bufio.NewReader(bytes.NewReader(data)) }},
				{"shared bufio.Reader over 1-byte chunks", true, func() io.Reader { return bufio.NewReader(&c08ChunkReader{data: data, sizes: []int{1}}) }},
				{"shared buffer.Buffer", false, func() io.Reader { return buffer.NewBuffer(data) }},
			} {
				reader := r.mk()
				detail, kk := "", ""
				for j := 0; j < k && detail == ""; j++ {
					recv := c08Fresh[t]()
					var n int64
					cls := c08Call(func() (err error) { n, err = recv.ReadFrom(reader); return })
					detail, kk = g.checkDecoded(used[j], "ReadFrom", recv, n, cls, want[j], lens[j], true, r.fragmented)
					if detail != "" {
						detail = fmt.Sprintf("object %d of %d: %s", j+1, k, detail)
					}
				}
				if detail == "" {
					// exact position: what the reader yields next is the trailer, all of it, nothing else
					rest, _ := io.ReadAll(reader)
					if !bytes.Equal(rest, trailer) {
						detail = fmt.Sprintf("after the %d objects the reader is not positioned at the trailer: %d bytes left, expected %d (first difference at %d)", k, len(rest), len(trailer), c08FirstDiff(rest, trailer))
						kk = c08Key(t, "ReadFrom", "reader-position-after-object")
					} else if !okSize {
						detail = "BinarySize differs from the bytes written for one of the objects"
						kk = c08Key(t, "BinarySize", "differs-from-bytes-written")
					}
				}
				c.Probe("back_to_back", id+" "+r.name, kk, detail)
			}
			// the same through one plain io.Reader (each ReadFrom wraps its own bufio.Reader and
			// may read past its object): in the child process
			{
				h := fnv.New64a()
				var ns []string
				for j := range want {
					ns = append(ns, I(lens[j]))
					h.Write([]byte(want[j].String()))
					h.Write([]byte{0})
				}
				wantRes := fmt.Sprintf("ok %s %016x", strings.Join(ns, ","), h.Sum64())
				res := g.child.run(t, "SeqPlain:"+I(k), data)
				detail := ""
				if res != wantRes {
					detail = "reading " + I(k) + " objects from one plain io.Reader: " + strings.Fields(res + " x")[0]
				}
				c.Probe("back_to_back", id+" plain io.Reader", c08KPlainReader, detail)
			}
		}
	}
}

// probeBufioBoundary: one large object (a power basis with n ciphertexts) read from a
// bytes.Reader / os.File-like plain reader. ReadFrom wraps it into a bufio.Reader of 4096
// bytes; the fixed-width metadata blocks inside the object are fetched with a single Read.
func (g *c08Gen) probeBufioBoundary() {
	c := g.c
	s := c08Spec{ty: "pb", goType: "polynomial.PowerBasis"}
	for rep := 0; rep < c.Scale(16, 120); rep++ {
		n := 2 + g.rng.Intn(9)
		pb := &polynomial.PowerBasis{Basis: bignum.Chebyshev, Value: map[int]*rlwe.Ciphertext{}}
		shapes := ""
		for i := 1; i <= n; i++ {
			// shapes vary so that the metadata blocks fall at varied offsets
			deg := 1 + g.rng.Intn(2)
			switch g.rng.Intn(3) {
			case 0:
				lvl := g.rng.Intn(2)
				pb.Value[i] = g.ciphertext(g.pA, deg, lvl, i)
				shapes += fmt.Sprintf(",A%d.%d", deg, lvl)
			case 1:
				lvl := g.rng.Intn(3)
				pb.Value[i] = g.ciphertext(g.pC, deg, lvl, i)
				shapes += fmt.Sprintf(",C%d.%d", deg, lvl)
			default:
				pb.Value[i] = g.ciphertext(g.pB, deg, 0, i)
				shapes += fmt.Sprintf(",B%d.0", deg)
			}
		}
		enc, _, cls := c08Write(pb, "WriteTo(bufio.Writer)+Flush")
		if cls != "ok" {
			continue
		}
		tree := c08Render(pb)
		for _, e := range []string{"ReadFrom(bytes.Reader)", "ReadFrom(bufio.Reader)"} {
			recv := c08Fresh[s.goType]()
			nn, cls := c08Read(recv, e, enc, nil)
			detail, k := g.checkDecoded(s, e, recv, nn, cls, tree, len(enc), true, true)
			if detail != "" {
				detail = fmt.Sprintf("%d ciphertexts, %d bytes, unfragmented source: %s", n, len(enc), detail)
			}
			c.Probe("bufio_boundary", fmt.Sprintf("polynomial.PowerBasis shapes=%s len=%d %s", shapes[1:], len(enc), e), k, detail)
		}
	}
}
