package main

// C06 — CKKS evaluation: scale/level bookkeeping exact, values within the noise-implied precision.
//
// Every step of a random straight-line program on the real ckks.Evaluator is executed twice:
//
//  1. on *transparent* operands (EVERY component a distinct monomial: op0.c_i = X^(1+4i), op1.c_i = X^(2+4i),
//     receiver.c_i = X^(4+4i); for product operations op1 has c0 only, so that nothing needs relinearising)
//     that carry exactly the metadata of the real
//     operands: the output metadata (level, degree, scale mantissa/exponent, LogDimensions.Cols) and
//     the exact integer effect of the call (multipliers applied to op0 / op1 / the previous opOut,
//     RNS constants) are read back from the coefficients -> TIE line, the Lean model
//     (Lattigo.CKKS.step) must reproduce it bit for bit;
//  2. on the real encrypted registers -> probes
//       program_precision   decrypt+decode vs the complex128 reference program, error <= tracked bound
//       meta_content_indep  metadata of (2) equals metadata of (1)
//       inputs_unchanged    operands that are not the receiver are byte-identical afterwards
//       errors_not_panics   no panic on documented operand types / reachable states
//
// Tie lines:  C06 <op> <qs> <lcpr> <prec> <ci> <nthRoot> <logMaxSlots> <galEls> <rlk> <args..> <e0|e1>
//             C06 params <mant,exp>  ->  "<EncodingPrecision> <LevelsConsumedPerRescaling>"
// meta = level,degree,mant,exp,logSlots ; scalars/scales = mant,exp (exact dyadic) ; no floats cross.
//
// Error bound used by program_precision (stated, not tuned per case): every value carries a bound
//   fresh / any op output:  + C*N/scale_out     with C = 2^10 (covers encryption noise, key-switch
//                                               noise / P, rescale rounding (1+h)/2 per coefficient)
//   add: ea+eb   mul: |a|eb+|b|ea+ea*eb   scalar/vector operands: |c|*ea + |a|*2^-(log2 S - 1)
//   plus the float64 reference floor 2^-44*(1+|want|).

import (
	"fmt"
	"math"
	"os"
	"math/big"
	"math/cmplx"
	"strings"

	"github.com/tuneinsight/lattigo/v6/core/rlwe"
	"github.com/tuneinsight/lattigo/v6/ring"
	"github.com/tuneinsight/lattigo/v6/schemes/ckks"
	"github.com/tuneinsight/lattigo/v6/utils/bignum"
)

func init() { register("C06", genC06) }

type c06Env struct {
	tag     string
	params  ckks.Parameters
	sk      *rlwe.SecretKey
	enc     *rlwe.Encryptor
	dec     *rlwe.Decryptor
	ecd     *ckks.Encoder
	eval    *ckks.Evaluator
	galEls  []uint64
	ptok    string
	N       int
	ci      bool
	logMax  int
	logDflt int
}

type c06Reg struct {
	ct   *rlwe.Ciphertext
	want []complex128
	eb   float64 // tracked error bound
}

// ---------- exact dyadic tokens ----------

// c06Dy prints a finite big.Float as "mant,exp" with integer mantissa (value = mant*2^exp).
func c06Dy(x *big.Float) string {
	if x.Sign() == 0 {
		return "0,0"
	}
	m := new(big.Float)
	e := x.MantExp(m)
	p := int(x.MinPrec())
	m.SetMantExp(m, p)
	mi, acc := m.Int(nil)
	if acc != big.Exact {
		panic("c06Dy: inexact")
	}
	return mi.String() + "," + I(e-p)
}

func c06Meta(el *rlwe.Element[ring.Poly]) string {
	return fmt.Sprintf("%d,%d,%s,%d", el.Level(), el.Degree(), c06Dy(&el.Scale.Value), el.LogDimensions.Cols)
}

func c06DyS(s rlwe.Scale) string { return c06Dy(&s.Value) }

func c06Scale(s rlwe.Scale) rlwe.Scale { return rlwe.NewScale(&s.Value) }

// ---------- environment ----------

func c06NewEnv(tag string, logN int, logQ []int, logP []int, logScale int, rt ring.Type) *c06Env {
	params, err := ckks.NewParametersFromLiteral(ckks.ParametersLiteral{LogN: logN, LogQ: logQ, LogP: logP, LogDefaultScale: logScale, RingType: rt})
	if err != nil {
		panic(fmt.Sprintf("c06 params %s: %v", tag, err))
	}
	e := &c06Env{tag: tag, params: params, N: params.N(), ci: rt == ring.ConjugateInvariant, logMax: params.LogMaxSlots(), logDflt: logScale}
	kg := rlwe.NewKeyGenerator(params)
	e.sk = kg.GenSecretKeyNew()
	rlk := kg.GenRelinearizationKeyNew(e.sk)
	for _, k := range []int{1, 2, -1} {
		e.galEls = append(e.galEls, params.GaloisElement(k))
	}
	if !e.ci {
		e.galEls = append(e.galEls, params.GaloisElementOrderTwoOrthogonalSubgroup())
	}
	evk := rlwe.NewMemEvaluationKeySet(rlk, kg.GenGaloisKeysNew(e.galEls, e.sk)...)
	e.enc = rlwe.NewEncryptor(params, e.sk)
	e.dec = rlwe.NewDecryptor(params, e.sk)
	e.ecd = ckks.NewEncoder(params)
	e.eval = ckks.NewEvaluator(params, evk)
	ci := 0
	if e.ci {
		ci = 1
	}
	e.ptok = fmt.Sprintf("%s %d %d %d %d %d %s 1", Vec(params.Q()), params.LevelsConsumedPerRescaling(), params.EncodingPrecision(), ci,
		params.RingQ().NthRoot(), e.logMax, Vec(e.galEls))
	return e
}

func c06Envs(c *Ctx) []*c06Env {
	envs := []*c06Env{
		c06NewEnv("A", 5, []int{50, 35, 35, 35}, []int{50}, 35, ring.Standard),
		c06NewEnv("B", 6, []int{55, 45, 45, 45, 45}, []int{55}, 45, ring.Standard),
		c06NewEnv("C", 6, []int{50, 40, 40, 40, 40, 40}, []int{55}, 40, ring.ConjugateInvariant),
		c06NewEnv("D", 5, []int{55, 55, 45, 45, 45, 45}, []int{61}, 90, ring.Standard),
		c06NewEnv("E", 5, []int{45, 30, 30}, []int{45}, 30, ring.Standard),
		// strongly unequal prime sizes: the dropped primes are 15-20 bits larger than lower ones
		c06NewEnv("U1", 5, []int{55, 45, 60, 45, 60}, []int{61}, 105, ring.Standard), // two primes per rescale
		c06NewEnv("U2", 5, []int{50, 40, 40, 60, 60}, []int{61}, 40, ring.Standard),  // one prime per rescale
	}
	if c.Thorough() {
		envs = append(envs,
			c06NewEnv("F", 5, []int{45, 30, 30, 30}, []int{45}, 30, ring.ConjugateInvariant),
			c06NewEnv("G", 7, []int{55, 40, 40, 40, 40}, []int{55, 55}, 40, ring.Standard),
			c06NewEnv("H", 5, []int{50, 50, 45, 45, 45, 45}, []int{61}, 90, ring.ConjugateInvariant))
	}
	return envs
}

// ---------- transparent operands ----------

type c06M struct {
	level, degree, logSlots int
	scale                   rlwe.Scale
}

func c06MetaOf(el *rlwe.Element[ring.Poly]) c06M {
	return c06M{el.Level(), el.Degree(), el.LogDimensions.Cols, c06Scale(el.Scale)}
}

func (m c06M) tok() string {
	return fmt.Sprintf("%d,%d,%s,%d", m.level, m.degree, c06Dy(&m.scale.Value), m.logSlots)
}

// transp builds a ciphertext with metadata m whose component i is the monomial X^(base+4i)
// (base<0: all zero; onlyC0: components >= 1 are zero).
func (e *c06Env) transp(m c06M, base int, onlyC0 bool) *rlwe.Ciphertext {
	ct := ckks.NewCiphertext(e.params, m.degree, m.level)
	ct.Scale = c06Scale(m.scale)
	ct.LogDimensions.Cols = m.logSlots
	if base >= 0 {
		r := e.params.RingQ().AtLevel(m.level)
		for k := 0; k <= m.degree; k++ {
			if onlyC0 && k > 0 {
				break
			}
			for i := 0; i <= m.level; i++ {
				ct.Value[k].Coeffs[i][base+4*k] = 1
			}
			r.NTT(ct.Value[k], ct.Value[k])
		}
	}
	return ct
}

func (e *c06Env) transpPt(m c06M, idx int) *rlwe.Plaintext {
	pt := ckks.NewPlaintext(e.params, m.level)
	pt.Scale = c06Scale(m.scale)
	pt.LogDimensions.Cols = m.logSlots
	for i := 0; i <= m.level; i++ {
		pt.Value.Coeffs[i][idx] = 1
	}
	e.params.RingQ().AtLevel(m.level).NTT(pt.Value, pt.Value)
	return pt
}

// coef returns the centred integer coefficients of component comp at the given indices.
func (e *c06Env) coef(ct *rlwe.Ciphertext, comp int, idx ...int) []string {
	r := e.params.RingQ().AtLevel(ct.Level())
	tmp := r.NewPoly()
	r.INTT(ct.Value[comp], tmp)
	bi := make([]*big.Int, e.N)
	r.PolyToBigint(tmp, 1, bi)
	Q := r.ModulusAtLevel[ct.Level()]
	h := new(bigInt).Rsh(Q, 1)
	out := make([]string, len(idx))
	for i, j := range idx {
		v := new(bigInt).Set(bi[j])
		if v.Cmp(h) >= 0 {
			v.Sub(v, Q)
		}
		out[i] = v.String()
	}
	return out
}

type bigInt = big.Int

// ---------- operations ----------

type c06Op struct {
	kind    string
	sub     bool
	relin   bool
	alias   byte // 'f' fresh receiver, '0' receiver = op0, '1' receiver = op1
	useNew  bool // call the ...New variant (alias 'f' only)
	bIsPt   bool
	scalar  interface{}
	re, im  *big.Float
	cval    complex128
	vec     interface{}
	vvals   []complex128
	dy      rlwe.Scale
	n       int
	skind   string
	outM    *c06M // explicit receiver metadata for alias 'f' (nil: New-style receiver)
	recv    *rlwe.Ciphertext // tie only: an existing transparent receiver with a history (alias 'f')
	effOff  bool
}

// exec runs the call on concrete operands. Returns the receiver.
func (e *c06Env) exec(op *c06Op, a *rlwe.Ciphertext, b rlwe.Operand, o *rlwe.Ciphertext) (*rlwe.Ciphertext, error) {
	ev := e.eval
	var x rlwe.Operand
	switch op.kind {
	case "addelt", "mulelt", "mtaelt":
		x = b
	case "addsc", "mulsc", "mtasc":
		x = op.scalar
	case "addvec", "mulvec", "mtavec":
		x = op.vec
	}
	switch op.kind {
	case "addelt", "addsc", "addvec":
		if op.useNew {
			if op.sub {
				return ev.SubNew(a, x)
			}
			return ev.AddNew(a, x)
		}
		if op.sub {
			return o, ev.Sub(a, x, o)
		}
		return o, ev.Add(a, x, o)
	case "mulelt", "mulsc", "mulvec":
		if op.useNew {
			if op.relin {
				return ev.MulRelinNew(a, x)
			}
			return ev.MulNew(a, x)
		}
		if op.relin {
			return o, ev.MulRelin(a, x, o)
		}
		return o, ev.Mul(a, x, o)
	case "mtaelt", "mtasc", "mtavec":
		if op.relin {
			return o, ev.MulRelinThenAdd(a, x, o)
		}
		return o, ev.MulThenAdd(a, x, o)
	case "rescale":
		return o, ev.Rescale(a, o)
	case "rescaleto":
		return o, ev.RescaleTo(a, op.dy, o)
	case "setscale":
		return a, ev.SetScale(a, op.dy)
	case "scaleup":
		if op.useNew {
			return ev.ScaleUpNew(a, op.dy)
		}
		return o, ev.ScaleUp(a, op.dy, o)
	case "droplevel":
		ev.DropLevel(a, op.n)
		return a, nil
	case "rotate":
		if op.useNew {
			return ev.RotateNew(a, op.n)
		}
		return o, ev.Rotate(a, op.n, o)
	case "conj":
		if op.useNew {
			return ev.ConjugateNew(a)
		}
		return o, ev.Conjugate(a, o)
	case "relin":
		if op.useNew {
			return ev.RelinearizeNew(a)
		}
		return o, ev.Relinearize(a, o)
	}
	panic("c06: unknown kind " + op.kind)
}

func b2s(b bool) string {
	if b {
		return "1"
	}
	return "0"
}

// line builds the tie op string from operand metadata.
func (e *c06Env) line(op *c06Op, a, b, o c06M, eff bool) string {
	var args string
	switch op.kind {
	case "addelt":
		args = fmt.Sprintf("%s %s %s %s", b2s(op.sub), a.tok(), b.tok(), o.tok())
	case "addsc":
		args = fmt.Sprintf("%s %s %s %s %s", b2s(op.sub), a.tok(), o.tok(), c06Dy(op.re), c06Dy(op.im))
	case "addvec", "mulvec":
		args = fmt.Sprintf("%s %s %d", a.tok(), o.tok(), len(op.vvals))
	case "mtavec":
		args = fmt.Sprintf("%c %s %s %d", op.alias, a.tok(), o.tok(), len(op.vvals))
	case "mulelt":
		args = fmt.Sprintf("%s %s %s %s", b2s(op.relin), a.tok(), b.tok(), o.tok())
	case "mulsc":
		args = fmt.Sprintf("%s %s %s %s", a.tok(), o.tok(), c06Dy(op.re), c06Dy(op.im))
	case "mtasc":
		args = fmt.Sprintf("%c %s %s %s %s", op.alias, a.tok(), o.tok(), c06Dy(op.re), c06Dy(op.im))
	case "mtaelt":
		args = fmt.Sprintf("%s %c %s %s %s", b2s(op.relin), op.alias, a.tok(), b.tok(), o.tok())
	case "rescale":
		args = a.tok()
	case "rescaleto", "setscale":
		args = fmt.Sprintf("%s %s", a.tok(), c06Dy(&op.dy.Value))
	case "scaleup":
		args = fmt.Sprintf("%s %s %s", a.tok(), o.tok(), c06Dy(&op.dy.Value))
	case "droplevel":
		args = fmt.Sprintf("%s %d", a.tok(), op.n)
	case "rotate":
		args = fmt.Sprintf("%d %s %s", op.n, a.tok(), o.tok())
	case "conj", "relin":
		args = fmt.Sprintf("%s %s", a.tok(), o.tok())
	}
	es := "e0"
	if eff {
		es = "e1"
	}
	return fmt.Sprintf("%s %s %s %s", op.kind, e.ptok, args, es)
}

// effParts reads the integer effect of the call from the result: for every component i the
// coefficients at the exponents of op0.c_i (1+4i), op1.c_i (2+4i), old receiver c_i (4+4i) and, for
// complex constants, at N/2 + exponent ("0" where the operand has no such component).
func (e *c06Env) effParts(op *c06Op, res *rlwe.Ciphertext) []string {
	h := e.N / 2
	D := res.Degree()
	// every listed position is READ from the result (also where the model predicts 0: a stale or wrongly
	// copied component must show up); only the N/2 positions of the conjugate-invariant ring are skipped
	one := func(comp, idx int) string { return e.coef(res, comp, idx)[0] }
	im := func(comp, idx int) string {
		if e.ci {
			return "0"
		}
		return e.coef(res, comp, idx)[0]
	}
	var parts []string
	switch op.kind {
	case "addelt":
		for i := 0; i <= D; i++ {
			parts = append(parts, one(i, 1+4*i), one(i, 2+4*i), one(i, 4+4*i))
		}
	case "addsc":
		parts = append(parts, one(0, 0), im(0, h))
		for i := 0; i <= D; i++ {
			parts = append(parts, one(i, 1+4*i))
		}
	case "mulsc":
		for i := 0; i <= D; i++ {
			parts = append(parts, one(i, 1+4*i), im(i, h+1+4*i))
		}
	case "mtasc":
		for i := 0; i <= D; i++ {
			parts = append(parts, one(i, 4+4*i), one(i, 1+4*i), im(i, h+1+4*i))
		}
	case "mtaelt", "mtavec":
		for i := 0; i <= D; i++ {
			parts = append(parts, one(i, 4+4*i))
		}
	case "setscale", "scaleup":
		for i := 0; i <= D; i++ {
			parts = append(parts, one(i, 1+4*i))
		}
	}
	return parts
}

// tie runs the op on transparent operands and emits the tie line. Returns the output metadata token
// ("err"/"panic" or the meta) for the content-independence probe.
func (e *c06Env) tie(c *Ctx, op *c06Op, am, bm, om c06M) string {
	aIdx := 1
	if op.kind == "mtavec" {
		aIdx = -1
	}
	a := e.transp(am, aIdx, false)
	product := op.kind == "mulelt" || op.kind == "mtaelt"
	var b rlwe.Operand
	var bct *rlwe.Ciphertext
	if op.bIsPt {
		b = e.transpPt(bm, 2)
	} else if op.kind == "addelt" || op.kind == "mulelt" || op.kind == "mtaelt" {
		bct = e.transp(bm, 2, product)
		b = bct
	}
	var o *rlwe.Ciphertext
	switch op.alias {
	case '0':
		o = a
	case '1':
		o = bct
	default:
		if op.recv != nil {
			o = op.recv
		} else {
			o = e.transp(om, 4, false)
		}
	}
	eff := !op.effOff
	var metaTok string
	out := Try(func() string {
		res, err := e.exec(op, a, b, o)
		if err != nil {
			return "err"
		}
		if res.Level() < 0 {
			return "oom"
		}
		metaTok = c06Meta(res.El())
		s := metaTok
		if eff {
			var parts []string
			if op.kind == "rescaleto" {
				parts = []string{I(am.level - res.Level())}
			} else {
				parts = e.effParts(op, res)
			}
			if len(parts) == 0 {
				s += " -"
			} else {
				s += " " + strings.Join(parts, ",")
			}
		}
		return s
	})
	c.Emit(e.line(op, am, bm, om, eff), out)
	c.Count("tie:" + op.kind)
	if out == "err" || out == "panic" {
		c.Count("tie-" + out + ":" + op.kind)
		return out
	}
	return metaTok
}

// ---------- values ----------

func (e *c06Env) randVals(c *Ctx, n int, mag float64) []complex128 {
	v := make([]complex128, n)
	for i := range v {
		re := (float64(c.rng.Intn(1<<20))/float64(1<<19) - 1) * mag
		im := (float64(c.rng.Intn(1<<20))/float64(1<<19) - 1) * mag
		if e.ci {
			im = 0
		}
		v[i] = complex(re, im)
	}
	return v
}

func c06MaxAbs(v []complex128) float64 {
	m := 0.0
	for _, x := range v {
		if a := cmplx.Abs(x); a > m {
			m = a
		}
	}
	return m
}

func (e *c06Env) noiseTerm(scale rlwe.Scale) float64 {
	return 1024 * float64(e.N) / scale.Float64()
}

func (e *c06Env) fresh(c *Ctx, level, logSlots int, scale rlwe.Scale) *c06Reg {
	if e.ci && logSlots == 0 {
		logSlots = 1 // one slot in the conjugate-invariant ring does not even round-trip (C07 finding)
	}
	for level < e.params.MaxLevel() && float64(e.params.LogQLvl(level)) < scale.Log2()+8 {
		level++ // the message must fit Q_level
	}
	vals := e.randVals(c, 1<<logSlots, 1)
	pt := ckks.NewPlaintext(e.params, level)
	pt.Scale = c06Scale(scale)
	pt.LogDimensions.Cols = logSlots
	if err := e.ecd.Encode(vals, pt); err != nil {
		panic(err)
	}
	ct, err := e.enc.EncryptNew(pt)
	if err != nil {
		panic(err)
	}
	return &c06Reg{ct: ct, want: vals, eb: e.noiseTerm(scale)}
}

func (e *c06Env) decode(ct *rlwe.Ciphertext) []complex128 {
	n := 1 << ct.LogDimensions.Cols
	vals := make([]complex128, n)
	pt := e.dec.DecryptNew(ct)
	if err := e.ecd.Decode(pt, vals); err != nil {
		panic(err)
	}
	return vals
}

func c06At(v []complex128, i int) complex128 { return v[i%len(v)] }

// ---------- scalars and vectors of every kind ----------

var c06ScalarKinds = []string{"complex128", "float64", "int", "int64", "uint", "uint64", "bigint", "bigfloat", "bigcomplex", "float64int", "complexint"}

func (e *c06Env) pickScalar(c *Ctx, op *c06Op) {
	k := c06ScalarKinds[c.rng.Intn(len(c06ScalarKinds))]
	if e.ci && (k == "complex128" || k == "bigcomplex" || k == "complexint") {
		k = "float64"
	}
	op.skind = k
	re, im := new(big.Float), new(big.Float)
	fr := func() float64 { return float64(int(c.rng.Intn(1<<12))-(1<<11)) / float64(1<<10) } // in [-2,2), 10 fractional bits
	switch k {
	case "complex128":
		v := complex(fr(), fr())
		op.scalar = v
		re.SetFloat64(real(v))
		im.SetFloat64(imag(v))
	case "float64":
		v := fr() + float64(c.rng.Intn(3))*math.Pow(2, -40)
		op.scalar = v
		re.SetFloat64(v)
	case "float64int":
		v := float64(c.rng.Intn(9) - 4)
		op.scalar = v
		re.SetFloat64(v)
	case "complexint":
		v := complex(float64(c.rng.Intn(7)-3), float64(c.rng.Intn(7)-3))
		op.scalar = v
		re.SetFloat64(real(v))
		im.SetFloat64(imag(v))
	case "int":
		v := c.rng.Intn(9) - 4
		op.scalar = v
		re.SetInt64(int64(v))
	case "uint":
		v := uint(c.rng.Intn(5))
		op.scalar = v
		re.SetInt64(int64(v))
	case "int64":
		v := int64(c.rng.Intn(9) - 4)
		op.scalar = v
		re.SetInt64(v)
	case "uint64":
		v := uint64(c.rng.Intn(5))
		if c.rng.Intn(8) == 0 {
			v = 1<<60 + uint64(c.rng.Intn(1<<10)) // rounded to the encoding precision by ToComplex
		}
		op.scalar = v
		re.SetPrec(64).SetUint64(v)
	case "bigint":
		v := big.NewInt(int64(c.rng.Intn(9) - 4))
		if c.rng.Intn(8) == 0 {
			v.Lsh(big.NewInt(1), 70).Add(v, big.NewInt(int64(c.rng.Intn(1<<20))))
		}
		op.scalar = v
		re.SetPrec(uint(v.BitLen() + 1)).SetInt(v)
	case "bigfloat":
		v := new(big.Float).SetPrec(200).SetFloat64(fr())
		v.Add(v, new(big.Float).SetMantExp(big.NewFloat(1), -100-c.rng.Intn(50)))
		op.scalar = v
		re.SetPrec(200).Set(v)
	case "bigcomplex":
		a := new(big.Float).SetPrec(120).SetFloat64(fr())
		b := new(big.Float).SetPrec(120).SetFloat64(fr())
		a.Add(a, new(big.Float).SetMantExp(big.NewFloat(1), -80))
		op.scalar = &bignum.Complex{a, b}
		re.SetPrec(120).Set(a)
		im.SetPrec(120).Set(b)
	}
	op.re, op.im = re, im
	rf, _ := re.Float64()
	imf, _ := im.Float64()
	op.cval = complex(rf, imf)
}

var c06VecKinds = []string{"complex128", "float64", "bigfloat", "bigcomplex"}

func (e *c06Env) pickVec(c *Ctx, op *c06Op, logSlots int) {
	slots := 1 << logSlots
	n := slots
	switch c.rng.Intn(6) {
	case 0:
		n = 1 + c.rng.Intn(slots)
	case 1:
		n = slots + 1 + c.rng.Intn(3) // too long: documented error
	}
	k := c06VecKinds[c.rng.Intn(len(c06VecKinds))]
	op.skind = k
	vals := e.randVals(c, n, 1)
	switch k {
	case "complex128":
		op.vec = vals
	case "float64":
		f := make([]float64, n)
		for i := range f {
			f[i] = real(vals[i])
			vals[i] = complex(f[i], 0)
		}
		op.vec = f
	case "bigfloat":
		f := make([]*big.Float, n)
		for i := range f {
			f[i] = new(big.Float).SetPrec(100).SetFloat64(real(vals[i]))
			vals[i] = complex(real(vals[i]), 0)
		}
		op.vec = f
	case "bigcomplex":
		f := make([]*bignum.Complex, n)
		for i := range f {
			f[i] = &bignum.Complex{new(big.Float).SetPrec(100).SetFloat64(real(vals[i])), new(big.Float).SetPrec(100).SetFloat64(imag(vals[i]))}
		}
		op.vec = f
	}
	op.vvals = vals
}

// ---------- one program step ----------

func (e *c06Env) primeScale(level int) float64 {
	s := 1.0
	for i := 0; i < e.params.LevelsConsumedPerRescaling() && level-i >= 0; i++ {
		s *= float64(e.params.Q()[level-i])
	}
	return s
}

// step picks an operation applicable to the registers, runs tie + real execution + probes.
func (e *c06Env) step(c *Ctx, regs []*c06Reg, prog string) {
	lc := e.params.LevelsConsumedPerRescaling()
	ai := c.rng.Intn(len(regs))
	bi := c.rng.Intn(len(regs))
	oi := c.rng.Intn(len(regs))
	A, B := regs[ai], regs[bi]
	op := &c06Op{alias: 'f'}
	kinds := []string{"addelt", "addelt", "addsc", "addvec", "mulelt", "mulelt", "mulsc", "mulvec", "mtaelt", "mtasc", "mtavec",
		"rescale", "rescale", "rescaleto", "setscale", "scaleup", "droplevel", "rotate", "conj", "relin"}
	op.kind = kinds[c.rng.Intn(len(kinds))]
	// steer towards applicable operations
	if A.ct.Degree() == 2 && c.rng.Intn(2) == 0 {
		op.kind = "relin"
	}
	if A.ct.Scale.Float64() > 1.5*e.params.DefaultScale().Float64() && A.ct.Level() >= lc && c.rng.Intn(3) != 0 {
		op.kind = "rescale"
	}
	op.sub = c.rng.Intn(2) == 0
	op.relin = c.rng.Intn(2) == 0
	switch c.rng.Intn(4) {
	case 0:
		op.alias = '0'
	case 1:
		if op.kind == "addelt" || op.kind == "mulelt" || op.kind == "mtaelt" {
			op.alias = '1'
		}
	case 2:
		op.useNew = true
	}
	am := c06MetaOf(A.ct.El())
	var bm, om c06M
	var bOp rlwe.Operand
	var bWant []complex128
	var bEb float64
	elt := op.kind == "addelt" || op.kind == "mulelt" || op.kind == "mtaelt"
	if elt {
		if c.rng.Intn(3) == 0 {
			// plaintext operand, sometimes with a different (also non-integer-ratio) scale
			op.bIsPt = true
			if op.alias == '1' {
				op.alias = 'f'
			}
			lvl := c.rng.Intn(e.params.MaxLevel() + 1)
			ls := c.rng.Intn(e.logMax + 1)
			if e.ci && ls == 0 {
				ls = 1
			}
			pt := ckks.NewPlaintext(e.params, lvl)
			pt.LogDimensions.Cols = ls
			switch c.rng.Intn(5) {
			case 0:
				pt.Scale = c06Scale(A.ct.Scale)
			case 1:
				pt.Scale = rlwe.NewScale(math.Exp2(float64(e.logDflt)) * (1 + float64(c.rng.Intn(8))/4))
			case 2:
				pt.Scale = rlwe.NewScale(e.params.Q()[lvl])
			case 3:
				// operand scale = integer multiple (2, 3, 2^k) of the ciphertext's: exact alignment expected
				pt.Scale = A.ct.Scale.Mul(rlwe.NewScale([]float64{2, 3, 4, 16, 1024}[c.rng.Intn(5)]))
			}
			bWant = e.randVals(c, 1<<ls, 1)
			if err := e.ecd.Encode(bWant, pt); err != nil {
				panic(err)
			}
			bOp = pt
			bm = c06MetaOf(pt.El())
			bEb = 1 / pt.Scale.Float64() * float64(e.N)
		} else {
			bOp = B.ct
			bm = c06MetaOf(B.ct.El())
			bWant = B.want
			bEb = B.eb
		}
	}
	if op.kind == "addsc" || op.kind == "mulsc" || op.kind == "mtasc" {
		e.pickScalar(c, op)
	}
	if op.kind == "addvec" || op.kind == "mulvec" || op.kind == "mtavec" {
		e.pickVec(c, op, am.logSlots)
	}
	inPlaceOnly := op.kind == "setscale" || op.kind == "droplevel"
	mta := op.kind == "mtaelt" || op.kind == "mtasc" || op.kind == "mtavec"
	if inPlaceOnly {
		op.alias, op.useNew = '0', false
	}
	if op.kind == "rescale" || op.kind == "rescaleto" {
		op.useNew = false
		if op.alias == '1' {
			op.alias = 'f'
		}
	}
	if mta {
		op.useNew = false
	}
	// receiver
	var O *c06Reg
	var oct *rlwe.Ciphertext
	switch {
	case op.alias == '0':
		oct, O = A.ct, A
		om = am
	case op.alias == '1':
		oct, O = B.ct, B
		om = bm
	case mta:
		// accumulate into an existing register (or into an operand: documented error)
		O = regs[oi]
		oct = O.ct
		om = c06MetaOf(oct.El())
		if O == A {
			op.alias = '0'
		} else if elt && !op.bIsPt && O == B {
			op.alias = '1'
		}
	case op.useNew:
		deg, lvl := am.degree, am.level
		if op.kind == "mulelt" && op.relin {
			deg = 1
			if bm.level < lvl {
				lvl = bm.level
			}
		}
		if op.kind == "relin" {
			deg = 1
		}
		om = c06M{lvl, deg, e.logMax, e.params.DefaultScale()}
	default:
		// explicit fresh receiver, not necessarily of the operands' shape
		om = c06M{c.rng.Intn(e.params.MaxLevel() + 1), 1 + c.rng.Intn(2), e.logMax, e.params.DefaultScale()}
		if c.rng.Intn(2) == 0 {
			om.level, om.degree = am.level, am.degree
		}
		oct = ckks.NewCiphertext(e.params, om.degree, om.level)
	}
	switch op.kind {
	case "rescaleto":
		op.dy = rlwe.NewScale(math.Exp2(float64(e.logDflt - 5 + c.rng.Intn(11))))
		if c.rng.Intn(12) == 0 {
			op.dy = rlwe.NewScale(0)
		}
	case "setscale":
		f := []float64{1, 1.25, 0.75, 2, 2.5, 3.75, 4, 0.5, 1.0000001}[c.rng.Intn(9)]
		t := new(big.Float).SetPrec(128).Mul(&A.ct.Scale.Value, new(big.Float).SetFloat64(f))
		if c.rng.Intn(3) == 0 {
			t = func() *big.Float { d := e.params.DefaultScale(); return new(big.Float).SetPrec(128).Set(&d.Value) }()
		}
		op.dy = rlwe.NewScale(t)
	case "scaleup":
		op.dy = rlwe.NewScale([]float64{2, 3, 2.5, 1024, 1.75}[c.rng.Intn(5)])
	case "droplevel":
		op.n = c.rng.Intn(2)
		if am.level == 0 {
			op.n = 0
		}
	case "rotate":
		op.n = []int{0, 1, 2, -1, 3, 1 << am.logSlots}[c.rng.Intn(6)]
	}
	// the effect cannot be read when the receiver keeps limbs above the evaluation level
	if mta && op.alias != 'f' {
		op.effOff = true
	}

	// ---- 1. tie on transparent operands
	tieMeta := e.tie(c, op, am, bm, om)

	// ---- 2. real execution
	args := fmt.Sprintf("%s prog=%s op=%s alias=%c new=%s kind=%s a=%s b=%s o=%s", e.tag, prog, op.kind, op.alias, b2s(op.useNew), op.skind, am.tok(), bm.tok(), om.tok())
	aSnap := A.ct.CopyNew()
	var bSnap *rlwe.Ciphertext
	if elt && !op.bIsPt {
		bSnap = B.ct.CopyNew()
	}
	var oldO []complex128
	var oldOeb float64
	var oldOScale float64
	if O != nil {
		oldO, oldOeb, oldOScale = O.want, O.eb, O.ct.Scale.Float64()
	}
	var res *rlwe.Ciphertext
	var err error
	panicked := false
	func() {
		defer func() {
			if r := recover(); r != nil {
				panicked = true
			}
		}()
		res, err = e.exec(op, A.ct, bOp, oct)
	}()
	realMeta := "err"
	if panicked {
		realMeta = "panic"
	} else if err == nil {
		realMeta = c06Meta(res.El())
	}
	d := ""
	if realMeta != tieMeta {
		d = "transparent=" + tieMeta + " real=" + realMeta
	}
	c.Probe("meta_content_indep", args, "C06/meta-depends-on-content", d)
	d = ""
	if panicked {
		d = "panic"
	}
	pkey := "C06/panic:" + op.kind
	c.Probe("errors_not_panics", args, pkey, d)
	// operands that are not the receiver must be unchanged
	if !panicked {
		d = ""
		recvIsA := op.alias == '0' || inPlaceOnly || (op.alias == '1' && A == B) || (O != nil && O == A) || (err == nil && res == A.ct)
		if !recvIsA && !A.ct.Equal(aSnap) {
			d = "op0 modified"
		}
		recvIsB := op.alias == '1' || (O != nil && O == B) || (B == A && recvIsA)
		if bSnap != nil && !recvIsB && !B.ct.Equal(bSnap) {
			d += " op1 modified"
		}
		c.Probe("inputs_unchanged", args, "C06/input-modified:"+op.kind, d)
	}
	if panicked || err != nil {
		// a failed call may have left the receiver in an unspecified state: re-encrypt it
		if O != nil {
			*O = *e.fresh(c, e.params.MaxLevel(), c.rng.Intn(e.logMax+1), e.params.DefaultScale())
		}
		if op.alias == '0' || inPlaceOnly {
			*A = *e.fresh(c, e.params.MaxLevel(), c.rng.Intn(e.logMax+1), e.params.DefaultScale())
		}
		return
	}
	// ---- reference value and error bound
	nOut := 1 << res.LogDimensions.Cols
	want := make([]complex128, nOut)
	var eb float64
	ma := c06MaxAbs(A.want)
	outScale := res.Scale.Float64()
	noise := e.noiseTerm(res.Scale)
	sg := complex(1, 0)
	if op.sub {
		sg = -1
	}
	switch op.kind {
	case "addelt":
		for i := range want {
			want[i] = c06At(A.want, i) + sg*c06At(bWant, i)
		}
		eb = A.eb + bEb + noise
	case "addsc":
		for i := range want {
			want[i] = c06At(A.want, i) + sg*op.cval
		}
		eb = A.eb + 1/A.ct.Scale.Float64() + noise
	case "addvec":
		for i := range want {
			v := complex(0, 0)
			if i < len(op.vvals) {
				v = op.vvals[i]
			}
			want[i] = c06At(A.want, i) + sg*v
		}
		eb = A.eb + noise
	case "mulelt":
		mb := c06MaxAbs(bWant)
		for i := range want {
			want[i] = c06At(A.want, i) * c06At(bWant, i)
		}
		eb = ma*bEb + mb*A.eb + A.eb*bEb + noise
	case "mulsc":
		for i := range want {
			want[i] = c06At(A.want, i) * op.cval
		}
		eb = cmplx.Abs(op.cval)*A.eb + ma*2/e.primeScale(res.Level()) + ma*math.Exp2(-50) + noise
	case "mulvec":
		for i := range want {
			v := complex(0, 0)
			if i < len(op.vvals) {
				v = op.vvals[i]
			}
			want[i] = c06At(A.want, i) * v
		}
		eb = A.eb + ma*float64(e.N)*2/e.primeScale(res.Level()) + noise
	case "mtaelt":
		mb := c06MaxAbs(bWant)
		for i := range want {
			want[i] = c06At(oldO, i) + c06At(A.want, i)*c06At(bWant, i)
		}
		eb = oldOeb + ma*bEb + mb*A.eb + A.eb*bEb + noise + c06MaxAbs(oldO)*2/oldOScale
	case "mtasc":
		for i := range want {
			want[i] = c06At(oldO, i) + c06At(A.want, i)*op.cval
		}
		eb = oldOeb + cmplx.Abs(op.cval)*A.eb + ma*2/e.primeScale(am.level) + ma*math.Exp2(-50) + noise
	case "mtavec":
		for i := range want {
			v := complex(0, 0)
			if i < len(op.vvals) {
				v = op.vvals[i]
			}
			want[i] = c06At(oldO, i) + c06At(A.want, i)*v
		}
		eb = oldOeb + A.eb + ma*float64(e.N)*2/e.primeScale(am.level) + noise
	case "rotate":
		n := len(A.want)
		k := ((op.n % n) + n) % n
		for i := range want {
			want[i] = A.want[(i+k)%n]
		}
		eb = A.eb + noise
	case "conj":
		for i := range want {
			want[i] = cmplx.Conj(c06At(A.want, i))
		}
		eb = A.eb + noise
	case "setscale":
		copy(want, A.want)
		eb = 2*A.eb + ma*math.Exp2(-45) + noise
		if r, isInt := c06Ratio(op.dy, am.scale); !isInt && r*e.c06ConstScale(am.level) >= 2 {
			// the constant round(ratio*q) carries a relative quantisation error of at most 1/(2*ratio*q): this is
			// precision implied by the scale the constant is encoded at, not a defect (total underflow is, see diag)
			eb += ma * 0.5 / (r * e.c06ConstScale(am.level))
		}
	default: // rescale, rescaleto, scaleup, droplevel, relin: value unchanged
		for i := range want {
			want[i] = c06At(A.want, i)
		}
		eb = A.eb + noise
	}
	_ = outScale
	if op.kind == "mtaelt" && om.scale.Cmp(am.scale.Mul(bm.scale)) > 0 {
		// documented precondition opOut.Scale <= op0.Scale*op1.Scale violated: nothing is promised
		c.Count("precondition-violated:mtaelt-scale")
		eb = math.Inf(1)
	}
	if (op.kind == "mtasc" || op.kind == "mtavec") && am.scale.Cmp(om.scale) < 0 {
		// constant encoded at scale S = opOut.Scale/op0.Scale (documented): quantisation 1/S
		S, _ := c06Ratio(om.scale, am.scale)
		eb += ma * float64(e.N) / S
	}
	mw := c06MaxAbs(want)
	tol := eb + math.Exp2(-44)*(1+mw)
	// ---- decrypt + decode
	d = ""
	var have []complex128
	if mw*res.Scale.Float64()*4 < math.Exp2(float64(e.params.LogQLvl(res.Level()))) && res.Degree() <= 2 {
		have = e.decode(res)
		worst := 0.0
		for i := range want {
			if x := cmplx.Abs(have[i] - want[i]); x > worst || math.IsNaN(x) {
				worst = x
			}
		}
		if !(worst <= tol) {
			d = fmt.Sprintf("log2err=%d log2tol=%d level=%d", int(math.Ceil(math.Log2(worst))), int(math.Ceil(math.Log2(tol))), res.Level())
		}
		key := "C06/precision:" + op.kind
		if dg := e.diag(op, am, bm, om); dg != "" {
			key = "C06/" + dg
			c.Count("defect-condition:" + dg)
		}
		if d != "" && os.Getenv("VERIF_DEBUG") != "" && strings.HasPrefix(key, "C06/precision") {
			fmt.Fprintln(os.Stderr, "DEBUG", args, d, "relin", op.relin, "sub", op.sub, "bIsPt", op.bIsPt, "n", op.n, "dy", op.dy.Float64(), "\n  want", want[:min(4, len(want))], "\n  have", have[:min(4, len(have))], "\n  A", A.want[:min(4, len(A.want))], "eb", eb, "veclen", len(op.vvals), "ai,bi,oi", ai, bi, oi, "\n  B", bWant[:min(4, len(bWant))], "\n  oldO", oldO[:min(4, len(oldO))])
		}
		c.Probe("program_precision", args, key, d)
	} else {
		// the message no longer fits Q_level/scale (or degree > 2): nothing to compare, restart the register
		c.Count("precision-skipped-overflow")
		eb = math.Inf(1)
	}
	// ---- commit
	out := &c06Reg{ct: res, want: want, eb: eb}
	if d != "" {
		// isolate the defect: a register that failed the probe may hold a structurally broken
		// ciphertext (wrong dimensions, inconsistent limbs): restart it
		out = e.fresh(c, e.params.MaxLevel(), c.rng.Intn(e.logMax+1), e.params.DefaultScale())
	}
	if mw > 64 || !(out.eb <= 1e-2) {
		out = e.fresh(c, e.params.MaxLevel(), c.rng.Intn(e.logMax+1), e.params.DefaultScale())
	}
	switch {
	case O != nil:
		*O = *out
	default:
		*regs[oi] = *out
	}
}

// c06IsIntRatio reports whether big/small is an integer (as a 128-bit quotient).
func c06Ratio(a, b rlwe.Scale) (ratio float64, isInt bool) {
	q := a.Div(b)
	return q.Float64(), q.Value.IsInt()
}

// c06ConstScale: the factor by which Evaluator.Mul scales a non-integer constant at this level
// (the product of LevelsConsumedPerRescaling() primes from the top of the level).
func (e *c06Env) c06ConstScale(level int) float64 {
	f := 1.0
	for i := 0; i < e.params.LevelsConsumedPerRescaling() && level-i >= 0; i++ {
		f *= float64(e.params.Q()[level-i])
	}
	return f
}

// diag names the known defect class a failing precision probe belongs to ("" = none known).
func (e *c06Env) diag(op *c06Op, am, bm, om c06M) string {
	switch op.kind {
	case "addelt":
		if c := am.scale.Cmp(bm.scale); c != 0 {
			hi, lo := am.scale, bm.scale
			if c < 0 {
				hi, lo = lo, hi
			}
			if _, isInt := c06Ratio(hi, lo); !isInt {
				return "add-noninteger-scale-ratio"
			}
		}
	case "mtaelt":
		res := am.scale.Mul(bm.scale)
		if om.scale.Cmp(res) < 0 {
			r, isInt := c06Ratio(res, om.scale)
			if os.Getenv("VERIF_DEBUG") != "" {
				fmt.Fprintln(os.Stderr, "diag mtaelt", r, isInt, res.Float64(), om.scale.Float64())
			}
			if r < 2 {
				return "mta-ratio-below-2-not-aligned"
			}
			if !isInt {
				return "mta-scaleup-noninteger-ratio"
			}
		}
	case "scaleup":
		if !op.dy.Value.IsInt() {
			return "scaleup-truncates-scale"
		}
	case "setscale":
		if r, isInt := c06Ratio(op.dy, am.scale); !isInt {
			if r >= 2 {
				return "setscale-noninteger-ratio-ge2"
			}
			// RescaleTo works on the recorded scale old*q_l, not on the true one target*q_l:
			// for old/q_{l-1} >= target/2 it divides by more primes than the constant was scaled by
			lc := e.params.LevelsConsumedPerRescaling()
			if am.level < lc {
				// Mul scaled the constant by lc primes (it only needs level >= lc-1); RescaleTo stops at level 0
				// and can divide by at most `level` of them: the content keeps a factor q while the scale is overwritten
				return "setscale-level-below-primes-consumed"
			}
			if am.level-lc >= 0 && r*float64(e.params.Q()[am.level-lc]) <= 2.0000001 {
				return "setscale-ratio-below-2-over-q"
			}
			// Mul encodes the non-integer constant as round(ratio * q_l[* q_{l-1}...]): below 2 it is 0 or 1
			if r*e.c06ConstScale(am.level) < 2 {
				return "setscale-constant-underflow"
			}
		}
	}
	if (op.kind == "mtaelt" || op.kind == "mtasc" || op.kind == "mtavec") && om.logSlots > am.logSlots && (op.kind != "mtaelt" || om.logSlots > bm.logSlots) {
		return "mta-receiver-logslots-ignored"
	}
	return ""
}

// ---------- generator ----------

func genC06(c *Ctx) {
	envs := c06Envs(c)
	// parameter derivation ties
	for _, e := range envs {
		c.Emit("params "+c06DyS(e.params.DefaultScale()), fmt.Sprintf("%d %d", e.params.EncodingPrecision(), e.params.LevelsConsumedPerRescaling()))
	}
	for _, ls := range []int{20, 30, 45, 53, 54, 60, 64, 65, 90, 120} {
		p, err := ckks.NewParametersFromLiteral(ckks.ParametersLiteral{LogN: 5, LogQ: []int{55, 45, 45}, LogP: []int{55}, LogDefaultScale: ls})
		if err != nil {
			continue
		}
		c.Emit("params "+c06DyS(p.DefaultScale()), fmt.Sprintf("%d %d", p.EncodingPrecision(), p.LevelsConsumedPerRescaling()))
	}
	nprog := c.Scale(24, 400)
	plen := c.Scale(14, 24)
	for pi := 0; pi < nprog; pi++ {
		e := envs[pi%len(envs)]
		regs := make([]*c06Reg, 3)
		for i := range regs {
			lvl := e.params.MaxLevel()
			if c.rng.Intn(3) == 0 {
				lvl = c.rng.Intn(e.params.MaxLevel() + 1)
			}
			ls := e.logMax
			if c.rng.Intn(2) == 0 {
				ls = c.rng.Intn(e.logMax + 1) // sparse packing, down to one slot
			}
			scale := e.params.DefaultScale()
			switch c.rng.Intn(7) {
			case 0: // non-integer ratio to the default scale
				scale = rlwe.NewScale(math.Exp2(float64(e.logDflt)) * (1 + float64(1+c.rng.Intn(7))/8))
			case 1: // integer ratio
				scale = rlwe.NewScale(math.Exp2(float64(e.logDflt - 3)))
			case 2: // integer ratios 2, 3, 2^k above the default
				scale = e.params.DefaultScale().Mul(rlwe.NewScale([]float64{2, 3, 4, 16}[c.rng.Intn(4)]))
			}
			regs[i] = e.fresh(c, lvl, ls, scale)
		}
		for s := 0; s < plen; s++ {
			e.step(c, regs, fmt.Sprintf("%d.%d", pi, s))
		}
		c.Count("programs:" + e.tag)
	}
	c06Directed(c, envs)
	c06History(c, envs)
	c06ScalarBoundary(c, envs)
	c06ShallowCopyPrecision(c, envs)
	c06PlaintextHistory(c, envs)
	c06Independence(c, envs)
	c06RescaleChains(c, envs)
	c06Malformed(c, envs)
}

// c06Directed: Add/Sub of operands of DIFFERENT degree whose scales differ by an integer ratio (2, 3, 2^k),
// the operand of higher degree having the smaller scale (so that it is the one that gets multiplied), with a
// fresh receiver, the ...New variant, and both in-place forms: tie on all components + decrypted precision.
func c06Directed(c *Ctx, envs []*c06Env) {
	for _, e := range envs {
		ds := e.params.DefaultScale()
		lvl := e.params.MaxLevel()
		for _, r := range []float64{2, 3, 16} {
			for _, shape := range []string{"ct+pt", "deg2+deg1"} {
				for _, recv := range []string{"f", "new", "0", "1"} {
					for _, sub := range []bool{false, true} {
						if shape == "ct+pt" && recv == "1" {
							continue
						}
						var A, B *c06Reg
						var bOp rlwe.Operand
						var bWant []complex128
						op := &c06Op{kind: "addelt", sub: sub, alias: 'f'}
						if shape == "ct+pt" {
							A = e.fresh(c, lvl, e.logMax, ds)
							bWant = e.randVals(c, 1<<e.logMax, 1)
							pt := ckks.NewPlaintext(e.params, lvl)
							pt.Scale = ds.Mul(rlwe.NewScale(r))
							if err := e.ecd.Encode(bWant, pt); err != nil {
								panic(err)
							}
							bOp, op.bIsPt = pt, true
						} else {
							x, y := e.fresh(c, lvl, e.logMax, ds), e.fresh(c, lvl, e.logMax, ds)
							prod, err := e.eval.MulNew(x.ct, y.ct)
							if err != nil {
								panic(err)
							}
							w := make([]complex128, len(x.want))
							for i := range w {
								w[i] = x.want[i] * y.want[i]
							}
							A = &c06Reg{ct: prod, want: w}
							B = e.fresh(c, lvl, e.logMax, prod.Scale.Mul(rlwe.NewScale(r)))
							bOp, bWant = B.ct, B.want
						}
						am := c06MetaOf(A.ct.El())
						var bm c06M
						if op.bIsPt {
							bm = c06MetaOf(bOp.(*rlwe.Plaintext).El())
						} else {
							bm = c06MetaOf(B.ct.El())
						}
						om := c06M{am.level, am.degree, e.logMax, ds}
						var oct *rlwe.Ciphertext
						switch recv {
						case "f":
							oct = ckks.NewCiphertext(e.params, am.degree, am.level)
						case "new":
							op.useNew = true
						case "0":
							op.alias, oct, om = '0', A.ct, am
						case "1":
							op.alias, oct, om = '1', B.ct, bm
						}
						e.tie(c, op, am, bm, om)
						args := fmt.Sprintf("%s %s ratio=%g recv=%s sub=%v", e.tag, shape, r, recv, sub)
						d := Try(func() string {
							res, err := e.exec(op, A.ct, bOp, oct)
							if err != nil {
								return "error"
							}
							have := e.decode(res)
							tol := 64*e.noiseTerm(ds) + math.Exp2(-40)
							sg := complex(1, 0)
							if sub {
								sg = -1
							}
							for i := range have {
								if x := cmplx.Abs(have[i] - (A.want[i] + sg*bWant[i])); !(x <= tol) {
									return fmt.Sprintf("slot=%d log2err=%d log2tol=%d degree=%d", i, int(math.Ceil(math.Log2(x))), int(math.Ceil(math.Log2(tol))), res.Degree())
								}
							}
							return ""
						})
						c.Probe("program_precision", args, "C06/precision:addelt-degree-scale", d)
						c.Count("directed:" + shape + ":" + recv)
					}
				}
			}
		}
	}
}

// probeVals compares decrypt+decode of ct with want (periodic extension) and emits program_precision.
func (e *c06Env) probeVals(c *Ctx, ct *rlwe.Ciphertext, want []complex128, tol float64, args, key string) {
	d := Try(func() string {
		have := e.decode(ct)
		for i := range have {
			if x := cmplx.Abs(have[i] - c06At(want, i)); !(x <= tol) {
				return fmt.Sprintf("slot=%d log2err=%d log2tol=%d level=%d degree=%d", i, int(math.Ceil(math.Log2(x))), int(math.Ceil(math.Log2(tol))), ct.Level(), ct.Degree())
			}
		}
		return ""
	})
	c.Probe("program_precision", args, key, d)
}

// fits reports whether a message of magnitude mag at the ciphertext's scale fits Q_level (with margin).
func (e *c06Env) fits(ct *rlwe.Ciphertext, mag float64) bool {
	return math.Log2(mag+1)+ct.Scale.Log2()+3 < float64(e.params.LogQLvl(ct.Level()))
}

// tolFor: the stated bound 64*C*N/scale with the smaller of the default and the ciphertext's scale.
func (e *c06Env) tolFor(ct *rlwe.Ciphertext) float64 {
	s := e.params.DefaultScale()
	if ct.Scale.Cmp(s) < 0 {
		s = ct.Scale
	}
	return 64*e.noiseTerm(s) + math.Exp2(-40)
}

func c06MulVals(a, b []complex128) []complex128 {
	w := make([]complex128, len(a))
	for i := range w {
		w[i] = a[i] * c06At(b, i)
	}
	return w
}

func c06AddVals(a, b []complex128) []complex128 {
	w := make([]complex128, len(a))
	for i := range w {
		w[i] = a[i] + c06At(b, i)
	}
	return w
}

// c06History: sequences on ONE accumulator / receiver whose degree grows, shrinks and grows again and whose
// level drops and is raised again: a component or limb that re-appears must be zero / fully rewritten.
//   real:  MulThenAdd(a,b,acc) -> Relinearize(acc,acc) -> MulThenAdd(c,d,acc) -> Relinearize(acc,acc)
//          -> DropLevel(acc) -> MulRelinThenAdd(a,b,acc) -> DropLevel(acc, lcpr+1) -> Rescale(x, acc) (level raised)
//          -> Add(acc,acc,acc)                                  (precision probe after every step)
//   tie:   transparent receiver of degree 2 shrunk with Element.Resize(1, level), then grown again by
//          MulThenAdd (element operands) resp. MulThenAdd (scalar, op0 of degree 2): the effect on component 2
//          is read back and must be the model's (multiplier 0 on the receiver's vanished component).
func c06History(c *Ctx, envs []*c06Env) {
	for _, e := range envs {
		ds := e.params.DefaultScale()
		ds2 := ds.Mul(ds)
		L := e.params.MaxLevel()
		lc := e.params.LevelsConsumedPerRescaling()
		for rep := 0; rep < c.Scale(1, 4); rep++ {
			ls := e.logMax
			if rep > 0 {
				ls = 1 + c.rng.Intn(e.logMax)
			}
			a, b, x2, d := e.fresh(c, L, ls, ds), e.fresh(c, L, ls, ds), e.fresh(c, L, ls, ds), e.fresh(c, L, ls, ds)
			acc := e.fresh(c, L, ls, ds2)
			want := acc.want
			step := func(name string, f func() error, upd func()) bool {
				var err error
				out := Try(func() string { err = f(); return "" })
				args := fmt.Sprintf("%s history rep=%d step=%s", e.tag, rep, name)
				if out == "panic" || err != nil {
					c.Probe("program_precision", args, "C06/precision:history", "call failed")
					return false
				}
				upd()
				if !e.fits(acc.ct, c06MaxAbs(want)) {
					c.Count("history-stopped-overflow")
					return name == "drop2" // the receiver is overwritten by the next step
				}
				e.probeVals(c, acc.ct, want, e.tolFor(acc.ct), args, "C06/precision:history")
				return true
			}
			ab, cd := c06MulVals(a.want, b.want), c06MulVals(x2.want, d.want)
			ok := step("mta1", func() error { return e.eval.MulThenAdd(a.ct, b.ct, acc.ct) }, func() { want = c06AddVals(want, ab) }) &&
				step("relin1", func() error { return e.eval.Relinearize(acc.ct, acc.ct) }, func() {}) &&
				step("mta2", func() error { return e.eval.MulThenAdd(x2.ct, d.ct, acc.ct) }, func() { want = c06AddVals(want, cd) }) &&
				step("relin2", func() error { return e.eval.Relinearize(acc.ct, acc.ct) }, func() {}) &&
				step("drop1", func() error { e.eval.DropLevel(acc.ct, 1); return nil }, func() {}) &&
				step("mrta3", func() error { return e.eval.MulRelinThenAdd(a.ct, b.ct, acc.ct) }, func() { want = c06AddVals(want, ab) })
			if ok && L-lc-1 >= 0 {
				x, err := e.eval.MulRelinNew(a.ct, b.ct)
				if err != nil {
					panic(err)
				}
				_ = step("drop2", func() error { e.eval.DropLevel(acc.ct, acc.ct.Level()-(L-lc-1)); return nil }, func() {}) &&
					step("rescale-into-lower-receiver", func() error { return e.eval.Rescale(x, acc.ct) }, func() { want = ab }) &&
					step("add-inplace", func() error { return e.eval.Add(acc.ct, acc.ct, acc.ct) }, func() { want = c06AddVals(want, want) })
			}
			c.Count("history:" + e.tag)
		}
		// every order of two accumulator operations, starting from an accumulator of degree 1 and of degree 2
		{
			ls := e.logMax
			a, b, x2, d := e.fresh(c, L, ls, ds), e.fresh(c, L, ls, ds), e.fresh(c, L, ls, ds), e.fresh(c, L, ls, ds)
			ab, cd := c06MulVals(a.want, b.want), c06MulVals(x2.want, d.want)
			names := []string{"MulThenAdd", "MulRelinThenAdd", "Mul", "MulRelin", "Relinearize"}
			seqLen := c.Scale(2, 3)
			total := 1
			for i := 0; i < seqLen; i++ {
				total *= len(names)
			}
			for startDeg := 1; startDeg <= 2; startDeg++ {
				for code := 0; code < total; code++ {
					var acc *rlwe.Ciphertext
					var want []complex128
					if startDeg == 1 {
						r := e.fresh(c, L, ls, ds2)
						acc, want = r.ct, r.want
					} else {
						p, err := e.eval.MulNew(a.ct, b.ct)
						if err != nil {
							panic(err)
						}
						acc, want = p, ab
					}
					seq := ""
					cc := code
					for st := 0; st < seqLen; st++ {
						name := names[cc%len(names)]
						cc /= len(names)
						if name == "Relinearize" && acc.Degree() != 2 {
							continue // documented error for degree != 2
						}
						seq += name + ">"
						var err error
						out := Try(func() string {
							switch name {
							case "MulThenAdd":
								err = e.eval.MulThenAdd(x2.ct, d.ct, acc)
							case "MulRelinThenAdd":
								err = e.eval.MulRelinThenAdd(x2.ct, d.ct, acc)
							case "Mul":
								err = e.eval.Mul(a.ct, b.ct, acc)
							case "MulRelin":
								err = e.eval.MulRelin(a.ct, b.ct, acc)
							case "Relinearize":
								err = e.eval.Relinearize(acc, acc)
							}
							return ""
						})
						args := fmt.Sprintf("%s accumulator startDegree=%d seq=%s", e.tag, startDeg, seq)
						if out == "panic" || err != nil {
							c.Probe("program_precision", args, "C06/precision:history", "call failed")
							break
						}
						switch name {
						case "MulThenAdd", "MulRelinThenAdd":
							want = c06AddVals(want, cd)
						case "Mul", "MulRelin":
							want = ab
						}
						e.probeVals(c, acc, want, e.tolFor(acc)*4, args, "C06/precision:history")
					}
				}
			}
		}
		// MulRelinThenAdd / MulThenAdd into a degree-2 receiver: ties (the pending degree-2 term is kept)
		for _, relin := range []bool{true, false} {
			for _, bdeg := range []int{1, 0} {
				op := &c06Op{kind: "mtaelt", alias: 'f', relin: relin, bIsPt: bdeg == 0}
				e.tie(c, op, c06M{L, 1, e.logMax, ds}, c06M{L, bdeg, e.logMax, ds}, c06M{L, 2, e.logMax, ds2})
			}
		}
		// ties on a transparent receiver with a history
		for _, kind := range []string{"mtaelt", "mtasc"} {
			lvl := L
			accT := e.transp(c06M{lvl, 2, e.logMax, ds2}, 4, false)
			accT.Resize(1, lvl) // shrink: the degree-2 polynomial stays in the spare capacity of the slice
			om := c06MetaOf(accT.El())
			op := &c06Op{kind: kind, alias: 'f', recv: accT}
			if kind == "mtaelt" {
				e.tie(c, op, c06M{lvl, 1, e.logMax, ds}, c06M{lvl, 1, e.logMax, ds}, om)
			} else {
				op.scalar, op.re, op.im, op.cval = 3, new(big.Float).SetInt64(3), new(big.Float), 3
				e.tie(c, op, c06M{lvl, 2, e.logMax, ds2}, c06M{}, om)
			}
			c.Count("tie-history:" + kind)
		}
	}
}

// c06ScalarBoundary: scalar operands of EVERY accepted Go type at the boundary values of that type, through
// Add / Sub / Mul / MulThenAdd: exact tie of the RNS constants (the model rounds the exact value to the encoding
// precision as bignum.ToComplex must) + decrypted value where the result fits Q_level.
func c06ScalarBoundary(c *Ctx, envs []*c06Env) {
	type sc struct {
		kind string
		v    interface{}
		re   *big.Float
		im   *big.Float
	}
	bi := func(s string) *big.Int { x, _ := new(big.Int).SetString(s, 10); return x }
	exact := func(x *big.Int) *big.Float { return new(big.Float).SetPrec(uint(x.BitLen() + 2)).SetInt(x) }
	zero := func() *big.Float { return new(big.Float) }
	var list []sc
	for _, u := range []uint64{0, 1, 1 << 31, 1 << 32, 1<<53 - 1, 1<<53 + 1, 1<<63 - 1, 1 << 63, 1<<64 - 1} {
		x := new(big.Int).SetUint64(u)
		list = append(list, sc{"uint64", u, exact(x), zero()}, sc{"uint", uint(u), exact(x), zero()},
			sc{"bigint", new(big.Int).Set(x), exact(x), zero()})
	}
	for _, i := range []int64{0, 1, -1, 1 << 31, -(1 << 31), 1 << 32, 1<<53 - 1, 1<<53 + 1, -(1<<53 + 1), math.MaxInt64, math.MinInt64} {
		x := big.NewInt(i)
		list = append(list, sc{"int64", i, exact(x), zero()}, sc{"int", int(i), exact(x), zero()},
			sc{"bigint", new(big.Int).Set(x), exact(x), zero()})
	}
	for _, f := range []float64{0, 1, -1, 1 << 31, 1 << 32, 1<<53 - 1, 1 << 53, -(1 << 63), 1 << 63, 18446744073709551616.0, 0.5, -0.75} {
		b := new(big.Float).SetFloat64(f)
		list = append(list, sc{"float64", f, b, zero()}, sc{"complex128", complex(f, -f), b, new(big.Float).SetFloat64(-f)},
			sc{"bigfloat", new(big.Float).SetPrec(100).SetFloat64(f), b, zero()},
			sc{"bigcomplex", &bignum.Complex{new(big.Float).SetPrec(100).SetFloat64(f), new(big.Float).SetPrec(100).SetFloat64(-f)}, b, new(big.Float).SetFloat64(-f)})
	}
	// beyond a float64 mantissa / a machine word, arbitrary precision types
	for _, str := range []string{"18446744073709551617", "-18446744073709551615", "36893488147419103232"} {
		x := bi(str)
		list = append(list, sc{"bigint", x, exact(x), zero()}, sc{"bigfloat", new(big.Float).SetPrec(100).SetInt(x), exact(x), zero()})
	}
	for _, e := range envs {
		ds := e.params.DefaultScale()
		L := e.params.MaxLevel()
		for _, s := range list {
			if e.ci && s.im.Sign() != 0 {
				continue
			}
			for _, kind := range []string{"addsc", "subsc", "mulsc", "mtasc"} {
				op := &c06Op{kind: kind, alias: 'f', scalar: s.v, re: s.re, im: s.im, skind: s.kind}
				if kind == "subsc" {
					op.kind, op.sub = "addsc", true
				}
				rf, _ := s.re.Float64()
				imf, _ := s.im.Float64()
				op.cval = complex(rf, imf)
				m := c06M{L, 1, e.logMax, ds}
				e.tie(c, op, m, c06M{}, m)
				// decrypted value
				a := e.fresh(c, L, e.logMax, ds)
				o := e.fresh(c, L, e.logMax, ds)
				args := fmt.Sprintf("%s %s type=%s value=%s", e.tag, kind, s.kind, s.re.Text('g', 30))
				d := Try(func() string {
					res, err := e.exec(op, a.ct, nil, o.ct)
					if err != nil {
						return "error"
					}
					want := make([]complex128, len(a.want))
					for i := range want {
						switch kind {
						case "addsc":
							want[i] = a.want[i] + op.cval
						case "subsc":
							want[i] = a.want[i] - op.cval
						case "mulsc":
							want[i] = a.want[i] * op.cval
						case "mtasc":
							want[i] = o.want[i] + a.want[i]*op.cval
						}
					}
					mw := c06MaxAbs(want)
					if !e.fits(res, mw) {
						c.Count("scalar-boundary-skipped-overflow")
						return ""
					}
					tol := e.tolFor(res)*(1+cmplx.Abs(op.cval)) + mw*math.Exp2(-40)
					have := e.decode(res)
					for i := range have {
						if x := cmplx.Abs(have[i] - want[i]); !(x <= tol) {
							return fmt.Sprintf("slot=%d got %g want %g", i, have[i], want[i])
						}
					}
					return ""
				})
				c.Probe("program_precision", args, "C06/precision:scalar-boundary", d)
			}
		}
	}
}

// c06ShallowCopyPrecision: in the high-precision mode (encoding precision > 53 bits) an evaluator / encoder obtained
// from ShallowCopy() must encode vector operands at the SAME precision: the error bound is the one implied by the
// scale (noise/scale), far below 2^-53; results are decoded into arbitrary-precision receivers with a ShallowCopy'd encoder.
func c06ShallowCopyPrecision(c *Ctx, envs []*c06Env) {
	for _, e := range envs {
		if e.params.EncodingPrecision() <= 53 {
			continue
		}
		ds := e.params.DefaultScale()
		L := e.params.MaxLevel()
		evalSC := e.eval.ShallowCopy()
		ecdSC := e.ecd.ShallowCopy()
		prec := e.params.EncodingPrecision()
		tol := 16 * e.noiseTerm(ds)
		for rep := 0; rep < c.Scale(2, 6); rep++ {
			for _, kind := range []string{"float64", "complex128", "bigfloat", "short-float64"} {
				if e.ci && kind == "complex128" {
					continue
				}
				for _, opn := range []string{"AddNew", "SubNew", "MulNew"} {
					ls := e.logMax
					slots := 1 << ls
					n := slots
					if kind == "short-float64" {
						n = 1 + c.rng.Intn(slots-1)
					}
					// exactly representable inputs: k/2^20
					x := make([]complex128, slots)
					v := make([]complex128, n)
					for i := range x {
						x[i] = complex(float64(c.rng.Intn(1<<20))/float64(1<<20)-0.5, 0)
					}
					for i := range v {
						v[i] = complex(float64(c.rng.Intn(1<<20))/float64(1<<20)-0.5, 0)
						if kind == "complex128" {
							v[i] = complex(real(v[i]), float64(c.rng.Intn(1<<20))/float64(1<<20)-0.5)
						}
					}
					var operand interface{}
					switch kind {
					case "complex128":
						operand = v
					case "bigfloat":
						b := make([]*big.Float, n)
						for i := range b {
							b[i] = new(big.Float).SetPrec(prec).SetFloat64(real(v[i]))
						}
						operand = b
					default:
						f := make([]float64, n)
						for i := range f {
							f[i] = real(v[i])
						}
						operand = f
					}
					args := fmt.Sprintf("%s %s operand=%s len=%d/%d encodingPrecision=%d", e.tag, opn, kind, n, slots, prec)
					d := Try(func() string {
						pt := ckks.NewPlaintext(e.params, L)
						pt.LogDimensions.Cols = ls
						if err := ecdSC.Encode(x, pt); err != nil {
							return "encode error"
						}
						ct, err := e.enc.EncryptNew(pt)
						if err != nil {
							return "encrypt error"
						}
						var res *rlwe.Ciphertext
						switch opn {
						case "AddNew":
							res, err = evalSC.AddNew(ct, operand)
						case "SubNew":
							res, err = evalSC.SubNew(ct, operand)
						case "MulNew":
							res, err = evalSC.MulNew(ct, operand)
						}
						if err != nil {
							return "call failed"
						}
						have := make([]*bignum.Complex, slots)
						if err := ecdSC.Decode(e.dec.DecryptNew(res), have); err != nil {
							return "decode error"
						}
						for i := 0; i < slots; i++ {
							w := complex(0, 0)
							if i < n {
								w = v[i]
							}
							var want complex128
							switch opn {
							case "AddNew":
								want = x[i] + w
							case "SubNew":
								want = x[i] - w
							case "MulNew":
								want = x[i] * w // products of 20-bit dyadics: exact in complex128
							}
							dr, _ := new(big.Float).SetPrec(300).Sub(have[i][0], new(big.Float).SetFloat64(real(want))).Float64()
							di, _ := new(big.Float).SetPrec(300).Sub(have[i][1], new(big.Float).SetFloat64(imag(want))).Float64()
							if x := math.Hypot(dr, di); !(x <= tol) {
								return fmt.Sprintf("slot=%d log2err=%d log2tol=%d", i, int(math.Ceil(math.Log2(x))), int(math.Ceil(math.Log2(tol))))
							}
						}
						return ""
					})
					c.Probe("program_precision", args, "C06/precision:shallowcopy-highprec", d)
				}
			}
		}
	}
}

// c06PlaintextHistory: plaintext operands with a history (allocated at a low level, Copy from a higher level / CopyNew /
// Resize, then Encode, then use above the old level): `pt.Value` must stay bound to `pt.Element.Value[0]` (same rows,
// same level) after every plaintext-mutating API, and the operation must see the freshly encoded values.
func c06PlaintextHistory(c *Ctx, envs []*c06Env) {
	for _, e := range envs {
		ds := e.params.DefaultScale()
		L := e.params.MaxLevel()
		bound := func(pt *rlwe.Plaintext) string {
			a, b := pt.Value.Coeffs, pt.Element.Value[0].Coeffs
			if len(a) != len(b) {
				return fmt.Sprintf("pt.Value has %d rows, pt.Element.Value[0] has %d", len(a), len(b))
			}
			for i := range a {
				if &a[i][0] != &b[i][0] {
					return fmt.Sprintf("row %d of pt.Value is not the row of pt.Element.Value[0]", i)
				}
			}
			return ""
		}
		mkHigh := func() (*rlwe.Plaintext, []complex128) {
			v := e.randVals(c, 1<<e.logMax, 1)
			pt := ckks.NewPlaintext(e.params, L)
			if err := e.ecd.Encode(v, pt); err != nil {
				panic(err)
			}
			return pt, v
		}
		type hist struct {
			name string
			f    func() *rlwe.Plaintext
		}
		hs := []hist{
			{"NewPlaintext", func() *rlwe.Plaintext { return ckks.NewPlaintext(e.params, L) }},
			{"low.Copy(high)", func() *rlwe.Plaintext {
				hi, _ := mkHigh()
				pt := ckks.NewPlaintext(e.params, 0)
				pt.Copy(hi)
				return pt
			}},
			{"high.Copy(low)-then-Copy(high)", func() *rlwe.Plaintext {
				hi, _ := mkHigh()
				lo := ckks.NewPlaintext(e.params, 0)
				pt := ckks.NewPlaintext(e.params, L)
				pt.Copy(lo)
				pt.Copy(hi)
				return pt
			}},
			{"CopyNew", func() *rlwe.Plaintext { hi, _ := mkHigh(); return hi.CopyNew() }},
			{"low.Resize(0,L)", func() *rlwe.Plaintext { pt := ckks.NewPlaintext(e.params, 0); pt.Resize(0, L); return pt }},
			{"low.CopyNew-then-Copy(high)", func() *rlwe.Plaintext {
				hi, _ := mkHigh()
				pt := ckks.NewPlaintext(e.params, 0).CopyNew()
				pt.Copy(hi)
				return pt
			}},
		}
		for _, h := range hs {
			for _, opn := range []string{"Add", "Mul"} {
				args := fmt.Sprintf("%s plaintext=%s op=%s", e.tag, h.name, opn)
				var ptOut *rlwe.Plaintext
				d := Try(func() string {
					pt := h.f()
					ptOut = pt
					if s := bound(pt); s != "" {
						return s
					}
					if pt.Level() != L {
						return fmt.Sprintf("level %d, expected %d", pt.Level(), L)
					}
					v := e.randVals(c, 1<<e.logMax, 1)
					pt.Scale = c06Scale(ds)
					pt.LogDimensions.Cols = e.logMax
					if err := e.ecd.Encode(v, pt); err != nil {
						return "encode error"
					}
					if s := bound(pt); s != "" {
						return "after Encode: " + s
					}
					a := e.fresh(c, L, e.logMax, ds)
					var res *rlwe.Ciphertext
					var err error
					want := make([]complex128, len(a.want))
					if opn == "Add" {
						res, err = e.eval.AddNew(a.ct, pt)
						for i := range want {
							want[i] = a.want[i] + v[i]
						}
					} else {
						res, err = e.eval.MulNew(a.ct, pt)
						for i := range want {
							want[i] = a.want[i] * v[i]
						}
					}
					if err != nil {
						return "call failed"
					}
					have := e.decode(res)
					tol := 16*e.noiseTerm(ds) + math.Exp2(-40)
					for i := range have {
						if x := cmplx.Abs(have[i] - want[i]); !(x <= tol) {
							return fmt.Sprintf("slot=%d log2err=%d log2tol=%d", i, int(math.Ceil(math.Log2(x))), int(math.Ceil(math.Log2(tol))))
						}
					}
					return ""
				})
				_ = ptOut
				key := "C06/precision:plaintext-history"
				if strings.Contains(h.name, "Resize") {
					key = "C06/plaintext-resize-value-not-rebound"
				}
				c.Probe("plaintext_history", args, key, d)
			}
		}
	}
}

// c06Independence: every evaluator method that returns a NEW ciphertext (…New variants, DropLevelNew, CopyNew,
// RotateHoistedNew) or fills a receiver distinct from its input (Rescale, RescaleTo with and without rescaling,
// Rotate by 0 = copy, Relinearize) must hand out an object that shares neither MetaData nor limbs with the input:
//   b := op(a);  mutate b in place (Mul(b, 0.5, b): all limbs and the scale change; then SetScale)  =>  a unchanged
//   b := op(a);  mutate a in place                                                                  =>  b unchanged
// "unchanged" = same metadata token (level, degree, scale mantissa/exponent, LogDimensions), byte-identical limbs,
// and identical decoded values.  Finding key per operation: C06/<op>/output-shares-metadata-or-limbs.
func c06Independence(c *Ctx, envs []*c06Env) {
	for _, e := range envs {
		e := e
		ds := e.params.DefaultScale()
		L := e.params.MaxLevel()
		lc := e.params.LevelsConsumedPerRescaling()
		ps := rlwe.NewScale(1)
		for i := 0; i < lc; i++ {
			ps = ps.Mul(rlwe.NewScale(e.params.Q()[L-i]))
		}
		type newOp struct {
			name string
			in   string // "ct": fresh degree-1 input; "deg2": tensor product; "big": fresh at scale default*q_L(*q_{L-1})
			f    func(a *rlwe.Ciphertext) ([]*rlwe.Ciphertext, error)
		}
		one := func(ct *rlwe.Ciphertext, err error) ([]*rlwe.Ciphertext, error) { return []*rlwe.Ciphertext{ct}, err }
		into := func(deg, lvl int, f func(o *rlwe.Ciphertext) error) ([]*rlwe.Ciphertext, error) {
			o := ckks.NewCiphertext(e.params, deg, lvl)
			return []*rlwe.Ciphertext{o}, f(o)
		}
		other := e.fresh(c, L, e.logMax, ds)
		vec := e.randVals(c, 1<<e.logMax, 1)
		pt := ckks.NewPlaintext(e.params, L)
		if err := e.ecd.Encode(vec, pt); err != nil {
			panic(err)
		}
		ops := []newOp{
			{"AddNew-ct", "ct", func(a *rlwe.Ciphertext) ([]*rlwe.Ciphertext, error) { return one(e.eval.AddNew(a, other.ct)) }},
			{"AddNew-pt", "ct", func(a *rlwe.Ciphertext) ([]*rlwe.Ciphertext, error) { return one(e.eval.AddNew(a, pt)) }},
			{"AddNew-scalar", "ct", func(a *rlwe.Ciphertext) ([]*rlwe.Ciphertext, error) { return one(e.eval.AddNew(a, 0.25)) }},
			{"AddNew-vector", "ct", func(a *rlwe.Ciphertext) ([]*rlwe.Ciphertext, error) { return one(e.eval.AddNew(a, vec)) }},
			{"SubNew-ct", "ct", func(a *rlwe.Ciphertext) ([]*rlwe.Ciphertext, error) { return one(e.eval.SubNew(a, other.ct)) }},
			{"SubNew-scalar", "ct", func(a *rlwe.Ciphertext) ([]*rlwe.Ciphertext, error) { return one(e.eval.SubNew(a, 0.25)) }},
			{"SubNew-vector", "ct", func(a *rlwe.Ciphertext) ([]*rlwe.Ciphertext, error) { return one(e.eval.SubNew(a, vec)) }},
			{"MulNew-ct", "ct", func(a *rlwe.Ciphertext) ([]*rlwe.Ciphertext, error) { return one(e.eval.MulNew(a, other.ct)) }},
			{"MulNew-pt", "ct", func(a *rlwe.Ciphertext) ([]*rlwe.Ciphertext, error) { return one(e.eval.MulNew(a, pt)) }},
			{"MulNew-scalar", "ct", func(a *rlwe.Ciphertext) ([]*rlwe.Ciphertext, error) { return one(e.eval.MulNew(a, 0.5)) }},
			{"MulNew-integer", "ct", func(a *rlwe.Ciphertext) ([]*rlwe.Ciphertext, error) { return one(e.eval.MulNew(a, 3)) }},
			{"MulNew-vector", "ct", func(a *rlwe.Ciphertext) ([]*rlwe.Ciphertext, error) { return one(e.eval.MulNew(a, vec)) }},
			{"MulRelinNew-ct", "ct", func(a *rlwe.Ciphertext) ([]*rlwe.Ciphertext, error) { return one(e.eval.MulRelinNew(a, other.ct)) }},
			{"MulRelinNew-scalar", "ct", func(a *rlwe.Ciphertext) ([]*rlwe.Ciphertext, error) { return one(e.eval.MulRelinNew(a, 0.5)) }},
			{"ScaleUpNew", "ct", func(a *rlwe.Ciphertext) ([]*rlwe.Ciphertext, error) { return one(e.eval.ScaleUpNew(a, rlwe.NewScale(2))) }},
			{"DropLevelNew-1", "ct", func(a *rlwe.Ciphertext) ([]*rlwe.Ciphertext, error) { return one(e.eval.DropLevelNew(a, 1), nil) }},
			{"DropLevelNew-0", "ct", func(a *rlwe.Ciphertext) ([]*rlwe.Ciphertext, error) { return one(e.eval.DropLevelNew(a, 0), nil) }},
			{"CopyNew", "ct", func(a *rlwe.Ciphertext) ([]*rlwe.Ciphertext, error) { return one(a.CopyNew(), nil) }},
			{"RelinearizeNew", "deg2", func(a *rlwe.Ciphertext) ([]*rlwe.Ciphertext, error) { return one(e.eval.RelinearizeNew(a)) }},
			{"RotateNew-1", "ct", func(a *rlwe.Ciphertext) ([]*rlwe.Ciphertext, error) { return one(e.eval.RotateNew(a, 1)) }},
			{"RotateNew-0", "ct", func(a *rlwe.Ciphertext) ([]*rlwe.Ciphertext, error) { return one(e.eval.RotateNew(a, 0)) }},
			{"RotateHoistedNew", "ct", func(a *rlwe.Ciphertext) ([]*rlwe.Ciphertext, error) {
				m, err := e.eval.RotateHoistedNew(a, []int{1, 2})
				return []*rlwe.Ciphertext{m[1], m[2]}, err
			}},
			{"Rescale-into-receiver", "big", func(a *rlwe.Ciphertext) ([]*rlwe.Ciphertext, error) {
				return into(1, L, func(o *rlwe.Ciphertext) error { return e.eval.Rescale(a, o) })
			}},
			{"RescaleTo-into-receiver", "big", func(a *rlwe.Ciphertext) ([]*rlwe.Ciphertext, error) {
				return into(1, L, func(o *rlwe.Ciphertext) error { return e.eval.RescaleTo(a, ds, o) })
			}},
			{"RescaleTo-nothing-to-rescale", "ct", func(a *rlwe.Ciphertext) ([]*rlwe.Ciphertext, error) {
				return into(1, L, func(o *rlwe.Ciphertext) error { return e.eval.RescaleTo(a, ds, o) })
			}},
			{"Rotate-0-into-receiver", "ct", func(a *rlwe.Ciphertext) ([]*rlwe.Ciphertext, error) {
				return into(1, L, func(o *rlwe.Ciphertext) error { return e.eval.Rotate(a, 0, o) })
			}},
			{"Relinearize-into-receiver", "deg2", func(a *rlwe.Ciphertext) ([]*rlwe.Ciphertext, error) {
				return into(1, L, func(o *rlwe.Ciphertext) error { return e.eval.Relinearize(a, o) })
			}},
			{"Add-into-receiver", "ct", func(a *rlwe.Ciphertext) ([]*rlwe.Ciphertext, error) {
				return into(1, L, func(o *rlwe.Ciphertext) error { return e.eval.Add(a, 0.25, o) })
			}},
		}
		if !e.ci {
			ops = append(ops, newOp{"ConjugateNew", "ct", func(a *rlwe.Ciphertext) ([]*rlwe.Ciphertext, error) { return one(e.eval.ConjugateNew(a)) }})
		}
		input := func(kind string) *rlwe.Ciphertext {
			switch kind {
			case "deg2":
				x, y := e.fresh(c, L, e.logMax, ds), e.fresh(c, L, e.logMax, ds)
				p, err := e.eval.MulNew(x.ct, y.ct)
				if err != nil {
					panic(err)
				}
				return p
			case "big":
				return e.fresh(c, L, e.logMax, ds.Mul(ps)).ct
			}
			return e.fresh(c, L, e.logMax, ds).ct
		}
		// state of a ciphertext: metadata token, deep copy, decoded values (when the message fits)
		type state struct {
			meta string
			snap *rlwe.Ciphertext
			vals []complex128
		}
		grab := func(ct *rlwe.Ciphertext) state {
			st := state{meta: c06Meta(ct.El()), snap: ct.CopyNew()}
			if e.fits(ct, 4) {
				st.vals = e.decode(ct)
			}
			return st
		}
		same := func(ct *rlwe.Ciphertext, st state) string {
			if m := c06Meta(ct.El()); m != st.meta {
				return "metadata " + st.meta + " -> " + m
			}
			if !ct.Equal(st.snap) {
				return "limbs changed"
			}
			if st.vals != nil {
				v := e.decode(ct)
				for i := range v {
					if v[i] != st.vals[i] {
						return "decoded value changed"
					}
				}
			}
			return ""
		}
		mutate := func(x *rlwe.Ciphertext) error {
			if err := e.eval.Mul(x, 0.5, x); err != nil {
				return err
			}
			_ = e.eval.SetScale(x, x.Scale.Mul(rlwe.NewScale(1.25)))
			return nil
		}
		for _, op := range ops {
			for _, dir := range []string{"mutate-output", "mutate-input"} {
				d := Try(func() string {
					a := input(op.in)
					outs, err := op.f(a)
					if err != nil {
						return "call failed"
					}
					if dir == "mutate-output" {
						st := grab(a)
						for _, o := range outs {
							if o == a {
								return "the input itself was returned"
							}
							if err := mutate(o); err != nil {
								return "mutation failed"
							}
							if s := same(a, st); s != "" {
								return "input: " + s
							}
						}
						return ""
					}
					sts := make([]state, len(outs))
					for i, o := range outs {
						sts[i] = grab(o)
					}
					if err := mutate(a); err != nil {
						return "mutation failed"
					}
					for i, o := range outs {
						if s := same(o, sts[i]); s != "" {
							return "output: " + s
						}
					}
					return ""
				})
				c.Probe("output_independent", fmt.Sprintf("%s %s %s", e.tag, op.name, dir), "C06/"+op.name+"/output-shares-metadata-or-limbs", d)
			}
		}
	}
}

var errC06Skip = fmt.Errorf("skip")

// c06RescaleChains: Rescale (one or two primes) and RescaleTo across several levels right after constant /
// ciphertext multiplications, on every parameter set -- in particular the ones with strongly unequal primes.
func c06RescaleChains(c *Ctx, envs []*c06Env) {
	for _, e := range envs {
		ds := e.params.DefaultScale()
		L := e.params.MaxLevel()
		lc := e.params.LevelsConsumedPerRescaling()
		for rep := 0; rep < c.Scale(2, 6); rep++ {
			ls := e.logMax
			if rep%2 == 1 {
				ls = c.rng.Intn(e.logMax + 1)
			}
			x, y := e.fresh(c, L, ls, ds), e.fresh(c, L, ls, ds)
			n := len(x.want)
			v1, v2 := e.randVals(c, n, 1), e.randVals(c, n, 1)
			run := func(name string, f func() (*rlwe.Ciphertext, []complex128, error)) {
				args := fmt.Sprintf("%s chain rep=%d %s", e.tag, rep, name)
				var ct *rlwe.Ciphertext
				var want []complex128
				var err error
				out := Try(func() string { ct, want, err = f(); return "" })
				if err == errC06Skip {
					c.Count("rescale-chain-skipped-overflow")
					return
				}
				if out == "panic" || err != nil {
					c.Probe("program_precision", args, "C06/precision:rescale-chain", "call failed")
					return
				}
				e.probeVals(c, ct, want, e.tolFor(ct), args, "C06/precision:rescale-chain")
			}
			// ct*vector then Rescale (lcpr primes)
			run("mulvec-rescale", func() (*rlwe.Ciphertext, []complex128, error) {
				z, err := e.eval.MulNew(x.ct, v1)
				if err != nil {
					return nil, nil, err
				}
				return z, c06MulVals(x.want, v1), e.eval.Rescale(z, z)
			})
			// ct*ct, relinearised, then Rescale into a fresh receiver
			run("mulrelin-rescale-new-receiver", func() (*rlwe.Ciphertext, []complex128, error) {
				z, err := e.eval.MulRelinNew(x.ct, y.ct)
				if err != nil {
					return nil, nil, err
				}
				o := ckks.NewCiphertext(e.params, 1, L)
				return o, c06MulVals(x.want, y.want), e.eval.Rescale(z, o)
			})
			// two constant multiplications at the same level, then RescaleTo across 2*lcpr primes
			if L >= 2*lc {
				for _, inplace := range []bool{true, false} {
					run(fmt.Sprintf("mulvec-mulvec-rescaleto inplace=%v", inplace), func() (*rlwe.Ciphertext, []complex128, error) {
						z, err := e.eval.MulNew(x.ct, v1)
						if err != nil {
							return nil, nil, err
						}
						if err = e.eval.Mul(z, v2, z); err != nil {
							return nil, nil, err
						}
						if !e.fits(z, 1) {
							return nil, nil, errC06Skip
						}
						o := z
						if !inplace {
							o = ckks.NewCiphertext(e.params, 1, c.rng.Intn(L+1))
						}
						err = e.eval.RescaleTo(z, ds, o)
						if err == nil && o.Level() != L-2*lc {
							err = fmt.Errorf("unexpected level")
						}
						return o, c06MulVals(c06MulVals(x.want, v1), v2), err
					})
				}
			}
			c.Count("rescale-chain:" + e.tag)
		}
	}
}

// c06Malformed: boundary / malformed calls (documented errors must be errors, not panics).
func c06Malformed(c *Ctx, envs []*c06Env) {
	for _, e := range envs {
		lc := e.params.LevelsConsumedPerRescaling()
		ds := e.params.DefaultScale()
		full := c06M{e.params.MaxLevel(), 1, e.logMax, ds}
		// uint operands are listed in the documentation of Add/Sub/Mul/MulThenAdd
		for _, k := range []string{"Add", "Sub", "Mul", "MulThenAdd"} {
			r := e.fresh(c, e.params.MaxLevel(), e.logMax, ds)
			o := e.fresh(c, e.params.MaxLevel(), e.logMax, ds)
			out := Try(func() string {
				var err error
				switch k {
				case "Add":
					err = e.eval.Add(r.ct, uint(3), o.ct)
				case "Sub":
					err = e.eval.Sub(r.ct, uint(3), o.ct)
				case "Mul":
					err = e.eval.Mul(r.ct, uint(3), o.ct)
				case "MulThenAdd":
					err = e.eval.MulThenAdd(r.ct, uint(3), o.ct)
				}
				if err != nil {
					return "err"
				}
				return "ok"
			})
			d := ""
			if out == "panic" {
				d = "panic on documented operand type uint"
			}
			c.Probe("errors_not_panics", fmt.Sprintf("%s %s uint", e.tag, k), "C06/panic:uint-operand", d)
		}
		// DropLevel by more than the level: no error is possible (no error return); the result must at least be a ciphertext
		{
			r := e.fresh(c, 1, e.logMax, ds)
			out := Try(func() string {
				e.eval.DropLevel(r.ct, 2)
				if r.ct.Level() < 0 {
					return "level<0"
				}
				return ""
			})
			if out == "panic" {
				out = ""
			}
			c.Probe("droplevel_state", fmt.Sprintf("%s level=1 levels=2", e.tag), "C06/droplevel-below-zero", out)
		}
		// MulThenAdd with op0 of degree 0 (a plaintext wrapped in a Ciphertext) and op1 a ciphertext
		{
			lvl := e.params.MaxLevel()
			vals := e.randVals(c, 1<<e.logMax, 1)
			pt := ckks.NewPlaintext(e.params, lvl)
			if err := e.ecd.Encode(vals, pt); err != nil {
				panic(err)
			}
			op0 := rlwe.NewCiphertext(e.params, 0, lvl)
			op0.Value[0].CopyLvl(lvl, pt.Value)
			*op0.MetaData = *pt.MetaData
			b := e.fresh(c, lvl, e.logMax, ds)
			o := e.fresh(c, lvl, e.logMax, ds.Mul(ds))
			oldO := append([]complex128{}, o.want...)
			d := Try(func() string {
				if err := e.eval.MulThenAdd(op0, b.ct, o.ct); err != nil {
					return "" // an error is acceptable
				}
				have := e.decode(o.ct)
				for i := range have {
					if cmplx.Abs(have[i]-(oldO[i]+vals[i]*b.want[i])) > 1e-3 {
						return fmt.Sprintf("slot=%d", i)
					}
				}
				return ""
			})
			c.Probe("mta_op0_degree0", e.tag, "C06/mta-op0-degree0-ignores-c1", d)
		}
		// ties at the boundaries
		for lvl := 0; lvl <= e.params.MaxLevel(); lvl++ {
			m := c06M{lvl, 1, e.logMax, ds}
			half := new(big.Float).SetFloat64(0.5)
			for _, kind := range []string{"rescale", "mulsc", "mtasc", "mulvec"} {
				op := &c06Op{kind: kind, alias: 'f', re: half, im: new(big.Float), scalar: 0.5, cval: 0.5}
				om := m
				if kind == "rescale" {
					om = c06M{e.params.MaxLevel(), 1, e.logMax, ds}
				}
				if kind == "mulvec" {
					op.vvals = e.randVals(c, 1<<e.logMax, 1)
					op.vec = op.vvals
				}
				e.tie(c, op, m, c06M{}, om)
			}
			for _, n := range []int{lvl, lvl + 1} {
				e.tie(c, &c06Op{kind: "droplevel", alias: '0', n: n}, m, c06M{}, m)
			}
			// RescaleTo with a tiny minimum scale and a scale of the size of Q
			bigm := c06M{lvl, 1, e.logMax, rlwe.NewScale(new(big.Float).SetInt(e.params.QLvl(lvl)))}
			e.tie(c, &c06Op{kind: "rescaleto", alias: '0', dy: rlwe.NewScale(1)}, bigm, c06M{}, bigm)
			e.tie(c, &c06Op{kind: "rescaleto", alias: '0', dy: rlwe.NewScale(ds)}, m, c06M{}, m)
			e.tie(c, &c06Op{kind: "setscale", alias: '0', dy: rlwe.NewScale(ds)}, m, c06M{}, m)
		}
		_ = lc
		// degree errors
		d2 := c06M{e.params.MaxLevel(), 2, e.logMax, ds}
		d0 := c06M{e.params.MaxLevel(), 0, e.logMax, ds}
		for _, kind := range []string{"addelt", "mulelt", "mtaelt"} {
			for _, pr := range [][2]c06M{{d2, full}, {full, d2}, {d0, d0}, {d2, d0}, {d0, full}} {
				if kind == "mtaelt" && pr[0].degree == 0 {
					continue // op0 of degree 0: mulRelinThenAdd ignores op1's degree-1 part (not exercised)
				}
				e.tie(c, &c06Op{kind: kind, alias: 'f'}, pr[0], pr[1], d2)
			}
		}
		for _, kind := range []string{"rotate", "conj", "relin"} {
			for _, a := range []c06M{d2, full} {
				for _, o := range []c06M{d2, full} {
					e.tie(c, &c06Op{kind: kind, alias: 'f', n: 1}, a, c06M{}, o)
				}
			}
		}
		e.tie(c, &c06Op{kind: "rotate", alias: 'f', n: 7}, full, c06M{}, full) // no key
	}
}
