package main

// C20: RGSW shapes in which the number of Q primes is not a multiple of the number of P primes and the
// greedy partition of the Q primes into RNS digits (digit i = primes i*(levelP+1) .. i*(levelP+1)+levelP, the
// last digit shorter; encryptor / AddPolyTimesGadgetVectorToGadgetCiphertext / the decomposition of the
// evaluator) differs from a balanced one (ceil(#Q/#digits) primes per digit): (4Q,3P), (5,4), (6,4), (7,5), and
// lower levels of them.  Encryption tie, RGSW + gadget plaintext (constant and polynomial) tie and probe
// (the sum, reduced, times an RLWE ciphertext decrypts to (g1+g2)*m), RGSW + RGSW, external products.

import (
	"fmt"

	"github.com/tuneinsight/lattigo/v6/core/rgsw"
	"github.com/tuneinsight/lattigo/v6/core/rlwe"
)

func c20GenShapes(c *Ctx) {
	pg := newC20PrimeGen()
	type shp struct{ nQ, nP, lq, lp int }
	shapes := []shp{{4, 3, 3, 2}, {5, 4, 4, 3}}
	if c.Thorough() {
		shapes = append(shapes, shp{6, 4, 5, 3}, shp{7, 5, 6, 4}, shp{7, 5, 5, 4}, shp{6, 4, 4, 3}, shp{5, 4, 4, 2}, shp{7, 5, 6, 3}, shp{5, 2, 4, 1}, shp{7, 3, 6, 2})
	}
	for si, sh := range shapes {
		var Q, P []uint64
		for i := 0; i < sh.nQ; i++ {
			Q = append(Q, pg.next(30+i%3, 32, []int{-1, 1}[i%2]))
		}
		for i := 0; i < sh.nP; i++ {
			P = append(P, pg.next(34+i%3, 32, 0))
		}
		ps, err := c20NewPS(4, Q, P)
		if err != nil {
			c.Count("shapes:params-rejected")
			continue
		}
		n := ps.N()
		lq, lp, w := sh.lq, sh.lp, 0
		c.Count(fmt.Sprintf("shapes:nQ=%d nP=%d lq=%d lp=%d", sh.nQ, sh.nP, lq, lp))
		sk := rlwe.NewKeyGenerator(ps.params).GenSecretKeyNew()
		sInts := ps.secretInts(sk)
		ringQP := ps.params.RingQP().AtLevel(lq, lp)
		par := c20ParTokens(ps, lq, lp, w)
		copyRGSW := func(x *rgsw.Ciphertext) *rgsw.Ciphertext {
			return &rgsw.Ciphertext{Value: [2]rlwe.GadgetCiphertext{*x.Value[0].CopyNew(), *x.Value[1].CopyNew()}}
		}
		reps := c.Scale(1, 2)
		for rep := 0; rep < reps; rep++ {
			g1 := c20Message(c, n, si+rep)
			rg := c20Encrypt(c, ps, sk, sInts, g1, lq, lp, w, "api", rep%2 == 0, false)
			c20RowsNoise(c, ps, sk, rg, g1, w, "api")
			ct := c20RandCt(c, ps, sk, lq, rep%2)
			c20ExtProd(c, ps, sk, sInts, ct, rg, g1, w, true, "api", "shapes")
			c20ExtProd(c, ps, sk, sInts, ct, rg, g1, w, false, "api", "shapes")

			// ---- RGSW(g1) + gadget plaintext(g2): constant (int64 / uint64) and polynomial ----
			for kind := 0; kind < 3; kind++ {
				g2 := make([]int64, n)
				var value interface{}
				switch kind {
				case 0:
					v := int64(c.rng.Intn(3)) + 1
					if c.rng.Intn(2) == 0 {
						v = -v
					}
					g2[0] = v
					value = v
				case 1:
					v := uint64(c.rng.Intn(5)) + 1
					g2[0] = int64(v)
					value = v
				default:
					g2 = c20Message(c, n, 4) // small ternary polynomial
					g2[c.rng.Intn(n)] = 1
					value = ps.polyFromRows(ps.rowsFromInts(g2, lq), false)
				}
				out := Try(func() string {
					pt, err := rgsw.NewPlaintext(ps.params, value, lq, lp, w)
					if err != nil {
						return "err"
					}
					withPt := copyRGSW(rg)
					rgsw.AddLazy(pt, ringQP, withPt)
					rgsw.Reduce(withPt, ringQP, withPt)
					if !probesOnly() {
						c.Emit(fmt.Sprintf("rgsw_addpt %s m=%s %s", par, Mat(ps.rowsFromInts(g2, lq)), c20RGSWArgs("a", ps.rgswPolys(rg))), c20RGSWOut(ps.rgswPolys(withPt)))
					}
					gSum := make([]int64, n)
					for i := range gSum {
						gSum[i] = g1[i] + g2[i]
					}
					// the rows of the sum decrypt to P w_ij (g1+g2): the partition of the Q primes into digits is visible here
					worst := c20RowErr(ps, sk, withPt, gSum, w)
					d := ""
					if worst > uint64(ps.params.NoiseBound())+1 {
						d = fmt.Sprintf("max row error=%d bound=%d (rows of RGSW(g1)+pt(g2) do not decrypt to P*w*(g1+g2)) kind=%d", worst, uint64(ps.params.NoiseBound())+1, kind)
					}
					c.Probe("rgsw_addpt_rows", fmt.Sprintf("%s kind=%d seed=%d line=%d", par, kind, c.Seed, c.N), "rgsw-addlazy-plaintext-partition", d)
					c20HomProbe(c, ps, sk, sInts, withPt, gSum, lq, lp, w, 1, "rgsw_addpt", par)
					return "ok"
				})
				c.Count(fmt.Sprintf("shapes:addpt kind=%d %s", kind, out))
				if out != "ok" {
					c.Probe("rgsw_addpt_no_panic", fmt.Sprintf("%s kind=%d", par, kind), "rgsw-addlazy-plaintext-partition", "AddLazy(*Plaintext) -> "+out)
				}
			}
			// ---- RGSW + RGSW, X^a - 1 ----
			c20Homomorphisms(c, ps, sk, sInts, rg, g1, lq, lp, w, "api")
		}
	}
}
