package main

// C18 — bootstrapping restores levels, preserves the message, confines sparse keys.
//
// Tie lines (the Lean model must reproduce the output exactly):
//   helper_rot   dft.MatrixLiteral.GaloisElements for random literals (helper side)
//   lt_index     N1 and the keys of Vec of every matrix of dft.NewMatrixFromLiteral (evaluator side)
//   layout       QCount, PCount, S2C/Mod1/C2S LevelQ, Mod1 depth of NewParametersFromLiteral
//   generated    Galois elements of the key set returned by GenEvaluationKeys
//   required     Galois elements requested (logging rlwe.EvaluationKeySet) during one Bootstrap
//   scaleconst   round(log2 Q0), qDiv, EvalMod scale, S2C and C2S scalings of Evaluator.initialize (exact powers of two)
//   needed       LevelQ / LevelP the evaluator needs from every key kind over all admissible input levels
//   inventory    every key of the bundle: name / secrets it decrypts under / LevelQ / LevelP
//   stages       levels after ModUp, CoeffsToSlots, EvalMod, SlotsToCoeffs
//   output       level and scale of the bootstrapped ciphertext
// Probes (property predicates evaluated on the real code):
//   shallowcopy_no_shared_scratch (reflection), shallowcopy_interleaved, shallowcopy_concurrent (thorough),
//   params_codec_roundtrip (iterated configs through MarshalBinary / JSON), mod1_poly_degree (c18_mod1.go),
//   ties literal_default / literal_default_const / literal_default_doc (documented defaults of the optional literal fields),
//   default_lists_covered + ties default_list/default_literal/default_source/default_announced (c18_defaults.go),
//   mod1_step (c18_mod1.go), input_unchanged, evaluate_scale_precision,
//   key_levels_sufficient, inadmissible_rejected, sparse_key_confined, sparse_secret_recovered, keys_sufficient, required_stable, output_level_scale,
//   bootstrap_precision (measured), c2s_s2c_inverse (measured), batch_bootstrap (measured),
//   shallowcopy_matches (copies of the evaluator), no_p_keygen, defaults_instantiable,
//   no_identity_galois_key,
//   grouped_split_inverse (grouped depth splits: one rescaling per group).

import (
	"encoding/json"
	"fmt"
	"math"
	"math/big"
	"math/cmplx"
	"os"
	"reflect"
	"sort"
	"strconv"
	"strings"
	"sync"

	"github.com/tuneinsight/lattigo/v6/circuits/ckks/bootstrapping"
	"github.com/tuneinsight/lattigo/v6/circuits/ckks/dft"
	"github.com/tuneinsight/lattigo/v6/circuits/ckks/mod1"
	"github.com/tuneinsight/lattigo/v6/core/rlwe"
	"github.com/tuneinsight/lattigo/v6/ring"
	"github.com/tuneinsight/lattigo/v6/schemes/ckks"
	"github.com/tuneinsight/lattigo/v6/utils"
	"github.com/tuneinsight/lattigo/v6/utils/bignum"
)

func init() { register("C18", genC18) }

// read-only tables legitimately shared between an evaluator and its copies (filled from an inspection at HEAD)
var c18CopyAllow = []string{
	".xPow2",                            // X^{2^i} tables (read only)
	"BasisExtender.constants",           // RNS basis-extension constants
	"BasisExtender.modDownConstants",    //
	"Decomposer.ModUpConstants",         //
	"Encoder.roots", "Encoder.rotGroup", // encoder roots of unity / rotation group
	"automorphismIndex", // per-Galois-element NTT permutation tables (the map itself is per copy)
}

func genC18(c *Ctx) {
	c18HelperRot(c)
	c18LtIndex(c)
	c18DFTLayers(c)
	c18LayoutRandom(c)
	c18Defaults(c)
	c18NoP(c)
	c18C2SS2C(c)
	c18Mod1Step(c)
	c18DefaultTable(c)
	c18LiteralDefaults(c)
	c18GroupedPatched(c)
	for _, cfg := range c18Configs(c) {
		if only := os.Getenv("C18_ONLY"); only != "" && only != cfg.name {
			continue
		}
		c18Pipeline(c, cfg)
	}
}

func b01(b bool) string {
	if b {
		return "1"
	}
	return "0"
}

// ------------------------------------------------------------------ helper_rot / lt_index

func c18RandLevels(c *Ctx, logSlots int) []int {
	depth := 1 + c.rng.Intn(utils.Min(logSlots, 6))
	// at most 5 FFT layers merged into one matrix (the shipped literals merge 4): the model keeps index
	// sets as lists, 3^layers entries
	if m := (logSlots + 4) / 5; depth < m {
		depth = m
	}
	var lv []int
	for depth > 0 {
		g := 1 + c.rng.Intn(utils.Min(depth, 3))
		lv = append(lv, g)
		depth -= g
	}
	return lv
}

func c18MatArgs(lit dft.MatrixLiteral, logN int) string {
	return fmt.Sprintf("enc=%s logN=%d logSlots=%d levels=%s repack=%s bitrev=%s bsgs=%d",
		b01(lit.Type == dft.HomomorphicEncode), logN, lit.LogSlots, IVec(lit.Levels),
		b01(lit.Format == dft.RepackImagAsReal), b01(lit.BitReversed), lit.LogBSGSRatio)
}

func c18SmallParams(logN, nQ int) ckks.Parameters {
	logQ := []int{50}
	for i := 1; i < nQ; i++ {
		logQ = append(logQ, 40)
	}
	p, err := ckks.NewParametersFromLiteral(ckks.ParametersLiteral{LogN: logN, LogQ: logQ, LogP: []int{50}, LogDefaultScale: 40})
	must(err)
	return p
}

func c18HelperRot(c *Ctx) {
	n := c.Scale(1500, 6000)
	paramsByLogN := map[int]ckks.Parameters{}
	for i := 0; i < n; i++ {
		logN := 4 + c.rng.Intn(c.Scale(8, 12)) // 4..11 / 4..15
		if _, ok := paramsByLogN[logN]; !ok {
			paramsByLogN[logN] = c18SmallParams(logN, 1)
		}
		params := paramsByLogN[logN]
		logSlots := 1 + c.rng.Intn(logN-1)
		if c.rng.Intn(3) == 0 {
			logSlots = logN - 1
		}
		lit := dft.MatrixLiteral{
			Type:         dft.Type(c.rng.Intn(2)),
			LogSlots:     logSlots,
			Levels:       c18RandLevels(c, logSlots),
			Format:       dft.Format(c.rng.Intn(3)),
			BitReversed:  c.rng.Intn(4) == 0,
			LogBSGSRatio: c.rng.Intn(4),
		}
		if c.rng.Intn(2) == 0 {
			lit.Format = dft.RepackImagAsReal
			lit.LogBSGSRatio = 1
		}
		out := Try(func() string { return Vec(c18Sorted(lit.GaloisElements(params))) })
		c.Emit("helper_rot "+c18MatArgs(lit, logN), out)
		c.Count("helper_rot")
		if lit.Format == dft.RepackImagAsReal {
			c.Count("helper_rot:repack")
		}
		if logSlots < logN-1 {
			c.Count("helper_rot:sparse")
		}
	}
}

func c18LtIndex(c *Ctx) {
	n := c.Scale(300, 1500)
	cache := map[[2]int]ckks.Parameters{}
	for i := 0; i < n; i++ {
		logN := 4 + c.rng.Intn(c.Scale(5, 7)) // 4..8 / 4..10
		logSlots := 1 + c.rng.Intn(logN-1)
		if c.rng.Intn(3) == 0 {
			logSlots = logN - 1
		}
		levels := c18RandLevels(c, logSlots)
		nQ := len(levels) + 1
		key := [2]int{logN, nQ}
		if _, ok := cache[key]; !ok {
			cache[key] = c18SmallParams(logN, nQ)
		}
		params := cache[key]
		lit := dft.MatrixLiteral{
			Type:         dft.Type(c.rng.Intn(2)),
			LogSlots:     logSlots,
			LevelQ:       params.MaxLevel(),
			LevelP:       params.MaxLevelP(),
			Levels:       levels,
			Format:       dft.Format(c.rng.Intn(3)),
			BitReversed:  c.rng.Intn(4) == 0,
			LogBSGSRatio: c.rng.Intn(4),
		}
		if c.rng.Intn(2) == 0 {
			lit.Format = dft.RepackImagAsReal
			lit.LogBSGSRatio = 1
		}
		out := Try(func() string {
			m, err := dft.NewMatrixFromLiteral(params, lit, ckks.NewEncoder(params))
			if err != nil {
				return "err"
			}
			var es []string
			for _, lt := range m.Matrices {
				var ks []uint64
				for k := range lt.Vec {
					ks = append(ks, uint64(k))
				}
				es = append(es, I(lt.N1)+":"+Vec(c18Sorted(ks)))
			}
			if len(es) == 0 {
				return "-"
			}
			return strings.Join(es, ";")
		})
		c.Emit("lt_index "+c18MatArgs(lit, logN), out)
		c.Count("lt_index")
	}
}

// ------------------------------------------------------------------ dft_layers: exact entries of the fully split factorisation

// c18DFTLayers reads the matrices of MatrixLiteral.GenMatrices for the fully split literal (one butterfly
// layer per matrix) and recognises every entry as 0 or sigma*zeta^k (zeta the primitive 4n-th root,
// sigma = scaling^(1/depth) real positive): the exponents are tied to the Lean model's layer tables.
// Also (measured, real code only): every merged factorisation equals the product of its layers.
func c18DFTLayers(c *Ctx) {
	maxL := c.Scale(6, 9)
	toC := func(z *bignum.Complex) complex128 {
		re, _ := z[0].Float64()
		im, _ := z[1].Float64()
		return complex(re, im)
	}
	for _, enc := range []bool{true, false} {
		for L := 1; L <= maxL; L++ {
			for _, bitrev := range []bool{false, true} {
				for _, format := range []dft.Format{dft.Standard, dft.SplitRealAndImag, dft.RepackImagAsReal} {
					for _, logN := range []int{L + 1, L + 2} {
						if L > 4 && (bitrev || format != dft.Standard || logN != L+1) && !c.Thorough() {
							continue // quick tier: the larger sizes only in the plain layout
						}
						n := 1 << L
						length := n
						if format == dft.RepackImagAsReal && L < logN-1 {
							length = 2 * n
						}
						levels := make([]int, L)
						for i := range levels {
							levels[i] = 1
						}
						typ := dft.HomomorphicDecode
						sigma := 1.0
						if enc {
							typ = dft.HomomorphicEncode
							div := float64(n)
							if format != dft.Standard {
								div = float64(2 * n)
							}
							sigma = math.Pow(1/div, 1/float64(L))
						}
						lit := dft.MatrixLiteral{Type: typ, LogSlots: L, Levels: levels, Format: format, BitReversed: bitrev}
						out := Try(func() string {
							var ms []string
							for _, m := range lit.GenMatrices(logN, 128) {
								var idx []int
								for d := range m {
									idx = append(idx, d)
								}
								sort.Ints(idx)
								var ds []string
								for _, d := range idx {
									if len(m[d]) != length {
										return fmt.Sprintf("length %d", len(m[d]))
									}
									codes := make([]uint64, length)
									for x := 0; x < length; x++ {
										v := toC(m[d][x]) / complex(sigma, 0)
										if cmplx.Abs(v) < 1e-9 {
											codes[x] = uint64(4 * n)
											continue
										}
										k := int(math.Round(cmplx.Phase(v)*float64(4*n)/(2*math.Pi))) % (4 * n)
										if k < 0 {
											k += 4 * n
										}
										if cmplx.Abs(v-cmplx.Rect(1, 2*math.Pi*float64(k)/float64(4*n))) > 1e-9 {
											return "not-a-root"
										}
										codes[x] = uint64(k)
									}
									ds = append(ds, I(d)+":"+Vec(codes))
								}
								ms = append(ms, strings.Join(ds, ";"))
							}
							return strings.Join(ms, "/")
						})
						c.Emit(fmt.Sprintf("dft_layers enc=%s logSlots=%d logN=%d repack=%s bitrev=%s split=%s", b01(enc), L, logN,
							b01(format == dft.RepackImagAsReal), b01(bitrev), b01(format == dft.SplitRealAndImag)), out)
						c.Count("dft_layers")
					}
				}
			}
		}
	}
	// merged factorisations = product of the layers (dense matrices, float64), real code only
	apply := func(m map[int][]*bignum.Complex, n int, x []complex128) []complex128 {
		y := make([]complex128, n)
		for d, v := range m {
			for i := 0; i < n; i++ {
				y[i] += toC(v[i]) * x[(i+d)&(n-1)]
			}
		}
		return y
	}
	for t := 0; t < c.Scale(20, 200); t++ {
		L := 2 + c.rng.Intn(c.Scale(5, 8))
		n := 1 << L
		levels := c18RandLevels(c, L)
		depth := 0
		for _, g := range levels {
			depth += g
		}
		ones := make([]int, L)
		for i := range ones {
			ones[i] = 1
		}
		typ := dft.Type(c.rng.Intn(2))
		merged := dft.MatrixLiteral{Type: typ, LogSlots: L, Levels: levels, Format: dft.Standard}.GenMatrices(L+1, 128)
		full := dft.MatrixLiteral{Type: typ, LogSlots: L, Levels: ones, Format: dft.Standard}.GenMatrices(L+1, 128)
		x := c18RandValues(c, n)
		y1, y2 := x, x
		for _, m := range merged {
			y1 = apply(m, n, y1)
		}
		for _, m := range full {
			y2 = apply(m, n, y2)
		}
		detail := ""
		for i := range y1 {
			if cmplx.Abs(y1[i]-y2[i]) > 1e-9*(1+cmplx.Abs(y2[i])) {
				detail = fmt.Sprintf("slot %d differs", i)
				break
			}
		}
		c.Probe("merged_is_product", fmt.Sprintf("enc=%s logSlots=%d levels=%s measured=1", b01(typ == dft.HomomorphicEncode), L, IVec(levels)), "C18-dft-merge", detail)
	}
}

// ------------------------------------------------------------------ layout

func c18LayoutArgs(p bootstrapping.Parameters, lit bootstrapping.ParametersLiteral) string {
	m := p.Mod1ParametersLiteral
	rsv := p.IterationsParameters != nil && p.IterationsParameters.ReservedPrimeBitSize > 0
	logp := "def"
	if lit.LogP != nil {
		logp = I(len(lit.LogP))
	}
	return fmt.Sprintf("res=%d s2c=%d c2s=%d cosd=%s sinc=%s deg=%d k=%d da=%d inv=%d rsv=%s logp=%s",
		p.ResidualParameters.QCount(), len(p.SlotsToCoeffsParameters.Levels), len(p.CoeffsToSlotsParameters.Levels),
		b01(m.Mod1Type == mod1.CosDiscrete), b01(m.Mod1Type == mod1.SinContinuous), m.Mod1Degree, m.K, m.DoubleAngle, m.Mod1InvDegree,
		b01(rsv), logp)
}

func c18LayoutOut(p bootstrapping.Parameters) string {
	chk := p.CoeffsToSlotsParameters.LevelQ-p.CoeffsToSlotsParameters.Depth(true) == p.Mod1ParametersLiteral.LevelQ &&
		p.Mod1ParametersLiteral.LevelQ-p.Mod1ParametersLiteral.Depth() == p.SlotsToCoeffsParameters.LevelQ
	return IVec([]int{p.BootstrappingParameters.QCount(), p.BootstrappingParameters.PCount(),
		p.SlotsToCoeffsParameters.LevelQ, p.Mod1ParametersLiteral.LevelQ, p.CoeffsToSlotsParameters.LevelQ,
		p.Mod1ParametersLiteral.Depth(), map[bool]int{true: 1, false: 0}[chk]})
}

func c18LayoutRandom(c *Ctx) {
	n := c.Scale(150, 800)
	for i := 0; i < n; i++ {
		logN := 9 + c.rng.Intn(2)
		nRes := 1 + c.rng.Intn(3)
		logQ := []int{55}
		for j := 1; j < nRes; j++ {
			logQ = append(logQ, 40)
		}
		res, err := ckks.NewParametersFromLiteral(ckks.ParametersLiteral{LogN: logN, LogQ: logQ, LogP: []int{55}, LogDefaultScale: 40})
		must(err)
		logSlots := 3 + c.rng.Intn(logN-3)
		mk := func(maxGroups int, bits int) [][]int {
			g := 1 + c.rng.Intn(maxGroups)
			out := make([][]int, g)
			depth := 0
			for j := range out {
				k := 1
				if depth+k+(g-j-1) < logSlots && c.rng.Intn(3) == 0 {
					k = 2
				}
				depth += k
				for t := 0; t < k; t++ {
					out[j] = append(out[j], bits/k)
				}
			}
			return out
		}
		lit := bootstrapping.ParametersLiteral{
			LogN:     utils.Pointy(logN),
			LogSlots: utils.Pointy(logSlots),
			CoeffsToSlotsFactorizationDepthAndLogScales: mk(3, 52),
			SlotsToCoeffsFactorizationDepthAndLogScales: mk(3, 40),
			Mod1Type:      mod1.Type(c.rng.Intn(3)),
			Mod1Degree:    utils.Pointy(c.rng.Intn(64)),
			K:             utils.Pointy(c.rng.Intn(33)),
			DoubleAngle:   utils.Pointy(c.rng.Intn(4)),
			Mod1InvDegree: utils.Pointy(c.rng.Intn(16)),
		}
		switch c.rng.Intn(4) {
		case 0:
			lit.IterationsParameters = &bootstrapping.IterationsParameters{BootstrappingPrecision: []float64{20}, ReservedPrimeBitSize: 25}
		case 1:
			lit.IterationsParameters = &bootstrapping.IterationsParameters{BootstrappingPrecision: []float64{20}}
		}
		if c.rng.Intn(3) == 0 {
			lit.LogP = make([]int, 1+c.rng.Intn(4))
			for j := range lit.LogP {
				lit.LogP[j] = 56
			}
		}
		p, err := bootstrapping.NewParametersFromLiteral(res, lit)
		if err != nil {
			c.Count("layout:rejected")
			continue
		}
		c.Emit("layout "+c18LayoutArgs(p, lit), c18LayoutOut(p))
		c.Count("layout")
	}
}

// ------------------------------------------------------------------ shipped default literals at full size

func c18GalArgs(p bootstrapping.Parameters) string {
	return fmt.Sprintf("logN=%d logSlots=%d c2s=%s s2c=%s bsgs=%d",
		p.BootstrappingParameters.LogN(), p.CoeffsToSlotsParameters.LogSlots,
		IVec(p.CoeffsToSlotsParameters.Levels), IVec(p.SlotsToCoeffsParameters.Levels), p.CoeffsToSlotsParameters.LogBSGSRatio)
}

// c18Announced: "Precision : x bits" of the doc comment of every shipped default (tied to the source by `default_announced`)
var c18Announced = map[string]float64{
	"sparse0": 26.6, "sparse1": 32.1, "sparse2": 19.1, "sparse3": 15.4,
	"dense0": 23.8, "dense1": 29.8, "dense2": 17.8, "dense3": 17.3,
}

// margin between the announced precision and what the reduced ring must still reach
const c18AnnouncedMargin = 3.0

type c18Shipped struct {
	name string
	list string
	idx  int
	s    ckks.ParametersLiteral
	b    bootstrapping.ParametersLiteral
}

func c18ShippedDefaults() (all []c18Shipped) {
	for i, d := range bootstrapping.DefaultParametersSparse {
		all = append(all, c18Shipped{fmt.Sprintf("sparse%d", i), "DefaultParametersSparse", i, d.SchemeParams, d.BootstrappingParams})
	}
	for i, d := range bootstrapping.DefaultParametersDense {
		all = append(all, c18Shipped{fmt.Sprintf("dense%d", i), "DefaultParametersDense", i, d.SchemeParams, d.BootstrappingParams})
	}
	return
}

func c18Defaults(c *Ctx) {
	// the 8 exported default literals, unmodified (no key generation: only the parameter layout and
	// the list of Galois elements the helper announces; conjugation is what GenEvaluationKeys appends).
	type dl struct {
		name string
		s    ckks.ParametersLiteral
		b    bootstrapping.ParametersLiteral
	}
	var all []dl
	for i, d := range bootstrapping.DefaultParametersSparse {
		all = append(all, dl{fmt.Sprintf("sparse%d", i), d.SchemeParams, d.BootstrappingParams})
	}
	for i, d := range bootstrapping.DefaultParametersDense {
		all = append(all, dl{fmt.Sprintf("dense%d", i), d.SchemeParams, d.BootstrappingParams})
	}
	for _, d := range all {
		detail := ""
		func() {
			defer func() {
				if r := recover(); r != nil {
					detail = "panic"
				}
			}()
			res, err := ckks.NewParametersFromLiteral(d.s)
			if err != nil {
				detail = "residual-rejected"
				return
			}
			lit := d.b
			lit.LogN = utils.Pointy(res.LogN())
			p, err := bootstrapping.NewParametersFromLiteral(res, lit)
			if err != nil {
				detail = "btp-rejected"
				return
			}
			c.Emit("layout "+c18LayoutArgs(p, lit), c18LayoutOut(p))
			gal := append(p.GaloisElements(p.BootstrappingParameters), p.BootstrappingParameters.GaloisElementForComplexConjugation())
			c.Emit("generated "+c18GalArgs(p), Vec(c18Sorted(gal)))
			c.Count("defaults")
		}()
		c.Probe("defaults_instantiable", "name="+d.name, "C18-default-literal", detail)
	}
}

// ------------------------------------------------------------------ no auxiliary prime

func c18NoP(c *Ctx) {
	// a literal without auxiliary prime must be rejected by NewParametersFromLiteral (the key helper
	// needs P: nil RingP in the same-ring branch, params.P()[:1] for the encapsulation keys); if it is
	// accepted, GenEvaluationKeys must at least not panic.
	res, err := ckks.NewParametersFromLiteral(ckks.ParametersLiteral{LogN: 9, LogQ: []int{55, 40}, LogP: []int{55}, LogDefaultScale: 40})
	must(err)
	for _, eph := range []int{0, 8} {
		lit := bootstrapping.ParametersLiteral{LogN: utils.Pointy(9), LogP: []int{}, EphemeralSecretWeight: utils.Pointy(eph)}
		detail := ""
		p, err := bootstrapping.NewParametersFromLiteral(res, lit)
		if err != nil {
			c.Count("nop:rejected")
		} else {
			sk := rlwe.NewKeyGenerator(res).GenSecretKeyNew()
			if out := Try(func() string { _, _, e := p.GenEvaluationKeys(sk); _ = e; return "ok" }); out == "panic" {
				detail = "GenEvaluationKeys panics for a literal accepted by NewParametersFromLiteral with LogP=[]"
			}
		}
		c.Probe("no_p_keygen", fmt.Sprintf("eph=%d", eph), "C18-nop-ephemeral-panic", detail)
	}
}

// ------------------------------------------------------------------ C2S then S2C is the identity (measured)

// c18Vals: complex values for the standard ring, real values for the conjugate-invariant ring.
func c18Vals(c *Ctx, n int, real bool) []complex128 {
	v := c18RandValues(c, n)
	if real {
		for i := range v {
			v[i] = complex(imag(v[i]), 0)
		}
	}
	return v
}

func c18RandValues(c *Ctx, n int) []complex128 {
	v := make([]complex128, n)
	for i := range v {
		re := float64(int64(c.rng.U64()>>11))/float64(1<<52) - 1
		im := float64(int64(c.rng.U64()>>11))/float64(1<<52) - 1
		v[i] = complex(re, im)
	}
	return v
}

func c18C2SS2C(c *Ctx) {
	logN := c.Scale(9, 11)
	params, err := ckks.NewParametersFromLiteral(ckks.ParametersLiteral{LogN: logN, LogQ: []int{55, 45, 45, 45, 45, 45, 45}, LogP: []int{55, 55}, LogDefaultScale: 45})
	must(err)
	kgen := rlwe.NewKeyGenerator(params)
	sk := kgen.GenSecretKeyNew()
	ecd := ckks.NewEncoder(params)
	enc := rlwe.NewEncryptor(params, sk)
	dec := rlwe.NewDecryptor(params, sk)
	slotsList := []int{logN - 1, logN - 2, 3, 1}
	if c.Thorough() {
		slotsList = nil
		for l := 1; l <= logN-1; l++ {
			slotsList = append(slotsList, l)
		}
	}
	for _, bitrev := range []bool{false, true} {
		for _, format := range []dft.Format{dft.RepackImagAsReal, dft.Standard, dft.SplitRealAndImag} {
			for _, logSlots := range slotsList {
				for si, split := range [][2][]int{{{1, 1}, {1, 1}}, {{1}, {1}}, {{2, 1}, {1, 2}}} {
					if !c.Thorough() && (bitrev || format != dft.RepackImagAsReal) && si != 0 && !(si == 2 && logSlots == logN-2) {
						continue // quick tier: the other layouts with the two-level split (and one grouped split)
					}
					dc, ds := 0, 0
					for _, x := range split[0] {
						dc += x
					}
					for _, x := range split[1] {
						ds += x
					}
					if dc > logSlots || ds > logSlots {
						continue
					}
					c2s := dft.MatrixLiteral{Type: dft.HomomorphicEncode, Format: format, BitReversed: bitrev, LogSlots: logSlots, LevelQ: params.MaxLevel(), LevelP: params.MaxLevelP(), Levels: split[0], LogBSGSRatio: 1}
					s2c := dft.MatrixLiteral{Type: dft.HomomorphicDecode, Format: format, BitReversed: bitrev, LogSlots: logSlots, LevelQ: params.MaxLevel() - len(split[0]), LevelP: params.MaxLevelP(), Levels: split[1], LogBSGSRatio: 1}
					detail := ""
					func() {
						defer func() {
							if r := recover(); r != nil {
								detail = fmt.Sprintf("panic:%v", r)
							}
						}()
						mc, err := dft.NewMatrixFromLiteral(params, c2s, ecd)
						must(err)
						ms, err := dft.NewMatrixFromLiteral(params, s2c, ecd)
						must(err)
						gal := append(c2s.GaloisElements(params), s2c.GaloisElements(params)...)
						gal = append(gal, params.GaloisElementForComplexConjugation())
						evk := rlwe.NewMemEvaluationKeySet(kgen.GenRelinearizationKeyNew(sk), kgen.GenGaloisKeysNew(c18Sorted(gal), sk)...)
						ev := ckks.NewEvaluator(params, evk)
						de := dft.NewEvaluator(params, ev)
						vals := c18RandValues(c, 1<<logSlots)
						pt := ckks.NewPlaintext(params, params.MaxLevel())
						pt.LogDimensions = ring.Dimensions{Rows: 0, Cols: logSlots}
						must(ecd.Encode(vals, pt))
						ct, err := enc.EncryptNew(pt)
						must(err)
						// real and imaginary parts in two ciphertexts for SplitRealAndImag (any packing) and for dense RepackImagAsReal
						re := ckks.NewCiphertext(params, 1, mc.LevelQ)
						var im *rlwe.Ciphertext
						if format == dft.SplitRealAndImag || (format == dft.RepackImagAsReal && logSlots == params.LogMaxSlots()) {
							im = ckks.NewCiphertext(params, 1, mc.LevelQ)
						}
						if err = de.CoeffsToSlots(ct, mc, re, im); err != nil {
							detail = "c2s-error"
							return
						}
						out, err := de.SlotsToCoeffsNew(re, im, ms)
						if err != nil {
							detail = "s2c-error"
							return
						}
						st := ckks.GetPrecisionStats(params, ecd, dec, vals, out, 0, false)
						minBits := 18.0
						if dc != len(split[0]) || ds != len(split[1]) {
							minBits = 12 // the matrices of a group of two carry half of a 45-bit prime each
						}
						if st.AVGLog2Prec.Real < minBits || st.AVGLog2Prec.Imag < minBits {
							detail = fmt.Sprintf("precision real=%d imag=%d bits", int(st.AVGLog2Prec.Real), int(st.AVGLog2Prec.Imag))
						}
					}()
					key := "C18-c2s-s2c"
					if dc != len(split[0]) || ds != len(split[1]) {
						key = "C18-grouped-split-rescale"
					}
					c.Probe("c2s_s2c_inverse", fmt.Sprintf("logN=%d logSlots=%d format=%d bitrev=%s c2s=%s s2c=%s measured=1", logN, logSlots, int(format), b01(bitrev), IVec(split[0]), IVec(split[1])), key, detail)
				}
			}
		}
	}
}

// c18GroupedPatched: grouped depth splits (Levels[i] > 1: the matrices of a group share one prime and one
// rescaling), Format Standard, so that CoeffsToSlots / SlotsToCoeffs are the bare DFTs.
func c18GroupedPatched(c *Ctx) {
	logN := 9
	params, err := ckks.NewParametersFromLiteral(ckks.ParametersLiteral{LogN: logN, LogQ: []int{55, 45, 45, 45, 45, 45, 45}, LogP: []int{55, 55}, LogDefaultScale: 45})
	must(err)
	kgen := rlwe.NewKeyGenerator(params)
	sk := kgen.GenSecretKeyNew()
	ecd := ckks.NewEncoder(params)
	enc := rlwe.NewEncryptor(params, sk)
	dec := rlwe.NewDecryptor(params, sk)
	for _, logSlots := range []int{logN - 1, 4} {
		c2s := dft.MatrixLiteral{Type: dft.HomomorphicEncode, Format: dft.Standard, LogSlots: logSlots, LevelQ: params.MaxLevel(), LevelP: params.MaxLevelP(), Levels: []int{2, 1}, LogBSGSRatio: 1}
		s2c := dft.MatrixLiteral{Type: dft.HomomorphicDecode, Format: dft.Standard, LogSlots: logSlots, LevelQ: params.MaxLevel() - 2, LevelP: params.MaxLevelP(), Levels: []int{1, 2}, LogBSGSRatio: 1}
		run := func() string {
			return Try(func() string {
				mc, err := dft.NewMatrixFromLiteral(params, c2s, ecd)
				must(err)
				ms, err := dft.NewMatrixFromLiteral(params, s2c, ecd)
				must(err)
				gal := append(c2s.GaloisElements(params), s2c.GaloisElements(params)...)
				evk := rlwe.NewMemEvaluationKeySet(kgen.GenRelinearizationKeyNew(sk), kgen.GenGaloisKeysNew(c18Sorted(gal), sk)...)
				de := dft.NewEvaluator(params, ckks.NewEvaluator(params, evk))
				vals := c18RandValues(c, 1<<logSlots)
				pt := ckks.NewPlaintext(params, params.MaxLevel())
				pt.LogDimensions = ring.Dimensions{Rows: 0, Cols: logSlots}
				must(ecd.Encode(vals, pt))
				ct, err := enc.EncryptNew(pt)
				must(err)
				var out *rlwe.Ciphertext
				{
					re, _, err := de.CoeffsToSlotsNew(ct, mc)
					if err != nil {
						return "c2s-error"
					}
					if out, err = de.SlotsToCoeffsNew(re, nil, ms); err != nil {
						return "s2c-error(level " + I(re.Level()) + " < " + I(ms.LevelQ) + ")"
					}
				}
				st := ckks.GetPrecisionStats(params, ecd, dec, vals, out, 0, false)
				if st.AVGLog2Prec.Real < 12 || st.AVGLog2Prec.Imag < 12 {
					return fmt.Sprintf("precision %d bits at level %d", int(math.Min(st.AVGLog2Prec.Real, st.AVGLog2Prec.Imag)), out.Level())
				}
				return "ok"
			})
		}
		args := fmt.Sprintf("logN=%d logSlots=%d c2s=2,1 s2c=1,2 measured=1", logN, logSlots)
		r := run()
		detail := ""
		if r != "ok" {
			detail = r
		}
		c.Probe("grouped_split_inverse", args, "C18-grouped-split-rescale", detail)
	}
}

// ------------------------------------------------------------------ configurations

type c18Cfg struct {
	name      string
	res       ckks.ParametersLiteral
	btp       bootstrapping.ParametersLiteral
	ratioAdj  func(res ckks.Parameters, p bootstrapping.Parameters) int // added to LogMessageRatio (as the repo's tests do for small rings)
	minPrec   float64                                                   // 0 = the test-suite formula
	batch     int                                                       // size of a BootstrapMany batch of sparse ciphertexts (0 = none)
	thorough  bool                                                      // only in the thorough tier
	ctSlotsLo bool                                                      // also try ciphertexts with fewer slots
	codec     string                                                    // "binary" / "json": the parameters go through Marshal/Unmarshal before anything else
	announced float64                                                   // documented precision of a shipped default (bits), 0 = none
}

func c18Configs(c *Ctx) []c18Cfg {
	logN := c.Scale(10, 12)
	base := func() ckks.ParametersLiteral {
		return ckks.ParametersLiteral{LogN: logN, LogQ: []int{60, 40}, LogP: []int{61}, LogDefaultScale: 40}
	}
	adj16 := func(res ckks.Parameters, p bootstrapping.Parameters) int { return 16 - res.LogN() }
	adjSlots := func(res ckks.Parameters, p bootstrapping.Parameters) int {
		return utils.Min(utils.Max(15-p.LogMaxSlots(), 0), 8)
	}
	var out []c18Cfg

	// 1. default literal, same ring (BootstrappingWithoutRingDegreeSwitch)
	out = append(out, c18Cfg{name: "default", res: base(), btp: bootstrapping.ParametersLiteral{LogN: utils.Pointy(logN)}, ratioAdj: adj16, batch: 2, ctSlotsLo: true})

	// 2. no ephemeral secret (original circuit): the residual secret itself must then be sparse
	// (K = 16 is dimensioned for the Hamming weight 32 of the ephemeral secret: h = 192 overflows [-K, K])
	ne := base()
	ne.Xs = ring.Ternary{H: 32}
	out = append(out, c18Cfg{name: "noeph", res: ne, btp: bootstrapping.ParametersLiteral{LogN: utils.Pointy(logN), EphemeralSecretWeight: utils.Pointy(0)}, ratioAdj: adj16})

	// 3. three residual primes (input levels 0..2), dense bootstrapping secret
	r3 := base()
	r3.LogQ = []int{60, 40, 40}
	r3.Xs = ring.Ternary{H: 1 << (logN - 1)}
	out = append(out, c18Cfg{name: "dense3", res: r3, btp: bootstrapping.ParametersLiteral{LogN: utils.Pointy(logN), Xs: ring.Ternary{H: 1 << (logN - 1)}}, ratioAdj: adj16})

	// 4. residual ring smaller than the bootstrapping ring
	rs := base()
	rs.LogNthRoot = logN + 1
	rs.LogN = logN - 1
	out = append(out, c18Cfg{name: "ringswitch", res: rs, btp: bootstrapping.ParametersLiteral{LogN: utils.Pointy(logN)}, ratioAdj: adj16, batch: 3, ctSlotsLo: true})

	// 5. residual ring much smaller, sparse bootstrapping slots (BootstrappingPackedWithRingDegreeSwitch)
	rp := base()
	rp.LogNthRoot = logN + 1
	rp.LogN = logN - 3
	out = append(out, c18Cfg{name: "ringswitch3", res: rp, btp: bootstrapping.ParametersLiteral{LogN: utils.Pointy(logN), LogSlots: utils.Pointy(logN - 2),
		LogMessageRatio: utils.Pointy(bootstrapping.DefaultLogMessageRatio + 16 - (logN - 3))}, batch: 4})

	// 6. conjugate-invariant residual ring
	rc := base()
	rc.LogNthRoot = logN + 1
	rc.LogN = logN - 1
	rc.RingType = ring.ConjugateInvariant
	out = append(out, c18Cfg{name: "conjinv", res: rc, btp: bootstrapping.ParametersLiteral{LogN: utils.Pointy(logN)}, ratioAdj: adj16, batch: 2, ctSlotsLo: true})

	// 7.. sparse slot counts on the first sparse default literal (TestCircuitWithEncapsulation)
	for _, ls := range []int{1, 3, logN - 2} {
		d := bootstrapping.DefaultParametersSparse[0]
		r := d.SchemeParams
		r.LogN = logN
		r.LogQ = r.LogQ[:2]
		b := d.BootstrappingParams
		b.LogN = utils.Pointy(logN)
		b.LogSlots = utils.Pointy(ls)
		out = append(out, c18Cfg{name: fmt.Sprintf("slots%d", ls), res: r, btp: b, ratioAdj: adjSlots, minPrec: 12, batch: 2})
	}

	// 8.. EVERY shipped default literal (all entries of DefaultParametersSparse and DefaultParametersDense), reduced
	// ring, two residual primes, secret weight capped at N/2; precision against the announced one (c18Announced)
	for _, d := range c18ShippedDefaults() {
		r := d.s
		r.LogN = logN
		r.LogQ = r.LogQ[:2]
		if t, ok := r.Xs.(ring.Ternary); ok && t.H > 1<<(logN-1) {
			r.Xs = ring.Ternary{H: 1 << (logN - 1)}
		}
		b := d.b
		b.LogN = utils.Pointy(logN)
		adj := adjSlots
		if r.LogQ[0] < 40 {
			adj = nil // Q[0] has 33 bits for a scale of 2^25: no room for a larger message ratio at level 0
		}
		out = append(out, c18Cfg{name: "shipped_" + d.name, res: r, btp: b, ratioAdj: adj, announced: c18Announced[d.name]})
	}

	// 8a'. every Mod1Type with ALL optional fields nil (documented defaults: K 16, degree 30, 3 double angles for the cosines)
	out = append(out, c18Cfg{name: "mod1_cosc_defaults", res: base(), btp: bootstrapping.ParametersLiteral{LogN: utils.Pointy(logN),
		Mod1Type: mod1.CosContinuous}, ratioAdj: adj16, minPrec: 12}) // 16.8 bits measured at HEAD (degree 30)

	// 8a. sine approximation with the DEFAULT double angle (3) left in the literal: documented as ignored for the sine
	out = append(out, c18Cfg{name: "mod1_sin", res: base(), btp: bootstrapping.ParametersLiteral{LogN: utils.Pointy(logN),
		Mod1Type: mod1.SinContinuous, Mod1Degree: utils.Pointy(127), K: utils.Pointy(12)}, ratioAdj: adj16, minPrec: 20})

	// 8b. Q[0] smaller than the EvalMod scale: ModUp's message-scaling block runs (scalar = 2^60/2^55 = 32,
	// resp. 2^10); with and without encapsulation, same ring and ring switch; with a 50-bit Q[0] and the
	// enlarged message ratio level 0 is inadmissible and ScaleDown must RESCALE (not truncate) a level-1 input
	q55 := base()
	q55.LogQ = []int{55, 40}
	out = append(out, c18Cfg{name: "q0_55_eph", res: q55, btp: bootstrapping.ParametersLiteral{LogN: utils.Pointy(logN)}, ratioAdj: adj16, batch: 2})
	q55n := base()
	q55n.LogQ = []int{55, 40}
	q55n.Xs = ring.Ternary{H: 32}
	out = append(out, c18Cfg{name: "q0_55_noeph", res: q55n, btp: bootstrapping.ParametersLiteral{LogN: utils.Pointy(logN), EphemeralSecretWeight: utils.Pointy(0)}, ratioAdj: adj16})
	q50 := base()
	q50.LogQ = []int{50, 40, 40}
	out = append(out, c18Cfg{name: "q0_50_rescale", res: q50, btp: bootstrapping.ParametersLiteral{LogN: utils.Pointy(logN)}, ratioAdj: adj16})
	q50rs := base()
	q50rs.LogQ = []int{50, 40}
	q50rs.LogNthRoot = logN + 1
	q50rs.LogN = logN - 1
	out = append(out, c18Cfg{name: "q0_50_ringswitch", res: q50rs, btp: bootstrapping.ParametersLiteral{LogN: utils.Pointy(logN)}, ratioAdj: adj16, batch: 2})
	q50rs3 := base()
	q50rs3.LogQ = []int{50, 40, 40}
	q50rs3.LogNthRoot = logN + 1
	q50rs3.LogN = logN - 1
	out = append(out, c18Cfg{name: "q0_50_ringswitch3_noeph", res: q50rs3, btp: bootstrapping.ParametersLiteral{LogN: utils.Pointy(logN), Xs: ring.Ternary{H: 32}, EphemeralSecretWeight: utils.Pointy(0)}, ratioAdj: adj16})
	q50ci := base()
	q50ci.LogQ = []int{50, 40}
	q50ci.LogNthRoot = logN + 1
	q50ci.LogN = logN - 1
	q50ci.RingType = ring.ConjugateInvariant
	out = append(out, c18Cfg{name: "q0_50_conjinv", res: q50ci, btp: bootstrapping.ParametersLiteral{LogN: utils.Pointy(logN)}, ratioAdj: adj16})

	// 8c. EvalModLogScale below / equal to / above log2 Q[0], with Q[0] just below and just above 2^60:
	// below, qDiv = 2^(EvalModLogScale - round(log2 Q0)) < 1 is folded into the CoeffsToSlots matrices
	{
		nth := uint64(2) << logN
		g60 := ring.NewNTTFriendlyPrimesGenerator(60, nth)
		up, err := g60.NextUpstreamPrime()
		must(err)
		dn, err := g60.NextDownstreamPrime()
		must(err)
		g40 := ring.NewNTTFriendlyPrimesGenerator(40, nth)
		q1, err := g40.NextAlternatingPrime()
		must(err)
		g61 := ring.NewNTTFriendlyPrimesGenerator(61, nth)
		p0, err := g61.NextDownstreamPrime()
		must(err)
		mk := func(q0 uint64) ckks.ParametersLiteral {
			return ckks.ParametersLiteral{LogN: logN, Q: []uint64{q0, q1}, P: []uint64{p0}, LogDefaultScale: 40}
		}
		for _, v := range []struct {
			name string
			q0   uint64
			em   int
			eph  int
		}{{"em55_q60dn", dn, 55, 32}, {"em58_q60up", up, 58, 32}, {"em58_q60dn_noeph", dn, 58, 0}, {"em60_q60up", up, 60, 32}} {
			r := mk(v.q0)
			if v.eph == 0 {
				r.Xs = ring.Ternary{H: 32}
			}
			out = append(out, c18Cfg{name: v.name, res: r, btp: bootstrapping.ParametersLiteral{LogN: utils.Pointy(logN),
				EvalModLogScale: utils.Pointy(v.em), EphemeralSecretWeight: utils.Pointy(v.eph)}, ratioAdj: adj16})
		}
	}

	// 9. iterated bootstrapping with a reserved prime on 128-bit-precision residual parameters (HighPrecision)
	hp := bootstrapping.DefaultParametersSparse[0].SchemeParams
	hp.LogN = logN
	hp.LogQ = hp.LogQ[:2]
	hp.LogDefaultScale = 80
	out = append(out, c18Cfg{name: "iter_reserved", res: hp, btp: bootstrapping.ParametersLiteral{LogN: utils.Pointy(logN),
		IterationsParameters: &bootstrapping.IterationsParameters{BootstrappingPrecision: []float64{25, 25}, ReservedPrimeBitSize: 28}},
		ratioAdj: func(res ckks.Parameters, p bootstrapping.Parameters) int {
			return utils.Min(utils.Max(16-res.LogN(), 0), 8)
		}, minPrec: 65}) // three bootstrappings of 25 bits: 73-74 bits measured at HEAD
	{
		twin := out[len(out)-1]
		twin.name, twin.codec = "iter_reserved_bin", "binary"
		out = append(out, twin)
	}

	// 9b. residual parameters with LogDefaultScale > 64 (two primes per level) WITHOUT IterationsParameters: the
	// copy-and-rescale branch of Evaluate must work from the untouched input scale
	p80 := bootstrapping.DefaultParametersSparse[0].SchemeParams
	p80.LogN = logN
	p80.LogQ = []int{60, 40}
	p80.LogDefaultScale = 80
	out = append(out, c18Cfg{name: "prec128_plain80", res: p80, btp: bootstrapping.ParametersLiteral{LogN: utils.Pointy(logN)},
		ratioAdj: func(res ckks.Parameters, p bootstrapping.Parameters) int {
			return utils.Min(utils.Max(16-res.LogN(), 0), 8)
		}, minPrec: 20})
	p90 := bootstrapping.DefaultParametersSparse[0].SchemeParams
	p90.LogN = logN
	p90.LogQ = []int{60, 45, 45}
	p90.LogDefaultScale = 90
	out = append(out, c18Cfg{name: "prec128_plain90", res: p90, btp: bootstrapping.ParametersLiteral{LogN: utils.Pointy(logN)},
		ratioAdj: func(res ckks.Parameters, p bootstrapping.Parameters) int {
			return utils.Min(utils.Max(16-res.LogN(), 0), 8)
		}, minPrec: 20})

	// 10. iterated bootstrapping without reserved prime
	out = append(out, c18Cfg{name: "iter_plain", res: hp, btp: bootstrapping.ParametersLiteral{LogN: utils.Pointy(logN),
		IterationsParameters: &bootstrapping.IterationsParameters{BootstrappingPrecision: []float64{25}}},
		ratioAdj: func(res ckks.Parameters, p bootstrapping.Parameters) int {
			return utils.Min(utils.Max(16-res.LogN(), 0), 8)
		}, minPrec: 42}) // two bootstrappings of 25 bits: 51-52 bits measured at HEAD
	{
		twin := out[len(out)-1]
		twin.name, twin.codec = "iter_plain_json", "json"
		out = append(out, twin)
	}

	var sel []c18Cfg
	for _, cf := range out {
		if cf.thorough && !c.Thorough() {
			continue
		}
		sel = append(sel, cf)
	}
	if c.Thorough() {
		// the default literal once more at LogN 13
		b := base()
		b.LogN = 13
		sel = append(sel, c18Cfg{name: "default13", res: b, btp: bootstrapping.ParametersLiteral{LogN: utils.Pointy(13)}, ratioAdj: adj16})
	}
	return sel
}

// ------------------------------------------------------------------ the pipeline for one configuration

func c18MinPrec(cfg c18Cfg, res ckks.Parameters) float64 {
	if cfg.announced != 0 {
		// announced for 2^15 (2^14) slots; measured at HEAD on the reduced rings (LogN 10 and 12, message ratio enlarged as
		// the package tests do): 1 to 4 bits ABOVE the announced value for each of the eight sets
		return cfg.announced - c18AnnouncedMargin
	}
	if cfg.minPrec != 0 {
		return cfg.minPrec
	}
	m := math.Log2(res.DefaultScale().Float64()) - float64(res.LogN()+2)
	if m < 0 {
		m = 0
	}
	return m - 10
}

func c18ScaleStr(s rlwe.Scale) string {
	f := new(big.Float).Set(&s.Value)
	if f.IsInt() {
		i, _ := f.Int(nil)
		return i.String()
	}
	return "nonint"
}

func c18Pipeline(c *Ctx, cfg c18Cfg) {
	res, err := ckks.NewParametersFromLiteral(cfg.res)
	must(err)
	p, err := bootstrapping.NewParametersFromLiteral(res, cfg.btp)
	must(err)
	if cfg.ratioAdj != nil {
		p.Mod1ParametersLiteral.LogMessageRatio += cfg.ratioAdj(res, p)
	}
	if cfg.codec != "" {
		// bootstrap through parameters that went through their codec: every field (IterationsParameters included) must survive
		detail := ""
		var dec2 bootstrapping.Parameters
		var data []byte
		var e error
		if cfg.codec == "json" {
			if data, e = json.Marshal(p); e == nil {
				e = json.Unmarshal(data, &dec2)
			}
		} else {
			if data, e = p.MarshalBinary(); e == nil {
				e = dec2.UnmarshalBinary(data)
			}
		}
		switch {
		case e != nil:
			detail = "codec error"
		case !p.Equal(&dec2):
			detail = "Parameters.Equal(decoded) is false"
		case !reflect.DeepEqual(p.IterationsParameters, dec2.IterationsParameters):
			detail = "IterationsParameters differ after decoding"
		case p.EphemeralSecretWeight != dec2.EphemeralSecretWeight || p.CircuitOrder != dec2.CircuitOrder || !reflect.DeepEqual(p.Mod1ParametersLiteral, dec2.Mod1ParametersLiteral):
			detail = "a scalar field differs after decoding"
		}
		c.Probe("params_codec_roundtrip", "cfg="+cfg.name+" codec="+cfg.codec, "C18-params-codec", detail)
		if e == nil {
			p = dec2
		}
	}
	paramsN2 := p.BootstrappingParameters
	tag := "cfg=" + cfg.name
	c.Count("config:" + cfg.name)

	c.Emit("layout "+c18LayoutArgs(p, cfg.btp), c18LayoutOut(p))

	skN1 := rlwe.NewKeyGenerator(res).GenSecretKeyNew()
	evk, skN2, err := p.GenEvaluationKeys(skN1)
	must(err)

	// ---- generated Galois elements
	c.Emit("generated "+c18GalArgs(p), Vec(c18Sorted(evk.GetGaloisKeysList())))

	// ---- exactness: every generated Galois key is one the evaluator can request; the helper adds the
	// identity (Galois element 1) when a DFT matrix has fewer than three diagonals
	{
		detail := ""
		for _, g := range evk.GetGaloisKeysList() {
			if g == 1 {
				detail = "a Galois key for the identity automorphism (Galois element 1 = rotation by 0) is generated and never requested"
			}
		}
		c.Probe("no_identity_galois_key", tag+" "+c18GalArgs(p), "C18-identity-galois-key", detail)
	}

	// ---- candidates and inventory
	cands := []c18Cand{
		{"r", c18EmbedSecret(skN1, res, paramsN2)},
		{"d", c18EmbedSecret(skN2, paramsN2, paramsN2)},
	}
	if evk.EvkSparseToDense != nil {
		sp, hw, ok := c18RecoverSparse(paramsN2, evk.EvkSparseToDense, cands[1].q0)
		detail := ""
		if !ok {
			detail = "plaintext of EvkSparseToDense is not ternary"
		} else if hw != p.EphemeralSecretWeight {
			detail = fmt.Sprintf("hamming weight %d != %d", hw, p.EphemeralSecretWeight)
		}
		c.Probe("sparse_secret_recovered", tag, "C18-sparse-secret", detail)
		cands = append(cands, c18Cand{"s", sp})
	}
	inv, entries := c18Inventory(paramsN2, evk, cands)
	diff := res.N() != paramsN2.N()
	ci := res.RingType() == ring.ConjugateInvariant
	c.Emit(fmt.Sprintf("inventory q=%d p=%d eph=%s diff=%s ci=%s %s", paramsN2.QCount(), paramsN2.PCount(),
		b01(p.EphemeralSecretWeight != 0), b01(diff), b01(ci), c18GalArgs(p)), inv)
	c.Count("inventory")

	// ---- sparse_key_confined: anything protected only by the ephemeral secret sits at (0,0)
	{
		detail := ""
		nSparse := 0
		for _, e := range entries {
			f := strings.Split(e, "/")
			if f[1] == "" {
				detail = "key " + f[0] + " decrypts under none of the known secrets"
			}
			if f[1] == "s" {
				nSparse++
				if f[2] != "0" || f[3] != "0" {
					detail = fmt.Sprintf("key %s is protected only by the sparse ephemeral secret at LevelQ=%s LevelP=%s", f[0], f[2], f[3])
				}
			} else if strings.Contains(f[1], "s") {
				detail = "key " + f[0] + " decrypts under the sparse secret and another secret"
			}
		}
		if p.EphemeralSecretWeight != 0 && nSparse != 1 {
			detail = fmt.Sprintf("%d keys protected only by the sparse secret, expected exactly EvkDenseToSparse", nSparse)
		}
		c.Probe("sparse_key_confined", fmt.Sprintf("%s keys=%d sparse_only=%d", tag, len(entries), nSparse), "C18-sparse-key-level", detail)
	}

	// ---- scale schedule constants of Evaluator.initialize: round(log2 Q0) (from Mod1Parameters.QDiff), qDiv (from the
	// CoeffsToSlots scaling times K*qDiff), the EvalMod scale, the SlotsToCoeffs scaling — all exact powers of two
	{
		ev0, err := bootstrapping.NewEvaluator(p, evk)
		must(err)
		pow2 := func(x float64) string {
			l := math.Log2(x)
			if r := math.Round(l); math.Abs(l-r) < 1e-9 {
				return I(int(r))
			}
			return fmt.Sprintf("inexact(%d/1000)", int(l*1000))
		}
		q0 := paramsN2.Q()[0]
		m1 := ev0.Mod1Parameters
		c2sF, _ := ev0.CoeffsToSlotsParameters.Scaling.Float64()
		s2cF, _ := ev0.SlotsToCoeffsParameters.Scaling.Float64()
		e := pow2(float64(q0) / m1.QDiff)
		qdiv := c2sF * m1.K * m1.QDiff
		num := new(big.Float).SetPrec(200).Mul(ev0.CoeffsToSlotsParameters.Scaling, new(big.Float).SetFloat64(m1.K))
		num.Mul(num, new(big.Float).SetUint64(q0))
		numI, _ := new(big.Float).Add(num, new(big.Float).SetFloat64(0.5)).Int(nil)
		// the float64 evaluation of qDiv/(K*qDiff) is within 2^-50 of the exact value: snap to the power of two
		if lg := math.Log2(float64(q0)) + math.Log2(c2sF*m1.K); math.Abs(lg-math.Round(lg)) < 1e-9 {
			numI = new(big.Int).Lsh(big.NewInt(1), uint(math.Round(lg)))
		}
		den := new(big.Int).Mul(big.NewInt(int64(m1.K)), new(big.Int).SetUint64(q0))
		neg := pow2(1 / qdiv)
		out := strings.Join([]string{e, neg, pow2(m1.ScalingFactor().Float64()), pow2(s2cF), numI.String() + "/" + den.String()}, ",")
		c.Emit(fmt.Sprintf("scaleconst q0=%d evalmod=%d ratio=%d logscale=%d k=%d ci=%s", q0, p.Mod1ParametersLiteral.LogScale,
			p.Mod1ParametersLiteral.LogMessageRatio, paramsN2.LogDefaultScale(), p.Mod1ParametersLiteral.K, b01(res.RingType() == ring.ConjugateInvariant)), out)
		c.Count("scaleconst")
	}

	// ---- key levels: what the evaluator needs from every key over all admissible input levels
	// (switch keys at the residual maximum, EvkDenseToSparse at (0,0), EvkSparseToDense and the Galois keys on
	// the full chain with the LevelP of the linear transformations, rlk from Mod1.LevelQ); needs are read off
	// the evaluator-side parameters, the model derives them from the level layout
	{
		needQ := map[string]int{
			"EvkN1ToN2": res.MaxLevel(), "EvkN2ToN1": res.MaxLevel(), "EvkRealToCmplx": res.MaxLevel(), "EvkCmplxToReal": res.MaxLevel(),
			"EvkDenseToSparse": 0, "EvkSparseToDense": paramsN2.QCount() - 1, "rlk": p.Mod1ParametersLiteral.LevelQ,
			"gk": utils.Max(p.CoeffsToSlotsParameters.LevelQ, utils.Max(p.SlotsToCoeffsParameters.LevelQ, paramsN2.MaxLevel())),
		}
		needP := map[string]string{
			"EvkN1ToN2": "*", "EvkN2ToN1": "*", "EvkRealToCmplx": "*", "EvkCmplxToReal": "*", "rlk": "*",
			"EvkDenseToSparse": "0", "EvkSparseToDense": I(paramsN2.PCount() - 1), "gk": I(p.CoeffsToSlotsParameters.LevelP),
		}
		var tb []string
		for _, n := range []string{"EvkN1ToN2", "EvkN2ToN1", "EvkRealToCmplx", "EvkCmplxToReal", "EvkDenseToSparse", "EvkSparseToDense", "rlk", "gk"} {
			tb = append(tb, fmt.Sprintf("%s/%d/%s", n, needQ[n], needP[n]))
		}
		rsv := p.IterationsParameters != nil && p.IterationsParameters.ReservedPrimeBitSize > 0
		logp := "def"
		if cfg.btp.LogP != nil {
			logp = I(len(cfg.btp.LogP))
		}
		c.Emit(fmt.Sprintf("needed res=%d s2c=%d c2s=%d m1=%d rsv=%s logp=%s", res.QCount(), len(p.SlotsToCoeffsParameters.Levels),
			len(p.CoeffsToSlotsParameters.Levels), p.Mod1ParametersLiteral.Depth(), b01(rsv), logp), strings.Join(tb, ";"))
		detail := ""
		for _, e := range entries {
			f := strings.Split(e, "/")
			kind := f[0]
			if strings.HasPrefix(kind, "gk") {
				kind = "gk"
			}
			lq, _ := strconv.Atoi(f[2])
			if lq < needQ[kind] {
				detail = fmt.Sprintf("key %s has LevelQ=%d, the evaluator uses it up to level %d (the gadget product would silently clamp)", f[0], lq, needQ[kind])
				break
			}
			if np := needP[kind]; (np != "*" && f[3] != np) || (np == "*" && strings.HasPrefix(f[3], "-")) {
				detail = fmt.Sprintf("key %s has LevelP=%s, needed %s", f[0], f[3], np)
				break
			}
		}
		c.Probe("key_levels_sufficient", fmt.Sprintf("%s keys=%d", tag, len(entries)), "C18-key-level-too-low", detail)
	}

	// ---- evaluator with logging key set
	eval, err := bootstrapping.NewEvaluator(p, evk)
	must(err)
	logk := newC18LogKeys(evk.MemEvaluationKeySet)
	eval.Evaluator.Evaluator.EvaluationKeySet = logk

	ecd := ckks.NewEncoder(res)
	enc := rlwe.NewEncryptor(res, skN1)
	dec := rlwe.NewDecryptor(res, skN1)

	maxCtSlots := utils.Min(res.LogMaxSlots(), p.LogMaxSlots())
	slotChoices := []int{maxCtSlots}
	if cfg.ctSlotsLo {
		lo := 0
		if ci {
			lo = 1 // a single-slot plaintext of the conjugate-invariant ring does not survive encode/decode (not C18's concern)
		}
		slotChoices = append(slotChoices, maxCtSlots/2, lo)
	}
	iterated := p.IterationsParameters != nil || res.PrecisionMode() == ckks.PREC128
	minLevel := 0
	if res.PrecisionMode() == ckks.PREC128 {
		minLevel = 1 // Evaluator.MinimumInputLevel(): two primes per rescaling
	}
	schedArgs := fmt.Sprintf("res=%d s2c=%d c2s=%d m1=%d rsv=%s", res.QCount(), len(p.SlotsToCoeffsParameters.Levels), len(p.CoeffsToSlotsParameters.Levels),
		p.Mod1ParametersLiteral.Depth(), b01(p.IterationsParameters != nil && p.IterationsParameters.ReservedPrimeBitSize > 0))
	var firstReq []uint64
	first := true
	// level 0 is admissible only if Q[0]/scale >= MessageRatio/2 (ScaleDown cannot scale up otherwise)
	dsc := res.DefaultScale()
	q0OverScale := new(big.Float).Quo(new(big.Float).SetUint64(res.Q()[0]), &dsc.Value)
	lvl0ok := q0OverScale.Cmp(new(big.Float).SetFloat64(eval.Mod1Parameters.MessageRatio()/2)) >= 0
	firstLevel := minLevel
	if !lvl0ok && firstLevel == 0 {
		firstLevel = 1
	}
	for level := minLevel; level <= res.MaxLevel(); level++ {
		if level == 0 && !lvl0ok {
			pt := ckks.NewPlaintext(res, 0)
			must(ecd.Encode(c18Vals(c, 1<<maxCtSlots, ci), pt))
			ct, err := enc.EncryptNew(pt)
			must(err)
			st := Try(func() string {
				if _, e := eval.Bootstrap(ct); e != nil {
					return "err"
				}
				return "ok"
			})
			detail := ""
			if st != "err" {
				detail = "an input whose message ratio cannot be reached is not rejected: " + st
			}
			c.Probe("inadmissible_rejected", tag+" level=0", "C18-inadmissible-accepted", detail)
			continue
		}
		for _, ls := range slotChoices {
			vals := c18Vals(c, 1<<ls, ci)
			pt := ckks.NewPlaintext(res, level)
			pt.LogDimensions = ring.Dimensions{Rows: 0, Cols: ls}
			must(ecd.Encode(vals, pt))
			ct, err := enc.EncryptNew(pt)
			must(err)
			logk.reset()
			ctBefore := ct.CopyNew()
			var out *rlwe.Ciphertext
			status := Try(func() string {
				var e error
				out, e = eval.Bootstrap(ct)
				if e != nil {
					return "err"
				}
				return "ok"
			})
			args := fmt.Sprintf("%s level=%d ctLogSlots=%d", tag, level, ls)
			detail := ""
			if status != "ok" {
				detail = "Bootstrap " + status
			} else if len(logk.missing) != 0 {
				detail = "missing Galois keys " + Vec(logk.missing)
			}
			c.Probe("keys_sufficient", args, "C18-missing-key", detail)
			if status != "ok" {
				continue
			}
			req := logk.requested()
			if first {
				first = false
				firstReq = req
				c.Emit("required "+c18GalArgs(p), Vec(req))
				c.Emit(fmt.Sprintf("output %s iter=%s logscale=%d", schedArgs, b01(iterated), res.LogDefaultScale()),
					IVec([]int{out.Level()})+","+c18ScaleStr(out.Scale))
			} else {
				detail = ""
				if Vec(req) != Vec(firstReq) {
					detail = "requested " + Vec(req) + " first call " + Vec(firstReq)
				}
				c.Probe("required_stable", args, "C18-required-varies", detail)
			}
			detail = ""
			if out.Level() != eval.OutputLevel() || out.Level() != res.MaxLevel() || !out.Scale.Equal(res.DefaultScale()) {
				detail = fmt.Sprintf("level %d announced %d", out.Level(), eval.OutputLevel())
			} else if out.LogDimensions.Cols != ls {
				detail = fmt.Sprintf("LogDimensions.Cols %d != %d", out.LogDimensions.Cols, ls)
			}
			c.Probe("output_level_scale", args, "C18-output-level", detail)
			if iterated {
				// this path works on a copy (`eval.bootstrap(ctIn.CopyNew())`) and reads ctIn.Scale afterwards:
				// the caller's ciphertext must come back untouched (limbs and metadata)
				detail = ""
				if !c18CtEqual(ctBefore, ct) || ct.LogDimensions != ctBefore.LogDimensions || ct.IsNTT != ctBefore.IsNTT {
					detail = "Bootstrap modified its input ciphertext"
				}
				c.Probe("input_unchanged", args+" api=Bootstrap", "C18-input-modified", detail)
				if !diff && !ci {
					ct2 := ctBefore.CopyNew()
					var o2 *rlwe.Ciphertext
					st2 := Try(func() string {
						var e error
						if o2, e = eval.Evaluate(ct2); e != nil {
							return "err"
						}
						return "ok"
					})
					detail = ""
					switch {
					case st2 != "ok":
						detail = "Evaluate " + st2
					case !o2.Scale.Equal(ctBefore.Scale):
						detail = fmt.Sprintf("Evaluate returned log2(scale) = %d, input scale 2^%d", int(math.Round(o2.Scale.Log2())), int(math.Round(ctBefore.Scale.Log2())))
					case o2.Level() != res.MaxLevel():
						detail = fmt.Sprintf("Evaluate returned level %d", o2.Level())
					case !c18CtEqual(ctBefore, ct2):
						detail = "Evaluate modified its input ciphertext"
					default:
						st := ckks.GetPrecisionStats(res, ecd, dec, vals, o2, 0, false)
						if mp := c18MinPrec(cfg, res); !(st.AVGLog2Prec.Real >= mp && st.AVGLog2Prec.Imag >= mp) {
							detail = fmt.Sprintf("Evaluate: avg log2 precision %d bits", int(math.Min(st.AVGLog2Prec.Real, st.AVGLog2Prec.Imag)))
						}
					}
					c.Probe("evaluate_scale_precision", args+" measured=1", "C18-evaluate-scale", detail)
				}
			}

			st := ckks.GetPrecisionStats(res, ecd, dec, vals, out, 0, false)
			mp := c18MinPrec(cfg, res)
			detail = ""
			if !(st.AVGLog2Prec.Real >= mp && (ci || st.AVGLog2Prec.Imag >= mp)) {
				ct0, _ := enc.EncryptNew(pt)
				b := ckks.GetPrecisionStats(res, ecd, dec, vals, ct0, 0, false)
				detail = fmt.Sprintf("avg log2 precision real=%d imag=%d < %d (fresh encryption without bootstrapping: real=%d)", int(st.AVGLog2Prec.Real), int(st.AVGLog2Prec.Imag), int(mp), int(b.AVGLog2Prec.Real))
			}
			if os.Getenv("VERIF_DEBUG") != "" {
				fmt.Fprintf(os.Stderr, "prec %s real=%.1f imag=%.1f min=%.1f\n", args, st.AVGLog2Prec.Real, st.AVGLog2Prec.Imag, mp)
			}
			pkey := "C18-precision"
			if level > 0 && res.Q()[0] < 1<<50 {
				// small Q[0] (N15QP768-type literals): ModUp's integer multiplier is exact only for a power-of-two scale
				pkey = "C18-scaledown-qdiff"
			}
			c.Probe("bootstrap_precision", args+" measured=1", pkey, detail)
			c.Count("bootstrap")
		}
	}

	// ---- stage by stage (public stage methods), level-0 ciphertext with the maximum slot count
	{
		vals := c18Vals(c, 1<<maxCtSlots, ci)
		pt := ckks.NewPlaintext(res, firstLevel)
		pt.LogDimensions = ring.Dimensions{Rows: 0, Cols: maxCtSlots}
		must(ecd.Encode(vals, pt))
		ct, err := enc.EncryptNew(pt)
		must(err)
		out := Try(func() string {
			var in *rlwe.Ciphertext
			if ci {
				in = eval.RealToComplexNew(ct)
			} else {
				cts, _, _, e := eval.PackAndSwitchN1ToN2([]rlwe.Ciphertext{*ct})
				if e != nil {
					return "err"
				}
				in = &cts[0]
			}
			a, _, e := eval.ScaleDown(in)
			if e != nil {
				return "err:scaledown"
			}
			b, e := eval.ModUp(a)
			if e != nil {
				return "err:modup"
			}
			l1 := b.Level()
			re, im, e := eval.CoeffsToSlots(b)
			if e != nil {
				return "err:c2s"
			}
			l2 := re.Level()
			if re, e = eval.EvalMod(re); e != nil {
				return "err:evalmod"
			}
			if im != nil {
				if im, e = eval.EvalMod(im); e != nil {
					return "err:evalmod"
				}
			}
			l3 := re.Level()
			o, e := eval.SlotsToCoeffs(re, im)
			if e != nil {
				return "err:s2c"
			}
			return IVec([]int{l1, l2, l3, o.Level()})
		})
		c.Emit("stages "+schedArgs, out)
		c.Count("stages")
	}

	// ---- ScaleDown: message-ratio arithmetic (dropped primes, scaleUpBigint, rescaled primes, admissibility) on
	// empty ciphertexts of every residual level and scales around the admissibility threshold
	{
		nq := res.QCount()
		qs := paramsN2.Q()[:nq]
		r := p.Mod1ParametersLiteral.LogMessageRatio
		e := int(math.Round(math.Log2(float64(qs[0]))))
		seen := map[int]bool{}
		for _, ls := range []int{paramsN2.LogDefaultScale(), paramsN2.LogDefaultScale() - 3, paramsN2.LogDefaultScale() + 6, e - r - 1, e - r, e - r + 1, e - r + 2, e + 38 - r, e + 41 - r, 12} {
			if ls < 1 || ls > 120 || seen[ls] {
				continue
			}
			seen[ls] = true
			for level := 0; level < nq; level++ {
				ct := ckks.NewCiphertext(paramsN2, 1, level)
				S := new(big.Float).SetPrec(256).SetMantExp(big.NewFloat(1), ls)
				ct.Scale = rlwe.NewScale(S)
				out := Try(func() string {
					o, _, err := eval.ScaleDown(ct)
					if err != nil {
						return "err"
					}
					// out.Scale / S = n / den with den a product of primes q_{level'+1} ... q_k: smallest such k
					ratio := new(big.Float).SetPrec(256).Quo(&o.Scale.Value, S)
					den := big.NewInt(1)
					for k := o.Level(); k <= level; k++ {
						if k > o.Level() {
							den.Mul(den, new(big.Int).SetUint64(qs[k]))
						}
						x := new(big.Float).SetPrec(256).Mul(ratio, new(big.Float).SetPrec(256).SetInt(den))
						n, _ := new(big.Float).SetPrec(256).Add(x, big.NewFloat(0.5)).Int(nil)
						diff := new(big.Float).Sub(x, new(big.Float).SetPrec(256).SetInt(n))
						diff.Abs(diff)
						if n.Sign() > 0 && diff.Cmp(new(big.Float).Quo(x, new(big.Float).SetMantExp(big.NewFloat(1), 100))) < 0 {
							g := new(big.Int).GCD(nil, nil, n, den)
							return fmt.Sprintf("%d,%s,%s", o.Level(), new(big.Int).Quo(n, g), new(big.Int).Quo(den, g))
						}
					}
					return "unrecognised"
				})
				c.Emit(fmt.Sprintf("scaledown qs=%s logscale=%d ratio=%d level=%d", Vec(qs), ls, r, level), out)
				c.Count("scaledown")
			}
		}
	}

	// ---- batches of sparse ciphertexts, original evaluator and a ShallowCopy
	batchLevels := []int{firstLevel}
	if res.MaxLevel() > firstLevel {
		batchLevels = append(batchLevels, res.MaxLevel()) // packing above level 0 (xPow2N1/xPow2N2 at all residual levels)
	}
	for _, blevel := range batchLevels {
		if !(cfg.batch > 0 && maxCtSlots >= 2) {
			break
		}
		ls := maxCtSlots - 2
		mk := func() ([]rlwe.Ciphertext, [][]complex128) {
			cts := make([]rlwe.Ciphertext, cfg.batch)
			vs := make([][]complex128, cfg.batch)
			for i := range cts {
				vs[i] = c18Vals(c, 1<<ls, ci)
				pt := ckks.NewPlaintext(res, blevel)
				pt.LogDimensions = ring.Dimensions{Rows: 0, Cols: ls}
				must(ecd.Encode(vs[i], pt))
				ct, err := enc.EncryptNew(pt)
				must(err)
				cts[i] = *ct
			}
			return cts, vs
		}
		run := func(ev *bootstrapping.Evaluator) string {
			cts, vs := mk()
			return Try(func() string {
				outs, e := ev.BootstrapMany(cts)
				if e != nil {
					return "err"
				}
				if len(outs) != cfg.batch {
					return fmt.Sprintf("count %d", len(outs))
				}
				for i := range outs {
					if outs[i].Level() != res.MaxLevel() || !outs[i].Scale.Equal(res.DefaultScale()) {
						return "level/scale"
					}
					st := ckks.GetPrecisionStats(res, ecd, dec, vs[i], &outs[i], 0, false)
					mp := c18MinPrec(cfg, res)
					if !(st.AVGLog2Prec.Real >= mp && (ci || st.AVGLog2Prec.Imag >= mp)) {
						return fmt.Sprintf("precision ct %d: %d bits", i, int(math.Min(st.AVGLog2Prec.Real, st.AVGLog2Prec.Imag)))
					}
				}
				return "ok"
			})
		}
		args := fmt.Sprintf("%s batch=%d ctLogSlots=%d level=%d", tag, cfg.batch, ls, blevel)
		r1 := run(eval)
		detail := ""
		if r1 != "ok" {
			detail = r1
		}
		c.Probe("batch_bootstrap", args+" measured=1", "C18-batch", detail)
		r2 := Try(func() string { return run(eval.ShallowCopy()) })
		detail = ""
		if (r2 == "ok") != (r1 == "ok") || strings.SplitN(r2, ":", 2)[0] != strings.SplitN(r1, ":", 2)[0] {
			detail = "original evaluator: " + r1 + ", ShallowCopy: " + r2
		}
		c.Probe("shallowcopy_matches", args, "C18-shallowcopy-xpow2invn1", detail)
	}

	// ---- ShallowCopy wiring: no scratch buffer reachable from both the evaluator and a copy (or two copies),
	// a bootstrapping on a copy leaves the receiver's buffers and next result untouched, concurrent use
	eval.Evaluator.Evaluator.EvaluationKeySet = evk.MemEvaluationKeySet
	{
		cp, cp2 := eval.ShallowCopy(), eval.ShallowCopy()
		report := func(a, b interface{}, what string) string {
			sh := c18SharedScratch(a, b, c18CopyAllow)
			if os.Getenv("VERIF_DEBUG") != "" {
				seen := map[string]bool{}
				for _, x := range sh {
					if !seen[x] {
						seen[x] = true
						fmt.Fprintln(os.Stderr, "shared", what, x)
					}
				}
			}
			if len(sh) == 0 {
				return ""
			}
			n := len(sh)
			if n > 4 {
				sh = sh[:4]
			}
			return fmt.Sprintf("%d slices reachable from both %s, e.g. %s", n, what, strings.Join(sh, " "))
		}
		detail := report(eval, cp, "the evaluator and its ShallowCopy")
		if detail == "" {
			detail = report(cp, cp2, "two ShallowCopies")
		}
		if detail == "" {
			detail = report(eval.Evaluator, eval.Evaluator.ShallowCopy(), "the ckks.Evaluator and its ShallowCopy")
		}
		c.Probe("shallowcopy_no_shared_scratch", tag, "C18-shallowcopy-shared-buffers", detail)
		c.Count("shallowcopy_wiring")

		fresh := func() *rlwe.Ciphertext {
			pt := ckks.NewPlaintext(res, firstLevel)
			pt.LogDimensions = ring.Dimensions{Rows: 0, Cols: maxCtSlots}
			must(ecd.Encode(c18Vals(c, 1<<maxCtSlots, ci), pt))
			ct, err := enc.EncryptNew(pt)
			must(err)
			return ct
		}
		ctA, ctB, ctC := fresh(), fresh(), fresh()
		boot := func(ev *bootstrapping.Evaluator, ct *rlwe.Ciphertext) *rlwe.Ciphertext {
			var out *rlwe.Ciphertext
			Try(func() string { out, _ = ev.Bootstrap(ct.CopyNew()); return "" })
			return out
		}
		detail = ""
		base := boot(eval, ctA)
		h0 := c18HashBuffers(eval.Evaluator.Evaluator.EvaluatorBuffers)
		seqB := boot(cp, ctB)
		h1 := c18HashBuffers(eval.Evaluator.Evaluator.EvaluatorBuffers)
		again := boot(eval, ctA)
		switch {
		case base == nil || seqB == nil || again == nil:
			detail = "Bootstrap failed"
		case h1 != h0:
			detail = "a Bootstrap on the ShallowCopy changed the receiver's BuffCt/BuffQP/BuffInvNTT/BuffDecompQP"
		case !c18CtEqual(base, again):
			detail = "the receiver's result changed after a Bootstrap on its ShallowCopy"
		}
		c.Probe("shallowcopy_interleaved", tag, "C18-shallowcopy-shared-buffers", detail)

		if c.Thorough() {
			seqC := boot(cp2, ctC)
			detail = ""
			for round := 0; round < 2 && detail == ""; round++ {
				outs := make([]*rlwe.Ciphertext, 3)
				var wg sync.WaitGroup
				for i, job := range []struct {
					ev *bootstrapping.Evaluator
					ct *rlwe.Ciphertext
				}{{eval, ctA}, {cp, ctB}, {cp2, ctC}} {
					wg.Add(1)
					go func(i int, ev *bootstrapping.Evaluator, ct *rlwe.Ciphertext) {
						defer wg.Done()
						outs[i] = boot(ev, ct)
					}(i, job.ev, job.ct)
				}
				wg.Wait()
				for i, want := range []*rlwe.Ciphertext{base, seqB, seqC} {
					if !c18CtEqual(want, outs[i]) {
						detail = fmt.Sprintf("concurrent Bootstrap on evaluator %d (0 = receiver, 1,2 = copies) differs from its sequential result (round %d)", i, round)
					}
				}
			}
			c.Probe("shallowcopy_concurrent", tag, "C18-shallowcopy-shared-buffers", detail)
		}
	}
}
