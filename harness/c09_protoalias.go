package main

// C09 — alias soundness of the multiparty protocol functions: every function with a share / key / ciphertext receiver
// is called with the receiver ALIASING each input of the same type (the same object where the types allow it, otherwise
// a second value over the same storage: `out := in` for the value-typed shares, whose polynomials are slices) and must
// give what the call with a fresh receiver gives — bit-identical for the deterministic functions, the same
// POSTCONDITION for the ones that draw noise — or refuse the call.
//
//   alias_insensitive/<Type.Func>/out=<arg>

import (
	"fmt"

	"github.com/tuneinsight/lattigo/v6/core/rlwe"
	"github.com/tuneinsight/lattigo/v6/multiparty"
	"github.com/tuneinsight/lattigo/v6/multiparty/mpbgv"
	"github.com/tuneinsight/lattigo/v6/multiparty/mpckks"
	"github.com/tuneinsight/lattigo/v6/ring"
	"github.com/tuneinsight/lattigo/v6/ring/ringqp"
	"github.com/tuneinsight/lattigo/v6/schemes/bgv"
	"github.com/tuneinsight/lattigo/v6/schemes/ckks"
	"github.com/tuneinsight/lattigo/v6/utils"
)

// c09AliasDet: `fresh` and `aliased` return the hash of the result (or "err" when the call is refused)
func c09AliasDet(c *Ctx, name, sc string, fresh, aliased func() string) {
	c.Count("protocol_alias:" + name)
	want := Try(fresh)
	got := Try(aliased)
	d := ""
	switch {
	case got == "panic":
		d = "panic"
	case got == "err":
		c.Count("protocol_alias_refused:" + name)
	case want == "err" || want == "panic":
		d = "aliased-call-accepted-but-the-fresh-call-is-" + want
	case got != want:
		d = "result-differs-from-the-fresh-receiver"
	}
	c.Probe("alias_insensitive/"+name, sc, "C09-alias-"+name, d)
}

func c09ErrStr(err error) bool { return err != nil }

func c09ProtocolAliases(c *Ctx) {
	bp, err := bgv.NewParametersFromLiteral(bgv.ParametersLiteral{LogN: 5, LogQ: []int{45, 40, 40}, LogP: []int{50}, PlaintextModulus: 65537})
	if err != nil {
		panic(err)
	}
	kgen := rlwe.NewKeyGenerator(bp)
	sk, sk2 := kgen.GenSecretKeyNew(), kgen.GenSecretKeyNew()
	pk2 := kgen.GenPublicKeyNew(sk2)
	crs := c10Keyed(41)
	nf := ring.DiscreteGaussian{Sigma: 8, Bound: 48}
	L := bp.MaxLevel()
	ecd := bgv.NewEncoder(bp)
	vals := make([]uint64, bp.MaxSlots())
	for i := range vals {
		vals[i] = uint64(i*11+3) % 251
	}
	pt := bgv.NewPlaintext(bp, L)
	_ = ecd.Encode(vals, pt)
	minus := -1
	variants := []struct {
		name string
		ep   []rlwe.EvaluationKeyParameters
	}{{"default", nil}, {"base2=15", []rlwe.EvaluationKeyParameters{{BaseTwoDecomposition: utils.Pointy(15)}}},
		{"noP,base2=15", []rlwe.EvaluationKeyParameters{{LevelP: &minus, BaseTwoDecomposition: utils.Pointy(15)}}}}
	// ---- aggregation of shares: out = share1, out = share2 ----
	{
		sc := "bgv/logN5"
		ckg := multiparty.NewPublicKeyGenProtocol(bp)
		crp := ckg.SampleCRP(crs)
		s1, s2 := ckg.AllocateShare(), ckg.AllocateShare()
		ckg.GenShare(sk, crp, &s1)
		ckg.GenShare(sk2, crp, &s2)
		fresh := func() string { o := ckg.AllocateShare(); ckg.AggregateShares(s1, s2, &o); return deepHash(&o) }
		c09AliasDet(c, "multiparty.PublicKeyGenProtocol.AggregateShares/out=share1", sc, fresh, func() string {
			a := multiparty.PublicKeyGenShare{Value: *s1.Value.CopyNew()}
			o := a
			ckg.AggregateShares(a, s2, &o)
			return deepHash(&o)
		})
		c09AliasDet(c, "multiparty.PublicKeyGenProtocol.AggregateShares/out=share2", sc, fresh, func() string {
			b := multiparty.PublicKeyGenShare{Value: *s2.Value.CopyNew()}
			o := b
			ckg.AggregateShares(s1, b, &o)
			return deepHash(&o)
		})
		thr := multiparty.NewThresholdizer(bp)
		if poly, err := thr.GenShamirPolynomial(3, sk); err == nil {
			t1, t2 := thr.AllocateThresholdSecretShare(), thr.AllocateThresholdSecretShare()
			thr.GenShamirSecretShare(2, poly, &t1)
			thr.GenShamirSecretShare(3, poly, &t2)
			tf := func() string {
				o := thr.AllocateThresholdSecretShare()
				if thr.AggregateShares(t1, t2, &o) != nil {
					return "err"
				}
				return deepHash(&o)
			}
			c09AliasDet(c, "multiparty.Thresholdizer.AggregateShares/out=share1", sc, tf, func() string {
				a := multiparty.ShamirSecretShare{Poly: *t1.Poly.CopyNew()}
				o := a
				if thr.AggregateShares(a, t2, &o) != nil {
					return "err"
				}
				return deepHash(&o)
			})
			c09AliasDet(c, "multiparty.Thresholdizer.AggregateShares/out=share2", sc, tf, func() string {
				b := multiparty.ShamirSecretShare{Poly: *t2.Poly.CopyNew()}
				o := b
				if thr.AggregateShares(t1, b, &o) != nil {
					return "err"
				}
				return deepHash(&o)
			})
			// Combiner: the output key over the storage of the own share
			others := []multiparty.ShamirPublicPoint{1, 3, 4}
			act := []multiparty.ShamirPublicPoint{1, 2, 3}
			cf := func() string {
				o := rlwe.NewSecretKey(bp)
				if multiparty.NewCombiner(*bp.GetRLWEParameters(), 2, others, 3).GenAdditiveShare(act, 2, t1, o) != nil {
					return "err"
				}
				return deepHash(&o.Value)
			}
			c09AliasDet(c, "multiparty.Combiner.GenAdditiveShare/out=ownShare", sc, cf, func() string {
				a := multiparty.ShamirSecretShare{Poly: *t1.Poly.CopyNew()}
				o := &rlwe.SecretKey{Value: a.Poly}
				if multiparty.NewCombiner(*bp.GetRLWEParameters(), 2, others, 3).GenAdditiveShare(act, 2, a, o) != nil {
					return "err"
				}
				return deepHash(&o.Value)
			})
		}
	}
	for _, v := range variants {
		sc := "bgv/logN5/" + v.name
		// evaluation-key and Galois-key shares
		evkg := multiparty.NewEvaluationKeyGenProtocol(bp)
		crp := evkg.SampleCRP(crs, v.ep...)
		mkE := func(s *rlwe.SecretKey) multiparty.EvaluationKeyGenShare {
			sh := evkg.AllocateShare(v.ep...)
			if err := evkg.GenShare(s, sk2, crp, &sh); err != nil {
				panic(err)
			}
			return sh
		}
		e1, e2 := mkE(sk), mkE(sk2)
		cpE := func(s multiparty.EvaluationKeyGenShare) multiparty.EvaluationKeyGenShare {
			return multiparty.EvaluationKeyGenShare{GadgetCiphertext: *s.GadgetCiphertext.CopyNew()}
		}
		ef := func() string {
			o := cpE(e1) // a distinct receiver of the same shape (CopyNew turns a nil P part into an empty one)
			if evkg.AggregateShares(e1, e2, &o) != nil {
				return "err"
			}
			return deepHash(&o)
		}
		c09AliasDet(c, "multiparty.EvaluationKeyGenProtocol.AggregateShares/out=share1", sc, ef, func() string {
			a := cpE(e1)
			o := a
			if evkg.AggregateShares(a, e2, &o) != nil {
				return "err"
			}
			return deepHash(&o)
		})
		c09AliasDet(c, "multiparty.EvaluationKeyGenProtocol.AggregateShares/out=share2", sc, ef, func() string {
			b := cpE(e2)
			o := b
			if evkg.AggregateShares(e1, b, &o) != nil {
				return "err"
			}
			return deepHash(&o)
		})
		// relinearisation keys: aggregation and ROUND TWO with the receiver over the storage of round1
		rkg := multiparty.NewRelinearizationKeyGenProtocol(bp)
		rcrp := rkg.SampleCRP(crs, v.ep...)
		eph, r1, _ := rkg.AllocateShare(v.ep...)
		rkg.GenShareRoundOne(sk, rcrp, eph, &r1)
		eph2, r1b, _ := rkg.AllocateShare(v.ep...)
		rkg.GenShareRoundOne(sk2, rcrp, eph2, &r1b)
		cpR := func(s multiparty.RelinearizationKeyGenShare) multiparty.RelinearizationKeyGenShare {
			return multiparty.RelinearizationKeyGenShare{GadgetCiphertext: *s.GadgetCiphertext.CopyNew()}
		}
		rf := func() string { o := cpR(r1); rkg.AggregateShares(r1, r1b, &o); return deepHash(&o) }
		c09AliasDet(c, "multiparty.RelinearizationKeyGenProtocol.AggregateShares/out=share1", sc, rf, func() string {
			a := cpR(r1)
			o := a
			rkg.AggregateShares(a, r1b, &o)
			return deepHash(&o)
		})
		c09AliasDet(c, "multiparty.RelinearizationKeyGenProtocol.AggregateShares/out=share2", sc, rf, func() string {
			b := cpR(r1b)
			o := b
			rkg.AggregateShares(r1, b, &o)
			return deepHash(&o)
		})
		_, agg1, _ := rkg.AllocateShare(v.ep...)
		rkg.AggregateShares(r1, r1b, &agg1)
		// postcondition of a round-two share: share[0] - round1[0]·sk - (u - sk)·round1[1] is the NTT of a small error
		residual := func(sh multiparty.RelinearizationKeyGenShare, round1 multiparty.RelinearizationKeyGenShare) string {
			levelQ, levelP := sh.LevelQ(), sh.LevelP()
			rqp := bp.RingQP().AtLevel(levelQ, levelP)
			um := rqp.NewPoly()
			rqp.Sub(eph.Value, sk.Value, um)
			worst := 0
			for i := range sh.Value {
				for j := range sh.Value[i] {
					t := rqp.NewPoly()
					rqp.MulCoeffsMontgomery(round1.Value[i][j][0], sk.Value, t)
					rqp.MulCoeffsMontgomeryThenAdd(um, round1.Value[i][j][1], t)
					d := rqp.NewPoly()
					rqp.Sub(sh.Value[i][j][0], t, d)
					rqp.INTT(d, d)
					q0 := rqp.RingQ.SubRings[0].Modulus
					for _, x := range d.Q.Coeffs[0] {
						if x > q0/2 {
							x = q0 - x
						}
						if x > 1<<12 {
							worst++
						}
					}
				}
			}
			if worst > 0 {
				return fmt.Sprintf("%d-coefficients-of-the-round-two-share-are-not-round1*sk+small-error", worst)
			}
			return "ok"
		}
		c09AliasDet(c, "multiparty.RelinearizationKeyGenProtocol.GenShareRoundTwo/out=round1", sc, func() string {
			_, _, o := rkg.AllocateShare(v.ep...)
			rkg.GenShareRoundTwo(eph, sk, agg1, &o)
			return residual(o, agg1)
		}, func() string {
			keep := cpR(agg1)
			a := cpR(agg1)
			o := a // same storage as the round-one argument
			rkg.GenShareRoundTwo(eph, sk, a, &o)
			return residual(o, keep)
		})
	}
	// ---- key switching, sharing, refresh, masked transform: in place on the ciphertext / the secret share ----
	for _, lvl := range []int{L, 1} {
		sc := fmt.Sprintf("bgv/logN5/level%d", lvl)
		ct, _ := rlwe.NewEncryptor(bp, sk).EncryptNew(pt)
		ct.Resize(1, lvl)
		if cks, err := multiparty.NewKeySwitchProtocol(bp, nf); err == nil {
			s1, s2 := cks.AllocateShare(lvl), cks.AllocateShare(lvl)
			cks.GenShare(sk, sk2, ct, &s1)
			cks.GenShare(sk2, sk, ct, &s2)
			f := func() string {
				o := cks.AllocateShare(lvl)
				if cks.AggregateShares(s1, s2, &o) != nil {
					return "err"
				}
				return deepHash(&o)
			}
			c09AliasDet(c, "multiparty.KeySwitchProtocol.AggregateShares/out=share1", sc, f, func() string {
				a := multiparty.KeySwitchShare{Value: *s1.Value.CopyNew()}
				o := a
				if cks.AggregateShares(a, s2, &o) != nil {
					return "err"
				}
				return deepHash(&o)
			})
			c09AliasDet(c, "multiparty.KeySwitchProtocol.AggregateShares/out=share2", sc, f, func() string {
				b := multiparty.KeySwitchShare{Value: *s2.Value.CopyNew()}
				o := b
				if cks.AggregateShares(s1, b, &o) != nil {
					return "err"
				}
				return deepHash(&o)
			})
			c09AliasDet(c, "multiparty.KeySwitchProtocol.KeySwitch/out=ctIn", sc, func() string {
				o := bgv.NewCiphertext(bp, 1, lvl)
				cks.KeySwitch(ct, s1, o)
				return deepHash(o)
			}, func() string { a := ct.CopyNew(); cks.KeySwitch(a, s1, a); return deepHash(a) })
		}
		if pcks, err := multiparty.NewPublicKeySwitchProtocol(bp, nf); err == nil {
			s1, s2 := pcks.AllocateShare(lvl), pcks.AllocateShare(lvl)
			pcks.GenShare(sk, pk2, ct, &s1)
			pcks.GenShare(sk2, pk2, ct, &s2)
			f := func() string {
				o := pcks.AllocateShare(lvl)
				if pcks.AggregateShares(s1, s2, &o) != nil {
					return "err"
				}
				return deepHash(&o)
			}
			c09AliasDet(c, "multiparty.PublicKeySwitchProtocol.AggregateShares/out=share1", sc, f, func() string {
				a := multiparty.PublicKeySwitchShare{Element: *s1.Element.CopyNew()}
				o := a
				if pcks.AggregateShares(a, s2, &o) != nil {
					return "err"
				}
				return deepHash(&o)
			})
			c09AliasDet(c, "multiparty.PublicKeySwitchProtocol.KeySwitch/out=ctIn", sc, func() string {
				o := bgv.NewCiphertext(bp, 1, lvl)
				pcks.KeySwitch(ct, s1, o)
				return deepHash(o)
			}, func() string { a := ct.CopyNew(); pcks.KeySwitch(a, s1, a); return deepHash(a) })
		}
		if e2s, err := mpbgv.NewEncToShareProtocol(bp, nf); err == nil {
			sec := mpbgv.NewAdditiveShare(bp)
			pub := e2s.AllocateShare(lvl)
			e2s.GenShare(sk, ct, &sec, &pub)
			c09AliasDet(c, "mpbgv.EncToShareProtocol.GetShare/out=secretShare", sc, func() string {
				o := mpbgv.NewAdditiveShare(bp)
				e2s.GetShare(&sec, pub, ct, &o)
				return deepHash(&o)
			}, func() string {
				a := multiparty.AdditiveShare{Value: *sec.Value.CopyNew()}
				e2s.GetShare(&a, pub, ct, &a)
				return deepHash(&a)
			})
		}
		if rfp, err := mpbgv.NewRefreshProtocol(bp, nf); err == nil && lvl == 1 {
			crp := rfp.SampleCRP(L, crs)
			s1, s2 := rfp.AllocateShare(lvl, L), rfp.AllocateShare(lvl, L)
			if rfp.GenShare(sk, ct, crp, &s1) == nil && rfp.GenShare(sk2, ct, crp, &s2) == nil {
				f := func() string {
					o := rfp.AllocateShare(lvl, L)
					if rfp.AggregateShares(s1, s2, &o) != nil {
						return "err"
					}
					return deepHash(&o)
				}
				cp := func(s multiparty.RefreshShare) multiparty.RefreshShare {
					return multiparty.RefreshShare{EncToShareShare: multiparty.KeySwitchShare{Value: *s.EncToShareShare.Value.CopyNew()},
						ShareToEncShare: multiparty.KeySwitchShare{Value: *s.ShareToEncShare.Value.CopyNew()}, MetaData: s.MetaData}
				}
				c09AliasDet(c, "mpbgv.RefreshProtocol.AggregateShares/out=share1", sc, f, func() string {
					a := cp(s1)
					o := a
					if rfp.AggregateShares(a, s2, &o) != nil {
						return "err"
					}
					return deepHash(&o)
				})
				c09AliasDet(c, "mpbgv.RefreshProtocol.AggregateShares/out=share2", sc, f, func() string {
					b := cp(s2)
					o := b
					if rfp.AggregateShares(s1, b, &o) != nil {
						return "err"
					}
					return deepHash(&o)
				})
			}
		}
	}
	// ---- ckks: pointer-typed shares can be literally the same object ----
	cp, err := ckks.NewParametersFromLiteral(ckks.ParametersLiteral{LogN: 5, LogQ: []int{55, 45, 45}, LogP: []int{55}, LogDefaultScale: 30})
	if err != nil {
		panic(err)
	}
	ck := rlwe.NewKeyGenerator(cp)
	csk, csk2 := ck.GenSecretKeyNew(), ck.GenSecretKeyNew()
	cpt := ckks.NewPlaintext(cp, cp.MaxLevel())
	cct, _ := rlwe.NewEncryptor(cp, csk).EncryptNew(cpt)
	cct.Resize(1, 1)
	if rfp, err := mpckks.NewRefreshProtocol(cp, 128, nf); err == nil {
		crp := rfp.SampleCRP(cp.MaxLevel(), crs)
		mk := func(s *rlwe.SecretKey) multiparty.RefreshShare {
			sh := rfp.AllocateShare(1, cp.MaxLevel())
			if err := rfp.GenShare(s, 40, cct, crp, &sh); err != nil {
				panic(err)
			}
			return sh
		}
		s1, s2 := mk(csk), mk(csk2)
		f := func() string {
			o := rfp.AllocateShare(1, cp.MaxLevel())
			if rfp.AggregateShares(&s1, &s2, &o) != nil {
				return "err"
			}
			return deepHash(&o)
		}
		cpS := func(s multiparty.RefreshShare) multiparty.RefreshShare {
			return multiparty.RefreshShare{EncToShareShare: multiparty.KeySwitchShare{Value: *s.EncToShareShare.Value.CopyNew()},
				ShareToEncShare: multiparty.KeySwitchShare{Value: *s.ShareToEncShare.Value.CopyNew()}, MetaData: s.MetaData}
		}
		c09AliasDet(c, "mpckks.RefreshProtocol.AggregateShares/out=share1", "ckks/logN5", f, func() string {
			a := cpS(s1)
			if rfp.AggregateShares(&a, &s2, &a) != nil {
				return "err"
			}
			return deepHash(&a)
		})
		c09AliasDet(c, "mpckks.RefreshProtocol.AggregateShares/out=share2", "ckks/logN5", f, func() string {
			b := cpS(s2)
			if rfp.AggregateShares(&s1, &b, &b) != nil {
				return "err"
			}
			return deepHash(&b)
		})
	}
	_ = ringqp.Poly{}
}
