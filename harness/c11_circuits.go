package main

// C11, part "circuit-level advertised lists": "for every other circuit the advertised list suffices".
//
//	lintrans.GaloisElements(params, diags, slots, ratio)            common package function   (label pkg)
//	lintrans.LinearTransformation.GaloisElements(params)            common method             (label method)
//	ckks/bgv lintrans LinearTransformation.GaloisElements(params)   scheme wrapper method     (label wrapper)
//	ckks lintrans.GaloisElements(params, ltparams)                  scheme wrapper function   (label wrapper-pkg)
//	dft.MatrixLiteral.GaloisElements(params)                        homomorphic DFT
//
// each ALONE as the source of the Galois keys (logging key set holding exactly that list), over
// (naive, BSGS ratio 0/1/2) × (every column count: full and sparse packing) × diagonal index spellings
// (positive, negative, mixed, out of range |d| >= cols — the latter may be refused: only "no look-up misses" and,
// when the evaluation succeeds, the value are required).
// Probes `circuit_keys_sufficient` (no look-up misses, no error) and `circuit_value` (decrypted = M·v).
// The polynomial evaluators advertise no Galois keys; the bootstrapping list is exercised by C18.

import (
	"fmt"
	"sort"

	"github.com/tuneinsight/lattigo/v6/circuits/bgv/lintrans"
	"github.com/tuneinsight/lattigo/v6/circuits/ckks/dft"
	ckkslt "github.com/tuneinsight/lattigo/v6/circuits/ckks/lintrans"
	clt "github.com/tuneinsight/lattigo/v6/circuits/common/lintrans"
	"github.com/tuneinsight/lattigo/v6/core/rlwe"
	"github.com/tuneinsight/lattigo/v6/ring"
	"github.com/tuneinsight/lattigo/v6/schemes/ckks"
)

type c11LT struct {
	logCols int
	ratio   int
	idx     []int     // spellings as given
	diag    [][]int64 // one vector per index (bgv: 2*cols entries, ckks: cols real entries)
}

// c11Spellings returns the labelled index lists for a column count (indices distinct modulo cols).
func c11Spellings(cols int) (labels []string, lists [][]int) {
	dedup := func(l []int) []int {
		seen := map[int]bool{}
		var out []int
		for _, d := range l {
			r := ((d % cols) + cols) % cols
			if !seen[r] {
				seen[r] = true
				out = append(out, d)
			}
		}
		return out
	}
	add := func(lb string, l []int) {
		if lb != "oor" { // in-range spellings only: |d| < cols
			var in []int
			for _, d := range l {
				if d > -cols && d < cols {
					in = append(in, d)
				}
			}
			l = in
		}
		labels = append(labels, lb)
		lists = append(lists, dedup(l))
	}
	add("pos", []int{0, 1, 3, cols - 1})
	add("neg", []int{0, -1, -3, -(cols - 1)})
	add("mixed", []int{1, -2, cols / 2})
	add("negone", []int{-1})
	add("oor", []int{cols + 1, -cols - 2})
	return
}

// refLT: out[blk][i] = Σ_d diag_d[blk][i] · v[blk][(i+d) mod cols].
func (x *c11Ctx) refLT(lt *c11LT, v []int64) []int64 {
	cols := 1 << uint(lt.logCols)
	out := make([]int64, len(v))
	for blk := 0; blk < len(v)/cols; blk++ {
		for i := 0; i < cols; i++ {
			var acc int64
			for k, d := range lt.idx {
				dv := lt.diag[k][(blk*cols+i)%len(lt.diag[k])]
				j := (((i + d) % cols) + cols) % cols
				acc = x.red(acc + x.red(dv*x.red(v[blk*cols+j])))
			}
			out[blk*cols+i] = acc
		}
	}
	return out
}

type c11BuiltLT struct {
	common clt.LinearTransformation
	lists  map[string][]uint64
	err    string
}

func (x *c11Ctx) buildLT(lt *c11LT) (b c11BuiltLT) {
	b.lists = map[string][]uint64{}
	cols := 1 << uint(lt.logCols)
	defer func() {
		if r := recover(); r != nil {
			b.err = fmt.Sprintf("panic: %v", r)
		}
	}()
	if x.name == "bgv" {
		dg := lintrans.Diagonals[uint64]{}
		for k, d := range lt.idx {
			u := make([]uint64, len(lt.diag[k]))
			for i := range u {
				u[i] = uint64(lt.diag[k][i])
			}
			dg[d] = u
		}
		p := lintrans.Parameters{DiagonalsIndexList: append([]int{}, lt.idx...), LevelQ: x.rp.MaxLevel(), LevelP: x.rp.MaxLevelP(),
			Scale: x.rp.DefaultScale(), LogDimensions: ring.Dimensions{Rows: 1, Cols: lt.logCols}, LogBabyStepGiantStepRatio: lt.ratio}
		l := lintrans.NewLinearTransformation(x.bgvP, p)
		if err := lintrans.Encode(x.bgvE, dg, l); err != nil {
			b.err = "encode: " + err.Error()
			return
		}
		b.common = clt.LinearTransformation(l)
		b.lists["wrapper"] = l.GaloisElements(x.bgvP)
		b.lists["method"] = b.common.GaloisElements(x.bgvP)
		b.lists["pkg"] = clt.GaloisElements(x.bgvP, p.DiagonalsIndexList, cols, lt.ratio)
		return
	}
	dg := ckkslt.Diagonals[float64]{}
	for k, d := range lt.idx {
		f := make([]float64, len(lt.diag[k]))
		for i := range f {
			f[i] = float64(lt.diag[k][i])
		}
		dg[d] = f
	}
	p := ckkslt.Parameters{DiagonalsIndexList: append([]int{}, lt.idx...), LevelQ: x.rp.MaxLevel(), LevelP: x.rp.MaxLevelP(),
		Scale: x.rp.DefaultScale(), LogDimensions: ring.Dimensions{Rows: 0, Cols: lt.logCols}, LogBabyStepGiantStepRatio: lt.ratio}
	l := ckkslt.NewTransformation(x.ckksP, p)
	if err := ckkslt.Encode(x.ckksE, dg, l); err != nil {
		b.err = "encode: " + err.Error()
		return
	}
	b.common = clt.LinearTransformation(l)
	b.lists["wrapper"] = l.GaloisElements(x.ckksP)
	b.lists["wrapper-pkg"] = ckkslt.GaloisElements(x.ckksP, p)
	b.lists["method"] = b.common.GaloisElements(x.ckksP)
	b.lists["pkg"] = clt.GaloisElements(x.ckksP, p.DiagonalsIndexList, cols, lt.ratio)
	return
}

func c11Circuits(c *Ctx) {
	ctxs := []*c11Ctx{newC11CKKS(5, true, false), newC11BGV(5, true), newC11CKKS(4, true, true)}
	if c.Thorough() {
		ctxs = append(ctxs, newC11CKKS(6, true, false), newC11BGV(4, true), newC11CKKS(5, true, true))
	}
	dfts := []*c11Ctx{newC11Multi("ckks", 6, 4, 1)}
	if c.Thorough() {
		dfts = append(dfts, newC11Multi("ckks", 8, 4, 1), newC11Multi("ckks", 5, 3, 2))
	}
	for _, x := range dfts {
		c11DFT(c, x)
	}
	for _, x := range ctxs {
		c11LinTrans(c, x)
		det := ""
		if x.t == 0 && !(x.maxRoundErr < 0.05) {
			det = fmt.Sprintf("max |x-round(x)| = %g (tolerance 0.05)", x.maxRoundErr)
		}
		c.Probe("ckks_round_margin", "circuits "+x.tag(), "C11-ckks-precision", det)
	}
}

func c11LinTrans(c *Ctx, x *c11Ctx) {
	logMax := 0
	for 1<<uint(logMax) < x.cols {
		logMax++
	}
	lcs := []int{logMax}
	if x.name != "bgv" {
		lcs = nil
		for lc := 1; lc <= logMax; lc++ {
			lcs = append(lcs, lc)
		}
	}
	for _, logCols := range lcs {
		cols := 1 << uint(logCols)
		blocks := x.veclen / x.cols // bgv 2 rows, ckks re/im, ckksci 1
		labels, lists := c11Spellings(cols)
		for si, idx := range lists {
			for _, ratio := range []int{-1, 0, 1, 2} {
				lt := &c11LT{logCols: logCols, ratio: ratio, idx: idx}
				for range idx {
					n := cols
					if x.name == "bgv" {
						n = 2 * cols
					}
					d := make([]int64, n)
					for i := range d {
						d[i] = int64(c.rng.Intn(4))
					}
					lt.diag = append(lt.diag, d)
				}
				b := x.buildLT(lt)
				desc := fmt.Sprintf("%s lintrans cols=%d/%d ratio=%d %s idx=%s", x.tag(), cols, x.cols, ratio, labels[si], c11IntVec(idx))
				if b.err != "" {
					det := ""
					if labels[si] != "oor" {
						det = b.err
					}
					c.Count("circuits:lintrans-refused:" + labels[si])
					c.Probe("circuit_keys_sufficient", desc+" (build)", "C11-circuit-keys-lintrans", det)
					continue
				}
				names := make([]string, 0, len(b.lists))
				for k := range b.lists {
					names = append(names, k)
				}
				sort.Strings(names)
				for _, acc := range names {
					v := make([]int64, blocks*cols)
					for i := range v {
						if x.t != 0 {
							v[i] = int64(c.rng.Below(x.t))
						} else {
							v[i] = int64(c.rng.Intn(41)) - 20
						}
					}
					evk, _, missing := x.keysFor(b.lists[acc], false)
					var ct *rlwe.Ciphertext
					if x.name == "bgv" {
						ct = x.encrypt(v)
					} else {
						ct = x.metaEncrypt(v, c11MetaIn{scale: x.rp.DefaultScale(), logCols: logCols, batched: true, level: x.rp.MaxLevel()})
					}
					out := x.newCt()
					st := c11TryErr(func() error {
						if x.name == "bgv" {
							return lintrans.NewEvaluator(x.bgvEv.WithKey(evk)).Evaluate(ct, lintrans.LinearTransformation(b.common), out)
						}
						return ckkslt.NewEvaluator(x.ckksEv.WithKey(evk)).Evaluate(ct, ckkslt.LinearTransformation(b.common), out)
					})
					c.Count("circuits:lintrans:" + x.name + ":" + acc)
					det := ""
					if len(*missing) > 0 {
						det = fmt.Sprintf("missing=%s advertised=%s", Vec(*missing), c11SortedU(b.lists[acc]))
					} else if st != "" && labels[si] != "oor" {
						det = "status=" + st
					}
					c.Probe("circuit_keys_sufficient", desc+" list="+acc, "C11-circuit-keys-lintrans", det)
					det = ""
					if st != "" && labels[si] == "oor" {
						// out-of-range spellings are not documented: a refusal at evaluation time is C12's concern
						c.Count("circuits:lintrans-oor-eval-" + st)
					} else if st == "" {
						got, ds := x.metaDecode(out)
						want := x.refLT(lt, v)
						if ds != "" {
							det = ds
						} else if !c11Eq(got, want) {
							det = fmt.Sprintf("v=%s got=%s want=%s", c11I64Vec(v), c11I64Vec(got), c11I64Vec(want))
						}
					} else {
						det = "status=" + st
					}
					c.Probe("circuit_value", desc+" list="+acc, "C11-circuit-value-lintrans", det)
				}
			}
		}
	}
}

// c11DFT: CoeffsToSlots / SlotsToCoeffs with keys for exactly MatrixLiteral.GaloisElements (+ conjugation), over
// LogSlots 1..LogN-1 × Type × Format × BitReversed × Levels splits (symmetric and asymmetric merges) × BSGS ratio.
func c11DFT(c *Ctx, x *c11Ctx) {
	params := x.ckksP
	logMax := params.LogMaxSlots()
	splits := [][]int{{1}, {1, 1}, {2}, {2, 1}, {1, 2}, {1, 1, 1}, {3}}
	n := 0
	for logSlots := 1; logSlots <= logMax; logSlots++ {
		for _, typ := range []dft.Type{dft.HomomorphicEncode, dft.HomomorphicDecode} {
			for _, format := range []dft.Format{dft.Standard, dft.SplitRealAndImag, dft.RepackImagAsReal} {
				for _, bitrev := range []bool{false, true} {
					for _, split := range splits {
						depth := 0
						for _, d := range split {
							depth += d
						}
						if depth > logSlots || len(split) > params.MaxLevel() {
							continue
						}
						ratios := []int{0, 1, 2}
						if !c.Thorough() {
							n++
							ratios = []int{n % 3}
						}
						for _, ratio := range ratios {
							c11DFTCase(c, x, dft.MatrixLiteral{Type: typ, Format: format, BitReversed: bitrev, LogSlots: logSlots, LevelQ: params.MaxLevel(),
								LevelP: params.MaxLevelP(), Levels: split, LogBSGSRatio: ratio})
						}
					}
				}
			}
		}
	}
}

func c11DFTCase(c *Ctx, x *c11Ctx, lit dft.MatrixLiteral) {
	params := x.ckksP
	logSlots, logMax := lit.LogSlots, params.LogMaxSlots()
	desc := fmt.Sprintf("%s dft type=%d format=%d bitrev=%v logSlots=%d/%d levels=%s ratio=%d", x.tag(), lit.Type, lit.Format, lit.BitReversed, logSlots, logMax, c11IntVec(lit.Levels), lit.LogBSGSRatio)
	det := ""
	var missing *[]uint64
	func() {
		defer func() {
			if r := recover(); r != nil {
				det = fmt.Sprintf("panic: %v", r)
			}
		}()
		m, err := dft.NewMatrixFromLiteral(params, lit, x.ckksE)
		if err != nil {
			det = "matrix: " + err.Error()
			return
		}
		gal := append(lit.GaloisElements(params), params.GaloisElementForComplexConjugation())
		var evk c11LogKeys
		evk, _, missing = x.keysFor(gal, false)
		de := dft.NewEvaluator(params, x.ckksEv.WithKey(evk))
		v := make([]int64, 2<<uint(logSlots))
		for i := range v {
			v[i] = int64(c.rng.Intn(41)) - 20
		}
		ct := x.metaEncrypt(v, c11MetaIn{scale: x.rp.DefaultScale(), logCols: logSlots, batched: true, level: params.MaxLevel()})
		two := lit.Format == dft.SplitRealAndImag || (lit.Format == dft.RepackImagAsReal && logSlots == logMax)
		if lit.Type == dft.HomomorphicEncode {
			re := ckks.NewCiphertext(params, 1, m.LevelQ)
			var im *rlwe.Ciphertext
			if two {
				im = ckks.NewCiphertext(params, 1, m.LevelQ)
			}
			err = de.CoeffsToSlots(ct, m, re, im)
		} else {
			var im *rlwe.Ciphertext
			if two {
				im = ct.CopyNew()
			}
			_, err = de.SlotsToCoeffsNew(ct, im, m)
		}
		if err != nil {
			det = "status=" + err.Error()
		}
	}()
	if missing != nil && len(*missing) > 0 {
		det = fmt.Sprintf("missing=%s %s", Vec(*missing), det)
	}
	c.Count("circuits:dft")
	c.Probe("circuit_keys_sufficient", desc, "C11-circuit-keys-dft", det)
}
