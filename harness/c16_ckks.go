package main

// C16, approximate scheme: mpckks EncToShare / ShareToEnc / Refresh / MaskedLinearTransformation.
//
// Exact statements checked here (all on big integers, no floating point):
//   Σ additive shares − phase(ct, Σ s_i)  =  Σ e_i                      |·| ≤ N·(6σ'+1)
//   phase(refresh(ct)) − ⌊phase(ct)·Δ_out/Δ_in⌋ ≈ Σ(e1_i·Δ_out/Δ_in + e2_i) + (N+1) truncations
// "within precision" statements on decoded values are labelled as such.

import (
	"fmt"
	"math"
	"math/big"
	"strings"

	"github.com/tuneinsight/lattigo/v6/core/rlwe"
	"github.com/tuneinsight/lattigo/v6/multiparty"
	"github.com/tuneinsight/lattigo/v6/multiparty/mpckks"
	"github.com/tuneinsight/lattigo/v6/ring"
	"github.com/tuneinsight/lattigo/v6/schemes/ckks"
	"github.com/tuneinsight/lattigo/v6/utils/bignum"
)

type c16CKKSSet struct {
	c14Set
	cp  ckks.Parameters
	enc *ckks.Encoder
}

func c16NewCKKS(name string, logN int, qbits, pbits []int, logScale int) c16CKKSSet {
	base := c14NewSet(name, logN, qbits, pbits)
	cp, err := ckks.NewParametersFromLiteral(ckks.ParametersLiteral{LogN: logN, Q: base.q, P: base.p, LogDefaultScale: logScale})
	if err != nil {
		panic(fmt.Errorf("c16 ckks params %s: %w", name, err))
	}
	base.params = cp.Parameters
	return c16CKKSSet{c14Set: base, cp: cp, enc: ckks.NewEncoder(cp)}
}

var c16CKKSCache []c16CKKSSet

func c16CKKSSets() []c16CKKSSet {
	if c16CKKSCache == nil {
		c16CKKSCache = []c16CKKSSet{
			c16NewCKKS("ckks25", 4, []int{50, 30, 40}, []int{55}, 25),
			c16NewCKKS("ckks30noP", 5, []int{55, 45}, nil, 30),
			c16NewCKKS("ckks20", 5, []int{45, 35, 55}, []int{50, 51}, 20),
		}
	}
	return c16CKKSCache
}

func c16BigVec(v []*big.Int) string {
	if len(v) == 0 {
		return "-"
	}
	parts := make([]string, len(v))
	for i := range v {
		parts[i] = v[i].String()
	}
	return strings.Join(parts, ",")
}

func c16ScaleInt(s rlwe.Scale, up bool) *big.Int {
	i, acc := new(big.Float).SetPrec(256).Set(&s.Value).Int(nil)
	if up && acc == big.Below {
		i.Add(i, big.NewInt(1))
	}
	return i
}

// c16Phase returns the centred coefficients of phase(ct, sk).
func c16Phase(params rlwe.Parameters, ct *rlwe.Ciphertext, sk *rlwe.SecretKey) []*big.Int {
	pt := rlwe.NewPlaintext(params, ct.Level())
	rlwe.NewDecryptor(params, sk).Decrypt(ct, pt)
	r := params.RingQ().AtLevel(ct.Level())
	if pt.IsNTT {
		r.INTT(pt.Value, pt.Value)
	}
	co := make([]*big.Int, r.N())
	for i := range co {
		co[i] = new(big.Int)
	}
	r.PolyToBigintCentered(pt.Value, 1, co)
	return co
}

// c16Mask replays the mask draw of mpckks.EncToShareProtocol.GenShare from its per-call PRNG key.
func c16Mask(mark int, logBound uint, dslots int) []*big.Int {
	prng := TwinPRNG(mark, 0)
	bound := new(big.Int).Lsh(big.NewInt(1), logBound)
	half := new(big.Int).Rsh(bound, 1)
	out := make([]*big.Int, dslots)
	for i := range out {
		out[i] = bignum.RandInt(prng, bound)
		if out[i].Cmp(half) >= 0 {
			out[i].Sub(out[i], bound)
		}
	}
	return out
}

type c16CKKSFunc struct {
	name           string
	decode, encode bool
	f              func([]*bignum.Complex)
}

func c16CKKSFuncs() []c16CKKSFunc {
	scale := func(v []*bignum.Complex) {
		for i := range v {
			v[i][0].Mul(v[i][0], big.NewFloat(0.75))
			v[i][1].Mul(v[i][1], big.NewFloat(0.75))
		}
	}
	rev := func(v []*bignum.Complex) {
		for i, j := 0, len(v)-1; i < j; i, j = i+1, j-1 {
			v[i], v[j] = v[j], v[i]
		}
	}
	return []c16CKKSFunc{
		{"scale_dec_enc", true, true, scale},
		{"reverse_dec_enc", true, true, rev},
		{"scale_coeffs", false, false, scale},
	}
}

func c16CKKS(c *Ctx, ns []int) {
	funcs := c16CKKSFuncs()
	for si, set := range c16CKKSSets() {
		for ni, n := range ns {
			lambda := []int{6, 10}[c.rng.Intn(2)]
			minLevel, logBound, ok := mpckks.GetMinimumLevelForRefresh(lambda, set.cp.DefaultScale(), n, set.q)
			if !ok {
				c.Count("ckks_min_level_not_available")
				continue
			}
			for lin := minLevel; lin <= set.maxQ(); lin++ {
				if !c.Thorough() && (lin+ni+si)%2 == 1 {
					continue
				}
				sigma := []float64{3.2, 25.6}[c.rng.Intn(2)]
				logSlots := set.cp.LogMaxSlots() - c.rng.Intn(3)
				c16CKKSRun(c, set, n, lin, set.maxQ(), sigma, logBound, logSlots, nil, false)
				c16CKKSRun(c, set, n, lin, c.rng.Intn(set.maxQ()+1), sigma, logBound, logSlots, nil, true)
				fn := funcs[c.rng.Intn(len(funcs))]
				c16CKKSRun(c, set, n, lin, set.maxQ(), sigma, logBound, logSlots, &fn, true)
			}
			// a level below the minimum: the mask bound exceeds Q and GenShare must refuse
			c16CKKSTooLow(c, set, n)
		}
	}
}

func c16CKKSTooLow(c *Ctx, set c16CKKSSet, n int) {
	keys := c14GenKeys(set.c14Set, 1)
	ct := c14RandCt(c, set.params, 1, 0)
	*ct.MetaData = *ckks.NewCiphertext(set.cp, 1, 0).MetaData
	e2s, _ := mpckks.NewEncToShareProtocol(set.cp, ring.DiscreteGaussian{Sigma: 3.2, Bound: 19.2})
	logBound := uint(set.params.RingQ().AtLevel(0).ModulusAtLevel[0].BitLen() + 1)
	sec := mpckks.NewAdditiveShare(set.cp, ct.LogSlots())
	pub := e2s.AllocateShare(0)
	detail := ""
	if err := e2s.GenShare(keys.sk[0], logBound, ct, &sec, &pub); err == nil {
		detail = "mask_bound_above_Q_accepted"
	}
	c.Probe("e2s_bound_rejected", fmt.Sprintf("ckks set=%s logBound=%d", set.name, logBound), "C16-ckks-bound", detail)
}

// one run: (refresh=false) EncToShare → GetShare → ShareToEnc with separate protocols,
// (refresh=true) the Refresh / MaskedLinearTransformation protocol.
func c16CKKSRun(c *Ctx, set c16CKKSSet, n, lin, lout int, sigma float64, logBound uint, logSlots int, fn *c16CKKSFunc, refresh bool) {
	params := set.params
	keys := c14GenKeys(set.c14Set, n)
	flood := ring.DiscreteGaussian{Sigma: sigma, Bound: 6 * sigma}
	noise := c16Noise(params, sigma)
	ringQ := params.RingQ()

	// message
	pt := ckks.NewPlaintext(set.cp, set.maxQ())
	pt.LogDimensions.Cols = logSlots
	inScaleLog := set.cp.LogDefaultScale() + []int{0, 0, 3}[c.rng.Intn(3)]
	pt.Scale = rlwe.NewScale(math.Exp2(float64(inScaleLog)))
	values := make([]complex128, pt.Slots())
	for i := range values {
		values[i] = complex(float64(c.rng.Intn(2001)-1000)/1000, float64(c.rng.Intn(2001)-1000)/1000)
	}
	if err := set.enc.Encode(values, pt); err != nil {
		panic(err)
	}
	ct := ckks.NewCiphertext(set.cp, 1, set.maxQ())
	if err := rlwe.NewEncryptor(set.cp, keys.ideal).Encrypt(pt, ct); err != nil {
		panic(err)
	}
	ct.Resize(1, lin)
	dslots := 2 * ct.Slots()
	gap := set.n / dslots
	phaseIn := c16Phase(params, ct, keys.ideal)

	var tf *mpckks.MaskedLinearTransformationFunc
	name := "none"
	if fn != nil {
		tf = &mpckks.MaskedLinearTransformationFunc{Decode: fn.decode, Func: fn.f, Encode: fn.encode}
		name = fn.name
	}

	_, crs := c14CRS(c)
	hdrI := fmt.Sprintf("%s %d %d", Vec(set.qs(lin)), set.n, gap)
	hdrO := fmt.Sprintf("%s %d %d", Vec(set.qs(lout)), set.n, gap)
	c1 := Mat(c16QRows(params, ct.Value[1], lin, true))
	rt := func(x multiparty.KeySwitchShare) (multiparty.KeySwitchShare, error) {
		b, err := x.MarshalBinary()
		if err != nil {
			return x, err
		}
		var y multiparty.KeySwitchShare
		err = y.UnmarshalBinary(b)
		return y, err
	}
	eq := func(x, y multiparty.KeySwitchShare) bool { return x.Value.Equal(&y.Value) }
	label := fmt.Sprintf("ckks set=%s N=%d lin=%d lout=%d sigma=%g logBound=%d logSlots=%d inScale=2^%d f=%s", set.name, n, lin, lout, sigma, logBound, logSlots, inScaleLog, name)
	Bn := c16Bound(noise)

	if !refresh {
		e2s := make([]mpckks.EncToShareProtocol, n)
		s2e := make([]mpckks.ShareToEncProtocol, n)
		tE := make([]ring.Sampler, n)
		tS := make([]ring.Sampler, n)
		for i := range e2s {
			copied := i > 0 && c.rng.Intn(2) == 0
			var err error
			mark := RandMark()
			if !copied {
				if e2s[i], err = mpckks.NewEncToShareProtocol(set.cp, flood); err != nil {
					panic(err)
				}
			} else {
				e2s[i] = e2s[0].ShallowCopy()
			}
			tE[i], _ = ring.NewSampler(TwinPRNG(mark, 0), ringQ, noise, false)
			mark = RandMark()
			if !copied {
				if s2e[i], err = mpckks.NewShareToEncProtocol(set.cp, flood); err != nil {
					panic(err)
				}
			} else {
				s2e[i] = s2e[0].ShallowCopy()
			}
			tS[i], _ = ring.NewSampler(TwinPRNG(mark, 0), ringQ, noise, false)
		}
		pub := make([]multiparty.KeySwitchShare, n)
		sec := make([]multiparty.AdditiveShareBigint, n)
		rows := make([]string, n)
		for i := range e2s {
			pub[i] = e2s[i].AllocateShare(lin)
			sec[i] = mpckks.NewAdditiveShare(set.cp, ct.LogSlots())
			mark := RandMark()
			if err := e2s[i].GenShare(keys.sk[i], logBound, ct, &sec[i], &pub[i]); err != nil {
				panic(err)
			}
			mask := c16Mask(mark, logBound, dslots)
			if c16BigVec(mask) != c16BigVec(sec[i].Value[:dslots]) {
				panic("c16: twin ckks mask differs")
			}
			e := c16SampleSigned(params, tE[i], lin, false)
			c16Record(fmt.Sprintf("ckks_e2s sigma=%g", sigma), e)
			rows[i] = Mat(c16QRows(params, pub[i].Value, lin, true))
			c.Emit(fmt.Sprintf("ckks_e2s %s %s %s %s %s", hdrI, c1, IVec(keys.s[i]), IVec(e), c16BigVec(mask)), rows[i])
			c.Count("ckks_e2s")
		}
		add := func(x, y multiparty.KeySwitchShare) (multiparty.KeySwitchShare, error) {
			o := e2s[0].AllocateShare(x.Level())
			err := e2s[0].AggregateShares(x, y, &o)
			return o, err
		}
		c14OrderProbeKey(c, fmt.Sprintf("ckks_e2s set=%s lvl=%d", set.name, lin), "C16-agg-order", pub, add, rt, eq)
		t := c14RandTree(c, c14RandPerm(c, n))
		agg, _ := c14Eval(t, pub, add)
		aggRows := Mat(c16QRows(params, agg.Value, lin, true))
		c.Emit("agg "+Vec(set.qs(lin))+" "+t.String()+" "+I(n)+" "+strings.Join(rows, " "), aggRows)

		masked := mpckks.NewAdditiveShare(set.cp, ct.LogSlots())
		e2s[0].GetShare(nil, agg, ct, &masked)
		c.Emit(fmt.Sprintf("ckks_get %s %d %s %s", hdrI, dslots, aggRows, Mat(c16QRows(params, ct.Value[0], lin, true))), c16BigVec(masked.Value[:dslots]))
		c.Count("ckks_get")
		own := mpckks.NewAdditiveShare(set.cp, ct.LogSlots())
		e2s[0].GetShare(&sec[0], agg, ct, &own)
		final := append([]multiparty.AdditiveShareBigint{own}, sec[1:]...)

		// e2s_sum: Σ shares − phase = Σ e_i
		bound := big.NewInt(int64(n) * Bn)
		detail := ""
		for j := 0; j < dslots; j++ {
			s := new(big.Int)
			for i := range final {
				s.Add(s, final[i].Value[j])
			}
			s.Sub(s, phaseIn[j*gap])
			if s.CmpAbs(bound) > 0 {
				detail = fmt.Sprintf("coefficient_%d_off_by_%s>bound=%s", j, s, bound)
				break
			}
		}
		c.Probe("e2s_sum", label+" bound="+bound.String()+" within_noise_bound", "C16-ckks-e2s", detail)

		crp := s2e[0].SampleCRP(lout, crs)
		a := Mat(c16QRows(params, crp.Value, lout, true))
		sh := make([]multiparty.KeySwitchShare, n)
		for i := range s2e {
			sh[i] = s2e[i].AllocateShare(lout)
			if err := s2e[i].GenShare(keys.sk[i], crp, ct.MetaData, final[i], &sh[i]); err != nil {
				panic(err)
			}
			e := c16SampleSigned(params, tS[i], lout, false)
			c16Record(fmt.Sprintf("ckks_s2e sigma=%g", sigma), e)
			c.Emit(fmt.Sprintf("ckks_s2e %s %s %s %s %s", hdrO, a, IVec(keys.s[i]), IVec(e), c16BigVec(final[i].Value[:dslots])),
				Mat(c16QRows(params, sh[i].Value, lout, true)))
			c.Count("ckks_s2e")
		}
		addO := func(x, y multiparty.KeySwitchShare) (multiparty.KeySwitchShare, error) {
			o := s2e[0].AllocateShare(x.Level())
			err := s2e[0].AggregateShares(x, y, &o)
			return o, err
		}
		c14OrderProbeKey(c, fmt.Sprintf("ckks_s2e set=%s lvl=%d", set.name, lout), "C16-agg-order", sh, addO, rt, eq)
		aggO, _ := c14Eval(c14RandTree(c, c14RandPerm(c, n)), sh, addO)
		rec := ckks.NewCiphertext(set.cp, 1, lout)
		*rec.MetaData = *ct.MetaData
		detail = ""
		if err := s2e[0].GetEncryption(aggO, crp, rec); err != nil {
			detail = "GetEncryption_error"
		} else {
			bound2 := big.NewInt(2 * int64(n) * Bn)
			ph := c16Phase(params, rec, keys.ideal)
			for j := range ph {
				d := new(big.Int).Sub(ph[j], phaseIn[j])
				if d.CmpAbs(bound2) > 0 {
					detail = fmt.Sprintf("coefficient_%d_off_by_2^%d>bound=%s", j, d.BitLen(), bound2)
					break
				}
			}
		}
		c.Probe("e2s_s2e_id", label+" within_noise_bound", "C16-ckks-s2e", detail)
		return
	}

	// Refresh / masked linear transformation
	// precision of the protocol's big floats: the log-bound itself (as the library tests do) or 64 bits;
	// the internal encoder is built with max(prec, 54) (fixes/C16-4: it only handles []*bignum.Complex above 53 bits)
	prec := logBound
	if c.rng.Intn(2) == 0 && prec < 64 {
		prec = 64
	}
	if fn != nil && fn.decode && logBound <= 53 && n == 1 {
		p53, _ := mpckks.NewMaskedLinearTransformationProtocol(set.cp, set.cp, logBound, flood)
		sh := p53.AllocateShare(lin, lout)
		detail := ""
		if err := p53.GenShare(keys.sk[0], keys.sk[0], logBound, ct, p53.SampleCRP(lout, c16PRNG(c.rng.Bytes(32))), tf, &sh); err != nil {
			detail = "GenShare_error_with_prec<=53"
		}
		c.Probe("transform_prec", fmt.Sprintf("ckks set=%s prec=%d f=%s", set.name, logBound, name), "C16-ckks-transform-prec53", detail)
	}
	protos := make([]mpckks.MaskedLinearTransformationProtocol, n)
	tE := make([]ring.Sampler, n)
	tS := make([]ring.Sampler, n)
	for i := range protos {
		mark := RandMark()
		if i == 0 || c.rng.Intn(2) == 0 {
			var err error
			if protos[i], err = mpckks.NewMaskedLinearTransformationProtocol(set.cp, set.cp, prec, flood); err != nil {
				panic(err)
			}
		} else {
			protos[i] = protos[0].ShallowCopy()
		}
		tE[i], _ = ring.NewSampler(TwinPRNG(mark, 0), ringQ, noise, false)
		tS[i], _ = ring.NewSampler(TwinPRNG(mark, 1), ringQ, noise, false)
	}
	crp := protos[0].SampleCRP(lout, crs)
	a := Mat(c16QRows(params, crp.Value, lout, true))
	defScale := c16ScaleInt(set.cp.DefaultScale(), false)
	inScale := c16ScaleInt(ct.Scale, true)

	shares := make([]multiparty.RefreshShare, n)
	rowsE := make([]string, n)
	rowsS := make([]string, n)
	for i := range protos {
		shares[i] = protos[i].AllocateShare(lin, lout)
		mark := RandMark()
		if err := protos[i].GenShare(keys.sk[i], keys.sk[i], logBound, ct, crp, tf, &shares[i]); err != nil {
			panic(err)
		}
		mask := c16Mask(mark, logBound, dslots)
		e1 := c16SampleSigned(params, tE[i], lin, false)
		e2 := c16SampleSigned(params, tS[i], lout, false)
		c16Record(fmt.Sprintf("ckks_refresh sigma=%g", sigma), e1)
		c16Record(fmt.Sprintf("ckks_refresh sigma=%g", sigma), e2)
		rowsE[i] = Mat(c16QRows(params, shares[i].EncToShareShare.Value, lin, true))
		rowsS[i] = Mat(c16QRows(params, shares[i].ShareToEncShare.Value, lout, true))
		c.Emit(fmt.Sprintf("ckks_e2s %s %s %s %s %s", hdrI, c1, IVec(keys.s[i]), IVec(e1), c16BigVec(mask)), rowsE[i])
		mask2 := c16CKKSTransform(set, fn, prec, ct.MetaData, mask, defScale, inScale)
		if fn == nil {
			c.Emit(fmt.Sprintf("ckks_scale %s %s %s", defScale, inScale, c16BigVec(mask)), c16BigVec(mask2))
		}
		c.Emit(fmt.Sprintf("ckks_s2e %s %s %s %s %s", hdrO, a, IVec(keys.s[i]), IVec(e2), c16BigVec(mask2)), rowsS[i])
		c.Count("ckks_refresh_share")
	}
	add := func(x, y multiparty.RefreshShare) (multiparty.RefreshShare, error) {
		o := protos[0].AllocateShare(lin, lout)
		err := protos[0].AggregateShares(&x, &y, &o)
		o.MetaData = x.MetaData
		return o, err
	}
	rtR := func(x multiparty.RefreshShare) (multiparty.RefreshShare, error) {
		b, err := x.MarshalBinary()
		if err != nil {
			return x, err
		}
		var y multiparty.RefreshShare
		err = y.UnmarshalBinary(b)
		return y, err
	}
	eqR := func(x, y multiparty.RefreshShare) bool {
		return x.EncToShareShare.Value.Equal(&y.EncToShareShare.Value) && x.ShareToEncShare.Value.Equal(&y.ShareToEncShare.Value)
	}
	c14OrderProbeKey(c, fmt.Sprintf("ckks_refresh set=%s lin=%d lout=%d", set.name, lin, lout), "C16-agg-order", shares, add, rtR, eqR)
	t := c14RandTree(c, c14RandPerm(c, n))
	agg, _ := c14Eval(t, shares, add)
	aggE := Mat(c16QRows(params, agg.EncToShareShare.Value, lin, true))
	aggS := Mat(c16QRows(params, agg.ShareToEncShare.Value, lout, true))
	c.Emit("agg "+Vec(set.qs(lin))+" "+t.String()+" "+I(n)+" "+strings.Join(rowsE, " "), aggE)
	c.Emit("agg "+Vec(set.qs(lout))+" "+t.String()+" "+I(n)+" "+strings.Join(rowsS, " "), aggS)

	// aggregated into a freshly allocated share the MetaData is not carried over
	c16RefreshMetaProbe(c, label, func() error {
		addRaw := func(x, y multiparty.RefreshShare) (multiparty.RefreshShare, error) {
			o := protos[0].AllocateShare(lin, lout)
			return o, protos[0].AggregateShares(&x, &y, &o)
		}
		ag, err := c14Eval(c14Comb(c14RandPerm(c, n)), shares, addRaw)
		if err != nil {
			return err
		}
		return protos[0].Transform(ct.CopyNew(), tf, crp, ag, ckks.NewCiphertext(set.cp, 1, set.maxQ()))
	}, n)

	e2s, _ := mpckks.NewEncToShareProtocol(set.cp, flood)
	maskedShare := mpckks.NewAdditiveShare(set.cp, ct.LogSlots())
	e2s.GetShare(nil, agg.EncToShareShare, ct, &maskedShare)
	masked := maskedShare.Value[:dslots]

	out := ckks.NewCiphertext(set.cp, 1, set.maxQ())
	ctIn := ct.CopyNew()
	res := Try(func() string {
		if err := protos[0].Transform(ctIn, tf, crp, agg, out); err != nil {
			return "err"
		}
		return c16BigVec(masked) + "|" + Mat(c16QRows(params, out.Value[0], lout, true)) + "|" + Mat(c16QRows(params, out.Value[1], lout, true))
	})
	if fn == nil {
		c.Emit(fmt.Sprintf("ckks_fin %s %s %d %d %d %s %s %s %s %s %s", Vec(set.qs(lin)), Vec(set.qs(lout)), set.n, gap, dslots,
			aggE, Mat(c16QRows(params, ct.Value[0], lin, true)), aggS, a, defScale, inScale), res)
		c.Count("ckks_fin")
	}

	probe, key := "refresh_roundtrip", "C16-ckks-refresh"
	if fn != nil {
		probe, key = "transform_applies_f", "C16-ckks-transform"
	}
	detail := Try(func() string {
		if res == "err" || res == "panic" {
			return "Transform_" + res
		}
		if out.Level() != lout {
			return fmt.Sprintf("level=%d_want=%d", out.Level(), lout)
		}
		if out.Scale.Cmp(set.cp.DefaultScale()) != 0 {
			return "output_scale_is_not_the_default_scale"
		}
		ratio := math.Exp2(float64(set.cp.LogDefaultScale() - inScaleLog))
		if fn == nil {
			// exact: phase_out − phase_in·Δout/Δin within N·(B·ratio + B) + N + 2
			bound := big.NewInt(int64(float64(int64(n)*Bn)*(ratio+1)) + int64(n) + 2)
			ph := c16Phase(params, out, keys.ideal)
			for j := range ph {
				want := new(big.Int).Mul(phaseIn[j], defScale)
				want.Quo(want, inScale)
				d := new(big.Int).Sub(ph[j], want)
				if j%gap != 0 {
					d = ph[j] // positions outside the sparse embedding carry re-encryption noise only
				}
				if d.CmpAbs(bound) > 0 {
					return fmt.Sprintf("coefficient_%d_off_by_2^%d>bound=%s", j, d.BitLen(), bound)
				}
			}
		}
		// within precision (labelled): decoded slots
		have := make([]complex128, len(values))
		if err := set.enc.Decode(rlwe.NewDecryptor(set.cp, keys.ideal).DecryptNew(out), have); err != nil {
			return "decode_error"
		}
		want := make([]*bignum.Complex, len(values))
		for i := range want {
			want[i] = &bignum.Complex{new(big.Float).SetFloat64(real(values[i])), new(big.Float).SetFloat64(imag(values[i]))}
		}
		if fn != nil {
			if !(fn.decode && fn.encode) {
				return "" // functions on raw coefficients: covered by the share ties only
			}
			fn.f(want)
		}
		// coefficient noise ≤ nb; a slot is a sum of N_ring coefficients
		nb := float64(int64(n)*Bn)*(ratio+1) + float64(n) + 2 + float64(set.n)*21
		tol := nb * float64(set.n) * 4 / math.Exp2(float64(set.cp.LogDefaultScale()))
		for i := range want {
			re, _ := want[i][0].Float64()
			im, _ := want[i][1].Float64()
			if math.Abs(re-real(have[i])) > tol || math.Abs(im-imag(have[i])) > tol {
				return fmt.Sprintf("slot_%d_differs_by_more_than_tolerance", i)
			}
		}
		return ""
	})
	c.Probe(probe, label+" within_precision", key, detail)
}

func c16RefreshMetaProbe(c *Ctx, label string, f func() error, n int) {
	if n < 2 {
		return
	}
	detail := Try(func() string {
		if err := f(); err != nil {
			return "Transform_rejects_the_aggregate:MetaData_not_aggregated"
		}
		return ""
	})
	c.Probe("refresh_agg_fresh_receiver", strings.Fields(label)[0]+" "+strings.Fields(label)[1]+fmt.Sprintf(" N=%d", n), "C16-refresh-agg-metadata", detail)
}

// c16CKKSTransform replays MaskedLinearTransformationProtocol.applyTransformAndScale (mpckks/transform.go)
// on a copy of the mask: optional FFT → f → IFFT on the encoder's big floats, then
// mask·defaultScale / inputScale with big.Int.Quo.
func c16CKKSTransform(set c16CKKSSet, fn *c16CKKSFunc, prec uint, md *rlwe.MetaData, maskIn []*big.Int, defScale, inScale *big.Int) []*big.Int {
	mask := make([]*big.Int, len(maskIn))
	for i := range mask {
		mask[i] = new(big.Int).Set(maskIn[i])
	}
	slots := md.Slots()
	if fn != nil {
		encPrec := prec
		if encPrec < 54 {
			encPrec = 54
		}
		enc := ckks.NewEncoder(set.cp, encPrec)
		bc := make([]*bignum.Complex, slots)
		for i := range bc {
			bc[i] = bignum.NewComplex()
			bc[i][0].SetPrec(prec)
			bc[i][1].SetPrec(prec)
		}
		for i := 0; i < slots; i++ {
			bc[i][0].SetInt(mask[i])
		}
		for i, j := 0, slots; i < slots; i, j = i+1, j+1 {
			bc[i][1].SetInt(mask[j])
		}
		if fn.decode {
			if err := enc.FFT(bc, md.LogSlots()); err != nil {
				panic(err)
			}
		}
		fn.f(bc)
		if fn.encode {
			if err := enc.IFFT(bc, md.LogSlots()); err != nil {
				panic(err)
			}
		}
		for i := 0; i < slots; i++ {
			bc[i].Real().Int(mask[i])
		}
		for i, j := 0, slots; i < slots; i, j = i+1, j+1 {
			bc[i].Imag().Int(mask[j])
		}
	}
	for i := range mask {
		mask[i].Mul(mask[i], defScale)
		mask[i].Quo(mask[i], inScale)
	}
	return mask
}
