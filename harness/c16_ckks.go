package main

// C16, approximate scheme: mpckks EncToShare / ShareToEnc / Refresh / MaskedLinearTransformation.
//
// Exact statements checked here (all on big integers, no floating point):
//   Σ additive shares − phase(ct, Σ s_i)  =  Σ e_i                      |·| ≤ N·(6σ'+1)
//   phase(refresh(ct)) − ⌊phase(ct)·Δ_out/Δ_in⌋ ≈ Σ(e1_i·Δ_out/Δ_in + e2_i) + (N+1) truncations
// "within precision" statements on decoded values are labelled as such.

import (
	"fmt"
	"math"
	"math/big"
	"math/cmplx"
	"strings"

	"github.com/tuneinsight/lattigo/v6/core/rlwe"
	"github.com/tuneinsight/lattigo/v6/multiparty"
	"github.com/tuneinsight/lattigo/v6/multiparty/mpckks"
	"github.com/tuneinsight/lattigo/v6/ring"
	"github.com/tuneinsight/lattigo/v6/schemes/ckks"
	"github.com/tuneinsight/lattigo/v6/utils/bignum"
)

type c16CKKSSet struct {
	c14Set
	cp  ckks.Parameters
	enc *ckks.Encoder
}

func c16NewCKKS(name string, logN int, qbits, pbits []int, logScale int) c16CKKSSet {
	base := c14NewSet(name, logN, qbits, pbits)
	cp, err := ckks.NewParametersFromLiteral(ckks.ParametersLiteral{LogN: logN, Q: base.q, P: base.p, LogDefaultScale: logScale})
	if err != nil {
		panic(fmt.Errorf("c16 ckks params %s: %w", name, err))
	}
	base.params = cp.Parameters
	return c16CKKSSet{c14Set: base, cp: cp, enc: ckks.NewEncoder(cp)}
}

// c16PrimeAbove returns the (skip+1)-th prime ≡ 1 mod twoN above 2^bits.
func c16PrimeAbove(bits int, twoN uint64, skip int) uint64 {
	c := (uint64(1) << uint(bits)) + 1
	for {
		if ring.IsPrime(c) {
			if skip == 0 {
				return c
			}
			skip--
		}
		c += twoN
	}
}

func c16NewCKKSFromPrimes(name string, logN int, q, p []uint64, logScale int) c16CKKSSet {
	cp, err := ckks.NewParametersFromLiteral(ckks.ParametersLiteral{LogN: logN, Q: q, P: p, LogDefaultScale: logScale})
	if err != nil {
		panic(fmt.Errorf("c16 ckks params %s: %w", name, err))
	}
	base := c14Set{name: name, params: cp.Parameters, n: 1 << logN, q: q, p: p}
	return c16CKKSSet{c14Set: base, cp: cp, enc: ckks.NewEncoder(cp)}
}

func c16FloorLog2(n int) int {
	k := 0
	for n > 1 {
		n >>= 1
		k++
	}
	return k
}

// c16MinLevelExact: the documented computation in integer arithmetic (same as the Lean model).
func c16MinLevelExact(lambda int, scale uint64, n int, moduli []uint64) (int, uint, bool) {
	clog := func(x uint64) uint {
		k := uint(0)
		for k < 64 && uint64(1)<<k < x {
			k++
		}
		return k
	}
	lb := uint(lambda) + clog(scale)
	bound := new(big.Int).Lsh(big.NewInt(1), lb+clog(uint64(n)))
	q := big.NewInt(1)
	ml := -1
	for i := 0; q.Cmp(bound) < 0; i++ {
		if i >= len(moduli) {
			return 0, 0, false
		}
		q.Mul(q, new(big.Int).SetUint64(moduli[i]))
		ml++
	}
	return ml, lb, true
}

// c16MinLevelLine ties GetMinimumLevelForRefresh to the exact-arithmetic model.  When a cumulative
// modulus lies within 2^-40 (relative) of the bound 2^(logBound + ⌈log2 n⌉) the code's float64
// logarithms cannot separate them: those points are checked by a probe (finding key
// C16-ckks-minlevel-float) instead of a tie line.
func c16MinLevelLine(c *Ctx, lambda int, scale uint64, n int, moduli []uint64) (int, uint, bool) {
	ml, lb, ok := mpckks.GetMinimumLevelForRefresh(lambda, rlwe.NewScale(scale), n, moduli)
	eml, elb, eok := c16MinLevelExact(lambda, scale, n, moduli)
	near := false
	B := int(elb) + c16FloorLog2(2*n-1) // logBound + ⌈log2 n⌉ (valid also when no level exists)
	if !eok {
		cl := uint(0)
		for uint64(1)<<cl < scale {
			cl++
		}
		B = lambda + int(cl) + c16FloorLog2(2*n-1)
	}
	q := big.NewInt(1)
	for _, m := range moduli {
		q.Mul(q, new(big.Int).SetUint64(m))
		d := new(big.Int).Sub(q, new(big.Int).Lsh(big.NewInt(1), uint(B)))
		d.Abs(d)
		if B >= 40 && d.Cmp(new(big.Int).Lsh(big.NewInt(1), uint(B-40))) < 0 {
			near = true
		}
	}
	if near {
		detail := ""
		if ml != eml || lb != elb || ok != eok {
			detail = fmt.Sprintf("float_result=(%d,%d,%t)_exact=(%d,%d,%t)", ml, lb, ok, eml, elb, eok)
		}
		c.Probe("min_level_exact", fmt.Sprintf("ckks lambda=%d scale=%d N=%d moduli=%s", lambda, scale, n, Vec(moduli)), "C16-ckks-minlevel-float", detail)
		return ml, lb, ok
	}
	okTok := 0
	if ok {
		okTok = 1
	}
	c.Emit(fmt.Sprintf("ckks_minlevel %d %d %d %s", lambda, scale, n, Vec(moduli)), fmt.Sprintf("%d %d %d", ml, lb, okTok))
	c.Count("ckks_minlevel")
	return ml, lb, ok
}

// c16NoWrapLine: GetMinimumLevelForRefresh plus the centred-mask no-wrap condition at the returned level,
// 2·(n·2^(logBound-1) + 2^msgBits) < Q_minLevel, tied to the Lean model (`noWrapAtMinLevel`).
func c16NoWrapLine(c *Ctx, lambda int, scale uint64, n int, moduli []uint64, msgBits int) (int, uint, bool, bool) {
	ml, lb, ok := c16MinLevelLine(c, lambda, scale, n, moduli)
	eml, elb, eok := c16MinLevelExact(lambda, scale, n, moduli)
	if !ok || ml != eml || lb != elb || ok != eok {
		return ml, lb, ok, false
	}
	q := big.NewInt(1)
	for _, m := range moduli[:ml+1] {
		q.Mul(q, new(big.Int).SetUint64(m))
	}
	h := uint(0)
	if lb > 0 {
		h = lb - 1
	}
	need := new(big.Int).Lsh(big.NewInt(int64(n)), h)
	need.Add(need, new(big.Int).Lsh(big.NewInt(1), uint(msgBits)))
	need.Lsh(need, 1)
	nowrap := need.Cmp(q) < 0
	tok := 0
	if nowrap {
		tok = 1
	}
	c.Emit(fmt.Sprintf("ckks_nowrap %d %d %d %s %d", lambda, scale, n, Vec(moduli), msgBits), fmt.Sprintf("%d %d 1 %d", ml, lb, tok))
	c.Count("ckks_nowrap")
	return ml, lb, ok, nowrap
}

func c16CumBits(moduli []uint64, l int) int {
	q := big.NewInt(1)
	for _, m := range moduli[:l+1] {
		q.Mul(q, new(big.Int).SetUint64(m))
	}
	return q.BitLen() - 1 // floor(log2 Q_l)
}

// c16MinLevelTies: party counts 1..8 × scales × λ × chains, including for every level l and every
// non-power-of-two party count the λ that puts 2^(logBound + ⌊log2 n⌋) ≤ Q_l < 2^(logBound + ⌈log2 n⌉)
// (the window where rounding log2(nParties) down instead of up returns a level that is too low), ±1.
func c16MinLevelTies(c *Ctx) {
	chains := [][]uint64{}
	for _, set := range c16CKKSSets() {
		chains = append(chains, set.q)
	}
	chains = append(chains,
		[]uint64{c16PrimeAbove(54, 32, 0), c16PrimeAbove(40, 32, 0), c16PrimeAbove(40, 32, 1), c16PrimeAbove(40, 32, 2)},
		[]uint64{c14Prime(54, 32, 0), c14Prime(40, 32, 0), c14Prime(40, 32, 1), c14Prime(40, 32, 2), c14Prime(40, 32, 3)},
		[]uint64{c16PrimeAbove(20, 32, 0), c16PrimeAbove(20, 32, 1), c14Prime(21, 32, 0), c16PrimeAbove(22, 32, 0), c14Prime(25, 32, 0), c16PrimeAbove(30, 32, 0)},
		[]uint64{c14Prime(61, 32, 0)},
	)
	scales := []uint64{1, 1 << 20, 1 << 25, (1 << 25) + 1, (1 << 25) - 1, 1 << 30, 1 << 45, 786433}
	for ci, chain := range chains {
		for si, scale := range scales {
			if !c.Thorough() && (ci+si)%3 != 0 {
				continue
			}
			ceilLogScale := 0
			for uint64(1)<<uint(ceilLogScale) < scale {
				ceilLogScale++
			}
			for n := 1; n <= 8; n++ {
				for _, lambda := range []int{0, 1, 6, 10, 40, 128} {
					c16MinLevelLine(c, lambda, scale, n, chain)
				}
				for l := range chain {
					for d := -1; d <= 1; d++ {
						lambda := c16CumBits(chain, l) - c16FloorLog2(n) - ceilLogScale + d
						if lambda >= 0 {
							c16MinLevelLine(c, lambda, scale, n, chain)
							c.Count("ckks_minlevel_engineered")
						}
					}
				}
			}
		}
	}
}

// c16CKKSOutSets: output parameters (same ring degree, other moduli, other default scale) per input set
var c16CKKSOutCache map[string]*c16CKKSSet

func c16CKKSOutFor(set c16CKKSSet) *c16CKKSSet {
	if c16CKKSOutCache == nil {
		o4 := c16NewCKKS("out4", 4, []int{45, 38, 52}, []int{54}, 30)
		o5 := c16NewCKKS("out5", 5, []int{50, 40}, nil, 22)
		c16CKKSOutCache = map[string]*c16CKKSSet{"4": &o4, "5": &o5}
	}
	return c16CKKSOutCache[I(set.params.LogN())]
}

var c16CKKSCache []c16CKKSSet

func c16CKKSSets() []c16CKKSSet {
	if c16CKKSCache == nil {
		c16CKKSCache = []c16CKKSSet{
			c16NewCKKS("ckks25", 4, []int{50, 30, 40}, []int{55}, 25),
			c16NewCKKS("ckks30noP", 5, []int{55, 45}, nil, 30),
			c16NewCKKS("ckks20", 5, []int{45, 35, 55}, []int{50, 51}, 20),
			// primes just ABOVE powers of two: the cumulative moduli sit at the low end of a one-bit window
			// tight chain: 55+40+40+40-bit primes just above the powers of two, scale 2^45 (masks of up to 173 bits)
			c16NewCKKSFromPrimes("ckksTight", 4, []uint64{c16PrimeAbove(55, 32, 0), c16PrimeAbove(40, 32, 0), c16PrimeAbove(40, 32, 1), c16PrimeAbove(40, 32, 2)}, []uint64{c14Prime(56, 32, 0)}, 45),
			c16NewCKKSFromPrimes("ckksEdge", 4, []uint64{c16PrimeAbove(50, 32, 0), c16PrimeAbove(31, 32, 0), c16PrimeAbove(40, 32, 0)}, []uint64{c14Prime(56, 32, 0)}, 25),
		}
	}
	return c16CKKSCache
}

func c16BigVec(v []*big.Int) string {
	if len(v) == 0 {
		return "-"
	}
	parts := make([]string, len(v))
	for i := range v {
		parts[i] = v[i].String()
	}
	return strings.Join(parts, ",")
}

func c16ScaleInt(s rlwe.Scale, up bool) *big.Int {
	i, acc := new(big.Float).SetPrec(256).Set(&s.Value).Int(nil)
	if up && acc == big.Below {
		i.Add(i, big.NewInt(1))
	}
	return i
}

// c16Phase returns the centred coefficients of phase(ct, sk).
func c16Phase(params rlwe.Parameters, ct *rlwe.Ciphertext, sk *rlwe.SecretKey) []*big.Int {
	pt := rlwe.NewPlaintext(params, ct.Level())
	rlwe.NewDecryptor(params, sk).Decrypt(ct, pt)
	r := params.RingQ().AtLevel(ct.Level())
	if pt.IsNTT {
		r.INTT(pt.Value, pt.Value)
	}
	co := make([]*big.Int, r.N())
	for i := range co {
		co[i] = new(big.Int)
	}
	r.PolyToBigintCentered(pt.Value, 1, co)
	return co
}

// c16Mask replays the mask draw of mpckks.EncToShareProtocol.GenShare from its per-call PRNG key.
func c16Mask(mark int, logBound uint, dslots int) []*big.Int {
	prng := TwinPRNG(mark, 0)
	bound := new(big.Int).Lsh(big.NewInt(1), logBound)
	half := new(big.Int).Rsh(bound, 1)
	out := make([]*big.Int, dslots)
	for i := range out {
		out[i] = bignum.RandInt(prng, bound)
		if out[i].Cmp(half) >= 0 {
			out[i].Sub(out[i], bound)
		}
	}
	return out
}

type c16CKKSFunc struct {
	name           string
	decode, encode bool
	f              func([]*bignum.Complex)
}

func c16CKKSFuncs() []c16CKKSFunc {
	scale := func(v []*bignum.Complex) {
		for i := range v {
			v[i][0].Mul(v[i][0], big.NewFloat(0.75))
			v[i][1].Mul(v[i][1], big.NewFloat(0.75))
		}
	}
	rev := func(v []*bignum.Complex) {
		for i, j := 0, len(v)-1; i < j; i, j = i+1, j-1 {
			v[i], v[j] = v[j], v[i]
		}
	}
	return []c16CKKSFunc{
		{"scale_dec_enc", true, true, scale},
		{"reverse_dec_enc", true, true, rev},
		{"scale_coeffs", false, false, scale},
	}
}

// c16CKKSScratch: ShallowCopy of every mpckks protocol shares no scratch buffer (polynomials, big integers) with the original
func c16CKKSScratch(c *Ctx, set c16CKKSSet) {
	flood := ring.DiscreteGaussian{Sigma: 3.2, Bound: 19.2}
	e2s, _ := mpckks.NewEncToShareProtocol(set.cp, flood)
	c14SharedScratch(c, "C16", "mpckks.EncToShareProtocol", e2s, e2s.ShallowCopy())
	s2e, _ := mpckks.NewShareToEncProtocol(set.cp, flood)
	c14SharedScratch(c, "C16", "mpckks.ShareToEncProtocol", s2e, s2e.ShallowCopy())
	mt, _ := mpckks.NewMaskedLinearTransformationProtocol(set.cp, set.cp, 64, flood)
	mc := mt.ShallowCopy()
	c14SharedScratch(c, "C16", "mpckks.MaskedLinearTransformationProtocol", mt, mc)
	c14SharedScratch(c, "C16", "mpckks.MaskedLinearTransformationProtocol(copy_of_copy)", mc, mc.ShallowCopy())
	c14SharedScratch(c, "C16", "mpckks.MaskedLinearTransformationProtocol.WithParams", mt, mt.WithParams(set.cp))
	rf, _ := mpckks.NewRefreshProtocol(set.cp, 64, flood)
	c14SharedScratch(c, "C16", "mpckks.RefreshProtocol", rf, rf.ShallowCopy())
}

// c16CKKSHalfRing: masked transform from ring degree 2N to N with a ciphertext that has MORE slots than the output ring
// supports: an error is expected (the transform cannot be carried out), not a panic.
func c16CKKSHalfRing(c *Ctx) {
	in := c16NewCKKS("ckksIn5", 5, []int{50, 45}, []int{55}, 25)
	out := c16NewCKKS("ckksOut4", 4, []int{50, 45}, []int{55}, 25)
	flood := ring.DiscreteGaussian{Sigma: 3.2, Bound: 19.2}
	for _, logSlots := range []int{out.cp.LogMaxSlots(), in.cp.LogMaxSlots()} {
		p, err := mpckks.NewMaskedLinearTransformationProtocol(in.cp, out.cp, 64, flood)
		if err != nil {
			panic(err)
		}
		kIn, kOut := c14GenKeys(in.c14Set, 1), c14GenKeys(out.c14Set, 1)
		pt := ckks.NewPlaintext(in.cp, in.maxQ())
		pt.LogDimensions.Cols = logSlots
		values := make([]complex128, pt.Slots())
		for i := range values {
			values[i] = complex(float64(i%7)/8, float64(i%5)/8)
		}
		_ = in.enc.Encode(values, pt)
		ct := ckks.NewCiphertext(in.cp, 1, in.maxQ())
		_ = rlwe.NewEncryptor(in.cp, kIn.ideal).Encrypt(pt, ct)
		_, crs := c14CRS(c)
		tooMany := logSlots > out.cp.LogMaxSlots()
		v := Try(func() string {
			crp := p.SampleCRP(out.maxQ(), crs)
			sh := p.AllocateShare(in.maxQ(), out.maxQ())
			if err := p.GenShare(kIn.sk[0], kOut.sk[0], 40, ct, crp, nil, &sh); err != nil {
				return "err"
			}
			res := ckks.NewCiphertext(out.cp, 1, out.maxQ())
			if err := p.Transform(ct, nil, crp, sh, res); err != nil {
				return "err"
			}
			have := make([]complex128, len(values))
			if err := out.enc.Decode(rlwe.NewDecryptor(out.cp, kOut.ideal).DecryptNew(res), have); err != nil {
				return "decode_error"
			}
			for i := range have {
				if math.Abs(real(have[i])-real(values[i])) > 1e-3 || math.Abs(imag(have[i])-imag(values[i])) > 1e-3 {
					return "refreshed_values_differ"
				}
			}
			return "ok"
		})
		detail := ""
		switch {
		case tooMany && v != "err":
			detail = "more_slots_than_the_output_ring:" + v + "_instead_of_error"
		case !tooMany && v != "ok":
			detail = v
		}
		c.Probe("transform_half_ring", fmt.Sprintf("ckks logN=5->4 logSlots=%d within_precision", logSlots), "C16-ckks-halfring-slots", detail)
	}
}

func c16CKKS(c *Ctx, ns []int) {
	funcs := c16CKKSFuncs()
	c14Guard(c, "C16-harness-panic", "c16CKKSHalfRing", func() { c16CKKSHalfRing(c) })
	for _, set := range c16CKKSSets() {
		c14Guard(c, "C16-harness-panic", "c16CKKSScratch", func() { c16CKKSScratch(c, set) })
	}
	c16MinLevelTies(c)
	for si, set := range c16CKKSSets() {
		// at the returned minimum level, for non-power-of-two party counts, with λ chosen so that
		// 2^(logBound + ⌊log2 n⌋) ≤ Q_l < 2^(logBound + ⌈log2 n⌉) for some level l
		for _, n := range []int{3, 5, 6, 7} {
			if !c.Thorough() && n > 5 {
				continue
			}
			for l := 0; l < set.maxQ(); l++ {
				lambda := c16CumBits(set.q, l) - c16FloorLog2(n) - set.cp.LogDefaultScale()
				if lambda < 6 {
					c.Count("ckks_min_level_engineered_skipped(lambda<6)")
					continue
				}
				ml, lb, ok := c16MinLevelLine(c, lambda, uint64(1)<<uint(set.cp.LogDefaultScale()), n, set.q)
				detail := ""
				if !ok {
					detail = "no_level_found"
				} else {
					need := new(big.Int).Lsh(big.NewInt(int64(n)), lb)
					if set.params.RingQ().AtLevel(ml).ModulusAtLevel[ml].Cmp(need) < 0 {
						detail = fmt.Sprintf("Q_level_%d_below_nParties*2^logBound", ml)
					}
				}
				c.Probe("min_level_holds_masks", fmt.Sprintf("ckks set=%s N=%d lambda=%d window_level=%d minLevel=%d logBound=%d", set.name, n, lambda, l, ml, lb), "C16-ckks-minlevel", detail)
				if ok && ml <= set.maxQ() {
					for rep := 0; rep < c.Scale(2, 4); rep++ {
						c14Guard(c, "C16-harness-panic", "c16CKKSRun", func() { c16CKKSRun(c, set, n, ml, set.maxQ(), 3.2, lb, set.cp.LogMaxSlots(), nil, false) })
						c14Guard(c, "C16-harness-panic", "c16CKKSRun", func() { c16CKKSRun(c, set, n, ml, set.maxQ(), 3.2, lb, set.cp.LogMaxSlots(), nil, true) })
					}
					c.Count("ckks_runs_at_engineered_min_level")
				}
			}
		}
		// input EXACTLY at the returned minimum level, 1..8 parties, λ chosen so that level l is the minimum level:
		// logBound + ⌈log2 n⌉ = ⌊log2 Q_l⌋ (the tightest case the function allows)
		for n := 1; n <= 8; n++ {
			for l := 0; l <= set.maxQ(); l++ {
				if !c.Thorough() && l != set.maxQ() && l != n%(set.maxQ()+1) {
					continue
				}
				lambda := c16CumBits(set.q, l) - c16FloorLog2(2*n-1) - set.cp.LogDefaultScale()
				if lambda < 6 {
					c.Count("ckks_tight_skipped(lambda<6)")
					continue
				}
				ml, lb, ok, nowrap := c16NoWrapLine(c, lambda, uint64(1)<<uint(set.cp.LogDefaultScale()), n, set.q, set.cp.LogDefaultScale()+5)
				if !ok || ml != l {
					c.Count("ckks_tight_level_not_minimal")
					continue
				}
				if !nowrap {
					// Q_min ≥ n·2^logBound holds, but without room for the message: outside the no-wrap condition
					c.Count("ckks_tight_level_without_slack_for_the_message")
					continue
				}
				lab := fmt.Sprintf("ckks tight set=%s N=%d level=%d lambda=%d logBound=%d", set.name, n, l, lambda, lb)
				c14Guard(c, "C16-ckks-tight-run", lab, func() {
					c14Guard(c, "C16-harness-panic", "c16CKKSRun", func() { c16CKKSRun(c, set, n, ml, set.maxQ(), 3.2, lb, set.cp.LogMaxSlots(), nil, false) })
					c14Guard(c, "C16-harness-panic", "c16CKKSRun", func() { c16CKKSRun(c, set, n, ml, set.maxQ(), 3.2, lb, set.cp.LogMaxSlots(), nil, true) })
				})
				c.Count("ckks_runs_exactly_at_min_level")
			}
		}
		for ni, n := range ns {
			lambda := []int{6, 10}[c.rng.Intn(2)]
			minLevel, logBound, ok := mpckks.GetMinimumLevelForRefresh(lambda, set.cp.DefaultScale(), n, set.q)
			if !ok {
				c.Count("ckks_min_level_not_available")
				continue
			}
			for lin := minLevel; lin <= set.maxQ(); lin++ {
				if !c.Thorough() && (lin+ni+si)%2 == 1 {
					continue
				}
				sigma := c16PickSigma(c, math.Inf(1))
				logSlots := set.cp.LogMaxSlots() - c.rng.Intn(3)
				c14Guard(c, "C16-harness-panic", "c16CKKSRun", func() { c16CKKSRun(c, set, n, lin, set.maxQ(), sigma, logBound, logSlots, nil, false) })
				c14Guard(c, "C16-harness-panic", "c16CKKSRun", func() { c16CKKSRun(c, set, n, lin, c.rng.Intn(set.maxQ()+1), sigma, logBound, logSlots, nil, true) })
				fn := funcs[c.rng.Intn(len(funcs))]
				c14Guard(c, "C16-harness-panic", "c16CKKSRun", func() { c16CKKSRun(c, set, n, lin, set.maxQ(), sigma, logBound, logSlots, &fn, true) })
			}
			_ = 0
			// output parameters ≠ input parameters (other moduli, other default scale), via the constructor and via WithParams
			for _, wp := range []bool{false, true} {
				c16OutSet, c16UseWithParams = c16CKKSOutFor(set), wp
				lo := c.rng.Intn(c16OutSet.maxQ() + 1)
				c14Guard(c, "C16-harness-panic", "c16CKKSRun", func() {
					c16CKKSRun(c, set, n, set.maxQ(), lo, c16PickSigma(c, math.Inf(1)), logBound, set.cp.LogMaxSlots(), nil, true)
				})
				if c.Thorough() || wp {
					fn := funcs[c.rng.Intn(len(funcs))]
					c14Guard(c, "C16-harness-panic", "c16CKKSRun", func() {
						c16CKKSRun(c, set, n, minLevel, c16OutSet.maxQ(), c16PickSigma(c, math.Inf(1)), logBound, set.cp.LogMaxSlots()-1, &fn, true)
					})
				}
				c16OutSet, c16UseWithParams = nil, false
			}
			// every (Decode, Encode) × input IsBatched, same and other output parameters, full and sparse packing
			if ni < 2 || c.Thorough() {
				for _, os := range []c16CKKSSet{set, *c16CKKSOutFor(set)} {
					for _, ls := range []int{set.cp.LogMaxSlots(), set.cp.LogMaxSlots() - 1} {
						c14Guard(c, "C16-harness-panic", "c16CKKSFlagMatrix", func() { c16CKKSFlagMatrix(c, set, os, n, ls) })
					}
				}
			}
			// a level below the minimum: the mask bound exceeds Q and GenShare must refuse
			c14Guard(c, "C16-harness-panic", "c16CKKSTooLow", func() { c16CKKSTooLow(c, set, n) })
		}
	}
}

func c16CKKSTooLow(c *Ctx, set c16CKKSSet, n int) {
	keys := c14GenKeys(set.c14Set, 1)
	ct := c14RandCt(c, set.params, 1, 0)
	*ct.MetaData = *ckks.NewCiphertext(set.cp, 1, 0).MetaData
	e2s, _ := mpckks.NewEncToShareProtocol(set.cp, ring.DiscreteGaussian{Sigma: 3.2, Bound: 19.2})
	logBound := uint(set.params.RingQ().AtLevel(0).ModulusAtLevel[0].BitLen() + 1)
	sec := mpckks.NewAdditiveShare(set.cp, ct.LogSlots())
	pub := e2s.AllocateShare(0)
	detail := ""
	if err := e2s.GenShare(keys.sk[0], logBound, ct, &sec, &pub); err == nil {
		detail = "mask_bound_above_Q_accepted"
	}
	c.Probe("e2s_bound_rejected", fmt.Sprintf("ckks set=%s logBound=%d", set.name, logBound), "C16-ckks-bound", detail)
}

// one run: (refresh=false) EncToShare → GetShare → ShareToEnc with separate protocols,
// (refresh=true) the Refresh / MaskedLinearTransformation protocol.
func c16CKKSRun(c *Ctx, set c16CKKSSet, n, lin, lout int, sigma float64, logBound uint, logSlots int, fn *c16CKKSFunc, refresh bool) {
	params := set.params
	keys := c14GenKeys(set.c14Set, n)
	flood := ring.DiscreteGaussian{Sigma: sigma, Bound: 6 * sigma}
	noise := c16Noise(params, sigma)
	ringQ := params.RingQ()

	// message
	pt := ckks.NewPlaintext(set.cp, set.maxQ())
	pt.LogDimensions.Cols = logSlots
	inScaleLog := set.cp.LogDefaultScale() + []int{0, 0, 3}[c.rng.Intn(3)]
	pt.Scale = rlwe.NewScale(math.Exp2(float64(inScaleLog)))
	// the run claims correctness only under the centred-mask no-wrap condition (Lattigo.Props.C16.centred_masks_no_wrap):
	// 2·(n·2^(logBound-1) + 2^(log scale + 1)) < Q_lin.  GetMinimumLevelForRefresh guarantees n·2^logBound ≤ Q only; for a
	// power-of-two party count on a chain whose modulus is barely above 2^(logBound+log2 n) there is no room for the message
	// (wrap probability ≈ message / 2^logBound ≈ 2^-λ per coefficient, by design).
	{
		need := new(big.Int).Lsh(big.NewInt(int64(n)), logBound-1)
		need.Add(need, new(big.Int).Lsh(big.NewInt(1), uint(inScaleLog+1)))
		need.Lsh(need, 1)
		if need.Cmp(ringQ.AtLevel(lin).ModulusAtLevel[lin]) >= 0 {
			c.Count("ckks_run_skipped(outside the no-wrap condition: no slack for the message)")
			return
		}
	}
	values := make([]complex128, pt.Slots())
	for i := range values {
		values[i] = complex(float64(c.rng.Intn(2001)-1000)/1000, float64(c.rng.Intn(2001)-1000)/1000)
	}
	if err := set.enc.Encode(values, pt); err != nil {
		panic(err)
	}
	ct := ckks.NewCiphertext(set.cp, 1, set.maxQ())
	if err := rlwe.NewEncryptor(set.cp, keys.ideal).Encrypt(pt, ct); err != nil {
		panic(err)
	}
	ct.Resize(1, lin)
	dslots := 2 * ct.Slots()
	gap := set.n / dslots
	phaseIn := c16Phase(params, ct, keys.ideal)

	var tf *mpckks.MaskedLinearTransformationFunc
	name := "none"
	if fn != nil {
		tf = &mpckks.MaskedLinearTransformationFunc{Decode: fn.decode, Func: fn.f, Encode: fn.encode}
		name = fn.name
	}

	_, crs := c14CRS(c)
	hdrI := fmt.Sprintf("%s %d %d", Vec(set.qs(lin)), set.n, gap)
	hdrO := fmt.Sprintf("%s %d %d", Vec(set.qs(lout)), set.n, gap)
	c1 := Mat(c16QRows(params, ct.Value[1], lin, true))
	rt := func(x multiparty.KeySwitchShare) (multiparty.KeySwitchShare, error) {
		b, err := x.MarshalBinary()
		if err != nil {
			return x, err
		}
		var y multiparty.KeySwitchShare
		err = y.UnmarshalBinary(b)
		return y, err
	}
	eq := func(x, y multiparty.KeySwitchShare) bool { return x.Value.Equal(&y.Value) }
	label := fmt.Sprintf("ckks set=%s N=%d lin=%d lout=%d sigma=%g logBound=%d logSlots=%d inScale=2^%d f=%s", set.name, n, lin, lout, sigma, logBound, logSlots, inScaleLog, name)
	Bn := c16Bound(noise)
	var allMasks [][]*big.Int

	if !refresh {
		e2s := make([]mpckks.EncToShareProtocol, n)
		s2e := make([]mpckks.ShareToEncProtocol, n)
		tE := make([]ring.Sampler, n)
		tS := make([]ring.Sampler, n)
		copiedAll := make([]bool, n)
		for i := range e2s {
			copied := i > 0 && c.rng.Intn(2) == 0
			copiedAll[i] = copied
			var err error
			mark := RandMark()
			if !copied {
				if e2s[i], err = mpckks.NewEncToShareProtocol(set.cp, flood); err != nil {
					panic(err)
				}
			} else {
				e2s[i] = e2s[0].ShallowCopy()
			}
			tE[i], _ = ring.NewSampler(TwinPRNG(mark, 0), ringQ, noise, false)
			mark = RandMark()
			if !copied {
				if s2e[i], err = mpckks.NewShareToEncProtocol(set.cp, flood); err != nil {
					panic(err)
				}
			} else {
				s2e[i] = s2e[0].ShallowCopy()
			}
			tS[i], _ = ring.NewSampler(TwinPRNG(mark, 0), ringQ, noise, false)
		}
		pub := make([]multiparty.KeySwitchShare, n)
		sec := make([]multiparty.AdditiveShareBigint, n)
		rows := make([]string, n)
		maskRange := ""
		for i := range e2s {
			pub[i] = e2s[i].AllocateShare(lin)
			sec[i] = mpckks.NewAdditiveShare(set.cp, ct.LogSlots())
			mark := RandMark()
			if err := e2s[i].GenShare(keys.sk[i], logBound, ct, &sec[i], &pub[i]); err != nil {
				panic(err)
			}
			mask := c16Mask(mark, logBound, dslots)
			if c16BigVec(mask) != c16BigVec(sec[i].Value[:dslots]) {
				c.Probe("twin_replay", fmt.Sprintf("ckks mask set=%s party=%d logBound=%d", set.name, i, logBound), "C16-twin-replay", "twin_mask_differs_from_the_protocol's_secret_share")
				mask = make([]*big.Int, dslots)
				for j := range mask {
					mask[j] = new(big.Int).Set(sec[i].Value[j])
				}
			}
			allMasks = append(allMasks, mask)
			if d := c16MaskStats(sec[i].Value[:dslots], logBound); d != "" && maskRange == "" {
				maskRange = fmt.Sprintf("party_%d_%s", i, d)
			}
			e := c16SampleSigned(params, tE[i], lin, false)
			c16Record(fmt.Sprintf("ckks_e2s_share ctor=%s sigma=%g", map[bool]string{false: "new", true: "copy"}[copiedAll[i]], sigma),
				c16Residual(params, lin, true, pub[i].Value, []c16Term{{ct.Value[1], keys.sk[i], 1}}, nil, []ring.Poly{c16CKKSEmbed(params, lin, ct.MetaData, sec[i].Value[:dslots])}))
			rows[i] = Mat(c16QRows(params, pub[i].Value, lin, true))
			c.Emit(fmt.Sprintf("ckks_e2s %s %s %s %s %s", hdrI, c1, IVec(keys.s[i]), IVec(e), c16BigVec(mask)), rows[i])
			c.Count("ckks_e2s")
		}
		// every mask coefficient lies in the documented centred range [-2^(logBound-1), 2^(logBound-1))
		c.Probe("mask_range", label, "C16-ckks-mask-range", maskRange)
		add := func(x, y multiparty.KeySwitchShare) (multiparty.KeySwitchShare, error) {
			o := e2s[0].AllocateShare(x.Level())
			err := e2s[0].AggregateShares(x, y, &o)
			return o, err
		}
		c14OrderProbeKey(c, fmt.Sprintf("ckks_e2s set=%s lvl=%d", set.name, lin), "C16-agg-order", pub, add, rt, eq)
		t := c14RandTree(c, c14RandPerm(c, n))
		agg, _ := c14Eval(t, pub, add)
		aggRows := Mat(c16QRows(params, agg.Value, lin, true))
		c.Emit("agg "+Vec(set.qs(lin))+" "+t.String()+" "+I(n)+" "+strings.Join(rows, " "), aggRows)

		masked := mpckks.NewAdditiveShare(set.cp, ct.LogSlots())
		e2s[0].GetShare(nil, agg, ct, &masked)
		c.Emit(fmt.Sprintf("ckks_get %s %d %s %s", hdrI, dslots, aggRows, Mat(c16QRows(params, ct.Value[0], lin, true))), c16BigVec(masked.Value[:dslots]))
		c.Count("ckks_get")
		own := mpckks.NewAdditiveShare(set.cp, ct.LogSlots())
		e2s[0].GetShare(&sec[0], agg, ct, &own)
		final := append([]multiparty.AdditiveShareBigint{own}, sec[1:]...)
		{
			hl := fmt.Sprintf("ckks set=%s lin=%d logSlots=%d", set.name, lin, logSlots)
			ctB := c14RandCt(c, params, 1, lin)
			*ctB.MetaData = *ct.MetaData
			c16History(c, "mpckks.EncToShareProtocol.GetShare(nil)", hl, func() string { return c16BigVec(masked.Value) }, func() {
				o := mpckks.NewAdditiveShare(set.cp, ct.LogSlots())
				e2s[0].GetShare(nil, agg, ctB, &o)
			})
			c16History(c, "mpckks.EncToShareProtocol.GetShare", hl, func() string { return c16BigVec(own.Value) }, func() {
				o := mpckks.NewAdditiveShare(set.cp, ct.LogSlots())
				e2s[0].GetShare(&sec[0], agg, ctB, &o)
			})
			c16History(c, "mpckks.EncToShareProtocol.GenShare", hl, func() string { return c16BigVec(sec[0].Value) + " " + c16PolySnap(pub[0].Value) }, func() {
				s2, p2 := mpckks.NewAdditiveShare(set.cp, ct.LogSlots()), e2s[0].AllocateShare(lin)
				_ = e2s[0].GenShare(keys.sk[0], logBound, ctB, &s2, &p2)
			})
		}

		// e2s_sum: Σ shares − phase = Σ e_i
		bound := big.NewInt(int64(n) * Bn)
		detail := c16MasksFit(params, allMasks, lin, inScaleLog)
		for j := 0; j < dslots && detail == ""; j++ {
			s := new(big.Int)
			for i := range final {
				s.Add(s, final[i].Value[j])
			}
			s.Sub(s, phaseIn[j*gap])
			if s.CmpAbs(bound) > 0 {
				detail = fmt.Sprintf("coefficient_%d_off_by_%s>bound=%s", j, s, bound)
				break
			}
		}
		c.Probe("e2s_sum", label+" bound="+bound.String()+" within_noise_bound", "C16-ckks-e2s", detail)

		crp := s2e[0].SampleCRP(lout, crs)
		a := Mat(c16QRows(params, crp.Value, lout, true))
		sh := make([]multiparty.KeySwitchShare, n)
		for i := range s2e {
			sh[i] = s2e[i].AllocateShare(lout)
			if err := s2e[i].GenShare(keys.sk[i], crp, ct.MetaData, final[i], &sh[i]); err != nil {
				panic(err)
			}
			e := c16SampleSigned(params, tS[i], lout, false)
			c16Record(fmt.Sprintf("ckks_s2e_share ctor=%s sigma=%g", map[bool]string{false: "new", true: "copy"}[copiedAll[i]], sigma),
				c16Residual(params, lout, true, sh[i].Value, []c16Term{{crp.Value, keys.sk[i], -1}}, []ring.Poly{c16CKKSEmbed(params, lout, ct.MetaData, final[i].Value[:dslots])}, nil))
			c.Emit(fmt.Sprintf("ckks_s2e %s %s %s %s %s", hdrO, a, IVec(keys.s[i]), IVec(e), c16BigVec(final[i].Value[:dslots])),
				Mat(c16QRows(params, sh[i].Value, lout, true)))
			c.Count("ckks_s2e")
		}
		addO := func(x, y multiparty.KeySwitchShare) (multiparty.KeySwitchShare, error) {
			o := s2e[0].AllocateShare(x.Level())
			err := s2e[0].AggregateShares(x, y, &o)
			return o, err
		}
		c14OrderProbeKey(c, fmt.Sprintf("ckks_s2e set=%s lvl=%d", set.name, lout), "C16-agg-order", sh, addO, rt, eq)
		aggO, _ := c14Eval(c14RandTree(c, c14RandPerm(c, n)), sh, addO)
		rec := ckks.NewCiphertext(set.cp, 1, lout)
		*rec.MetaData = *ct.MetaData
		detail = ""
		if err := s2e[0].GetEncryption(aggO, crp, rec); err != nil {
			detail = "GetEncryption_error"
		} else {
			bound2 := big.NewInt(2 * int64(n) * Bn)
			ph := c16Phase(params, rec, keys.ideal)
			for j := range ph {
				d := new(big.Int).Sub(ph[j], phaseIn[j])
				if d.CmpAbs(bound2) > 0 {
					detail = fmt.Sprintf("coefficient_%d_off_by_2^%d>bound=%s", j, d.BitLen(), bound2)
					break
				}
			}
		}
		c.Probe("e2s_s2e_id", label+" within_noise_bound", "C16-ckks-s2e", detail)
		c16History(c, "mpckks.ShareToEncProtocol.GenShare", fmt.Sprintf("ckks set=%s lout=%d", set.name, lout), func() string { return c16PolySnap(sh[0].Value) }, func() {
			o := s2e[0].AllocateShare(lout)
			_ = s2e[0].GenShare(keys.sk[0], crp, ct.MetaData, final[n-1], &o)
		})
		// refused calls keep their receivers
		lab := fmt.Sprintf("ckks set=%s lin=%d lout=%d", set.name, lin, lout)
		tooBig := uint(params.RingQ().AtLevel(lin).ModulusAtLevel[lin].BitLen() + 1)
		c14Refused(c, "C16:mpckks.EncToShareProtocol.GenShare", "bound_above_Q", lab,
			func() string { return c16BigVec(sec[0].Value) + " " + c16PolySnap(pub[0].Value) },
			func() error { return e2s[0].GenShare(keys.sk[0], tooBig, ct, &sec[0], &pub[0]) })
		if ol := c16OtherLevel(set.maxQ(), lout); ol >= 0 {
			crp2 := s2e[0].SampleCRP(ol, crs)
			c14Refused(c, "C16:mpckks.ShareToEncProtocol.GenShare", "crs_level", lab, func() string { return c16PolySnap(sh[0].Value) },
				func() error { return s2e[0].GenShare(keys.sk[0], crp2, ct.MetaData, final[0], &sh[0]) })
			c14Refused(c, "C16:mpckks.ShareToEncProtocol.GetEncryption", "crs_level", lab, func() string { return c16CtSnap(rec) },
				func() error { return s2e[0].GetEncryption(aggO, crp2, rec) })
			recvOther := c14RandCt(c, params, 1, ol)
			c14Refused(c, "C16:mpckks.ShareToEncProtocol.GetEncryption", "receiver_level", lab, func() string { return c16CtSnap(recvOther) },
				func() error { return s2e[0].GetEncryption(aggO, crp, recvOther) })
		}
		deg2 := c14RandCt(c, params, 2, lout)
		c14Refused(c, "C16:mpckks.ShareToEncProtocol.GetEncryption", "receiver_degree", lab, func() string { return c16CtSnap(deg2) },
			func() error { return s2e[0].GetEncryption(aggO, crp, deg2) })
		return
	}

	// Refresh / masked linear transformation
	// precision of the protocol's big floats: the log-bound itself (as the library tests do) or 64 bits;
	// the internal encoder is built with max(prec, 54) (fixes/C16-4: it only handles []*bignum.Complex above 53 bits)
	prec := logBound
	if c.rng.Intn(2) == 0 && prec < 64 {
		prec = 64
	}
	if fn != nil && fn.decode && logBound <= 53 && n == 1 {
		p53, _ := mpckks.NewMaskedLinearTransformationProtocol(set.cp, set.cp, logBound, flood)
		sh := p53.AllocateShare(lin, lout)
		detail := ""
		if err := p53.GenShare(keys.sk[0], keys.sk[0], logBound, ct, p53.SampleCRP(lout, c16PRNG(c.rng.Bytes(32))), tf, &sh); err != nil {
			detail = "GenShare_error_with_prec<=53"
		}
		c.Probe("transform_prec", fmt.Sprintf("ckks set=%s prec=%d f=%s", set.name, logBound, name), "C16-ckks-transform-prec53", detail)
	}
	// output parameters: the same, or (c16OutSet) parameters of the same ring degree with other moduli and another
	// default scale, given to the constructor or installed afterwards with WithParams
	oset, okeys := set, keys
	if c16OutSet != nil {
		oset = *c16OutSet
		okeys = c14GenKeys(oset.c14Set, n)
		label += " out=" + oset.name + fmt.Sprintf(" withParams=%t", c16UseWithParams)
	}
	oparams := oset.params
	noiseOut := c16Noise(oparams, sigma)
	protos := make([]mpckks.MaskedLinearTransformationProtocol, n)
	tE := make([]ring.Sampler, n)
	tS := make([]ring.Sampler, n)
	copied := make([]bool, n)
	ctor := make([]string, n)
	for i := range protos {
		mark := RandMark()
		iE, iS := 0, 1
		if i == 0 || c.rng.Intn(2) == 0 {
			var err error
			ctor[i] = "NewMaskedLinearTransformationProtocol"
			if c16OutSet == nil && fn == nil && c.rng.Intn(2) == 0 {
				// the refresh wrapper
				var r mpckks.RefreshProtocol
				if r, err = mpckks.NewRefreshProtocol(set.cp, prec, flood); err != nil {
					panic(err)
				}
				if c.rng.Intn(2) == 0 {
					protos[i], ctor[i] = r.MaskedLinearTransformationProtocol, "NewRefreshProtocol"
				} else {
					// (one extra pair of crypto/rand reads: the copy's samplers are the last two)
					cp := r.ShallowCopy()
					protos[i], ctor[i] = cp.MaskedLinearTransformationProtocol, "NewRefreshProtocol.ShallowCopy"
					iE, iS = 2, 3
				}
			} else if c16OutSet != nil && c16UseWithParams {
				ctor[i] = "WithParams"
				var p0 mpckks.MaskedLinearTransformationProtocol
				if p0, err = mpckks.NewMaskedLinearTransformationProtocol(set.cp, set.cp, prec, flood); err != nil {
					panic(err)
				}
				// WithParams: a new ShareToEnc protocol (one read), then a ShallowCopy of the EncToShare protocol (one read)
				protos[i] = p0.WithParams(oset.cp)
				iE, iS = 3, 2
			} else if protos[i], err = mpckks.NewMaskedLinearTransformationProtocol(set.cp, oset.cp, prec, flood); err != nil {
				panic(err)
			}
		} else {
			j := c.rng.Intn(i)
			protos[i] = protos[j].ShallowCopy()
			copied[i] = true
			ctor[i] = strings.TrimSuffix(ctor[j], ".ShallowCopy") + ".ShallowCopy"
		}
		tE[i], _ = ring.NewSampler(TwinPRNG(mark, iE), ringQ, noise, false)
		tS[i], _ = ring.NewSampler(TwinPRNG(mark, iS), oparams.RingQ(), noiseOut, false)
	}
	crp := protos[0].SampleCRP(lout, crs)
	a := Mat(c16QRows(oparams, crp.Value, lout, true))
	hdrO = fmt.Sprintf("%s %d %d", Vec(oset.qs(lout)), set.n, gap)
	defScale := c16ScaleInt(oset.cp.DefaultScale(), false)
	inScale := c16ScaleInt(ct.Scale, true)

	shares := make([]multiparty.RefreshShare, n)
	rowsE := make([]string, n)
	rowsS := make([]string, n)
	for i := range protos {
		shares[i] = protos[i].AllocateShare(lin, lout)
		mark := RandMark()
		if err := protos[i].GenShare(keys.sk[i], okeys.sk[i], logBound, ct, crp, tf, &shares[i]); err != nil {
			panic(err)
		}
		mask := c16Mask(mark, logBound, dslots)
		allMasks = append(allMasks, mask)
		e1 := c16SampleSigned(params, tE[i], lin, false)
		e2 := c16SampleSigned(oparams, tS[i], lout, false)
		rowsE[i] = Mat(c16QRows(params, shares[i].EncToShareShare.Value, lin, true))
		rowsS[i] = Mat(c16QRows(oparams, shares[i].ShareToEncShare.Value, lout, true))
		c.Emit(fmt.Sprintf("ckks_e2s %s %s %s %s %s", hdrI, c1, IVec(keys.s[i]), IVec(e1), c16BigVec(mask)), rowsE[i])
		mask2 := c16CKKSTransform(oset, fn, prec, ct.MetaData, mask, defScale, inScale)
		c16Record(fmt.Sprintf("ckks_refresh_e2s_share ctor=%s sigma=%g", ctor[i], sigma),
			c16Residual(params, lin, true, shares[i].EncToShareShare.Value, []c16Term{{ct.Value[1], keys.sk[i], 1}}, nil, []ring.Poly{c16CKKSEmbed(params, lin, ct.MetaData, mask)}))
		c16Record(fmt.Sprintf("ckks_refresh_s2e_share ctor=%s sigma=%g", ctor[i], sigma),
			c16Residual(oparams, lout, true, shares[i].ShareToEncShare.Value, []c16Term{{crp.Value, okeys.sk[i], -1}}, []ring.Poly{c16CKKSEmbed(oparams, lout, ct.MetaData, mask2)}, nil))
		if fn == nil {
			c.Emit(fmt.Sprintf("ckks_scale %s %s %s", defScale, inScale, c16BigVec(mask)), c16BigVec(mask2))
		}
		c.Emit(fmt.Sprintf("ckks_s2e %s %s %s %s %s", hdrO, a, IVec(okeys.s[i]), IVec(e2), c16BigVec(mask2)), rowsS[i])
		c.Count("ckks_refresh_share")
	}
	add := func(x, y multiparty.RefreshShare) (multiparty.RefreshShare, error) {
		o := protos[0].AllocateShare(lin, lout)
		err := protos[0].AggregateShares(&x, &y, &o)
		o.MetaData = x.MetaData
		return o, err
	}
	rtR := func(x multiparty.RefreshShare) (multiparty.RefreshShare, error) {
		b, err := x.MarshalBinary()
		if err != nil {
			return x, err
		}
		var y multiparty.RefreshShare
		err = y.UnmarshalBinary(b)
		return y, err
	}
	eqR := func(x, y multiparty.RefreshShare) bool {
		return x.EncToShareShare.Value.Equal(&y.EncToShareShare.Value) && x.ShareToEncShare.Value.Equal(&y.ShareToEncShare.Value)
	}
	c14OrderProbeKey(c, fmt.Sprintf("ckks_refresh set=%s lin=%d lout=%d", set.name, lin, lout), "C16-agg-order", shares, add, rtR, eqR)
	t := c14RandTree(c, c14RandPerm(c, n))
	agg, _ := c14Eval(t, shares, add)
	aggE := Mat(c16QRows(params, agg.EncToShareShare.Value, lin, true))
	aggS := Mat(c16QRows(oparams, agg.ShareToEncShare.Value, lout, true))
	c.Emit("agg "+Vec(set.qs(lin))+" "+t.String()+" "+I(n)+" "+strings.Join(rowsE, " "), aggE)
	c.Emit("agg "+Vec(oset.qs(lout))+" "+t.String()+" "+I(n)+" "+strings.Join(rowsS, " "), aggS)

	// aggregated into a freshly allocated share the MetaData is not carried over
	c16RefreshMetaProbe(c, label, func() error {
		addRaw := func(x, y multiparty.RefreshShare) (multiparty.RefreshShare, error) {
			o := protos[0].AllocateShare(lin, lout)
			return o, protos[0].AggregateShares(&x, &y, &o)
		}
		ag, err := c14Eval(c14Comb(c14RandPerm(c, n)), shares, addRaw)
		if err != nil {
			return err
		}
		return protos[0].Transform(ct.CopyNew(), tf, crp, ag, ckks.NewCiphertext(oset.cp, 1, oset.maxQ()))
	}, n)

	e2s, _ := mpckks.NewEncToShareProtocol(set.cp, flood)
	maskedShare := mpckks.NewAdditiveShare(set.cp, ct.LogSlots())
	e2s.GetShare(nil, agg.EncToShareShare, ct, &maskedShare)
	masked := maskedShare.Value[:dslots]

	out := ckks.NewCiphertext(oset.cp, 1, oset.maxQ())
	ctIn := ct.CopyNew()
	res := Try(func() string {
		if err := protos[0].Transform(ctIn, tf, crp, agg, out); err != nil {
			return "err"
		}
		return c16BigVec(masked) + "|" + Mat(c16QRows(oparams, out.Value[0], lout, true)) + "|" + Mat(c16QRows(oparams, out.Value[1], lout, true))
	})
	if fn == nil {
		c.Emit(fmt.Sprintf("ckks_fin %s %s %d %d %d %s %s %s %s %s %s", Vec(set.qs(lin)), Vec(oset.qs(lout)), set.n, gap, dslots,
			aggE, Mat(c16QRows(params, ct.Value[0], lin, true)), aggS, a, defScale, inScale), res)
		c.Count("ckks_fin")
	}

	probe, key := "refresh_roundtrip", "C16-ckks-refresh"
	if fn != nil {
		probe, key = "transform_applies_f", "C16-ckks-transform"
	}
	detail := Try(func() string {
		if res == "err" || res == "panic" {
			return "Transform_" + res
		}
		if out.Level() != lout {
			return fmt.Sprintf("level=%d_want=%d", out.Level(), lout)
		}
		if out.Scale.Cmp(oset.cp.DefaultScale()) != 0 {
			return "output_scale_is_not_the_default_scale_of_the_output_parameters"
		}
		if d := c16MasksFit(params, allMasks, lin, inScaleLog); d != "" {
			return d
		}
		// receivers allocated at every level, pre-filled with junk: same output at the CRP's level
		var others []*rlwe.Ciphertext
		for r := 0; r <= oset.maxQ(); r++ {
			o := c14RandCt(c, oparams, 1, r)
			if err := protos[0].Transform(ct.CopyNew(), tf, crp, agg, o); err != nil {
				return fmt.Sprintf("Transform_error_receiver_level_%d", r)
			}
			others = append(others, o)
		}
		if d := c16SameCt(out, others, lout); d != "" {
			return d
		}
		ratio := math.Exp2(float64(oset.cp.LogDefaultScale() - inScaleLog))
		if fn == nil {
			// exact: phase_out − phase_in·Δout/Δin within N·(B·ratio + B) + N + 2
			bound := big.NewInt(int64(float64(int64(n)*Bn)*(ratio+1)) + int64(n) + 2)
			ph := c16Phase(oparams, out, okeys.ideal)
			for j := range ph {
				want := new(big.Int).Mul(phaseIn[j], defScale)
				want.Quo(want, inScale)
				d := new(big.Int).Sub(ph[j], want)
				if j%gap != 0 {
					d = ph[j] // positions outside the sparse embedding carry re-encryption noise only
				}
				if d.CmpAbs(bound) > 0 {
					return fmt.Sprintf("coefficient_%d_off_by_2^%d>bound=%s", j, d.BitLen(), bound)
				}
			}
		}
		// within precision (labelled): decoded slots
		have := make([]complex128, len(values))
		if err := oset.enc.Decode(rlwe.NewDecryptor(oset.cp, okeys.ideal).DecryptNew(out), have); err != nil {
			return "decode_error"
		}
		want := make([]*bignum.Complex, len(values))
		for i := range want {
			want[i] = &bignum.Complex{new(big.Float).SetFloat64(real(values[i])), new(big.Float).SetFloat64(imag(values[i]))}
		}
		if fn != nil {
			if !(fn.decode && fn.encode) {
				return "" // functions on raw coefficients: covered by the share ties only
			}
			fn.f(want)
		}
		// coefficient noise ≤ nb; a slot is a sum of N_ring coefficients
		nb := float64(int64(n)*Bn)*(ratio+1) + float64(n) + 2 + float64(set.n)*21
		tol := nb * float64(set.n) * 4 / math.Exp2(float64(oset.cp.LogDefaultScale()))
		for i := range want {
			re, _ := want[i][0].Float64()
			im, _ := want[i][1].Float64()
			if math.Abs(re-real(have[i])) > tol || math.Abs(im-imag(have[i])) > tol {
				return fmt.Sprintf("slot_%d_differs_by_more_than_tolerance", i)
			}
		}
		return ""
	})
	c.Probe(probe, label+" within_precision", key, detail)

	// refused calls keep their receivers (`out` holds the valid refreshed ciphertext)
	if detail == "" {
		lab := fmt.Sprintf("ckks set=%s out=%s lin=%d lout=%d", set.name, oset.name, lin, lout)
		ctB := c14RandCt(c, params, 1, lin)
		*ctB.MetaData = *ct.MetaData
		c16History(c, "mpckks.MaskedLinearTransformationProtocol.GenShare", lab, func() string { return c16RefreshSnap(&shares[0]) }, func() {
			o := protos[0].AllocateShare(lin, lout)
			_ = protos[0].GenShare(keys.sk[0], okeys.sk[0], logBound, ctB, crp, tf, &o)
		})
		c16History(c, "mpckks.MaskedLinearTransformationProtocol.Transform", lab, func() string { return c16CtSnap(out) }, func() {
			sh := protos[0].AllocateShare(lin, lout)
			_ = protos[0].GenShare(keys.sk[0], okeys.sk[0], logBound, ctB, crp, tf, &sh)
			_ = protos[0].Transform(ctB, tf, crp, sh, ckks.NewCiphertext(oset.cp, 1, oset.maxQ()))
		})
		aggSnap := func() string { return c16RefreshSnap(&agg) }
		shSnap := func() string { return c16RefreshSnap(&shares[0]) }
		outSnap := func() string { return c16CtSnap(out) }
		if ol := c16OtherLevel(set.maxQ(), lin); ol >= 0 {
			bad := protos[0].AllocateShare(ol, lout)
			c14Refused(c, "C16:mpckks.MaskedLinearTransformationProtocol.AggregateShares", "e2s_level", lab, aggSnap, func() error { return protos[0].AggregateShares(&bad, &shares[0], &agg) })
		}
		if ol := c16OtherLevel(oset.maxQ(), lout); ol >= 0 {
			bad := protos[0].AllocateShare(lin, ol)
			c14Refused(c, "C16:mpckks.MaskedLinearTransformationProtocol.AggregateShares", "s2e_level", lab, aggSnap, func() error { return protos[0].AggregateShares(&shares[0], &bad, &agg) })
			crp2 := protos[0].SampleCRP(ol, crs)
			c14Refused(c, "C16:mpckks.MaskedLinearTransformationProtocol.GenShare", "crs_level", lab, shSnap, func() error {
				return protos[0].GenShare(keys.sk[0], okeys.sk[0], logBound, ct, crp2, tf, &shares[0])
			})
			c14Refused(c, "C16:mpckks.MaskedLinearTransformationProtocol.Transform", "crs_level", lab, outSnap, func() error { return protos[0].Transform(ct.CopyNew(), tf, crp2, agg, out) })
		}
		if lin > 0 {
			low := ct.CopyNew()
			low.Resize(1, lin-1)
			c14Refused(c, "C16:mpckks.MaskedLinearTransformationProtocol.GenShare", "ct_below_share_level", lab, shSnap, func() error {
				return protos[0].GenShare(keys.sk[0], okeys.sk[0], logBound, low, crp, tf, &shares[0])
			})
			c14Refused(c, "C16:mpckks.MaskedLinearTransformationProtocol.Transform", "ct_below_share_level", lab, outSnap, func() error { return protos[0].Transform(low, tf, crp, agg, out) })
		}
		other := agg
		other.MetaData.Scale = rlwe.NewScale(12345)
		c14Refused(c, "C16:mpckks.MaskedLinearTransformationProtocol.Transform", "metadata", lab, outSnap, func() error { return protos[0].Transform(ct.CopyNew(), tf, crp, other, out) })
		notBatched := ct.CopyNew()
		notBatched.IsBatched = false
		dec := &mpckks.MaskedLinearTransformationFunc{Decode: true, Func: func([]*bignum.Complex) {}, Encode: true}
		aggNB := agg
		aggNB.MetaData = *notBatched.MetaData
		c14Refused(c, "C16:mpckks.MaskedLinearTransformationProtocol.GenShare", "decode_non_batched", lab, shSnap, func() error {
			return protos[0].GenShare(keys.sk[0], okeys.sk[0], logBound, notBatched, crp, dec, &shares[0])
		})
		c14Refused(c, "C16:mpckks.MaskedLinearTransformationProtocol.Transform", "decode_non_batched", lab, outSnap, func() error { return protos[0].Transform(notBatched, dec, crp, aggNB, out) })
	}
}

// pooled statistics of the real masks (EncToShareProtocol.GenShare's secret shares)
var c16MaskPool struct{ n, neg, big int }

// c16MaskStats checks the range of one party's mask and feeds the pooled sign / magnitude statistics.
func c16MaskStats(mask []*big.Int, logBound uint) string {
	half := new(big.Int).Lsh(big.NewInt(1), logBound-1)
	quarter := new(big.Int).Rsh(half, 1)
	lo := new(big.Int).Neg(half)
	out := ""
	for j, m := range mask {
		if m.Cmp(lo) < 0 || m.Cmp(half) >= 0 {
			if out == "" {
				out = fmt.Sprintf("coefficient_%d_outside_[-2^%d,2^%d)", j, logBound-1, logBound-1)
			}
		}
		c16MaskPool.n++
		if m.Sign() < 0 {
			c16MaskPool.neg++
		}
		if m.CmpAbs(quarter) >= 0 {
			c16MaskPool.big++
		}
	}
	return out
}

// c16MaskDistributionProbe (statistical, labelled): both signs occur with frequency 1/2 and half of the
// coefficients use the top bit of the range, within five standard errors.
func c16MaskDistributionProbe(c *Ctx) {
	p := c16MaskPool
	if p.n == 0 {
		return
	}
	tol := 5 * 0.5 / math.Sqrt(float64(p.n))
	fn, fb := float64(p.neg)/float64(p.n), float64(p.big)/float64(p.n)
	detail := ""
	if math.Abs(fn-0.5) > tol {
		detail = fmt.Sprintf("negative_fraction=%.4f", fn)
	} else if math.Abs(fb-0.5) > tol {
		detail = fmt.Sprintf("fraction_with_|M|>=2^(logBound-2)=%.4f", fb)
	}
	c.Probe("mask_distribution", fmt.Sprintf("ckks samples=%d negative_ppm=%d large_ppm=%d tol_ppm=%d statistical", p.n, int(fn*1e6), int(fb*1e6), int(tol*1e6)), "C16-ckks-mask-range", detail)
	c16MaskPool.n, c16MaskPool.neg, c16MaskPool.big = 0, 0, 0
}

// c16MasksFit: the masked plaintext m − Σ M_i must not wrap modulo Q_level:
// |Σ_i M_i[j]| + 2^(log scale + 1) < Q_level / 2 for every coefficient.
func c16MasksFit(params rlwe.Parameters, masks [][]*big.Int, lvl, logScale int) string {
	if len(masks) == 0 {
		return ""
	}
	half := new(big.Int).Rsh(params.RingQ().AtLevel(lvl).ModulusAtLevel[lvl], 1)
	msg := new(big.Int).Lsh(big.NewInt(1), uint(logScale+1))
	for j := range masks[0] {
		s := new(big.Int)
		for i := range masks {
			s.Add(s, masks[i][j])
		}
		s.Abs(s)
		s.Add(s, msg)
		if s.Cmp(half) >= 0 {
			return fmt.Sprintf("mask_sum_2^%d_wraps_modulo_Q_level_2^%d", s.BitLen(), half.BitLen()+1)
		}
	}
	return ""
}

// c16OutSet / c16UseWithParams select output parameters different from the input's for the next refresh run.
var (
	c16OutSet        *c16CKKSSet
	c16UseWithParams bool
)

// c16CKKSEmbed: the integer vector embedded in R_Q (NTT domain) as the protocols add it to a public share.
func c16CKKSEmbed(params rlwe.Parameters, lvl int, md *rlwe.MetaData, v []*big.Int) ring.Poly {
	r := params.RingQ().AtLevel(lvl)
	buf := r.NewPoly()
	r.SetCoefficientsBigint(v, buf)
	rlwe.NTTSparseAndMontgomery(r, md, buf)
	return buf
}

func c16RefreshMetaProbe(c *Ctx, label string, f func() error, n int) {
	if n < 2 {
		return
	}
	detail := Try(func() string {
		if err := f(); err != nil {
			return "Transform_rejects_the_aggregate:MetaData_not_aggregated"
		}
		return ""
	})
	c.Probe("refresh_agg_fresh_receiver", strings.Fields(label)[0]+" "+strings.Fields(label)[1]+fmt.Sprintf(" N=%d", n), "C16-refresh-agg-metadata", detail)
}

// c16CKKSTransform replays MaskedLinearTransformationProtocol.applyTransformAndScale (mpckks/transform.go)
// on a copy of the mask: optional FFT → f → IFFT on the encoder's big floats, then
// mask·defaultScale / inputScale with big.Int.Quo.
func c16CKKSTransform(set c16CKKSSet, fn *c16CKKSFunc, prec uint, md *rlwe.MetaData, maskIn []*big.Int, defScale, inScale *big.Int) []*big.Int {
	mask := make([]*big.Int, len(maskIn))
	for i := range mask {
		mask[i] = new(big.Int).Set(maskIn[i])
	}
	slots := md.Slots()
	if fn != nil {
		encPrec := prec
		if encPrec < 54 {
			encPrec = 54
		}
		enc := ckks.NewEncoder(set.cp, encPrec)
		bc := make([]*bignum.Complex, slots)
		for i := range bc {
			bc[i] = bignum.NewComplex()
			bc[i][0].SetPrec(prec)
			bc[i][1].SetPrec(prec)
		}
		for i := 0; i < slots; i++ {
			bc[i][0].SetInt(mask[i])
		}
		for i, j := 0, slots; i < slots; i, j = i+1, j+1 {
			bc[i][1].SetInt(mask[j])
		}
		if fn.decode {
			if err := enc.FFT(bc, md.LogSlots()); err != nil {
				panic(err)
			}
		}
		fn.f(bc)
		if fn.encode {
			if err := enc.IFFT(bc, md.LogSlots()); err != nil {
				panic(err)
			}
		}
		for i := 0; i < slots; i++ {
			bc[i].Real().Int(mask[i])
		}
		for i, j := 0, slots; i < slots; i, j = i+1, j+1 {
			bc[i].Imag().Int(mask[j])
		}
	}
	for i := range mask {
		mask[i].Mul(mask[i], defScale)
		mask[i].Quo(mask[i], inScale)
	}
	return mask
}

// ---------------------------------------------------------------------------------------------
// masked transform over all (Decode, Encode) × input IsBatched: documented refusals, output metadata, value

// c16CKKSFlagMatrix runs the n-party masked transform for every combination of transform.Decode,
// transform.Encode (and transform = nil) and of the input's IsBatched flag.  As documented:
// Decode on a coefficient-encoded input and Encode-without-Decode on a slot-encoded input are refused
// (GenShare and Transform return an error); otherwise the output is labelled IsBatched = transform.Encode
// (the input's flag when transform = nil), keeps the input's LogDimensions / IsNTT / IsMontgomery, has the
// default scale of the OUTPUT parameters, and holds f(message): with z_i = c_i + i·c_(i+slots) the vector
// given to f (the slot values when decoding, the coefficient pairs otherwise), the output holds f(z) as slot
// values (Encode) or as coefficient pairs (no Encode).
func c16CKKSFlagMatrix(c *Ctx, set c16CKKSSet, oset c16CKKSSet, n, logSlots int) {
	params, oparams := set.params, oset.params
	keys := c14GenKeys(set.c14Set, n)
	okeys := keys
	if oset.name != set.name {
		okeys = c14GenKeys(oset.c14Set, n)
	}
	flood := ring.DiscreteGaussian{Sigma: 3.2, Bound: 19.2}
	minLevel, logBound, ok := mpckks.GetMinimumLevelForRefresh(8, set.cp.DefaultScale(), n, set.q)
	if !ok || minLevel > set.maxQ() {
		c.Count("ckks_flag_matrix_skipped(no level)")
		return
	}
	lin := set.maxQ()
	lout := c.rng.Intn(oset.maxQ() + 1)
	{
		need := new(big.Int).Lsh(big.NewInt(int64(n)), logBound-1)
		need.Add(need, new(big.Int).Lsh(big.NewInt(1), uint(set.cp.LogDefaultScale()+2)))
		need.Lsh(need, 1)
		if need.Cmp(params.RingQ().ModulusAtLevel[lin]) >= 0 {
			c.Count("ckks_flag_matrix_skipped(outside the no-wrap condition)")
			return
		}
	}
	slots := 1 << logSlots
	dslots := 2 * slots
	gap := set.n / dslots
	scaleF := func(v []*bignum.Complex) {
		for i := range v {
			v[i][0].Mul(v[i][0], big.NewFloat(0.75))
			v[i][1].Mul(v[i][1], big.NewFloat(0.75))
		}
	}
	rot := func(v []*bignum.Complex) { // cyclic shift by one position
		first := v[0]
		copy(v, v[1:])
		v[len(v)-1] = first
	}
	type tfc struct {
		name           string
		isNil          bool
		decode, encode bool
		f              func([]*bignum.Complex)
	}
	var tfs []tfc
	tfs = append(tfs, tfc{name: "nil", isNil: true})
	for _, d := range []bool{false, true} {
		for _, e := range []bool{false, true} {
			f, fname := scaleF, "scale"
			if c.rng.Intn(2) == 0 {
				f, fname = rot, "shift"
			}
			tfs = append(tfs, tfc{name: fmt.Sprintf("Decode=%t,Encode=%t,f=%s", d, e, fname), decode: d, encode: e, f: f})
		}
	}
	crs := c16PRNG(c.rng.Bytes(32))
	Bn := c16Bound(c16Noise(params, 3.2))
	for _, batched := range []bool{true, false} {
		// the message: slot values (batched) or 2·slots real coefficients at the positions j·gap
		pt := ckks.NewPlaintext(set.cp, lin)
		pt.LogDimensions.Cols = logSlots
		pt.IsBatched = batched
		z := make([]complex128, slots) // the vector a decoding transform sees / the coefficient pairs
		for i := range z {
			z[i] = complex(float64(c.rng.Intn(2001)-1000)/1000, float64(c.rng.Intn(2001)-1000)/1000)
		}
		if batched {
			if err := set.enc.Encode(z, pt); err != nil {
				panic(err)
			}
		} else {
			co := make([]float64, set.n)
			for i := range z {
				co[i*gap] = real(z[i])
				co[(i+slots)*gap] = imag(z[i])
			}
			if err := set.enc.Encode(co, pt); err != nil {
				panic(err)
			}
		}
		ct := ckks.NewCiphertext(set.cp, 1, lin)
		if err := rlwe.NewEncryptor(set.cp, keys.ideal).Encrypt(pt, ct); err != nil {
			panic(err)
		}
		mdIn := *ct.MetaData
		inScale := ct.Scale.Float64()
		// the coefficient pairs of the input (what a non-decoding transform sees)
		phaseIn := c16Phase(params, ct, keys.ideal)
		pairs := make([]complex128, slots)
		for i := range pairs {
			re, _ := new(big.Float).SetInt(phaseIn[i*gap]).Float64()
			im, _ := new(big.Float).SetInt(phaseIn[(i+slots)*gap]).Float64()
			pairs[i] = complex(re/inScale, im/inScale)
		}
		for _, t := range tfs {
			var tf *mpckks.MaskedLinearTransformationFunc
			if !t.isNil {
				tf = &mpckks.MaskedLinearTransformationFunc{Decode: t.decode, Func: t.f, Encode: t.encode}
			}
			label := fmt.Sprintf("ckks set=%s out=%s N=%d lin=%d lout=%d logSlots=%d input_IsBatched=%t transform=%s", set.name, oset.name, n, lin, lout, logSlots, batched, t.name)
			refuse := !t.isNil && ((t.decode && !batched) || (t.encode && !t.decode && batched))
			detail := Try(func() string {
				proto, err := mpckks.NewMaskedLinearTransformationProtocol(set.cp, oset.cp, 64, flood)
				if err != nil {
					return "constructor_error"
				}
				crp := proto.SampleCRP(lout, crs)
				var acc multiparty.RefreshShare
				for i := 0; i < n; i++ {
					p := proto
					if i > 0 {
						p = proto.ShallowCopy()
					}
					sh := p.AllocateShare(lin, lout)
					err := p.GenShare(keys.sk[i], okeys.sk[i], logBound, ct, crp, tf, &sh)
					if refuse {
						if err == nil {
							return "GenShare_accepts_a_combination_documented_as_refused"
						}
						// Transform must refuse too (with a share carrying the ciphertext's metadata)
						sh.MetaData = *ct.MetaData
						out := ckks.NewCiphertext(oset.cp, 1, oset.maxQ())
						if err := p.Transform(ct.CopyNew(), tf, crp, sh, out); err == nil {
							return "Transform_accepts_a_combination_documented_as_refused"
						}
						return ""
					}
					if err != nil {
						return "GenShare_error:" + strings.ReplaceAll(err.Error(), " ", "_")
					}
					if i == 0 {
						acc = sh
					} else if err := p.AggregateShares(&acc, &sh, &acc); err != nil {
						return "AggregateShares_error:" + strings.ReplaceAll(err.Error(), " ", "_")
					}
				}
				out := ckks.NewCiphertext(oset.cp, 1, oset.maxQ())
				// the receiver arrives with the opposite flags: nothing of its metadata may survive
				out.IsBatched = !batched
				out.Scale = rlwe.NewScale(3)
				ctIn := ct.CopyNew()
				if err := proto.Transform(ctIn, tf, crp, acc, out); err != nil {
					return "Transform_error:" + strings.ReplaceAll(err.Error(), " ", "_")
				}
				if !ctIn.MetaData.Equal(&mdIn) || !ctIn.Equal(ct) {
					return "Transform_modified_the_input_ciphertext"
				}
				// metadata
				wantBatched := batched
				if !t.isNil {
					wantBatched = t.encode
				}
				if out.IsBatched != wantBatched {
					return fmt.Sprintf("output_IsBatched=%t_want_%t_(=transform.Encode;_the_input's_flag_for_a_nil_transform)", out.IsBatched, wantBatched)
				}
				if out.LogDimensions != mdIn.LogDimensions {
					return fmt.Sprintf("output_LogDimensions=%v_want_%v", out.LogDimensions, mdIn.LogDimensions)
				}
				if out.Scale.Cmp(oset.cp.DefaultScale()) != 0 {
					return "output_Scale_is_not_the_default_scale_of_the_output_parameters"
				}
				if out.IsNTT != mdIn.IsNTT || out.IsMontgomery != mdIn.IsMontgomery {
					return "output_IsNTT/IsMontgomery_differ_from_the_input's"
				}
				if out.Level() != lout {
					return fmt.Sprintf("output_level=%d_want_%d", out.Level(), lout)
				}
				// value
				in := pairs
				if !t.isNil && t.decode {
					in = z // (only reached for a batched input: its slot values)
				}
				w := make([]*bignum.Complex, slots)
				for i := range w {
					w[i] = &bignum.Complex{new(big.Float).SetFloat64(real(in[i])), new(big.Float).SetFloat64(imag(in[i]))}
				}
				if !t.isNil {
					t.f(w)
				}
				outScale := oset.cp.DefaultScale().Float64()
				ratio := outScale / inScale
				nb := float64(int64(n)*Bn)*(ratio+1) + float64(n) + 2 + float64(set.n)*21
				tol := nb*float64(set.n)*4/outScale + 1e-6
				have := make([]complex128, slots)
				asSlots := !t.isNil && t.encode
				if asSlots {
					// f(z) as slot values, decoded as such whatever the label says
					ptOut := rlwe.NewDecryptor(oset.cp, okeys.ideal).DecryptNew(out)
					ptOut.IsBatched = true
					if err := oset.enc.Decode(ptOut, have); err != nil {
						return "decode_error"
					}
				} else {
					ph := c16Phase(oparams, out, okeys.ideal)
					for i := range have {
						re, _ := new(big.Float).SetInt(ph[i*gap]).Float64()
						im, _ := new(big.Float).SetInt(ph[(i+slots)*gap]).Float64()
						have[i] = complex(re/outScale, im/outScale)
					}
				}
				for i := range w {
					re, _ := w[i][0].Float64()
					im, _ := w[i][1].Float64()
					if math.Abs(re-real(have[i])) > tol || math.Abs(im-imag(have[i])) > tol {
						return fmt.Sprintf("position_%d:_output_holds_%.4f_want_f(message)=%.4f+%.4fi_(tolerance_%.2g)", i, have[i], re, im, tol)
					}
				}
				// decoding through the API with the metadata AS RETURNED gives the same values
				ptOut := rlwe.NewDecryptor(oset.cp, okeys.ideal).DecryptNew(out)
				if ptOut.IsBatched {
					ref := have
					if !asSlots {
						ref = z // (nil transform on a slot-encoded input: the slot values themselves)
					}
					got := make([]complex128, slots)
					if err := oset.enc.Decode(ptOut, got); err != nil {
						return "decode_error_with_the_returned_metadata"
					}
					for i := range got {
						if cmplx.Abs(got[i]-ref[i]) > 3*tol {
							return fmt.Sprintf("decoded_with_the_returned_metadata_slot_%d_differs_from_the_content", i)
						}
					}
				} else if lout == oset.maxQ() { // (the coefficient decoder is exercised at the top level only)
					got := make([]float64, oset.n)
					if err := oset.enc.Decode(ptOut, got); err != nil {
						return "decode_error_with_the_returned_metadata"
					}
					for i := range have {
						if math.Abs(got[i*gap]-real(have[i])) > 2*tol || math.Abs(got[(i+slots)*gap]-imag(have[i])) > 2*tol {
							return fmt.Sprintf("decoded_with_the_returned_metadata_coefficient_%d_differs_from_the_content", i)
						}
					}
				}
				return ""
			})
			name := "transform_flag_matrix"
			if refuse {
				name = "transform_flag_refused"
			}
			c.Probe(name, label, "C16-ckks-transform-flags", detail)
		}
	}
}
