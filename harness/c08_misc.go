package main

// C08: types without the WriteTo/ReadFrom pair: rlwe.Scale (binary = JSON text) and the
// JSON-only parameter types.

import (
	"encoding/json"
	"fmt"
	"math/big"
	"reflect"
	"strings"

	"github.com/tuneinsight/lattigo/v6/circuits/ckks/bootstrapping"
	"github.com/tuneinsight/lattigo/v6/circuits/ckks/dft"
	"github.com/tuneinsight/lattigo/v6/circuits/ckks/mod1"
	"github.com/tuneinsight/lattigo/v6/core/rlwe"
	"github.com/tuneinsight/lattigo/v6/ring"
	"github.com/tuneinsight/lattigo/v6/schemes/bgv"
	"github.com/tuneinsight/lattigo/v6/schemes/ckks"
	"github.com/tuneinsight/lattigo/v6/utils"
)

func c08ScaleEq(a, b rlwe.Scale) bool {
	if a.Value.Cmp(&b.Value) != 0 {
		return false
	}
	if (a.Mod == nil) != (b.Mod == nil) {
		return false
	}
	return a.Mod == nil || a.Mod.Cmp(b.Mod) == 0
}

func (g *c08Gen) probeScale() {
	c := g.c
	type sc struct {
		name string
		s    rlwe.Scale
	}
	huge := new(big.Float).SetPrec(128).SetMantExp(big.NewFloat(1.5), 400)
	tiny := new(big.Float).SetPrec(128).SetMantExp(big.NewFloat(1.25), -400)
	scales := []sc{
		{"2^40", rlwe.NewScale(1 << 40)},
		{"3mod65537", rlwe.NewScaleModT(3, 65537)},
		{"1.5", rlwe.NewScale(1.5)},
		{"random", rlwe.NewScale(float64(g.rng.U64()>>11) * 0.75)},
		{"2^120+1", rlwe.NewScale(new(big.Int).Add(new(big.Int).Lsh(big.NewInt(1), 120), big.NewInt(1)))},
		{"zero-value", rlwe.Scale{}},
		{"1.5*2^400", rlwe.NewScale(huge)},
		{"1.25*2^-400", rlwe.NewScale(tiny)},
		{"65536mod65537", rlwe.NewScaleModT(65536, 65537)},
	}
	for i, x := range scales {
		id := "rlwe.Scale " + x.name
		var b []byte
		if cls := c08Call(func() (err error) { b, err = x.s.MarshalBinary(); return }); cls != "ok" {
			c.Probe("write", id, c08Key("rlwe.Scale", "MarshalBinary", strings.ReplaceAll(cls, ":", "-")), "MarshalBinary: "+cls)
			continue
		}
		c.Count("type:rlwe.Scale")
		vs := c08RScale(x.s).String()
		c.Emit("enc scale "+vs, Hex(b))
		c.Emit("size scale "+vs, I(x.s.BinarySize()))
		detail := ""
		if x.s.BinarySize() != len(b) {
			detail = fmt.Sprintf("BinarySize=%d, MarshalBinary wrote %d bytes (number text wider than 45)", x.s.BinarySize(), len(b))
		}
		c.Probe("size_exact", id, "C08/rlwe.Scale.BinarySize/assumes-two-digit-exponent", detail)

		// the same value inside a metadata block: announced size vs bytes written
		md := &rlwe.MetaData{}
		md.Scale = x.s
		var mb []byte
		_ = c08Call(func() (err error) { mb, err = md.MarshalBinary(); return })
		detail = ""
		if md.BinarySize() != len(mb) {
			detail = fmt.Sprintf("MetaData.BinarySize=%d, MetaData.MarshalBinary wrote %d bytes", md.BinarySize(), len(mb))
		}
		c.Probe("size_exact", "rlwe.MetaData scale="+x.name, "C08/rlwe.Scale.BinarySize/assumes-two-digit-exponent", detail)
		// … and inside a ciphertext: MarshalBinary (sized by BinarySize) and the read back
		ct := g.ciphertext(g.pA, 1, 0, 0)
		ct.Scale = x.s
		var cb []byte
		cls := c08Call(func() (err error) { cb, err = ct.MarshalBinary(); return })
		detail = ""
		if cls != "ok" {
			detail = "Ciphertext.MarshalBinary with this scale: " + cls
		} else {
			ct2 := new(rlwe.Ciphertext)
			if cls := c08Call(func() error { return ct2.UnmarshalBinary(cb) }); cls != "ok" {
				detail = "Ciphertext.UnmarshalBinary(MarshalBinary(ct)) with this scale: " + cls
			} else if c08RenderSafe(ct2) != c08RenderSafe(ct) {
				detail = "ciphertext differs after round trip"
			}
		}
		c.Probe("roundtrip_fresh", "rlwe.Ciphertext scale="+x.name+" MarshalBinary/UnmarshalBinary", "C08/rlwe.Scale.BinarySize/assumes-two-digit-exponent", detail)

		// UnmarshalBinary (value receiver!) into a fresh Scale
		var s2 rlwe.Scale
		cls = c08Call(func() error { return s2.UnmarshalBinary(b) })
		detail = ""
		if cls != "ok" {
			detail = "outcome " + cls
		} else if !c08ScaleEq(s2, x.s) {
			detail = fmt.Sprintf("after UnmarshalBinary the receiver holds %s, want %s (method has a value receiver: the decoded value is discarded)", s2.Value.Text('g', 10), x.s.Value.Text('g', 10))
		}
		c.Probe("roundtrip_fresh", id+" UnmarshalBinary", "C08/rlwe.Scale.UnmarshalBinary/value-receiver-discards-result", detail)
		// UnmarshalJSON into a fresh Scale
		var s3 rlwe.Scale
		cls = c08Call(func() error { return s3.UnmarshalJSON(b) })
		detail = ""
		if cls != "ok" {
			detail = "outcome " + cls
		} else if !c08ScaleEq(s3, x.s) {
			detail = "decoded scale differs"
		}
		c.Probe("roundtrip_fresh", id+" UnmarshalJSON", c08Key("rlwe.Scale", "UnmarshalJSON", "value-differs"), detail)
		// UnmarshalJSON into a dirty Scale
		for j, y := range scales {
			if j == i || j > 4 {
				continue
			}
			s4 := rlwe.Scale{}
			s4.Value.Copy(&y.s.Value)
			if y.s.Mod != nil {
				s4.Mod = new(big.Int).Set(y.s.Mod)
			}
			cls = c08Call(func() error { return s4.UnmarshalJSON(b) })
			detail = ""
			if cls != "ok" {
				detail = "outcome " + cls
			} else if !c08ScaleEq(s4, x.s) {
				detail = fmt.Sprintf("receiver previously %s: decoded Mod=%v want Mod=%v", y.name, s4.Mod, x.s.Mod)
			}
			c.Probe("roundtrip_dirty", id+" into:"+y.name+" UnmarshalJSON", c08Key("rlwe.Scale", "UnmarshalJSON", "stale-Mod"), detail)
		}
	}
}

// c08JSONCase: a JSON-only type: marshal, unmarshal into fresh and dirty, compare.
type c08JSONCase struct {
	goType, label string
	val           interface{} // value (pointer)
	fresh         func() interface{}
	dirty         func() interface{}
	eq            func(a, b interface{}) bool
}

type c08BinMarsh interface {
	MarshalBinary() ([]byte, error)
	UnmarshalBinary([]byte) error
}

func (g *c08Gen) probeJSONTypes() {
	c := g.c
	ckksLit := func(logN int, logQ []int, logP []int, sc int) ckks.ParametersLiteral {
		return ckks.ParametersLiteral{LogN: logN, LogQ: logQ, LogP: logP, LogDefaultScale: sc}
	}
	mkCKKS := func(l ckks.ParametersLiteral) *ckks.Parameters {
		p, err := ckks.NewParametersFromLiteral(l)
		if err != nil {
			panic(err)
		}
		return &p
	}
	mkBGV := func(l bgv.ParametersLiteral) *bgv.Parameters {
		p, err := bgv.NewParametersFromLiteral(l)
		if err != nil {
			panic(err)
		}
		return &p
	}
	var cases []c08JSONCase
	ck1 := func() *ckks.Parameters { return mkCKKS(ckksLit(5, []int{30, 30}, []int{31}, 20)) }
	ck2 := func() *ckks.Parameters {
		l := ckksLit(6, []int{35}, nil, 25)
		l.RingType = ring.ConjugateInvariant
		l.Xs = ring.Ternary{H: 8}
		return mkCKKS(l)
	}
	ckEq := func(a, b interface{}) bool { return a.(*ckks.Parameters).Equal(b.(*ckks.Parameters)) }
	cases = append(cases,
		c08JSONCase{"ckks.Parameters", "logN5", ck1(), func() interface{} { return new(ckks.Parameters) }, func() interface{} { return ck2() }, ckEq},
		c08JSONCase{"ckks.Parameters", "logN6-CI-H8", ck2(), func() interface{} { return new(ckks.Parameters) }, func() interface{} { return ck1() }, ckEq})
	bg1 := func() *bgv.Parameters {
		return mkBGV(bgv.ParametersLiteral{LogN: 5, LogQ: []int{30, 30}, LogP: []int{31}, PlaintextModulus: 65537})
	}
	bg2 := func() *bgv.Parameters {
		return mkBGV(bgv.ParametersLiteral{LogN: 4, LogQ: []int{40}, PlaintextModulus: 97, Xs: ring.Ternary{P: 0.5}})
	}
	bgEq := func(a, b interface{}) bool { return a.(*bgv.Parameters).Equal(b.(*bgv.Parameters)) }
	cases = append(cases,
		c08JSONCase{"bgv.Parameters", "logN5-t65537", bg1(), func() interface{} { return new(bgv.Parameters) }, func() interface{} { return bg2() }, bgEq},
		c08JSONCase{"bgv.Parameters", "logN4-t97", bg2(), func() interface{} { return new(bgv.Parameters) }, func() interface{} { return bg1() }, bgEq})
	deep := func(a, b interface{}) bool { return reflect.DeepEqual(a, b) }
	bl1 := func() *bootstrapping.ParametersLiteral {
		return &bootstrapping.ParametersLiteral{
			CoeffsToSlotsFactorizationDepthAndLogScales: [][]int{{53}, {53}},
			SlotsToCoeffsFactorizationDepthAndLogScales: [][]int{{30}, {30, 30}},
			EvalModLogScale:      utils.Pointy(59),
			IterationsParameters: &bootstrapping.IterationsParameters{BootstrappingPrecision: []float64{20, 20}, ReservedPrimeBitSize: 20},
			Mod1Degree:           utils.Pointy(32),
		}
	}
	bl2 := func() *bootstrapping.ParametersLiteral {
		return &bootstrapping.ParametersLiteral{LogN: utils.Pointy(12), LogP: []int{61}, K: utils.Pointy(12), DoubleAngle: utils.Pointy(2), Mod1Type: mod1.SinContinuous}
	}
	bl3 := func() *bootstrapping.ParametersLiteral {
		return &bootstrapping.ParametersLiteral{LogN: utils.Pointy(12), Xs: ring.Ternary{H: 64}}
	}
	nb := func() interface{} { return new(bootstrapping.ParametersLiteral) }
	cases = append(cases,
		c08JSONCase{"bootstrapping.ParametersLiteral", "c2s+s2c+iter", bl1(), nb, func() interface{} { return bl2() }, deep},
		c08JSONCase{"bootstrapping.ParametersLiteral", "logN12-K12", bl2(), nb, func() interface{} { return bl1() }, deep},
		c08JSONCase{"bootstrapping.ParametersLiteral", "with-Xs", bl3(), nb, func() interface{} { return bl2() }, deep},
		// a value without distributions decoded into a receiver that has them
		c08JSONCase{"bootstrapping.ParametersLiteral", "logN12-K12-into-Xs-Xe", bl2(), nb, func() interface{} {
			x := bl3()
			x.Xe = ring.DiscreteGaussian{Sigma: 3.2, Bound: 19}
			return x
		}, deep},
		// pointer fields that point to the zero value are not the same as nil fields (nil = default)
		c08JSONCase{"bootstrapping.ParametersLiteral", "zero-valued-pointers", &bootstrapping.ParametersLiteral{
			LogN: utils.Pointy(0), LogSlots: utils.Pointy(0), EvalModLogScale: utils.Pointy(0), EphemeralSecretWeight: utils.Pointy(0),
			LogMessageRatio: utils.Pointy(0), K: utils.Pointy(0), Mod1Degree: utils.Pointy(0), DoubleAngle: utils.Pointy(0), Mod1InvDegree: utils.Pointy(0),
			LogP: []int{}, CoeffsToSlotsFactorizationDepthAndLogScales: [][]int{{}}, IterationsParameters: &bootstrapping.IterationsParameters{},
		}, nb, func() interface{} { return bl1() }, deep},
		c08JSONCase{"bootstrapping.ParametersLiteral", "all-nil", &bootstrapping.ParametersLiteral{}, nb, func() interface{} {
			return &bootstrapping.ParametersLiteral{LogN: utils.Pointy(0), K: utils.Pointy(0), DoubleAngle: utils.Pointy(3), Xs: ring.Ternary{H: 1}}
		}, deep})
	m1 := func() *mod1.ParametersLiteral {
		return &mod1.ParametersLiteral{LevelQ: 10, LogScale: 60, Mod1Type: mod1.CosDiscrete, LogMessageRatio: 8, K: 12, Mod1Degree: 30, DoubleAngle: 3}
	}
	m2 := func() *mod1.ParametersLiteral {
		return &mod1.ParametersLiteral{LevelQ: 3, LogScale: 55, Mod1Type: mod1.SinContinuous, Scaling: 0.5, K: 16, Mod1Degree: 63, Mod1InvDegree: 7}
	}
	nm := func() interface{} { return new(mod1.ParametersLiteral) }
	cases = append(cases,
		c08JSONCase{"mod1.ParametersLiteral", "cos", m1(), nm, func() interface{} { return m2() }, deep},
		c08JSONCase{"mod1.ParametersLiteral", "sin", m2(), nm, func() interface{} { return m1() }, deep})
	d1 := func() *dft.MatrixLiteral {
		return &dft.MatrixLiteral{Type: dft.HomomorphicEncode, LogSlots: 4, LevelQ: 3, LevelP: 0, Levels: []int{1, 1}, Scaling: big.NewFloat(0.25), BitReversed: true, LogBSGSRatio: 1}
	}
	d2 := func() *dft.MatrixLiteral {
		return &dft.MatrixLiteral{Type: dft.HomomorphicDecode, LogSlots: 3, LevelQ: 1, Levels: []int{1}, Format: dft.RepackImagAsReal}
	}
	dEq := func(a, b interface{}) bool {
		x, y := *a.(*dft.MatrixLiteral), *b.(*dft.MatrixLiteral)
		sx, sy := x.Scaling, y.Scaling
		x.Scaling, y.Scaling = nil, nil
		if (sx == nil) != (sy == nil) || (sx != nil && sx.Cmp(sy) != 0) {
			return false
		}
		return reflect.DeepEqual(x, y)
	}
	nd := func() interface{} { return new(dft.MatrixLiteral) }
	cases = append(cases,
		c08JSONCase{"dft.MatrixLiteral", "encode", d1(), nd, func() interface{} { return d2() }, dEq},
		c08JSONCase{"dft.MatrixLiteral", "decode", d2(), nd, func() interface{} { return d1() }, dEq})

	for _, k := range cases {
		id := k.goType + " " + k.label
		c.Count("type:" + k.goType)
		var b []byte
		if cls := c08Call(func() (err error) { b, err = k.val.(c08BinMarsh).MarshalBinary(); return }); cls != "ok" {
			c.Probe("write", id, c08Key(k.goType, "MarshalBinary", strings.ReplaceAll(cls, ":", "-")), "MarshalBinary on a valid value: "+cls)
			continue
		}
		jb, err := json.Marshal(k.val)
		detail := ""
		if err != nil || string(jb) != string(b) {
			detail = "json.Marshal and MarshalBinary differ"
		}
		c.Probe("writers_agree", id+" json.Marshal", c08Key(k.goType, "MarshalJSON", "bytes-differ"), detail)
		if rt := reflect.TypeOf(k.val).Elem(); rt.Kind() == reflect.Struct && strings.Contains(rt.Name(), "Literal") {
			var keys map[string]json.RawMessage
			detail := ""
			if err := json.Unmarshal(b, &keys); err != nil {
				detail = "the encoding is not a JSON object"
			} else {
				for i := 0; i < rt.NumField(); i++ {
					f := rt.Field(i)
					if _, ok := keys[f.Name]; f.IsExported() && !ok && !strings.Contains(string(f.Tag), "omitempty") {
						detail = "field " + f.Name + " of the struct is missing from its JSON encoding"
						break
					}
				}
			}
			c.Probe("json_fields", id, c08Key(k.goType, "MarshalJSON", "field-not-serialised"), detail)
		}
		for _, mode := range []string{"fresh", "dirty"} {
			recv := k.fresh()
			if mode == "dirty" {
				recv = k.dirty()
			}
			cls := c08Call(func() error { return recv.(c08BinMarsh).UnmarshalBinary(b) })
			detail, sym := "", ""
			if cls != "ok" {
				detail, sym = "UnmarshalBinary(MarshalBinary(v)): "+cls, "valid-encoding-rejected"
			} else if !k.eq(k.val, recv) {
				detail, sym = "decoded value differs from the original", "value-differs"
				if mode == "dirty" {
					sym = "receiver-state-leaks"
				}
				if mode == "dirty" && k.goType == "bootstrapping.ParametersLiteral" {
					sym = "stale-Xs-Xe"
				}
			}
			c.Probe("roundtrip_"+mode, id+" UnmarshalBinary", c08Key(k.goType, "UnmarshalBinary", sym), detail)
		}
		// truncation of the JSON text
		counts := map[string]int{}
		firstOK := -1
		for n := 0; n < len(b); n++ {
			recv := k.fresh()
			cls := c08Call(func() error { return recv.(c08BinMarsh).UnmarshalBinary(b[:n]) })
			counts[cls]++
			if cls == "ok" && firstOK < 0 {
				firstOK = n
			}
		}
		detail = ""
		sym := ""
		if w := c08Worst(counts); strings.HasPrefix(w, "panic") {
			detail, sym = "outcomes{"+c08CountsStr(counts)+"}", "panic-on-truncated-input"
		} else if counts["ok"] > 0 {
			detail, sym = fmt.Sprintf("outcomes{%s} first accepted prefix length %d", c08CountsStr(counts), firstOK), "truncated-input-accepted"
		}
		c.Probe("truncation", id+" UnmarshalBinary", c08Key(k.goType, "UnmarshalBinary", sym), detail)
	}
}
