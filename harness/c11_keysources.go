package main

// C11, part "key sources and key histories": the rotation / conjugation value statement holds whatever way the
// Galois key was obtained.
//
// `keysource_value`: for EVERY Galois element of the ring (5^k for every k, and 5^k·(2N−1) on the standard ring: the
// order-two element X→X^-1 included) and every source of keys
//
//	GenGaloisKeyNew | GenGaloisKeysNew | GenGaloisKey (in place) | GenGaloisKeys (in place, allocated and nil entries) |
//	multiparty GaloisKeyGenProtocol with 1 and 3 parties | compressed + Expand | MarshalBinary/UnmarshalBinary |
//	WriteTo/ReadFrom | MemEvaluationKeySet serialisation round trip
//
// rlwe Automorphism — and the scheme-level Rotate / Conjugate (ckks), RotateColumns / RotateRows (bgv) — decrypt
// to the documented slot permutation.
// `keyhistory_value`: the same after a key-refresh history through every in-place generation API: the key objects first
// receive keys for ANOTHER secret (and for other Galois elements), then are regenerated in place for the secret in use.
// `automorphismNTT_spec`: ring.AutomorphismNTT(p, g) = NTT(Automorphism(INTT(p), g)) for every Galois element (it is
// the map applied to the secret by the multiparty protocol).

import (
	"bytes"
	"fmt"

	"github.com/tuneinsight/lattigo/v6/core/rlwe"
	"github.com/tuneinsight/lattigo/v6/multiparty"
	"github.com/tuneinsight/lattigo/v6/ring"
	"github.com/tuneinsight/lattigo/v6/utils/sampling"
)

// c11Elem is one Galois element with its slot semantics: rotate by k, then (conj) conjugate / swap rows.
type c11Elem struct {
	g    uint64
	k    int
	conj bool
}

func (x *c11Ctx) allElems() (out []c11Elem) {
	nRot := x.cols
	seen := map[uint64]bool{}
	for k := 0; k < nRot; k++ {
		g := x.rp.GaloisElement(k)
		if !seen[g] {
			seen[g] = true
			out = append(out, c11Elem{g, k, false})
		}
		if x.rt == "std" {
			h := (g * (x.nthRoot - 1)) & (x.nthRoot - 1)
			if !seen[h] {
				seen[h] = true
				out = append(out, c11Elem{h, k, true})
			}
		}
	}
	return
}

func (x *c11Ctx) refElem(v []int64, e c11Elem) []int64 {
	w := x.refRot(v, e.k)
	if e.conj {
		w = x.refConj(w)
	}
	return w
}

// withSecret runs f with the context's encryptor / decryptor bound to sk.
func (x *c11Ctx) withSecret(sk *rlwe.SecretKey, f func()) {
	enc, dec, old := x.enc, x.dec, x.sk
	x.sk = sk
	x.enc = rlwe.NewEncryptor(x.rp, sk)
	x.dec = rlwe.NewDecryptor(x.rp, sk)
	defer func() { x.enc, x.dec, x.sk = enc, dec, old }()
	f()
}

// collective runs the Galois key generation protocol among the given parties.
func (x *c11Ctx) collective(sks []*rlwe.SecretKey, g uint64, seed byte, into *rlwe.GaloisKey) (*rlwe.GaloisKey, error) {
	crs, err := sampling.NewKeyedPRNG([]byte{'c', '1', '1', seed, byte(g), byte(g >> 8)})
	if err != nil {
		return nil, err
	}
	var agg multiparty.GaloisKeyGenShare
	var crp multiparty.GaloisKeyGenCRP
	var last multiparty.GaloisKeyGenProtocol
	for i, sk := range sks {
		p := multiparty.NewGaloisKeyGenProtocol(x.rp)
		if i == 0 {
			crp = p.SampleCRP(crs)
		}
		sh := p.AllocateShare()
		if err := p.GenShare(sk, g, crp, &sh); err != nil {
			return nil, err
		}
		if i == 0 {
			agg = sh
		} else if err := p.AggregateShares(agg, sh, &agg); err != nil {
			return nil, err
		}
		last = p
	}
	gk := into // finalisation into an existing key object, if any
	if gk == nil {
		gk = rlwe.NewGaloisKey(x.rp)
	}
	if err := last.GenGaloisKey(agg, crp, gk); err != nil {
		return nil, err
	}
	return gk, nil
}

// sumSecrets returns the collective secret Σ sk_i.
func (x *c11Ctx) sumSecrets(sks []*rlwe.SecretKey) *rlwe.SecretKey {
	s := rlwe.NewSecretKey(x.rp)
	rqp := x.rp.RingQP()
	for _, sk := range sks {
		rqp.Add(s.Value, sk.Value, s.Value)
	}
	return s
}

type c11KeySrc struct {
	name string
	sk   func() *rlwe.SecretKey                       // secret the keys are for
	gen  func(gs []uint64) ([]*rlwe.GaloisKey, error) // keys, aligned with gs
}

func (x *c11Ctx) keySources(c *Ctx) []c11KeySrc {
	own := func() *rlwe.SecretKey { return x.sk }
	each := func(f func(g uint64) (*rlwe.GaloisKey, error)) func(gs []uint64) ([]*rlwe.GaloisKey, error) {
		return func(gs []uint64) ([]*rlwe.GaloisKey, error) {
			out := make([]*rlwe.GaloisKey, len(gs))
			for i, g := range gs {
				k, err := f(g)
				if err != nil {
					return nil, err
				}
				out[i] = k
			}
			return out, nil
		}
	}
	p2, p3 := x.kgen.GenSecretKeyNew(), x.kgen.GenSecretKeyNew()
	parties := []*rlwe.SecretKey{x.sk, p2, p3}
	coll := x.sumSecrets(parties)
	return []c11KeySrc{
		{"GenGaloisKeyNew", own, each(func(g uint64) (*rlwe.GaloisKey, error) { return x.kgen.GenGaloisKeyNew(g, x.sk), nil })},
		{"GenGaloisKeysNew", own, func(gs []uint64) ([]*rlwe.GaloisKey, error) { return x.kgen.GenGaloisKeysNew(gs, x.sk), nil }},
		{"GenGaloisKey-inplace", own, each(func(g uint64) (*rlwe.GaloisKey, error) {
			gk := rlwe.NewGaloisKey(x.rp)
			x.kgen.GenGaloisKey(g, x.sk, gk)
			return gk, nil
		})},
		{"GenGaloisKeys-inplace", own, func(gs []uint64) ([]*rlwe.GaloisKey, error) {
			gks := make([]*rlwe.GaloisKey, len(gs))
			for i := range gks {
				if i%2 == 0 { // odd entries stay nil: allocated by the call
					gks[i] = rlwe.NewGaloisKey(x.rp)
				}
			}
			x.kgen.GenGaloisKeys(gs, x.sk, gks)
			return gks, nil
		}},
		{"multiparty-1", own, each(func(g uint64) (*rlwe.GaloisKey, error) { return x.collective(parties[:1], g, 1, nil) })},
		{"multiparty-3", func() *rlwe.SecretKey { return coll }, each(func(g uint64) (*rlwe.GaloisKey, error) { return x.collective(parties, g, 3, nil) })},
		{"compressed-expand", own, each(func(g uint64) (*rlwe.GaloisKey, error) {
			gk := x.kgen.GenGaloisKeyNew(g, x.sk, rlwe.EvaluationKeyParameters{Compressed: true})
			return gk, gk.Expand(x.rp, nil)
		})},
		{"marshal-roundtrip", own, each(func(g uint64) (*rlwe.GaloisKey, error) {
			b, err := x.kgen.GenGaloisKeyNew(g, x.sk).MarshalBinary()
			if err != nil {
				return nil, err
			}
			gk := new(rlwe.GaloisKey)
			return gk, gk.UnmarshalBinary(b)
		})},
		{"writeto-readfrom", own, each(func(g uint64) (*rlwe.GaloisKey, error) {
			var buf bytes.Buffer
			if _, err := x.kgen.GenGaloisKeyNew(g, x.sk).WriteTo(&buf); err != nil {
				return nil, err
			}
			gk := new(rlwe.GaloisKey)
			_, err := gk.ReadFrom(&buf)
			return gk, err
		})},
		{"keyset-roundtrip", own, func(gs []uint64) ([]*rlwe.GaloisKey, error) {
			set := rlwe.NewMemEvaluationKeySet(nil, x.kgen.GenGaloisKeysNew(gs, x.sk)...)
			b, err := set.MarshalBinary()
			if err != nil {
				return nil, err
			}
			back := new(rlwe.MemEvaluationKeySet)
			if err := back.UnmarshalBinary(b); err != nil {
				return nil, err
			}
			out := make([]*rlwe.GaloisKey, len(gs))
			for i, g := range gs {
				if out[i], err = back.GetGaloisKey(g); err != nil {
					return nil, err
				}
			}
			return out, nil
		}},
	}
}

// useKey checks rlwe Automorphism (and the scheme-level spelling of e, if any) with exactly gk.
func (x *c11Ctx) useKey(c *Ctx, probe, key, desc string, e c11Elem, gk *rlwe.GaloisKey) {
	evk := rlwe.NewMemEvaluationKeySet(nil, gk)
	check := func(op string, f func(ct *rlwe.Ciphertext) (*rlwe.Ciphertext, error)) {
		v := x.randVec(c, 1)
		var out *rlwe.Ciphertext
		st := c11TryErr(func() (err error) {
			out, err = f(x.encrypt(v))
			return
		})
		det := ""
		if st != "" {
			det = "status=" + st
		} else {
			saved := x.maxRoundErr
			got, ds := x.readAs(out)
			want := x.refElem(v, e)
			if ds != "" {
				det = ds
			} else if !c11Eq(got, want) {
				det = fmt.Sprintf("v=%s got=%s want=%s", c11I64Vec(v), c11I64Vec(got), c11I64Vec(want))
			}
			if det != "" {
				x.maxRoundErr = saved
			}
		}
		c.Probe(probe, fmt.Sprintf("%s %s galEl=%d (rot %d conj=%v)", desc, op, e.g, e.k, e.conj), key, det)
	}
	check("Automorphism", func(ct *rlwe.Ciphertext) (*rlwe.Ciphertext, error) {
		ev, _ := x.rlweEval(evk)
		out := x.newCt()
		return out, ev.Automorphism(ct, e.g, out)
	})
	switch {
	case x.name == "bgv" && !e.conj && e.k != 0:
		check("RotateColumns", func(ct *rlwe.Ciphertext) (*rlwe.Ciphertext, error) {
			return x.bgvEv.WithKey(evk).RotateColumnsNew(ct, e.k)
		})
	case x.name == "bgv" && e.conj && e.k == 0:
		check("RotateRows", func(ct *rlwe.Ciphertext) (*rlwe.Ciphertext, error) { return x.bgvEv.WithKey(evk).RotateRowsNew(ct) })
	case x.name != "bgv" && !e.conj && e.k != 0:
		check("Rotate", func(ct *rlwe.Ciphertext) (*rlwe.Ciphertext, error) { return x.ckksEv.WithKey(evk).RotateNew(ct, e.k) })
	case x.name == "ckks" && e.conj && e.k == 0:
		check("Conjugate", func(ct *rlwe.Ciphertext) (*rlwe.Ciphertext, error) { return x.ckksEv.WithKey(evk).ConjugateNew(ct) })
	}
}

func c11KeySources(c *Ctx) {
	ctxs := []*c11Ctx{newC11CKKS(4, true, false), newC11BGV(4, true), newC11CKKS(4, true, true)}
	if c.Thorough() {
		ctxs = append(ctxs, newC11CKKS(5, true, false), newC11BGV(5, true), newC11CKKS(5, true, true))
	}
	for _, x := range ctxs {
		c11AutNTTSpec(c, x)
		elems := x.allElems()
		gs := make([]uint64, len(elems))
		for i, e := range elems {
			gs[i] = e.g
		}
		for _, src := range x.keySources(c) {
			var gks []*rlwe.GaloisKey
			st := c11TryErr(func() (err error) {
				gks, err = src.gen(gs)
				return
			})
			if st != "" {
				c.Probe("keysource_value", fmt.Sprintf("%s src=%s generation", x.tag(), src.name), "C11-keysource-"+src.name, "status="+st)
				continue
			}
			x.withSecret(src.sk(), func() {
				for i, e := range elems {
					x.useKey(c, "keysource_value", "C11-keysource-"+src.name, fmt.Sprintf("%s src=%s", x.tag(), src.name), e, gks[i])
				}
			})
			c.Count("keysource:" + x.name + ":" + src.name)
		}
		c11KeyHistories(c, x, elems)
		det := ""
		if x.t == 0 && !(x.maxRoundErr < 0.05) {
			det = fmt.Sprintf("max |x-round(x)| = %g (tolerance 0.05)", x.maxRoundErr)
		}
		c.Probe("ckks_round_margin", "keysources "+x.tag(), "C11-ckks-precision", det)
	}
}

// c11KeyHistories: the key objects first hold keys for another secret / other elements, then are regenerated in place.
func c11KeyHistories(c *Ctx, x *c11Ctx, elems []c11Elem) {
	other := x.kgen.GenSecretKeyNew()
	n := len(elems)
	gs := make([]uint64, n)
	shifted := make([]uint64, n) // another assignment of elements to the same objects
	for i, e := range elems {
		gs[i] = e.g
		shifted[i] = elems[(i+1)%n].g
	}
	type hist struct {
		name string
		run  func() ([]*rlwe.GaloisKey, error)
	}
	hists := []hist{
		{"GenGaloisKeys:other-secret-same-elements", func() ([]*rlwe.GaloisKey, error) {
			gks := make([]*rlwe.GaloisKey, n)
			x.kgen.GenGaloisKeys(gs, other, gks)
			x.kgen.GenGaloisKeys(gs, x.sk, gks)
			return gks, nil
		}},
		{"GenGaloisKeys:other-secret-other-elements", func() ([]*rlwe.GaloisKey, error) {
			gks := make([]*rlwe.GaloisKey, n)
			x.kgen.GenGaloisKeys(shifted, other, gks)
			x.kgen.GenGaloisKeys(gs, x.sk, gks)
			return gks, nil
		}},
		{"GenGaloisKeys:same-secret-other-elements", func() ([]*rlwe.GaloisKey, error) {
			gks := x.kgen.GenGaloisKeysNew(shifted, x.sk)
			x.kgen.GenGaloisKeys(gs, x.sk, gks)
			return gks, nil
		}},
		{"GenGaloisKey:other-secret-same-element", func() ([]*rlwe.GaloisKey, error) {
			gks := x.kgen.GenGaloisKeysNew(gs, other)
			for i := range gks {
				x.kgen.GenGaloisKey(gs[i], x.sk, gks[i])
			}
			return gks, nil
		}},
		{"GenGaloisKey:other-secret-other-element", func() ([]*rlwe.GaloisKey, error) {
			gks := x.kgen.GenGaloisKeysNew(shifted, other)
			for i := range gks {
				x.kgen.GenGaloisKey(gs[i], x.sk, gks[i])
			}
			return gks, nil
		}},
		{"multiparty.GenGaloisKey:over-single-party-key-of-other-secret", func() ([]*rlwe.GaloisKey, error) {
			gks := x.kgen.GenGaloisKeysNew(gs, other)
			for i := range gks {
				if _, err := x.collective([]*rlwe.SecretKey{x.sk}, gs[i], 7, gks[i]); err != nil {
					return nil, err
				}
			}
			return gks, nil
		}},
		{"GenGaloisKeys:twice-then-keyset", func() ([]*rlwe.GaloisKey, error) {
			gks := make([]*rlwe.GaloisKey, n)
			x.kgen.GenGaloisKeys(gs, other, gks)
			set := rlwe.NewMemEvaluationKeySet(nil, gks...) // the set shares the objects
			x.kgen.GenGaloisKeys(gs, x.sk, gks)
			out := make([]*rlwe.GaloisKey, n)
			for i := range gs {
				var err error
				if out[i], err = set.GetGaloisKey(gs[i]); err != nil {
					return nil, err
				}
			}
			return out, nil
		}},
	}
	for _, h := range hists {
		var gks []*rlwe.GaloisKey
		st := c11TryErr(func() (err error) {
			gks, err = h.run()
			return
		})
		if st != "" {
			c.Probe("keyhistory_value", fmt.Sprintf("%s hist=%s generation", x.tag(), h.name), "C11-keyhistory", "status="+st)
			continue
		}
		for i, e := range elems {
			x.useKey(c, "keyhistory_value", "C11-keyhistory", fmt.Sprintf("%s hist=%s", x.tag(), h.name), e, gks[i])
		}
		c.Count("keyhistory:" + x.name)
	}
}

// c11AutNTTSpec: ring.AutomorphismNTT against the coefficient-domain automorphism, every Galois element.
func c11AutNTTSpec(c *Ctx, x *c11Ctx) {
	for _, r := range []*ring.Ring{x.rp.RingQ(), x.rp.RingP()} {
		if r == nil {
			continue
		}
		N := r.N()
		p := r.NewPoly()
		for i := range p.Coeffs {
			for j := 0; j < N; j++ {
				p.Coeffs[i][j] = c.rng.Below(r.SubRings[i].Modulus)
			}
		}
		coeff := r.NewPoly()
		r.INTT(p, coeff)
		for _, e := range x.allElems() {
			got, want, tmp := r.NewPoly(), r.NewPoly(), r.NewPoly()
			st := c11TryErr(func() error {
				r.AutomorphismNTT(p, e.g, got)
				r.Automorphism(coeff, e.g, tmp)
				r.NTT(tmp, want)
				return nil
			})
			det := ""
			if st != "" {
				det = "status=" + st
			} else if !got.Equal(&want) {
				det = fmt.Sprintf("N=%d NthRoot=%d: AutomorphismNTT(p, %d) != NTT(Automorphism(INTT p, %d))", N, r.NthRoot(), e.g, e.g)
			}
			c.Probe("automorphismNTT_spec", fmt.Sprintf("%s levels=%d galEl=%d", x.tag(), r.Level()+1, e.g), "C11-automorphismNTT", det)
		}
	}
}
