package main

// C11, part "coefficient-domain inputs": every rotation / sum operation of rlwe.Evaluator accepts a ciphertext
// with IsNTT = false (it converts internally). Probes `nonntt_value`: the input is an encryption of v brought to
// the coefficient domain (INTT of both components, IsNTT = false); the result, read with the NTT flag it records
// itself, must decrypt to the documented rotation / sum (key C11-nonntt-single-copy for n = 1, C11-nonntt-value
// otherwise); `nonntt_flag`: the result records IsNTT = false like its input ("opOut gets the metadata of ctIn";
// a result that is correct once read with the right flag fails this probe only).
// n = 1 (plain copy), powers of two and non-powers-of-two, out of place and in place.

import (
	"fmt"

	"github.com/tuneinsight/lattigo/v6/core/rlwe"
)

// toCoeff returns a coefficient-domain copy of ct.
func (x *c11Ctx) toCoeff(ct *rlwe.Ciphertext) *rlwe.Ciphertext {
	r := ct.CopyNew()
	rQ := x.rp.RingQ().AtLevel(r.Level())
	for i := range r.Value {
		rQ.INTT(r.Value[i], r.Value[i])
	}
	r.IsNTT = false
	return r
}

// readAs decrypts ct trusting its own IsNTT flag (rlwe.Decryptor and the encoders honour it).
func (x *c11Ctx) readAs(ct *rlwe.Ciphertext) (out []int64, status string) {
	defer func() {
		if r := recover(); r != nil {
			out, status = nil, fmt.Sprintf("decode-panic: %v", r)
		}
	}()
	return x.decrypt(ct), ""
}

func c11NonNTT(c *Ctx, x *c11Ctx) {
	if !x.hasP {
		return
	}
	type opT struct {
		name string
		n    int
		adv  []uint64
		want func(v []int64) []int64
		run  c11RunFn
	}
	var ops []opT
	for _, bn := range [][2]int{{1, 1}, {2, 1}, {3, 1}, {1, 2}, {1, 3}, {2, 3}, {1, 4}, {3, 5}} {
		b, n := bn[0], bn[1]
		if b*n > x.slots {
			continue
		}
		ops = append(ops,
			opT{fmt.Sprintf("pts %d %d", b, n), n, rlwe.GaloisElementsForInnerSum(x.rp, b, n), func(v []int64) []int64 { return x.refSum(v, b, n) },
				func(ev *rlwe.Evaluator, _ func(a, b, c *rlwe.Ciphertext) error, ct, out *rlwe.Ciphertext, _ rlwe.EvaluationKeySet) error {
					return ev.PartialTracesSum(ct, b, n, out)
				}},
			opT{fmt.Sprintf("innerfunction %d %d", b, n), n, rlwe.GaloisElementsForInnerSum(x.rp, b, n), func(v []int64) []int64 { return x.refSum(v, b, n) },
				func(ev *rlwe.Evaluator, add func(a, b, c *rlwe.Ciphertext) error, ct, out *rlwe.Ciphertext, _ rlwe.EvaluationKeySet) error {
					return ev.InnerFunction(ct, b, n, add, out)
				}},
			opT{fmt.Sprintf("replicate %d %d", b, n), n, rlwe.GaloisElementsForReplicate(x.rp, b, n), func(v []int64) []int64 { return x.refSum(v, -b, n) },
				func(ev *rlwe.Evaluator, _ func(a, b, c *rlwe.Ciphertext) error, ct, out *rlwe.Ciphertext, _ rlwe.EvaluationKeySet) error {
					return ev.Replicate(ct, b, n, out)
				}},
			opT{fmt.Sprintf("rotateandadd %d %d", b, n), n, x.schemeInnerSumList(b, n), func(v []int64) []int64 { return x.refSum(v, b, n) }, x.schemeRotateAndAdd(b, n)},
		)
	}
	for _, k := range []int{0, 1, 3} {
		k := k
		g := x.rp.GaloisElement(k)
		ops = append(ops, opT{fmt.Sprintf("automorphism %d", k), 0, []uint64{g}, func(v []int64) []int64 { return x.refRot(v, k) },
			func(ev *rlwe.Evaluator, _ func(a, b, c *rlwe.Ciphertext) error, ct, out *rlwe.Ciphertext, _ rlwe.EvaluationKeySet) error {
				return ev.Automorphism(ct, g, out)
			}})
	}
	for _, o := range ops {
		for _, inplace := range []bool{false, true} {
			v := x.randVec(c, 1)
			evk, _, _ := x.keysFor(o.adv, false)
			ev, add := x.rlweEval(evk)
			ct := x.toCoeff(x.encrypt(v))
			out := x.newCt()
			if inplace {
				out = ct
			}
			st := c11TryErr(func() error { return o.run(ev, add, ct, out, evk) })
			args := fmt.Sprintf("%s %s inplace=%v %s", x.tag(), o.name, inplace, c11I64Vec(v))
			det := ""
			if st != "" {
				det = "status=" + st
			} else {
				want := o.want(v)
				saved := x.maxRoundErr
				got, ds := x.readAs(out)
				if ds != "" || !c11Eq(got, want) {
					x.maxRoundErr = saved // the rounding error of a wrong result says nothing about the CKKS margin
				}
				if (ds != "" || !c11Eq(got, want)) && out.IsNTT {
					// mis-flagged but otherwise correct results are reported by nonntt_flag alone
					alt := out.CopyNew()
					alt.IsNTT = false
					if g2, d2 := x.readAs(alt); d2 == "" && c11Eq(g2, want) {
						got, ds = g2, ""
					}
				}
				if ds != "" {
					det = ds
				} else if !c11Eq(got, want) {
					det = fmt.Sprintf("got=%s want=%s resultIsNTT=%v", c11I64Vec(got), c11I64Vec(want), out.IsNTT)
				}
			}
			key := "C11-nonntt-value"
			if o.n == 1 {
				key = "C11-nonntt-single-copy"
			}
			c.Probe("nonntt_value", args, key, det)
			det = ""
			if st == "" && out.IsNTT {
				det = "input IsNTT=false, result records IsNTT=true"
			}
			c.Probe("nonntt_flag", args, "C11-nonntt-flag", det)
		}
	}
}
