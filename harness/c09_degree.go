package main

// C09 — degrees 0/1/2 and levels in the pointer-branching routines.
//
//   aliasd <opD> <pattern> <d0> <d1> <dOut> <s0> <s1>   tie: operands of degree d0, d1 (a degree-0 operand is a
//        plaintext element wrapped in a *rlwe.Ciphertext, a degree-2 operand a non-relinearised product), a
//        distinct receiver that previously held garbage of degree dOut; outcome class of the call under the
//        pattern against the all-distinct call into a fresh receiver of the natural degree:
//        same-as-fresh | differs | err | panic  — must equal `predictAliasD` of Lattigo/Model/Store.lean
//   shape <opS> <pattern> <sh0> <sh1> <shOut>           tie: levels of the polynomials of op0, op1 and of the receiver
//        before the call ⇒ levels of the receiver's polynomials after it (err | panic) — `OpS.shapeAfter`
//   probes: alias_insensitive_degrees/…, inputs_unchanged_degrees/…, no_panic/…[degrees] (key
//        C09/mul-receiver-degree0-panics for the 1⊗1 product into a degree-0 receiver: panicked before commit e9e846c),
//        receiver_levels_uniform/… (after an accepted call every polynomial of the receiver is at the receiver's level;
//        key C09/resize-skips-polynomials-when-first-at-level: failed before commit 114cfa0)

import (
	"fmt"
	"math/big"
	"strings"

	"github.com/tuneinsight/lattigo/v6/core/rlwe"
)

type c09DegOp struct {
	name  string // model name (opD)
	goNam string
	call  func(ev *c09Evals, a, b, o *rlwe.Ciphertext) error
	relin bool
	mul   bool
}

func (e *c09Env) degOps() []c09DegOp {
	if e.scheme == "ckks" {
		return []c09DegOp{
			{"ckksAdd", "ckks.Evaluator.Add", func(ev *c09Evals, a, b, o *rlwe.Ciphertext) error { return ev.ckks.Add(a, b, o) }, false, false},
			{"ckksSub", "ckks.Evaluator.Sub", func(ev *c09Evals, a, b, o *rlwe.Ciphertext) error { return ev.ckks.Sub(a, b, o) }, false, false},
			{"ckksMul", "ckks.Evaluator.Mul", func(ev *c09Evals, a, b, o *rlwe.Ciphertext) error { return ev.ckks.Mul(a, b, o) }, false, true},
			{"ckksMulRelin", "ckks.Evaluator.MulRelin", func(ev *c09Evals, a, b, o *rlwe.Ciphertext) error { return ev.ckks.MulRelin(a, b, o) }, true, true},
		}
	}
	return []c09DegOp{
		{"bgvMul", "bgv.Evaluator.Mul", func(ev *c09Evals, a, b, o *rlwe.Ciphertext) error { return ev.bgv.Mul(a, b, o) }, false, true},
		{"bgvMulRelin", "bgv.Evaluator.MulRelin", func(ev *c09Evals, a, b, o *rlwe.Ciphertext) error { return ev.bgv.MulRelin(a, b, o) }, true, true},
	}
}

// an operand of the requested degree at level lvl; scale = default scale × mul (ckks)
func (e *c09Env) degOperand(seedv, deg, lvl int, mul uint64) *rlwe.Ciphertext {
	var ct *rlwe.Ciphertext
	switch deg {
	case 0:
		pt := e.encode(seedv, lvl, 1)
		ct = &rlwe.Ciphertext{Element: *pt.El().CopyNew()}
	case 1:
		ct = e.encrypt(seedv, lvl, 1)
	default:
		x, y := e.encrypt(seedv, lvl, 1), e.encrypt(seedv+1, lvl, 1)
		ct = e.newCt(2, lvl)
		ev := e.evals()
		var err error
		if ev.bgv != nil {
			err = ev.bgv.Mul(x, y, ct)
		} else {
			err = ev.ckks.Mul(x, y, ct)
		}
		if err != nil {
			panic(err)
		}
		ct.Scale = x.Scale // the metadata only: the operations under test never look at the content
	}
	if e.scheme == "ckks" && mul != 1 {
		ct.Scale = ct.Scale.Mul(rlwe.NewScale(mul))
	}
	return ct
}

func c09NaturalDegree(op c09DegOp, bgvScheme bool, d0, d1 int) int {
	if !op.mul {
		return maxInt(d0, d1)
	}
	if d0 == 1 && d1 == 1 {
		if op.relin {
			return 1
		}
		return 2
	}
	if bgvScheme {
		return d0
	}
	return maxInt(d0, d1)
}

func maxInt(a, b int) int {
	if a > b {
		return a
	}
	return b
}

func c09Outcome(err error) string {
	if isPanic(err) {
		return "panic"
	}
	if err != nil {
		return "err"
	}
	return ""
}

func (e *c09Env) runDegrees() {
	c := e.c
	lvl := e.maxLevel()
	bgvScheme := e.scheme != "ckks"
	for _, op := range e.degOps() {
		rels := []string{"eq"}
		if !op.mul {
			rels = []string{"eq", "gt3", "lt3"}
			if c.Thorough() {
				rels = append(rels, "gt2", "lt8", "gt1024")
			}
		}
		for d0 := 0; d0 <= 2; d0++ {
			for d1 := 0; d1 <= 2; d1++ {
				for _, rel := range rels {
					mulA, mulB := uint64(1), uint64(1)
					if dir, k := c09Rel(rel); dir == "gt" {
						mulA = k
					} else if dir == "lt" {
						mulB = k
					}
					A := e.degOperand(1, d0, lvl, mulA)
					B := e.degOperand(3, d1, lvl, mulB)
					s0, s1 := c09Model(rel)
					// reference: all distinct, fresh receiver of the natural degree
					refRun := func(a, b *rlwe.Ciphertext, d0, d1 int) (c09FP, string) {
						out := e.newCt(c09NaturalDegree(op, bgvScheme, d0, d1), lvl)
						err := c09Err(func() error { return op.call(e.evals(), a, b, out) })
						if k := c09Outcome(err); k != "" {
							return c09FP{}, k
						}
						return e.fp(out), ""
					}
					type run struct {
						pat  string
						dOut int
						f    func() (*rlwe.Ciphertext, error, string) // result, error, detail about inputs
						ref  func() (c09FP, string)
						s0   int
						s1   int
					}
					var runs []run
					refAB := func() (c09FP, string) { return refRun(A.CopyNew(), B.CopyNew(), d0, d1) }
					for dOut := 0; dOut <= 2; dOut++ {
						dOut := dOut
						runs = append(runs, run{"distinct", dOut, func() (*rlwe.Ciphertext, error, string) {
							a, b, o := A.CopyNew(), B.CopyNew(), e.garbageCt(dOut, lvl)
							ha, hb := deepHash(a), deepHash(b)
							err := c09Err(func() error { return op.call(e.evals(), a, b, o) })
							d := ""
							if deepHash(a) != ha {
								d += "op0-changed "
							}
							if deepHash(b) != hb {
								d += "op1-changed"
							}
							return o, err, d
						}, refAB, s0, s1})
					}
					runs = append(runs, run{"out=op0", d0, func() (*rlwe.Ciphertext, error, string) {
						a, b := A.CopyNew(), B.CopyNew()
						hb := deepHash(b)
						err := c09Err(func() error { return op.call(e.evals(), a, b, a) })
						d := ""
						if deepHash(b) != hb {
							d = "op1-changed"
						}
						return a, err, d
					}, refAB, s0, s1})
					runs = append(runs, run{"out=op1", d1, func() (*rlwe.Ciphertext, error, string) {
						a, b := A.CopyNew(), B.CopyNew()
						ha := deepHash(a)
						err := c09Err(func() error { return op.call(e.evals(), a, b, b) })
						d := ""
						if deepHash(a) != ha {
							d = "op0-changed"
						}
						return b, err, d
					}, refAB, s0, s1})
					if d0 == d1 && rel == "eq" {
						refAA := func() (c09FP, string) { return refRun(A.CopyNew(), A.CopyNew(), d0, d0) }
						for dOut := 0; dOut <= 2; dOut++ {
							dOut := dOut
							runs = append(runs, run{"op0=op1", dOut, func() (*rlwe.Ciphertext, error, string) {
								a, o := A.CopyNew(), e.garbageCt(dOut, lvl)
								ha := deepHash(a)
								err := c09Err(func() error { return op.call(e.evals(), a, a, o) })
								d := ""
								if deepHash(a) != ha {
									d = "operand-changed"
								}
								return o, err, d
							}, refAA, 4, 4})
						}
						runs = append(runs, run{"all", d0, func() (*rlwe.Ciphertext, error, string) {
							a := A.CopyNew()
							err := c09Err(func() error { return op.call(e.evals(), a, a, a) })
							return a, err, ""
						}, refAA, 4, 4})
					}
					for _, r := range runs {
						sc := fmt.Sprintf("%s/logN%d/%s/d%d,%d/dOut%d", e.scheme, e.logN, rel, d0, d1, r.dOut)
						res, err, din := r.f()
						c.Count("degrees:" + op.name + "/" + r.pat)
						class := c09Outcome(err)
						if class == "panic" {
							key := "C09-panic-degrees-" + op.goNam + "/" + r.pat
							if op.mul && d0 == 1 && d1 == 1 && r.dOut == 0 {
								key = "C09/mul-receiver-degree0-panics"
							}
							c.Probe("no_panic/"+op.goNam+"[degrees]/"+r.pat, sc, key, err.Error())
						}
						if class == "" {
							want, refClass := r.ref()
							d := ""
							if refClass != "" {
								d = "reference-call-failed:" + refClass
							} else if got := e.fp(res); !got.same(want) {
								d = "result-differs"
								if got.meta != want.meta {
									d += "(meta:" + got.meta + "/fresh:" + want.meta + ")"
								}
								if got.dec != want.dec {
									d += "(decrypted)"
								}
							}
							c.Probe("alias_insensitive_degrees/"+op.goNam+"/"+r.pat, sc, "C09-aliasdeg-"+op.goNam+"/"+r.pat, d)
							c.Probe("inputs_unchanged_degrees/"+op.goNam+"/"+r.pat, sc, "C09-inputsdeg-"+op.goNam+"/"+r.pat, din)
							class = c09Class(d == "")
						}
						c.Emit(fmt.Sprintf("aliasd %s %s %d %d %d %d %d", op.name, r.pat, d0, d1, r.dOut, r.s0, r.s1), class)
					}
				}
			}
		}
	}
}

// ---- shapes ----

type c09ShapeOp struct {
	model string
	goNam string
	unary bool
	call  func(ev *c09Evals, a, b, o *rlwe.Ciphertext) error
}

func (e *c09Env) shapeOps() []c09ShapeOp {
	g1 := e.rp.GaloisElement(1)
	big5 := func() *big.Int { return new(big.Int).SetUint64(5) }
	var ops []c09ShapeOp
	if e.scheme == "ckks" {
		ops = append(ops,
			c09ShapeOp{"addLike", "ckks.Evaluator.Add", false, func(ev *c09Evals, a, b, o *rlwe.Ciphertext) error { return ev.ckks.Add(a, b, o) }},
			c09ShapeOp{"addLike", "ckks.Evaluator.Sub", false, func(ev *c09Evals, a, b, o *rlwe.Ciphertext) error { return ev.ckks.Sub(a, b, o) }},
			c09ShapeOp{"ckksMul", "ckks.Evaluator.Mul", false, func(ev *c09Evals, a, b, o *rlwe.Ciphertext) error { return ev.ckks.Mul(a, b, o) }},
			c09ShapeOp{"ckksMulRelin", "ckks.Evaluator.MulRelin", false, func(ev *c09Evals, a, b, o *rlwe.Ciphertext) error { return ev.ckks.MulRelin(a, b, o) }})
	} else {
		ops = append(ops,
			c09ShapeOp{"addLike", "bgv.Evaluator.Add", false, func(ev *c09Evals, a, b, o *rlwe.Ciphertext) error { return ev.bgv.Add(a, b, o) }},
			c09ShapeOp{"addLike", "bgv.Evaluator.Sub", false, func(ev *c09Evals, a, b, o *rlwe.Ciphertext) error { return ev.bgv.Sub(a, b, o) }},
			c09ShapeOp{"bgvMul", "bgv.Evaluator.Mul", false, func(ev *c09Evals, a, b, o *rlwe.Ciphertext) error { return ev.bgv.Mul(a, b, o) }},
			c09ShapeOp{"bgvMulRelin", "bgv.Evaluator.MulRelin", false, func(ev *c09Evals, a, b, o *rlwe.Ciphertext) error { return ev.bgv.MulRelin(a, b, o) }},
			c09ShapeOp{"bgvMulSI", "bgv.Evaluator.MulScaleInvariant", false, func(ev *c09Evals, a, b, o *rlwe.Ciphertext) error { return ev.bgv.MulScaleInvariant(a, b, o) }},
			c09ShapeOp{"bgvMulRelinSI", "bgv.Evaluator.MulRelinScaleInvariant", false, func(ev *c09Evals, a, b, o *rlwe.Ciphertext) error {
				return ev.bgv.MulRelinScaleInvariant(a, b, o)
			}},
			c09ShapeOp{"unaryBig", "bgv.Evaluator.Add[big]", true, func(ev *c09Evals, a, b, o *rlwe.Ciphertext) error { return ev.bgv.Add(a, big5(), o) }},
			c09ShapeOp{"unaryBig", "bgv.Evaluator.Mul[big]", true, func(ev *c09Evals, a, b, o *rlwe.Ciphertext) error { return ev.bgv.Mul(a, big5(), o) }})
	}
	ops = append(ops,
		c09ShapeOp{"rlweAut", "rlwe.Evaluator.Automorphism", true, func(ev *c09Evals, a, b, o *rlwe.Ciphertext) error { return ev.rl.Automorphism(a, g1, o) }},
		c09ShapeOp{"rlwePTS", "rlwe.Evaluator.PartialTracesSum(n=1)", true, func(ev *c09Evals, a, b, o *rlwe.Ciphertext) error { return ev.rl.PartialTracesSum(a, 1, 1, o) }},
		c09ShapeOp{"rlwePTS", "rlwe.Evaluator.PartialTracesSum(n=3)", true, func(ev *c09Evals, a, b, o *rlwe.Ciphertext) error { return ev.rl.PartialTracesSum(a, 1, 3, o) }},
		c09ShapeOp{"rlwePTS", "rlwe.Evaluator.PartialTracesSum(n=4)", true, func(ev *c09Evals, a, b, o *rlwe.Ciphertext) error { return ev.rl.PartialTracesSum(a, 1, 4, o) }})
	return ops
}

// an element whose polynomial i is at level sh[i] (content: small residues)
func (e *c09Env) shapedCt(sh []int) *rlwe.Ciphertext {
	ct := e.newCt(len(sh)-1, e.maxLevel())
	for i := range ct.Value {
		c09FillPoly(e.c, ct.Value[i])
		ct.Value[i].Resize(sh[i])
	}
	return ct
}

func c09ShapeStr(sh []int) string {
	s := make([]string, len(sh))
	for i, l := range sh {
		s[i] = fmt.Sprint(l)
	}
	return strings.Join(s, ",")
}

func c09ShapeOf(ct *rlwe.Ciphertext) []int {
	sh := make([]int, len(ct.Value))
	for i := range ct.Value {
		sh[i] = ct.Value[i].Level()
	}
	return sh
}

func c09Uniform(deg, lvl int) []int {
	sh := make([]int, deg+1)
	for i := range sh {
		sh[i] = lvl
	}
	return sh
}

func (e *c09Env) runShapes() {
	c := e.c
	L := e.maxLevel()
	// receivers: uniform of every degree/level, and malformed ones (polynomials at different levels)
	var receivers [][]int
	for d := 0; d <= 2; d++ {
		for l := 0; l <= L; l++ {
			receivers = append(receivers, c09Uniform(d, l))
		}
	}
	malformed := [][]int{{1, 2}, {0, 2}, {2, 0}, {1, 0}, {1, 2, 0}, {0, 1, 2}, {2, 2, 1}, {1, 1, 2}, {2, 1}}
	if !c.Thorough() {
		malformed = malformed[:5]
	}
	nUniform := len(receivers)
	receivers = append(receivers, malformed...)
	type opnd struct{ sh0, sh1 []int }
	var operands []opnd
	degs := [][2]int{{1, 1}, {1, 0}, {0, 1}, {2, 0}, {0, 2}, {2, 1}, {1, 2}, {0, 0}, {2, 2}}
	lvls := [][2]int{{L, L}, {L, 1}, {1, L}, {0, 1}, {1, 1}}
	if !c.Thorough() {
		degs = degs[:7]
		lvls = lvls[:4]
	}
	for _, d := range degs {
		for _, l := range lvls {
			operands = append(operands, opnd{c09Uniform(d[0], l[0]), c09Uniform(d[1], l[1])})
		}
	}
	// an operand whose second polynomial is longer than its first (harmless for the operation itself)
	operands = append(operands, opnd{[]int{1, 2}, []int{2, 2}}, opnd{[]int{2, 2}, []int{1, 2}})
	for _, op := range e.shapeOps() {
		emit := func(pat string, sh0, sh1, shOut []int, run func() (*rlwe.Ciphertext, error)) {
			res, err := run()
			c.Count("shape:" + op.model)
			out := c09Outcome(err)
			sc := fmt.Sprintf("%s/%s/%s/%s/%s", e.scheme, pat, c09ShapeStr(sh0), c09ShapeStr(sh1), c09ShapeStr(shOut))
			if out == "" {
				after := c09ShapeOf(res)
				out = c09ShapeStr(after)
				d := ""
				for _, l := range after {
					if l != after[0] {
						d = "polynomials-at-different-levels:" + out
					}
				}
				c.Probe("receiver_levels_uniform/"+op.goNam+"/"+pat, sc, "C09/resize-skips-polynomials-when-first-at-level", d)
			}
			c.Emit(fmt.Sprintf("shape %s %s %s %s %s", op.model, pat, c09ShapeStr(sh0), c09ShapeStr(sh1), c09ShapeStr(shOut)), out)
		}
		for _, od := range operands {
			sh0, sh1 := od.sh0, od.sh1
			if op.unary {
				sh1 = []int{0}
				if len(od.sh1) != 2 || od.sh1[0] != L { // one second-operand variant is enough for a unary operation
					continue
				}
			}
			recv := receivers
			if !c.Thorough() && !(len(sh0) == 2 && len(sh1) <= 2 && sh0[0] == sh0[1]) {
				recv = receivers[:nUniform] // quick tier: malformed receivers with the common operand degrees only
			}
			for _, shOut := range recv {
				shOut := shOut
				emit("distinct", sh0, sh1, shOut, func() (*rlwe.Ciphertext, error) {
					a, b, o := e.shapedCt(sh0), e.shapedCt(sh1), e.shapedCt(shOut)
					return o, c09Err(func() error { return op.call(e.evals(), a, b, o) })
				})
			}
			emit("out=op0", sh0, sh1, sh0, func() (*rlwe.Ciphertext, error) {
				a, b := e.shapedCt(sh0), e.shapedCt(sh1)
				return a, c09Err(func() error { return op.call(e.evals(), a, b, a) })
			})
			if !op.unary {
				emit("out=op1", sh0, sh1, sh1, func() (*rlwe.Ciphertext, error) {
					a, b := e.shapedCt(sh0), e.shapedCt(sh1)
					return b, c09Err(func() error { return op.call(e.evals(), a, b, b) })
				})
				if c09ShapeStr(sh0) == c09ShapeStr(sh1) {
					for _, shOut := range receivers[:6] {
						shOut := shOut
						emit("op0=op1", sh0, sh0, shOut, func() (*rlwe.Ciphertext, error) {
							a, o := e.shapedCt(sh0), e.shapedCt(shOut)
							return o, c09Err(func() error { return op.call(e.evals(), a, a, o) })
						})
					}
					emit("all", sh0, sh0, sh0, func() (*rlwe.Ciphertext, error) {
						a := e.shapedCt(sh0)
						return a, c09Err(func() error { return op.call(e.evals(), a, a, a) })
					})
				}
			}
		}
	}
}

func c09Degrees(c *Ctx) {
	for _, scheme := range []string{"ckks", "bgv"} {
		e := newC09Env(c, scheme, 5, 1)
		e.runDegrees()
		e.runShapes()
		if c.Thorough() {
			newC09Env(c, scheme, 4, 1).runDegrees()
			e2 := newC09Env(c, scheme, 5, 2) // two auxiliary primes
			e2.runDegrees()
			e2.runShapes()
		}
	}
}
