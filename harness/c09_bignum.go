package main

// C09 — bignum: pointer arguments that ALREADY have the target precision, every method of bignum.Polynomial, and the
// three-operand helpers called with the receiver being one of the operands.
//
//   inputs_unchanged/bignum.…            the polynomial, the evaluation point (a *bignum.Complex whose two parts have the
//                                        same precision, a *big.Float), intervals ≠ [-1, 1], both bases
//   repeat_call/bignum.Polynomial.Evaluate   a second evaluation at the same point object gives the same value
//   output_independent/bignum.…          rewriting the result does not change the argument (ToComplex, NewFloat, Clone …)
//   alias_insensitive/bignum.DivRound/…  receiver = dividend, receiver = divisor, vs the exact rational rounding
//                                        (half away from zero), |a| just below / at / above |b|/2, |b|, 3|b|/2, both signs
//   alias_insensitive/bignum.Complex.…   Add, Sub, Neg, ComplexMultiplier.Mul/Quo with the receiver = a and = b

import (
	"fmt"
	"math/big"

	"github.com/tuneinsight/lattigo/v6/utils/bignum"
)

func c09Bignum(c *Ctx) {
	prec := uint(128)
	bf := func(x float64) *big.Float { return bignum.NewFloat(x, prec) }
	cx := func(re, im float64) *bignum.Complex { return &bignum.Complex{bf(re), bf(im)} }
	polys := []struct {
		name string
		p    bignum.Polynomial
	}{
		{"monomial", bignum.NewPolynomial(bignum.Monomial, []float64{0.5, -1.25, 0, 2, 0.125}, nil)},
		{"chebyshev[-1,1]", bignum.NewPolynomial(bignum.Chebyshev, []float64{0.5, -1.25, 0, 2, 0.125}, [2]float64{-1, 1})},
		{"chebyshev[-8,8]", bignum.NewPolynomial(bignum.Chebyshev, []float64{0.5, -1.25, 0, 2, 0.125}, [2]float64{-8, 8})},
		{"chebyshev[2,11]", bignum.NewPolynomial(bignum.Chebyshev, []float64{0.5, -1.25, 0, 2, 0.125, 3}, [2]float64{2, 11})},
	}
	points := []struct {
		name string
		mk   func() interface{}
	}{
		{"*bignum.Complex(prec128,128)", func() interface{} { return cx(1.75, -0.5) }},
		{"*bignum.Complex(real)", func() interface{} { return cx(-3.25, 0) }},
		{"*bignum.Complex(prec64,64)", func() interface{} { return &bignum.Complex{bignum.NewFloat(2.5, 64), bignum.NewFloat(0.25, 64)} }},
		{"*big.Float", func() interface{} { return bf(4.5) }},
		{"*big.Float(prec53)", func() interface{} { return bignum.NewFloat(-0.75, 53) }},
	}
	for _, pl := range polys {
		for _, pt := range points {
			sc := "bignum/" + pl.name + "/" + pt.name
			p := pl.p.Clone()
			x := pt.mk()
			var y1, y2 *bignum.Complex
			c09CallArgs(c, "bignum.Polynomial.Evaluate", sc, []c09Arg{{"point", x}, {"polynomial", &p}}, func() error { y1 = p.Evaluate(x); return nil })
			d := Try(func() string {
				y2 = p.Evaluate(x) // the SAME point object once more
				y3 := pl.p.Clone()
				ref := y3.Evaluate(pt.mk())
				if y1 == nil || y2 == nil || deepHash(y1) != deepHash(y2) || deepHash(y2) != deepHash(ref) {
					return "second-evaluation-at-the-same-point-object-differs"
				}
				return ""
			})
			c.Probe("repeat_call/bignum.Polynomial.Evaluate", sc, "C09-repeat-bignum.Polynomial.Evaluate", d)
		}
		sc := "bignum/" + pl.name
		p := pl.p.Clone()
		c09CallArgs(c, "bignum.Polynomial.ChangeOfBasis", sc, []c09Arg{{"polynomial", &p}}, func() error { p.ChangeOfBasis(); return nil })
		c09CallArgs(c, "bignum.Polynomial.Clone", sc, []c09Arg{{"polynomial", &p}}, func() error { q := p.Clone(); q.Coeffs[0][0].SetInt64(99); return nil })
		c09CallArgs(c, "bignum.Polynomial.Depth/Degree", sc, []c09Arg{{"polynomial", &p}}, func() error { _ = p.Depth() + p.Degree(); return nil })
		c09CallArgs(c, "bignum.Polynomial.Factorize", sc, []c09Arg{{"polynomial", &p}}, func() error {
			pq, pr := p.Factorize(3)
			for _, q := range []bignum.Polynomial{pq, pr} { // the factors must not share coefficients with p
				for _, cf := range q.Coeffs {
					if cf != nil {
						cf[0].SetInt64(77)
					}
				}
			}
			return nil
		})
	}
	// conversions whose argument already has the target precision: the result must be a new object
	indep := func(name, sc string, arg interface{}, mk func() interface{}, scribble func(res interface{})) {
		h := deepHash(arg)
		d := Try(func() string {
			res := mk()
			if deepHash(arg) != h {
				return "argument-changed"
			}
			scribble(res)
			if deepHash(arg) != h {
				return "rewriting-the-result-changed-the-argument"
			}
			return ""
		})
		c.Probe("output_independent/"+name, sc, "C09-independent-"+name, d)
	}
	for _, pr := range []uint{53, 64, 128} {
		sc := fmt.Sprintf("bignum/prec%d", pr)
		z := &bignum.Complex{bignum.NewFloat(1.5, pr), bignum.NewFloat(-2.25, pr)}
		indep("bignum.ToComplex[*bignum.Complex]", sc, z, func() interface{} { return bignum.ToComplex(z, pr) }, func(r interface{}) {
			w := r.(*bignum.Complex)
			w[0].SetInt64(5)
			w[1].SetInt64(6)
		})
		f := bignum.NewFloat(-7.125, pr)
		indep("bignum.ToComplex[*big.Float]", sc, f, func() interface{} { return bignum.ToComplex(f, pr) }, func(r interface{}) { r.(*bignum.Complex)[0].SetInt64(5) })
		indep("bignum.NewFloat[*big.Float]", sc, f, func() interface{} { return bignum.NewFloat(f, pr) }, func(r interface{}) { r.(*big.Float).SetInt64(5) })
		indep("bignum.Complex.Clone", sc, z, func() interface{} { return z.Clone() }, func(r interface{}) { r.(*bignum.Complex)[1].SetInt64(5) })
		indep("bignum.Complex.Real/Imag", sc, z, func() interface{} { return []*big.Float{z.Real(), z.Imag()} }, func(r interface{}) {})
		n := big.NewInt(-123456789)
		indep("bignum.NewInt[*big.Int]", sc, n, func() interface{} { return bignum.NewInt(n) }, func(r interface{}) { r.(*big.Int).SetInt64(5) })
		indep("bignum.ToComplex[*big.Int]", sc, n, func() interface{} { return bignum.ToComplex(n, pr) }, func(r interface{}) { r.(*bignum.Complex)[0].SetInt64(5) })
	}
	// DivRound: exact rational rounding (half away from zero), receiver = fresh / dividend / divisor
	ref := func(a, b *big.Int) *big.Int {
		q, r := new(big.Int).QuoRem(a, b, new(big.Int)) // truncated
		r2 := new(big.Int).Abs(r)
		r2.Lsh(r2, 1)
		if r2.CmpAbs(b) >= 0 {
			if (a.Sign() < 0) == (b.Sign() < 0) {
				q.Add(q, big.NewInt(1))
			} else {
				q.Sub(q, big.NewInt(1))
			}
		}
		return q
	}
	bigB := new(big.Int).Add(new(big.Int).Lsh(big.NewInt(1), 70), big.NewInt(1))
	for _, b0 := range []*big.Int{big.NewInt(7), big.NewInt(8), big.NewInt(1), big.NewInt(2), bigB} {
		half := new(big.Int).Rsh(b0, 1)
		var as []*big.Int
		for _, k := range []int64{-2, -1, 0, 1, 2} {
			for _, base := range []*big.Int{big.NewInt(0), half, b0, new(big.Int).Add(b0, half), new(big.Int).Mul(b0, big.NewInt(5))} {
				as = append(as, new(big.Int).Add(base, big.NewInt(k)))
			}
		}
		for _, sb := range []int64{1, -1} {
			b := new(big.Int).Mul(b0, big.NewInt(sb))
			for _, a0 := range as {
				for _, sa := range []int64{1, -1} {
					a := new(big.Int).Mul(a0, big.NewInt(sa))
					want := ref(a, b).String()
					sc := fmt.Sprintf("a=%s,b=%s", a.String(), b.String())
					chk := func(how string, f func() (*big.Int, string)) {
						d := Try(func() string {
							got, in := f()
							if in != "" {
								return in
							}
							if got.String() != want {
								return "got=" + got.String() + ",round(a/b)=" + want
							}
							return ""
						})
						key := "C09-alias-bignum.DivRound/" + how
						if how == "out=b" {
							key = "C09/bignum.DivRound/receiver-is-divisor"
						}
						c.Probe("alias_insensitive/bignum.DivRound/"+how, sc, key, d)
					}
					chk("fresh", func() (*big.Int, string) {
						x, y, o := new(big.Int).Set(a), new(big.Int).Set(b), new(big.Int)
						bignum.DivRound(x, y, o)
						if x.Cmp(a) != 0 || y.Cmp(b) != 0 {
							return o, "operand-changed"
						}
						return o, ""
					})
					chk("out=a", func() (*big.Int, string) {
						x, y := new(big.Int).Set(a), new(big.Int).Set(b)
						bignum.DivRound(x, y, x)
						if y.Cmp(b) != 0 {
							return x, "divisor-changed"
						}
						return x, ""
					})
					chk("out=b", func() (*big.Int, string) {
						x, y := new(big.Int).Set(a), new(big.Int).Set(b)
						bignum.DivRound(x, y, y)
						if x.Cmp(a) != 0 {
							return y, "dividend-changed"
						}
						return y, ""
					})
				}
			}
		}
	}
	// complex three-operand helpers: receiver = a, receiver = b
	cm := bignum.NewComplexMultiplier()
	type op3 struct {
		name string
		f    func(a, b, out *bignum.Complex)
	}
	ops := []op3{
		{"Complex.Add", func(a, b, o *bignum.Complex) { o.Add(a, b) }}, {"Complex.Sub", func(a, b, o *bignum.Complex) { o.Sub(a, b) }},
		{"ComplexMultiplier.Mul", func(a, b, o *bignum.Complex) { cm.Mul(a, b, o) }}, {"ComplexMultiplier.Quo", func(a, b, o *bignum.Complex) { cm.Quo(a, b, o) }},
	}
	for _, o := range ops {
		for k, pair := range [][2]*bignum.Complex{{cx(1.5, -2.25), cx(-0.75, 3)}, {cx(0, 1), cx(2, 0)}, {cx(-5.5, -0.125), cx(0.5, 0.5)}} {
			a0, b0 := pair[0], pair[1]
			sc := fmt.Sprintf("pair%d", k)
			fresh := bignum.NewComplex().SetPrec(prec)
			o.f(a0.Clone(), b0.Clone(), fresh)
			for _, how := range []string{"out=a", "out=b", "a=b"} {
				d := Try(func() string {
					a, b := a0.Clone(), b0.Clone()
					var got, want *bignum.Complex
					want = fresh
					switch how {
					case "out=a":
						o.f(a, b, a)
						got = a
						if deepHash(b) != deepHash(b0) {
							return "b-changed"
						}
					case "out=b":
						o.f(a, b, b)
						got = b
						if deepHash(a) != deepHash(a0) {
							return "a-changed"
						}
					default:
						got = bignum.NewComplex().SetPrec(prec)
						o.f(a, a, got)
						want = bignum.NewComplex().SetPrec(prec)
						o.f(a0.Clone(), a0.Clone(), want)
						if deepHash(a) != deepHash(a0) {
							return "operand-changed"
						}
					}
					if got[0].Cmp(want[0]) != 0 || got[1].Cmp(want[1]) != 0 {
						return "result-differs-from-the-fresh-receiver"
					}
					return ""
				})
				c.Probe("alias_insensitive/bignum."+o.name+"/"+how, sc, "C09-alias-bignum."+o.name+"/"+how, d)
			}
		}
	}
	z0 := cx(1.5, -2.25)
	d := Try(func() string {
		a := z0.Clone()
		a.Neg(a)
		w := bignum.NewComplex().SetPrec(prec)
		w.Neg(z0)
		if a[0].Cmp(w[0]) != 0 || a[1].Cmp(w[1]) != 0 {
			return "result-differs-from-the-fresh-receiver"
		}
		return ""
	})
	c.Probe("alias_insensitive/bignum.Complex.Neg/out=a", "-", "C09-alias-bignum.Complex.Neg/out=a", d)
}
