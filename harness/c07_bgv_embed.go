package main

// C07 (integer half) — bgv.Encoder.Embed / EmbedScale: the polynomial handed to linear transformations and
// polynomial evaluation, written according to the metadata (IsNTT, IsMontgomery) into a ring.Poly or a
// ringqp.Poly (Q and P parts).
//
// Tie line (model: EncoderT.embed):
//	bgv embed t= g= n= N= qs=<moduli of the part> up=0|1 scale= kind=u|i vals=   ⇒ canonical rows | err
//	bgv embedp t= g= n= N= qs=<Q moduli> ps=<P moduli> up=0|1 scale= kind= vals=  ⇒ canonical rows of the P part
// where the harness canonicalises the real output ACCORDING TO THE METADATA (INTT if IsNTT, IMForm if IsMontgomery).
// Probes:
//	embed_metadata   the raw output equals an independent reference encoding (big.Int gap embedding, times
//	                 T^-1 mod Q_level if scaleUp) transformed by NTT if IsNTT and by ·2^64 mod q_i if IsMontgomery
//	embed_mont_mul   MulCoeffsMontgomery(embedding flagged IsMontgomery, plain NTT embedding) decodes to the
//	                 slot-wise product
//	embed_qp_scaleup the P part of EmbedScale(scaleUp = true) holds the same integers T^-1·m as the Q part

import (
	"fmt"
	"math/big"

	"github.com/tuneinsight/lattigo/v6/core/rlwe"
	"github.com/tuneinsight/lattigo/v6/ring"
	"github.com/tuneinsight/lattigo/v6/ring/ringqp"
	"github.com/tuneinsight/lattigo/v6/schemes/bgv"
)

// c07RefRows: independent reference of the canonical rows: coefficient j·gap = pT[j]·c mod m_i.
func c07RefRows(pT []uint64, N int, mods []uint64, c *big.Int) [][]uint64 {
	n := len(pT)
	gap := N / n
	rows := make([][]uint64, len(mods))
	for i, m := range mods {
		rows[i] = make([]uint64, N)
		mb := new(big.Int).SetUint64(m)
		for j, x := range pT {
			v := new(big.Int).SetUint64(x)
			if c != nil {
				v.Mul(v, c)
			}
			rows[i][j*gap] = v.Mod(v, mb).Uint64()
		}
	}
	return rows
}

// c07Transform applies the metadata to canonical rows: NTT, then ·2^64 mod m_i (big.Int, not ring.MForm).
func c07Transform(r *ring.Ring, rows [][]uint64, ntt, mont bool) [][]uint64 {
	p := r.NewPoly()
	for i := range rows {
		copy(p.Coeffs[i], rows[i])
	}
	if ntt {
		r.NTT(p, p)
	}
	out := make([][]uint64, len(rows))
	two64 := new(big.Int).Lsh(big.NewInt(1), 64)
	for i := range rows {
		out[i] = make([]uint64, len(rows[i]))
		mb := new(big.Int).SetUint64(r.SubRings[i].Modulus)
		for j, x := range p.Coeffs[i] {
			v := new(big.Int).SetUint64(x)
			if mont {
				v.Mul(v, two64)
			}
			out[i][j] = v.Mod(v, mb).Uint64()
		}
	}
	return out
}

func c07Reduced(r *ring.Ring, p ring.Poly) [][]uint64 {
	out := make([][]uint64, r.Level()+1)
	for i := range out {
		out[i] = make([]uint64, len(p.Coeffs[i]))
		m := r.SubRings[i].Modulus
		for j, x := range p.Coeffs[i] {
			out[i][j] = x % m
		}
	}
	return out
}

func (c *Ctx) c07Embed(s *c05Set, reps int) {
	t := s.t
	rt := s.params.RingT()
	rq := s.params.RingQ()
	rp := s.params.RingP()
	N := s.params.N()
	L := len(s.qs) - 1
	tB := new(big.Int).SetUint64(t)
	for rep := 0; rep < reps; rep++ {
		for level := 0; level <= L; level++ {
			rql := rq.AtLevel(level)
			tInv := new(big.Int).ModInverse(tB, rql.ModulusAtLevel[level])
			for _, up := range []bool{false, true} {
				for _, ntt := range []bool{false, true} {
					for _, mont := range []bool{false, true} {
						for _, kind := range []string{"poly", "qp", "q-only"} {
							vals := c.c07Vector(s, c.rng.Intn(2) == 0, c.rng.Intn(4))
							scale := c.c05Scale(t)
							md := &rlwe.MetaData{}
							md.Scale = s.params.NewScale(scale)
							md.IsNTT, md.IsMontgomery = ntt, mont
							md.IsBatched = true
							var pq ringqp.Poly
							var target interface{}
							switch kind {
							case "poly":
								pq = ringqp.Poly{Q: rql.NewPoly()}
								target = pq.Q
							case "qp":
								pq = ringqp.Poly{Q: rql.NewPoly(), P: rp.NewPoly()}
								target = pq
							default:
								pq = ringqp.Poly{Q: rql.NewPoly()}
								target = pq
							}
							st := Try(func() string {
								if err := s.ecd.EmbedScale(vals.arg(), up, md, target); err != nil {
									return "err"
								}
								return "ok"
							})
							head := "bgv embed " + s.c07Head() + " N=" + I(N)
							tail := " up=" + c07Bool(up) + " scale=" + U(scale) + " kind=" + vals.kind() + " vals=" + vals.tok()
							args := fmt.Sprintf("%s level=%d up=%v ntt=%v mont=%v out=%s scale=%d kind=%s len=%d", s.name, level, up, ntt, mont, kind, scale, vals.kind(), vals.length())
							c.Count("embed:" + kind)
							if st != "ok" {
								c.Emit(head+" qs="+Vec(s.qs[:level+1])+tail, st)
								continue
							}
							// tie: canonical rows of the Q part (and of the P part when no T^-1 is applied)
							c.Emit(head+" qs="+Vec(s.qs[:level+1])+tail, Mat(Canon(rql, pq.Q, ntt, mont)))
							if kind == "qp" && !up {
								c.Emit(head+" qs="+Vec(rp.ModuliChain())+tail, Mat(Canon(rp, pq.P, ntt, mont)))
							}
							if kind == "qp" {
								// P part, both scaleUp values (model: EncoderT.embedP — the same integer T^-1 mod Q_level as in Q)
								c.Emit("bgv embedp "+s.c07Head()+" N="+I(N)+" qs="+Vec(s.qs[:level+1])+" ps="+Vec(rp.ModuliChain())+tail, Mat(Canon(rp, pq.P, ntt, mont)))
							}
							// probe: raw output = reference transformed according to the metadata
							pT := rt.NewPoly()
							if err := s.ecd.EncodeRingT(vals.arg(), s.params.NewScale(scale), pT); err != nil {
								panic(err)
							}
							var cst *big.Int
							if up {
								cst = tInv
							}
							detail := ""
							wantQ := c07Transform(rql, c07RefRows(pT.Coeffs[0], N, s.qs[:level+1], cst), ntt, mont)
							if Mat(wantQ) != Mat(c07Reduced(rql, pq.Q)) {
								detail = "Q part differs from the reference transformed by the metadata"
							}
							if kind == "qp" && !up {
								wantP := c07Transform(rp, c07RefRows(pT.Coeffs[0], N, rp.ModuliChain(), nil), ntt, mont)
								if Mat(wantP) != Mat(c07Reduced(rp, pq.P)) {
									detail += " P part differs from the reference transformed by the metadata"
								}
							}
							c.Probe("embed_metadata", args, "C07-bgv-embed-output-disagrees-with-metadata", detail)
							if kind == "qp" && up {
								wantP := c07Transform(rp, c07RefRows(pT.Coeffs[0], N, rp.ModuliChain(), tInv), ntt, mont)
								d2 := ""
								if Mat(wantP) != Mat(c07Reduced(rp, pq.P)) {
									d2 = "P part is not (T^-1 mod Q_level)·m mod p_j"
								}
								c.Probe("embed_qp_scaleup", args, "C07-bgv-embedscale-scaleup-P-part", d2)
							}
						}
					}
				}
			}
			// embed_mont_mul
			if 2*s.lt+float64(s.logN)+2 <= s.logQ[level] {
				for _, ntt1 := range []bool{false, true} {
					m1, m2 := c.c05Msg(s), c.c05Msg(s)
					s1, s2 := c.c05Scale(t), c.c05Scale(t)
					md1 := &rlwe.MetaData{}
					md1.Scale = s.params.NewScale(s1)
					md1.IsNTT, md1.IsMontgomery, md1.IsBatched = ntt1, true, true
					md2 := &rlwe.MetaData{}
					md2.Scale = s.params.NewScale(s2)
					md2.IsNTT, md2.IsMontgomery, md2.IsBatched = true, false, true
					e1, e2 := rql.NewPoly(), rql.NewPoly()
					detail := ""
					if err := s.ecd.EmbedScale(m1, true, md1, e1); err != nil {
						detail = "err"
					}
					if err := s.ecd.EmbedScale(m2, false, md2, e2); err != nil {
						detail = "err"
					}
					if detail == "" {
						if !ntt1 {
							rql.NTT(e1, e1)
						}
						prod := bgv.NewPlaintext(s.params, level)
						rql.MulCoeffsMontgomery(e1, e2, prod.Value)
						prod.Scale = s.params.NewScale(c05MulMod(s1, s2, t))
						got := s.decodePt(prod)
						for k := range got {
							if got[k] != c05MulMod(m1[k], m2[k], t) {
								detail = fmt.Sprintf("slot=%d got=%d want=%d", k, got[k], c05MulMod(m1[k], m2[k], t))
								break
							}
						}
					}
					c.Probe("embed_mont_mul", fmt.Sprintf("%s level=%d ntt1=%v s1=%d s2=%d", s.name, level, ntt1, s1, s2), "C07-bgv-embed-montgomery-product", detail)
				}
			}
		}
	}
}
