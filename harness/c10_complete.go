package main

// C10 — completeness of the classification table against the SOURCE under test: every method named
// ShallowCopy / WithKey / WithPRNG / WithParams / AtLevel / CopyNew / ConjugateInvariantRing / StandardRing declared in a
// non-test file of the library must have at least one `table <pkg.Type.Ctor…>` line in this run (the reflection walk
// of such a line classifies EVERY field of the struct, and the Lean table must reproduce the line), or be one of the
// listed exemptions (receivers that are not structs: the reflection tie classifies struct fields; they have
// deep_copy_disjoint / copy_independent probes instead).  A constructor added to the library later fails here.

import (
	"os"
	"path/filepath"
	"regexp"
	"sort"
	"strings"
)

var c10TableNames = map[string]bool{}

func c10Register(name string) { c10TableNames[name] = true }

// receivers that are slices / maps / generic containers, or unexported helpers reached through an exported row
var c10Exempt = map[string]string{
	"structs.Vector.CopyNew":        "slice type (probes in c10_deep.go)",
	"structs.Matrix.CopyNew":        "slice type (probes in c10_deep.go)",
	"structs.Map.CopyNew":           "map type (probes in c10_deep.go)",
	"rlwe.VectorQP.CopyNew":         "slice type (probes in c10_deep.go)",
	"rlwe.Element.CopyNew":          "generic struct: classified through rlwe.Ciphertext.CopyNew / rlwe.Plaintext.CopyNew",
	"ring.baseSampler.AtLevel":      "unexported: the nested field `baseSampler` of the three sampler rows",
	"bgv.evaluatorBase.ShallowCopy": "unexported: the nested field `evaluatorBase` of bgv.Evaluator.ShallowCopy",
}

func c10Complete(c *Ctx) {
	re := regexp.MustCompile(`^func \((\w+) \*?(\w+)(?:\[[^\]]*\])?\) (ShallowCopy|WithKey|WithPRNG|WithParams|AtLevel|CopyNew|ConjugateInvariantRing|StandardRing)\(`)
	found := map[string]bool{}
	root := repoPath()
	_ = filepath.Walk(root, func(path string, info os.FileInfo, err error) error {
		if err != nil {
			return nil
		}
		if info.IsDir() {
			if n := info.Name(); n == "examples" || n == ".git" || n == "OUT" {
				return filepath.SkipDir
			}
			return nil
		}
		if !strings.HasSuffix(path, ".go") || strings.HasSuffix(path, "_test.go") {
			return nil
		}
		b, err := os.ReadFile(path)
		if err != nil {
			return nil
		}
		pkg := filepath.Base(filepath.Dir(path))
		for _, line := range strings.Split(string(b), "\n") {
			if m := re.FindStringSubmatch(line); m != nil {
				found[pkg+"."+m[2]+"."+m[3]] = true
			}
		}
		return nil
	})
	var names []string
	for n := range found {
		names = append(names, n)
	}
	sort.Strings(names)
	if len(names) < 40 {
		c.Probe("table_complete/source-scan", root, "C10-complete-scan", "only-"+U(uint64(len(names)))+"-constructors-found-in-the-source")
	}
	for _, n := range names {
		d := ""
		if _, ok := c10Exempt[n]; !ok {
			has := false
			for t := range c10TableNames {
				if t == n || strings.HasPrefix(t, n+"[") || strings.HasPrefix(t, n+"/") {
					has = true
				}
			}
			if !has {
				d = "no-table-row-for-this-copy-constructor"
			}
		}
		c.Probe("table_complete/"+n, "-", "C10-complete-"+n, d)
		c.Count("ctor_in_source")
	}
}
