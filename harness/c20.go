package main

// C20 — RGSW external products and blind rotations compute the encrypted look-up.
//
// Drives core/rgsw (Encryptor.Encrypt, Evaluator.ExternalProduct, AddLazy, Reduce,
// MulByXPowAlphaMinusOne[ThenAdd]Lazy) and core/rgsw/blindrot (c20_br.go) through the public API.
//
// Ties (the Lean model reproduces the output exactly):
//   rgsw_enc     every row of an RGSW ciphertext from the replayed samples
//   extprod      external product, in place and out of place, canonical output
//   ep32raw      the 64-bit accumulator of externalProduct32Bit + IMForm, NTT-domain words
//   rgsw_add / rgsw_mulxm1 / rgsw_mulxm1add / rgsw_addpt
// Probes (property predicates on the real code): extprod_decrypts, path_eq_32, gadget_recombines,
//   rgsw_add, rgsw_mulxminus1, rgsw_rows_noise.

import (
	"fmt"
	"math/big"

	"github.com/tuneinsight/lattigo/v6/core/rgsw"
	"github.com/tuneinsight/lattigo/v6/core/rlwe"
	"github.com/tuneinsight/lattigo/v6/ring"
	"github.com/tuneinsight/lattigo/v6/ring/ringqp"
)

func init() { register("C20", genC20) }

func genC20(c *Ctx) {
	c20GenEncFlags(c)
	c20GenRGSW(c)
	c20GenShapes(c)
	c20GenUnequal(c)
	c20GenManyDigits(c)
	c20Gen32(c)
	c20GenTestPoly(c)
	c20GenBlindRot(c)
	c20GenHistory(c)
	c20GenEncHistory(c)
	c20GenMalformed(c)
}

var c20Ws = []int{0, 4, 7, 12, 16, 20}

type c20Cfg struct {
	logN   int
	nQ, nP int
	w      int
	bitsQ  []int
	dirQ   []int
	bitsP  []int
	lq, lp int // levels of the RGSW ciphertext
}

func (cfg c20Cfg) String() string {
	return fmt.Sprintf("logN=%d nQ=%d nP=%d w=%d lq=%d lp=%d bitsQ=%v dirQ=%v", cfg.logN, cfg.nQ, cfg.nP, cfg.w, cfg.lq, cfg.lp, cfg.bitsQ, cfg.dirQ)
}

func c20Configs(c *Ctx) (out []c20Cfg) {
	rnd := c.rng
	pickLogN := func() int {
		if c.Thorough() {
			return 4 + rnd.Intn(3)
		}
		if rnd.Intn(8) == 0 {
			return 5
		}
		return 4
	}
	reps := c.Scale(1, 3)
	for rep := 0; rep < reps; rep++ {
		for nQ := 1; nQ <= 3; nQ++ {
			for nP := 0; nP <= 2; nP++ {
				for _, w := range c20Ws {
					if !c.Thorough() && nP == 2 && w != 0 && w != 7 {
						continue // the decomposition ignores w with two auxiliary primes
					}
					if !c.Thorough() && nQ == 3 && (w == 4 || w == 16) {
						continue
					}
					cfg := c20Cfg{logN: pickLogN(), nQ: nQ, nP: nP, w: w, lq: nQ - 1, lp: nP - 1}
					for k := 0; k < nQ; k++ {
						cfg.bitsQ = append(cfg.bitsQ, 30+rnd.Intn(7))
						cfg.dirQ = append(cfg.dirQ, []int{-1, 1}[rnd.Intn(2)])
					}
					for k := 0; k < nP; k++ {
						cfg.bitsP = append(cfg.bitsP, 40+rnd.Intn(4))
					}
					// lower levels now and then
					if nQ > 1 && rnd.Intn(4) == 0 {
						cfg.lq = rnd.Intn(nQ)
					}
					if nP == 2 && rnd.Intn(5) == 0 {
						cfg.lp = 0
					}
					out = append(out, cfg)
				}
			}
		}
	}
	// single small modulus, no P: the 32-bit path (q < 2^29) and its neighbours
	small := [][2]int{{20, -1}, {25, 1}, {27, -1}, {28, -1}, {28, 1}, {29, -1}, {29, 1}, {30, -1}}
	for rep := 0; rep < reps; rep++ {
		for _, bd := range small {
			for _, w := range c20Ws {
				if !c.Thorough() && (w == 16 || w == 12) && bd[0] != 28 {
					continue
				}
				out = append(out, c20Cfg{logN: pickLogN(), nQ: 1, nP: 0, w: w, bitsQ: []int{bd[0]}, dirQ: []int{bd[1]}, lq: 0, lp: -1})
			}
		}
	}
	return
}

// c20Message returns a small integer polynomial (the RGSW plaintext) of the requested kind.
func c20Message(c *Ctx, n int, kind int) []int64 {
	g := make([]int64, n)
	switch kind % 6 {
	case 0: // monomial
		g[c.rng.Intn(n)] = 1
	case 1: // constant 1
		g[0] = 1
	case 2: // -X^k
		g[c.rng.Intn(n)] = -1
	case 3: // X^a - 1
		g[1+c.rng.Intn(n-1)] = 1
		g[0] = -1
	case 4: // small ternary
		for i := range g {
			g[i] = int64(c.rng.Intn(3)) - 1
		}
	case 5: // zero
	}
	return g
}

func (ps *c20PS) rgswPlaintext(g []int64, lq int, isNTT, isMont bool) *rlwe.Plaintext {
	pt := rlwe.NewPlaintext(ps.params, lq)
	r := ps.params.RingQ().AtLevel(lq)
	rows := ps.rowsFromInts(g, lq)
	for i := range rows {
		copy(pt.Value.Coeffs[i], rows[i])
	}
	if isNTT {
		r.NTT(pt.Value, pt.Value)
	}
	if isMont {
		r.MForm(pt.Value, pt.Value)
	}
	pt.IsNTT = isNTT
	pt.IsMontgomery = isMont
	return pt
}

func c20ParTokens(ps *c20PS, lq, lp, w int) string {
	var P []uint64
	if lp >= 0 {
		P = ps.P[:lp+1]
	}
	return fmt.Sprintf("n=%d Q=%s P=%s w=%d", ps.N(), Vec(ps.Q[:lq+1]), Vec(P), w)
}

// c20Encrypt encrypts g with the real encryptor (mode "api") or with the repaired procedure (mode "rep":
// EncryptZero, move the rows to the Montgomery domain, add the message), emits the rgsw_enc tie and
// returns the ciphertext.
func c20Encrypt(c *Ctx, ps *c20PS, sk *rlwe.SecretKey, sInts []int64, g []int64, lq, lp, w int, mode string, ptNTT, ptMont bool) *rgsw.Ciphertext {
	enc, tw := ps.newRGSWEncryptorWithTwin(sk)
	ct := rgsw.NewCiphertext(ps.params, lq, lp, w)
	pt := ps.rgswPlaintext(g, lq, ptNTT, ptMont)
	aIsMont := true
	if mode == "api" {
		if err := enc.Encrypt(pt, ct); err != nil {
			panic(err)
		}
	} else {
		if err := enc.EncryptZero(ct); err != nil {
			panic(err)
		}
		if lp < 0 {
			ps.mformRGSW(ct)
			aIsMont = false
		}
		m := ps.rgswPlaintext(g, lq, true, true)
		if err := rlwe.AddPolyTimesGadgetVectorToGadgetCiphertext(m.Value, []rlwe.GadgetCiphertext{ct.Value[0], ct.Value[1]}, *ps.params.RingQP(), m.Value); err != nil {
			panic(err)
		}
	}
	shape := c20Shape(ct)
	A0, A1, E0, E1 := tw.replayRGSW(lq, lp, shape, aIsMont)
	rows := ps.rgswPolys(ct)
	if !probesOnly() {
		c.Emit(fmt.Sprintf("rgsw_enc %s mode=%s s=%s g=%s a0=%s e0=%s a1=%s e1=%s", c20ParTokens(ps, lq, lp, w), mode,
			c20I64Vec(sInts), Mat(ps.rowsFromInts(g, lq)), c20Polys(A0), c20IVecs(E0), c20Polys(A1), c20IVecs(E1)),
			IVec(shape)+"|"+c20RGSWOut(rows))
	}
	c.Count("rgsw_enc:" + mode)
	c.Count(fmt.Sprintf("rgsw_enc:pt ntt=%v mont=%v", ptNTT, ptMont))
	return ct
}

// c20RandCt builds an RLWE ciphertext at level lq: kind 0 random c1 with a scaled small message, kind 1
// extreme residues (top digits, centring boundaries), kind 2 zero c1 (trivial encryption).
func c20RandCt(c *Ctx, ps *c20PS, sk *rlwe.SecretKey, lq int, kind int) *rlwe.Ciphertext {
	n := ps.N()
	c1 := make([][]uint64, lq+1)
	me := make([][]uint64, lq+1)
	Q := c20ProdBig(ps.Q[:lq+1])
	delta := new(big.Int).Rsh(Q, 4)
	mv := make([]*big.Int, n)
	for t := range mv {
		mu := int64(c.rng.Intn(7)) - 3
		e := int64(c.rng.Intn(5)) - 2
		mv[t] = new(big.Int).Mul(delta, big.NewInt(mu))
		mv[t].Add(mv[t], big.NewInt(e))
	}
	me = ps.rowsFromBig(mv, lq)
	for k := range c1 {
		q := ps.Q[k]
		c1[k] = make([]uint64, n)
		for t := range c1[k] {
			switch kind {
			case 0:
				c1[k][t] = c.rng.Below(q)
			case 1:
				switch (t + k) % 8 {
				case 0:
					c1[k][t] = q - 1
				case 1:
					c1[k][t] = q >> 1
				case 2:
					c1[k][t] = (q >> 1) + 1
				case 3:
					c1[k][t] = (q >> 1) - 1
				case 4:
					c1[k][t] = 0
				case 5:
					c1[k][t] = 1
				case 6:
					c1[k][t] = q - 1 - c.rng.Below(q/4+1)
				default:
					c1[k][t] = c.rng.Below(q)
				}
			default:
				c1[k][t] = 0
			}
		}
	}
	return ps.mkCt(sk, me, c1)
}

type c20Expect struct {
	key    string // finding key when the probe is expected to be able to fail
	reason string
}

// c20ExtProd runs one external product, emits the tie and the probe extprod_decrypts.
func c20ExtProd(c *Ctx, ps *c20PS, sk *rlwe.SecretKey, sInts []int64, ctIn *rlwe.Ciphertext, rg *rgsw.Ciphertext, g []int64, w int, inplace bool, mode string, tag string) {
	lq, lp := rg.LevelQ(), rg.LevelP()
	eval := rgsw.NewEvaluator(ps.params, nil)
	rq := ps.params.RingQ().AtLevel(lq)
	ct := ctIn.CopyNew()
	inPolys := ps.ctPolys(ct, lq)
	phaseIn := ps.phaseBig(ct, sk, lq)
	out := ct
	var oldPolys [][][]uint64
	if !inplace {
		out = rlwe.NewCiphertext(ps.params, 1, lq)
		*out.MetaData = *ct.MetaData
		// previous content of the output: arbitrary reduced residues
		for u := 0; u < 2; u++ {
			for k := 0; k <= lq; k++ {
				for t := range out.Value[u].Coeffs[k] {
					out.Value[u].Coeffs[k][t] = c.rng.Below(ps.Q[k])
				}
			}
		}
		oldPolys = ps.ctPolys(out, lq)
	} else {
		oldPolys = inPolys
	}
	before := map[string]string{"rgsw": c20SnapRGSW(rg)}
	if !inplace {
		before["op0"] = c20SnapCt(ct)
	}
	res := Try(func() string {
		eval.ExternalProduct(ct, rg, out)
		return "ok"
	})
	after := map[string]string{"rgsw": c20SnapRGSW(rg)}
	if !inplace {
		after["op0"] = c20SnapCt(ct)
	}
	shape := c20Shape(rg)
	fast := lp == -1 && lq == 0 && c20Acc32Fits(ps.Q[0], shape[0])
	path := "single"
	if fast {
		path = "fast32"
	} else if lp >= 1 {
		path = "multiP"
	}
	c.Count("extprod:path=" + path)
	c.Count(fmt.Sprintf("extprod:inplace=%v", inplace))
	c.Count(fmt.Sprintf("extprod:nQ=%d nP=%d", lq+1, lp+1))
	c.Count(fmt.Sprintf("extprod:w=%d", w))
	{
		d := ""
		if res != "ok" {
			d = fmt.Sprintf("ExternalProduct -> %s (shape %v inplace=%v)", res, shape, inplace)
		}
		c.Probe("extprod_no_panic", fmt.Sprintf("%s inplace=%d shape=%s tag=%s seed=%d line=%d", c20ParTokens(ps, lq, lp, w), c20B2i(inplace), IVec(shape), tag, c.Seed, c.N), "extprod-panic", d)
		if res != "ok" {
			return
		}
	}
	c20Unchanged(c, "extprod_inputs_unchanged", fmt.Sprintf("%s inplace=%d seed=%d line=%d", c20ParTokens(ps, lq, lp, w), c20B2i(inplace), c.Seed, c.N), "extprod-input-mutated", before, after)
	if path == "multiP" && inplace && !probesOnly() {
		c20LazyTie(c, ps, eval, ctIn, rg)
	}
	_ = rq
	// the 64-bit accumulator of the fast path: does it wrap on this input?
	wraps := false
	if fast {
		wraps = c20Fast32Wraps(ps, ctIn, rg)
	}
	args := fmt.Sprintf("%s inplace=%d c=%s %s old=%s", c20ParTokens(ps, lq, lp, w), c20B2i(inplace), c20Polys(inPolys), c20RGSWArgs("r", ps.rgswPolys(rg)), c20Polys(oldPolys))
	outPolys := ps.ctPolys(out, lq)
	if !probesOnly() && !wraps {
		c.Emit("extprod "+args, c20Polys(outPolys))
	}
	// --- probe: decrypts to g * phase(ct) up to the bound implied by the decomposition ---
	phaseOut := ps.phaseBig(out, sk, lq)
	want := c20NegacyclicBig(phaseIn, g)
	Q := c20ProdBig(ps.Q[:lq+1])
	noise := c20DistModQ(phaseOut, want, Q)
	dsum, recomb := ps.digitSum(lq, lp, w, shape, fast)
	bound := ps.extProdNoiseBound(lq, lp, dsum, c20L1(sInts))
	// noise of the input ciphertext is carried exactly by phaseIn; nothing to add.
	vacuous := new(big.Int).Lsh(bound, 2).Cmp(Q) >= 0
	key, why := "", ""
	switch {
	case !inplace && lp >= 1:
		key, why = "extprod-oop-multip", "out of place with levelP>=1 divides the old content of opOut"
	case fast && w == 0:
		key, why = "extprod32-zero-mask", "32-bit path with BaseTwoDecomposition=0 has mask 0"
	case fast && wraps:
		key, why = "extprod32-overflow", "64-bit accumulator of the 32-bit path wraps"
	case !recomb:
		key, why = "base2-digit-count", "digit count round(log2 q)/w drops the top bits of q"
	default:
		key = "extprod-noise"
	}
	detail := ""
	if vacuous && key == "extprod-noise" {
		c.Count("extprod_decrypts:vacuous-bound")
	} else if noise.Cmp(bound) > 0 {
		detail = fmt.Sprintf("noise=%s bound=%s logQ=%d path=%s inplace=%v mode=%s %s", noise.String(), bound.String(), Q.BitLen(), path, inplace, mode, why)
	}
	pargs := args
	if len(pargs) > 4000 {
		pargs = fmt.Sprintf("%s inplace=%d mode=%s tag=%s seed=%d line=%d", c20ParTokens(ps, lq, lp, w), c20B2i(inplace), mode, tag, c.Seed, c.N)
	}
	c.Probe("extprod_decrypts", pargs, key, detail)
	if key != "extprod-noise" {
		c.Count("extprod_decrypts:class=" + key)
	}
}

func c20B2i(b bool) int {
	if b {
		return 1
	}
	return 0
}

func c20GenRGSW(c *Ctx) {
	pg := newC20PrimeGen()
	cfgs := c20Configs(c)
	for ci, cfg := range cfgs {
		nth := uint64(2 << cfg.logN)
		var Q, P []uint64
		for k := range cfg.bitsQ {
			Q = append(Q, pg.next(cfg.bitsQ[k], nth, cfg.dirQ[k]))
		}
		for k := range cfg.bitsP {
			P = append(P, pg.next(cfg.bitsP[k], nth, 0))
		}
		ps, err := c20NewPS(cfg.logN, Q, P)
		if err != nil {
			c.Count("params-rejected")
			continue
		}
		c.Count(fmt.Sprintf("cfg:logN=%d", cfg.logN))
		kgen := rlwe.NewKeyGenerator(ps.params)
		sk := kgen.GenSecretKeyNew()
		sInts := ps.secretInts(sk)
		lq, lp, w := cfg.lq, cfg.lp, cfg.w
		kind := ci
		g := c20Message(c, ps.N(), kind)
		// the three sound flag combinations; (NTT, Montgomery) is the subject of c20GenEncFlags
		fl := [][2]bool{{false, false}, {false, true}, {true, false}}[ci%3]
		ptNTT, ptMont := fl[0], fl[1]
		modes := []string{"api"}
		for _, mode := range modes {
			rg := c20Encrypt(c, ps, sk, sInts, g, lq, lp, w, mode, ptNTT, ptMont)
			c20RowsNoise(c, ps, sk, rg, g, w, mode)
			for ck := 0; ck < 2; ck++ {
				ct := c20RandCt(c, ps, sk, lq, (ci+ck)%3)
				c20ExtProd(c, ps, sk, sInts, ct, rg, g, w, true, mode, cfg.String())
				c20ExtProd(c, ps, sk, sInts, ct, rg, g, w, false, mode, cfg.String())
				if !c.Thorough() {
					break
				}
			}
			if ci%3 == 0 || c.Thorough() {
				c20Homomorphisms(c, ps, sk, sInts, rg, g, lq, lp, w, mode)
			}
		}
	}
}

// c20RowErr returns the largest centred residue (over all rows, moduli and coefficients) of
// phase(row) - P w_ij g [s]: for an honest row this is ||e_ij||_inf.
func c20RowErr(ps *c20PS, sk *rlwe.SecretKey, rg *rgsw.Ciphertext, g []int64, w int) uint64 {
	lq, lp := rg.LevelQ(), rg.LevelP()
	ringQP := ps.params.RingQP().AtLevel(lq, lp)
	ringQ := ringQP.RingQ
	gw := lp + 1
	if gw == 0 {
		gw = 1
	}
	// g and g*s, canonical coefficient rows mod Q
	gRows := ps.rowsFromInts(g, lq)
	gP := ps.polyFromRows(gRows, false)
	gsP := ps.mulBySecret(gP, sk.Value.Q)
	var worst uint64
	for v := 0; v < 2; v++ {
		for i := range rg.Value[v].Value {
			for j := range rg.Value[v].Value[i] {
				row := rg.Value[v].Value[i][j]
				t := *row[0].CopyNew()
				ringQP.MulCoeffsMontgomeryThenAdd(row[1], sk.Value, t)
				rows := ps.canonQP(t, lq, lp, true, true)
				for k := range rows {
					var q uint64
					isQ := k <= lq
					if isQ {
						q = ps.Q[k]
					} else {
						q = ps.P[k-lq-1]
					}
					// expected message on this row
					f := uint64(0)
					if isQ && k >= i*gw && k < (i+1)*gw {
						fb := new(big.Int).Lsh(big.NewInt(1), uint(w*j))
						if lp >= 0 {
							fb.Mul(fb, c20ProdBig(ps.P[:lp+1]))
						}
						f = fb.Mod(fb, new(big.Int).SetUint64(q)).Uint64()
					}
					for tt, x := range rows[k] {
						var m uint64
						if f != 0 {
							src := gP
							if v == 1 {
								src = gsP
							}
							m = ring.BRed(src.Coeffs[k][tt], f, q, ringQ.SubRings[k].BRedConstant)
						}
						d := (x + q - m) % q
						if d > q/2 {
							d = q - d
						}
						if d > worst {
							worst = d
						}
					}
				}
			}
		}
	}
	return worst
}

// c20RowsNoise: probe rgsw_rows_noise — every row of the ciphertext decrypts to P w_ij g (Value[0]) resp.
// P w_ij g s (Value[1]) with an error within the bound of the error distribution.  Also records whether
// the library's own checker rgsw.NoiseRGSWCiphertext survives the ciphertext's shape.
func c20RowsNoise(c *Ctx, ps *c20PS, sk *rlwe.SecretKey, rg *rgsw.Ciphertext, g []int64, w int, mode string) {
	lq, lp := rg.LevelQ(), rg.LevelP()
	worst := c20RowErr(ps, sk, rg, g, w)
	detail := ""
	if worst > uint64(ps.params.NoiseBound())+1 {
		detail = fmt.Sprintf("max row error=%d bound=%d mode=%s", worst, uint64(ps.params.NoiseBound())+1, mode)
	}
	key := "rgsw-rows-noise"
	c.Probe("rgsw_rows_noise", fmt.Sprintf("%s mode=%s seed=%d line=%d", c20ParTokens(ps, lq, lp, w), mode, c.Seed, c.N), key, detail)
	pt := ps.rgswPlaintext(g, lq, true, true)
	res := Try(func() string {
		rgsw.NoiseRGSWCiphertext(rg, pt.Value, sk, ps.params)
		return "ok"
	})
	d2 := ""
	if res != "ok" {
		d2 = fmt.Sprintf("NoiseRGSWCiphertext panics on shape %v", c20Shape(rg))
	}
	c.Probe("noise_util_no_panic", fmt.Sprintf("%s shape=%s", c20ParTokens(ps, lq, lp, w), IVec(c20Shape(rg))), "noise-gadget-shape-panic", d2)
}

// c20Homomorphisms: ties and probes for AddLazy / Reduce / MulByXPowAlphaMinusOne[ThenAdd]Lazy.
func c20Homomorphisms(c *Ctx, ps *c20PS, sk *rlwe.SecretKey, sInts []int64, rgA *rgsw.Ciphertext, gA []int64, lq, lp, w int, mode string) {
	n := ps.N()
	ringQP := ps.params.RingQP().AtLevel(lq, lp)
	gB := c20Message(c, n, c.rng.Intn(5))
	rgB := c20Encrypt(c, ps, sk, sInts, gB, lq, lp, w, mode, true, false)
	par := c20ParTokens(ps, lq, lp, w)
	copyRGSW := func(x *rgsw.Ciphertext) *rgsw.Ciphertext {
		return &rgsw.Ciphertext{Value: [2]rlwe.GadgetCiphertext{*x.Value[0].CopyNew(), *x.Value[1].CopyNew()}}
	}
	// ---- Add ----
	sum := copyRGSW(rgA)
	{
		b := map[string]string{"op": c20SnapRGSW(rgB)}
		rgsw.AddLazy(rgB, ringQP, sum)
		c20Unchanged(c, "rgsw_inputs_unchanged", par+" fn=AddLazy", "rgsw-input-mutated", b, map[string]string{"op": c20SnapRGSW(rgB)})
		// Reduce out of place leaves its input alone and equals Reduce in place
		lazy := copyRGSW(sum)
		red := copyRGSW(sum)
		b = map[string]string{"ctIn": c20SnapRGSW(lazy)}
		rgsw.Reduce(lazy, ringQP, red)
		a := map[string]string{"ctIn": c20SnapRGSW(lazy)}
		rgsw.Reduce(sum, ringQP, sum)
		b["outOfPlace=inPlace"], a["outOfPlace=inPlace"] = c20SnapRGSW(sum), c20SnapRGSW(red)
		c20Unchanged(c, "rgsw_inputs_unchanged", par+" fn=Reduce", "rgsw-input-mutated", b, a)
	}
	if !probesOnly() {
		c.Emit(fmt.Sprintf("rgsw_add %s %s %s", par, c20RGSWArgs("a", ps.rgswPolys(rgA)), c20RGSWArgs("b", ps.rgswPolys(rgB))), c20RGSWOut(ps.rgswPolys(sum)))
	}
	gSum := make([]int64, n)
	for i := range gSum {
		gSum[i] = gA[i] + gB[i]
	}
	c20HomProbe(c, ps, sk, sInts, sum, gSum, lq, lp, w, 2, "rgsw_add", par)
	c20OutOfPlace(c, ps, sk, sInts, rgA, gA, rgB, gB, lq, lp, w, par)

	// ---- multiply by X^alpha - 1 ----
	alpha := 1 + c.rng.Intn(2*n-1)
	if c.rng.Intn(6) == 0 {
		alpha = []int{n, 2*n - 1, 1, n - 1, n + 1}[c.rng.Intn(5)]
	}
	xm1 := c20XPowMinusOne(ps, lq, lp, alpha)
	prod := copyRGSW(rgA)
	{
		b := map[string]string{"ctIn": c20SnapRGSW(rgA), "powXMinusOne": c20SnapQP(xm1)}
		rgsw.MulByXPowAlphaMinusOneLazy(rgA, xm1, ringQP, prod)
		c20Unchanged(c, "rgsw_inputs_unchanged", par+" fn=MulByXPowAlphaMinusOneLazy", "rgsw-input-mutated", b, map[string]string{"ctIn": c20SnapRGSW(rgA), "powXMinusOne": c20SnapQP(xm1)})
	}
	prod = copyRGSW(rgA)
	rgsw.MulByXPowAlphaMinusOneLazy(rgA, xm1, ringQP, prod)
	rgsw.Reduce(prod, ringQP, prod)
	if !probesOnly() {
		c.Emit(fmt.Sprintf("rgsw_mulxm1 %s alpha=%d %s", par, alpha, c20RGSWArgs("a", ps.rgswPolys(rgA))), c20RGSWOut(ps.rgswPolys(prod)))
	}
	gProd := c20MulXm1Ints(gA, alpha)
	c20HomProbe(c, ps, sk, sInts, prod, gProd, lq, lp, w, 2, "rgsw_mulxminus1", par)

	// ---- out += in * (X^alpha - 1) ----
	acc := copyRGSW(rgB)
	{
		b := map[string]string{"ctIn": c20SnapRGSW(rgA), "powXMinusOne": c20SnapQP(xm1)}
		tmp := copyRGSW(rgB)
		rgsw.MulByXPowAlphaMinusOneThenAddLazy(rgA, xm1, ringQP, tmp)
		c20Unchanged(c, "rgsw_inputs_unchanged", par+" fn=MulByXPowAlphaMinusOneThenAddLazy", "rgsw-input-mutated", b, map[string]string{"ctIn": c20SnapRGSW(rgA), "powXMinusOne": c20SnapQP(xm1)})
	}
	rgsw.MulByXPowAlphaMinusOneThenAddLazy(rgA, xm1, ringQP, acc)
	rgsw.Reduce(acc, ringQP, acc)
	if !probesOnly() {
		c.Emit(fmt.Sprintf("rgsw_mulxm1add %s alpha=%d %s %s", par, alpha, c20RGSWArgs("a", ps.rgswPolys(rgA)), c20RGSWArgs("b", ps.rgswPolys(rgB))), c20RGSWOut(ps.rgswPolys(acc)))
	}
	gAcc := make([]int64, n)
	for i := range gAcc {
		gAcc[i] = gB[i] + gProd[i]
	}
	c20HomProbe(c, ps, sk, sInts, acc, gAcc, lq, lp, w, 3, "rgsw_mulxminus1", par)

	// ---- add a gadget plaintext ----
	mPt := int64(c.rng.Intn(4)) - 2
	if mPt >= 0 {
		mPt++
	}
	pt, err := rgsw.NewPlaintext(ps.params, mPt, lq, lp, w)
	if err != nil {
		c.Emit("rgsw_newplaintext "+par, "err")
	} else {
		withPt := copyRGSW(rgA)
		rgsw.AddLazy(pt, ringQP, withPt)
		rgsw.Reduce(withPt, ringQP, withPt)
		mRows := ps.rowsFromInts(append([]int64{mPt}, make([]int64, n-1)...), lq)
		if !probesOnly() {
			c.Emit(fmt.Sprintf("rgsw_addpt %s m=%s %s", par, Mat(mRows), c20RGSWArgs("a", ps.rgswPolys(rgA))), c20RGSWOut(ps.rgswPolys(withPt)))
		}
		gPt := append([]int64{}, gA...)
		gPt[0] += mPt
		c20HomProbe(c, ps, sk, sInts, withPt, gPt, lq, lp, w, 1, "rgsw_add", par)
	}
}

func c20MulXm1Ints(g []int64, alpha int) []int64 {
	n := len(g)
	out := make([]int64, n)
	for i, x := range g {
		e := (i + alpha) % (2 * n)
		if e < n {
			out[e] += x
		} else {
			out[e-n] -= x
		}
		out[i] -= x
	}
	return out
}

// c20XPowMinusOne returns X^alpha - 1 over QP in the NTT + Montgomery domain.
func c20XPowMinusOne(ps *c20PS, lq, lp int, alpha int) ringqp.Poly {
	ringQP := ps.params.RingQP().AtLevel(lq, lp)
	p := ringqp.Poly{Q: ringQP.RingQ.NewMonomialXi(alpha)}
	one := ringQP.RingQ.NewPoly()
	for k := range one.Coeffs {
		one.Coeffs[k][0] = 1
	}
	ringQP.RingQ.Sub(p.Q, one, p.Q)
	if lp >= 0 {
		p.P = ringQP.RingP.NewMonomialXi(alpha)
		oneP := ringQP.RingP.NewPoly()
		for k := range oneP.Coeffs {
			oneP.Coeffs[k][0] = 1
		}
		ringQP.RingP.Sub(p.P, oneP, p.P)
	}
	ringQP.NTT(p, p)
	ringQP.MForm(p, p)
	return p
}

// c20HomProbe: the combined ciphertext behaves as an RGSW encryption of gWant: its external product with a
// fresh RLWE ciphertext decrypts to gWant * phase within `terms` times the bound of one product.
func c20HomProbe(c *Ctx, ps *c20PS, sk *rlwe.SecretKey, sInts []int64, rg *rgsw.Ciphertext, gWant []int64, lq, lp, w int, terms int64, name, par string) {
	ct := c20RandCt(c, ps, sk, lq, 0)
	phaseIn := ps.phaseBig(ct, sk, lq)
	eval := rgsw.NewEvaluator(ps.params, nil)
	fast := lp == -1 && lq == 0 && c20Acc32Fits(ps.Q[0], c20Shape(rg)[0])
	wraps := fast && c20Fast32Wraps(ps, ct, rg)
	if res := Try(func() string { eval.ExternalProduct(ct, rg, ct); return "ok" }); res != "ok" {
		c.Probe("extprod_no_panic", fmt.Sprintf("%s via=%s shape=%s seed=%d line=%d", par, name, IVec(c20Shape(rg)), c.Seed, c.N), "extprod-panic", "ExternalProduct -> "+res)
		return
	}
	phaseOut := ps.phaseBig(ct, sk, lq)
	Q := c20ProdBig(ps.Q[:lq+1])
	noise := c20DistModQ(phaseOut, c20NegacyclicBig(phaseIn, gWant), Q)
	dsum, recomb := ps.digitSum(lq, lp, w, c20Shape(rg), fast)
	bound := ps.extProdNoiseBound(lq, lp, dsum, c20L1(sInts))
	// X^alpha - 1 doubles the error of every row; sums add them
	bound.Mul(bound, big.NewInt(terms))
	key := name
	switch {
	case fast && w == 0:
		key = "extprod32-zero-mask"
	case wraps:
		key = "extprod32-overflow"
	case !recomb:
		key = "base2-digit-count"
	}
	detail := ""
	if new(big.Int).Lsh(bound, 2).Cmp(Q) >= 0 && key == name {
		c.Count(name + ":vacuous-bound")
	} else if noise.Cmp(bound) > 0 {
		detail = fmt.Sprintf("noise=%s bound=%s", noise.String(), bound.String())
	}
	c.Probe(name, fmt.Sprintf("%s seed=%d line=%d", par, c.Seed, c.N), key, detail)
}

// ---------- the 32-bit path at word level ----------

// c20Acc32Fits mirrors the guard acc32BitFits of core/rgsw/evaluator.go (fix C20-4).
func c20Acc32Fits(q uint64, d int) bool {
	if q>>29 != 0 || d < 1 {
		return false
	}
	return uint64(2*d) <= ^uint64(0)/((q-1)*(6*q-2))
}

// c20Fast32Terms recomputes, with the public ring functions, the operands of the accumulator of
// externalProduct32Bit: for every term k the stored row values (component 0 and 1) and the lazily
// transformed digit.
func c20Fast32Terms(ps *c20PS, ct *rlwe.Ciphertext, rg *rgsw.Ciphertext) (R0, R1, C [][]uint64) {
	ringQ := ps.params.RingQ().AtLevel(0)
	sub := ringQ.SubRings[0]
	n := ps.N()
	pw2 := rg.Value[0].BaseTwoDecomposition
	mask := uint64((1 << pw2) - 1)
	if mask == 0 {
		mask = 0xFFFFFFFFFFFFFFFF
	}
	buf := ringQ.NewPoly()
	for i, el := range rg.Value {
		ringQ.INTT(ct.Value[i], buf)
		for j := range el.Value[0] {
			cw := make([]uint64, n)
			ring.MaskVec(buf.Coeffs[0], j*pw2, mask, cw)
			cwNTT := make([]uint64, n)
			sub.NTTLazy(cw, cwNTT)
			C = append(C, cwNTT)
			R0 = append(R0, append([]uint64(nil), el.Value[0][j][0].Q.Coeffs[0]...))
			R1 = append(R1, append([]uint64(nil), el.Value[0][j][1].Q.Coeffs[0]...))
		}
	}
	return
}

// c20Fast32Wraps: does sum_k r_k c_k reach 2^64 in some slot of some component?
func c20Fast32Wraps(ps *c20PS, ct *rlwe.Ciphertext, rg *rgsw.Ciphertext) bool {
	R0, R1, C := c20Fast32Terms(ps, ct, rg)
	lim := new(big.Int).Lsh(big.NewInt(1), 64)
	for _, R := range [][][]uint64{R0, R1} {
		for t := 0; t < ps.N(); t++ {
			s := new(big.Int)
			for k := range R {
				s.Add(s, new(big.Int).Mul(new(big.Int).SetUint64(R[k][t]), new(big.Int).SetUint64(C[k][t])))
			}
			if s.Cmp(lim) >= 0 {
				return true
			}
		}
	}
	return false
}

// c20Gen32: the 32-bit path: word-level tie of the accumulator, and probe path_eq_32 (the 32-bit path returns
// what the general algorithm returns on the same operands) on moduli and digit widths around the point
// where 2*ceil(log q / w) products of a value < q and a value < 6q stop fitting 64 bits.
func c20Gen32(c *Ctx) {
	pg := newC20PrimeGen()
	type cs struct{ bits, dir, w, logN int }
	var cases []cs
	for _, bd := range [][2]int{{29, -1}, {28, 1}, {28, -1}, {27, -1}, {24, -1}, {20, 1}} {
		for _, w := range []int{1, 2, 3, 4, 5, 6, 7, 12, 20} {
			if !c.Thorough() && bd[0] < 27 && w != 1 && w != 4 {
				continue
			}
			cases = append(cases, cs{bd[0], bd[1], w, 4 + c.rng.Intn(c.Scale(1, 3))})
		}
	}
	reps := c.Scale(1, 4)
	for _, k := range cases {
		q := pg.next(k.bits, uint64(2<<k.logN), k.dir)
		ps, err := c20NewPS(k.logN, []uint64{q}, nil)
		if err != nil {
			c.Count("params-rejected")
			continue
		}
		sk := rlwe.NewKeyGenerator(ps.params).GenSecretKeyNew()
		sInts := ps.secretInts(sk)
		for rep := 0; rep < reps; rep++ {
			g := c20Message(c, ps.N(), rep)
			enc := rgsw.NewEncryptor(ps.params, sk)
			rg := rgsw.NewCiphertext(ps.params, 0, -1, k.w)
			if err := enc.Encrypt(ps.rgswPlaintext(g, 0, true, false), rg); err != nil {
				panic(err)
			}
			ct := c20RandCt(c, ps, sk, 0, rep%2)
			R0, R1, C := c20Fast32Terms(ps, ct, rg)
			wraps := c20Fast32Wraps(ps, ct, rg)
			in := ct.CopyNew()
			eval := rgsw.NewEvaluator(ps.params, nil)
			eval.ExternalProduct(ct, rg, ct)
			mrc := ps.params.RingQ().SubRings[0].MRedConstant
			fastPath := c20Acc32Fits(q, c20Shape(rg)[0])
			c.Count(fmt.Sprintf("gen32:fastpath=%v wraps=%v", fastPath, wraps))
			if fastPath {
				c.Emit(fmt.Sprintf("ep32raw q=%d mrc=%d r0=%s r1=%s c=%s", q, mrc, Mat(R0), Mat(R1), Mat(C)),
					Vec(ct.Value[0].Coeffs[0])+"|"+Vec(ct.Value[1].Coeffs[0]))
			}
			// the guard's purpose: whenever the fast path is taken the accumulator does not wrap
			gd := ""
			if fastPath && wraps {
				gd = fmt.Sprintf("q=%d w=%d d=%d: fast path taken and the accumulator wraps", q, k.w, c20Shape(rg)[0])
			}
			c.Probe("acc32_guard", fmt.Sprintf("q=%d w=%d d=%d fast=%d", q, k.w, c20Shape(rg)[0], c20B2i(fastPath)), "extprod32-overflow", gd)
			// reference: the general algorithm on the same operands (exact modular inner product)
			ref0, ref1 := c20Fast32Reference(ps, R0, R1, C)
			same := true
			for t := range ref0 {
				if ref0[t] != ct.Value[0].Coeffs[0][t] || ref1[t] != ct.Value[1].Coeffs[0][t] {
					same = false
				}
			}
			detail := ""
			if !same {
				detail = fmt.Sprintf("q=%d logq=%d w=%d terms=%d wraps=%v", q, k.bits, k.w, len(C), wraps)
			}
			c.Probe("path_eq_32", fmt.Sprintf("q=%d w=%d terms=%d wraps=%d seed=%d line=%d", q, k.w, len(C), c20B2i(wraps), c.Seed, c.N), "extprod32-overflow", detail)
			if same == wraps {
				// the hypothesis of path_eq is exactly the no-wrap condition: monitor both directions
				c.Count(fmt.Sprintf("path_eq_32:same=%v wraps=%v", same, wraps))
			}
			// and the decryption
			phaseIn := ps.phaseBig(in, sk, 0)
			phaseOut := ps.phaseBig(ct, sk, 0)
			Q := new(big.Int).SetUint64(q)
			noise := c20DistModQ(phaseOut, c20NegacyclicBig(phaseIn, g), Q)
			dsum, recomb := ps.digitSum(0, -1, k.w, c20Shape(rg), true)
			bound := ps.extProdNoiseBound(0, -1, dsum, c20L1(sInts))
			key := "extprod-noise"
			if wraps && fastPath {
				key = "extprod32-overflow"
			} else if !recomb {
				key = "base2-digit-count"
			}
			d2 := ""
			if new(big.Int).Lsh(bound, 2).Cmp(Q) >= 0 && key == "extprod-noise" {
				c.Count("extprod_decrypts:vacuous-bound")
			} else if noise.Cmp(bound) > 0 {
				d2 = fmt.Sprintf("noise=%s bound=%s q=%d w=%d wraps=%v", noise, bound, q, k.w, wraps)
			}
			c.Probe("extprod_decrypts", fmt.Sprintf("fast32 q=%d w=%d seed=%d line=%d", q, k.w, c.Seed, c.N), key, d2)
		}
	}
}

// c20Fast32Reference: IMForm-free reference of one component: sum_k MRed(r_k, c_k) mod q per slot.
func c20Fast32Reference(ps *c20PS, R0, R1, C [][]uint64) (o0, o1 []uint64) {
	sub := ps.params.RingQ().SubRings[0]
	n := ps.N()
	o0, o1 = make([]uint64, n), make([]uint64, n)
	for k := range C {
		cred := make([]uint64, n)
		sub.Reduce(C[k], cred)
		sub.MulCoeffsMontgomeryThenAdd(R0[k], cred, o0)
		sub.MulCoeffsMontgomeryThenAdd(R1[k], cred, o1)
	}
	return
}

// ---------- malformed / boundary calls ----------

func c20GenMalformed(c *Ctx) {
	pg := newC20PrimeGen()
	q := pg.next(36, 32, -1)
	p := pg.next(40, 32, 0)
	ps, err := c20NewPS(4, []uint64{q}, []uint64{p})
	if err != nil {
		return
	}
	// NewPlaintext documents "*ring.Poly" as an accepted value; NewGadgetPlaintext accepts ring.Poly only and
	// returns (nil, err) otherwise, which rgsw.NewPlaintext dereferences.
	poly := ps.params.RingQ().NewPoly()
	for _, tc := range []struct {
		name string
		v    interface{}
	}{{"*ring.Poly", &poly}, {"ring.Poly", poly}, {"string", "x"}, {"int", 3}, {"uint64", uint64(3)}, {"int64", int64(-3)}} {
		out := Try(func() string {
			_, e := rgsw.NewPlaintext(ps.params, tc.v, 0, 0, 0)
			if e != nil {
				return "err"
			}
			return "ok"
		})
		detail := ""
		documented := tc.name == "*ring.Poly" || tc.name == "uint64" || tc.name == "int64"
		if out == "panic" || (documented && out != "ok") {
			detail = "NewPlaintext(" + tc.name + ") -> " + out
		}
		c.Probe("newplaintext_no_panic", "value="+tc.name, "rgsw-newplaintext-nil-deref", detail)
	}
	// AddLazy with an unsupported operand panics (documented by its panic message)
	rg := rgsw.NewCiphertext(ps.params, 0, 0, 0)
	out := Try(func() string {
		rgsw.AddLazy(3, *ps.params.RingQP(), rg)
		return "ok"
	})
	c.Emit("addlazy_badtype", out)
	// nil plaintext: Encrypt = EncryptZero
	sk := rlwe.NewKeyGenerator(ps.params).GenSecretKeyNew()
	sInts := ps.secretInts(sk)
	enc, tw := ps.newRGSWEncryptorWithTwin(sk)
	if err := enc.Encrypt(nil, rg); err != nil {
		c.Emit("rgsw_enc_nil", "err")
	} else {
		A0, A1, E0, E1 := tw.replayRGSW(0, 0, c20Shape(rg), true)
		zero := make([]int64, ps.N())
		c.Emit(fmt.Sprintf("rgsw_enc %s mode=api s=%s g=%s a0=%s e0=%s a1=%s e1=%s", c20ParTokens(ps, 0, 0, 0), c20I64Vec(sInts), Mat(ps.rowsFromInts(zero, 0)), c20Polys(A0), c20IVecs(E0), c20Polys(A1), c20IVecs(E1)),
			IVec(c20Shape(rg))+"|"+c20RGSWOut(ps.rgswPolys(rg)))
	}
}

// c20GenEncFlags: Encrypt under the four (IsNTT, IsMontgomery) combinations of the plaintext, with a fresh and
// with a reused encryptor.  Ties the rows to the model (which follows the code: for an NTT + Montgomery
// plaintext the code copies its buffer INTO the plaintext and encrypts the buffer), probes
// rgsw_enc_message (rows decrypt to the plaintext handed in) and rgsw_enc_pt_preserved.
func c20GenEncFlags(c *Ctx) {
	pg := newC20PrimeGen()
	type cs struct {
		nQ, nP, w int
	}
	cases := []cs{{1, 1, 7}, {2, 1, 0}, {2, 2, 0}, {1, 0, 12}}
	if c.Thorough() {
		cases = append(cases, cs{3, 1, 4}, cs{3, 2, 0}, cs{2, 0, 7}, cs{1, 2, 7})
	}
	for _, k := range cases {
		var Q, P []uint64
		for i := 0; i < k.nQ; i++ {
			Q = append(Q, pg.next(32+i, 32, -1))
		}
		for i := 0; i < k.nP; i++ {
			P = append(P, pg.next(41+i, 32, 0))
		}
		ps, err := c20NewPS(4, Q, P)
		if err != nil {
			continue
		}
		lq, lp, w := k.nQ-1, k.nP-1, k.w
		sk := rlwe.NewKeyGenerator(ps.params).GenSecretKeyNew()
		sInts := ps.secretInts(sk)
		n := ps.N()
		for _, reuse := range []bool{false, true} {
			for _, ntt := range []bool{false, true} {
				for _, mont := range []bool{false, true} {
					enc, tw := ps.newRGSWEncryptorWithTwin(sk)
					// what the encryptor's buffer holds before the call under test
					stale := ps.rowsFromInts(make([]int64, n), lq)
					if reuse {
						g1 := c20Message(c, n, 0)
						ct1 := rgsw.NewCiphertext(ps.params, lq, lp, w)
						if err := enc.Encrypt(ps.rgswPlaintext(g1, lq, true, false), ct1); err != nil {
							panic(err)
						}
						tw.replayRGSW(lq, lp, c20Shape(ct1), true)
						// buffer after the call: m1 * P * 2^(w*J), J = number of base-2 digits
						J := 0
						for _, x := range c20Shape(ct1) {
							if x > J {
								J = x
							}
						}
						f := new(big.Int).Lsh(big.NewInt(1), uint(w*J))
						if lp >= 0 {
							f.Mul(f, c20ProdBig(ps.P[:lp+1]))
						}
						v := make([]*big.Int, n)
						for i := range v {
							v[i] = new(big.Int).Mul(f, big.NewInt(g1[i]))
						}
						stale = ps.rowsFromBig(v, lq)
					}
					g := c20Message(c, n, 2+c.rng.Intn(3))
					pt := ps.rgswPlaintext(g, lq, ntt, mont)
					before := ps.canonQ(pt.Value, lq, ntt, mont)
					ct := rgsw.NewCiphertext(ps.params, lq, lp, w)
					if err := enc.Encrypt(pt, ct); err != nil {
						panic(err)
					}
					A0, A1, E0, E1 := tw.replayRGSW(lq, lp, c20Shape(ct), true)
					gRows := ps.rowsFromInts(g, lq)
					_ = stale // before fix C20-1 an NTT+Montgomery plaintext made Encrypt encrypt this buffer content
					c.Emit(fmt.Sprintf("rgsw_enc %s mode=api s=%s g=%s a0=%s e0=%s a1=%s e1=%s", c20ParTokens(ps, lq, lp, w),
						c20I64Vec(sInts), Mat(gRows), c20Polys(A0), c20IVecs(E0), c20Polys(A1), c20IVecs(E1)),
						IVec(c20Shape(ct))+"|"+c20RGSWOut(ps.rgswPolys(ct)))
					c.Count(fmt.Sprintf("encflags:ntt=%v mont=%v reuse=%v", ntt, mont, reuse))
					// probe: the plaintext is an input
					after := ps.canonQ(pt.Value, lq, ntt, mont)
					detail := ""
					for i := range before {
						for t := range before[i] {
							if before[i][t] != after[i][t] && detail == "" {
								detail = fmt.Sprintf("plaintext overwritten (row %d coeff %d: %d -> %d) ntt=%v mont=%v", i, t, before[i][t], after[i][t], ntt, mont)
							}
						}
					}
					par := fmt.Sprintf("%s ntt=%d mont=%d reuse=%d", c20ParTokens(ps, lq, lp, w), c20B2i(ntt), c20B2i(mont), c20B2i(reuse))
					c.Probe("rgsw_enc_pt_preserved", par, "rgsw-enc-copylvl-reversed", detail)
					// probe: the rows encrypt the plaintext handed in
					worst := c20RowErr(ps, sk, ct, g, w)
					d2 := ""
					if worst > uint64(ps.params.NoiseBound())+1 {
						d2 = fmt.Sprintf("max row error=%d bound=%d ntt=%v mont=%v reuse=%v", worst, uint64(ps.params.NoiseBound())+1, ntt, mont, reuse)
					}
					key := "rgsw-enc-copylvl-reversed"
					c.Probe("rgsw_enc_message", par, key, d2)
				}
			}
		}
	}
}
