package main

// C10 — copies are complete, independent and safe to use concurrently.
//
//   table <Type.Ctor>                tie: reflection walk original vs copy ⇒ sorted `field:class` list
//                                    (config | shared | owned | fresh | mixed | nil | dropped | added | …),
//                                    which Lattigo/Model/Copy.lean must reproduce exactly
//   copy_behaves_same/<Type.Ctor>    differential execution original vs copy
//   copy_independent/<Type.Ctor>     content hash of everything reachable from the original before / after
//                                    using (and, for deep copies, overwriting) the copy
//   deep_copy_disjoint/<Type>        no address reachable from the copy is reachable from the original
//   parallel_equals_sequential/<Type> (thorough) 2…16 goroutines, each its own shallow copy, shared keys
//   shared_cache_race/<Type>         the lazily written shared cache under concurrency (child process)
//   copy_config_equal/<Type.Ctor>    an unused shallow copy has the content of the unused original everywhere
//                                    (nested objects included), PRNG states excepted (c10ConfigDiff, c10_mp.go)
//
// Other layers, each in its own file (called from genC10):
//   c10_deep.go   CopyNew of ring.Poly, ringqp.Poly, rlwe.VectorQP / GadgetCiphertext / MetaData, structs.*
//   c10_ring.go   ring.BasisExtender (all five operations, every level pair), ring.Decomposer (shared, read-only),
//                 samplers AtLevel / WithPRNG with keyed PRNGs, ringqp.Ring / ringqp.UniformSampler
//   c10_rlwe.go   rlwe.RingPackingEvaluator.ShallowCopy, blindrot.Evaluator (no copy constructor: second instance)
//   c10_mp.go     every multiparty protocol: two-party run, party A on the original, party B on the copy
//   c10_btp.go    dft / mod1 evaluators over a shallow copy, bootstrapping.Evaluator.ShallowCopy (wiring, bootstrap)

import (
	"fmt"
	"math/big"
	"os"
	"os/exec"
	"reflect"
	"strings"
	"sync"

	"github.com/tuneinsight/lattigo/v6/core/rgsw"
	"github.com/tuneinsight/lattigo/v6/core/rlwe"
	"github.com/tuneinsight/lattigo/v6/multiparty"
	"github.com/tuneinsight/lattigo/v6/multiparty/mpbgv"
	"github.com/tuneinsight/lattigo/v6/multiparty/mpckks"
	"github.com/tuneinsight/lattigo/v6/ring"
	"github.com/tuneinsight/lattigo/v6/schemes/bgv"
	"github.com/tuneinsight/lattigo/v6/schemes/ckks"
	"github.com/tuneinsight/lattigo/v6/utils/bignum"
	"github.com/tuneinsight/lattigo/v6/utils/sampling"
)

func init() { register("C10", genC10) }

type c10Case struct {
	name      string // Type.Ctor
	deep      bool
	mk        func() (orig, cp interface{}) // pointers to structs of the same type
	same      func(orig, cp interface{}) string
	use       func(cp interface{})
	mutate    func(cp interface{}) // deep copies: an additional mutation through the public API
	docShared bool                 // the constructor is DOCUMENTED as sharing buffers / not concurrently usable
}

func c10Keyed(b byte) *sampling.KeyedPRNG {
	k := make([]byte, 64)
	for i := range k {
		k[i] = b + byte(i)
	}
	p, err := sampling.NewKeyedPRNG(k)
	if err != nil {
		panic(err)
	}
	return p
}

// overwrite every []uint64 of length ≥ 8 reachable from x
func c10Scribble(x interface{}) {
	seen := map[uintptr]bool{}
	var rec func(v reflect.Value, d int)
	rec = func(v reflect.Value, d int) {
		if !v.IsValid() || d > 60 {
			return
		}
		switch v.Kind() {
		case reflect.Ptr:
			if v.IsNil() || seen[v.Pointer()] {
				return
			}
			seen[v.Pointer()] = true
			rec(c09Readable(v.Elem()), d+1)
		case reflect.Interface:
			if !v.IsNil() {
				rec(c09Readable(v.Elem()), d+1)
			}
		case reflect.Struct:
			for i := 0; i < v.NumField(); i++ {
				rec(c09Readable(v.Field(i)), d+1)
			}
		case reflect.Array:
			for i := 0; i < v.Len(); i++ {
				rec(c09Readable(v.Index(i)), d+1)
			}
		case reflect.Map:
			it := v.MapRange()
			for it.Next() {
				rec(c09Readable(it.Value()), d+1)
			}
		case reflect.Slice:
			if v.Type().Elem().Kind() == reflect.Uint64 {
				for i := 0; i < v.Len(); i++ {
					v.Index(i).SetUint(0xABCDEF)
				}
				return
			}
			if v.Type().Elem().Kind() == reflect.Uint8 {
				for i := 0; i < v.Len(); i++ {
					v.Index(i).SetUint(0x5A)
				}
				return
			}
			for i := 0; i < v.Len(); i++ {
				rec(c09Readable(v.Index(i)), d+1)
			}
		}
	}
	rec(c09Readable(reflect.ValueOf(x)), 0)
}

func c10Fp(dec *rlwe.Decryptor, ct *rlwe.Ciphertext) string {
	return Try(func() string {
		pt := dec.DecryptNew(ct)
		return fmt.Sprintf("d%d,l%d,%s,%s", ct.Degree(), ct.Level(), deepHash(ct.MetaData), deepHash(&pt.Value))
	})
}

func genC10(c *Ctx) {
	if strings.HasPrefix(c.Tier, "c10child-") {
		c10Child(c)
		return
	}
	logN := 5
	bp, err := bgv.NewParametersFromLiteral(bgv.ParametersLiteral{LogN: logN, LogQ: []int{45, 40, 40}, LogP: []int{50}, PlaintextModulus: 65537})
	if err != nil {
		panic(err)
	}
	cp, err := ckks.NewParametersFromLiteral(ckks.ParametersLiteral{LogN: logN, LogQ: []int{55, 40, 40}, LogP: []int{55}, LogDefaultScale: 40})
	if err != nil {
		panic(err)
	}
	rp := bp.GetRLWEParameters()
	kgen := rlwe.NewKeyGenerator(bp)
	sk := kgen.GenSecretKeyNew()
	sk2 := kgen.GenSecretKeyNew()
	pk := kgen.GenPublicKeyNew(sk)
	rlk := kgen.GenRelinearizationKeyNew(sk)
	gals := []uint64{rp.GaloisElement(1), rp.GaloisElement(2), rp.GaloisElement(3)}
	gks := kgen.GenGaloisKeysNew(gals, sk)
	evk := rlwe.NewMemEvaluationKeySet(rlk, gks...)
	evk2 := rlwe.NewMemEvaluationKeySet(kgen.GenRelinearizationKeyNew(sk), kgen.GenGaloisKeysNew(gals[:2], sk)...)
	lateGal := rp.GaloisElement(5)
	lateKey := kgen.GenGaloisKeyNew(lateGal, sk)
	enc := rlwe.NewEncryptor(bp, sk)
	dec := rlwe.NewDecryptor(bp, sk)
	becd := bgv.NewEncoder(bp)
	mkCt := func(seed int) *rlwe.Ciphertext {
		pt := bgv.NewPlaintext(bp, bp.MaxLevel())
		v := make([]uint64, bp.MaxSlots())
		for i := range v {
			v[i] = uint64((i*5 + seed) % 101)
		}
		_ = becd.Encode(v, pt)
		ct, _ := enc.EncryptNew(pt)
		return ct
	}
	A, B := mkCt(1), mkCt(2)
	// ckks side
	ckgen := rlwe.NewKeyGenerator(cp)
	csk := ckgen.GenSecretKeyNew()
	crp := cp.GetRLWEParameters()
	cgals := []uint64{crp.GaloisElement(1), crp.GaloisElement(2), crp.GaloisElementOrderTwoOrthogonalSubgroup()}
	cevk := rlwe.NewMemEvaluationKeySet(ckgen.GenRelinearizationKeyNew(csk), ckgen.GenGaloisKeysNew(cgals, csk)...)
	cenc := rlwe.NewEncryptor(cp, csk)
	cdec := rlwe.NewDecryptor(cp, csk)
	cecd := ckks.NewEncoder(cp)
	mkCCt := func(seed int) *rlwe.Ciphertext {
		pt := ckks.NewPlaintext(cp, cp.MaxLevel())
		v := make([]float64, cp.MaxSlots())
		for i := range v {
			v[i] = float64((i*3+seed)%7) / 4
		}
		_ = cecd.Encode(v, pt)
		ct, _ := cenc.EncryptNew(pt)
		return ct
	}
	CA, CB := mkCCt(1), mkCCt(2)

	bFp := func(ct *rlwe.Ciphertext) string {
		return Try(func() string {
			v := make([]uint64, bp.MaxSlots())
			if err := becd.Decode(dec.DecryptNew(ct), v); err != nil {
				return "err"
			}
			return fmt.Sprintf("d%d,l%d,%s,%s", ct.Degree(), ct.Level(), deepHash(ct.MetaData), Vec(v))
		})
	}
	rlweOps := func(ev *rlwe.Evaluator) string {
		o1, o2 := rlwe.NewCiphertext(bp, 1, A.Level()), rlwe.NewCiphertext(bp, 1, A.Level())
		e1 := ev.Automorphism(A.CopyNew(), gals[0], o1)
		e2 := ev.Automorphism(A.CopyNew(), gals[1], o2)
		return fmt.Sprintf("%v|%v|%s|%s", e1 != nil, e2 != nil, bFp(o1), bFp(o2))
	}
	bgvOps := func(ev *bgv.Evaluator) string {
		o1, o2, o3 := bgv.NewCiphertext(bp, 1, A.Level()), bgv.NewCiphertext(bp, 1, A.Level()), bgv.NewCiphertext(bp, 1, A.Level())
		e1 := ev.MulRelin(A.CopyNew(), B.CopyNew(), o1)
		e2 := ev.RotateColumns(A.CopyNew(), 2, o2)
		e3 := ev.Add(A.CopyNew(), []uint64{1, 2, 3}, o3)
		return fmt.Sprintf("%v|%v|%v|%s|%s|%s", e1 != nil, e2 != nil, e3 != nil, bFp(o1), bFp(o2), bFp(o3))
	}
	ckksOps := func(ev *ckks.Evaluator) string {
		o1, o2, o3 := ckks.NewCiphertext(cp, 1, CA.Level()), ckks.NewCiphertext(cp, 1, CA.Level()), ckks.NewCiphertext(cp, 1, CA.Level())
		e1 := ev.MulRelin(CA.CopyNew(), CB.CopyNew(), o1)
		e2 := ev.Rotate(CA.CopyNew(), 2, o2)
		e3 := ev.Add(CA.CopyNew(), []float64{1, 2, 3}, o3)
		return fmt.Sprintf("%v|%v|%v|%s|%s|%s", e1 != nil, e2 != nil, e3 != nil, c10Fp(cdec, o1), c10Fp(cdec, o2), c10Fp(cdec, o3))
	}
	bgvRaw := func(ev *bgv.Evaluator) string {
		o1, o2, o3 := bgv.NewCiphertext(bp, 1, A.Level()), bgv.NewCiphertext(bp, 1, A.Level()), bgv.NewCiphertext(bp, 1, A.Level())
		e1 := ev.MulRelin(A.CopyNew(), B.CopyNew(), o1)
		e2 := ev.RotateColumns(A.CopyNew(), 2, o2)
		e3 := ev.Add(A.CopyNew(), []uint64{1, 2, 3}, o3)
		return fmt.Sprintf("%v|%v|%v|%s", e1 != nil, e2 != nil, e3 != nil, deepHash(o1, o2, o3))
	}
	ckksRaw := func(ev *ckks.Evaluator) string {
		o1, o2, o3 := ckks.NewCiphertext(cp, 1, CA.Level()), ckks.NewCiphertext(cp, 1, CA.Level()), ckks.NewCiphertext(cp, 1, CA.Level())
		e1 := ev.MulRelin(CA.CopyNew(), CB.CopyNew(), o1)
		e2 := ev.Rotate(CA.CopyNew(), 2, o2)
		e3 := ev.Add(CA.CopyNew(), []float64{1, 2, 3}, o3)
		return fmt.Sprintf("%v|%v|%v|%s", e1 != nil, e2 != nil, e3 != nil, deepHash(o1, o2, o3))
	}
	diff := func(a, b string) string {
		if a == b {
			return ""
		}
		return "results-differ"
	}

	var cases []c10Case
	add := func(cs c10Case) { cases = append(cases, cs) }

	// ---- rlwe.Evaluator ----
	add(c10Case{name: "rlwe.Evaluator.ShallowCopy",
		mk:   func() (interface{}, interface{}) { o := rlwe.NewEvaluator(bp, evk); return o, o.ShallowCopy() },
		same: func(o, x interface{}) string { return diff(rlweOps(o.(*rlwe.Evaluator)), rlweOps(x.(*rlwe.Evaluator))) },
		use:  func(x interface{}) { rlweOps(x.(*rlwe.Evaluator)) }})
	add(c10Case{name: "rlwe.Evaluator.WithKey", docShared: true,
		mk:   func() (interface{}, interface{}) { o := rlwe.NewEvaluator(bp, evk); return o, o.WithKey(evk2) },
		same: func(o, x interface{}) string { return diff(rlweOps(o.(*rlwe.Evaluator)), rlweOps(x.(*rlwe.Evaluator))) },
		use:  func(x interface{}) { rlweOps(x.(*rlwe.Evaluator)) }})
	// ---- rlwe.Encryptor ----
	encSame := func(o, x interface{}) string {
		pt := bgv.NewPlaintext(bp, bp.MaxLevel())
		_ = becd.Encode([]uint64{5, 6, 7}, pt)
		c1, e1 := o.(*rlwe.Encryptor).EncryptNew(pt)
		c2, e2 := x.(*rlwe.Encryptor).EncryptNew(pt)
		if (e1 == nil) != (e2 == nil) {
			return "error-behaviour-differs"
		}
		if e1 != nil {
			return ""
		}
		if deepHash(&dec.DecryptNew(c1).Value) == deepHash(&dec.DecryptNew(c2).Value) {
			return "" // identical noise would mean shared randomness
		}
		a, b := make([]uint64, 3), make([]uint64, 3)
		_ = becd.Decode(dec.DecryptNew(c1), a)
		_ = becd.Decode(dec.DecryptNew(c2), b)
		return diff(Vec(a), Vec(b))
	}
	encUse := func(x interface{}) { _, _ = x.(*rlwe.Encryptor).EncryptNew(bgv.NewPlaintext(bp, 1)) }
	add(c10Case{name: "rlwe.Encryptor.ShallowCopy", same: encSame, use: encUse,
		mk: func() (interface{}, interface{}) { o := rlwe.NewEncryptor(bp, sk); return o, o.ShallowCopy() }})
	add(c10Case{name: "rlwe.Encryptor.ShallowCopy[pk]", same: encSame, use: encUse,
		mk: func() (interface{}, interface{}) { o := rlwe.NewEncryptor(bp, pk); return o, o.ShallowCopy() }})
	add(c10Case{name: "rlwe.Encryptor.WithKey", same: encSame, use: encUse,
		mk: func() (interface{}, interface{}) { o := rlwe.NewEncryptor(bp, pk); return o, o.WithKey(sk) }})
	add(c10Case{name: "rlwe.Encryptor.WithPRNG", docShared: true, same: encSame, use: encUse,
		mk: func() (interface{}, interface{}) { o := rlwe.NewEncryptor(bp, sk); return o, o.WithPRNG(c10Keyed(1)) }})
	// ---- rlwe.Decryptor ----
	decSame := func(o, x interface{}) string {
		p1, p2 := o.(*rlwe.Decryptor).DecryptNew(A), x.(*rlwe.Decryptor).DecryptNew(A)
		return diff(deepHash(&p1.Value), deepHash(&p2.Value))
	}
	// the scratch polynomial of a Decryptor is only used for coefficient-domain ciphertexts
	decUse := func(x interface{}) {
		d := x.(*rlwe.Decryptor)
		d.DecryptNew(B)
		cf := B.CopyNew()
		r := rp.RingQ().AtLevel(cf.Level())
		r.INTT(cf.Value[0], cf.Value[0])
		r.INTT(cf.Value[1], cf.Value[1])
		cf.IsNTT = false
		d.DecryptNew(cf)
	}
	add(c10Case{name: "rlwe.Decryptor.ShallowCopy", same: decSame, use: decUse,
		mk: func() (interface{}, interface{}) { o := rlwe.NewDecryptor(bp, sk); return o, o.ShallowCopy() }})
	add(c10Case{name: "rlwe.Decryptor.WithKey", use: decUse,
		mk: func() (interface{}, interface{}) { o := rlwe.NewDecryptor(bp, sk); return o, o.WithKey(sk2) }})
	// ---- keys: deep copies ----
	add(c10Case{name: "rlwe.SecretKey.CopyNew", deep: true, mk: func() (interface{}, interface{}) { o := kgen.GenSecretKeyNew(); return o, o.CopyNew() }})
	add(c10Case{name: "rlwe.PublicKey.CopyNew", deep: true, mk: func() (interface{}, interface{}) { o := kgen.GenPublicKeyNew(sk); return o, o.CopyNew() }})
	add(c10Case{name: "rlwe.EvaluationKey.CopyNew", deep: true, mk: func() (interface{}, interface{}) { o := kgen.GenEvaluationKeyNew(sk, sk2); return o, o.CopyNew() }})
	add(c10Case{name: "rlwe.EvaluationKey.CopyNew[compressed]", deep: true,
		mk: func() (interface{}, interface{}) {
			o := kgen.GenEvaluationKeyNew(sk, sk2, rlwe.EvaluationKeyParameters{Compressed: true})
			return o, o.CopyNew()
		},
		same: func(o, x interface{}) string {
			a, b := o.(*rlwe.EvaluationKey).CopyNew(), x.(*rlwe.EvaluationKey)
			_ = a
			e1 := o.(*rlwe.EvaluationKey).Expand(bp, nil)
			e2 := b.Expand(bp, nil)
			if (e1 == nil) != (e2 == nil) {
				return fmt.Sprintf("Expand-error-differs(orig=%v,copy=%v)", e1 != nil, e2 != nil)
			}
			return ""
		}})
	add(c10Case{name: "rlwe.RelinearizationKey.CopyNew", deep: true, mk: func() (interface{}, interface{}) { o := kgen.GenRelinearizationKeyNew(sk); return o, o.CopyNew() }})
	add(c10Case{name: "rlwe.GaloisKey.CopyNew", deep: true, mk: func() (interface{}, interface{}) { o := kgen.GenGaloisKeyNew(gals[0], sk); return o, o.CopyNew() }})
	add(c10Case{name: "rlwe.Ciphertext.CopyNew", deep: true, mk: func() (interface{}, interface{}) { o := mkCt(4); return o, o.CopyNew() },
		mutate: func(x interface{}) { x.(*rlwe.Ciphertext).Scale.Value.SetInt64(12345) }})
	add(c10Case{name: "rlwe.Plaintext.CopyNew", deep: true, mk: func() (interface{}, interface{}) {
		o := bgv.NewPlaintext(bp, 1)
		return o, o.CopyNew()
	}, mutate: func(x interface{}) { x.(*rlwe.Plaintext).Scale.Value.SetInt64(12345) }})
	add(c10Case{name: "rlwe.MemEvaluationKeySet.ShallowCopy",
		mk: func() (interface{}, interface{}) {
			o := rlwe.NewMemEvaluationKeySet(rlk, gks...)
			return o, o.ShallowCopy().(*rlwe.MemEvaluationKeySet)
		}})
	// ---- ring ----
	rQ, rP := rp.RingQ(), rp.RingP()
	add(c10Case{name: "ring.BasisExtender.ShallowCopy",
		mk: func() (interface{}, interface{}) { o := ring.NewBasisExtender(rQ, rP); return o, o.ShallowCopy() },
		same: func(o, x interface{}) string {
			p := rQ.NewPoly()
			for i, s := range rQ.SubRings {
				for j := range p.Coeffs[i] {
					p.Coeffs[i][j] = uint64(j*7+i) % s.Modulus
				}
			}
			q1, q2 := rP.NewPoly(), rP.NewPoly()
			o.(*ring.BasisExtender).ModUpQtoP(rQ.Level(), rP.Level(), p, q1)
			x.(*ring.BasisExtender).ModUpQtoP(rQ.Level(), rP.Level(), p, q2)
			return diff(deepHash(&q1), deepHash(&q2))
		},
		use: func(x interface{}) {
			p, q := rQ.NewPoly(), rP.NewPoly()
			p.Coeffs[0][0] = 12345
			x.(*ring.BasisExtender).ModUpQtoP(rQ.Level(), rP.Level(), p, q)
		}})
	add(c10Case{name: "ring.Ring.AtLevel", mk: func() (interface{}, interface{}) { return rQ, rQ.AtLevel(1) },
		use: func(x interface{}) { r := x.(*ring.Ring); p := r.NewPoly(); r.NTT(p, p) }})
	add(c10Case{name: "ring.UniformSampler.AtLevel", docShared: true,
		mk: func() (interface{}, interface{}) {
			o := ring.NewUniformSampler(c10Keyed(3), rQ)
			return o, o.AtLevel(1).(*ring.UniformSampler)
		},
		use: func(x interface{}) { x.(*ring.UniformSampler).ReadNew() }})
	add(c10Case{name: "ring.UniformSampler.WithPRNG",
		mk: func() (interface{}, interface{}) {
			o := ring.NewUniformSampler(c10Keyed(3), rQ)
			return o, o.WithPRNG(c10Keyed(4))
		},
		use: func(x interface{}) { x.(*ring.UniformSampler).ReadNew() }})
	add(c10Case{name: "ring.GaussianSampler.AtLevel", docShared: true,
		mk: func() (interface{}, interface{}) {
			o := ring.NewGaussianSampler(c10Keyed(5), rQ, ring.DiscreteGaussian{Sigma: 3.2, Bound: 19}, false)
			return o, o.AtLevel(1).(*ring.GaussianSampler)
		},
		use: func(x interface{}) { x.(*ring.GaussianSampler).ReadNew() }})
	add(c10Case{name: "ring.TernarySampler.AtLevel", docShared: true,
		mk: func() (interface{}, interface{}) {
			o, _ := ring.NewTernarySampler(c10Keyed(6), rQ, ring.Ternary{P: 0.5}, false)
			return o, o.AtLevel(1).(*ring.TernarySampler)
		},
		use: func(x interface{}) { x.(*ring.TernarySampler).ReadNew() }})
	// ---- bgv / ckks ----
	add(c10Case{name: "bgv.Evaluator.ShallowCopy",
		mk:   func() (interface{}, interface{}) { o := bgv.NewEvaluator(bp, evk); return o, o.ShallowCopy() },
		same: func(o, x interface{}) string { return diff(bgvOps(o.(*bgv.Evaluator)), bgvOps(x.(*bgv.Evaluator))) },
		use:  func(x interface{}) { bgvOps(x.(*bgv.Evaluator)) }})
	add(c10Case{name: "bgv.Evaluator.ShallowCopy[ScaleInvariant]",
		mk: func() (interface{}, interface{}) { o := bgv.NewEvaluator(bp, evk, true); return o, o.ShallowCopy() },
		same: func(o, x interface{}) string {
			f := func(ev *bgv.Evaluator) string {
				o1 := bgv.NewCiphertext(bp, 1, A.Level())
				e1 := ev.MulRelin(A.CopyNew(), B.CopyNew(), o1)
				return fmt.Sprintf("%v|%v|%s", ev.ScaleInvariant, e1 != nil, bFp(o1))
			}
			return diff(f(o.(*bgv.Evaluator)), f(x.(*bgv.Evaluator)))
		},
		use: func(x interface{}) { bgvOps(x.(*bgv.Evaluator)) }})
	add(c10Case{name: "bgv.Evaluator.WithKey", docShared: true,
		mk:   func() (interface{}, interface{}) { o := bgv.NewEvaluator(bp, evk, true); return o, o.WithKey(evk2) },
		same: func(o, x interface{}) string { return diff(bgvOps(o.(*bgv.Evaluator)), bgvOps(x.(*bgv.Evaluator))) },
		use:  func(x interface{}) { bgvOps(x.(*bgv.Evaluator)) }})
	add(c10Case{name: "bgv.Encoder.ShallowCopy",
		mk: func() (interface{}, interface{}) { o := bgv.NewEncoder(bp); return o, o.ShallowCopy() },
		same: func(o, x interface{}) string {
			p1, p2 := bgv.NewPlaintext(bp, 2), bgv.NewPlaintext(bp, 2)
			v := []uint64{9, 8, 7, 6}
			_ = o.(*bgv.Encoder).Encode(v, p1)
			_ = x.(*bgv.Encoder).Encode(v, p2)
			return diff(deepHash(p1), deepHash(p2))
		},
		use: func(x interface{}) { _ = x.(*bgv.Encoder).Encode([]uint64{1, 2, 3}, bgv.NewPlaintext(bp, 1)) }})
	add(c10Case{name: "ckks.Evaluator.ShallowCopy",
		mk:   func() (interface{}, interface{}) { o := ckks.NewEvaluator(cp, cevk); return o, o.ShallowCopy() },
		same: func(o, x interface{}) string { return diff(ckksOps(o.(*ckks.Evaluator)), ckksOps(x.(*ckks.Evaluator))) },
		use:  func(x interface{}) { ckksOps(x.(*ckks.Evaluator)) }})
	add(c10Case{name: "ckks.Evaluator.WithKey", docShared: true,
		mk:   func() (interface{}, interface{}) { o := ckks.NewEvaluator(cp, cevk); return o, o.WithKey(cevk) },
		same: func(o, x interface{}) string { return diff(ckksOps(o.(*ckks.Evaluator)), ckksOps(x.(*ckks.Evaluator))) },
		use:  func(x interface{}) { ckksOps(x.(*ckks.Evaluator)) }})
	add(c10Case{name: "ckks.Encoder.ShallowCopy",
		mk: func() (interface{}, interface{}) { o := ckks.NewEncoder(cp); return o, o.ShallowCopy() },
		same: func(o, x interface{}) string {
			p1, p2 := ckks.NewPlaintext(cp, 2), ckks.NewPlaintext(cp, 2)
			v := []float64{0.5, 0.25, 1}
			_ = o.(*ckks.Encoder).Encode(v, p1)
			_ = x.(*ckks.Encoder).Encode(v, p2)
			return diff(deepHash(p1), deepHash(p2))
		},
		use: func(x interface{}) { _ = x.(*ckks.Encoder).Encode([]float64{1, 2, 3}, ckks.NewPlaintext(cp, 1)) }})
	// encoders with an arbitrary-precision scratch buffer (precision > 53 bits): the copy must carry the precision
	encPrec := func(label string, par ckks.Parameters, mkEnc func() *ckks.Encoder, prec uint) {
		add(c10Case{name: "ckks.Encoder.ShallowCopy[" + label + "]",
			mk: func() (interface{}, interface{}) { o := mkEnc(); return o, o.ShallowCopy() },
			same: func(o, x interface{}) string {
				n := par.MaxSlots()
				v1 := make([]complex128, n)
				v2 := make([]float64, n)
				v3 := make([]*bignum.Complex, n)
				for i := range v1 {
					v1[i] = complex(1/float64(3+i), -1/float64(7+i))
					v2[i] = 1 / float64(11+i)
					re := new(big.Float).SetPrec(prec).Quo(bignum.NewFloat(1, prec), bignum.NewFloat(float64(3+i), prec))
					im := new(big.Float).SetPrec(prec).Quo(bignum.NewFloat(-1, prec), bignum.NewFloat(float64(13+i), prec))
					v3[i] = &bignum.Complex{re, im}
				}
				run := func(e *ckks.Encoder) string {
					out := ""
					for _, v := range []interface{}{v1, v2, v3, v1} {
						pt := ckks.NewPlaintext(par, par.MaxLevel())
						err := e.Encode(v, pt)
						out += fmt.Sprintf("%v:%s|", err != nil, deepHash(pt))
						d1 := make([]complex128, n)
						d3 := make([]*bignum.Complex, n)
						for i := range d3 {
							d3[i] = &bignum.Complex{new(big.Float).SetPrec(prec), new(big.Float).SetPrec(prec)}
						}
						e1 := e.Decode(pt, d1)
						e3 := e.Decode(pt, d3)
						out += fmt.Sprintf("%v,%v:%s,%s|", e1 != nil, e3 != nil, deepHash(&d1), deepHash(&d3))
					}
					return out
				}
				a, b := run(o.(*ckks.Encoder)), run(x.(*ckks.Encoder))
				if a != b {
					return "plaintexts-or-decodings-differ"
				}
				return ""
			},
			use: func(x interface{}) {
				_ = x.(*ckks.Encoder).Encode([]complex128{1, 2, 3}, ckks.NewPlaintext(par, 1))
			}})
	}
	for _, prec := range []uint{64, 128, 256} {
		prec := prec
		encPrec(fmt.Sprintf("prec%d", prec), cp, func() *ckks.Encoder { return ckks.NewEncoder(cp, prec) }, prec)
	}
	if hp, err := ckks.NewParametersFromLiteral(ckks.ParametersLiteral{LogN: logN, LogQ: []int{60, 60}, LogP: []int{61}, LogDefaultScale: 60}); err == nil {
		encPrec("LogDefaultScale60", hp, func() *ckks.Encoder { return ckks.NewEncoder(hp) }, 128)
	}
	// ---- rgsw ----
	add(c10Case{name: "rgsw.Evaluator.ShallowCopy", mk: func() (interface{}, interface{}) { o := rgsw.NewEvaluator(bp, evk); return o, o.ShallowCopy() }})
	add(c10Case{name: "rgsw.Evaluator.WithKey", docShared: true, mk: func() (interface{}, interface{}) { o := rgsw.NewEvaluator(bp, evk); return o, o.WithKey(evk2) }})
	add(c10Case{name: "rgsw.Encryptor.ShallowCopy", mk: func() (interface{}, interface{}) { o := rgsw.NewEncryptor(bp, sk); return o, o.ShallowCopy() }})
	// ---- multiparty ----
	nf := ring.DiscreteGaussian{Sigma: 8, Bound: 48}
	add(c10Case{name: "multiparty.PublicKeyGenProtocol.ShallowCopy", mk: func() (interface{}, interface{}) {
		o := multiparty.NewPublicKeyGenProtocol(bp)
		x := o.ShallowCopy()
		return &o, &x
	}, use: func(x interface{}) {
		p := x.(*multiparty.PublicKeyGenProtocol)
		sh := p.AllocateShare()
		p.GenShare(sk, p.SampleCRP(c10Keyed(9)), &sh)
	}})
	add(c10Case{name: "multiparty.EvaluationKeyGenProtocol.ShallowCopy", mk: func() (interface{}, interface{}) {
		o := multiparty.NewEvaluationKeyGenProtocol(bp)
		x := o.ShallowCopy()
		return &o, &x
	}})
	add(c10Case{name: "multiparty.GaloisKeyGenProtocol.ShallowCopy", mk: func() (interface{}, interface{}) {
		o := multiparty.NewGaloisKeyGenProtocol(bp)
		x := o.ShallowCopy()
		return &o, &x
	}})
	add(c10Case{name: "multiparty.RelinearizationKeyGenProtocol.ShallowCopy", mk: func() (interface{}, interface{}) {
		o := multiparty.NewRelinearizationKeyGenProtocol(bp)
		x := o.ShallowCopy()
		return &o, &x
	}})
	add(c10Case{name: "multiparty.KeySwitchProtocol.ShallowCopy", mk: func() (interface{}, interface{}) {
		o, _ := multiparty.NewKeySwitchProtocol(bp, nf)
		x := o.ShallowCopy()
		return &o, &x
	}})
	add(c10Case{name: "multiparty.PublicKeySwitchProtocol.ShallowCopy", mk: func() (interface{}, interface{}) {
		o, _ := multiparty.NewPublicKeySwitchProtocol(bp, nf)
		x := o.ShallowCopy()
		return &o, &x
	}})
	add(c10Case{name: "mpbgv.EncToShareProtocol.ShallowCopy", mk: func() (interface{}, interface{}) {
		o, _ := mpbgv.NewEncToShareProtocol(bp, nf)
		x := o.ShallowCopy()
		return &o, &x
	}})
	add(c10Case{name: "mpbgv.ShareToEncProtocol.ShallowCopy", mk: func() (interface{}, interface{}) {
		o, _ := mpbgv.NewShareToEncProtocol(bp, nf)
		x := o.ShallowCopy()
		return &o, &x
	}})
	add(c10Case{name: "mpbgv.MaskedTransformProtocol.ShallowCopy", mk: func() (interface{}, interface{}) {
		o, _ := mpbgv.NewMaskedTransformProtocol(bp, bp, nf)
		x := o.ShallowCopy()
		return &o, &x
	}})
	add(c10Case{name: "mpckks.EncToShareProtocol.ShallowCopy", mk: func() (interface{}, interface{}) {
		o, _ := mpckks.NewEncToShareProtocol(cp, nf)
		x := o.ShallowCopy()
		return &o, &x
	}})
	add(c10Case{name: "mpckks.ShareToEncProtocol.ShallowCopy", mk: func() (interface{}, interface{}) {
		o, _ := mpckks.NewShareToEncProtocol(cp, nf)
		x := o.ShallowCopy()
		return &o, &x
	}})
	add(c10Case{name: "mpckks.MaskedLinearTransformationProtocol.ShallowCopy", mk: func() (interface{}, interface{}) {
		o, _ := mpckks.NewMaskedLinearTransformationProtocol(cp, cp, 64, nf)
		x := o.ShallowCopy()
		return &o, &x
	}, same: func(o, x interface{}) string {
		f := func(p *mpckks.MaskedLinearTransformationProtocol) string {
			err := c09Err(func() error { _ = p.WithParams(cp); return nil })
			return fmt.Sprintf("WithParams-panics=%v", err != nil)
		}
		a, b := f(o.(*mpckks.MaskedLinearTransformationProtocol)), f(x.(*mpckks.MaskedLinearTransformationProtocol))
		if a != b {
			return "orig:" + a + ",copy:" + b
		}
		return ""
	}})

	for _, cs := range cases {
		cs := cs
		res := Try(func() string {
			o, x := cs.mk()
			c10Register(cs.name)
			c.Emit("table "+cs.name, strings.Join(c10Classify(o, x), ","))
			c.Count("type:" + cs.name)
			if cs.same != nil {
				c.Probe("copy_behaves_same/"+cs.name, "-", "C10-behaves-"+cs.name, cs.same(o, x))
			}
			if strings.Contains(cs.name, ".ShallowCopy") && !cs.deep {
				// same configuration: everything reachable from an unused copy has the content of the unused
				// original, PRNG states excepted
				oc, xc := cs.mk()
				c10ConfigProbe(c, cs.name, oc, xc)
			}
			// independence
			o2, x2 := cs.mk()
			h := deepHash(o2)
			if cs.use != nil {
				cs.use(x2)
			}
			if cs.deep {
				c10Scribble(x2)
			}
			if cs.mutate != nil {
				cs.mutate(x2)
			}
			d := ""
			if deepHash(o2) != h {
				d = "original-changed"
			}
			if cs.docShared {
				if d != "" {
					c.Count("documented_shared_state:" + cs.name)
				}
				c.Probe("shares_state_only_where_documented/"+cs.name, "-", "C10-docshared-"+cs.name, "")
			} else if cs.use != nil || cs.deep {
				k := "C10-independent-" + cs.name
				if cs.name == "rlwe.Encryptor.WithKey" {
					k = "C10/Encryptor.WithKey/shares-state-undocumented"
				}
				c.Probe("copy_independent/"+cs.name, "-", k, d)
			}
			if cs.deep {
				o3, x3 := cs.mk()
				d = ""
				if deepHash(o3) != deepHash(x3) {
					d = "content-differs "
				}
				f1, f2 := c10Footprint(o3), c10Footprint(x3)
				n := 0
				for a := range f2 {
					if f1[a] {
						n++
					}
				}
				if n > 0 {
					d += fmt.Sprintf("%d-shared-addresses", n)
				}
				c.Probe("deep_copy_disjoint/"+cs.name, "-", "C10-disjoint-"+cs.name, d)
			}
			return "ok"
		})
		if res != "ok" {
			c.Probe("no_panic/"+cs.name, "-", "C10-panic-"+cs.name, "panic")
		}
	}

	c10CopyInto(c)

	// ---- constructors of the other layers (own files) ----
	c10Deep(c)
	c10Ring(c)
	c10Views(c)
	c10RLWE(c)
	c10Multiparty(c)
	c10Circuits(c)
	c10Complete(c)

	// ---- named candidates ----
	// (1) Encryptor.ShallowCopy after WithPRNG: is the installed source of c1 kept?
	{
		mk := func() *rlwe.Encryptor { return rlwe.NewEncryptor(bp, sk).WithPRNG(c10Keyed(7)) }
		c1a := mk().EncryptZeroNew(1).Value[1]
		c1b := mk().EncryptZeroNew(1).Value[1]
		c1c := mk().ShallowCopy().EncryptZeroNew(1).Value[1]
		d := ""
		if deepHash(&c1a) != deepHash(&c1b) {
			c.Count("WithPRNG_not_reproducible")
		} else if deepHash(&c1a) != deepHash(&c1c) {
			d = "copy-does-not-use-the-installed-PRNG"
		}
		c.Probe("copy_behaves_same/rlwe.Encryptor.ShallowCopy[afterWithPRNG]", "-", "C10/Encryptor.ShallowCopy/drops-WithPRNG", d)
	}
	// (2) shared automorphism-index cache: a Galois key that appears in the key set after the copies were made
	{
		ks := rlwe.NewMemEvaluationKeySet(rlk, gks...)
		o := rlwe.NewEvaluator(bp, ks)
		x := o.ShallowCopy()
		ks.GaloisKeys[lateGal] = lateKey
		h := deepHash(o)
		out := rlwe.NewCiphertext(bp, 1, A.Level())
		err := c09Err(func() error { return x.Automorphism(A.CopyNew(), lateGal, out) })
		d := ""
		if err != nil {
			d = "copy-failed "
		}
		if deepHash(o) != h {
			d += "original-changed(shared automorphismIndex written by the copy)"
		}
		c.Probe("copy_independent/rlwe.Evaluator.ShallowCopy[late-galois-key]", "-", "C10-independent-rlwe.Evaluator-cache", d)
		// and with an evaluator created before ANY Galois key existed (nil cache, value receiver)
		ks2 := rlwe.NewMemEvaluationKeySet(rlk)
		o2 := rlwe.NewEvaluator(bp, ks2)
		ks2.GaloisKeys = map[uint64]*rlwe.GaloisKey{lateGal: lateKey}
		out2 := rlwe.NewCiphertext(bp, 1, A.Level())
		err2 := c09Err(func() error { return o2.Automorphism(A.CopyNew(), lateGal, out2) })
		d = ""
		if isPanic(err2) {
			d = "panic(nil automorphismIndex: the map created in CheckAndGetGaloisKey is lost with its value receiver)"
		} else if err2 == nil && c10Fp(dec, out2) != c10Fp(dec, out) {
			d = "wrong-result"
		}
		c.Probe("cache_lazy_fill/rlwe.Evaluator.Automorphism[key-added-after-construction]", "-", "C10-cache-nil-map", d)
	}

	// ---- thorough: parallel use of shallow copies ----
	if c.Thorough() {
		for _, G := range []int{2, 4, 8, 16} {
			seq := bgvRaw(bgv.NewEvaluator(bp, evk))
			base := bgv.NewEvaluator(bp, evk)
			res := make([]string, G)
			var wg sync.WaitGroup
			for g := 0; g < G; g++ {
				g := g
				ev := base.ShallowCopy()
				wg.Add(1)
				go func() {
					defer wg.Done()
					for it := 0; it < 20; it++ {
						res[g] = bgvRaw(ev)
					}
				}()
			}
			wg.Wait()
			d := ""
			for g := range res {
				if res[g] != seq {
					d = fmt.Sprintf("goroutine-%d-differs", g)
				}
			}
			c.Probe("parallel_equals_sequential/bgv.Evaluator", fmt.Sprintf("G=%d", G), "C10-parallel-bgv.Evaluator", d)

			cseq := ckksRaw(ckks.NewEvaluator(cp, cevk))
			cbase := ckks.NewEvaluator(cp, cevk)
			cres := make([]string, G)
			for g := 0; g < G; g++ {
				g := g
				ev := cbase.ShallowCopy()
				wg.Add(1)
				go func() {
					defer wg.Done()
					for it := 0; it < 20; it++ {
						cres[g] = ckksRaw(ev)
					}
				}()
			}
			wg.Wait()
			d = ""
			for g := range cres {
				if cres[g] != cseq {
					d = fmt.Sprintf("goroutine-%d-differs", g)
				}
			}
			c.Probe("parallel_equals_sequential/ckks.Evaluator", fmt.Sprintf("G=%d", G), "C10-parallel-ckks.Evaluator", d)

			// decryptor + encoder copies
			dbase := rlwe.NewDecryptor(bp, sk)
			want := deepHash(&dbase.DecryptNew(A).Value)
			dres := make([]string, G)
			for g := 0; g < G; g++ {
				g := g
				dd := dbase.ShallowCopy()
				wg.Add(1)
				go func() {
					defer wg.Done()
					for it := 0; it < 50; it++ {
						dres[g] = deepHash(&dd.DecryptNew(A).Value)
					}
				}()
			}
			wg.Wait()
			d = ""
			for g := range dres {
				if dres[g] != want {
					d = fmt.Sprintf("goroutine-%d-differs", g)
				}
			}
			c.Probe("parallel_equals_sequential/rlwe.Decryptor", fmt.Sprintf("G=%d", G), "C10-parallel-rlwe.Decryptor", d)
		}
		// the lazily written shared cache under concurrency: a Go map written by several goroutines is a
		// fatal runtime error, so it runs in a child process
		exe, err := os.Executable()
		if err == nil {
			dir, _ := os.MkdirTemp("/var/tmp", "c10child")
			cmd := exec.Command(exe, "gen", "C10", "-tier", "c10child-cache", "-seed", "1", "-out", dir)
			out, err := cmd.CombinedOutput()
			_ = os.RemoveAll(dir)
			d := ""
			if err != nil {
				d = "child-crashed"
				if strings.Contains(string(out), "concurrent map") {
					d = "fatal-error-concurrent-map-access(automorphismIndex shared by ShallowCopy)"
				}
			}
			c.Probe("shared_cache_race/rlwe.Evaluator.ShallowCopy[late-galois-keys]", "G=8", "C10-race-rlwe.Evaluator-cache", d)
		} else {
			c.Count("child_process_unavailable")
		}
	}
}

// c10Child: 8 goroutines, each with its own shallow copy, rotate by Galois elements whose keys were
// added to the shared key set after the copies were made.
func c10Child(c *Ctx) {
	bp, _ := bgv.NewParametersFromLiteral(bgv.ParametersLiteral{LogN: 8, LogQ: []int{45}, LogP: []int{50}, PlaintextModulus: 65537})
	rp := bp.GetRLWEParameters()
	kgen := rlwe.NewKeyGenerator(bp)
	sk := kgen.GenSecretKeyNew()
	ks := rlwe.NewMemEvaluationKeySet(nil, kgen.GenGaloisKeysNew([]uint64{rp.GaloisElement(1)}, sk)...)
	base := rlwe.NewEvaluator(bp, ks)
	var copies []*rlwe.Evaluator
	for g := 0; g < 8; g++ {
		copies = append(copies, base.ShallowCopy())
	}
	var late []uint64
	for k := 2; k < 100; k++ {
		g := rp.GaloisElement(k)
		late = append(late, g)
		ks.GaloisKeys[g] = kgen.GenGaloisKeyNew(g, sk)
	}
	ct := rlwe.NewCiphertext(bp, 1, bp.MaxLevel())
	ct.IsNTT = true
	var wg sync.WaitGroup
	for g := 0; g < 8; g++ {
		ev := copies[g]
		wg.Add(1)
		go func() {
			defer wg.Done()
			for rep := 0; rep < 2; rep++ {
				for _, ge := range late {
					out := rlwe.NewCiphertext(bp, 1, bp.MaxLevel())
					_ = ev.Automorphism(ct, ge, out)
				}
				// forget: make every goroutine hit the miss path again is impossible (cache is shared);
				// the first round is the racy one
			}
		}()
	}
	wg.Wait()
	c.Emit("child done", "ok")
}
