package main

// C04 — ApplyEvaluationKey across ring degrees (Y = X^{N/n}).

import (
	"fmt"

	"github.com/tuneinsight/lattigo/v6/core/rlwe"
)

func c04EmbedInts(v []int64, gap int) []int64 {
	out := make([]int64, len(v)*gap)
	for i, x := range v {
		out[i*gap] = x
	}
	return out
}

func c04ProjectInts(v []int64, gap int) []int64 {
	out := make([]int64, len(v)/gap)
	for i := range out {
		out[i] = v[i*gap]
	}
	return out
}

func c04DegreeSwitch(c *Ctx) {
	rounds := c.Scale(4, 40)
	for r := 0; r < rounds; r++ {
		logNL := 5
		if c.Thorough() && c.rng.Intn(3) == 0 {
			logNL = 6
		}
		logNS := logNL - 1
		if logNL == 6 && c.rng.Intn(2) == 0 {
			logNS = 4
		}
		gap := 1 << (logNL - logNS)
		nQ := 1 + c.rng.Intn(3)
		nP := c.rng.Intn(3)
		var psL, psS *c04PS
		for try := 0; try < 20 && psL == nil; try++ {
			bq := make([]int, nQ)
			for i := range bq {
				bq[i] = 25 + c.rng.Intn(31)
			}
			bp := make([]int, nP)
			for i := range bp {
				bp[i] = 25 + c.rng.Intn(31)
			}
			Q, P, ok := c04Primes(logNL, bq, bp)
			if !ok {
				continue
			}
			ntt := c.rng.Intn(2) == 0
			l, err1 := c04NewPS(logNL, Q, P, ntt)
			s, err2 := c04NewPS(logNS, Q, P, ntt)
			if err1 == nil && err2 == nil {
				psL, psS = l, s
			}
		}
		if psL == nil {
			continue
		}
		cfg := c04KeyCfg{lq: nQ - 1, lp: nP - 1}
		if c.rng.Intn(3) == 0 {
			cfg.lq = c.rng.Intn(nQ)
		}
		if nP > 0 && c.rng.Intn(3) == 0 {
			cfg.lp = c.rng.Intn(nP)
		}
		if nP < 2 || cfg.lp < 1 {
			if c.rng.Intn(2) == 0 {
				cfg.w = 8 + c.rng.Intn(23)
			}
		}
		c.Count(fmt.Sprintf("degree:N%d->%d:Q%d:P%d:lq%d:lp%d:w%d", psL.N(), psS.N(), nQ, nP, cfg.lq, cfg.lp, cfg.w))

		skL := rlwe.NewKeyGenerator(psL.params).GenSecretKeyNew()
		skS := rlwe.NewKeyGenerator(psS.params).GenSecretKeyNew()
		sL := psL.secretInts(skL)
		sS := c04EmbedInts(psS.secretInts(skS), gap)

		kgen, tw := c04NewKgenWithTwin(psL)
		evkDown := kgen.GenEvaluationKeyNew(skL, skS, cfg.evkParams())
		c04EmitEvk(c, psL, tw, "gen", cfg, 0, sL, sS, evkDown)
		evkUp := kgen.GenEvaluationKeyNew(skS, skL, cfg.evkParams())
		c04EmitEvk(c, psL, tw, "gen", cfg, 0, sS, sL, evkUp)

		eval := rlwe.NewEvaluator(psL.params, nil)
		lvl := cfg.lq
		if c.rng.Intn(3) == 0 {
			lvl = c.rng.Intn(cfg.lq + 1)
		}
		isNTT := c.rng.Intn(2) == 0
		bound := psL.ksNoiseBound(lvl, cfg.lp, cfg.w, c04EvkShape(evkUp))
		class := c04Classify(psL, cfg, lvl, c04EvkShape(evkUp))
		pargs := fmt.Sprintf("%s %d %d %d gap=%d lvl=%d ntt=%s", psL.hdr(), cfg.lq, cfg.lp, cfg.w, gap, lvl, c04B2s(isNTT))

		// small -> large
		{
			m := c04SmallVec(c, psS.N(), 1<<17)
			e := c04SmallVec(c, psS.N(), 3)
			ct := psS.mkCt(skS, m, e, [][][]uint64{psS.randRows(c, lvl)}, isNTT)
			in := psS.ctPolys(ct)
			out := rlwe.NewCiphertext(psL.params, 1, lvl)
			res := Try(func() string {
				if err := eval.ApplyEvaluationKey(ct, evkUp, out); err != nil {
					return "err"
				}
				return c04Polys(psL.ctPolys(out))
			})
			c04EmitKs(c, psL, cfg, "applyup", psL.ksLine("applyup", cfg, isNTT, uint64(gap), 0, evkUp, in), res)
			c.Count("ks:applyup")
			if res != "err" && res != "panic" {
				c04ProbeNoise(c, psL, "degree_up_decrypts", pargs, out, skL, c04EmbedInts(m, gap), bound, class)
			}
		}
		// large -> small
		{
			m := c04SmallVec(c, psL.N(), 1<<17)
			e := c04SmallVec(c, psL.N(), 3)
			ct := psL.mkCt(skL, m, e, [][][]uint64{psL.randRows(c, lvl)}, isNTT)
			in := psL.ctPolys(ct)
			out := rlwe.NewCiphertext(psS.params, 1, lvl)
			res := Try(func() string {
				if err := eval.ApplyEvaluationKey(ct, evkDown, out); err != nil {
					return "err"
				}
				return c04Polys(psS.ctPolys(out))
			})
			c04EmitKs(c, psL, cfg, "applydown", psL.ksLine("applydown", cfg, isNTT, uint64(gap), 0, evkDown, in), res)
			c.Count("ks:applydown")
			if res != "err" && res != "panic" {
				c04ProbeNoise(c, psS, "degree_down_decrypts", pargs, out, skS, c04ProjectInts(m, gap), bound, class)
			}
		}
	}
}
