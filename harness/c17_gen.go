package main

import (
	"fmt"
	"math"
	"math/big"
	"reflect"
	"strings"

	"github.com/tuneinsight/lattigo/v6/ring"
	"github.com/tuneinsight/lattigo/v6/ring/ringqp"
	"github.com/tuneinsight/lattigo/v6/utils/bignum"
)

// ---- tables: the model's copy of kn, wn, fn, rn must equal today's source text ----

func c17Tables(c *Ctx) {
	z := &c17zig
	kn := make([]uint64, 128)
	wn := make([]uint64, 128)
	fn := make([]uint64, 128)
	for i := 0; i < 128; i++ {
		kn[i] = uint64(z.kn[i])
		wn[i] = uint64(math.Float32bits(z.wn[i]))
		fn[i] = uint64(math.Float32bits(z.fn[i]))
	}
	c.Emit("tables kn", Vec(kn))
	c.Emit("tables wn", Vec(wn))
	c.Emit("tables fn", Vec(fn))
	// rn and the constant expression 1.0/rn (exact rational, rounded once)
	rnRat, _ := new(big.Rat).SetString("3.442619855899")
	inv, _ := new(big.Rat).Inv(rnRat).Float64()
	rn, _ := rnRat.Float64()
	if rn != z.rn {
		panic("rn literal changed in source: update c17Tables")
	}
	c.Emit("tables rn", Vec([]uint64{math.Float64bits(rn), math.Float64bits(inv)}))
	c.Count("tables")
}

// ---- soft float vs hardware float64 ----

func c17RandF(c *Ctx, loExp, hiExp int) float64 {
	m := (c.rng.U64() & (1<<52 - 1)) | 1<<52
	if c.rng.Intn(8) == 0 { // few significant bits
		m &^= (1 << uint(c.rng.Intn(52))) - 1
	}
	e := loExp + c.rng.Intn(hiExp-loExp+1)
	return math.Ldexp(float64(m), e-52)
}

func c17FloatTies(c *Ctx) {
	n := c.Scale(300, 6000)
	for i := 0; i < n; i++ {
		a, b := c17RandF(c, -60, 70), c17RandF(c, -60, 70)
		c.Emit("fmul "+c17F64(a)+" "+c17F64(b), c17F64(a*b))
		c.Emit("fadd "+c17F64(a)+" "+c17F64(b), c17F64(a+b))
		hi, lo := a, b
		if lo > hi {
			hi, lo = lo, hi
		}
		c.Emit("fsub "+c17F64(hi)+" "+c17F64(lo), c17F64(hi-lo))
		c.Count("float:random")
	}
	// rounding ties and near-ties of v + 0.5, 1 - P, j * wn
	for i := 0; i < c.Scale(200, 4000); i++ {
		e := 50 + c.rng.Intn(6)
		v := math.Ldexp(float64((c.rng.U64()&(1<<52-1))|1<<52), e-52)
		c.Emit("fadd "+c17F64(v)+" "+c17F64(0.5), c17F64(v+0.5))
		c.Emit("ftrunc "+c17F64(v+0.5), U(uint64(v+0.5)))
		P := c17RandF(c, -58, -1)
		c.Emit("fsub "+c17F64(1.0)+" "+c17F64(P), c17F64(1.0-P))
		j := c.rng.U64() & 0x7fffffff
		w := c17zig.wn[j&0x7f]
		c.Emit("fofnat "+U(j), c17F64(float64(j)))
		c.Emit("fof32 "+U(uint64(math.Float32bits(w))), c17F64(float64(w)))
		c.Emit("fmul "+c17F64(float64(j))+" "+c17F64(float64(w)), c17F64(float64(j)*float64(w)))
		big_ := c.rng.U64()
		c.Emit("fofnat "+U(big_), c17F64(float64(big_)))
		c.Count("float:boundary")
	}
	for _, v := range []float64{0, 0.5, 1, 1.5, 2.5, 3.5, 0.49999999999999994, 4503599627370495.5, 4503599627370496.5, 9007199254740991, 9007199254740992, 18446744073709549568} {
		c.Emit("ftrunc "+c17F64(v), U(uint64(v)))
		c.Emit("fadd "+c17F64(v)+" "+c17F64(0.5), c17F64(v+0.5))
	}
}

// ---- computeMatrixTernary ----

var c17Ps = []float64{2.0 / 3.0, 1.0 / 3.0, 0.25, 0.75, 0.5, 0.9, 0.1, 0.001, 0.999, 1.0 / 1024, 0.6, 0.3}

func c17MatrixOf(P float64) (invBits uint64, rows [2][]uint64) {
	r := c17Ring(16, []uint64{257})
	ts, err := ring.NewTernarySampler(&c17Replay{}, r, ring.Ternary{P: P}, false)
	if err != nil {
		panic(err)
	}
	v := reflect.ValueOf(ts).Elem()
	invBits = math.Float64bits(v.FieldByName("invDensity").Float())
	mp := v.FieldByName("matrixProba")
	for a := 0; a < 2; a++ {
		row := mp.Index(a)
		rows[a] = make([]uint64, row.Len())
		for j := 0; j < row.Len(); j++ {
			rows[a][j] = row.Index(j).Uint()
		}
	}
	return
}

// constructor decision table (accept / reject) of NewTernarySampler
func c17CtorTies(c *Ctx) {
	r := c17Ring(16, []uint64{257})
	ps := []float64{0, math.Copysign(0, -1), 0.5, 1, 1.0000000000000002, 1.5, -0.5, -1e-300, 1e-300, 2.0 / 3.0, math.Inf(1), math.Inf(-1)}
	hs := []int{0, 1, 5, 16, 17, 1000, -1, -9, math.MinInt64, math.MaxInt64}
	for _, P := range ps {
		for _, H := range hs {
			_, err := ring.NewTernarySampler(&c17Replay{}, r, ring.Ternary{P: P, H: H}, false)
			out := "ok"
			if err != nil {
				out = "err"
			}
			c.Emit("ctor "+c17F64(P)+" "+fmt.Sprint(H), out)
			c.Count("ctor:" + out)
		}
	}
}

func c17MatrixTies(c *Ctx) {
	ps := append([]float64{}, c17Ps...)
	ps = append(ps, math.Ldexp(1, -56), math.Ldexp(1, -53), 1-math.Ldexp(1, -53), 1.0)
	for i := 0; i < c.Scale(40, 1500); i++ {
		ps = append(ps, c17RandF(c, -40, -1))
		ps = append(ps, 1-c17RandF(c, -40, -1))
	}
	for _, P := range ps {
		if !(P > 0 && P <= 1) {
			continue
		}
		inv, rows := c17MatrixOf(P)
		c.Emit("matrix "+c17F64(P), U(inv)+" "+Vec(rows[0])+";"+Vec(rows[1]))
		c.Count("matrix")
	}
}

// ---- RandUniform, RandInt, Mask ----

func c17RandTies(c *Ctx) {
	for i := 0; i < c.Scale(150, 3000); i++ {
		q := c17Primes[c.rng.Intn(len(c17Primes))]
		var v uint64
		switch c.rng.Intn(3) {
		case 0:
			v = q
		case 1:
			v = 1 + c.rng.Below(1<<uint(1+c.rng.Intn(62)))
		default:
			v = uint64(1) << uint(c.rng.Intn(64))
		}
		mask := uint64(1)<<uint(bitsLen64(v-1)) - 1
		st := &c17Stream{}
		switch c.rng.Intn(4) {
		case 0:
			st.Rep(0xff, 8*c.rng.Intn(4)).SM(c.rng.U64(), 256)
		case 1:
			st.Rep(0xff, 64) // exhausts unless v-1 = mask
		default:
			st.SM(c.rng.U64(), 512)
		}
		prng := &c17Replay{data: st.data}
		out := Try(func() string { return U(ring.RandUniform(prng, v, mask)) + "@" + I(prng.pos) })
		if out == "panic" && prng.exhausted {
			out = "exhausted"
		}
		c.Emit("randu "+U(v)+" "+U(mask)+" stream="+st.Desc(), out)
		c.Count("randu:" + strings.SplitN(out, "@", 2)[0][:1])
	}
	for _, q := range c17Primes {
		r := c17Ring(16, []uint64{q})
		c.Emit("mask "+U(q), U(r.SubRings[0].Mask))
	}
	for i := 0; i < c.Scale(150, 3000); i++ {
		var max *big.Int
		switch c.rng.Intn(4) {
		case 0:
			max = big.NewInt(int64(1 + c.rng.Intn(300)))
		case 1:
			max = new(big.Int).Lsh(big.NewInt(1), uint(c.rng.Intn(130)))
		default:
			max = new(big.Int).SetBytes(c.rng.Bytes(1 + c.rng.Intn(20)))
			if max.Sign() == 0 {
				max.SetInt64(1)
			}
		}
		st := &c17Stream{}
		if c.rng.Intn(5) == 0 {
			st.Rep(0xff, 40)
		}
		st.SM(c.rng.U64(), 400)
		prng := &c17Replay{data: st.data}
		out := Try(func() string { return bignum.RandInt(prng, max).String() + "@" + I(prng.pos) })
		if out == "panic" && prng.exhausted {
			out = "exhausted"
		}
		c.Emit("randint "+max.String()+" stream="+st.Desc(), out)
		c.Count("randint")
	}
}

func bitsLen64(x uint64) int {
	n := 0
	for x != 0 {
		n++
		x >>= 1
	}
	return n
}

// ---- uniform sampler: every interleaving of Read/ReadNew/ReadAndAdd on level views ----

func c17EnumCalls(levels int, ops []byte, maxLen int, regs int, f func([]c17Call)) {
	var alpha []c17Call
	for l := 0; l < levels; l++ {
		for _, o := range ops {
			alpha = append(alpha, c17Call{s: 0, level: l, op: o})
		}
	}
	var rec func(prefix []c17Call)
	rec = func(prefix []c17Call) {
		if len(prefix) > 0 {
			cp := make([]c17Call, len(prefix))
			for i, cl := range prefix {
				cl.reg = i % regs
				if cl.op == 'n' {
					cl.reg = regs // ReadNew results go to a register of their own (they may have fewer rows)
				}
				cp[i] = cl
			}
			f(cp)
		}
		if len(prefix) == maxLen {
			return
		}
		for _, a := range alpha {
			rec(append(prefix, a))
		}
	}
	rec(nil)
}

func c17UniformInterleavings(c *Ctx) {
	// two levels, N = 32: a full level-1 call takes 64 words = 512 bytes when nothing is rejected,
	// so the buffer pointer hits 1024 exactly at call boundaries on the all-accept stream.
	N := 32
	chains := [][]uint64{{65537, 7937}, {7937, 1073741953}}
	k := 0
	c17EnumCalls(2, []byte{'r', 'n', 'a'}, c.Scale(4, 6), 2, func(calls []c17Call) {
		chain := chains[k%2]
		st := &c17Stream{}
		switch k % 4 {
		case 0:
			st.SM(c.rng.U64(), 1024*(2+len(calls)))
		case 1:
			st.Rep(0, 1024*(1+len(calls)/2)) // all accepted, exact alignment
		case 2:
			st.Rep(0, 512).SM(c.rng.U64(), 1024*(2+len(calls)))
		default:
			st.SM(c.rng.U64(), 1024*(1+c.rng.Intn(2+len(calls)))) // may run dry
		}
		k++
		c17Sess(c, N, chain, []c17Kind{{tag: "u"}}, st, c17Regs(c, 3, N, chain, k%3), calls)
		c.Count(fmt.Sprintf("uniform:interleaving:len%d", len(calls)))
	})
}

func c17UniformAdversarial(c *Ctx) {
	for i := 0; i < c.Scale(120, 2500); i++ {
		N := c17PickN(c)
		chain := c17PickChain(c, 1+c.rng.Intn(3))
		st := &c17Stream{}
		switch i % 6 {
		case 0: // all 0xFF: every word rejected -> runs dry
			st.Rep(0xff, 2048)
			c.Count("uniform:adv:allFF")
		case 1: // all zero
			st.Rep(0, 8*N*len(chain)*2+1024)
			c.Count("uniform:adv:allZero")
		case 2: // rejection heavy: 0xFF blocks between random blocks
			for k := 0; k < 6; k++ {
				st.Rep(0xff, 8*c.rng.Intn(100)).SM(c.rng.U64(), 8*c.rng.Intn(200))
			}
			st.SM(c.rng.U64(), 4096)
			c.Count("uniform:adv:rejectionHeavy")
		case 3: // stream shorter than one buffer
			st.SM(c.rng.U64(), c.rng.Intn(1024))
			c.Count("uniform:adv:short")
		case 4: // words equal to q-1, q, q+1, mask (big endian) for modulus 0
			q := chain[0]
			var b []byte
			for k := 0; k < 128; k++ {
				w := []uint64{q - 1, q, q + 1, 0, 1, (uint64(1)<<uint(bitsLen64(q-1)) - 1), ^uint64(0) &^ (uint64(1)<<uint(bitsLen64(q-1)) - 1)}[c.rng.Intn(7)]
				var t [8]byte
				for z := 0; z < 8; z++ {
					t[z] = byte(w >> uint(56-8*z))
				}
				b = append(b, t[:]...)
			}
			st.Hex(b).SM(c.rng.U64(), 8192)
			c.Count("uniform:adv:boundaryWords")
		default:
			st.SM(c.rng.U64(), 16384)
			c.Count("uniform:adv:random")
		}
		nc := 1 + c.rng.Intn(5)
		calls := make([]c17Call, nc)
		for k := range calls {
			calls[k] = c17Call{s: 0, level: c.rng.Intn(len(chain)), op: "rna"[c.rng.Intn(3)], reg: c.rng.Intn(2)}
		}
		if i%17 == 0 { // malformed: AtLevel above the maximum level
			calls[len(calls)-1].level = len(chain)
			c.Count("uniform:adv:levelTooHigh")
		}
		c17Sess(c, N, chain, []c17Kind{{tag: "u"}}, st, c17Regs(c, 2, N, chain, i%3), calls)
	}
	// malformed: Read into a polynomial with fewer rows than the view's level (after ReadNew at level 0)
	chain := []uint64{257, 65537, 1048193}
	st := (&c17Stream{}).SM(7, 8192)
	c17Sess(c, 16, chain, []c17Kind{{tag: "u"}}, st, c17Regs(c, 1, 16, chain, 0), []c17Call{{0, 0, 'n', 0}, {0, 2, 'r', 0}})
	c.Count("uniform:adv:shortPoly")
}

// ---- ternary ----

func c17TernarySessions(c *Ctx) {
	// exhaustive interleavings (the ternary sampler shares only the PRNG between views)
	for _, kd := range []c17Kind{{tag: "tp", P: 2.0 / 3.0}, {tag: "tp", P: 0.5, mont: true}, {tag: "th", H: 5}} {
		kd := kd
		k := 0
		c17EnumCalls(2, []byte{'r', 'n', 'a'}, c.Scale(2, 4), 2, func(calls []c17Call) {
			chain := []uint64{65537, 7937}
			st := (&c17Stream{}).SM(c.rng.U64(), 256*(1+len(calls)))
			k++
			c17Sess(c, 16, chain, []c17Kind{kd}, st, c17Regs(c, 3, 16, chain, k%3), calls)
			c.Count("ternary:interleaving:" + kd.tag)
		})
	}
	for i := 0; i < c.Scale(400, 8000); i++ {
		N := c17PickN(c)
		chain := c17PickChain(c, 1+c.rng.Intn(3))
		var kd c17Kind
		st := &c17Stream{}
		switch i % 4 {
		case 0, 1: // density
			kd = c17Kind{tag: "tp", mont: c.rng.Intn(2) == 0}
			switch c.rng.Intn(4) {
			case 0:
				kd.P = c17Ps[c.rng.Intn(len(c17Ps))]
			case 1:
				kd.P = 0.5
			case 2:
				kd.P = c17RandF(c, -12, -1)
			default:
				kd.P = 1 - c17RandF(c, -12, -1)
			}
			c.Count("ternary:P")
		default:
			kd = c17Kind{tag: "th", mont: c.rng.Intn(2) == 0}
			switch c.rng.Intn(6) {
			case 0:
				kd.H = 1
			case 1:
				kd.H = N
			case 2:
				kd.H = N + 1 + c.rng.Intn(10) // clipped to N
			case 3:
				kd.H = N - 1
			default:
				kd.H = 1 + c.rng.Intn(N)
			}
			c.Count("ternary:H")
		}
		switch c.rng.Intn(8) {
		case 0:
			st.Rep(0, 4096) // KY walk: all bits zero -> column index runs out of range (panic)
			c.Count("ternary:stream:allZero")
		case 1:
			st.Rep(0xff, 4096)
			c.Count("ternary:stream:allFF")
		case 2:
			st.SM(c.rng.U64(), c.rng.Intn(3*N)) // may run dry
			c.Count("ternary:stream:short")
		case 3:
			st.SM(c.rng.U64(), N).Rep(0xff, 2*N).SM(c.rng.U64(), 4096)
			c.Count("ternary:stream:mixed")
		default:
			st.SM(c.rng.U64(), 8192)
			c.Count("ternary:stream:random")
		}
		nc := 1 + c.rng.Intn(4)
		calls := make([]c17Call, nc)
		for k := range calls {
			calls[k] = c17Call{s: 0, level: c.rng.Intn(len(chain)), op: "rna"[c.rng.Intn(3)], reg: c.rng.Intn(2)}
		}
		c17Sess(c, N, chain, []c17Kind{kd}, st, c17Regs(c, 2, N, chain, i%3), calls)
	}
	// P = 1: invDensity = 0 -> explicit panic; tiny P: invDensity rounds to 1, matrix all zero
	for _, P := range []float64{1.0, math.Ldexp(1, -60), 1 - math.Ldexp(1, -53)} {
		chain := []uint64{257, 65537}
		for _, st := range []*c17Stream{(&c17Stream{}).SM(3, 2048), (&c17Stream{}).Rep(0xff, 2048), (&c17Stream{}).Rep(0, 2048)} {
			c17Sess(c, 16, chain, []c17Kind{{tag: "tp", P: P}}, st, c17Regs(c, 1, 16, chain, 0), []c17Call{{0, 1, 'r', 0}, {0, 0, 'n', 0}})
			c.Count("ternary:P:degenerate")
		}
	}
}

// ---- fixed weight, large rings: the sign bits of coefficients 256, 257, … (sign byte 32 and up) ----

func c17SparseBig(c *Ctx) {
	type cfg struct {
		N, H  int
		op    byte
		mont  bool
		style int
	}
	var cfgs []cfg
	if c.Thorough() {
		for _, N := range []int{512, 1024} {
			for _, H := range []int{255, 256, 257, 300, 511, 512, N - 1, N} {
				for _, op := range []byte{'r', 'n', 'a'} {
					for _, mont := range []bool{false, true} {
						for style := 0; style < 4; style++ {
							cfgs = append(cfgs, cfg{N, H, op, mont, style})
						}
					}
				}
			}
		}
	} else {
		hs := []int{255, 256, 257, 300, 511, 512, 1023, 1024}
		for k := 0; k < 16; k++ {
			N := 512 + 512*(k%2)
			H := hs[(k+c.rng.Intn(len(hs)))%len(hs)]
			if H > N && k%4 != 3 {
				H = N - k%2
			}
			cfgs = append(cfgs, cfg{N, H, "rna"[k%3], k%4 >= 2, k % 4})
		}
		// always: the first weight above 256 and the full weight, crafted signs
		cfgs = append(cfgs, cfg{512, 257, 'r', false, 0}, cfg{1024, 1024, 'a', true, 1}, cfg{512, 512, 'n', false, 2})
	}
	for _, g := range cfgs {
		chain := []uint64{12289, 65537}
		if g.N == 1024 && g.style%2 == 1 {
			chain = []uint64{65537}
		}
		hw := g.H
		if hw > g.N {
			hw = g.N
		}
		nb := (hw + 7) / 8
		signs := make([]byte, nb)
		switch g.style {
		case 0: // 0xFF for the first 32 bytes (coefficients 0..255), then 0x00
			for k := range signs {
				if k < 32 {
					signs[k] = 0xff
				}
			}
		case 1: // the reverse, with alternating bits above
			for k := range signs {
				if k >= 32 {
					signs[k] = 0xaa
				}
			}
		case 2: // every byte different from the byte 32 places before it
			for k := range signs {
				signs[k] = byte(37*k + 11*(k/32))
			}
		default:
			copy(signs, c.rng.Bytes(nb+8))
		}
		st := (&c17Stream{}).Hex(signs).SM(c.rng.U64(), 4*hw*3+64)
		lvl := len(chain) - 1
		if g.op != 'n' && c.rng.Intn(3) == 0 {
			lvl = 0
		}
		c17Sess(c, g.N, chain, []c17Kind{{tag: "th", H: g.H, mont: g.mont}}, st, c17Regs(c, 1, g.N, chain, g.style%2), []c17Call{{0, lvl, g.op, 0}})
		c.Count(fmt.Sprintf("ternary:H>255:N=%d", g.N))
	}
}

// ---- gaussian ----

var c17SigmaBound = [][2]float64{
	{3.2, 19.2}, {3.2, 19}, {3.19, 19.14}, {0.5, 3}, {1, 6}, {8, 48}, {100.5, 603}, {3.2, 0.4}, {3.2, 1}, {3.2, 2.5},
	{3.2, 3.5}, {1048576, 6291456}, {1099511627776.5, 6597069766659}, {4503599627370496, 27021597764222976},
	{100, 1}, {3.2, 1e6},
}

var c17SigmaBoundBig = [][2]float64{
	{18014398509481984, 27670116110564327424},                 // 2^54, 1.5*2^64
	{1.5 * 1152921504606846976, 1208925819614629174706176},    // 1.5*2^60, 2^80
	{1180591620717411303424, 1267650600228229401496703205376}, // 2^70, 2^100
	{18446744073709551616, 18446744073709555712},              // 2^64, 2^64+4096: rejection, negative values unbounded
	{9007199254740994, 36893488147419103232},                  // 2^53+2, 2^65
}

func c17GaussStream(c *Ctx, n int, fast bool) *c17Stream {
	st := &c17Stream{}
	if fast {
		return st.Hex(c17FastBytes(c.rng, n))
	}
	return st.SM(c.rng.U64(), n)
}

func c17GaussSessions(c *Ctx) {
	// exhaustive interleavings on two level views sharing buffer and pointer (fast-path streams)
	k := 0
	c17EnumCalls(2, []byte{'r', 'n', 'a'}, c.Scale(2, 4), 2, func(calls []c17Call) {
		chain := []uint64{65537, 1073741953}
		sb := c17SigmaBound[k%3]
		k++
		st := c17GaussStream(c, 1024*len(calls)+1024, true)
		c17Sess(c, 16, chain, []c17Kind{{tag: "g", sigma: sb[0], bound: sb[1], mont: k%5 == 0}}, st, c17Regs(c, 3, 16, chain, k%3), calls)
		c.Count("gauss:interleaving")
	})
	for i := 0; i < c.Scale(500, 10000); i++ {
		N := c17PickN(c)
		chain := c17PickChain(c, 1+c.rng.Intn(3))
		var sb [2]float64
		big_ := i%5 == 4
		if big_ {
			sb = c17SigmaBoundBig[c.rng.Intn(len(c17SigmaBoundBig))]
			c.Count("gauss:bigpath")
		} else {
			sb = c17SigmaBound[c.rng.Intn(len(c17SigmaBound))]
			if c.rng.Intn(4) == 0 {
				sb[0] = c17RandF(c, -1, 40)
				sb[1] = sb[0] * (0.5 + 8*float64(c.rng.Intn(100))/100)
			}
			c.Count("gauss:smallpath")
		}
		kd := c17Kind{tag: "g", sigma: sb[0], bound: sb[1], mont: c.rng.Intn(3) == 0}
		nc := 1 + c.rng.Intn(3)
		need := 1024 * (nc + 1)
		if sb[1] < sb[0] { // heavy rejection at the bound: many refills
			need += int(float64(8*N*nc) * 3 * sb[0] / sb[1])
			if need > 1<<17 {
				need = 1 << 17
			}
		}
		fast := c.rng.Intn(3) != 0 && !big_
		st := c17GaussStream(c, need, fast)
		if c.rng.Intn(12) == 0 {
			st = c17GaussStream(c, 1024+c.rng.Intn(1024), fast) // may run dry
		}
		calls := make([]c17Call, nc)
		for k := range calls {
			calls[k] = c17Call{s: 0, level: c.rng.Intn(len(chain)), op: "rna"[c.rng.Intn(3)], reg: c.rng.Intn(2)}
		}
		c17Sess(c, N, chain, []c17Kind{kd}, st, c17Regs(c, 2, N, chain, i%2), calls)
	}
	// adversarial bytes
	chain := []uint64{257, 1049089}
	for _, sb := range [][2]float64{{3.2, 19.2}, {3.2, 0.4}, {1e6, 6e6}, c17SigmaBoundBig[0]} {
		for _, st := range []*c17Stream{(&c17Stream{}).Rep(0, 4096), (&c17Stream{}).Rep(0xff, 4096), (&c17Stream{}).Rep(0x80, 4096), (&c17Stream{}).Rep(0, 1000)} {
			c17Sess(c, 16, chain, []c17Kind{{tag: "g", sigma: sb[0], bound: sb[1]}}, st, c17Regs(c, 1, 16, chain, 0), []c17Call{{0, 1, 'r', 0}, {0, 0, 'a', 0}})
			c.Count("gauss:adversarial")
		}
	}
}

// ---- several samplers over one PRNG (as in rlwe.KeyGenerator / Encryptor) ----

func c17MixedSessions(c *Ctx) {
	for i := 0; i < c.Scale(200, 4000); i++ {
		N := c17PickN(c)
		chain := c17PickChain(c, 2+c.rng.Intn(2))
		kinds := []c17Kind{
			{tag: "u"},
			{tag: "tp", P: c17Ps[c.rng.Intn(len(c17Ps))], mont: c.rng.Intn(2) == 0},
			{tag: "th", H: 1 + c.rng.Intn(N), mont: c.rng.Intn(2) == 0},
			{tag: "g", sigma: 3.2, bound: 19.2, mont: c.rng.Intn(4) == 0},
			{tag: "u"},
		}
		nc := 2 + c.rng.Intn(c.Scale(5, 11))
		calls := make([]c17Call, nc)
		for k := range calls {
			calls[k] = c17Call{s: c.rng.Intn(len(kinds)), level: c.rng.Intn(len(chain)), op: "rna"[c.rng.Intn(3)], reg: c.rng.Intn(3)}
		}
		// Gaussian draws read 8-aligned words of 1024-byte buffers whose position in the stream
		// depends on the other samplers: use unconstrained bytes, accept `inconclusive` lines.
		st := (&c17Stream{}).SM(c.rng.U64(), 1024*nc*4+4096)
		c17Sess(c, N, chain, kinds, st, c17Regs(c, 3, N, chain, i%3), calls)
		c.Count("mixed")
	}
}

// ---- ringqp.UniformSampler ----

func c17QP(c *Ctx) {
	for i := 0; i < c.Scale(150, 3000); i++ {
		N := c17PickN(c)
		all := c17PickChain(c, 2+c.rng.Intn(3))
		nQ := 1 + c.rng.Intn(len(all)-1)
		cQ, cP := all[:nQ], all[nQ:]
		rqp := ringqp.Ring{RingQ: c17Ring(N, cQ), RingP: c17Ring(N, cP)}
		st := &c17Stream{}
		switch i % 4 {
		case 0:
			st.Rep(0, 8192)
		case 1:
			st.SM(c.rng.U64(), 1024+c.rng.Intn(4096))
		default:
			st.SM(c.rng.U64(), 32768)
		}
		prng := &c17Replay{data: st.data}
		s := ringqp.NewUniformSampler(prng, rqp)
		fill := c.rng.Below(200)
		nc := 1 + c.rng.Intn(5)
		var cs, parts []string
		for k := 0; k < nc; k++ {
			lq, lp := c.rng.Intn(len(cQ)+1)-1, c.rng.Intn(len(cP)+1)-1
			if lq < 0 && lp < 0 {
				lq = 0
			}
			isNew := c.rng.Intn(2) == 0
			ls := func(l int) string {
				if l < 0 {
					return "-"
				}
				return I(l)
			}
			op := "r"
			if isNew {
				op = "n"
			}
			cs = append(cs, ls(lq)+"."+ls(lp)+"."+op)
			res := Try(func() string {
				v := s.AtLevel(lq, lp)
				var p ringqp.Poly
				if isNew {
					p = v.ReadNew()
				} else {
					p = rqp.NewPoly()
					for _, row := range p.Q.Coeffs {
						for j := range row {
							row[j] = fill
						}
					}
					for _, row := range p.P.Coeffs {
						for j := range row {
							row[j] = fill
						}
					}
					v.Read(p)
				}
				return Mat(p.Q.Coeffs) + "/" + Mat(p.P.Coeffs) + "@" + I(prng.pos)
			})
			if res == "panic" {
				if prng.exhausted {
					res = "exhausted"
				}
				parts = append(parts, res)
				break
			}
			parts = append(parts, res)
		}
		c.Emit(fmt.Sprintf("qp N=%d Q=%s P=%s stream=%s fill=%d calls=%s", N, Vec(cQ), Vec(cP), st.Desc(), fill, strings.Join(cs, ";")), strings.Join(parts, "|"))
		c.Count("qp")
	}
}
