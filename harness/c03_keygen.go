package main

// C03 — key generation into RE-USED receivers (key rotation re-using the allocation).
//
// Two key generators with the SAME PRNG key are run side by side: A writes into receivers that already hold
// junk or a previous key, B writes into freshly allocated ones.  The results must be equal bit for bit
// (`keygen_reused_receiver`), for the public key (also tied to the Lean model through `genpk` lines and checked
// for its noise) and for relinearization, Galois and general evaluation keys, compressed or not.

import (
	"bytes"
	"crypto/rand"
	"fmt"
	"math"
	"reflect"

	"github.com/tuneinsight/lattigo/v6/core/rlwe"
	"github.com/tuneinsight/lattigo/v6/ring/ringqp"
)

// c03ReplayKeyGenerator builds a KeyGenerator whose crypto/rand reads return `keys` (NewKeyGenerator makes
// two 64-byte reads; the second keys its PRNG).
func c03ReplayKeyGenerator(params rlwe.Parameters, keys [][]byte) *rlwe.KeyGenerator {
	saved := rand.Reader
	rand.Reader = bytes.NewReader(bytes.Join(keys, nil))
	defer func() { rand.Reader = saved }()
	return rlwe.NewKeyGenerator(params)
}

func c03JunkQP(c *Ctx, s *c03Set, p ringqp.Poly) {
	qs, ps := s.params.Q(), s.params.P()
	for i := range p.Q.Coeffs {
		for j := range p.Q.Coeffs[i] {
			p.Q.Coeffs[i][j] = c.rng.Below(qs[i])
		}
	}
	for i := range p.P.Coeffs {
		for j := range p.P.Coeffs[i] {
			p.P.Coeffs[i][j] = c.rng.Below(ps[i])
		}
	}
}

func c03JunkEvk(c *Ctx, s *c03Set, evk *rlwe.EvaluationKey) {
	for i := range evk.Value {
		for j := range evk.Value[i] {
			for k := range evk.Value[i][j] {
				c03JunkQP(c, s, evk.Value[i][j][k])
			}
		}
	}
}

func c03KeygenReused(c *Ctx, s *c03Set) {
	params := s.params
	mark := RandMark()
	kgA := rlwe.NewKeyGenerator(params)
	keys := RandKeysSince(mark)
	if len(keys) != 2 {
		panic("C03: NewKeyGenerator crypto/rand reads")
	}
	kgB := c03ReplayKeyGenerator(params, [][]byte{keys[0], keys[1]})
	tw := newC03Twin(params, TwinPRNG(mark, 1))

	// ---- public key: junk-filled receiver, then the same receiver holding the previous key
	pkA := rlwe.NewPublicKey(params)
	c03JunkQP(c, s, pkA.Value[0])
	c03JunkQP(c, s, pkA.Value[1])
	for round, state := range []string{"junk", "previous-key"} {
		kgA.GenPublicKey(s.sk, pkA)
		pkB := kgB.GenPublicKeyNew(s.sk)
		a := tw.drawAQP(s.maxL, s.nP-1)
		e := tw.drawE(s.maxL)
		c.Emit("genpk "+s.hdr+" aq="+c03Q(s, a.Q, s.maxL, true)+" ap="+c03P(s, a.P, s.nP-1)+
			" e="+c03Q(s, e, s.maxL, false)+" "+c03SkTok(s, s.sk),
			c03PkTok(s, pkA))
		c.Count("op:genpk(reused)")
		detail := ""
		if !pkA.Equal(pkB) {
			detail = "public key generated into a receiver holding " + state + " differs from the one generated into a fresh receiver by a generator with the same PRNG"
		}
		c.Probe("keygen_reused_receiver", fmt.Sprintf("%s what=pk receiver=%s round=%d seed=%d", s.hdr, state, round, c.Seed),
			"C03-keygen-reused-receiver", detail)
		c03ProbePublicKey(c, s, pkA, e)
	}

	// ---- evaluation keys (bit equality with the fresh twin; noise through the library's own estimator)
	type evkCase struct {
		name string
		prm  []rlwe.EvaluationKeyParameters
	}
	cases := []evkCase{{"plain", nil}, {"compressed", []rlwe.EvaluationKeyParameters{{Compressed: true}}}}
	galEl := params.GaloisElement(1)
	// log2 of a std as estimated by the library (it folds the decomposition digits together, observed up to
	// log2(Be)+1.02 on the unchanged tree); junk left in a reused receiver shows up at ≈ log2(q) ≥ 25
	noiseMax := math.Log2(s.Be) + 4
	for _, ec := range cases {
		for _, what := range []string{"rlk", "gk", "evk"} {
			var recvEvk *rlwe.EvaluationKey
			var recv interface{}
			var genA, genB func()
			var fresh interface{}
			var noise func() float64
			switch what {
			case "rlk":
				r := rlwe.NewRelinearizationKey(params, ec.prm...)
				recv, recvEvk = r, &r.EvaluationKey
				genA = func() { kgA.GenRelinearizationKey(s.sk, r) }
				genB = func() { fresh = kgB.GenRelinearizationKeyNew(s.sk, ec.prm...) }
				noise = func() float64 { return rlwe.NoiseRelinearizationKey(r, s.sk, params) }
			case "gk":
				g := rlwe.NewGaloisKey(params, ec.prm...)
				recv, recvEvk = g, &g.EvaluationKey
				genA = func() { kgA.GenGaloisKey(galEl, s.sk, g) }
				genB = func() { fresh = kgB.GenGaloisKeyNew(galEl, s.sk, ec.prm...) }
				noise = func() float64 { return rlwe.NoiseGaloisKey(g, s.sk, params) }
			default:
				k := rlwe.NewEvaluationKey(params, ec.prm...)
				recv, recvEvk = k, k
				genA = func() { kgA.GenEvaluationKey(s.sk2, s.sk, k) }
				genB = func() { fresh = kgB.GenEvaluationKeyNew(s.sk2, s.sk, ec.prm...) }
				noise = func() float64 { return rlwe.NoiseEvaluationKey(k, s.sk2, s.sk, params) }
			}
			c03JunkEvk(c, s, recvEvk)
			for round, state := range []string{"junk", "previous-key"} {
				args := fmt.Sprintf("%s what=%s kind=%s receiver=%s round=%d seed=%d", s.hdr, what, ec.name, state, round, c.Seed)
				out := Try(func() string {
					genA()
					genB()
					if !reflect.DeepEqual(recv, fresh) {
						return "key generated into a receiver holding " + state + " differs from the one generated into a fresh receiver by a generator with the same PRNG"
					}
					if ec.name == "plain" {
						if n := noise(); n > noiseMax {
							return fmt.Sprintf("log2(noise std)=%.2f > %.2f", n, noiseMax)
						}
					}
					return ""
				})
				if out == "panic" {
					// both generators may be out of step now: stop this family for the set
					c.Count("keygen_reused:panic(" + what + "," + ec.name + ")")
					return
				}
				c.Probe("keygen_reused_receiver", args, "C03-keygen-reused-receiver", out)
			}
		}
	}
}
