package main

// C18 — the shipped default parameter sets (every entry of every Default… list of circuits/ckks/bootstrapping/default_parameters.go)
// tied field by field to the model's table `shippedDefaults` (lean/Lattigo/Model/BootstrapDefaults.lean):
//
//   default_list list=L                -> number of entries of the list (runtime)
//   default_literal list=L idx=i       -> canonical rendering of the runtime value L[i] (reflection: every non-zero field)
//   default_source list=L idx=i        -> name;announced precision (tenths of a bit);canonical rendering, all three read from the
//                                         SOURCE file with go/ast (variable name of the i-th element, its doc comment, its literal)
//   default_announced list=L idx=i     -> the announced precision the harness uses as threshold of bootstrap_precision
//
// The Lean table is regenerated with `C18_PRINT_DEFAULTS=1 harness gen C18 …` (printed on stderr) when the upstream
// defaults legitimately change.

import (
	"fmt"
	"go/ast"
	"go/parser"
	"go/token"
	"math"
	"os"
	"path/filepath"
	"reflect"
	"regexp"
	"sort"
	"strconv"
	"strings"

	"github.com/tuneinsight/lattigo/v6/circuits/ckks/bootstrapping"
	"github.com/tuneinsight/lattigo/v6/circuits/ckks/mod1"
)

// ---------------------------------------------------------------- runtime value -> canonical text

func c18Canon(v reflect.Value) string {
	switch v.Kind() {
	case reflect.Int, reflect.Int8, reflect.Int16, reflect.Int32, reflect.Int64:
		return strconv.FormatInt(v.Int(), 10)
	case reflect.Uint, reflect.Uint8, reflect.Uint16, reflect.Uint32, reflect.Uint64:
		return strconv.FormatUint(v.Uint(), 10)
	case reflect.Float32, reflect.Float64:
		return strconv.FormatFloat(v.Float(), 'g', -1, 64)
	case reflect.Bool:
		return strconv.FormatBool(v.Bool())
	case reflect.String:
		return strconv.Quote(v.String())
	case reflect.Ptr:
		if v.IsNil() {
			return "nil"
		}
		return "&" + c18Canon(v.Elem())
	case reflect.Interface:
		if v.IsNil() {
			return "nil"
		}
		return c18Canon(v.Elem())
	case reflect.Slice, reflect.Array:
		if v.Kind() == reflect.Slice && v.IsNil() {
			return "nil"
		}
		parts := make([]string, v.Len())
		for i := range parts {
			parts[i] = c18Canon(v.Index(i))
		}
		return "[" + strings.Join(parts, ",") + "]"
	case reflect.Struct:
		var parts []string
		for i := 0; i < v.NumField(); i++ {
			if f := v.Field(i); !f.IsZero() {
				parts = append(parts, v.Type().Field(i).Name+"="+c18Canon(f))
			}
		}
		sort.Strings(parts)
		return v.Type().Name() + "{" + strings.Join(parts, ",") + "}"
	}
	return "?" + v.Kind().String()
}

// ---------------------------------------------------------------- source literal -> canonical text

type c18SrcDefaults struct {
	lists     map[string][]string // list variable -> element identifiers
	listOrder []string
	literal   map[string]string // variable -> canonical literal
	announced map[string]int    // variable -> tenths of a bit ("Precision : x bits" of the doc comment), -1 = none
}

var c18PrecRe = regexp.MustCompile(`Precision\s*:\s*([0-9]+(?:\.[0-9]+)?)\s*bits`)

func c18ParseDefaults() (*c18SrcDefaults, error) {
	fset := token.NewFileSet()
	f, err := parser.ParseFile(fset, filepath.Join(repoPath(), "circuits/ckks/bootstrapping/default_parameters.go"), nil, parser.ParseComments)
	if err != nil {
		return nil, err
	}
	out := &c18SrcDefaults{lists: map[string][]string{}, literal: map[string]string{}, announced: map[string]int{}}
	structs := map[string][]string{} // struct types declared in the file: field names in order
	for _, d := range f.Decls {
		gd, ok := d.(*ast.GenDecl)
		if !ok || gd.Tok != token.TYPE {
			continue
		}
		for _, sp := range gd.Specs {
			ts := sp.(*ast.TypeSpec)
			if st, ok := ts.Type.(*ast.StructType); ok {
				for _, fl := range st.Fields.List {
					for _, n := range fl.Names {
						structs[ts.Name.Name] = append(structs[ts.Name.Name], n.Name)
					}
				}
			}
		}
	}
	for _, d := range f.Decls {
		gd, ok := d.(*ast.GenDecl)
		if !ok || gd.Tok != token.VAR {
			continue
		}
		for _, sp := range gd.Specs {
			vs := sp.(*ast.ValueSpec)
			for i, n := range vs.Names {
				if i >= len(vs.Values) {
					continue
				}
				cl, ok := vs.Values[i].(*ast.CompositeLit)
				if !ok {
					continue
				}
				if _, isList := cl.Type.(*ast.ArrayType); isList {
					var names []string
					for _, e := range cl.Elts {
						if id, ok := e.(*ast.Ident); ok {
							names = append(names, id.Name)
						} else {
							names = append(names, "?inline")
						}
					}
					out.lists[n.Name] = names
					out.listOrder = append(out.listOrder, n.Name)
					continue
				}
				out.literal[n.Name] = c18CanonExpr(cl, structs)
				out.announced[n.Name] = -1
				doc := vs.Doc
				if doc == nil && len(gd.Specs) == 1 {
					doc = gd.Doc
				}
				if doc != nil {
					if m := c18PrecRe.FindStringSubmatch(doc.Text()); m != nil {
						x, _ := strconv.ParseFloat(m[1], 64)
						out.announced[n.Name] = int(math.Round(x * 10))
					}
				}
			}
		}
	}
	return out, nil
}

func c18TypeName(e ast.Expr) string {
	switch t := e.(type) {
	case *ast.Ident:
		return t.Name
	case *ast.SelectorExpr:
		return t.Sel.Name
	}
	return "?type"
}

// c18CanonExpr renders a literal expression as c18Canon renders its value; "" = zero value (skipped as a field)
func c18CanonExpr(e ast.Expr, structs map[string][]string) string {
	switch x := e.(type) {
	case *ast.BasicLit:
		switch x.Kind {
		case token.INT:
			v, err := strconv.ParseInt(strings.ReplaceAll(x.Value, "_", ""), 0, 64)
			if err != nil {
				return "?int"
			}
			if v == 0 {
				return ""
			}
			return strconv.FormatInt(v, 10)
		case token.FLOAT:
			v, _ := strconv.ParseFloat(strings.ReplaceAll(x.Value, "_", ""), 64)
			if v == 0 {
				return ""
			}
			return strconv.FormatFloat(v, 'g', -1, 64)
		case token.STRING:
			s, _ := strconv.Unquote(x.Value)
			if s == "" {
				return ""
			}
			return strconv.Quote(s)
		}
		return "?lit"
	case *ast.UnaryExpr:
		if x.Op == token.SUB {
			if s := c18CanonExpr(x.X, structs); s != "" && s[0] != '?' {
				return "-" + s
			}
		}
		if x.Op == token.AND {
			return "&" + c18Elem(x.X, structs)
		}
		return "?unary"
	case *ast.Ident:
		switch x.Name {
		case "nil", "false":
			return ""
		case "true":
			return "true"
		}
		return "?ident:" + x.Name
	case *ast.CallExpr:
		// utils.Pointy(v): pointer to v
		if c18TypeName(x.Fun) == "Pointy" && len(x.Args) == 1 {
			return "&" + c18Elem(x.Args[0], structs)
		}
		return "?call"
	case *ast.CompositeLit:
		if at, ok := x.Type.(*ast.ArrayType); ok {
			parts := make([]string, len(x.Elts))
			for i, el := range x.Elts {
				if cl, ok := el.(*ast.CompositeLit); ok && cl.Type == nil {
					cl2 := *cl
					cl2.Type = at.Elt
					el = &cl2
				}
				parts[i] = c18Elem(el, structs)
			}
			return "[" + strings.Join(parts, ",") + "]"
		}
		name := c18TypeName(x.Type)
		var parts []string
		for i, el := range x.Elts {
			if kv, ok := el.(*ast.KeyValueExpr); ok {
				if v := c18CanonExpr(kv.Value, structs); v != "" {
					parts = append(parts, c18TypeName(kv.Key)+"="+v)
				}
				continue
			}
			fields, ok := structs[name]
			if !ok || i >= len(fields) {
				return "?positional:" + name
			}
			if v := c18CanonExpr(el, structs); v != "" {
				parts = append(parts, fields[i]+"="+v)
			}
		}
		if len(parts) == 0 {
			return "" // the zero struct
		}
		sort.Strings(parts)
		return name + "{" + strings.Join(parts, ",") + "}"
	}
	return "?expr"
}

// c18Elem: an element of a slice / the target of a pointer is printed even when it is the zero value
func c18Elem(e ast.Expr, structs map[string][]string) string {
	if s := c18CanonExpr(e, structs); s != "" {
		return s
	}
	switch x := e.(type) {
	case *ast.BasicLit:
		if x.Kind == token.STRING {
			return `""`
		}
		return "0"
	case *ast.CompositeLit:
		if _, ok := x.Type.(*ast.ArrayType); ok {
			return "[]"
		}
		return c18TypeName(x.Type) + "{}"
	case *ast.Ident:
		if x.Name == "false" {
			return "false"
		}
	}
	return "nil"
}

// ---------------------------------------------------------------- ties

func c18DefaultTable(c *Ctx) {
	lists := []struct {
		name string
		vals interface{}
		tag  string
	}{
		{"DefaultParametersSparse", bootstrapping.DefaultParametersSparse, "sparse"},
		{"DefaultParametersDense", bootstrapping.DefaultParametersDense, "dense"},
	}
	src, err := c18ParseDefaults()
	var lean []string
	for _, l := range lists {
		v := reflect.ValueOf(l.vals)
		c.Emit("default_list list="+l.name, I(v.Len()))
		for i := 0; i < v.Len(); i++ {
			args := fmt.Sprintf("list=%s idx=%d", l.name, i)
			lit := c18Canon(v.Index(i))
			c.Emit("default_literal "+args, lit)
			s := "source-unreadable"
			if err == nil {
				s = "none"
				if names := src.lists[l.name]; i < len(names) {
					s = fmt.Sprintf("%s;%d;%s", names[i], src.announced[names[i]], src.literal[names[i]])
					lean = append(lean, fmt.Sprintf("  { list := %q, idx := %d, name := %q, announcedTenths := %d,\n    literal := %q }",
						l.name, i, names[i], src.announced[names[i]], src.literal[names[i]]))
				}
			}
			c.Emit("default_source "+args, s)
			c.Emit("default_announced "+args, I(int(math.Round(c18Announced[fmt.Sprintf("%s%d", l.tag, i)]*10))))
			c.Count("default_table")
		}
	}
	// every list of the source file is one of the lists above (a new Default… list must be added to the harness and the table)
	if err == nil {
		detail := ""
		for _, n := range src.listOrder {
			if n != "DefaultParametersSparse" && n != "DefaultParametersDense" {
				detail = "default_parameters.go declares the list " + n + " that is not covered"
			}
		}
		c.Probe("default_lists_covered", "file=default_parameters.go", "C18-default-list-uncovered", detail)
	}
	if os.Getenv("C18_PRINT_DEFAULTS") != "" {
		fmt.Fprintf(os.Stderr, "def shippedDefaults : List ShippedDefault := [\n%s\n]\n", strings.Join(lean, ",\n"))
	}
}

// ---------------------------------------------------------------- documented defaults of the optional literal fields

// c18LiteralDefaults: for every Mod1Type, the Get…() of a literal whose optional fields are all nil (`literal_default`), the
// `Default…` constants of parameters_literal.go read with go/ast (`literal_default_const`) and the "by default set to x" of the
// doc comment of ParametersLiteral (`literal_default_doc`), all tied to the model's table `literalDefault` / `defaultConst` /
// `defaultDoc` (lean/Lattigo/Model/BootstrapDefaults.lean).
func c18LiteralDefaults(c *Ctx) {
	iv := func(v int, err error) string {
		if err != nil {
			return "error"
		}
		return I(v)
	}
	shape := func(v [][]int, err error) string {
		if err != nil {
			return "error"
		}
		parts := make([]string, len(v))
		for i := range v {
			parts[i] = IVec(v[i])
		}
		return strings.Join(parts, "/")
	}
	for _, t := range []struct {
		name string
		t    mod1.Type
	}{{"CosDiscrete", mod1.CosDiscrete}, {"SinContinuous", mod1.SinContinuous}, {"CosContinuous", mod1.CosContinuous}} {
		lit := bootstrapping.ParametersLiteral{Mod1Type: t.t}
		logSlots, err := lit.GetLogSlots()
		vals := [][2]string{
			{"LogN", I(lit.GetLogN())},
			{"LogSlots", iv(logSlots, err)},
			{"EvalModLogScale", iv(lit.GetEvalMod1LogScale())},
			{"EphemeralSecretWeight", iv(lit.GetEphemeralSecretWeight())},
			{"LogMessageRatio", iv(lit.GetLogMessageRatio())},
			{"K", iv(lit.GetK())},
			{"Mod1Degree", iv(lit.GetMod1Degree())},
			{"DoubleAngle", iv(lit.GetDoubleAngle())},
			{"Mod1InvDegree", iv(lit.GetMod1InvDegree())},
			{"CoeffsToSlots", shape(lit.GetCoeffsToSlotsFactorizationDepthAndLogScales(15))},
			{"SlotsToCoeffs", shape(lit.GetSlotsToCoeffsFactorizationDepthAndLogScales(15))},
			{"Xs", c18Canon(reflect.ValueOf(lit.GetDefaultXs()))},
		}
		it, err := lit.GetIterationsParameters()
		if err != nil {
			vals = append(vals, [2]string{"IterationsParameters", "error"})
		} else {
			vals = append(vals, [2]string{"IterationsParameters", c18Canon(reflect.ValueOf(it))})
		}
		for _, v := range vals {
			c.Emit(fmt.Sprintf("literal_default mod1type=%s field=%s", t.name, v[0]), v[1])
			c.Count("literal_default")
		}
	}
	// the source: constants and doc comment
	fset := token.NewFileSet()
	f, err := parser.ParseFile(fset, filepath.Join(repoPath(), "circuits/ckks/bootstrapping/parameters_literal.go"), nil, parser.ParseComments)
	consts := map[string]string{}
	doc := ""
	if err == nil {
		for _, d := range f.Decls {
			gd, ok := d.(*ast.GenDecl)
			if !ok {
				continue
			}
			for _, sp := range gd.Specs {
				switch x := sp.(type) {
				case *ast.ValueSpec:
					for i, n := range x.Names {
						if strings.HasPrefix(n.Name, "Default") && i < len(x.Values) {
							switch v := x.Values[i].(type) {
							case *ast.BasicLit:
								consts[n.Name] = v.Value
							case *ast.SelectorExpr:
								consts[n.Name] = v.Sel.Name
							case *ast.CompositeLit:
								consts[n.Name] = c18Elem(v, nil)
							}
						}
					}
				case *ast.TypeSpec:
					if x.Name.Name == "ParametersLiteral" {
						if x.Doc != nil {
							doc = x.Doc.Text()
						} else if gd.Doc != nil {
							doc = gd.Doc.Text()
						}
					}
				}
			}
		}
	}
	for _, n := range []string{"DefaultLogN", "DefaultCoeffsToSlotsFactorizationDepth", "DefaultSlotsToCoeffsFactorizationDepth", "DefaultCoeffsToSlotsLogScale",
		"DefaultSlotsToCoeffsLogScale", "DefaultEvalModLogScale", "DefaultEphemeralSecretWeight", "DefaultIterations", "DefaultMod1Type", "DefaultLogMessageRatio",
		"DefaultK", "DefaultMod1Degree", "DefaultDoubleAngle", "DefaultMod1InvDegree", "DefaultXs"} {
		v, ok := consts[n]
		if !ok {
			v = "none"
		}
		c.Emit("literal_default_const name="+n, v)
	}
	re := regexp.MustCompile(`(?i)by default set to ([A-Za-z0-9.]+?)[.,]?(\s|\(|$)`)
	for _, field := range []string{"EphemeralSecretWeight", "LogMessageRatio", "Mod1Type", "K", "Mod1Degree", "DoubleAngle", "Mod1InvDegree"} {
		v := "none"
		for _, line := range strings.Split(doc, "\n") {
			if strings.HasPrefix(strings.TrimSpace(line), field+":") {
				if m := re.FindStringSubmatch(line); m != nil {
					v = m[1]
				}
			}
		}
		c.Emit("literal_default_doc field="+field, v)
	}
}
