package main

// C09 — history of the polynomial evaluators: two PolynomialVector evaluations with DIFFERENT slot mappings through
// the same evaluator (the coefficient getters keep a scratch vector indexed by slot): the second evaluation must be
// bit-identical to the same evaluation through a fresh evaluator, in both orders, and the inputs (ciphertext,
// polynomial vector incl. its mapping) must be unchanged.

import (
	"fmt"

	bgvpoly "github.com/tuneinsight/lattigo/v6/circuits/bgv/polynomial"
	ckkspoly "github.com/tuneinsight/lattigo/v6/circuits/ckks/polynomial"
	"github.com/tuneinsight/lattigo/v6/core/rlwe"
	"github.com/tuneinsight/lattigo/v6/schemes/bgv"
	"github.com/tuneinsight/lattigo/v6/schemes/ckks"
	"github.com/tuneinsight/lattigo/v6/utils/bignum"
)

func c09PolyVectors(c *Ctx) {
	for _, scheme := range []string{"bgv", "ckks"} {
		e := newC09Env(c, scheme, 5, 1)
		sc := scheme + "/logN5"
		A := e.encrypt(1, e.maxLevel(), 1)
		slots := 16
		// mapping 1: two polynomials on two blocks of slots; mapping 2: one polynomial on a few scattered slots
		// (slots that mapping 1 used and mapping 2 does not must evaluate the zero polynomial)
		m1 := map[int][]int{0: {0, 1, 2, 3, 4, 5, 6, 7}, 1: {8, 9, 10, 11, 12, 13}}
		m2 := map[int][]int{0: {1, 9, 15}}
		m3 := map[int][]int{0: {2, 3}, 1: {0}, 2: {14, 15}}
		_ = slots
		var evalV func(fresh bool, which int) (*rlwe.Ciphertext, error)
		var hashV func(which int) string
		if scheme == "bgv" {
			mk := func(polys [][]uint64, m map[int][]int) bgvpoly.PolynomialVector {
				v, err := bgvpoly.NewPolynomialVector(polys, m)
				if err != nil {
					panic(err)
				}
				return v
			}
			vs := []bgvpoly.PolynomialVector{
				mk([][]uint64{{1, 2, 0, 3}, {5, 0, 1, 7}}, m1),
				mk([][]uint64{{2, 1, 4, 1}}, m2),
				mk([][]uint64{{3, 0, 0, 1}, {1, 1, 1, 1}, {0, 2, 0, 2}}, m3),
			}
			used := bgvpoly.NewEvaluator(e.bgvP, bgv.NewEvaluator(e.bgvP, e.evk))
			evalV = func(fresh bool, which int) (*rlwe.Ciphertext, error) {
				pe := used
				if fresh {
					pe = bgvpoly.NewEvaluator(e.bgvP, bgv.NewEvaluator(e.bgvP, e.evk))
				}
				return pe.Evaluate(A, vs[which], e.bgvP.DefaultScale())
			}
			hashV = func(which int) string { return deepHash(&vs[which]) }
		} else {
			mk := func(polys [][]float64, m map[int][]int) ckkspoly.PolynomialVector {
				ps := make([]bignum.Polynomial, len(polys))
				for i := range ps {
					ps[i] = bignum.NewPolynomial(bignum.Monomial, polys[i], nil)
				}
				v, err := ckkspoly.NewPolynomialVector(ps, m)
				if err != nil {
					panic(err)
				}
				return v
			}
			vs := []ckkspoly.PolynomialVector{
				mk([][]float64{{0.5, 0.25, 0, 0.125}, {0.75, 0, 0.5, 0.25}}, m1),
				mk([][]float64{{0.25, 0.5, 0.125, 0.5}}, m2),
				mk([][]float64{{0.5, 0, 0, 0.25}, {0.125, 0.125, 0.125, 0.125}, {0, 0.5, 0, 0.5}}, m3),
			}
			used := ckkspoly.NewEvaluator(e.ckksP, ckks.NewEvaluator(e.ckksP, e.evk))
			evalV = func(fresh bool, which int) (*rlwe.Ciphertext, error) {
				pe := used
				if fresh {
					pe = ckkspoly.NewEvaluator(e.ckksP, ckks.NewEvaluator(e.ckksP, e.evk))
				}
				return pe.Evaluate(A, vs[which], e.ckksP.DefaultScale())
			}
			hashV = func(which int) string { return deepHash(&vs[which]) }
		}
		name := scheme + "/polynomial.Evaluator.Evaluate[PolynomialVector]"
		ref := make([]string, 3)
		okRef := true
		for w := 0; w < 3; w++ {
			var o *rlwe.Ciphertext
			if err := c09Err(func() (err error) { o, err = evalV(true, w); return }); err != nil {
				c.Count("polyvec_rejected:" + name)
				okRef = false
				break
			}
			ref[w] = deepHash(o)
		}
		if !okRef {
			continue
		}
		// a sequence over the SAME evaluator: every evaluation must equal the fresh-evaluator one
		for step, w := range []int{0, 1, 2, 1, 0, 2, 2, 1} {
			hA, hV := deepHash(A), hashV(w)
			var o *rlwe.Ciphertext
			err := c09Err(func() (err error) { o, err = evalV(false, w); return })
			args := fmt.Sprintf("%s/step%d/vector%d", sc, step, w)
			d := ""
			if deepHash(A) != hA {
				d += "ciphertext-changed "
			}
			if hashV(w) != hV {
				d += "polynomial-vector-changed"
			}
			c.Probe("inputs_unchanged/"+name, args, "C09-inputs-"+name, d)
			d = ""
			if isPanic(err) {
				d = err.Error()
			} else if err != nil {
				d = "rejected-after-earlier-use"
			} else if deepHash(o) != ref[w] {
				d = "result-differs-from-the-fresh-evaluator"
			}
			c.Probe("history_free/"+name+"[different-mapping-before]", args, "C09-history-"+name, d)
		}
	}
}
