package main

// C19 — composite moduli that look prime to weak tests must be refused by every constructor.
//
//   rejects_composite_modulus   a composite n ≡ 1 mod 2N (strong pseudoprimes to the bases 2,3,5,7[,11,13,17], Carmichael numbers,
//                               products and squares of NTT-friendly primes) as Q[i], P[j] or plaintext modulus: rlwe.CheckModuli,
//                               ring.NewRing / NewRingFromType, rlwe / ckks / bgv NewParametersFromLiteral and their UnmarshalJSON /
//                               UnmarshalBinary return an error (no panic, no object).   Key C19-composite-modulus-accepted
//   isprime_composite           ring.IsPrime is false on every entry of the table (incl. those with no 2-adic structure).
//
// Primality is decided here independently of the library under test (deterministic Miller–Rabin with 12 bases below 2^64,
// cross-checked with math/big), also in `accepted_prime_ntt` / `genmoduli_spec`.

import (
	"fmt"
	"math/big"
	"math/bits"

	"github.com/tuneinsight/lattigo/v6/core/rlwe"
	"github.com/tuneinsight/lattigo/v6/ring"
	"github.com/tuneinsight/lattigo/v6/schemes/bgv"
	"github.com/tuneinsight/lattigo/v6/schemes/ckks"
)

func c19MulMod(a, b, m uint64) uint64 {
	hi, lo := bits.Mul64(a, b)
	_, r := bits.Div64(hi%m, lo, m)
	return r
}

func c19StrongProbablePrime(n, a uint64) bool {
	d, s := n-1, 0
	for d&1 == 0 {
		d >>= 1
		s++
	}
	x, b := uint64(1), a%n
	for e := d; e > 0; e >>= 1 {
		if e&1 == 1 {
			x = c19MulMod(x, b, n)
		}
		b = c19MulMod(b, b, n)
	}
	if x == 1 || x == n-1 {
		return true
	}
	for i := 1; i < s; i++ {
		if x = c19MulMod(x, x, n); x == n-1 {
			return true
		}
	}
	return false
}

var c19MRBases = []uint64{2, 3, 5, 7, 11, 13, 17, 19, 23, 29, 31, 37}

// c19IndepPrime: primality below 2^64 without the library under test.
func c19IndepPrime(n uint64) bool {
	if n < 2 {
		return false
	}
	res := true
	for _, b := range c19MRBases {
		if n == b {
			res = true
			goto done
		}
		if n%b == 0 {
			res = false
			goto done
		}
	}
	for _, b := range c19MRBases {
		if !c19StrongProbablePrime(n, b) {
			res = false
			break
		}
	}
done:
	if res != new(big.Int).SetUint64(n).ProbablyPrime(20) {
		panic(fmt.Sprintf("harness: the two independent primality tests disagree on %d", n))
	}
	return res
}

// strong pseudoprimes to the first k prime bases (k in the comment), all ≡ 1 mod 32; found by an offline search over
// n = p·(r(p−1)+1), and ψ_7 = ψ_8 = 341550071728321. Checked composite at start-up.
var c19StrongPseudoprimes = []uint64{
	341550071728321,     // bases 2..19 (ψ_7, ψ_8), = 10670053·32010157, 1 mod 64
	1134931906634489281, // bases 2..19, = 753303361·1506606721, 60 bits, 1 mod 64
	1151611068582886081, // bases 2..13, 60 bits, 1 mod 64
	40682698620481,      // bases 2..11, 46 bits, 1 mod 64
	763610753070721,     // bases 2..11, 50 bits, 1 mod 128
	6302716724494081,    // bases 2..11, 53 bits, 1 mod 256
	22581743226007681,   // bases 2..11, 55 bits, 1 mod 128
	987112765453731841,  // bases 2..11, 60 bits, 1 mod 2048
	2071061754416962561, // bases 2..11, 61 bits, 1 mod 1024
	2148796354693021441, // bases 2..11, 61 bits, 1 mod 256
	138724596838081,     // bases 2..7, 47 bits, 1 mod 64
	806943042831361,     // bases 2..7, 50 bits, 1 mod 1024
	2050732123313281,    // bases 2..7, 51 bits, 1 mod 128
}

// Carmichael numbers ≡ 1 mod 32 (small ones, and Chernick products (6k+1)(12k+1)(18k+1) generated at start-up)
var c19Carmichael = []uint64{1729, 2465, 15841, 46657, 75361, 162401}

// other composites with no structure modulo 2N: only for ring.IsPrime
var c19OtherPseudoprimes = []uint64{2047, 1373653, 25326001, 3215031751, 4759123141, 1122004669633, 2152302898747, 3474749660383,
	3825123056546413051}

type c19Composite struct {
	n    uint64
	what string
}

func c19CompositeTable(c *Ctx) (out []c19Composite) {
	for _, n := range c19StrongPseudoprimes {
		k := 0
		for _, b := range c19MRBases {
			if !c19StrongProbablePrime(n, b) {
				break
			}
			k++
		}
		out = append(out, c19Composite{n, fmt.Sprintf("strong-pseudoprime-to-%d-bases", k)})
	}
	for _, n := range c19Carmichael {
		out = append(out, c19Composite{n, "carmichael"})
	}
	// Chernick: k ≡ 0 mod 16 gives n ≡ 1 mod 64
	found := 0
	for k := uint64(16); k < 130000 && found < 6; k += 16 {
		a, b, d := 6*k+1, 12*k+1, 18*k+1
		if c19IndepPrime(a) && c19IndepPrime(b) && c19IndepPrime(d) {
			if hi, ab := bits.Mul64(a, b); hi == 0 {
				if hi, n := bits.Mul64(ab, d); hi == 0 && bits.Len64(n) <= 61 {
					out = append(out, c19Composite{n, "carmichael-chernick"})
					found++
				}
			}
		}
	}
	// products and squares of NTT-friendly primes
	for _, sz := range [][2]int{{20, 20}, {30, 30}, {25, 35}, {30, 31}, {16, 44}} {
		a := c19PrimeWithBits(c, sz[0], 128, nil)
		b := c19PrimeWithBits(c, sz[1], 128, map[uint64]bool{a: true})
		out = append(out, c19Composite{a * b, "product-of-two-ntt-primes"}, c19Composite{a * a, "square-of-an-ntt-prime"})
	}
	for _, x := range out {
		if c19IndepPrime(x.n) || x.n%32 != 1 || bits.Len64(x.n) > 61 {
			panic(fmt.Sprintf("harness: composite table entry %d (%s) is prime, not 1 mod 32 or above 61 bits", x.n, x.what))
		}
	}
	return
}

func c19CompositeProbes(c *Ctx) {
	key := "C19-composite-modulus-accepted"
	for _, n := range append(append(append([]uint64{}, c19StrongPseudoprimes...), c19Carmichael...), c19OtherPseudoprimes...) {
		d := ""
		if c19IndepPrime(n) {
			continue // (a table entry that is prime: nothing to check)
		}
		if ring.IsPrime(n) {
			d = fmt.Sprintf("ring.IsPrime(%d) = true for a composite", n)
		}
		c.Probe("isprime_composite", "n="+U(n), key, d)
	}
	for _, x := range c19CompositeTable(c) {
		n := x.n
		tz := bits.TrailingZeros64(n - 1) // n ≡ 1 mod 2^tz
		for _, logN := range []int{4, 5, 6} {
			if logN+1 > tz {
				continue
			}
			N := 1 << uint(logN)
			n2 := uint64(2) << uint(logN)
			good := c19PrimeWithBits(c, 45, 2*n2, map[uint64]bool{n: true})
			good2 := c19PrimeWithBits(c, 46, 2*n2, map[uint64]bool{n: true, good: true})
			tPlain := map[int]uint64{4: 97, 5: 193, 6: 257}[logN]
			type ctor struct {
				name string
				f    func() error
			}
			ringWorks := func(r *ring.Ring) string {
				// (for the report only: what an accepted ring computes)
				return Try(func() string {
					a := r.NewPoly()
					for i := range a.Coeffs {
						for j := range a.Coeffs[i] {
							a.Coeffs[i][j] = uint64(j*j+3*i+1) % r.SubRings[i].Modulus
						}
					}
					b := *a.CopyNew()
					r.NTT(b, b)
					r.INTT(b, b)
					if !a.Equal(&b) {
						return "INTT(NTT(a)) != a in the accepted ring"
					}
					return "the accepted ring round-trips the NTT"
				})
			}
			ctors := []ctor{
				{"rlwe.CheckModuli(Q=[n])", func() error { return rlwe.CheckModuli([]uint64{n}, nil) }},
				{"rlwe.CheckModuli(Q=[q,n])", func() error { return rlwe.CheckModuli([]uint64{good, n}, nil) }},
				{"rlwe.CheckModuli(P=[n])", func() error { return rlwe.CheckModuli([]uint64{good}, []uint64{n}) }},
				{"ring.NewRing([n])", func() error {
					r, err := ring.NewRing(N, []uint64{n})
					if err == nil {
						return nil
					}
					_ = r
					return err
				}},
				{"ring.NewRing([q,n])", func() error { _, err := ring.NewRing(N, []uint64{good, n}); return err }},
				{"ring.NewRingFromType([n],Standard)", func() error { _, err := ring.NewRingFromType(N, []uint64{n}, ring.Standard); return err }},
				{"rlwe.NewParametersFromLiteral(Q=[n])", func() error {
					_, err := rlwe.NewParametersFromLiteral(rlwe.ParametersLiteral{LogN: logN, Q: []uint64{n}, NTTFlag: true})
					return err
				}},
				{"rlwe.NewParametersFromLiteral(Q=[q,n],P=[p])", func() error {
					_, err := rlwe.NewParametersFromLiteral(rlwe.ParametersLiteral{LogN: logN, Q: []uint64{good, n}, P: []uint64{good2}, NTTFlag: true})
					return err
				}},
				{"rlwe.NewParametersFromLiteral(P=[n])", func() error {
					_, err := rlwe.NewParametersFromLiteral(rlwe.ParametersLiteral{LogN: logN, Q: []uint64{good}, P: []uint64{n}})
					return err
				}},
				{"rlwe.Parameters.UnmarshalJSON(Q=[q,n])", func() error {
					var p rlwe.Parameters
					return p.UnmarshalJSON([]byte(fmt.Sprintf(`{"LogN":%d,"Q":[%d,%d],"P":[%d],"NTTFlag":true}`, logN, good, n, good2)))
				}},
				{"ckks.NewParametersFromLiteral(Q=[q,n])", func() error {
					_, err := ckks.NewParametersFromLiteral(ckks.ParametersLiteral{LogN: logN, Q: []uint64{good, n}, P: []uint64{good2}, LogDefaultScale: 30})
					return err
				}},
				{"ckks.NewParametersFromLiteral(P=[n])", func() error {
					_, err := ckks.NewParametersFromLiteral(ckks.ParametersLiteral{LogN: logN, Q: []uint64{good, good2}, P: []uint64{n}, LogDefaultScale: 30})
					return err
				}},
				{"ckks.Parameters.UnmarshalBinary(Q=[n,q])", func() error {
					var p ckks.Parameters
					return p.UnmarshalBinary([]byte(fmt.Sprintf(`{"LogN":%d,"Q":[%d,%d],"LogDefaultScale":30}`, logN, n, good)))
				}},
				{"bgv.NewParametersFromLiteral(Q=[q,n])", func() error {
					_, err := bgv.NewParametersFromLiteral(bgv.ParametersLiteral{LogN: logN, Q: []uint64{good, n}, PlaintextModulus: tPlain})
					return err
				}},
				{"bgv.Parameters.UnmarshalJSON(Q=[q,n])", func() error {
					var p bgv.Parameters
					return p.UnmarshalJSON([]byte(fmt.Sprintf(`{"LogN":%d,"Q":[%d,%d],"PlaintextModulus":%d}`, logN, good, n, tPlain)))
				}},
			}
			if n < good {
				ctors = append(ctors, ctor{"bgv.NewParametersFromLiteral(T=n)", func() error {
					_, err := bgv.NewParametersFromLiteral(bgv.ParametersLiteral{LogN: logN, Q: []uint64{good, good2}, PlaintextModulus: n})
					return err
				}})
			}
			if tz >= logN+2 {
				ctors = append(ctors, ctor{"ring.NewRingFromType([n],ConjugateInvariant)", func() error {
					_, err := ring.NewRingFromType(N, []uint64{n}, ring.ConjugateInvariant)
					return err
				}}, ctor{"ckks.NewParametersFromLiteral(Q=[q,n],ConjugateInvariant)", func() error {
					_, err := ckks.NewParametersFromLiteral(ckks.ParametersLiteral{LogN: logN, Q: []uint64{good, n}, RingType: ring.ConjugateInvariant, LogDefaultScale: 30})
					return err
				}})
			}
			for _, ct := range ctors {
				var err error
				d := c19Run(c19Slow, func() string { err = ct.f(); return "" })
				if d == "" && err == nil {
					d = fmt.Sprintf("%s accepted the composite modulus %d (%s, 1 mod %d)", ct.name, n, x.what, n2)
					if ct.name == "ring.NewRing([n])" {
						if r, e := ring.NewRing(N, []uint64{n}); e == nil {
							d += ": " + ringWorks(r)
						}
					}
				}
				c.Probe("rejects_composite_modulus", fmt.Sprintf("ctor=%s n=%d kind=%s logN=%d", ct.name, n, x.what, logN), key, c19Sanitize(d))
			}
		}
	}
}
