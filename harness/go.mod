module verifharness

go 1.21

require (
	github.com/tuneinsight/lattigo/v6 v6.0.0
	golang.org/x/crypto v0.31.0
)

require (
	github.com/ALTree/bigfloat v0.0.0-20220102081255-38c8b72a9924 // indirect
	github.com/davecgh/go-spew v1.1.1 // indirect
	github.com/google/go-cmp v0.5.8 // indirect
	github.com/pmezard/go-difflib v1.0.0 // indirect
	github.com/stretchr/testify v1.8.0 // indirect
	golang.org/x/exp v0.0.0-20230321023759-10a507213a29 // indirect
	golang.org/x/sys v0.28.0 // indirect
	gopkg.in/yaml.v3 v3.0.1 // indirect
)

replace github.com/tuneinsight/lattigo/v6 => /repo
