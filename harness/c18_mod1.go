package main

// C18 — direct probes of the modular-reduction step (mod1.Evaluator.EvaluateNew / EvaluateAndScaleNew):
// "the modular-reduction step approximates x mod 1 within its stated error on its stated interval",
// over Mod1Type x DoubleAngle x arcsine x scaling, inputs I*Q + m with |I| <= K-1 incl. the end points.

import (
	"fmt"
	"math"
	"math/bits"
	"strings"

	"github.com/tuneinsight/lattigo/v6/circuits/ckks/mod1"
	"github.com/tuneinsight/lattigo/v6/circuits/ckks/polynomial"
	"github.com/tuneinsight/lattigo/v6/core/rlwe"
	"github.com/tuneinsight/lattigo/v6/ring"
	"github.com/tuneinsight/lattigo/v6/schemes/ckks"
)

func c18Mod1Step(c *Ctx) {
	logN := c.Scale(9, 10)
	params, err := ckks.NewParametersFromLiteral(ckks.ParametersLiteral{
		LogN:            logN,
		LogQ:            []int{55, 60, 60, 60, 60, 60, 60, 60, 60, 60, 60, 60, 60, 53},
		LogP:            []int{61, 61, 61, 61, 61},
		Xs:              ring.Ternary{H: 192},
		LogDefaultScale: 45,
	})
	must(err)
	kgen := rlwe.NewKeyGenerator(params)
	sk := kgen.GenSecretKeyNew()
	ecd := ckks.NewEncoder(params)
	enc := rlwe.NewEncryptor(params, sk)
	dec := rlwe.NewDecryptor(params, sk)
	eval := ckks.NewEvaluator(params, rlwe.NewMemEvaluationKeySet(kgen.GenRelinearizationKeyNew(sk)))
	polyEval := polynomial.NewEvaluator(params, eval)

	type lit struct {
		name string
		l    mod1.ParametersLiteral
	}
	var lits []lit
	for da := 0; da <= 3; da++ {
		for _, inv := range []int{0, 7} {
			lits = append(lits, lit{fmt.Sprintf("cosd_da%d_inv%d", da, inv), mod1.ParametersLiteral{LevelQ: 12, Mod1Type: mod1.CosDiscrete,
				LogMessageRatio: 8, K: 12, Mod1Degree: 30, DoubleAngle: da, Mod1InvDegree: inv, LogScale: 60}})
			lits = append(lits, lit{fmt.Sprintf("cosc_da%d_inv%d", da, inv), mod1.ParametersLiteral{LevelQ: 12, Mod1Type: mod1.CosContinuous,
				LogMessageRatio: 8, K: 12, Mod1Degree: 63, DoubleAngle: da, Mod1InvDegree: inv, LogScale: 60}})
		}
	}
	// cosine with discrete nodes: the node allocation hands nodes out in pairs; degrees around the powers of two
	// (one node of budget left), several K: the polynomial degree must not exceed what Depth() accounts for
	for _, k := range []int{12, 16, 9} {
		for _, deg := range []int{15, 30, 31, 32, 62, 63, 64} {
			if k != 16 && !c.Thorough() && deg != 31 && deg != 63 {
				continue
			}
			lits = append(lits, lit{fmt.Sprintf("cosd_k%d_deg%d", k, deg), mod1.ParametersLiteral{LevelQ: 12, Mod1Type: mod1.CosDiscrete,
				LogMessageRatio: 8, K: k, Mod1Degree: deg, DoubleAngle: 3, LogScale: 60}})
		}
	}
	// sine: DoubleAngle in the literal is documented as ignored ("only applies for cos and is ignored if sin is used") and
	// is not counted by Depth(): the reference below does not depend on it, and the levels consumed must not exceed Depth()
	for _, inv := range []int{0, 7} {
		for _, da := range []int{0, 2, 3} {
			if da == 3 && !c.Thorough() {
				continue
			}
			lits = append(lits, lit{fmt.Sprintf("sin_da%d_inv%d", da, inv), mod1.ParametersLiteral{LevelQ: 12, Mod1Type: mod1.SinContinuous,
				LogMessageRatio: 8, K: 12, Mod1Degree: 127, DoubleAngle: da, Mod1InvDegree: inv, LogScale: 60}})
		}
	}
	scalings := []float64{1, 2, 0.5, 1.0 / 256} // larger scalings overflow the last modulus (values up to K*Q/2pi*scaling)
	if !c.Thorough() {
		// quick: every literal with scaling 1 and one other scaling
		scalings = []float64{1, 1.0 / 256}
	}
	for _, lt := range lits {
		l := lt.l
		if l.Mod1Type == mod1.CosDiscrete && !strings.HasPrefix(lt.name, "cosd_k") {
			// degree large enough for the interval left after the double angles
			l.Mod1Degree = map[int]int{0: 127, 1: 63, 2: 63, 3: 30}[l.DoubleAngle]
		}
		if l.Mod1Type == mod1.CosContinuous {
			l.Mod1Degree = map[int]int{0: 255, 1: 127, 2: 63, 3: 63}[l.DoubleAngle]
		}
		depth := l.Depth()
		if depth > 12 {
			c.Count("mod1:skipped-depth")
			continue
		}
		evm, err := mod1.NewParametersFromLiteral(params, l)
		if err != nil {
			c.Count("mod1:rejected")
			continue
		}
		// the polynomial fits the depth the literal announces: degree < 2^(bits of max(Mod1Degree, 2K-1)), and for the
		// discrete cosine degree <= max(Mod1Degree, 2K-1)
		{
			detail := ""
			bound := l.Mod1Degree
			if l.Mod1Type == mod1.CosDiscrete && 2*l.K-1 > bound {
				bound = 2*l.K - 1
			}
			if d := evm.Mod1Poly.Degree(); d > bound {
				detail = fmt.Sprintf("polynomial of degree %d for Mod1Degree=%d, K=%d", d, l.Mod1Degree, l.K)
			} else if pd := evm.Mod1Poly.Depth() + l.DoubleAngle*b2i(l.Mod1Type != mod1.SinContinuous) + bits.Len64(uint64(l.Mod1InvDegree)); pd > depth {
				detail = fmt.Sprintf("the evaluation needs %d levels, Depth() announces %d", pd, depth)
			}
			c.Probe("mod1_poly_degree", "lit="+lt.name, "C18-mod1-degree", detail)
		}
		K := evm.K - 1
		Q := evm.QDiff * evm.MessageRatio()
		values := make([]float64, params.MaxSlots())
		for i := range values {
			I := math.Round((float64(c.rng.U64()>>11)/float64(1<<53)*2 - 1) * K)
			m := float64(c.rng.U64()>>11)/float64(1<<53)*2 - 1
			values[i] = I*Q + m
		}
		values[0] = K*Q + 0.5
		values[1] = -K*Q - 0.5
		values[2] = 0.25
		prepare := func() *rlwe.Ciphertext {
			pt := ckks.NewPlaintext(params, params.MaxLevel())
			must(ecd.Encode(values, pt))
			ct, err := enc.EncryptNew(pt)
			must(err)
			scale := rlwe.NewScale(math.Exp2(math.Round(math.Log2(float64(params.Q()[0]) / evm.MessageRatio()))))
			scale = scale.Div(ct.Scale)
			must(eval.ScaleUp(ct, rlwe.NewScale(math.Round(scale.Float64())), ct))
			scale = evm.ScalingFactor().Div(ct.Scale)
			scale = scale.Div(rlwe.NewScale(evm.MessageRatio()))
			must(eval.ScaleUp(ct, rlwe.NewScale(math.Round(scale.Float64())), ct))
			must(eval.Mul(ct, 1/(evm.K*evm.QDiff), ct))
			must(eval.Rescale(ct, ct))
			return ct
		}
		want := make([]float64, len(values))
		for i, x := range values {
			x /= Q
			x = math.Sin(2 * math.Pi * x)
			if l.Mod1InvDegree > 0 {
				x = math.Asin(x)
			}
			want[i] = x * Q / (2 * math.Pi)
		}
		ev := mod1.NewEvaluator(eval, polyEval, evm)
		var base float64 // avg log2 precision of the unscaled evaluation
		var have1 []float64
		for _, s := range scalings {
			args := fmt.Sprintf("lit=%s scaling=%d/1024 measured=1", lt.name, int(s*1024))
			detail := ""
			func() {
				defer func() {
					if r := recover(); r != nil {
						detail = fmt.Sprintf("panic: %v", r)
					}
				}()
				var out *rlwe.Ciphertext
				var err error
				if s == 1 {
					out, err = ev.EvaluateNew(prepare())
				} else {
					out, err = ev.EvaluateAndScaleNew(prepare(), complex(s, 0))
				}
				if err != nil {
					detail = "error"
					return
				}
				// levels: the input sits at LevelQ, the step consumes exactly ParametersLiteral.Depth() levels
				// (a polynomial of lower degree than requested may leave a level unused: counted, not a failure)
				if want := l.LevelQ - depth; out.Level() < want {
					detail = fmt.Sprintf("output at level %d, announced LevelQ - Depth() = %d - %d = %d", out.Level(), l.LevelQ, depth, want)
					return
				} else if out.Level() > want {
					c.Count("mod1:level-unused")
				}
				pt := dec.DecryptNew(out)
				have := make([]float64, len(values))
				must(ecd.Decode(pt, have))
				// precision relative to the scaling: log2(1/avg|have/s - want|)
				var sum float64
				for i := range have {
					d := math.Abs(have[i]/s - want[i])
					if d < 1e-300 {
						d = 1e-300
					}
					sum += -math.Log2(d)
				}
				prec := sum / float64(len(have))
				if s != 1 && have1 != nil {
					// tie: the gain of the scaled evaluation over the unscaled one is exactly the scaling (a power of two)
					lo, hi := math.Inf(1), math.Inf(-1)
					for i := range have {
						if math.Abs(have1[i]) > 0.05 {
							r := have[i] / have1[i]
							lo, hi = math.Min(lo, r), math.Max(hi, r)
						}
					}
					g := "inexact"
					if lo > 0 && hi/lo < 1.001 {
						if l := math.Log2(math.Sqrt(lo * hi)); math.Abs(l-math.Round(l)) < 1e-3 {
							g = I(int(math.Round(l)))
						}
					}
					c.Emit(fmt.Sprintf("mod1_gain da=%d inv=%d logs=%d lit=%s", l.DoubleAngle, l.Mod1InvDegree, int(math.Round(math.Log2(s))), lt.name), g)
				}
				if s == 1 {
					have1 = have
					base = prec
					if prec < 10 {
						detail = fmt.Sprintf("EvaluateNew: avg log2 precision %d bits", int(prec))
					}
				} else if prec < base-6 || prec < 10 {
					detail = fmt.Sprintf("EvaluateAndScaleNew: avg log2 precision %d bits relative to the scaling (unscaled evaluation: %d bits)", int(prec), int(base))
				}
			}()
			c.Probe("mod1_step", args, "C18-mod1-step", detail)
		}
	}
}
