package main

// C07 (integer half) — bgv.Encoder: Encode / Decode / EncodeRingT / DecodeRingT.
//
// Tie lines (model: lean/Lattigo/Model/EncoderT.lean, grammar in lean/Driver/C07.lean):
//
//	bgv ringt   t= g= n= scale= kind=u|i vals=                              ⇒ EncodeRingT coefficients | err
//	bgv unringt t= g= n= scale= kind=u|i len= p=<vec>                       ⇒ DecodeRingT values
//	bgv encode  t= g= n= N= qs= scale= batched=0|1 kind=u|i vals=           ⇒ canonical plaintext rows | err
//	bgv decode  t= g= n= N= qs= scale= batched=0|1 kind=u|i len= rows=<mat> ⇒ Decode values
//
// Probes: decode_encode (exact mod t / signed range), encode_mul, level0_large_t.

import (
	"fmt"
	"math"
	"math/big"

	"github.com/tuneinsight/lattigo/v6/core/rlwe"
	"github.com/tuneinsight/lattigo/v6/schemes/bgv"
)

func c07Sets(thorough bool) []*c05Set {
	sets := c05Sets(thorough)
	// plaintext modulus above Q[0]/2 (accepted by bgv.NewParameters: t <= Q[0])
	sets = append(sets, c05NewSet("tNearQ0", 4, []int{30, 30}, 36, c05Prime(30, 32, 6)))
	return sets
}

func (s *c05Set) c07Head() string {
	rt := s.params.RingT()
	return "t=" + U(s.t) + " g=" + U(rt.SubRings[0].PrimitiveRoot) + " n=" + I(rt.N())
}

type c07Vals struct {
	u []uint64
	i []int64
}

func (v c07Vals) kind() string {
	if v.i != nil {
		return "i"
	}
	return "u"
}
func (v c07Vals) tok() string {
	if v.i != nil {
		return c05IVec64(v.i)
	}
	return Vec(v.u)
}
func (v c07Vals) arg() interface{} {
	if v.i != nil {
		return v.i
	}
	return v.u
}
func (v c07Vals) length() int {
	if v.i != nil {
		return len(v.i)
	}
	return len(v.u)
}

// residues mod t of the input vector
func (v c07Vals) residues(t uint64) []uint64 {
	out := make([]uint64, v.length())
	bt := new(big.Int).SetUint64(t)
	for k := range out {
		if v.i != nil {
			out[k] = new(big.Int).Mod(big.NewInt(v.i[k]), bt).Uint64()
		} else {
			out[k] = v.u[k] % t
		}
	}
	return out
}

func (c *Ctx) c07Vector(s *c05Set, signed bool, mode int) c07Vals {
	n := s.n
	t := s.t
	l := n
	switch mode % 4 {
	case 1:
		l = c.rng.Intn(n + 1)
	case 2:
		l = 1
	case 3:
		l = 0
	}
	if signed {
		ti := int64(t)
		b := []int64{0, ti - 1, math.MinInt64, math.MaxInt64, (ti - 1) / 2, -(ti - 1) / 2, -ti, -ti - 1, -1, 1, (ti + 1) / 2, -(ti + 1) / 2, ti, 2 * ti, -2 * ti, math.MinInt64 + 1}
		v := make([]int64, l)
		for k := range v {
			if c.rng.Intn(2) == 0 {
				v[k] = b[c.rng.Intn(len(b))]
			} else {
				v[k] = int64(c.rng.U64())
			}
		}
		return c07Vals{i: v}
	}
	b := []uint64{0, t - 1, 1 << 63, ^uint64(0), (t - 1) / 2, (t + 1) / 2, t, t + 1, 1, 2 * t}
	v := make([]uint64, l)
	for k := range v {
		if c.rng.Intn(2) == 0 {
			v[k] = b[c.rng.Intn(len(b))]
		} else {
			v[k] = c.rng.U64()
		}
	}
	return c07Vals{u: v}
}

func c07Bool(b bool) string {
	if b {
		return "1"
	}
	return "0"
}

func genC07BGV(c *Ctx) {
	sets := c07Sets(c.Thorough())
	reps := c.Scale(3, 30)
	for _, s := range sets {
		c.c07Embed(s, c.Scale(1, 6))
		c.c07Intact(s, c.Scale(1, 8))
		c.c07Constructors(s, c.Scale(1, 6))
		t := s.t
		rt := s.params.RingT()
		rq := s.params.RingQ()
		N := s.params.N()
		L := len(s.qs) - 1
		large := 2*(t-1) >= s.qs[0] // decode at level 0 cannot be exact for all residues
		for rep := 0; rep < reps; rep++ {
			for _, signed := range []bool{false, true} {
				for mode := 0; mode < 4; mode++ {
					vals := c.c07Vector(s, signed, mode)
					scale := c.c05Scale(t)
					// --- EncodeRingT / DecodeRingT
					pT := rt.NewPoly()
					out := Try(func() string {
						if err := s.ecd.EncodeRingT(vals.arg(), s.params.NewScale(scale), pT); err != nil {
							return "err"
						}
						return Vec(pT.Coeffs[0])
					})
					c.Emit("bgv ringt "+s.c07Head()+" scale="+U(scale)+" kind="+vals.kind()+" vals="+vals.tok(), out)
					c.Count("ringt:" + vals.kind())
					// arbitrary reduced polynomial through DecodeRingT
					rnd := rt.NewPoly()
					for k := range rnd.Coeffs[0] {
						rnd.Coeffs[0][k] = c.c05Slot(t)
					}
					lenOut := s.n
					if mode == 1 {
						lenOut = c.rng.Intn(s.n + 1)
					}
					src := append([]uint64(nil), rnd.Coeffs[0]...)
					if signed {
						o := make([]int64, lenOut)
						st := Try(func() string {
							if err := s.ecd.DecodeRingT(rnd, s.params.NewScale(scale), o); err != nil {
								return "err"
							}
							return c05IVec64(o)
						})
						c.Emit("bgv unringt "+s.c07Head()+" scale="+U(scale)+" kind=i len="+I(lenOut)+" p="+Vec(src), st)
					} else {
						o := make([]uint64, lenOut)
						st := Try(func() string {
							if err := s.ecd.DecodeRingT(rnd, s.params.NewScale(scale), o); err != nil {
								return "err"
							}
							return Vec(o)
						})
						c.Emit("bgv unringt "+s.c07Head()+" scale="+U(scale)+" kind=u len="+I(lenOut)+" p="+Vec(src), st)
					}
					c.Count("unringt")

					// --- Encode / Decode at every level, batched and coefficient domain
					for level := 0; level <= L; level++ {
						for _, batched := range []bool{true, false} {
							pt := bgv.NewPlaintext(s.params, level)
							pt.Scale = s.params.NewScale(scale)
							pt.IsBatched = batched
							head := "bgv %s " + s.c07Head() + " N=" + I(N) + " qs=" + Vec(s.qs[:level+1]) + " scale=" + U(scale) + " batched=" + c07Bool(batched)
							var rows [][]uint64
							st := Try(func() string {
								if err := s.ecd.Encode(vals.arg(), pt); err != nil {
									return "err"
								}
								rows = Canon(rq.AtLevel(level), pt.Value, pt.IsNTT, false)
								return Mat(rows)
							})
							c.Emit(fmt.Sprintf(head, "encode")+" kind="+vals.kind()+" vals="+vals.tok(), st)
							c.Count("encode:" + vals.kind() + ":" + c07Bool(batched))
							if st == "err" || st == "panic" {
								continue
							}
							// decode what was encoded (tie + probe)
							want := vals.residues(t)
							du := make([]uint64, s.n)
							di := make([]int64, s.n)
							stU := Try(func() string {
								if err := s.ecd.Decode(pt, du); err != nil {
									return "err"
								}
								return Vec(du)
							})
							c.Emit(fmt.Sprintf(head, "decode")+" kind=u len="+I(s.n)+" rows="+Mat(rows), stU)
							stI := Try(func() string {
								if err := s.ecd.Decode(pt, di); err != nil {
									return "err"
								}
								return c05IVec64(di)
							})
							c.Emit(fmt.Sprintf(head, "decode")+" kind=i len="+I(s.n)+" rows="+Mat(rows), stI)
							c.Count("decode")
							detail := ""
							half := int64((t + 1) / 2)
							for k := 0; k < s.n && detail == ""; k++ {
								w := uint64(0)
								if k < len(want) {
									w = want[k]
								}
								if du[k] != w {
									detail = fmt.Sprintf("slot=%d got=%d want=%d", k, du[k], w)
								}
								m := new(big.Int).Mod(big.NewInt(di[k]), new(big.Int).SetUint64(t)).Uint64()
								if m != w || di[k] > half || di[k] < -half {
									detail = fmt.Sprintf("signed slot=%d got=%d want=%d(mod t) bound=%d", k, di[k], w, half)
								}
							}
							key := "C07-bgv-decode-encode"
							name := "decode_encode"
							if large && level == 0 {
								key, name = "C07-bgv-level0-t-above-half-q0", "level0_large_t"
							}
							c.Probe(name, fmt.Sprintf("%s level=%d scale=%d batched=%v kind=%s len=%d", s.name, level, scale, batched, vals.kind(), vals.length()), key, detail)
						}
					}
				}
			}

			// --- decode of arbitrary plaintext polynomials (boundary coefficients), tie only
			for level := 0; level <= L; level++ {
				rql := rq.AtLevel(level)
				Q := rql.ModulusAtLevel[level]
				// (values whose T-multiple is within ~2^-50·Q of ±Q/2 are excluded: there the float64 quotient
				// estimate of ring.ModUpExact is off by one — far outside any noise budget)
				pool := []*big.Int{big.NewInt(0), big.NewInt(1), new(big.Int).Sub(Q, big.NewInt(1)), new(big.Int).Rsh(Q, 2),
					new(big.Int).Sub(Q, new(big.Int).Rsh(Q, 2)), big.NewInt(12345), new(big.Int).Sub(Q, big.NewInt(12345))}
				co := make([]*big.Int, N)
				for k := range co {
					if c.rng.Intn(3) == 0 {
						co[k] = pool[c.rng.Intn(len(pool))]
					} else {
						x := new(big.Int).SetBytes(c.rng.Bytes(40))
						co[k] = x.Mod(x, Q)
					}
				}
				pt := bgv.NewPlaintext(s.params, level)
				scale := c.c05Scale(t)
				pt.Scale = s.params.NewScale(scale)
				rql.SetCoefficientsBigint(co, pt.Value)
				rows := Canon(rql, pt.Value, false, false)
				rql.NTT(pt.Value, pt.Value)
				for _, batched := range []bool{true, false} {
					pt.IsBatched = batched
					du := make([]uint64, s.n)
					st := Try(func() string {
						if err := s.ecd.Decode(pt, du); err != nil {
							return "err"
						}
						return Vec(du)
					})
					c.Emit("bgv decode "+s.c07Head()+" N="+I(N)+" qs="+Vec(s.qs[:level+1])+" scale="+U(scale)+" batched="+c07Bool(batched)+" kind=u len="+I(s.n)+" rows="+Mat(rows), st)
					c.Count("decode-arbitrary")
				}
			}

			// --- modupexact_zone: the tie lines above avoid plaintext coefficients x whose T-multiple is within
			// 2^-40·Q of ±Q/2, where the float64 quotient estimate of ring.ModUpExact (level > 0, gap = 1) may be
			// off by one.  This probe pins the exclusion down: OUTSIDE that zone Decode must equal the exact
			// centred value of T·x mod Q reduced mod t (inside the zone nothing is asserted, mismatches are counted).
			if rep == 0 && N == rt.N() {
				for level := 1; level <= L; level++ {
					rql := rq.AtLevel(level)
					Q := rql.ModulusAtLevel[level]
					h := new(big.Int).Rsh(Q, 1)
					tB := new(big.Int).SetUint64(t)
					tInv := new(big.Int).ModInverse(tB, Q)
					detail := ""
					for k := 0; k < Q.BitLen()-2 && detail == ""; k++ {
						d := new(big.Int).Lsh(big.NewInt(1), uint(k))
						for _, sgn := range []int{1, -1} {
							// centred target y = ±(Q/2 − 2^k); coefficient x = y·T^-1 mod Q
							y := new(big.Int).Sub(h, d)
							if sgn < 0 {
								y.Neg(y)
							}
							x := new(big.Int).Mul(y, tInv)
							x.Mod(x, Q)
							co := make([]*big.Int, N)
							for i := range co {
								co[i] = x
							}
							pt := bgv.NewPlaintext(s.params, level)
							pt.IsBatched = false
							rql.SetCoefficientsBigint(co, pt.Value)
							rql.NTT(pt.Value, pt.Value)
							du := make([]uint64, s.n)
							if err := s.ecd.Decode(pt, du); err != nil {
								panic(err)
							}
							want := new(big.Int).Mod(y, tB).Uint64()
							if du[0] != want {
								if 40+k >= Q.BitLen() {
									detail = fmt.Sprintf("level=%d distance=2^%d sign=%d got=%d want=%d", level, k, sgn, du[0], want)
								} else {
									c.Count("modupexact-inexact-inside-zone")
								}
							}
						}
					}
					c.Probe("modupexact_zone", fmt.Sprintf("%s level=%d logQ=%d", s.name, level, Q.BitLen()), "C07-bgv-modupexact-inexact-outside-boundary-zone", detail)
				}
			}

			// --- encode_mul: the product of two encodings decodes to the slot-wise product
			for level := 0; level <= L; level++ {
				if 2*s.lt+float64(s.logN)+2 > s.logQ[level] {
					continue
				}
				s1, s2 := c.c05Scale(t), c.c05Scale(t)
				a, b := c.c05NewPt(s, level, s1), c.c05NewPt(s, level, s2)
				rql := rq.AtLevel(level)
				prod := bgv.NewPlaintext(s.params, level)
				rql.MulCoeffsBarrett(a.pt.Value, b.pt.Value, prod.Value)
				rql.MulScalar(prod.Value, t, prod.Value) // both factors carry T^-1
				prod.Scale = s.params.NewScale(c05MulMod(s1, s2, t))
				got := s.decodePt(prod)
				detail := ""
				for k := range got {
					if got[k] != c05MulMod(a.want[k], b.want[k], t) {
						detail = fmt.Sprintf("slot=%d got=%d want=%d", k, got[k], c05MulMod(a.want[k], b.want[k], t))
						break
					}
				}
				c.Probe("encode_mul", fmt.Sprintf("%s level=%d s1=%d s2=%d", s.name, level, s1, s2), "C07-bgv-encode-mul", detail)
			}
		}
	}
	_ = rlwe.NewScale
}
