package main

// C08: receivers allocated by the LIBRARY's own constructors. ReadFrom reuses the receiver's
// slices whenever their capacity suffices, so what a constructor hands out matters: rows that
// share one allocation with a capacity running over the next rows would let the decoder of
// limb i+1 overwrite the tail of limb i.
//   * rows_disjoint : in every freshly constructed object, the capacity ranges of all []uint64
//     rows are pairwise disjoint (found by reflection, so every poly of every type is covered);
//   * library_receiver : every poly-holding type, encoded at one (N, levelQ, levelP, degree),
//     decoded into a constructor-allocated receiver of every other shape (smaller and larger ring
//     degree, level, degree), result compared with the original; `into` ties for the model.

import (
	"fmt"
	"reflect"
	"sort"

	"github.com/tuneinsight/lattigo/v6/core/rgsw"
	"github.com/tuneinsight/lattigo/v6/core/rlwe"
	"github.com/tuneinsight/lattigo/v6/multiparty"
	"github.com/tuneinsight/lattigo/v6/ring"
)

type c08Shape struct {
	p          rlwe.Parameters
	pn         string
	lq, lp, dg int
}

func (s c08Shape) String() string { return fmt.Sprintf("%s-LQ%d-LP%d-deg%d", s.pn, s.lq, s.lp, s.dg) }

type c08Family struct {
	ty, goType string
	mk         func(s c08Shape) c08Obj // allocated by the library constructor, not filled
	usesP      bool
	usesDeg    bool
}

func (g *c08Gen) families() []c08Family {
	evkp := func(s c08Shape) rlwe.EvaluationKeyParameters {
		lq, lp := s.lq, s.lp
		return rlwe.EvaluationKeyParameters{LevelQ: &lq, LevelP: &lp, Compressed: s.dg == 0}
	}
	return []c08Family{
		{"poly", "ring.Poly", func(s c08Shape) c08Obj { p := ring.NewPoly(s.p.N(), s.lq); return &p }, false, false},
		{"poly", "ring.Poly", func(s c08Shape) c08Obj { p := s.p.RingQ().AtLevel(s.lq).NewPoly(); return &p }, false, false},
		{"polyqp", "ringqp.Poly", func(s c08Shape) c08Obj { p := s.p.RingQP().AtLevel(s.lq, s.lp).NewPoly(); return &p }, true, false},
		{"ct", "rlwe.Ciphertext", func(s c08Shape) c08Obj { return rlwe.NewCiphertext(s.p, s.dg, s.lq) }, false, true},
		{"pt", "rlwe.Plaintext", func(s c08Shape) c08Obj { return rlwe.NewPlaintext(s.p, s.lq) }, false, false},
		{"elqp", "rlwe.Element[ringqp.Poly]", func(s c08Shape) c08Obj { return rlwe.NewElementExtended(s.p, s.dg, s.lq, s.lp) }, true, true},
		{"vecqp", "rlwe.VectorQP", func(s c08Shape) c08Obj { v := rlwe.NewVectorQP(s.p, s.dg+1, s.lq, s.lp); return &v }, true, true},
		{"sk", "rlwe.SecretKey", func(s c08Shape) c08Obj { return rlwe.NewSecretKey(s.p) }, false, false},
		{"pk", "rlwe.PublicKey", func(s c08Shape) c08Obj { return rlwe.NewPublicKey(s.p) }, false, false},
		{"gct", "rlwe.GadgetCiphertext", func(s c08Shape) c08Obj { return rlwe.NewGadgetCiphertext(s.p, s.dg%2, s.lq, s.lp, 0) }, true, true},
		{"evk", "rlwe.EvaluationKey", func(s c08Shape) c08Obj {
			k := rlwe.NewEvaluationKey(s.p, evkp(s))
			if k.IsCompressed() {
				k.Seed = new([32]byte)
			}
			return k
		}, true, true},
		{"rlk", "rlwe.RelinearizationKey", func(s c08Shape) c08Obj {
			k := rlwe.NewRelinearizationKey(s.p, evkp(s))
			if k.IsCompressed() {
				k.Seed = new([32]byte)
			}
			return k
		}, true, true},
		{"gk", "rlwe.GaloisKey", func(s c08Shape) c08Obj {
			k := rlwe.NewGaloisKey(s.p, evkp(s))
			if k.IsCompressed() {
				k.Seed = new([32]byte)
			}
			k.GaloisElement = 5
			return k
		}, true, true},
		{"rgsw", "rgsw.Ciphertext", func(s c08Shape) c08Obj { return rgsw.NewCiphertext(s.p, s.lq, s.lp, 0) }, true, false},
		{"ksshare", "multiparty.KeySwitchShare", func(s c08Shape) c08Obj {
			return &multiparty.KeySwitchShare{Value: s.p.RingQ().AtLevel(s.lq).NewPoly()}
		}, false, false},
		{"cpkshare", "multiparty.PublicKeyGenShare", func(s c08Shape) c08Obj {
			sh := multiparty.NewPublicKeyGenProtocol(s.p).AllocateShare()
			return &sh
		}, false, false},
		{"shamirshare", "multiparty.ShamirSecretShare", func(s c08Shape) c08Obj {
			return &multiparty.ShamirSecretShare{Poly: s.p.RingQP().AtLevel(s.lq, s.lp).NewPoly()}
		}, true, false},
		{"evkshare", "multiparty.EvaluationKeyGenShare", func(s c08Shape) c08Obj {
			return &multiparty.EvaluationKeyGenShare{GadgetCiphertext: *rlwe.NewGadgetCiphertext(s.p, 0, s.lq, s.lp, 0)}
		}, true, false},
		{"refreshshare", "multiparty.RefreshShare", func(s c08Shape) c08Obj {
			return &multiparty.RefreshShare{EncToShareShare: multiparty.KeySwitchShare{Value: s.p.RingQ().AtLevel(s.lq).NewPoly()},
				ShareToEncShare: multiparty.KeySwitchShare{Value: s.p.RingQ().AtLevel(s.p.MaxLevel()).NewPoly()}}
		}, false, false},
	}
}

// c08Rows collects every []uint64 reachable in v.
func c08Rows(v reflect.Value, out *[]reflect.Value, depth int) {
	if depth > 12 {
		return
	}
	switch v.Kind() {
	case reflect.Ptr, reflect.Interface:
		if !v.IsNil() {
			c08Rows(v.Elem(), out, depth+1)
		}
	case reflect.Struct:
		if v.Type().PkgPath() == "math/big" {
			return
		}
		for i := 0; i < v.NumField(); i++ {
			c08Rows(v.Field(i), out, depth+1)
		}
	case reflect.Slice:
		if v.Type().Elem().Kind() == reflect.Uint64 {
			if v.Cap() > 0 {
				*out = append(*out, v)
			}
			return
		}
		for i := 0; i < v.Len(); i++ {
			c08Rows(v.Index(i), out, depth+1)
		}
	case reflect.Array:
		if v.Type().Elem().Kind() == reflect.Uint8 {
			return
		}
		for i := 0; i < v.Len(); i++ {
			c08Rows(v.Index(i), out, depth+1)
		}
	case reflect.Map:
		it := v.MapRange()
		for it.Next() {
			c08Rows(it.Value(), out, depth+1)
		}
	}
}

// c08Overlap: "" when the capacity ranges of all rows of o are pairwise disjoint.
func c08Overlap(o interface{}) string {
	var rows []reflect.Value
	c08Rows(reflect.ValueOf(o), &rows, 0)
	type rg struct {
		lo, hi uintptr
		ln     int
	}
	rs := make([]rg, 0, len(rows))
	for _, r := range rows {
		lo := r.Pointer()
		rs = append(rs, rg{lo, lo + uintptr(r.Cap())*8, r.Len()})
	}
	sort.Slice(rs, func(i, j int) bool { return rs[i].lo < rs[j].lo })
	for i := 1; i < len(rs); i++ {
		if rs[i].lo < rs[i-1].hi && rs[i].lo != rs[i-1].lo {
			return fmt.Sprintf("%d rows; a row of length %d has capacity %d words and runs %d words into the next row (rows share one allocation without a capacity bound)",
				len(rs), rs[i-1].ln, (rs[i-1].hi-rs[i-1].lo)/8, (rs[i-1].hi-rs[i].lo)/8)
		}
	}
	return ""
}

func (g *c08Gen) fillRows(o interface{}) {
	var rows []reflect.Value
	c08Rows(reflect.ValueOf(o), &rows, 0)
	for _, r := range rows {
		g.fillVec(r.Interface().([]uint64))
	}
}

func (g *c08Gen) probeLibraryReceivers() {
	c := g.c
	pD := c08MustParams(4, []int{30, 30, 30}, []int{31, 31}) // N = 16, three Q limbs, two P limbs
	var shapes []c08Shape
	for _, ps := range []struct {
		p rlwe.Parameters
		n string
	}{{pD, "N16"}, {g.pC, "N32"}} {
		for _, lq := range []int{0, 2} {
			for _, lp := range []int{0, 1} {
				for _, dg := range []int{0, 1, 2} {
					shapes = append(shapes, c08Shape{ps.p, ps.n, lq, lp, dg})
				}
			}
		}
	}
	const kOverlap = "C08/ring.NewPoly/rows-share-capacity"
	for _, fam := range g.families() {
		// distinct shapes for this family
		var shs []c08Shape
		seen := map[string]bool{}
		for _, s := range shapes {
			k := fmt.Sprintf("%s-%d", s.pn, s.lq)
			if fam.usesP {
				k += fmt.Sprintf("-%d", s.lp)
			}
			if fam.usesDeg {
				k += fmt.Sprintf("-%d", s.dg)
			}
			if fam.goType == "rlwe.SecretKey" || fam.goType == "rlwe.PublicKey" || fam.goType == "multiparty.PublicKeyGenShare" {
				k = s.pn // constructors without level arguments
			}
			if !seen[k] {
				seen[k] = true
				shs = append(shs, s)
			}
		}
		spec := c08Spec{ty: fam.ty, goType: fam.goType}
		// structure of what the constructor hands out
		for _, s := range shs {
			var o c08Obj
			if cls := c08Call(func() error { o = fam.mk(s); return nil }); cls != "ok" {
				c.Probe("rows_disjoint", fam.goType+" "+s.String(), c08Key(fam.goType, "constructor", "panic"), "constructor "+cls)
				continue
			}
			c.Probe("rows_disjoint", fam.goType+" "+s.String(), kOverlap, c08Overlap(o))
		}
		// every object shape into every other receiver shape
		for i, so := range shs {
			obj := fam.mk(so)
			g.fillRows(obj)
			tree := c08Render(obj)
			enc, _, cls := c08Write(obj, "WriteTo(bufio.Writer)+Flush")
			if cls != "ok" {
				continue
			}
			detail, k := "", ""
			tied := 0
			extra := map[int]bool{g.rng.Intn(len(shs)): true, g.rng.Intn(len(shs)): true}
			for j, sr := range shs {
				if j == i {
					continue
				}
				// quick tier: the receivers of the OTHER ring degree with the most limbs (smaller and
				// larger rows than the object's), plus two random shapes; thorough: every shape
				if !c.Thorough() && !(sr.pn != so.pn && sr.lq == 2) && !extra[j] {
					continue
				}
				for _, e := range []string{"ReadFrom(bufio.Reader)", "UnmarshalBinary"} {
					recv := fam.mk(sr)
					g.fillRows(recv)
					recvTree := ""
					if e == "ReadFrom(bufio.Reader)" && (c.Thorough() || tied < 2) && len(enc) <= 6000 {
						recvTree = c08RenderSafe(recv)
					}
					n, cls := c08Read(recv, e, enc, nil)
					if recvTree != "" && recvTree != "render-panic" {
						tied++
						out := cls
						if cls == "ok" {
							out = "ok " + I(int(n)) + " " + c08RenderSafe(recv)
						}
						c.Emit("into "+fam.ty+" "+recvTree+" "+Hex(enc), out)
					}
					d, kk := g.checkDecoded(spec, e, recv, n, cls, tree, len(enc), e != "UnmarshalBinary", false)
					if d != "" && detail == "" {
						if ov := c08Overlap(fam.mk(sr)); ov != "" {
							kk = kOverlap
						}
						detail, k = fmt.Sprintf("into a constructor-allocated receiver %s via %s: %s", sr, e, d), kk
					}
				}
			}
			c.Probe("library_receiver", fmt.Sprintf("%s %s into %d other shapes", fam.goType, so, len(shs)-1), k, detail)
		}
	}
}
