package main

// C20: blindrot.InitTestPolynomial on chains with large primes (55-61 bits, 2 and 3 limbs) and large scales (up to
// Q/4 >> 2^53), function tables with extreme values.  Tie `testpoly` (the model: the float64 pipeline of scaleUp in
// exact arithmetic); probe testpoly_limbs: every limb of every coefficient is the residue modulo q_i of THE SAME
// integer X = trunc(fl(fl(scale*|g|) + 0.5)) (computed here with big.Float at precision 53 and reduced with
// big.Int), negated for a negative value.

import (
	"fmt"
	"math"
	"math/big"

	"github.com/tuneinsight/lattigo/v6/core/rgsw/blindrot"
	"github.com/tuneinsight/lattigo/v6/core/rlwe"
)

func c20RefScaleUp(value, scale float64, q uint64) uint64 {
	neg := value < 0
	var x *big.Float
	if neg {
		x = big.NewFloat(-scale * value)
	} else {
		x = big.NewFloat(scale * value)
	}
	x.SetPrec(53)
	x.Add(x, big.NewFloat(0.5))
	X, _ := x.Int(nil)
	r := new(big.Int).Mod(X, new(big.Int).SetUint64(q)).Uint64()
	if neg && r != 0 {
		r = q - r
	}
	return r
}

func c20GenTestPoly(c *Ctx) {
	pg := newC20PrimeGen()
	chains := [][]int{{55, 55}, {61, 60}, {55, 58, 61}}
	if c.Thorough() {
		chains = append(chains, []int{30, 61}, []int{56, 57}, []int{61, 61, 61}, []int{53, 54}, []int{27}, []int{60})
	}
	for ci, bq := range chains {
		var Q []uint64
		for _, b := range bq {
			Q = append(Q, pg.next(b, 32, -1))
		}
		ps, err := c20NewPS(4, Q, nil)
		if err != nil {
			c.Count("tp:params-rejected")
			continue
		}
		N := ps.N()
		Qb := c20ProdBig(Q)
		qf, _ := new(big.Float).SetInt(Qb).Float64()
		scales := []float64{qf / 4, qf / 8, float64(Q[0]), math.Exp2(60), 1e15, 12345.678}
		if c.Thorough() {
			scales = append(scales, qf/16, float64(Q[0])*3, math.Exp2(53), math.Exp2(53)+2, 1)
		}
		tab := make([]float64, N+1)
		ext := []float64{1, -1, 1 - math.Exp2(-52), -(1 - math.Exp2(-53)), 0.5, -0.5, 1e-300, -1e-300, math.Copysign(0, -1), 0, 0.999999999, -0.75}
		for i := range tab {
			if i < len(ext) {
				tab[i] = ext[i]
			} else {
				tab[i] = float64(int64(c.rng.Intn(2000001))-1000000) / 1000000.0
			}
		}
		table := func(x float64) float64 {
			k := int(math.Round((x + 1) * float64(N) / 2))
			if k < 0 {
				k = 0
			}
			if k > N {
				k = N
			}
			return tab[k]
		}
		fns := []c20Fn{
			{"sign", c20Sign, -1, 1, true},
			{"identity", func(x float64) float64 { return x }, -1, 1, true},
			{"extreme-table", table, -1, 1, false},
			{"affine04", func(x float64) float64 { return x/4 - 0.25 }, 0, 4, false},
		}
		for si, scale := range scales {
			for fi, fn := range fns {
				if !c.Thorough() && (si+fi+ci)%2 == 1 {
					continue
				}
				F := blindrot.InitTestPolynomial(fn.f, rlwe.NewScale(scale), ps.params.RingQ(), fn.a, fn.b)
				rows := ps.canonQ(F, len(Q)-1, true, false)
				interval := 2.0 / float64(N)
				norm := func(x float64) float64 { return (x*(fn.b-fn.a) + fn.b + fn.a) / 2.0 }
				vals := make([]uint64, N)
				fv := make([]float64, N)
				for i := 0; i < N; i++ {
					if i <= N/2 {
						fv[i] = fn.f(norm(-interval * float64(i)))
					} else {
						fv[i] = -fn.f(norm(interval * float64(N-i)))
					}
					vals[i] = math.Float64bits(fv[i])
				}
				c.Emit(fmt.Sprintf("testpoly n=%d Q=%s scale=%d vals=%s", N, Vec(Q), math.Float64bits(scale), Vec(vals)), Mat(rows))
				detail := ""
				for i := 0; i < N && detail == ""; i++ {
					for k, q := range Q {
						want := c20RefScaleUp(fv[i], scale, q)
						if rows[k][i] != want {
							detail = fmt.Sprintf("coefficient %d limb %d (q=%d): %d, but round(g*scale) mod q = %d (g=%g scale=%g)", i, k, q, rows[k][i], want, fv[i], scale)
							break
						}
					}
				}
				c.Probe("testpoly_limbs", fmt.Sprintf("n=%d Q=%s scaleBits=%d fn=%s seed=%d line=%d", N, Vec(Q), math.Float64bits(scale), fn.name, c.Seed, c.N), "testpoly-limbs", detail)
				c.Count(fmt.Sprintf("tp:limbs=%d scale>=2^53:%v", len(Q), scale >= math.Exp2(53)))
			}
		}
	}
}
