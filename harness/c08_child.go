package main

// C08: sacrificial child process. Decoding malformed input with the unmodified entry
// points can kill the process (stack overflow from unbounded recursion, out of memory
// from an unchecked length), which `recover` cannot catch. Such calls are made in a child
// (this same binary re-executed with VERIF_C08_CHILD=1, bounded stack and address space);
// the parent maps a dead child to the class `crash:<reason>`.

import (
	"bufio"
	"bytes"
	"encoding/hex"
	"fmt"
	"hash/fnv"
	"io"
	"os"
	"os/exec"
	"runtime"
	"runtime/debug"
	"strings"
	"syscall"

	"github.com/tuneinsight/lattigo/v6/utils/buffer"
)

func init() {
	if os.Getenv("VERIF_C08_CHILD") == "" {
		return
	}
	c08ChildMain()
	os.Exit(0)
}

const c08ChildAS = 2 << 30 // address-space limit of the child

func c08ChildMain() {
	debug.SetMaxStack(4 << 20)
	lim := syscall.Rlimit{Cur: c08ChildAS, Max: c08ChildAS}
	_ = syscall.Setrlimit(syscall.RLIMIT_AS, &lim)
	in := bufio.NewReaderSize(os.Stdin, 1<<20)
	out := bufio.NewWriter(os.Stdout)
	for {
		line, err := in.ReadString('\n')
		if line == "" && err != nil {
			return
		}
		toks := strings.Fields(line)
		if len(toks) != 3 {
			fmt.Fprintln(out, "bad")
			out.Flush()
			continue
		}
		data, _ := hex.DecodeString(toks[2])
		fmt.Fprintln(out, c08Decode(toks[0], toks[1], data))
		out.Flush()
	}
}

// c08SeqPlain reads k objects one after the other from ONE plain io.Reader (every ReadFrom
// wraps it into its own bufio.Reader). Returns "ok <n1,n2,..> <fnv of the rendered objects>"
// or "<class>@<index>". Runs in the child: after an over-read the next decode starts in the
// middle of the stream and may allocate without bound.
func c08SeqPlain(goType string, k int, data []byte) string {
	mk, ok := c08Fresh[goType]
	if !ok {
		return "bad"
	}
	rd := &c08ChunkReader{data: data, sizes: []int{1 << 30}}
	h := fnv.New64a()
	var ns []string
	for j := 0; j < k; j++ {
		o := mk()
		var n int64
		if cls := c08Call(func() (err error) { n, err = o.ReadFrom(rd); return }); cls != "ok" {
			return fmt.Sprintf("%s@%d", cls, j+1)
		}
		ns = append(ns, fmt.Sprint(n))
		h.Write([]byte(c08RenderSafe(o)))
		h.Write([]byte{0})
	}
	return fmt.Sprintf("ok %s %016x", strings.Join(ns, ","), h.Sum64())
}

// c08ReadSized decodes data through a caller-supplied bufio.Reader whose buffer has `size`
// bytes (any size is a legitimate buffer.Reader). Returns "ok <n> <fnv of the rendered
// object>" or the outcome class. In the child: if the reader loses bytes, the decoder goes on
// with garbage lengths.
func c08ReadSized(goType string, size int, data []byte) string {
	mk, ok := c08Fresh[goType]
	if !ok {
		return "bad"
	}
	o := mk()
	var n int64
	cls := c08Call(func() (err error) {
		n, err = o.ReadFrom(bufio.NewReaderSize(bytes.NewReader(data), size))
		return
	})
	if cls != "ok" {
		return cls
	}
	h := fnv.New64a()
	h.Write([]byte(c08RenderSafe(o)))
	return fmt.Sprintf("ok %d %016x", n, h.Sum64())
}

// c08Decode decodes data into a fresh object of goType through the named entry point.
func c08Decode(goType, entry string, data []byte) string {
	if strings.HasPrefix(entry, "SeqPlain:") {
		k := 0
		fmt.Sscan(strings.TrimPrefix(entry, "SeqPlain:"), &k)
		return c08SeqPlain(goType, k, data)
	}
	if strings.HasPrefix(entry, "ReadFromSized:") {
		sz := 0
		fmt.Sscan(strings.TrimPrefix(entry, "ReadFromSized:"), &sz)
		return c08ReadSized(goType, sz, data)
	}
	mk, ok := c08Fresh[goType]
	if !ok {
		return "bad"
	}
	o := mk()
	var n int64
	debug.FreeOSMemory() // same heap state for every case: outcomes do not depend on history
	var m0, m1 runtime.MemStats
	runtime.ReadMemStats(&m0)
	cls := c08Call(func() (err error) {
		switch entry {
		case "UnmarshalBinary":
			n = int64(len(data))
			return o.UnmarshalBinary(data)
		case "ReadFrom(buffer.Buffer)":
			n, err = o.ReadFrom(buffer.NewBuffer(data))
		case "ReadFrom(bufio.Reader)":
			n, err = o.ReadFrom(bufio.NewReader(bytes.NewReader(data)))
		case "ReadFrom(io.Reader)":
			n, err = o.ReadFrom(&c08ChunkReader{data: data, sizes: []int{1 << 30}})
		default:
			return fmt.Errorf("bad entry")
		}
		return
	})
	runtime.ReadMemStats(&m1)
	if cls == "ok" {
		return fmt.Sprintf("ok %d", n)
	}
	if cls == "err" {
		return fmt.Sprintf("err %d", m1.TotalAlloc-m0.TotalAlloc)
	}
	return cls
}

type c08Child struct {
	cmd    *exec.Cmd
	in     io.WriteCloser
	out    *bufio.Reader
	stderr *bytes.Buffer
	spawns int
}

func (c *c08Child) start() error {
	exe, err := os.Executable()
	if err != nil {
		return err
	}
	c.cmd = exec.Command(exe)
	c.cmd.Env = append(os.Environ(), "VERIF_C08_CHILD=1", "GOTRACEBACK=none")
	c.stderr = &bytes.Buffer{}
	c.cmd.Stderr = &c08Capped{w: c.stderr, max: 1 << 14}
	if c.in, err = c.cmd.StdinPipe(); err != nil {
		return err
	}
	so, err := c.cmd.StdoutPipe()
	if err != nil {
		return err
	}
	c.out = bufio.NewReader(so)
	c.spawns++
	return c.cmd.Start()
}

type c08Capped struct {
	w   *bytes.Buffer
	max int
}

func (c *c08Capped) Write(p []byte) (int, error) {
	if room := c.max - c.w.Len(); room > 0 {
		if len(p) < room {
			room = len(p)
		}
		c.w.Write(p[:room])
	}
	return len(p), nil
}

func (c *c08Child) stop() {
	if c.cmd != nil {
		c.in.Close()
		_ = c.cmd.Wait()
		c.cmd = nil
	}
}

// run returns "ok <n>", "err <bytes allocated>", "panic:<kind>", or "crash:<reason>".
// A dead child is only believed if the same case also kills a FRESH child: the address-space
// limit counts virtual memory, which a long-lived child accumulates (Go does not unmap heap
// arenas), so that late cases could otherwise die of the history instead of their input.
func (c *c08Child) run(goType, entry string, data []byte) string {
	res := c.run1(goType, entry, data)
	if strings.HasPrefix(res, "crash") {
		res = c.run1(goType, entry, data) // c.cmd is nil: fresh child
	}
	if toks := strings.Fields(res); len(toks) == 2 && toks[0] == "err" {
		var alloc uint64
		fmt.Sscan(toks[1], &alloc)
		if alloc > 128<<20 {
			c.stop() // next case starts from a fresh address space
		}
	}
	return res
}

func (c *c08Child) run1(goType, entry string, data []byte) string {
	if c.cmd == nil {
		if err := c.start(); err != nil {
			return "spawn-failed"
		}
	}
	h := hex.EncodeToString(data)
	if h == "" {
		h = "-"
	}
	if _, err := fmt.Fprintf(c.in, "%s %s %s\n", goType, entry, h); err == nil {
		if line, err := c.out.ReadString('\n'); err == nil {
			return strings.TrimSpace(line)
		}
	}
	// the child died
	c.in.Close()
	_ = c.cmd.Wait()
	msg := c.stderr.String()
	c.cmd = nil
	switch {
	case strings.Contains(msg, "stack overflow") || strings.Contains(msg, "stack exceeds"):
		return "crash:stack-overflow"
	case strings.Contains(msg, "out of memory") || strings.Contains(msg, "cannot allocate") || strings.Contains(msg, "pthread_create failed") || strings.Contains(msg, "failed to create new OS thread"):
		return "crash:out-of-memory"
	}
	if os.Getenv("VERIF_DEBUG") != "" {
		fmt.Fprintf(os.Stderr, "[c08 child died] %s %s: %q\n", goType, entry, msg)
	}
	return "crash"
}
