package main

// C01, conjugate-invariant ring / ring construction / cross-ring state.
//
// Three families of checks, all appended to the C01 generator (see init):
//
//	A. ring construction: which (degree, NthRoot, moduli) every public constructor and Ring.UnmarshalJSON
//	   accept.  The contract (doc comments of ring/ring.go): N a power of two >= 8, a non-empty chain of
//	   distinct primes, each = 1 mod NthRoot; anything else is refused WITH AN ERROR.  Accepted rings must
//	   transform correctly (psi primitive, INTT(NTT(a)) = a, NTT product = schoolbook product).  The
//	   predicate is stated in Lean (Driver.C01.accept, Props/C01CI.lean) and tied by the op `accept`.
//	B. NTT / NTTLazy / INTT / INTTLazy of both ring types against an exact evaluation of the polynomial
//	   (own 128-bit modular arithmetic, math/bits), on inputs drawn from the FULL documented input range
//	   and checked against the documented output range (both read from the doc comments of the
//	   repository under test).
//	C. history: rings of both types / equal degree / different moduli and levels used interleaved in one
//	   process; every result is compared with a reference that does not use the library, so a result that
//	   depends on which other ring was used before is a failing probe (C01/cross-ring-state).
//
// Nothing here uses the library to compute an expected value, except the choice of the primitive root g
// (SubRing.PrimitiveRoot), whose primitivity is what psi^(NthRoot/2) = -1 re-checks.

import (
	"encoding/json"
	"fmt"
	"go/ast"
	"go/parser"
	"go/token"
	"math/big"
	"math/bits"
	"path/filepath"
	"regexp"
	"strconv"
	"strings"
	"time"

	"github.com/tuneinsight/lattigo/v6/ring"
	"github.com/tuneinsight/lattigo/v6/ring/ringqp"
)

func init() {
	prev := generators["C01"]
	generators["C01"] = func(c *Ctx) {
		prev(c)
		genC01CI(c)
	}
}

func genC01CI(c *Ctx) {
	c01ciConstruction(c)
	c01ciTransforms(c)
	c01ciHistory(c)
	c01ciHistoryCrossDegree(c)
}

// ---- exact modular arithmetic (no library code) ---------------------------------------------

func c01ciMulMod(a, b, q uint64) uint64 {
	a %= q
	b %= q
	hi, lo := bits.Mul64(a, b)
	_, r := bits.Div64(hi, lo, q)
	return r
}

func c01ciAddMod(a, b, q uint64) uint64 {
	a %= q
	b %= q
	s, carry := bits.Add64(a, b, 0)
	if carry != 0 || s >= q {
		s -= q
	}
	return s
}

func c01ciSubMod(a, b, q uint64) uint64 { return c01ciAddMod(a, q-b%q, q) }

func c01ciPowMod(x, e, q uint64) uint64 {
	r := uint64(1) % q
	x %= q
	for ; e > 0; e >>= 1 {
		if e&1 == 1 {
			r = c01ciMulMod(r, x, q)
		}
		x = c01ciMulMod(x, x, q)
	}
	return r
}

func c01ciIsPrime(q uint64) bool { return new(big.Int).SetUint64(q).ProbablyPrime(1) }

func c01ciBrv(i uint64, nbits int) uint64 {
	if nbits == 0 {
		return 0
	}
	return bits.Reverse64(i) >> uint(64-nbits)
}

func c01ciLog2(n int) int { return bits.Len64(uint64(n)) - 1 }

// c01ciPrimeNear returns the largest prime p <= limit with p = res (mod m), searching downwards
// (0 if none above m).  Own search: the library's prime generator is not involved.
func c01ciPrimeNear(limit, m, res uint64) uint64 {
	if limit < res {
		return 0
	}
	p := limit - (limit-res)%m
	for ; p > m; p -= m {
		if c01ciIsPrime(p) {
			return p
		}
	}
	return 0
}

// c01ciPrimeAbove returns the smallest prime p >= from with p = res (mod m).
func c01ciPrimeAbove(from, m, res uint64) uint64 {
	p := from + (m+res-from%m)%m
	for ; p < 1<<62; p += m {
		if c01ciIsPrime(p) {
			return p
		}
	}
	return 0
}

// c01ciGoodPrimes: primes = 1 (mod nthRoot) of the given bit sizes (the top of each size) plus the
// smallest one; deduplicated, in the order asked.
func c01ciGoodPrimes(nthRoot uint64, sizes []int) []uint64 {
	var out []uint64
	seen := map[uint64]bool{}
	add := func(p uint64) {
		if p != 0 && !seen[p] && bits.Len64(p) <= 61 {
			seen[p] = true
			out = append(out, p)
		}
	}
	for _, b := range sizes {
		if b == 0 {
			add(c01ciPrimeAbove(nthRoot+1, nthRoot, 1))
			continue
		}
		if uint64(1)<<uint(b-1) <= nthRoot {
			continue
		}
		add(c01ciPrimeNear(uint64(1)<<uint(b)-1, nthRoot, 1))
	}
	return out
}

// c01ciHalfPrimes: primes = 1 (mod nthRoot/2) and NOT = 1 (mod nthRoot).
func c01ciHalfPrimes(nthRoot uint64, sizes []int) []uint64 {
	var out []uint64
	seen := map[uint64]bool{}
	h := nthRoot / 2
	for _, b := range sizes {
		var p uint64
		if b == 0 {
			p = c01ciPrimeAbove(h+1, nthRoot, h+1)
		} else if uint64(1)<<uint(b-1) > nthRoot {
			p = c01ciPrimeNear(uint64(1)<<uint(b)-1, nthRoot, h+1)
		}
		if p != 0 && !seen[p] && bits.Len64(p) <= 61 {
			seen[p] = true
			out = append(out, p)
		}
	}
	return out
}

// ---- the rings as mathematical objects ---------------------------------------------------------

type c01ciKind int

const (
	c01ciStd c01ciKind = iota
	c01ciCI
)

func (k c01ciKind) String() string {
	if k == c01ciCI {
		return "ci"
	}
	return "std"
}

func (k c01ciKind) Upper() string { return strings.ToUpper(k.String()) }

// natural order of the root of unity: 2N (standard), 4N (conjugate invariant)
func (k c01ciKind) nthRoot(N int) uint64 {
	if k == c01ciCI {
		return uint64(4 * N)
	}
	return uint64(2 * N)
}

// c01ciPoints returns the evaluation points of the transform, in the order of the NTT output:
// standard ring x_i = psi'^(2 brv(i)+1), psi' a primitive 2N-th root; conjugate-invariant ring
// x_i = psi'^(4 brv(i)+1), psi' a primitive 4N-th root; psi' = psi^(nthRoot/natural),
// psi = g^((q-1)/nthRoot).  err != "" when psi is not a primitive nthRoot-th root of unity mod q.
func c01ciPoints(k c01ciKind, N int, nthRoot, q, g uint64) (pts []uint64, err string) {
	if q < 3 || nthRoot == 0 || (q-1)%nthRoot != 0 {
		return nil, fmt.Sprintf("NthRoot=%d does not divide q-1=%d", nthRoot, q-1)
	}
	psi := c01ciPowMod(g, (q-1)/nthRoot, q)
	if c01ciPowMod(psi, nthRoot/2, q) != q-1 {
		return nil, fmt.Sprintf("psi=g^((q-1)/NthRoot)=%d has psi^(NthRoot/2)=%d != -1 mod %d", psi, c01ciPowMod(psi, nthRoot/2, q), q)
	}
	nat := k.nthRoot(N)
	if nthRoot%nat != 0 {
		return nil, "NthRoot is not a multiple of the natural order"
	}
	psi = c01ciPowMod(psi, nthRoot/nat, q)
	logN := c01ciLog2(N)
	pts = make([]uint64, N)
	for i := range pts {
		e := 2*c01ciBrv(uint64(i), logN) + 1
		if k == c01ciCI {
			e = 4*c01ciBrv(uint64(i), logN) + 1
		}
		pts[i] = c01ciPowMod(psi, e, q)
	}
	return pts, ""
}

// c01ciEval evaluates the polynomial with coefficient vector a (any uint64 values, taken mod q) at
// every point: standard a(x) = sum a_j x^j; conjugate invariant a_0 + sum_{j>=1} a_j (x^j + x^-j).
func c01ciEval(k c01ciKind, a, pts []uint64, q uint64) []uint64 {
	out := make([]uint64, len(pts))
	for i, x := range pts {
		var acc uint64
		for j := len(a) - 1; j >= 0; j-- { // Horner
			acc = c01ciAddMod(c01ciMulMod(acc, x, q), a[j], q)
		}
		if k == c01ciCI {
			xi := c01ciPowMod(x, q-2, q)
			var acc2 uint64
			for j := len(a) - 1; j >= 1; j-- {
				acc2 = c01ciAddMod(c01ciMulMod(acc2, xi, q), a[j], q)
			}
			acc = c01ciAddMod(acc, c01ciMulMod(acc2, xi, q), q)
		}
		out[i] = acc
	}
	return out
}

// c01ciUnfold maps a conjugate-invariant vector (length N) to the polynomial of Z_q[X]/(X^2N+1) it
// stands for: a_0 + sum a_j (X^j + X^-j), X^-j = -X^(2N-j).
func c01ciUnfold(a []uint64, q uint64) []uint64 {
	N := len(a)
	A := make([]uint64, 2*N)
	A[0] = a[0] % q
	for j := 1; j < N; j++ {
		A[j] = a[j] % q
		A[2*N-j] = c01ciSubMod(0, a[j], q)
	}
	return A
}

// c01ciNegacyclic: schoolbook product in Z_q[X]/(X^n+1)
func c01ciNegacyclic(a, b []uint64, q uint64) []uint64 {
	n := len(a)
	out := make([]uint64, n)
	for i := 0; i < n; i++ {
		if a[i]%q == 0 {
			continue
		}
		for j := 0; j < n; j++ {
			t := c01ciMulMod(a[i], b[j], q)
			if i+j < n {
				out[i+j] = c01ciAddMod(out[i+j], t, q)
			} else {
				out[i+j-n] = c01ciSubMod(out[i+j-n], t, q)
			}
		}
	}
	return out
}

// c01ciMulRef: the product of the ring (coefficient domain, canonical representatives)
func c01ciMulRef(k c01ciKind, a, b []uint64, q uint64) []uint64 {
	if k == c01ciStd {
		return c01ciNegacyclic(a, b, q)
	}
	return c01ciNegacyclic(c01ciUnfold(a, q), c01ciUnfold(b, q), q)[:len(a)]
}

// c01ciSigma: a(X) -> a(X^gal) in Z_q[X]/(X^n+1), gal odd
func c01ciSigma(a []uint64, gal, q uint64) []uint64 {
	n := uint64(len(a))
	out := make([]uint64, n)
	for i := uint64(0); i < n; i++ {
		e := (i * (gal % (2 * n))) % (2 * n)
		if e < n {
			out[e] = a[i] % q
		} else {
			out[e-n] = c01ciSubMod(0, a[i], q)
		}
	}
	return out
}

// c01ciAutRef: the Galois automorphism X -> X^gal of the ring, coefficient domain
func c01ciAutRef(k c01ciKind, a []uint64, gal, q uint64) []uint64 {
	if k == c01ciStd {
		return c01ciSigma(a, gal, q)
	}
	return c01ciSigma(c01ciUnfold(a, q), gal, q)[:len(a)]
}

func c01ciReduced(a []uint64, q uint64) []uint64 {
	out := make([]uint64, len(a))
	for i, x := range a {
		out[i] = x % q
	}
	return out
}

// ---- documented ranges, read from the repository under test ----------------------------------

type c01ciRange struct {
	k, off uint64 // [0, k*q-off]
	ok     bool
}

func (r c01ciRange) max(q uint64) uint64 { return r.k*q - r.off }
func (r c01ciRange) String() string      { return fmt.Sprintf("[0,%d*q-%d]", r.k, r.off) }

type c01ciDoc struct{ in, out c01ciRange }

var c01ciRangeRe = regexp.MustCompile(`\[0, *(\d*) *\*? *(?:modulus|[qQ]) *- *(\d+) *\]`)
var c01ciInputRe = regexp.MustCompile(`(?i)(\bp1\b|\binputs?\b|\bpolIn\b|\boperand\b)[^.;]*$`)

// c01ciDocs maps "Recv.Func" (Recv empty for package functions) to the ranges its doc comment states.
// A range is an INPUT range when the sentence before it speaks of p1 / input(s); otherwise an output one.
func c01ciDocs() map[string]c01ciDoc {
	out := map[string]c01ciDoc{}
	for _, f := range []string{"ring/ntt.go", "ring/subring_ops.go"} {
		fset := token.NewFileSet()
		af, err := parser.ParseFile(fset, filepath.Join(repoPath(), f), nil, parser.ParseComments)
		if err != nil {
			continue
		}
		for _, d := range af.Decls {
			fd, ok := d.(*ast.FuncDecl)
			if !ok || fd.Doc == nil {
				continue
			}
			name := fd.Name.Name
			if fd.Recv != nil && len(fd.Recv.List) == 1 {
				t := fd.Recv.List[0].Type
				if st, ok := t.(*ast.StarExpr); ok {
					t = st.X
				}
				if id, ok := t.(*ast.Ident); ok {
					name = id.Name + "." + name
				}
			}
			txt := strings.Join(strings.Fields(fd.Doc.Text()), " ")
			var doc c01ciDoc
			for _, m := range c01ciRangeRe.FindAllStringSubmatchIndex(txt, -1) {
				kk := uint64(1)
				if m[2] != m[3] {
					kk, _ = strconv.ParseUint(txt[m[2]:m[3]], 10, 64)
				}
				off, _ := strconv.ParseUint(txt[m[4]:m[5]], 10, 64)
				r := c01ciRange{kk, off, true}
				if c01ciInputRe.MatchString(txt[:m[0]]) && !strings.Contains(txt[:m[0]], "p2") {
					doc.in = r
				} else {
					doc.out = r
				}
			}
			out[name] = doc
		}
	}
	return out
}

// c01ciRangesFor returns the input and output range of one entry point: what its doc comment states;
// where it states no input range, the lazy range [0, 2q-1] the property names ("the extreme values
// q-1, 2q-1 and the lazy ranges"; proved safe for the model in Props/C01NTT: ntt_range, intt_range);
// where it states no output range, the function is a fully reducing one: [0, q-1].
func c01ciRangesFor(docs map[string]c01ciDoc, name string) (in, out c01ciRange) {
	d := docs[name]
	in, out = d.in, d.out
	if !in.ok {
		in = c01ciRange{2, 1, false}
	}
	if !out.ok {
		out = c01ciRange{1, 1, false}
	}
	return
}

// ---- input patterns over a full range ----------------------------------------------------------

var c01ciPats = []string{"max", "mix", "lift", "uniform", "alt", "near", "spike", "qm1", "q", "zero", "lowbits"}

// c01ciInput returns N values in [0, max] (max >= q-1): boundary patterns of the lazy range
func c01ciInput(r *SplitMix, pat string, N int, q, max uint64) []uint64 {
	v := make([]uint64, N)
	top := max
	lazy := max >= q
	switch pat {
	case "max": // all 2q-1
		for i := range v {
			v[i] = top
		}
	case "mix": // every coefficient in [0,q) or in [q,max] at random
		for i := range v {
			v[i] = r.Below(q)
			if lazy && r.Intn(2) == 0 {
				v[i] = q + r.Below(max-q+1)
			}
		}
	case "lift": // a reduced vector with a random subset lifted by q
		for i := range v {
			v[i] = r.Below(q)
			if lazy && v[i]+q <= max && r.Intn(3) != 0 {
				v[i] += q
			}
		}
	case "uniform":
		for i := range v {
			v[i] = r.Below(max) + r.Below(2)
		}
	case "alt":
		phase := r.Intn(2)
		for i := range v {
			if (i+phase)&1 == 0 {
				v[i] = top
			}
		}
	case "near":
		for i := range v {
			v[i] = top - r.Below(3)%(top+1)
		}
	case "spike":
		v[r.Intn(N)] = top
	case "qm1":
		for i := range v {
			v[i] = q - 1
		}
	case "q":
		for i := range v {
			if lazy {
				v[i] = q
			}
		}
	case "zero":
	case "lowbits":
		for i := range v {
			v[i] = r.Below(3)
			if lazy && r.Intn(2) == 0 {
				v[i] += q
			}
		}
	}
	return v
}

// ---- A. construction ---------------------------------------------------------------------------

type c01ciCtor struct {
	name    string
	kind    c01ciKind
	mult    int // NthRoot = mult * N
	natural bool
	mk      func(N int, qs []uint64) (*ring.Ring, error)
}

func c01ciTransformer(k c01ciKind) func(*ring.SubRing, int) ring.NumberTheoreticTransformer {
	if k == c01ciCI {
		return ring.NewNumberTheoreticTransformerConjugateInvariant
	}
	return ring.NewNumberTheoreticTransformerStandard
}

func c01ciType(k c01ciKind) ring.Type {
	if k == c01ciCI {
		return ring.ConjugateInvariant
	}
	return ring.Standard
}

// c01ciLiteral builds the JSON form of a ring (the format of Ring.MarshalJSON) for ANY moduli, valid or
// not.  Factors / PrimitiveRoot are genuine for primes (so that a refusal can only come from the
// NTT-friendliness test), [2] / 3 for the rest.
func c01ciLiteral(k c01ciKind, N, mult int, qs []uint64) []byte {
	type lit struct {
		Type          uint8
		LogN          uint8
		NthRoot       uint8
		Modulus       uint64
		Factors       []uint64
		PrimitiveRoot uint64
	}
	out := make([]lit, len(qs))
	for i, q := range qs {
		l := lit{Type: uint8(c01ciType(k)), LogN: uint8(c01ciLog2(N)), NthRoot: uint8(mult), Modulus: q, Factors: []uint64{2}, PrimitiveRoot: 3}
		if q > 2 && c01ciIsPrime(q) {
			if g, f, err := ring.PrimitiveRoot(q, nil); err == nil {
				l.Factors, l.PrimitiveRoot = f, g
			}
		} else if q > 2 && q < 1<<40 {
			// a composite: the true prime factors of q-1 and a g passing g^((q-1)/f) != 1 for each of them, so
			// that primality of q is the only test left to refuse the literal
			var fs []uint64
			m := q - 1
			for p := uint64(2); p*p <= m; p++ {
				if m%p == 0 {
					fs = append(fs, p)
					for m%p == 0 {
						m /= p
					}
				}
			}
			if m > 1 {
				fs = append(fs, m)
			}
			for g := uint64(2); g < 200; g++ {
				ok := true
				for _, f := range fs {
					ok = ok && c01ciPowMod(g, (q-1)/f, q) != 1
				}
				if ok {
					l.Factors, l.PrimitiveRoot = fs, g
					break
				}
			}
		}
		out[i] = l
	}
	b, _ := json.Marshal(out)
	return b
}

func c01ciCtors() []c01ciCtor {
	var cs []c01ciCtor
	for _, k := range []c01ciKind{c01ciStd, c01ciCI} {
		k := k
		nat := 2
		if k == c01ciCI {
			nat = 4
		}
		if k == c01ciStd {
			cs = append(cs, c01ciCtor{"NewRing", k, nat, true, func(N int, qs []uint64) (*ring.Ring, error) { return ring.NewRing(N, qs) }})
		} else {
			cs = append(cs, c01ciCtor{"NewRingConjugateInvariant", k, nat, true, func(N int, qs []uint64) (*ring.Ring, error) { return ring.NewRingConjugateInvariant(N, qs) }})
		}
		cs = append(cs, c01ciCtor{"NewRingFromType", k, nat, true, func(N int, qs []uint64) (*ring.Ring, error) { return ring.NewRingFromType(N, qs, c01ciType(k)) }})
		for _, mult := range []int{nat, 2 * nat} {
			mult := mult
			cs = append(cs, c01ciCtor{fmt.Sprintf("NewRingWithCustomNTT/%dN", mult), k, mult, mult == nat, func(N int, qs []uint64) (*ring.Ring, error) {
				return ring.NewRingWithCustomNTT(N, qs, c01ciTransformer(k), mult*N)
			}})
			cs = append(cs, c01ciCtor{fmt.Sprintf("UnmarshalJSON/%dN", mult), k, mult, mult == nat, func(N int, qs []uint64) (*ring.Ring, error) {
				r := new(ring.Ring)
				if err := r.UnmarshalJSON(c01ciLiteral(k, N, mult, qs)); err != nil {
					return nil, err
				}
				return r, nil
			}})
			cs = append(cs, c01ciCtor{fmt.Sprintf("UnmarshalBinary/%dN", mult), k, mult, mult == nat, func(N int, qs []uint64) (*ring.Ring, error) {
				r := new(ring.Ring)
				if err := r.UnmarshalBinary(c01ciLiteral(k, N, mult, qs)); err != nil {
					return nil, err
				}
				return r, nil
			}})
		}
	}
	// the conversions between the two ring types build SubRings with the other transformer and the SAME NthRoot
	cs = append(cs, c01ciCtor{"NewRing(2N).ConjugateInvariantRing", c01ciCI, 4, true, func(N int, qs []uint64) (*ring.Ring, error) {
		r, err := ring.NewRing(2*N, qs)
		if err != nil {
			return nil, err
		}
		return r.ConjugateInvariantRing()
	}})
	cs = append(cs, c01ciCtor{"NewRingConjugateInvariant(N/2).StandardRing", c01ciStd, 2, true, func(N int, qs []uint64) (*ring.Ring, error) {
		r, err := ring.NewRingConjugateInvariant(N/2, qs)
		if err != nil {
			return nil, err
		}
		return r.StandardRing()
	}})
	return cs
}

// c01ciCallCtor runs a constructor; outcome "ok" / "err" / "panic" / "ok-nil" (no error and no ring) /
// "hang" (no return within the time limit: the call is abandoned, its goroutine keeps spinning; after a few
// hangs the remaining calls of the run are made with a short limit so that a looping constructor cannot
// stall the check).
func c01ciCallCtor(ct c01ciCtor, N int, qs []uint64) (r *ring.Ring, outcome string) {
	type res struct {
		r *ring.Ring
		o string
	}
	done := make(chan res, 1)
	go func() {
		var rr *ring.Ring
		o := Try(func() string {
			x, err := ct.mk(N, qs)
			if err != nil {
				return "err"
			}
			if x == nil || len(x.SubRings) == 0 {
				return "ok-nil"
			}
			rr = x
			return "ok"
		})
		done <- res{rr, o}
	}()
	limit := 20 * time.Second
	if c01ciHangs >= 2 {
		limit = 500 * time.Millisecond
	}
	select {
	case x := <-done:
		return x.r, x.o
	case <-time.After(limit):
		c01ciHangs++
		return nil, "hang"
	}
}

var c01ciHangs int

// c01ciAcceptable: the documented contract
func c01ciAcceptable(N int, nthRoot uint64, qs []uint64) bool {
	if N < 8 || N&(N-1) != 0 || len(qs) == 0 {
		return false
	}
	seen := map[uint64]bool{}
	for _, q := range qs {
		if seen[q] || q < 3 || q%nthRoot != 1 || !c01ciIsPrime(q) {
			return false
		}
		seen[q] = true
	}
	return true
}

// c01ciCheckRing: an accepted ring has a primitive psi in every modulus and, for the natural NthRoot of its type,
// transforms correctly (round trip, evaluation, product, NTT-domain automorphism)
func c01ciCheckRing(c *Ctx, ct c01ciCtor, r *ring.Ring, N int, where string) {
	rn := c.rng
	for i, s := range r.SubRings {
		q := s.Modulus
		pts, perr := c01ciPoints(ct.kind, N, s.NthRoot, q, s.PrimitiveRoot)
		c.Probe("ctor_psi", fmt.Sprintf("%s i=%d g=%d nthroot=%d", where, i, s.PrimitiveRoot, s.NthRoot), "C01/ring-construction/psi-not-primitive", perr)
		if !ct.natural {
			// NthRoot above the natural order (2N standard / 4N conjugate invariant): property C01 is about the two ring
			// types with their natural roots; for these constructor paths only the ACCEPTANCE contract is checked (primes
			// = 1 mod the given NthRoot accepted with a primitive psi, everything else refused with an error, no panic).
			// The transforms of such rings are not probed (HEAD: NInv = (NthRoot/2)^-1 is not the inverse of the
			// transform length there; fixes/not-applied/C01-3); they are counted only.
			c.Count("ctor:custom-NthRoot-accepted:" + ct.kind.String())
			continue
		}
		a := c01ciInput(rn, "uniform", N, q, q-1)
		b := c01ciInput(rn, []string{"uniform", "qm1", "near"}[rn.Intn(3)], N, q, q-1)
		d1, d2, d3 := "", "", ""
		res := Try(func() string {
			na, nb, nc, back := make([]uint64, N), make([]uint64, N), make([]uint64, N), make([]uint64, N)
			s.NTT(a, na)
			s.INTT(na, back)
			if !eqVec(back, a) {
				d1 = fmt.Sprintf("a=%s INTT(NTT(a))=%s", Vec(a), Vec(back))
			}
			if pts != nil && !eqVec(na, c01ciEval(ct.kind, a, pts, q)) {
				d3 = fmt.Sprintf("a=%s NTT(a)=%s", Vec(a), Vec(na))
			}
			s.NTT(b, nb)
			s.MForm(nb, nb)
			s.MulCoeffsMontgomery(na, nb, nc)
			s.INTT(nc, nc)
			if !eqVec(nc, c01ciMulRef(ct.kind, a, b, q)) {
				d2 = fmt.Sprintf("a=%s b=%s INTT(NTT(a)*NTT(b))=%s", Vec(a), Vec(b), Vec(nc))
			}
			return ""
		})
		if res == "panic" {
			d1 = "panic in NTT/INTT of an accepted ring"
		}
		// Galois automorphism in the NTT domain of the accepted ring (level i only)
		d4 := ""
		if pts != nil && i == 0 {
			gal := []uint64{5, 25, s.NthRoot + 5, 4*rn.Below(uint64(N)/2) + 1}[rn.Intn(4)]
			d4 = Try(func() string {
				rl := r.AtLevel(0)
				pa, pn, po := rl.NewPoly(), rl.NewPoly(), rl.NewPoly()
				copy(pa.Coeffs[0], a)
				rl.NTT(pa, pn)
				rl.AutomorphismNTT(pn, gal, po)
				if w := c01ciEval(ct.kind, c01ciAutRef(ct.kind, a, gal, q), pts, q); !eqVec(po.Coeffs[0], w) {
					return fmt.Sprintf("gal=%d a=%s AutomorphismNTT(NTT(a))=%s want=%s", gal, Vec(a), Vec(po.Coeffs[0]), Vec(w))
				}
				return ""
			})
		}
		c.Probe("ctor_roundtrip", fmt.Sprintf("%s i=%d", where, i), "C01/ring-construction/accepted-ring-INTT(NTT(a))!=a", d1)
		c.Probe("ctor_mul", fmt.Sprintf("%s i=%d", where, i), "C01/ring-construction/accepted-ring-NTT-not-multiplicative", d2)
		c.Probe("ctor_eval", fmt.Sprintf("%s i=%d", where, i), "C01/ring-construction/accepted-ring-NTT-not-evaluation", d3)
		if i == 0 {
			c.Probe("ctor_aut", fmt.Sprintf("%s i=%d", where, i), "C01/ring-construction/accepted-ring-AutomorphismNTT-wrong", d4)
		}
	}
}

func c01ciConstruction(c *Ctx) {
	rn := c.rng
	ctors := c01ciCtors()
	ns := []int{8, 16, 32, 64}
	goodSizes := []int{0, 30, 59, 60, 61}
	halfSizes := []int{0, 30, 61}
	if c.Thorough() {
		ns = []int{8, 16, 32, 64, 128, 512}
		goodSizes = []int{0, 13, 20, 30, 31, 32, 33, 45, 55, 58, 59, 60, 61}
		halfSizes = []int{0, 13, 20, 31, 33, 45, 59, 60, 61}
	}
	for _, N := range ns {
		for _, ct := range ctors {
			if strings.Contains(ct.name, "(N/2)") && N/2 < 8 {
				continue
			}
			nth := uint64(ct.mult * N)
			good := c01ciGoodPrimes(nth, goodSizes)
			half := c01ciHalfPrimes(nth, halfSizes)
			if len(good) < 2 {
				continue
			}
			type cand struct {
				class string
				qs    []uint64
			}
			var cands []cand
			for _, q := range good {
				cands = append(cands, cand{"good", []uint64{q}})
			}
			cands = append(cands, cand{"good-chain", good})
			cands = append(cands, cand{"good-chain", []uint64{good[len(good)-1], good[0]}})
			for _, q := range half {
				cands = append(cands, cand{"half", []uint64{q}}) // = 1 mod NthRoot/2, not mod NthRoot
				cands = append(cands, cand{"half-in-chain", []uint64{good[0], q, good[len(good)-1]}})
			}
			// primes of other residue classes
			for k := 0; k < c.Scale(2, 6); k++ {
				res := (2*rn.Below(nth/2) + 1) % nth
				if res == 1 {
					res = 3
				}
				if p := c01ciPrimeAbove(nth+rn.Below(1<<uint(8+rn.Intn(50))), nth, res); p != 0 && bits.Len64(p) <= 61 {
					cands = append(cands, cand{"prime-other-class", []uint64{p}})
				}
			}
			// composites = 1 mod NthRoot: product and square of NTT-friendly primes, k*NthRoot+1 composite, a
			// Carmichael number / strong pseudoprime where one has the right residue
			g0, g1 := good[0], c01ciPrimeAbove(good[0]+1, nth, 1)
			if bits.Len64(g0)+bits.Len64(g1) <= 61 {
				cands = append(cands, cand{"composite", []uint64{g0 * g1}}, cand{"composite", []uint64{g0 * g0}})
			}
			for k := uint64(1); k < 200; k++ {
				if v := k*nth + 1; !c01ciIsPrime(v) {
					cands = append(cands, cand{"composite", []uint64{v}})
					break
				}
			}
			for _, v := range []uint64{561, 41041, 825265, 3215031751, 321197185, 4759123141, 341550071728321} {
				if v%nth == 1 {
					cands = append(cands, cand{"composite-pseudoprime", []uint64{v}})
				}
			}
			top := good[len(good)-1]
			cands = append(cands,
				cand{"composite", []uint64{top + nth*(1+rn.Below(5))}}, // may be prime: classified below
				cand{"even", []uint64{2}}, cand{"even", []uint64{nth + 2}}, cand{"even", []uint64{top - 1}}, cand{"even", []uint64{nth}},
				cand{"even", []uint64{uint64(1) << uint(10+rn.Intn(50))}}, cand{"one", []uint64{1}},
				cand{"even-in-chain", []uint64{good[0], top + 1}},
				cand{"duplicate", []uint64{good[0], good[0]}}, cand{"duplicate", []uint64{good[0], top, good[0]}},
				cand{"empty", nil},
				cand{"zero", []uint64{0}},
			)
			for _, cd := range cands {
				want := c01ciAcceptable(N, nth, cd.qs)
				r, outcome := c01ciCallCtor(ct, N, cd.qs)
				where := fmt.Sprintf("%s N=%d nthroot=%d %s %s", ct.name, N, nth, cd.class, Vec(cd.qs))
				c.Count("ctor:" + ct.kind.String() + ":" + cd.class + ":" + outcome)
				isUnmarshal := strings.HasPrefix(ct.name, "Unmarshal")
				switch {
				case cd.class == "zero":
					// HEAD: division by zero in GenBRedConstant before any validation (fixes/C01-2)
					d := ""
					if outcome != "err" {
						d = "modulus 0: " + outcome + " instead of an error"
					}
					c.Probe("ctor_zero", where, "C01/ring-construction/zero-modulus-not-refused-with-error", d)
					continue
				case isUnmarshal && (cd.class == "duplicate" || cd.class == "empty"):
					// HEAD: the literal decoder validates every SubRing but not the chain (fixes/C01-2)
					d := ""
					if outcome != "err" {
						d = cd.class + " chain: " + outcome + " instead of an error"
					}
					c.Probe("ctor_unmarshal_chain", where, "C01/Ring.UnmarshalJSON/invalid-chain-not-refused-with-error", d)
					continue
				}
				d := ""
				key := "C01/ring-construction/accepts-non-NTT-friendly-modulus"
				switch {
				case outcome == "panic" || outcome == "hang":
					key, d = "C01/ring-construction/panics-instead-of-error", "constructor: "+outcome
				case want && outcome != "ok":
					key, d = "C01/ring-construction/refuses-NTT-friendly-primes", "valid parameters refused ("+outcome+")"
				case !want && outcome != "err":
					d = "invalid parameters (" + cd.class + ") accepted without error"
				}
				c.Probe("ctor", where, key, d)
				// tie with the Lean predicate (trial division in the model: moduli below 2^40 only)
				small := true
				for _, q := range cd.qs {
					small = small && q < 1<<40
				}
				if small && !probesOnly() && outcome != "panic" && outcome != "hang" {
					o := "0"
					if outcome == "ok" {
						o = "1"
					}
					c.Emit(fmt.Sprintf("accept %s %d %d %s", strings.ReplaceAll(ct.name, " ", ""), N, nth, Vec(cd.qs)), o)
				}
				if outcome == "ok" && r != nil {
					if r.N() != N || r.NthRoot() != nth || !eqVec(r.ModuliChain(), cd.qs) || r.Type() != c01ciType(ct.kind) {
						c.Probe("ctor_shape", where, "C01/ring-construction/ring-differs-from-request", fmt.Sprintf("N=%d nthroot=%d moduli=%s", r.N(), r.NthRoot(), Vec(r.ModuliChain())))
					}
					c01ciCheckRing(c, ct, r, N, where)
				}
			}
			// degrees that must be refused, with perfectly good moduli
			if !strings.Contains(ct.name, ".") {
				for _, badN := range []int{0, 1, 2, 4, 7, 12, 24, N + 1, 3 * N} {
					if strings.HasPrefix(ct.name, "Unmarshal") {
						if badN == 0 || badN&(badN-1) != 0 {
							continue // the literal stores log2(N)
						}
						_, outcome := c01ciCallCtor(ct, badN, []uint64{good[0]})
						d := ""
						if outcome != "err" {
							d = fmt.Sprintf("N=%d: %s instead of an error", badN, outcome)
						}
						c.Probe("ctor_unmarshal_degree", fmt.Sprintf("%s N=%d %d", ct.name, badN, good[0]), "C01/Ring.UnmarshalJSON/invalid-chain-not-refused-with-error", d)
						continue
					}
					_, outcome := c01ciCallCtor(ct, badN, []uint64{good[0]})
					d := ""
					if outcome != "err" {
						d = fmt.Sprintf("N=%d: %s instead of an error", badN, outcome)
					}
					c.Probe("ctor_degree", fmt.Sprintf("%s N=%d %d", ct.name, badN, good[0]), "C01/ring-construction/invalid-degree-not-refused-with-error", d)
					if !probesOnly() && outcome != "panic" && outcome != "hang" {
						o := "0"
						if outcome == "ok" {
							o = "1"
						}
						c.Emit(fmt.Sprintf("accept %s %d %d %d", strings.ReplaceAll(ct.name, " ", ""), badN, nth, good[0]), o)
					}
				}
			}
		}
		// a ring type that does not exist
		for _, t := range []ring.Type{2, 3, -1, 255} {
			_, outcome := c01ciCallCtor(c01ciCtor{mk: func(N int, qs []uint64) (*ring.Ring, error) { return ring.NewRingFromType(N, qs, t) }}, N, c01ciGoodPrimes(uint64(4*N), []int{0, 45}))
			d := ""
			if outcome != "err" {
				d = fmt.Sprintf("ring type %d: %s instead of an error", int(t), outcome)
			}
			c.Probe("ctor_type", fmt.Sprintf("NewRingFromType N=%d type=%d", N, int(t)), "C01/ring-construction/invalid-ring-type-not-refused-with-error", d)
		}
		// a marshalled ring is accepted back and is the same ring
		for _, k := range []c01ciKind{c01ciStd, c01ciCI} {
			good := c01ciGoodPrimes(k.nthRoot(N), []int{0, 40, 61})
			r, err := ring.NewRingFromType(N, good, c01ciType(k))
			if err != nil {
				continue
			}
			d := Try(func() string {
				b, err := r.MarshalJSON()
				if err != nil {
					return "MarshalJSON: error"
				}
				r2 := new(ring.Ring)
				if err := r2.UnmarshalJSON(b); err != nil {
					return "UnmarshalJSON refuses MarshalJSON's output"
				}
				if r2.N() != N || r2.NthRoot() != r.NthRoot() || r2.Type() != r.Type() || !eqVec(r2.ModuliChain(), good) || r2.Level() != r.Level() {
					return "decoded ring differs"
				}
				for i := range r.SubRings {
					a, b := r.SubRings[i], r2.SubRings[i]
					if !eqVec(a.RootsForward, b.RootsForward) || !eqVec(a.RootsBackward, b.RootsBackward) || a.NInv != b.NInv || a.MRedConstant != b.MRedConstant || a.BRedConstant != b.BRedConstant || a.Mask != b.Mask {
						return fmt.Sprintf("decoded SubRing %d has other constants", i)
					}
				}
				return ""
			})
			c.Probe("ctor_marshal_roundtrip", fmt.Sprintf("%s N=%d %s", k, N, Vec(good)), "C01/ring-construction/marshalled-ring-not-restored", d)
		}
	}
}

// ---- B. transforms over the full documented range ---------------------------------------------

type c01ciEntry struct {
	doc     string // key of the doc comment
	fn      string // NTT / NTTLazy / INTT / INTTLazy
	forward bool
	call    func(s *ring.SubRing, N int, in, out []uint64)
}

func c01ciEntries(k c01ciKind) []c01ciEntry {
	tr := "NumberTheoreticTransformerStandard"
	if k == c01ciCI {
		tr = "NumberTheoreticTransformerConjugateInvariant"
	}
	mk := c01ciTransformer(k)
	es := []c01ciEntry{
		{"SubRing.NTT", "NTT", true, func(s *ring.SubRing, N int, in, out []uint64) { s.NTT(in, out) }},
		{"SubRing.NTTLazy", "NTTLazy", true, func(s *ring.SubRing, N int, in, out []uint64) { s.NTTLazy(in, out) }},
		{"SubRing.INTT", "INTT", false, func(s *ring.SubRing, N int, in, out []uint64) { s.INTT(in, out) }},
		{"SubRing.INTTLazy", "INTTLazy", false, func(s *ring.SubRing, N int, in, out []uint64) { s.INTTLazy(in, out) }},
		{tr + ".Forward", "NTT", true, func(s *ring.SubRing, N int, in, out []uint64) { mk(s, N).Forward(in, out) }},
		{tr + ".ForwardLazy", "NTTLazy", true, func(s *ring.SubRing, N int, in, out []uint64) { mk(s, N).ForwardLazy(in, out) }},
		{tr + ".Backward", "INTT", false, func(s *ring.SubRing, N int, in, out []uint64) { mk(s, N).Backward(in, out) }},
		{tr + ".BackwardLazy", "INTTLazy", false, func(s *ring.SubRing, N int, in, out []uint64) { mk(s, N).BackwardLazy(in, out) }},
	}
	if k == c01ciStd {
		es = append(es,
			c01ciEntry{"NTTStandard", "NTT", true, func(s *ring.SubRing, N int, in, out []uint64) {
				ring.NTTStandard(in, out, N, s.Modulus, s.MRedConstant, s.BRedConstant, s.RootsForward)
			}},
			c01ciEntry{"NTTStandardLazy", "NTTLazy", true, func(s *ring.SubRing, N int, in, out []uint64) {
				ring.NTTStandardLazy(in, out, N, s.Modulus, s.MRedConstant, s.RootsForward)
			}},
			c01ciEntry{"INTTStandard", "INTT", false, func(s *ring.SubRing, N int, in, out []uint64) {
				ring.INTTStandard(in, out, N, s.NInv, s.Modulus, s.MRedConstant, s.RootsBackward)
			}},
			c01ciEntry{"INTTStandardLazy", "INTTLazy", false, func(s *ring.SubRing, N int, in, out []uint64) {
				ring.INTTStandardLazy(in, out, N, s.NInv, s.Modulus, s.MRedConstant, s.RootsBackward)
			}})
	} else {
		es = append(es,
			c01ciEntry{"NTTConjugateInvariant", "NTT", true, func(s *ring.SubRing, N int, in, out []uint64) {
				ring.NTTConjugateInvariant(in, out, N, s.Modulus, s.MRedConstant, s.BRedConstant, s.RootsForward)
			}},
			c01ciEntry{"NTTConjugateInvariantLazy", "NTTLazy", true, func(s *ring.SubRing, N int, in, out []uint64) {
				ring.NTTConjugateInvariantLazy(in, out, N, s.Modulus, s.MRedConstant, s.RootsForward)
			}},
			c01ciEntry{"INTTConjugateInvariant", "INTT", false, func(s *ring.SubRing, N int, in, out []uint64) {
				ring.INTTConjugateInvariant(in, out, N, s.NInv, s.Modulus, s.MRedConstant, s.RootsBackward)
			}},
			c01ciEntry{"INTTConjugateInvariantLazy", "INTTLazy", false, func(s *ring.SubRing, N int, in, out []uint64) {
				ring.INTTConjugateInvariantLazy(in, out, N, s.NInv, s.Modulus, s.MRedConstant, s.RootsBackward)
			}})
	}
	return es
}

// c01ciCheckTransform runs one entry point on `in` and checks congruence to the exact transform and the
// documented output range.  Returns the output (nil after a panic).
func c01ciCheckTransform(c *Ctx, k c01ciKind, e c01ciEntry, s *ring.SubRing, N int, pts []uint64, in []uint64, outR c01ciRange, tag string) []uint64 {
	q := s.Modulus
	out := make([]uint64, N)
	src := append([]uint64(nil), in...)
	res := Try(func() string { e.call(s, N, src, out); return "" })
	args := fmt.Sprintf("%s %s N=%d q=%d g=%d %s in=%s", e.doc, k, N, q, s.PrimitiveRoot, tag, Vec(in))
	keyC := fmt.Sprintf("C01/%s-%s/not-congruent", e.fn, k.Upper())
	keyR := fmt.Sprintf("C01/%s/exceeds-documented-range", e.doc)
	if res == "panic" {
		c.Probe("ntt_ref", args, keyC, "panic")
		return nil
	}
	d := ""
	if !eqVec(src, in) {
		d = "input vector modified"
	} else if e.forward {
		want := c01ciEval(k, in, pts, q)
		for i := range out {
			if out[i]%q != want[i] {
				d = fmt.Sprintf("i=%d got=%d (mod q: %d) want=%d", i, out[i], out[i]%q, want[i])
				break
			}
		}
	} else {
		// the transform is a bijection of Z_q^N: out is the inverse transform of in iff its forward transform is in
		back := c01ciEval(k, out, pts, q)
		for i := range back {
			if back[i] != in[i]%q {
				d = fmt.Sprintf("exact forward transform of the result differs from the input at i=%d: %d vs %d; out=%s", i, back[i], in[i]%q, Vec(out))
				break
			}
		}
	}
	c.Probe("ntt_ref", args, keyC, d)
	d = ""
	if m := maxVec(out); m > outR.max(q) {
		d = fmt.Sprintf("max=%d > %d*q-%d=%d", m, outR.k, outR.off, outR.max(q))
	}
	c.Probe("ntt_range", args, keyR, d)
	return out
}

func c01ciTransforms(c *Ctx) {
	rn := c.rng
	docs := c01ciDocs()
	ns := []int{8, 16, 32, 64}
	sizes := []int{0, 20, 45, 59, 60, 61}
	reps := 1
	if c.Thorough() {
		ns = []int{8, 16, 32, 64, 128, 256}
		sizes = []int{0, 9, 13, 20, 30, 31, 32, 33, 45, 55, 58, 59, 60, 61}
		reps = 3
	}
	for _, N := range ns {
		for _, k := range []c01ciKind{c01ciStd, c01ciCI} {
			nth := k.nthRoot(N)
			entries := c01ciEntries(k)
			for _, q := range c01ciGoodPrimes(nth, sizes) {
				r, err := ring.NewRingFromType(N, []uint64{q}, c01ciType(k))
				if err != nil {
					c.Probe("ntt_ring", fmt.Sprintf("%s N=%d q=%d", k, N, q), "C01/ring-construction/refuses-NTT-friendly-primes", "valid parameters refused")
					continue
				}
				s := r.SubRings[0]
				pts, perr := c01ciPoints(k, N, nth, q, s.PrimitiveRoot)
				if perr != "" {
					c.Probe("ntt_psi", fmt.Sprintf("%s N=%d q=%d g=%d", k, N, q, s.PrimitiveRoot), "C01/ring-construction/psi-not-primitive", perr)
					continue
				}
				c.Count(fmt.Sprintf("ntt-ref:%s:N=%d:bits=%d", k, N, bits.Len64(q)))
				hdr := fmt.Sprintf("%d %d %d %d", N, q, nth, s.PrimitiveRoot)
				for ei, e := range entries {
					inR, outR := c01ciRangesFor(docs, e.doc)
					if ei >= 4 {
						// the transformer methods and package functions state no input range of their own: that of the
						// SubRing method they implement
						if !docs[e.doc].in.ok {
							inR, _ = c01ciRangesFor(docs, "SubRing."+e.fn)
						}
					}
					pats := c01ciPats
					if ei >= 4 { // secondary entry points: the boundary patterns only
						pats = []string{"max", "mix", c01ciPats[3+rn.Intn(len(c01ciPats)-3)]}
					}
					for rep := 0; rep < reps; rep++ {
						for _, pat := range pats {
							if !c.Thorough() && ei < 4 && pat != "max" && pat != "mix" && pat != "lift" && rn.Intn(3) != 0 {
								continue
							}
							in := c01ciInput(rn, pat, N, q, inR.max(q))
							out := c01ciCheckTransform(c, k, e, s, N, pts, in, outR, pat+"<="+inR.String())
							c.Count("ntt-ref:" + e.fn + ":" + pat)
							// the same line tied to the model (limb for limb), SubRing entry points only
							if ei < 4 && out != nil && !probesOnly() && N <= 64 && (pat == "max" || pat == "mix" || pat == "lift") {
								kindTok := map[string]string{"NTT": "", "NTTLazy": "lazy", "INTT": "", "INTTLazy": "lazy"}[e.fn]
								pre := ""
								if !e.forward {
									pre = "i"
								}
								c.Emit(fmt.Sprintf("ntt %s%s%s %s %s", pre, k, kindTok, hdr, Vec(in)), Vec(out))
							}
						}
					}
				}
				// identities on lazy inputs: INTT(NTT(a)) = a mod q and the product, operands anywhere in the input range
				inR, _ := c01ciRangesFor(docs, "SubRing.NTT")
				iinR, _ := c01ciRangesFor(docs, "SubRing.INTT")
				for rep := 0; rep < c.Scale(2, 6); rep++ {
					a := c01ciInput(rn, c01ciPats[rn.Intn(4)], N, q, inR.max(q))
					b := c01ciInput(rn, c01ciPats[rn.Intn(len(c01ciPats))], N, q, inR.max(q))
					d := Try(func() string {
						na, nb, nc := make([]uint64, N), make([]uint64, N), make([]uint64, N)
						s.NTTLazy(a, na) // lazy values are legal inputs of the Montgomery product (x*y < q*2^64)
						s.NTT(b, nb)
						s.MForm(nb, nb)
						s.MulCoeffsMontgomeryLazy(na, nb, nc) // in [0, 2q-1]
						if m := maxVec(nc); m > iinR.max(q) {
							return "" // outside INTT's documented input range: not a legal call
						}
						s.INTT(nc, nc)
						if !eqVec(nc, c01ciMulRef(k, a, b, q)) {
							return "INTT(NTTLazy(a)*NTT(b)) != a*b (schoolbook): got " + Vec(nc)
						}
						return ""
					})
					c.Probe("ntt_mul_lazy", fmt.Sprintf("%s N=%d q=%d a=%s b=%s", k, N, q, Vec(a), Vec(b)), fmt.Sprintf("C01/NTT-%s/not-multiplicative", k.Upper()), d)
				}
			}
		}
	}
}

// ---- C. history: no state shared between rings -------------------------------------------------

type c01ciRingCtx struct {
	k    c01ciKind
	N    int
	qs   []uint64
	r    *ring.Ring
	pts  [][]uint64
	name string
	sib  *c01ciRingCtx // another ring of the same type and degree
}

func c01ciNewCtx(c *Ctx, k c01ciKind, N int, qs []uint64) *c01ciRingCtx {
	r, err := ring.NewRingFromType(N, qs, c01ciType(k))
	if err != nil {
		return nil
	}
	x := &c01ciRingCtx{k: k, N: N, qs: qs, r: r, name: fmt.Sprintf("%s/N=%d/%s", k, N, Vec(qs))}
	for i, q := range qs {
		pts, perr := c01ciPoints(k, N, k.nthRoot(N), q, r.SubRings[i].PrimitiveRoot)
		if perr != "" {
			return nil
		}
		x.pts = append(x.pts, pts)
	}
	return x
}

func (x *c01ciRingCtx) randPoly(c *Ctx, lvl int) ring.Poly {
	p := x.r.AtLevel(lvl).NewPoly()
	for i := 0; i <= lvl; i++ {
		copy(p.Coeffs[i], c01ciInput(c.rng, c01ciPats[3+c.rng.Intn(3)], x.N, x.qs[i], x.qs[i]-1))
	}
	return p
}

// c01ciGalois: an odd Galois element; for the conjugate-invariant ring one = 1 mod 4 (its NTT stores the
// evaluation points psi^e, e = 1 mod 4; X -> X^gal with gal = 3 mod 4 is the same map as X -> X^-gal and is
// exercised separately, see c01ciHistory)
func c01ciGalois(rn *SplitMix, k c01ciKind, N int, common bool) uint64 {
	nth := k.nthRoot(N)
	if common {
		// elements meaningful (and equal) for both ring types of degree N: powers of 5 below 2N, 1, and = 1 mod 4
		cands := []uint64{1, 5, 25, 9, 13, 17, uint64(2*N) - 3, uint64(2*N) + 1}
		g := cands[rn.Intn(len(cands))]
		if g%4 == 1 {
			return g
		}
		return 5
	}
	g := 4*rn.Below(nth/4) + 1
	if k == c01ciStd && rn.Intn(2) == 0 {
		g = 2*rn.Below(nth/2) + 1
	}
	if rn.Intn(6) == 0 {
		g += nth * rn.Below(1000) // elements are taken mod NthRoot
	}
	return g
}

// c01ciStep performs one operation on ring x at level lvl and compares with the library-free reference
func c01ciStep(c *Ctx, x *c01ciRingCtx, op string, lvl int, gal uint64, hist string) {
	rl := x.r.AtLevel(lvl)
	a := x.randPoly(c, lvl)
	N := x.N
	d := Try(func() string {
		an := rl.NewPoly()
		rl.NTT(a, an)
		out := rl.NewPoly()
		var want [][]uint64
		ntt := true
		switch op {
		case "NTT":
			out = an
			want = RawRows(a)[:lvl+1]
		case "INTT(NTT)":
			rl.INTT(an, out)
			want, ntt = RawRows(a)[:lvl+1], false
		case "AutomorphismNTT":
			rl.AutomorphismNTT(an, gal, out)
		case "AutomorphismNTTWithIndex":
			idx, err := ring.AutomorphismNTTIndex(N, rl.NthRoot(), gal)
			if err != nil {
				return "AutomorphismNTTIndex: error"
			}
			rl.AutomorphismNTTWithIndex(an, idx, out)
		case "AutomorphismNTTWithIndexThenAddLazy":
			idx, err := ring.AutomorphismNTTIndex(N, rl.NthRoot(), gal)
			if err != nil {
				return "AutomorphismNTTIndex: error"
			}
			rl.AutomorphismNTTWithIndexThenAddLazy(an, idx, out) // out = 0
		case "Automorphism":
			rl.Automorphism(a, gal, out)
			ntt = false
		case "ringqp.AutomorphismNTT", "ringqp.Automorphism":
			// Q = this ring, P = the other ring of the same type and degree (other moduli, other level)
			y := x.sib
			lp := c.rng.Intn(len(y.qs)+1) - 1
			R := ringqp.Ring{RingQ: x.r, RingP: y.r}.AtLevel(lvl, lp)
			in, o := R.NewPoly(), R.NewPoly()
			ntt = op == "ringqp.AutomorphismNTT"
			var b ring.Poly
			if ntt {
				in.Q.Copy(an)
			} else {
				in.Q.Copy(a)
			}
			if lp >= 0 {
				b = y.randPoly(c, lp)
				if ntt {
					y.r.AtLevel(lp).NTT(b, in.P)
				} else {
					in.P.Copy(b)
				}
			}
			if ntt {
				R.AutomorphismNTT(in, gal, o)
			} else {
				R.Automorphism(in, gal, o)
			}
			out = o.Q
			for i := 0; i <= lp; i++ {
				w := c01ciAutRef(y.k, b.Coeffs[i], gal, y.qs[i])
				if ntt {
					w = c01ciEval(y.k, w, y.pts[i], y.qs[i])
				}
				if !eqVec(c01ciReduced(o.P.Coeffs[i], y.qs[i]), w) {
					return fmt.Sprintf("P row %d (q=%d): b=%s got=%s want=%s", i, y.qs[i], Vec(b.Coeffs[i]), Vec(o.P.Coeffs[i]), Vec(w))
				}
			}
		case "MulCoeffsMontgomery":
			b := x.randPoly(c, lvl)
			bn := rl.NewPoly()
			rl.NTT(b, bn)
			rl.MForm(bn, bn)
			rl.MulCoeffsMontgomery(an, bn, out)
			want = make([][]uint64, lvl+1)
			for i := range want {
				want[i] = c01ciMulRef(x.k, a.Coeffs[i], b.Coeffs[i], x.qs[i])
			}
		}
		if want == nil {
			want = make([][]uint64, lvl+1)
			for i := range want {
				want[i] = c01ciAutRef(x.k, a.Coeffs[i], gal, x.qs[i])
			}
		}
		for i := 0; i <= lvl; i++ {
			w := want[i]
			if ntt {
				w = c01ciEval(x.k, w, x.pts[i], x.qs[i])
			}
			if !eqVec(c01ciReduced(out.Coeffs[i], x.qs[i]), w) {
				return fmt.Sprintf("row %d (q=%d): a=%s got=%s want=%s", i, x.qs[i], Vec(a.Coeffs[i]), Vec(out.Coeffs[i]), Vec(w))
			}
		}
		return ""
	})
	if d == "panic" {
		d = "panic"
	}
	c.Probe("history", fmt.Sprintf("%s lvl=%d %s gal=%d after=%s", x.name, lvl, op, gal, hist), "C01/cross-ring-state", d)
	c.Count("history:" + x.k.String() + ":" + op)
}

// c01ciHistoryCrossDegree: a standard ring of degree 2N and a conjugate-invariant ring of degree N have the
// same NthRoot = 4N (they are each other's Ring.StandardRing / Ring.ConjugateInvariantRing); rings of different
// degree used one after the other, in both orders, with Galois elements never used before in the process
// (congruent to a small element modulo every NthRoot in play, so that they denote the usual maps).
func c01ciHistoryCrossDegree(c *Ctx) {
	rn := c.rng
	fresh := uint64(1 << 20)
	for _, N := range []int{8, 16, 32} {
		ci := c01ciNewCtx(c, c01ciCI, N, c01ciGoodPrimes(uint64(4*N), []int{0, 61}))
		st := c01ciNewCtx(c, c01ciStd, 2*N, c01ciGoodPrimes(uint64(4*N), []int{60, 0}))
		st2 := c01ciNewCtx(c, c01ciStd, N, c01ciGoodPrimes(uint64(2*N), []int{0, 59}))
		if ci == nil || st == nil || st2 == nil {
			continue
		}
		ci.sib, st.sib, st2.sib = ci, st, st2
		orders := [][]*c01ciRingCtx{{st, ci, st2}, {ci, st, st2}, {st2, ci, st}, {ci, st2, st}, {st, st2, ci}, {st2, st, ci}}
		for oi, order := range orders {
			for _, base := range []uint64{5, 25, 1, uint64(2*N) + 1} {
				fresh += 1 << 12 // a multiple of every NthRoot here
				gal := fresh + base
				hist := "-"
				for round := 0; round < 2; round++ {
					for _, x := range order {
						op := "AutomorphismNTT"
						if round == 1 {
							op = c01ciGalOps[rn.Intn(len(c01ciGalOps))]
						} else if (oi+int(base))%5 == 0 {
							op = "ringqp.AutomorphismNTT"
						}
						c01ciStep(c, x, op, rn.Intn(len(x.qs)), gal, hist)
						hist = fmt.Sprintf("%s/N=%d:%s", x.k, x.N, op)
					}
				}
			}
		}
	}
}

var c01ciGalOps = []string{"AutomorphismNTT", "AutomorphismNTT", "AutomorphismNTTWithIndex", "AutomorphismNTTWithIndexThenAddLazy", "Automorphism", "ringqp.AutomorphismNTT", "ringqp.Automorphism"}
var c01ciAllOps = append([]string{"NTT", "INTT(NTT)", "MulCoeffsMontgomery"}, c01ciGalOps...)

func c01ciHistory(c *Ctx) {
	rn := c.rng
	ns := []int{8, 16, 32, 64}
	if c.Thorough() {
		ns = []int{8, 16, 32, 64, 128}
	}
	for _, N := range ns {
		// rings of degree N: both types, two chains each (different moduli, one shared modulus where a prime is
		// = 1 mod 4N, different lengths)
		ci1 := c01ciGoodPrimes(uint64(4*N), []int{0, 30, 61})
		ci2 := c01ciGoodPrimes(uint64(4*N), []int{60, 25})
		st1 := c01ciGoodPrimes(uint64(2*N), []int{0, 31, 61, 45})
		st2 := append([]uint64{ci1[len(ci1)-1]}, c01ciHalfPrimes(uint64(4*N), []int{0, 59})...) // shares a modulus with ci1
		var ctxs []*c01ciRingCtx
		for _, x := range []*c01ciRingCtx{
			c01ciNewCtx(c, c01ciStd, N, st1), c01ciNewCtx(c, c01ciCI, N, ci1),
			c01ciNewCtx(c, c01ciStd, N, st2), c01ciNewCtx(c, c01ciCI, N, ci2),
		} {
			if x != nil {
				ctxs = append(ctxs, x)
			}
		}
		if len(ctxs) < 4 {
			c.Count("history:ring-unavailable")
			continue
		}
		std, ci := []*c01ciRingCtx{ctxs[0], ctxs[2]}, []*c01ciRingCtx{ctxs[1], ctxs[3]}
		std[0].sib, std[1].sib, ci[0].sib, ci[1].sib = std[1], std[0], ci[1], ci[0]
		// (1) the same Galois element on a standard and a conjugate-invariant ring of the same degree, in both
		//     orders; each element is used for the first time in the process by the ring type named first
		fresh := []uint64{}
		for g := uint64(1); len(fresh) < 12 && g < uint64(2*N); g += 4 {
			fresh = append(fresh, g)
		}
		fresh = append(fresh, uint64(2*N)+1, uint64(4*N)+5, uint64(8*N)+1)
		for gi, gal := range fresh {
			first, second := std, ci
			if gi%2 == 1 {
				first, second = ci, std
			}
			hist := ""
			for round := 0; round < 2; round++ {
				for _, grp := range [][]*c01ciRingCtx{first, second} {
					x := grp[rn.Intn(2)]
					op := c01ciGalOps[rn.Intn(len(c01ciGalOps))]
					if round == 0 {
						op = "AutomorphismNTT"
						if rn.Intn(4) == 0 {
							op = "ringqp.AutomorphismNTT"
						}
					}
					c01ciStep(c, x, op, rn.Intn(len(x.qs)), gal, hist)
					hist = x.k.String() + ":" + op
				}
			}
		}
		// (2) random interleaving of all operations, all rings, all levels, same and different elements
		hist := "-"
		var lastGal uint64 = 5
		for step := 0; step < c.Scale(40, 300); step++ {
			x := ctxs[rn.Intn(len(ctxs))]
			op := c01ciAllOps[rn.Intn(len(c01ciAllOps))]
			gal := lastGal
			if rn.Intn(2) == 0 {
				gal = c01ciGalois(rn, x.k, N, rn.Intn(2) == 0)
			}
			if x.k == c01ciCI && gal%4 == 3 {
				gal = x.k.nthRoot(N) - gal%x.k.nthRoot(N) // same automorphism, representative = 1 mod 4
			}
			lastGal = gal
			c01ciStep(c, x, op, rn.Intn(len(x.qs)), gal, hist)
			hist = x.k.String() + ":" + op
		}
		// (3) determinism under interference: the same call before and after other rings were used
		for rep := 0; rep < c.Scale(3, 12); rep++ {
			x, y := ctxs[rn.Intn(len(ctxs))], ctxs[rn.Intn(len(ctxs))]
			lvl := rn.Intn(len(x.qs))
			gal := c01ciGalois(rn, c01ciCI, N, true)
			a := x.randPoly(c, lvl)
			d := Try(func() string {
				rl := x.r.AtLevel(lvl)
				run := func() string {
					an, o1, o2, o3 := rl.NewPoly(), rl.NewPoly(), rl.NewPoly(), rl.NewPoly()
					rl.NTT(a, an)
					rl.AutomorphismNTT(an, gal, o1)
					rl.Automorphism(a, gal, o2)
					rl.MulCoeffsBarrett(an, o1, o3)
					rl.INTT(o3, o3)
					return Mat(RawRows(an)) + "|" + Mat(RawRows(o1)) + "|" + Mat(RawRows(o2)) + "|" + Mat(RawRows(o3))
				}
				before := run()
				ly := rn.Intn(len(y.qs))
				b := y.randPoly(c, ly)
				ry := y.r.AtLevel(ly)
				bn, o := ry.NewPoly(), ry.NewPoly()
				ry.NTT(b, bn)
				ry.AutomorphismNTT(bn, gal, o)
				ry.Automorphism(b, gal, o)
				ry.INTT(bn, bn)
				if after := run(); after != before {
					return "same call, different result after using " + y.name
				}
				return ""
			})
			c.Probe("history_replay", fmt.Sprintf("%s lvl=%d gal=%d other=%s", x.name, lvl, gal, y.name), "C01/cross-ring-state", d)
		}
		// (4) conjugate-invariant ring, Galois elements = 3 mod 4: X -> X^gal is a well defined automorphism of
		//     Z[X+X^-1]/(X^2N+1) (the same as X -> X^-gal; Ring.Automorphism computes it); own key, fixes/C01-1
		for _, gal := range []uint64{3, 7, uint64(4*N) - 1, uint64(4*N) - 5, uint64(2*N) + 3, uint64(4*N) + 3} {
			x := ci[rn.Intn(2)]
			lvl := rn.Intn(len(x.qs))
			rl := x.r.AtLevel(lvl)
			a := x.randPoly(c, lvl)
			for _, op := range []string{"Automorphism", "AutomorphismNTT"} {
				d := Try(func() string {
					out := rl.NewPoly()
					ntt := op == "AutomorphismNTT"
					if ntt {
						an := rl.NewPoly()
						rl.NTT(a, an)
						rl.AutomorphismNTT(an, gal, out)
					} else {
						rl.Automorphism(a, gal, out)
					}
					for i := 0; i <= lvl; i++ {
						w := c01ciAutRef(c01ciCI, a.Coeffs[i], gal, x.qs[i])
						if ntt {
							w = c01ciEval(c01ciCI, w, x.pts[i], x.qs[i])
						}
						if !eqVec(c01ciReduced(out.Coeffs[i], x.qs[i]), w) {
							return fmt.Sprintf("row %d: got=%s want=%s", i, Vec(out.Coeffs[i]), Vec(w))
						}
					}
					return ""
				})
				if d == "panic" {
					d = "panic (index out of range)"
				}
				key := "C01/Ring.AutomorphismNTT/conjugate-invariant-galois-element-3-mod-4"
				if op == "Automorphism" {
					key = "C01/Ring.Automorphism/not-congruent"
				}
				c.Probe("ci_gal3mod4", fmt.Sprintf("%s lvl=%d %s gal=%d a=%s", x.name, lvl, op, gal, Mat(RawRows(a)[:lvl+1])), key, d)
			}
			if !probesOnly() {
				idx, _ := ring.AutomorphismNTTIndex(N, uint64(4*N), gal)
				c.Emit(fmt.Sprintf("autidx %d %d %d", N, 4*N, gal), Vec(idx))
			}
		}
		// the conjugate-invariant index tables, tied to the regenerated definition
		if !probesOnly() {
			for rep := 0; rep < c.Scale(4, 20); rep++ {
				gal := c01ciGalois(rn, c01ciCI, N, false)
				idx, _ := ring.AutomorphismNTTIndex(N, uint64(4*N), gal)
				c.Emit(fmt.Sprintf("autidx %d %d %d", N, 4*N, gal), Vec(idx))
			}
		}
	}
}
