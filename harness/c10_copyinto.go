package main

// C10 — copy INTO a previously used target: after `dst.Copy(src)` the target must equal the source (level,
// limbs, metadata) whatever it held before (higher or lower level; for elements: same degree — Element.Copy
// is documented as copying "up to the capacity" of the target, a larger degree keeps its extra polynomials).

import (
	"fmt"

	"github.com/tuneinsight/lattigo/v6/core/rlwe"
	"github.com/tuneinsight/lattigo/v6/ring"
	"github.com/tuneinsight/lattigo/v6/ring/ringqp"
	"github.com/tuneinsight/lattigo/v6/schemes/bgv"
)

func c10CopyInto(c *Ctx) {
	bp, err := bgv.NewParametersFromLiteral(bgv.ParametersLiteral{LogN: 5, LogQ: []int{45, 40, 40, 40}, LogP: []int{50, 50}, PlaintextModulus: 65537})
	if err != nil {
		panic(err)
	}
	rQ, rQP := bp.RingQ(), bp.RingQP()
	L := bp.MaxLevel()
	fillQ := func(p ring.Poly, seed uint64) {
		for i := range p.Coeffs {
			for j := range p.Coeffs[i] {
				p.Coeffs[i][j] = (seed*1000003 + uint64(i*131+j)) & 0xFFFFF
			}
		}
	}
	probe := func(name, sc string, f func() string) {
		d := Try(f)
		if d == "ok" {
			d = ""
		}
		key := "C10-copyinto-" + name
		if name == "rlwe.Plaintext.Copy" {
			key = "C10/Plaintext.Copy/value-receiver-stale-Value"
		}
		c.Probe("copy_into_used_target/"+name, sc, key, d)
	}
	for _, srcL := range []int{0, 1, 2} {
		for _, dstL := range []int{0, 1, 2, L} {
			sc := fmt.Sprintf("src-level%d/dst-level%d", srcL, dstL)
			// ring.Poly
			probe("ring.Poly.Copy", sc, func() string {
				src, dst := rQ.AtLevel(srcL).NewPoly(), rQ.AtLevel(dstL).NewPoly()
				fillQ(src, 1)
				fillQ(dst, 2)
				dst.Copy(src)
				if dst.Level() != src.Level() {
					return fmt.Sprintf("level=%d,want=%d", dst.Level(), src.Level())
				}
				if !dst.Equal(&src) {
					return "limbs-differ"
				}
				return "ok"
			})
			if dstL >= srcL {
				probe("ring.Poly.CopyLvl", sc, func() string {
					src, dst := rQ.AtLevel(srcL).NewPoly(), rQ.AtLevel(dstL).NewPoly()
					fillQ(src, 1)
					fillQ(dst, 2)
					keep := dst.CopyNew()
					dst.CopyLvl(srcL, src)
					if dst.Level() != dstL {
						return "level-changed"
					}
					for i := 0; i <= dstL; i++ {
						want := keep.Coeffs[i]
						if i <= srcL {
							want = src.Coeffs[i]
						}
						if deepHash(&dst.Coeffs[i]) != deepHash(&want) {
							return fmt.Sprintf("limb-%d-wrong", i)
						}
					}
					return "ok"
				})
			}
			// ringqp.Poly (P level: src 0, dst 1 and vice versa)
			for _, pl := range [][2]int{{0, 1}, {1, 0}, {1, 1}} {
				probe("ringqp.Poly.Copy", fmt.Sprintf("%s/srcP%d/dstP%d", sc, pl[0], pl[1]), func() string {
					src, dst := rQP.AtLevel(srcL, pl[0]).NewPoly(), rQP.AtLevel(dstL, pl[1]).NewPoly()
					fillQ(src.Q, 1)
					fillQ(src.P, 3)
					fillQ(dst.Q, 2)
					fillQ(dst.P, 4)
					dst.Copy(src)
					if dst.LevelQ() != src.LevelQ() || dst.LevelP() != src.LevelP() {
						return fmt.Sprintf("levels=%d,%d,want=%d,%d", dst.LevelQ(), dst.LevelP(), src.LevelQ(), src.LevelP())
					}
					if !dst.Equal(&src) {
						return "limbs-differ"
					}
					return "ok"
				})
			}
			// rlwe elements: same degree
			for _, deg := range []int{1, 2} {
				mkCt := func(lvl int, seed uint64) *rlwe.Ciphertext {
					ct := bgv.NewCiphertext(bp, deg, lvl)
					for i := range ct.Value {
						fillQ(ct.Value[i], seed+uint64(i))
					}
					ct.Scale = bp.NewScale(seed + 2)
					ct.IsBatched = seed%2 == 0
					return ct
				}
				probe("rlwe.Ciphertext.Copy", fmt.Sprintf("%s/degree%d", sc, deg), func() string {
					src, dst := mkCt(srcL, 5), mkCt(dstL, 8)
					dst.Copy(src)
					if dst.Level() != src.Level() || dst.Degree() != src.Degree() {
						return fmt.Sprintf("level=%d,degree=%d", dst.Level(), dst.Degree())
					}
					if !dst.Equal(src) {
						return "not-equal-to-source"
					}
					return "ok"
				})
				probe("rlwe.Element.Copy", fmt.Sprintf("%s/degree%d", sc, deg), func() string {
					src, dst := mkCt(srcL, 5), mkCt(dstL, 8)
					dst.El().Copy(src.El())
					if dst.Level() != src.Level() || !dst.Element.Equal(&src.Element) {
						return "not-equal-to-source"
					}
					return "ok"
				})
			}
			probe("rlwe.Plaintext.Copy", sc, func() string {
				src, dst := bgv.NewPlaintext(bp, srcL), bgv.NewPlaintext(bp, dstL)
				fillQ(src.Value, 5)
				fillQ(dst.Value, 8)
				src.Scale = bp.NewScale(7)
				dst.Copy(src)
				if dst.Level() != src.Level() || !dst.Element.Equal(&src.Element) {
					return "not-equal-to-source"
				}
				if deepHash(&dst.Value) != deepHash(&src.Value) {
					return "Value-field-differs"
				}
				return "ok"
			})
			probe("rlwe.Element[ringqp.Poly].Copy", sc, func() string {
				mk := func(lvl int, seed uint64) *rlwe.Element[ringqp.Poly] {
					e := rlwe.NewElementExtended(bp, 1, lvl, 1)
					for i := range e.Value {
						fillQ(e.Value[i].Q, seed)
						fillQ(e.Value[i].P, seed+9)
					}
					return e
				}
				src, dst := mk(srcL, 5), mk(dstL, 8)
				dst.Copy(src)
				if dst.LevelQ() != src.LevelQ() || !dst.Equal(src) {
					return "not-equal-to-source"
				}
				return "ok"
			})
		}
	}
	// larger degree in the target: documented "up to the capacity" — the first polynomials must be the source's
	probe("rlwe.Ciphertext.Copy[target-degree-larger]", "src-degree1/dst-degree2", func() string {
		src, dst := bgv.NewCiphertext(bp, 1, 1), bgv.NewCiphertext(bp, 2, 2)
		fillQ(src.Value[0], 1)
		fillQ(src.Value[1], 2)
		for i := range dst.Value {
			fillQ(dst.Value[i], 7)
		}
		dst.Copy(src)
		if !dst.Value[0].Equal(&src.Value[0]) || !dst.Value[1].Equal(&src.Value[1]) {
			return "copied-polynomials-differ"
		}
		return "ok"
	})
}
