package main

// C19 — accepted parameters are sound; shipped sets meet their 128-bit security claim.
//
// Tie lines (the Lean model must reproduce the output): isprime, overlap, gen, genmoduli,
// rlwe_new, ckks_new, bgv_new, derived, exported, table.
// Probes (property predicates evaluated on the real code): accepted_distinct,
// accepted_prime_ntt, accepted_bits61, accepted_then_ntt_roundtrip, rejected_no_panic,
// params_roundtrip, genmoduli_spec, genmoduli_checks_lognthroot, bgv_qmul_disjoint,
// accepted_then_bgv_arithmetic, exported_instantiable, exported_within_table, json_literal_terminates.
//
// The `exported` lines end in known=1: the model answers known=1 only if the dumped set is
// literally the one compiled into lean/Lattigo/Model/Params.lean (`exportedSets`, the list the
// theorem exported_within_table is proved about). After a change of the library's literals,
// regenerate that list with harness/c19_exported.py.

import (
	"encoding/json"
	"fmt"
	"math"
	"math/big"
	"math/bits"
	"os"
	"path/filepath"
	"sort"
	"time"

	"github.com/tuneinsight/lattigo/v6/circuits/ckks/bootstrapping"
	"github.com/tuneinsight/lattigo/v6/core/rlwe"
	"github.com/tuneinsight/lattigo/v6/examples"
	"github.com/tuneinsight/lattigo/v6/ring"
	"github.com/tuneinsight/lattigo/v6/schemes/bgv"
	"github.com/tuneinsight/lattigo/v6/schemes/ckks"
	"github.com/tuneinsight/lattigo/v6/utils"
)

func init() { register("C19", genC19) }

// c19Slow: nothing legitimate takes that long; an input on which the code spins shows up as `hang`.
const c19Slow = 60 * time.Second

func genC19(c *Ctx) {
	c19IsPrime(c)
	c19Overlap(c)
	c19Gen(c)
	c19GenModuli(c)
	c19RlweNew(c)
	c19Schemes(c)
	c19Derived(c)
	c19DerivedAccessors(c)
	c19Codecs(c)
	c19CodecKeys(c)
	c19ScaleProbes(c)
	c19CompositeProbes(c)
	c19LargeProbes(c)
	c19CkksDerived(c)
	c19Aliases(c)
	c19BgvRejects(c)
	c19LogNRange(c)
	c19DistUsable(c)
	c19Exported(c)
	c19Table(c)
	c19Hangs(c) // inputs on which the unpatched code never returned
}

// ---------------------------------------------------------------- isprime / overlap

func c19IsPrime(c *Ctx) {
	emit := func(n uint64) {
		c.Emit("isprime n="+U(n), map[bool]string{true: "1", false: "0"}[ring.IsPrime(n)])
		c.Count("isprime")
	}
	for _, n := range []uint64{0, 1, 2, 3, 4, 561, 1105, 1729, 2047, 3215031751, 4759123141, 1122004669633,
		2152302898747, 3474749660383, 341550071728321, 3825123056546413051, 18446744073709551557,
		18446744073709551615, 18446744073709551533, 4611686018427387617, 0x1fffffffffe00001, 65537, 4294967297,
		1<<61 - 1, 1<<62 - 57, 1<<63 - 25, 9223372036854775837} {
		emit(n)
	}
	for b := 2; b <= 64; b++ {
		for j := 0; j < c.Scale(2, 60); j++ {
			var n uint64
			if b == 64 {
				n = c.rng.U64() | 1<<63
			} else {
				n = uint64(1)<<uint(b-1) + c.rng.Below(uint64(1)<<uint(b-1))
			}
			emit(n)
			emit(n | 1)
		}
		if p := c19PrimeWithBits(c, b, 0, nil); p != 0 {
			emit(p)
			// a semiprime with two factors of b/2 bits
			if b >= 6 {
				x, y := c19PrimeWithBits(c, b/2, 0, nil), c19PrimeWithBits(c, b-b/2, 0, nil)
				hi, lo := bits.Mul64(x, y)
				if hi == 0 {
					emit(lo)
				}
			}
		}
	}
}

func c19Overlap(c *Ctx) {
	emit := func(dir string, size int, x uint64) {
		var r bool
		if dir == "u" {
			r = math.Log2(float64(x))-float64(size) >= 0.5
		} else {
			r = float64(size)-math.Log2(float64(x)) >= 0.5
		}
		c.Emit(fmt.Sprintf("overlap dir=%s size=%d c=%d", dir, size, x), map[bool]string{true: "1", false: "0"}[r])
		c.Count("overlap")
	}
	for s := 1; s <= 63; s++ {
		// thresholds floor(2^(s+1/2)) and floor(2^(s-1/2))
		up := new(big.Int).Sqrt(new(big.Int).Lsh(big.NewInt(1), uint(2*s+1))).Uint64()
		dn := new(big.Int).Sqrt(new(big.Int).Lsh(big.NewInt(1), uint(2*s-1))).Uint64()
		for _, d := range []int64{-2, -1, 0, 1, 2} {
			emit("u", s, uint64(int64(up)+d))
			emit("d", s, uint64(int64(dn)+d))
		}
		for j := 0; j < c.Scale(4, 200); j++ {
			// within a relative 2^-40 .. 2^-4 of the threshold
			w := uint(c.rng.Intn(40) + 4)
			span := up >> w
			if span == 0 {
				span = 1
			}
			off := c.rng.Below(2*span + 1)
			emit("u", s, up-span+off)
			span = dn >> w
			if span == 0 {
				span = 1
			}
			off = c.rng.Below(2*span + 1)
			emit("d", s, dn-span+off)
		}
		emit("u", s, uint64(1)<<uint(s)+1)
		emit("d", s, uint64(1)<<uint(s)+1)
	}
	emit("u", 64, 1)
	emit("d", 64, 1)
	emit("u", 0, 2)
	emit("d", 3, 0)
	emit("u", 3, 0)
}

// ---------------------------------------------------------------- generator

func c19GenOnce(dir int, bitsz, root uint64, k int) (primes []uint64, err error) {
	g := ring.NewNTTFriendlyPrimesGenerator(bitsz, root)
	switch dir {
	case 0:
		return g.NextUpstreamPrimes(k)
	case 1:
		return g.NextDownstreamPrimes(k)
	default:
		return g.NextAlternatingPrimes(k)
	}
}

func c19EmitGen(c *Ctx, dir int, bitsz, root uint64, k int, d time.Duration) {
	out := c19Run(d, func() string {
		ps, err := c19GenOnce(dir, bitsz, root, k)
		if err != nil {
			return "err"
		}
		return "ok " + Vec(ps)
	})
	c.Emit(fmt.Sprintf("gen dir=%d bits=%d root=%d k=%d", dir, bitsz, root, k), out)
	c.Count(fmt.Sprintf("gen:dir%d:%s", dir, out[:2]))
}

func c19Gen(c *Ctx) {
	per := c.Scale(2, 120)
	for b := uint64(0); b <= 65; b++ {
		for dir := 0; dir < 3; dir++ {
			for j := 0; j < per; j++ {
				lr := uint(c.rng.Intn(22) + 1)
				if j == 0 && b >= 2 && b <= 24 {
					lr = uint(b) - 1 + uint(c.rng.Intn(3)) // around the window size: exhaustion
				}
				root := uint64(1) << lr
				k := []int{1, 2, 3, 5, 8}[c.rng.Intn(5)]
				if b >= 64 && dir == 2 && root < 1<<12 {
					root = 1 << 12 // keeps the scan from 1 upwards short
				}
				c19EmitGen(c, dir, b, root, k, c19Slow)
			}
		}
	}
	// the sizes and roots the library itself uses
	for _, b := range []uint64{61, 60, 55, 45, 40, 30} {
		for _, lr := range []uint{5, 11, 13, 15, 16, 17, 18, 21} {
			c19EmitGen(c, 1, b, 1<<lr, c.Scale(3, 12), c19Slow)
			c19EmitGen(c, 2, b, 1<<lr, c.Scale(4, 20), c19Slow)
			c19EmitGen(c, 0, b, 1<<lr, c.Scale(2, 8), c19Slow)
		}
	}
	// non power-of-two and tiny roots
	for _, root := range []uint64{1, 2, 3, 6, 96, 1000} {
		c19EmitGen(c, 2, 20, root, 4, c19Slow)
	}
	// a direction disabled from the start, a zero step (these spun for ever before fix C19-4)
	for dir := 0; dir < 3; dir++ {
		c19EmitGen(c, dir, 63, 1<<63, 1, c19Slow)
		c19EmitGen(c, dir, 5, 64, 1, c19Slow)
		c19EmitGen(c, dir, 30, 0, 1, c19Slow)
		c19EmitGen(c, dir, 16, 0, 2, c19Slow)
	}
}

// ---------------------------------------------------------------- GenModuli

func c19HalfBitWindow(size int, q uint64) bool {
	// 2^(2S-1) < q^2 < 2^(2S+1)
	if size <= 0 {
		return false
	}
	qq := new(big.Int).Mul(new(big.Int).SetUint64(q), new(big.Int).SetUint64(q))
	return qq.Cmp(new(big.Int).Lsh(big.NewInt(1), uint(2*size-1))) > 0 && qq.Cmp(new(big.Int).Lsh(big.NewInt(1), uint(2*size+1))) < 0
}

func c19EmitGenModuli(c *Ctx, L int, logQ, logP []int, d time.Duration) {
	var q, p []uint64
	ok := false
	out := c19Run(d, func() string {
		qq, pp, err := rlwe.GenModuli(L, logQ, logP)
		if err != nil {
			cl := c19Class(fmt.Errorf("unable to generate: %w", err))
			return "err:" + cl[len("err:gen:"):]
		}
		q, p, ok = qq, pp, true
		return "ok Q=" + Vec(qq) + " P=" + Vec(pp)
	})
	args := fmt.Sprintf("root=%d logQ=%s logP=%s", L, IVec(logQ), IVec(logP))
	c.Emit("genmoduli "+args, out)
	c.Count("genmoduli:" + out[:2])
	// the argument must be range-checked (before fix C19-3 a test constant was checked instead)
	if L-1 < rlwe.MinLogN || L-2 > rlwe.MaxLogN {
		d := ""
		if ok || out == "panic" || out == "hang" {
			d = fmt.Sprintf("GenModuli(LogNthRoot=%d,…): %s", L, out)
			if len(d) > 120 {
				d = d[:120]
			}
		}
		c.Probe("genmoduli_checks_lognthroot", args, "C19-genmoduli-unchecked-lognthroot", d)
	}
	if !ok {
		return
	}
	// genModuli_spec on the real generator
	detail := ""
	all := append(append([]uint64{}, q...), p...)
	req := append(append([]int{}, logQ...), logP...)
	seen := map[uint64]bool{}
	for i, x := range all {
		switch {
		case !c19IndepPrime(x):
			detail = fmt.Sprintf("not-prime %d", x)
		case seen[x]:
			detail = fmt.Sprintf("duplicate %d", x)
		case !c19HalfBitWindow(req[i], x):
			detail = fmt.Sprintf("size request=%d got=%d", req[i], x)
		}
		seen[x] = true
	}
	c.Probe("genmoduli_spec", args, "C19-genmoduli-spec", detail)
	detail = ""
	if L >= 1 && L < 64 {
		for _, x := range all {
			if x&(uint64(1)<<uint(L)-1) != 1 {
				detail = fmt.Sprintf("GenModuli(LogNthRoot=%d) returned %d which is not 1 mod 2^%d", L, x, L)
			}
		}
	}
	c.Probe("genmoduli_ntt_friendly", args, "C19-genmoduli-non-ntt-prime", detail)
}

func c19GenModuli(c *Ctx) {
	for L := 0; L <= 26; L++ {
		c19EmitGenModuli(c, L, []int{30}, nil, c19Slow)
		c19EmitGenModuli(c, L, []int{45, 35, 35}, []int{61, 45}, c19Slow)
	}
	for _, L := range []int{40, 59, 61, 63} {
		c19EmitGenModuli(c, L, []int{30}, nil, c19Slow)
	}
	for s := -2; s <= 70; s++ {
		c19EmitGenModuli(c, 5+c.rng.Intn(12), []int{s}, nil, c19Slow)
		c19EmitGenModuli(c, 5+c.rng.Intn(12), []int{40}, []int{s}, c19Slow)
	}
	// Fermat primes: 2^S+1 is returned although S < LogNthRoot
	c19EmitGenModuli(c, 17, []int{16}, nil, c19Slow)
	c19EmitGenModuli(c, 12, []int{8, 16}, nil, c19Slow)
	c19EmitGenModuli(c, 5, []int{4}, []int{2}, c19Slow)
	c19EmitGenModuli(c, 10, nil, nil, c19Slow)
	c19EmitGenModuli(c, -3, nil, nil, c19Slow)
	c19EmitGenModuli(c, -3, []int{30}, nil, c19Slow) // panics: 1<<-3
	c19EmitGenModuli(c, -1, []int{0}, nil, c19Slow)  // size error comes first
	for i := 0; i < c.Scale(40, 3000); i++ {
		L := 5 + c.rng.Intn(13)
		nq, np := 1+c.rng.Intn(8), c.rng.Intn(4)
		lq, lp := make([]int, nq), make([]int, np)
		base := L + 2 + c.rng.Intn(60-L-2)
		for j := range lq {
			lq[j] = base
			if c.rng.Intn(3) == 0 {
				lq[j] = L + 2 + c.rng.Intn(60-L-1)
			}
		}
		for j := range lp {
			lp[j] = []int{61, 61, base, 55}[c.rng.Intn(4)]
		}
		c19EmitGenModuli(c, L, lq, lp, c19Slow)
	}
}

// ---------------------------------------------------------------- rlwe.NewParametersFromLiteral

func c19RoundTrip(p interface {
	MarshalBinary() ([]byte, error)
	MarshalJSON() ([]byte, error)
}, fresh func() interface {
	UnmarshalBinary([]byte) error
	UnmarshalJSON([]byte) error
}, equal func(interface{}) bool) string {
	return Try(func() string {
		b, err := p.MarshalBinary()
		if err != nil {
			return "MarshalBinary: " + c19Sanitize(err.Error())
		}
		x := fresh()
		if err = x.UnmarshalBinary(b); err != nil {
			return "UnmarshalBinary: " + c19Sanitize(err.Error())
		}
		if !equal(x) {
			return "binary round trip not Equal"
		}
		if b, err = p.MarshalJSON(); err != nil {
			return "MarshalJSON: " + c19Sanitize(err.Error())
		}
		y := fresh()
		if err = y.UnmarshalJSON(b); err != nil {
			return "UnmarshalJSON: " + c19Sanitize(err.Error())
		}
		if !equal(y) {
			return "json round trip not Equal"
		}
		return ""
	})
}

func c19RlweRoundTrip(p rlwe.Parameters) string {
	d := c19RoundTrip(p, func() interface {
		UnmarshalBinary([]byte) error
		UnmarshalJSON([]byte) error
	} {
		return new(rlwe.Parameters)
	}, func(x interface{}) bool { return p.Equal(x.(*rlwe.Parameters)) })
	if d == "panic" {
		return "panic in round trip"
	}
	return d
}

func c19CkksRoundTrip(p ckks.Parameters) string {
	d := c19RoundTrip(p, func() interface {
		UnmarshalBinary([]byte) error
		UnmarshalJSON([]byte) error
	} {
		return new(ckks.Parameters)
	}, func(x interface{}) bool { return p.Equal(x.(*ckks.Parameters)) })
	if d == "panic" {
		return "panic in round trip"
	}
	return d
}

func c19BgvRoundTrip(p bgv.Parameters) string {
	d := c19RoundTrip(p, func() interface {
		UnmarshalBinary([]byte) error
		UnmarshalJSON([]byte) error
	} {
		return new(bgv.Parameters)
	}, func(x interface{}) bool { return p.Equal(x.(*bgv.Parameters)) })
	if d == "panic" {
		return "panic in round trip"
	}
	return d
}

// c19AcceptedProbes evaluates accepted_sound conjunct by conjunct on an accepted object.
func c19AcceptedProbes(c *Ctx, args string, p rlwe.Parameters, arithmetic bool) {
	nth := p.RingQ().NthRoot()
	all := append(p.Q(), p.P()...)
	seen := map[uint64]bool{}
	dDistinct, dPrime, dBits := "", "", ""
	for _, x := range all {
		if seen[x] {
			dDistinct = fmt.Sprintf("modulus %d occurs twice in Q∪P", x)
		}
		seen[x] = true
		if !c19IndepPrime(x) || x&(nth-1) != 1 {
			dPrime = fmt.Sprintf("modulus %d not prime or not 1 mod %d", x, nth)
		}
		if bits.Len64(x) > 61 {
			dBits = fmt.Sprintf("accepted modulus %d has %d bits (lazy NTT/MRedLazy need 8q <= 2^64)", x, bits.Len64(x))
		}
	}
	c.Probe("accepted_distinct", args, "C19-qp-shared-prime", dDistinct)
	c.Probe("accepted_prime_ntt", args, "C19-accepted-not-ntt-prime", dPrime)
	c.Probe("accepted_bits61", args, "C19-modulus-over-61-bits", dBits)
	if arithmetic {
		d := Try(func() string {
			if s := c19RingArithmetic(c, p.RingQ()); s != "" {
				return "ringQ " + s
			}
			if p.RingP() != nil {
				if s := c19RingArithmetic(c, p.RingP()); s != "" {
					return "ringP " + s
				}
			}
			return ""
		})
		c.Probe("accepted_then_ntt_roundtrip", args, "C19-modulus-over-61-bits", d)
	}
	c.Probe("params_roundtrip", "rlwe "+args, "C19-params-roundtrip", c19RlweRoundTrip(p))
}

func c19EmitRlwe(c *Ctx, l c19Lit, d time.Duration, tag string) {
	var params rlwe.Parameters
	accepted := false
	out := c19Run(d, func() string {
		p, err := rlwe.NewParametersFromLiteral(l.rlwe())
		if err != nil {
			return c19Class(err)
		}
		params, accepted = p, true
		return fmt.Sprintf("accept Q=%s P=%s nthroot=%d", Vec(p.Q()), Vec(p.P()), p.RingQ().NthRoot())
	})
	c.Emit("rlwe_new "+l.line(), out)
	cls := out
	if len(cls) > 10 {
		cls = cls[:10]
	}
	c.Count("rlwe_new:" + tag)
	c.Count("rlwe_new=" + cls)
	detail := ""
	if out == "panic" || out == "hang" {
		detail = "NewParametersFromLiteral: " + out
	}
	key := "C19-literal-panic"
	if out == "hang" {
		key = "C19-literal-hang"
	}
	c.Probe("rejected_no_panic", l.line(), key, detail)
	if accepted {
		c19AcceptedProbes(c, l.line(), params, l.LogN <= 9)
	}
}

func c19RlweNew(c *Ctx) {
	base := func(logN int) c19Lit { return c19Lit{LogN: logN, XsH: -1, XeS: -1} }
	nth := func(logN, rt int) uint64 { return uint64(1) << uint(logN+1+rt) }

	// (a) one modulus of every bit length, in Q and in P, both ring types
	for b := 2; b <= 63; b++ {
		for rt := 0; rt <= 1; rt++ {
			l := base(4)
			l.RT = rt
			l.Q = []uint64{c19PrimeWithBits(c, b, nth(4, rt), nil)}
			c19EmitRlwe(c, l, c19Slow, "bits-Q")
			l.Q = []uint64{c19PrimeWithBits(c, 30, nth(4, rt), nil)}
			l.P = []uint64{c19PrimeWithBits(c, b, nth(4, rt), map[uint64]bool{l.Q[0]: true})}
			c19EmitRlwe(c, l, c19Slow, "bits-P")
		}
	}
	l := base(4)
	l.Q = []uint64{4611686018427387617} // 62 bits, 1 mod 32: the recorded witness
	c19EmitRlwe(c, l, c19Slow, "witness-62")
	for _, x := range []uint64{1<<63 + 29*32 + 1, 18446744073709551557, 0, 1} {
		l.Q = []uint64{x}
		c19EmitRlwe(c, l, c19Slow, "bits-Q")
	}

	// (b) LogN over [MinLogN-1, MaxLogN+1] and far outside, explicit and generated moduli
	for _, logN := range []int{-64, -2, -1, 0, 1, 2, 3, 4, 5, 6, 7, 8, 9, 10, 11, 12, 13, 14, 15, 16, 17, 18, 19, 20, 21, 22, 40, 62, 63, 64, 1 << 20} {
		if logN > 14 && logN <= 20 && !c.Thorough() && logN != 20 {
			continue
		}
		l := base(logN)
		m := uint64(64)
		if logN >= 0 && logN < 40 {
			m = uint64(1) << uint(logN+1)
		}
		l.Q = []uint64{c19PrimeWithBits(c, 50, m, nil)}
		c19EmitRlwe(c, l, c19Slow, "logN")
		if logN >= -1 && logN < 61 {
			l = base(logN)
			l.LogQ = []int{50}
			if logN >= 40 {
				l.LogQ = []int{60}
			}
			c19EmitRlwe(c, l, c19Slow, "logN-gen")
		}
	}

	// (c) structured valid literals
	for i := 0; i < c.Scale(40, 2000); i++ {
		l := base(4 + c.rng.Intn(7))
		l.RT = c.rng.Intn(2)
		avoid := map[uint64]bool{}
		for j, n := 0, 1+c.rng.Intn(4); j < n; j++ {
			q := c19PrimeWithBits(c, 20+c.rng.Intn(42), nth(l.LogN, l.RT), avoid)
			avoid[q] = true
			l.Q = append(l.Q, q)
		}
		for j, n := 0, c.rng.Intn(3); j < n; j++ {
			q := c19PrimeWithBits(c, 20+c.rng.Intn(42), nth(l.LogN, l.RT), avoid)
			avoid[q] = true
			l.P = append(l.P, q)
		}
		if c.rng.Intn(4) == 0 {
			l.XsH = 1 + c.rng.Intn(1<<uint(l.LogN))
		}
		if c.rng.Intn(4) == 0 {
			l.XeS = 1 + c.rng.Intn(8)
		}
		c19EmitRlwe(c, l, c19Slow, "valid")

		// (d)-(f) one defect injected into the valid literal
		m := l
		m.Q = append([]uint64{}, l.Q...)
		m.P = append([]uint64{}, l.P...)
		tag := ""
		switch c.rng.Intn(9) {
		case 0:
			m.Q = append(m.Q, m.Q[c.rng.Intn(len(m.Q))])
			tag = "dup-Q"
		case 1:
			m.P = append(m.P, m.Q[c.rng.Intn(len(m.Q))])
			tag = "shared-QP"
		case 2:
			if len(m.P) == 0 {
				m.P = append(m.P, c19PrimeWithBits(c, 40, nth(l.LogN, l.RT), avoid))
			}
			m.P = append(m.P, m.P[0])
			tag = "dup-P"
		case 3:
			// composite, 1 mod NthRoot: product of two NTT-friendly primes
			n := nth(l.LogN, l.RT)
			x, y := c19PrimeWithBits(c, 25, n, nil), c19PrimeWithBits(c, 26, n, nil)
			m.Q[c.rng.Intn(len(m.Q))] = x * y
			tag = "composite-Q"
		case 4:
			n := nth(l.LogN, l.RT)
			x, y := c19PrimeWithBits(c, 25, n, nil), c19PrimeWithBits(c, 26, n, nil)
			m.P = append(m.P, x*y)
			tag = "composite-P"
		case 5:
			// prime, not 1 mod NthRoot
			for {
				x := c19PrimeWithBits(c, 20+c.rng.Intn(40), 0, avoid)
				if x&(nth(l.LogN, l.RT)-1) != 1 {
					m.Q[c.rng.Intn(len(m.Q))] = x
					break
				}
			}
			tag = "not-ntt-Q"
		case 6:
			for {
				x := c19PrimeWithBits(c, 20+c.rng.Intn(40), 0, avoid)
				if x&(nth(l.LogN, l.RT)-1) != 1 {
					m.P = append(m.P, x)
					break
				}
			}
			tag = "not-ntt-P"
		case 7:
			// NTT-friendly for the other ring type only (1 mod 2N, not 1 mod 4N)
			n := nth(l.LogN, 0)
			for {
				x := c19PrimeWithBits(c, 30+c.rng.Intn(20), n, avoid)
				if x&(2*n-1) != 1 {
					m.Q[0] = x
					break
				}
			}
			m.RT = 1
			tag = "std-prime-in-CI"
		case 8:
			m.Q[c.rng.Intn(len(m.Q))] = []uint64{0, 1, 2, 4, 561, 1 << 40}[c.rng.Intn(6)]
			tag = "junk-Q"
		}
		c19EmitRlwe(c, m, c19Slow, tag)
	}

	// (g) nil / empty / doubly specified fields
	good := c19PrimeWithBits(c, 40, 64, nil)
	good2 := c19PrimeWithBits(c, 41, 64, nil)
	for _, l := range []c19Lit{
		{LogN: 5, XsH: -1, XeS: -1},
		{LogN: 5, Q: []uint64{}, XsH: -1, XeS: -1},
		{LogN: 5, Q: []uint64{good}, P: []uint64{}, XsH: -1, XeS: -1},
		{LogN: 5, Q: []uint64{good}, LogQ: []int{40}, XsH: -1, XeS: -1},
		{LogN: 5, Q: []uint64{good}, LogQ: []int{}, XsH: -1, XeS: -1},
		{LogN: 5, Q: []uint64{good}, P: []uint64{good2}, LogP: []int{40}, XsH: -1, XeS: -1},
		{LogN: 5, LogQ: []int{}, XsH: -1, XeS: -1},
		{LogN: 5, LogQ: []int{}, LogP: []int{40}, XsH: -1, XeS: -1},
		{LogN: 5, LogQ: []int{40}, LogP: []int{}, XsH: -1, XeS: -1},
		{LogN: 5, Q: []uint64{good}, LogP: []int{41, 41}, XsH: -1, XeS: -1},
		{LogN: 5, LogQ: []int{40, 40}, P: []uint64{good2}, XsH: -1, XeS: -1},
		{LogN: 5, P: []uint64{good2}, XsH: -1, XeS: -1},
		{LogN: 5, LogP: []int{40}, XsH: -1, XeS: -1},
		// (j) ring type out of range
		{LogN: 5, RT: 2, Q: []uint64{good}, XsH: -1, XeS: -1},
		{LogN: 5, RT: 2, LogQ: []int{40}, XsH: -1, XeS: -1},
		{LogN: 5, RT: 7, LogQ: []int{0}, XsH: -1, XeS: -1},
		// (k) warnings returned as errors
		{LogN: 5, Q: []uint64{good}, XsH: 0, XeS: -1},
		{LogN: 5, Q: []uint64{good}, XsH: -1, XeS: 0},
		{LogN: 5, Q: []uint64{good}, XsH: 0, XeS: 0},
		{LogN: 5, Q: []uint64{good}, XsH: 1 << 20, XeS: 3},
		{LogN: 3, Q: []uint64{good}, XsH: 0, XeS: 0},
	} {
		c19EmitRlwe(c, l, c19Slow, "shape")
	}

	// (h) size requests of every size, in LogQ and in LogP, both ring types
	for s := -3; s <= 70; s++ {
		for rt := 0; rt <= 1; rt++ {
			l := base(4 + c.rng.Intn(4))
			l.RT = rt
			l.LogQ = []int{s}
			c19EmitRlwe(c, l, c19Slow, "size-LogQ")
			l.LogQ = []int{30, 30}
			l.LogP = []int{s}
			c19EmitRlwe(c, l, c19Slow, "size-LogP")
		}
	}
	// Fermat primes are produced for a size below the root order
	for _, ln := range []int{14, 15, 16} {
		if ln == 16 && !c.Thorough() {
			continue
		}
		l := base(ln)
		l.LogQ = []int{16}
		c19EmitRlwe(c, l, c19Slow, "fermat")
	}

	// (i) several sizes with multiplicities, custom root orders
	for i := 0; i < c.Scale(30, 2000); i++ {
		l := base(4 + c.rng.Intn(8))
		l.RT = c.rng.Intn(2)
		if c.rng.Intn(2) == 0 {
			l.Root = l.LogN + c.rng.Intn(6)
		}
		lo := l.LogN + 4
		if l.Root+2 > lo {
			lo = l.Root + 2
		}
		sz := []int{lo + c.rng.Intn(61-lo), lo + c.rng.Intn(61-lo), 60}
		for j, n := 0, 1+c.rng.Intn(5); j < n; j++ {
			l.LogQ = append(l.LogQ, sz[c.rng.Intn(3)])
		}
		for j, n := 0, c.rng.Intn(3); j < n; j++ {
			l.LogP = append(l.LogP, append(sz, 61)[c.rng.Intn(4)])
		}
		c19EmitRlwe(c, l, c19Slow, "gen-multi")
	}

	// (l) root orders that are not sensible; terminating ones here, spinning ones in c19Hangs
	for _, r := range []int{-7, -1, 0, 1, 5, 6, 7, 20, 30, 31, 45, 59, 60, 61, 63} {
		l := base(5)
		l.Root = r
		l.LogQ = []int{30}
		c19EmitRlwe(c, l, c19Slow, "root")
		l.LogQ = []int{60, 60}
		l.LogP = []int{61}
		if r == 63 {
			continue // covered in c19Hangs
		}
		c19EmitRlwe(c, l, c19Slow, "root")
	}
	// negative shift count: LogN+1 < 0 and LogNthRoot < 0
	for _, x := range [][2]int{{-5, -2}, {-3, -1}, {-2, -9}, {-100, -100}} {
		l := base(x[0])
		l.Root = x[1]
		l.LogQ = []int{30}
		c19EmitRlwe(c, l, c19Slow, "negative-shift")
		l.LogQ = nil
		l.Q = []uint64{good}
		l.LogP = []int{30}
		c19EmitRlwe(c, l, c19Slow, "negative-shift")
		l.LogP = []int{}
		c19EmitRlwe(c, l, c19Slow, "negative-shift")
	}
}

// ---------------------------------------------------------------- ckks / bgv constructors

func c19Schemes(c *Ctx) {
	// ckks: only LogDefaultScale is checked on top of rlwe
	for _, lds := range []int{-200, -5, 0, 1, 45, 64, 65, 127, 128, 129, 1000} {
		for rt := 0; rt <= 1; rt++ {
			l := c19Lit{LogN: 6, RT: rt, XsH: -1, XeS: -1, LogQ: []int{50, 40}, LogP: []int{51}}
			var params ckks.Parameters
			acc := false
			out := c19Run(c19Slow, func() string {
				p, err := ckks.NewParametersFromLiteral(ckks.ParametersLiteral{LogN: l.LogN, LogQ: l.LogQ, LogP: l.LogP,
					RingType: ring.Type(rt), LogDefaultScale: lds})
				if err != nil {
					return c19Class(err)
				}
				params, acc = p, true
				return fmt.Sprintf("accept Q=%s P=%s nthroot=%d", Vec(p.Q()), Vec(p.P()), p.RingQ().NthRoot())
			})
			c.Emit(fmt.Sprintf("ckks_new %s lds=%d", l.line(), lds), out)
			c.Count("ckks_new")
			if acc {
				c.Probe("params_roundtrip", fmt.Sprintf("ckks %s lds=%d", l.line(), lds), "C19-params-roundtrip", c19CkksRoundTrip(params))
			}
		}
	}

	// bgv: plaintext moduli of every residue class
	type ring0 struct {
		logN int
		Q, P []uint64
	}
	var rings []ring0
	for _, logN := range []int{4, 6, 10} {
		n := uint64(2) << uint(logN)
		a := c19PrimeWithBits(c, 36, n, nil)
		b := c19PrimeWithBits(c, 30, n, map[uint64]bool{a: true})
		p := c19PrimeWithBits(c, 20, n, map[uint64]bool{a: true, b: true})
		rings = append(rings, ring0{logN, []uint64{a, b}, []uint64{p}})
	}
	// Q made of the 61-bit downstream primes that bgv.NewParameters picks for its auxiliary basis
	d61, _ := c19GenOnce(1, 61, 2<<6, 2)
	rings = append(rings, ring0{6, d61, nil})
	emitBgv := func(r ring0, t uint64) {
		var params bgv.Parameters
		acc := false
		out := c19Run(c19Slow, func() string {
			p, err := bgv.NewParametersFromLiteral(bgv.ParametersLiteral{LogN: r.logN, Q: r.Q, P: r.P, PlaintextModulus: t})
			if err != nil {
				return c19Class(err)
			}
			params, acc = p, true
			return fmt.Sprintf("accept nT=%d slots=%d logslots=%d qmul=%s", p.RingT().N(), p.MaxSlots(), p.LogMaxSlots(), Vec(p.RingQMul().ModuliChain()))
		})
		args := fmt.Sprintf("logN=%d rt=0 Q=%s P=%s t=%d", r.logN, Vec(r.Q), Vec(r.P), t)
		c.Emit("bgv_new "+args, out)
		cls := out
		if len(cls) > 9 {
			cls = cls[:9]
		}
		c.Count("bgv_new=" + cls)
		if !acc {
			return
		}
		d := ""
		for _, x := range params.RingQMul().ModuliChain() {
			for _, y := range params.Q() {
				if x == y {
					d = fmt.Sprintf("auxiliary basis QMul shares the prime %d with Q", x)
				}
			}
		}
		c.Probe("bgv_qmul_disjoint", args, "C19-bgv-qmul-shares-prime-with-q", d)
		// t | P is accepted (only Q is searched for t); measured to be harmless for Mul/Relinearize/
		// Rotate (see accepted_then_bgv_arithmetic below), so it is counted, not reported.
		for _, y := range params.P() {
			if y == t {
				c.Count("bgv:accepted-with-t-in-P")
			}
		}
		c.Probe("params_roundtrip", "bgv "+args, "C19-params-roundtrip", c19BgvRoundTrip(params))
		// every accepted literal must give a working context, at every level
		c.Probe("bgv_context_works", args, "C19-bgv-context", c19Sanitize(c19BgvContextWorks(params)))
	}
	// after acceptance: homomorphic arithmetic against the plaintext computation (N=64)
	{
		n := uint64(2) << 6
		a := c19PrimeWithBits(c, 55, n, nil)
		b := c19PrimeWithBits(c, 54, n, map[uint64]bool{a: true})
		p := c19PrimeWithBits(c, 56, n, map[uint64]bool{a: true, b: true})
		q62a := c19PrimeWithBits(c, 62, n, nil)
		q62b := c19PrimeWithBits(c, 62, n, map[uint64]bool{q62a: true})
		for _, x := range []struct {
			name, key string
			lit       bgv.ParametersLiteral
			inv       bool
		}{
			{"control", "C19-bgv-arithmetic", bgv.ParametersLiteral{LogN: 6, Q: []uint64{a, b}, P: []uint64{p}, PlaintextModulus: 65537}, false},
			{"control-scale-invariant", "C19-bgv-arithmetic", bgv.ParametersLiteral{LogN: 6, Q: []uint64{a, b}, P: []uint64{p}, PlaintextModulus: 65537}, true},
			{"t-in-P", "C19-bgv-t-divides-p", bgv.ParametersLiteral{LogN: 6, Q: []uint64{a, b}, P: []uint64{65537}, PlaintextModulus: 65537}, false},
			{"t-in-P-scale-invariant", "C19-bgv-t-divides-p", bgv.ParametersLiteral{LogN: 6, Q: []uint64{a, b}, P: []uint64{65537}, PlaintextModulus: 65537}, true},
			{"Q-is-the-61-bit-downstream-primes-scale-invariant", "C19-bgv-qmul-shares-prime-with-q", bgv.ParametersLiteral{LogN: 6, Q: d61, P: []uint64{p}, PlaintextModulus: 65537}, true},
			{"Q-and-P-share-a-prime", "C19-qp-shared-prime", bgv.ParametersLiteral{LogN: 6, Q: []uint64{a, b}, P: []uint64{b}, PlaintextModulus: 65537}, false},
			{"62-bit-Q", "C19-modulus-over-61-bits", bgv.ParametersLiteral{LogN: 6, Q: []uint64{q62a, q62b}, P: []uint64{p}, PlaintextModulus: 65537}, false},
		} {
			d := c19BgvArithmetic(x.lit, x.inv)
			if d == "rejected" && (x.key == "C19-qp-shared-prime" || x.key == "C19-modulus-over-61-bits") {
				d = "" // literals that must not be accepted: rejection is the correct outcome (fixes C19-1, C19-2)
				c.Count("bgv-arithmetic:rejected-as-required")
			}
			c.Probe("accepted_then_bgv_arithmetic", fmt.Sprintf("case=%s logN=6 Q=%s P=%s t=%d", x.name, Vec(x.lit.Q), Vec(x.lit.P), x.lit.PlaintextModulus), x.key, d)
		}
	}
	for _, r := range rings {
		n2 := uint64(2) << uint(r.logN)
		ts := []uint64{0, 1, 2, 3, 4, 5, 16, 17, 97, 193, 257, 65537, 786433, r.Q[0], r.Q[1], r.Q[0] + 1, r.Q[0] - 1, r.Q[1] + 2, 1 << 63, ^uint64(0)}
		if len(r.P) > 0 {
			ts = append(ts, r.P[0])
		}
		// every residue class modulo 64 (covers 2N for logN=4 and the order computation in general):
		// one prime when the class contains one below Q[0], and one composite
		for res := uint64(0); res < 64; res++ {
			found := false
			for x := res + 64*uint64(1+c.rng.Intn(50)); x < res+64*4000; x += 64 {
				if ring.IsPrime(x) {
					ts = append(ts, x)
					found = true
					break
				}
			}
			if !found || c.rng.Intn(3) == 0 {
				ts = append(ts, res+64*uint64(3+c.rng.Intn(1000)))
			}
		}
		// powers of two plus one, primes 1 mod 2^k exactly
		for k := uint(1); k < 40; k++ {
			ts = append(ts, uint64(1)<<k+1)
			if k >= 3 && k <= 24 {
				for x := uint64(1)<<k + 1; x < uint64(1)<<36; x += uint64(2) << k {
					if ring.IsPrime(x) {
						ts = append(ts, x)
						break
					}
				}
			}
		}
		_ = n2
		if !c.Thorough() && r.logN == 10 {
			ts = ts[:40]
		}
		for _, t := range ts {
			emitBgv(r, t)
		}
	}
}

// ---------------------------------------------------------------- derived quantities

func c19SortedU(v []uint64) []uint64 {
	w := append([]uint64{}, v...)
	sort.Slice(w, func(i, j int) bool { return w[i] < w[j] })
	// the Go functions return a set in map order: duplicates cannot occur
	return w
}

func c19Derived(c *Ctx) {
	for i := 0; i < c.Scale(24, 600); i++ {
		logN := 4 + c.rng.Intn(9)
		rt := c.rng.Intn(2)
		lds := []int{20, 30, 45, 64, 65, 90, 128}[c.rng.Intn(7)]
		nq, np := 1+c.rng.Intn(6), c.rng.Intn(3)
		lq, lp := make([]int, nq), make([]int, np)
		for j := range lq {
			lq[j] = 30 + c.rng.Intn(31)
		}
		for j := range lp {
			lp[j] = 30 + c.rng.Intn(32)
		}
		p, err := ckks.NewParametersFromLiteral(ckks.ParametersLiteral{LogN: logN, LogQ: lq, LogP: lp, RingType: ring.Type(rt), LogDefaultScale: lds})
		if err != nil {
			panic(err)
		}
		N := 1 << uint(logN)
		ks := []int{-5, -1, 0, 1, 2, 3, 7, N / 2, N, 2*N + 1, 4*N - 1, c.rng.Intn(1 << 30), -c.rng.Intn(1 << 30)}
		pairs := [][2]int{{1, 4}, {2, 8}, {1, 7}, {3, 5}, {1, 1}, {1, N / 2}, {1 + c.rng.Intn(4), 1 + c.rng.Intn(N)}}
		var tr []int
		if rt == 0 {
			tr = []int{0, 1, 2, logN - 1, logN - 2}
		}
		out := Try(func() string {
			gal := make([]uint64, len(ks))
			inv := make([]uint64, len(ks))
			for j, k := range ks {
				gal[j] = p.GaloisElement(k)
				inv[j] = p.ModInvGaloisElement(gal[j])
			}
			var isum, rep, trs []string
			for _, bn := range pairs {
				isum = append(isum, Vec(c19SortedU(rlwe.GaloisElementsForInnerSum(p, bn[0], bn[1]))))
				rep = append(rep, Vec(c19SortedU(rlwe.GaloisElementsForReplicate(p, bn[0], bn[1]))))
			}
			for _, l := range tr {
				trs = append(trs, Vec(rlwe.GaloisElementsForTrace(p, l)))
			}
			bitP := 0
			if p.RingP() != nil {
				bitP = p.RingP().ModulusAtLevel[p.MaxLevelP()].BitLen()
			}
			join := func(s []string) string {
				r := ""
				for i, x := range s {
					if i > 0 {
						r += ";"
					}
					r += x
				}
				return r
			}
			return fmt.Sprintf("N=%d nthroot=%d lognthroot=%d maxlevel=%d maxlevelP=%d qcount=%d pcount=%d slots=%d logslots=%d depth=%d bitQ=%d bitP=%d gal=%s galinv=%s isum=%s rep=%s tr=%s",
				p.N(), p.NthRoot(), p.LogNthRoot(), p.MaxLevel(), p.MaxLevelP(), p.QCount(), p.PCount(), p.MaxSlots(), p.LogMaxSlots(), p.MaxDepth(),
				p.RingQ().ModulusAtLevel[p.MaxLevel()].BitLen(), bitP, Vec(gal), Vec(inv), join(isum), join(rep), join(trs))
		})
		ps := ""
		for j, bn := range pairs {
			if j > 0 {
				ps += ";"
			}
			ps += fmt.Sprintf("%d:%d", bn[0], bn[1])
		}
		c.Emit(fmt.Sprintf("derived logN=%d rt=%d Q=%s P=%s lds=%d ks=%s is=%s tr=%s", logN, rt, Vec(p.Q()), Vec(p.P()), lds, IVec(ks), ps, IVec(tr)), out)
		c.Count("derived")
		// consistency of the inverse Galois element on the real code
		d := ""
		nth := uint64(p.NthRoot())
		for _, k := range ks {
			g := p.GaloisElement(k)
			hi, lo := bits.Mul64(g, p.ModInvGaloisElement(g))
			if hi != 0 || lo%nth != 1 {
				d = fmt.Sprintf("g*ginv != 1 mod NthRoot for k=%d", k)
			}
			if int(nth) > 8 && p.SolveDiscreteLogGaloisElement(g) != int(uint64(k)&(nth/4-1)) {
				d = fmt.Sprintf("dlog(GaloisElement(%d)) = %d", k, p.SolveDiscreteLogGaloisElement(g))
			}
		}
		c.Probe("galois_inverse_dlog", fmt.Sprintf("logN=%d rt=%d", logN, rt), "C19-galois-derived", d)
	}
}

// ---------------------------------------------------------------- exported literals vs table

func c19XsH(p rlwe.Parameters) int {
	if t, ok := p.Xs().(ring.Ternary); ok {
		return t.H
	}
	return 0
}

func c19SecretKind(logN, xsH int) int {
	if xsH == 0 || 2*xsH >= 1<<uint(logN) {
		return 0
	}
	return xsH
}

type c19TableRow struct {
	LogN     int    `json:"logN"`
	Kind     int    `json:"kind"`
	Secret   string `json:"secret"`
	MaxLogQP int    `json:"max_logQP"`
	Source   string `json:"source"`
	Quote    string `json:"quote"`
}

type c19TableFile struct {
	Convention string        `json:"convention"`
	Rows       []c19TableRow `json:"rows"`
}

// built-in mirror of spec/security_table.json (used when the file is not found)
var c19BuiltinTable = map[[2]int]int{
	{10, 0}: 27, {11, 0}: 54, {12, 0}: 109, {13, 0}: 218, {14, 0}: 438, {15, 0}: 881, {16, 0}: 1793,
	{15, 192}: 768, {16, 192}: 1550, {16, 32}: 115,
}

func c19LoadTable(c *Ctx) map[[2]int]int {
	cands := []string{os.Getenv("VERIF_SPEC")}
	if exe, err := os.Executable(); err == nil {
		cands = append(cands, filepath.Join(filepath.Dir(exe), "spec", "security_table.json"),
			filepath.Join(filepath.Dir(exe), "..", "spec", "security_table.json"))
	}
	cands = append(cands, "spec/security_table.json", "../spec/security_table.json", "/verif/spec/security_table.json")
	for _, f := range cands {
		if f == "" {
			continue
		}
		b, err := os.ReadFile(f)
		if err != nil {
			continue
		}
		var tf c19TableFile
		if err = json.Unmarshal(b, &tf); err != nil {
			continue
		}
		m := map[[2]int]int{}
		for _, r := range tf.Rows {
			m[[2]int{r.LogN, r.Kind}] = r.MaxLogQP
		}
		c.Count("table:from-json")
		return m
	}
	c.Count("table:builtin")
	return c19BuiltinTable
}

func c19EmitExported(c *Ctx, tbl map[[2]int]int, name string, logN, xsH int, q, p []uint64, probe bool) {
	pq, bq := c19ProdBits(q)
	pp, bp := c19ProdBits(p)
	qp := new(big.Int).Mul(pq, pp)
	kind := c19SecretKind(logN, xsH)
	t, ok := tbl[[2]int{logN, kind}]
	ts, within, strict := "none", 0, 0
	if ok {
		ts = I(t)
		// convention: log2(QP) < T + 1/2, i.e. QP^2 < 2^(2T+1); strict: QP < 2^T
		if new(big.Int).Mul(qp, qp).Cmp(new(big.Int).Lsh(big.NewInt(1), uint(2*t+1))) < 0 {
			within = 1
		}
		if qp.Cmp(new(big.Int).Lsh(big.NewInt(1), uint(t))) < 0 {
			strict = 1
		}
	}
	args := fmt.Sprintf("name=%s logN=%d xsH=%d Q=%s P=%s", name, logN, xsH, Vec(q), Vec(p))
	c.Emit("exported "+args, fmt.Sprintf("bitQ=%d bitP=%d bitQP=%d kind=%d table=%s within=%d strict=%d known=1", bq, bp, qp.BitLen(), kind, ts, within, strict))
	c.Count("exported")
	if probe {
		d := ""
		if within == 0 {
			d = fmt.Sprintf("%s: logN=%d secret=%d bitlen(QP)=%d (log2 QP >= table+0.5) table=%s", name, logN, kind, qp.BitLen(), ts)
		}
		c.Probe("exported_within_table", "name="+name, "C19-exported-above-table:"+name, d)
	}
}

func c19Exported(c *Ctx) {
	tbl := c19LoadTable(c)
	{
		p, err := rlwe.NewParametersFromLiteral(rlwe.ExampleParametersLogN14LogQP438)
		c19ExportedOne(c, tbl, "rlwe.ExampleParametersLogN14LogQP438", err, func() (rlwe.Parameters, string) { return p, c19RlweRoundTrip(p) })
	}
	{
		p, err := bgv.NewParametersFromLiteral(bgv.ExampleParameters128BitLogN14LogQP438)
		c19ExportedOne(c, tbl, "bgv.ExampleParameters128BitLogN14LogQP438", err, func() (rlwe.Parameters, string) { return p.Parameters, c19BgvRoundTrip(p) })
	}
	{
		p, err := ckks.NewParametersFromLiteral(ckks.ExampleParameters128BitLogN14LogQP438)
		c19ExportedOne(c, tbl, "ckks.ExampleParameters128BitLogN14LogQP438", err, func() (rlwe.Parameters, string) { return p.Parameters, c19CkksRoundTrip(p) })
	}
	bgvSets := map[string]bgv.ParametersLiteral{
		"examples.BGVParamsN12QP109": examples.BGVParamsN12QP109, "examples.BGVParamsN13QP218": examples.BGVParamsN13QP218,
		"examples.BGVParamsN14QP438": examples.BGVParamsN14QP438, "examples.BGVParamsN15QP880": examples.BGVParamsN15QP880,
		"examples.BGVScaleInvariantParamsN12QP109": examples.BGVScaleInvariantParamsN12QP109, "examples.BGVScaleInvariantParamsN13QP218": examples.BGVScaleInvariantParamsN13QP218,
		"examples.BGVScaleInvariantParamsN14QP438": examples.BGVScaleInvariantParamsN14QP438, "examples.BGVScaleInvariantParamsN15QP880": examples.BGVScaleInvariantParamsN15QP880,
	}
	for _, name := range c19Keys(bgvSets) {
		p, err := bgv.NewParametersFromLiteral(bgvSets[name])
		c19ExportedOne(c, tbl, name, err, func() (rlwe.Parameters, string) { return p.Parameters, c19BgvRoundTrip(p) })
	}
	ckksSets := map[string]ckks.ParametersLiteral{
		"examples.CKKSComplexParamsN12QP109": examples.CKKSComplexParamsN12QP109, "examples.CKKSComplexParamsN13QP218": examples.CKKSComplexParamsN13QP218,
		"examples.CKKSComplexParamsN14QP438": examples.CKKSComplexParamsN14QP438, "examples.CKKSComplexParamsN15QP881": examples.CKKSComplexParamsN15QP881,
		"examples.CKKSComplexParamsPN16QP1761": examples.CKKSComplexParamsPN16QP1761,
		"examples.CKKSRealParamsN12QP109":      examples.CKKSRealParamsN12QP109, "examples.CKKSRealParamsN13QP218": examples.CKKSRealParamsN13QP218,
		"examples.CKKSRealParamsN14QP438": examples.CKKSRealParamsN14QP438, "examples.CKKSRealParamsN15QP881": examples.CKKSRealParamsN15QP881,
		"examples.CKKSRealParamsPN16QP1761": examples.CKKSRealParamsPN16QP1761,
	}
	for _, name := range c19Keys(ckksSets) {
		p, err := ckks.NewParametersFromLiteral(ckksSets[name])
		c19ExportedOne(c, tbl, name, err, func() (rlwe.Parameters, string) { return p.Parameters, c19CkksRoundTrip(p) })
	}
	// bootstrapping defaults: residual parameters, the full bootstrapping chain (protected by the residual
	// secret), and the modulus of the ephemeral-secret encapsulation keys (Q[:1], P[:1], weight 32)
	type btpSet struct {
		name string
		s    ckks.ParametersLiteral
		b    bootstrapping.ParametersLiteral
	}
	var sets []btpSet
	names := []string{"N16QP1546H192H32", "N16QP1547H192H32", "N16QP1553H192H32", "N15QP768H192H32"}
	for i, d := range bootstrapping.DefaultParametersSparse {
		sets = append(sets, btpSet{"bootstrapping." + names[i], d.SchemeParams, d.BootstrappingParams})
	}
	names = []string{"N16QP1767H32768H32", "N16QP1788H32768H32", "N16QP1793H32768H32", "N15QP880H16384H32"}
	for i, d := range bootstrapping.DefaultParametersDense {
		sets = append(sets, btpSet{"bootstrapping." + names[i], d.SchemeParams, d.BootstrappingParams})
	}
	for _, s := range sets {
		res, err := ckks.NewParametersFromLiteral(s.s)
		c19ExportedOne(c, tbl, s.name+":residual", err, func() (rlwe.Parameters, string) { return res.Parameters, c19CkksRoundTrip(res) })
		if err != nil {
			continue
		}
		var btp bootstrapping.Parameters
		d := c19Run(c19Slow, func() string {
			var e error
			if btp, e = bootstrapping.NewParametersFromLiteral(res, s.b); e != nil {
				return "bootstrapping.NewParametersFromLiteral(residual, literal): " + c19Sanitize(e.Error())
			}
			return ""
		})
		c.Probe("exported_instantiable", "name="+s.name+":bootstrapping", "C19-exported-not-instantiable:"+s.name, d)
		suffix := ":bootstrapping"
		if d != "" {
			// the N15… sets leave the bootstrapping LogN at its default 16; retry at the residual degree
			b := s.b
			b.LogN = utils.Pointy(res.LogN())
			var e error
			if btp, e = bootstrapping.NewParametersFromLiteral(res, b); e != nil {
				continue
			}
			suffix = fmt.Sprintf(":bootstrapping-with-LogN%d", res.LogN())
		}
		bp := btp.BootstrappingParameters
		c19EmitExported(c, tbl, s.name+suffix, bp.LogN(), c19XsH(res.Parameters), bp.Q(), bp.P(), true)
		if btp.EphemeralSecretWeight != 0 {
			c19EmitExported(c, tbl, s.name+":ephemeral", bp.LogN(), btp.EphemeralSecretWeight, bp.Q()[:1], bp.P()[:1], false)
		}
	}
}

func c19Keys[V any](m map[string]V) []string {
	var ks []string
	for k := range m {
		ks = append(ks, k)
	}
	sort.Strings(ks)
	return ks
}

func c19ExportedOne(c *Ctx, tbl map[[2]int]int, name string, err error, get func() (rlwe.Parameters, string)) {
	d := ""
	if err != nil {
		d = "constructor: " + c19Sanitize(err.Error())
	}
	c.Probe("exported_instantiable", "name="+name, "C19-exported-not-instantiable:"+name, d)
	if err != nil {
		return
	}
	p, rt := get()
	c19EmitExported(c, tbl, name, p.LogN(), c19XsH(p), p.Q(), p.P(), true)
	c.Probe("params_roundtrip", "name="+name, "C19-params-roundtrip", rt)
}

func c19Table(c *Ctx) {
	tbl := c19LoadTable(c)
	for logN := 8; logN <= 18; logN++ {
		for _, k := range []int{0, 32, 64, 192} {
			out := "none"
			if t, ok := tbl[[2]int{logN, k}]; ok {
				out = I(t)
			}
			c.Emit(fmt.Sprintf("table logN=%d kind=%d", logN, k), out)
			c.Count("table")
		}
	}
}

// ---------------------------------------------------------------- inputs on which the unpatched code never returned (fixes C19-3, C19-4)

func c19Hangs(c *Ctx) {
	good := c19PrimeWithBits(c, 40, 1<<11, nil)
	// NthRoot = uint64(1<<64) = 0: the candidates never move
	l := c19Lit{LogN: 10, Root: 64, LogQ: []int{30}, XsH: -1, XeS: -1}
	c19EmitRlwe(c, l, c19Slow, "hang")
	// LogP=61 uses NextDownstreamPrimes, whose loop has no exit once 2^61+1 < NthRoot
	l = c19Lit{LogN: 10, Root: 62, Q: []uint64{good}, LogP: []int{61}, XsH: -1, XeS: -1}
	c19EmitRlwe(c, l, c19Slow, "hang")
	// the same through the JSON codec of a scheme literal (LogNthRoot is a JSON field of ckks and bgv literals)
	d := c19Run(c19Slow, func() string {
		var p ckks.Parameters
		_ = p.UnmarshalJSON([]byte(`{"LogN":10,"LogNthRoot":64,"LogQ":[30],"LogDefaultScale":30}`))
		return ""
	})
	if d != "" {
		d = `ckks.Parameters.UnmarshalJSON({"LogN":10,"LogNthRoot":64,"LogQ":[30],"LogDefaultScale":30}): ` + d
	}
	c.Probe("json_literal_terminates", "ckks LogNthRoot=64", "C19-literal-hang", d)
	d = c19Run(c19Slow, func() string {
		var p bgv.Parameters
		_ = p.UnmarshalJSON([]byte(`{"LogN":-3,"LogNthRoot":-1,"LogQ":[30],"PlaintextModulus":65537}`))
		return ""
	})
	if d != "" {
		d = `bgv.Parameters.UnmarshalJSON({"LogN":-3,"LogNthRoot":-1,"LogQ":[30],"PlaintextModulus":65537}): ` + d
	}
	c.Probe("json_literal_terminates", "bgv LogNthRoot=-1", "C19-literal-panic", d)
}
