package main

// Helpers of the C20 generator (RGSW external products, blind rotation).  Everything is prefixed
// c20 so that it cannot collide with the other work packages.

import (
	"fmt"
	"hash/fnv"
	"math/big"
	"math/bits"
	"strings"

	"github.com/tuneinsight/lattigo/v6/core/rgsw"
	"github.com/tuneinsight/lattigo/v6/core/rlwe"
	"github.com/tuneinsight/lattigo/v6/ring"
	"github.com/tuneinsight/lattigo/v6/ring/ringqp"
	"github.com/tuneinsight/lattigo/v6/utils/sampling"
)

// ---------- parameter sets ----------

type c20PS struct {
	params rlwe.Parameters
	logN   int
	Q, P   []uint64
}

func (ps *c20PS) N() int { return 1 << ps.logN }

// c20PrimeGen hands out distinct NTT-friendly primes (for 2N | q-1 with logN <= 11).
type c20PrimeGen struct {
	gens map[string]*ring.NTTFriendlyPrimesGenerator
	used map[uint64]bool
}

func newC20PrimeGen() *c20PrimeGen {
	return &c20PrimeGen{gens: map[string]*ring.NTTFriendlyPrimesGenerator{}, used: map[uint64]bool{}}
}

// next returns a prime of about `b` bits; dir = +1 just above 2^b, -1 just below, 0 alternating.
func (g *c20PrimeGen) next(b int, nthRoot uint64, dir int) uint64 {
	key := fmt.Sprintf("%d/%d/%d", b, nthRoot, dir)
	gg, ok := g.gens[key]
	if !ok {
		x := ring.NewNTTFriendlyPrimesGenerator(uint64(b), nthRoot)
		gg = &x
		g.gens[key] = gg
	}
	for {
		var p uint64
		var err error
		switch dir {
		case 1:
			p, err = gg.NextUpstreamPrime()
		case -1:
			p, err = gg.NextDownstreamPrime()
		default:
			p, err = gg.NextAlternatingPrime()
		}
		if err != nil {
			panic(fmt.Sprintf("c20: no prime of %d bits: %v", b, err))
		}
		if !g.used[p] {
			g.used[p] = true
			return p
		}
	}
}

func c20NewPS(logN int, Q, P []uint64) (*c20PS, error) { return c20NewPSFlag(logN, Q, P, true) }

func c20NewPSFlag(logN int, Q, P []uint64, ntt bool) (*c20PS, error) {
	return c20NewPSXs(logN, Q, P, ntt, nil)
}

// c20NewPSXs: parameters with the secret distribution xs (nil: the default).
func c20NewPSXs(logN int, Q, P []uint64, ntt bool, xs ring.DistributionParameters) (*c20PS, error) {
	lit := rlwe.ParametersLiteral{LogN: logN, Q: Q, NTTFlag: ntt, Xs: xs}
	if len(P) > 0 {
		lit.P = P
	}
	params, err := rlwe.NewParametersFromLiteral(lit)
	if err != nil {
		return nil, err
	}
	return &c20PS{params: params, logN: logN, Q: Q, P: P}, nil
}

// ---------- canonical forms ----------

func (ps *c20PS) canonQ(p ring.Poly, lq int, isNTT, isMont bool) [][]uint64 {
	return Canon(ps.params.RingQ().AtLevel(lq), p, isNTT, isMont)
}

func (ps *c20PS) canonQP(p ringqp.Poly, lq, lp int, isNTT, isMont bool) [][]uint64 {
	rows := Canon(ps.params.RingQ().AtLevel(lq), p.Q, isNTT, isMont)
	if lp >= 0 {
		rows = append(rows, Canon(ps.params.RingP().AtLevel(lp), p.P, isNTT, isMont)...)
	}
	return rows
}

func c20Polys(ps [][][]uint64) string {
	if len(ps) == 0 {
		return "-"
	}
	parts := make([]string, len(ps))
	for i := range ps {
		parts[i] = Mat(ps[i])
	}
	return strings.Join(parts, "/")
}

func c20I64Vec(v []int64) string {
	if len(v) == 0 {
		return "-"
	}
	var sb strings.Builder
	for i, x := range v {
		if i > 0 {
			sb.WriteByte(',')
		}
		fmt.Fprintf(&sb, "%d", x)
	}
	return sb.String()
}

func c20IVecs(vs [][]int64) string {
	if len(vs) == 0 {
		return "-"
	}
	parts := make([]string, len(vs))
	for i := range vs {
		parts[i] = c20I64Vec(vs[i])
	}
	return strings.Join(parts, "/")
}

func c20Centered(row []uint64, q uint64) []int64 {
	out := make([]int64, len(row))
	for i, x := range row {
		if x > q/2 {
			out[i] = -int64(q - x)
		} else {
			out[i] = int64(x)
		}
	}
	return out
}

func c20ResidueOf(x int64, q uint64) uint64 {
	if x < 0 {
		r := uint64(-x) % q
		if r != 0 {
			r = q - r
		}
		return r
	}
	return uint64(x) % q
}

// c20SmallInts returns the small integer polynomial represented by rows and panics if the rows
// disagree (the model would otherwise be fed a lie).
func c20SmallInts(rows [][]uint64, moduli []uint64) []int64 {
	v := c20Centered(rows[0], moduli[0])
	for k := 1; k < len(rows); k++ {
		for t, x := range v {
			if rows[k][t] != c20ResidueOf(x, moduli[k]) {
				panic(fmt.Sprintf("c20: rows do not represent one small integer polynomial (row %d coeff %d)", k, t))
			}
		}
	}
	return v
}

func (ps *c20PS) moduliQP(lq, lp int) []uint64 {
	m := append([]uint64{}, ps.Q[:lq+1]...)
	if lp >= 0 {
		m = append(m, ps.P[:lp+1]...)
	}
	return m
}

func (ps *c20PS) secretInts(sk *rlwe.SecretKey) []int64 {
	lq, lp := sk.LevelQ(), sk.LevelP()
	return c20SmallInts(ps.canonQP(sk.Value, lq, lp, true, true), ps.moduliQP(lq, lp))
}

func (ps *c20PS) rowsFromInts(v []int64, lvl int) [][]uint64 {
	rows := make([][]uint64, lvl+1)
	for k := 0; k <= lvl; k++ {
		rows[k] = make([]uint64, len(v))
		for t, x := range v {
			rows[k][t] = c20ResidueOf(x, ps.Q[k])
		}
	}
	return rows
}

// rowsFromBig: residues of signed big integers.
func (ps *c20PS) rowsFromBig(v []*big.Int, lvl int) [][]uint64 {
	rows := make([][]uint64, lvl+1)
	t := new(big.Int)
	for k := 0; k <= lvl; k++ {
		q := new(big.Int).SetUint64(ps.Q[k])
		rows[k] = make([]uint64, len(v))
		for i, x := range v {
			rows[k][i] = t.Mod(x, q).Uint64()
		}
	}
	return rows
}

func (ps *c20PS) polyFromRows(rows [][]uint64, ntt bool) ring.Poly {
	lvl := len(rows) - 1
	r := ps.params.RingQ().AtLevel(lvl)
	p := r.NewPoly()
	for i := range rows {
		copy(p.Coeffs[i], rows[i])
	}
	if ntt {
		r.NTT(p, p)
	}
	return p
}

func c20ProdBig(v []uint64) *big.Int {
	r := big.NewInt(1)
	for _, x := range v {
		r.Mul(r, new(big.Int).SetUint64(x))
	}
	return r
}

// ---------- twin of the randomness of an rlwe/rgsw encryptor ----------

// c20EncTwin reproduces the PRNG and the samplers of rlwe.newEncryptor: one keyed PRNG shared by
// xeSampler, xsSampler and the uniform QP sampler, created in that order.
type c20EncTwin struct {
	ps   *c20PS
	prng *sampling.KeyedPRNG
	xe   ring.Sampler
	xs   ring.Sampler
	uni  ringqp.UniformSampler
}

func (ps *c20PS) twinFromKey(key []byte) *c20EncTwin {
	prng, err := sampling.NewKeyedPRNG(key)
	if err != nil {
		panic(err)
	}
	xe, err := ring.NewSampler(prng, ps.params.RingQ(), ps.params.Xe(), false)
	if err != nil {
		panic(err)
	}
	xs, err := ring.NewSampler(prng, ps.params.RingQ(), ps.params.Xs(), false)
	if err != nil {
		panic(err)
	}
	uni := ringqp.NewUniformSampler(prng, *ps.params.RingQP())
	return &c20EncTwin{ps: ps, prng: prng, xe: xe, xs: xs, uni: uni}
}

// newRGSWEncryptorWithTwin creates the real encryptor and the twin of its randomness.
func (ps *c20PS) newRGSWEncryptorWithTwin(sk *rlwe.SecretKey) (*rgsw.Encryptor, *c20EncTwin) {
	mark := RandMark()
	enc := rgsw.NewEncryptor(ps.params, sk)
	keys := RandKeysSince(mark)
	if len(keys) != 1 || len(keys[0]) != 64 {
		panic(fmt.Sprintf("c20: rgsw.NewEncryptor read %d PRNG keys", len(keys)))
	}
	return enc, ps.twinFromKey(keys[0])
}

// replayRow performs the draws of one EncryptZero of a gadget row: the uniform c1 (canonical QP rows as a
// Montgomery-domain value) and the error (signed integers).
func (tw *c20EncTwin) replayRow(lq, lp int, aIsMont bool) (a [][]uint64, e []int64) {
	ps := tw.ps
	ap := ps.params.RingQP().AtLevel(lq, lp).NewPoly()
	if lp < 0 {
		ap = ringqp.Poly{Q: ps.params.RingQ().AtLevel(lq).NewPoly()}
	}
	tw.uni.AtLevel(lq, lp).Read(ap)
	ep := ps.params.RingQ().AtLevel(lq).NewPoly()
	tw.xe.AtLevel(lq).Read(ep)
	a = ps.canonQP(ap, lq, lp, true, aIsMont)
	e = c20SmallInts(ps.canonQ(ep, lq, false, false), ps.Q[:lq+1])
	return
}

// replayRGSW: the draws of rgsw.Encryptor.EncryptZero(ct): for every (i, j) first the row of Value[0], then
// the row of Value[1].
func (tw *c20EncTwin) replayRGSW(lq, lp int, shape []int, aIsMont bool) (A0, A1 [][][]uint64, E0, E1 [][]int64) {
	for i := range shape {
		for j := 0; j < shape[i]; j++ {
			a, e := tw.replayRow(lq, lp, aIsMont)
			A0, E0 = append(A0, a), append(E0, e)
			a, e = tw.replayRow(lq, lp, aIsMont)
			A1, E1 = append(A1, a), append(E1, e)
		}
	}
	return
}

// ---------- RGSW ciphertexts on the line ----------

func c20Shape(ct *rgsw.Ciphertext) []int { return ct.Value[0].BaseTwoDecompositionVectorSize() }

// rgswPolys flattens an RGSW ciphertext into four lists of canonical QP polynomials
// (Value[0] comp 0, Value[0] comp 1, Value[1] comp 0, Value[1] comp 1), (i, j) row-major.
func (ps *c20PS) rgswPolys(ct *rgsw.Ciphertext) (out [4][][][]uint64) {
	lq, lp := ct.LevelQ(), ct.LevelP()
	for i := range ct.Value[0].Value {
		for j := range ct.Value[0].Value[i] {
			for v := 0; v < 2; v++ {
				for u := 0; u < 2; u++ {
					out[2*v+u] = append(out[2*v+u], ps.canonQP(ct.Value[v].Value[i][j][u], lq, lp, true, true))
				}
			}
		}
	}
	return
}

func c20RGSWArgs(prefix string, p [4][][][]uint64) string {
	return fmt.Sprintf("%s00=%s %s01=%s %s10=%s %s11=%s", prefix, c20Polys(p[0]), prefix, c20Polys(p[1]), prefix, c20Polys(p[2]), prefix, c20Polys(p[3]))
}

func c20RGSWOut(p [4][][][]uint64) string {
	return c20Polys(p[0]) + "|" + c20Polys(p[1]) + "|" + c20Polys(p[2]) + "|" + c20Polys(p[3])
}

// mformRGSW moves every stored polynomial of the ciphertext to the Montgomery domain (the repair of the
// rows produced by the branch without auxiliary modulus, applied BEFORE the message is added).
func (ps *c20PS) mformRGSW(ct *rgsw.Ciphertext) {
	lq := ct.LevelQ()
	r := ps.params.RingQ().AtLevel(lq)
	for v := 0; v < 2; v++ {
		for i := range ct.Value[v].Value {
			for j := range ct.Value[v].Value[i] {
				for u := 0; u < 2; u++ {
					r.MForm(ct.Value[v].Value[i][j][u].Q, ct.Value[v].Value[i][j][u].Q)
				}
			}
		}
	}
}

// ---------- RLWE ciphertexts built by hand ----------

// mulBySecret returns a*s in the coefficient domain; a canonical coefficient rows, s NTT+Montgomery.
func (ps *c20PS) mulBySecret(a ring.Poly, s ring.Poly) ring.Poly {
	lvl := a.Level()
	r := ps.params.RingQ().AtLevel(lvl)
	t := r.NewPoly()
	r.NTT(a, t)
	r.MulCoeffsMontgomery(t, s, t)
	r.INTT(t, t)
	return t
}

// mkCt builds (c0, c1) in the NTT domain with c1 given (canonical rows) and c0 = me - c1*s, me given as rows.
func (ps *c20PS) mkCt(sk *rlwe.SecretKey, me [][]uint64, c1 [][]uint64) *rlwe.Ciphertext {
	lvl := len(c1) - 1
	r := ps.params.RingQ().AtLevel(lvl)
	ct := rlwe.NewCiphertext(ps.params, 1, lvl)
	ct.IsNTT = true
	c0 := ps.polyFromRows(me, false)
	c1p := ps.polyFromRows(c1, false)
	r.Sub(c0, ps.mulBySecret(c1p, sk.Value.Q), c0)
	r.NTT(c0, ct.Value[0])
	r.NTT(c1p, ct.Value[1])
	return ct
}

func (ps *c20PS) ctPolys(ct *rlwe.Ciphertext, lvl int) (out [][][]uint64) {
	for i := range ct.Value {
		out = append(out, ps.canonQ(ct.Value[i], lvl, ct.IsNTT, false))
	}
	return
}

// phaseBig returns the centred integer coefficients of c0 + c1*s modulo Q_lvl.
func (ps *c20PS) phaseBig(ct *rlwe.Ciphertext, sk *rlwe.SecretKey, lvl int) []*big.Int {
	r := ps.params.RingQ().AtLevel(lvl)
	t := r.NewPoly()
	c0, c1 := r.NewPoly(), r.NewPoly()
	for i := 0; i <= lvl; i++ {
		copy(c0.Coeffs[i], ct.Value[0].Coeffs[i])
		copy(c1.Coeffs[i], ct.Value[1].Coeffs[i])
	}
	if !ct.IsNTT {
		r.NTT(c0, c0)
		r.NTT(c1, c1)
	}
	r.MulCoeffsMontgomery(c1, sk.Value.Q, t)
	r.Add(t, c0, t)
	r.INTT(t, t)
	coeffs := make([]*big.Int, ps.N())
	for i := range coeffs {
		coeffs[i] = new(big.Int)
	}
	r.PolyToBigintCentered(t, 1, coeffs)
	return coeffs
}

// negacyclicBig multiplies two integer polynomials in Z[X]/(X^N+1).
func c20NegacyclicBig(a []*big.Int, b []int64) []*big.Int {
	n := len(a)
	out := make([]*big.Int, n)
	for i := range out {
		out[i] = new(big.Int)
	}
	t := new(big.Int)
	for i := 0; i < n; i++ {
		if a[i].Sign() == 0 {
			continue
		}
		for j := 0; j < n; j++ {
			if b[j] == 0 {
				continue
			}
			t.Mul(a[i], big.NewInt(b[j]))
			k := i + j
			if k >= n {
				out[k-n].Sub(out[k-n], t)
			} else {
				out[k].Add(out[k], t)
			}
		}
	}
	return out
}

// c20DistModQ returns max_i |a_i - b_i mod Q| (centred).
func c20DistModQ(a, b []*big.Int, Q *big.Int) *big.Int {
	max := new(big.Int)
	half := new(big.Int).Rsh(Q, 1)
	d := new(big.Int)
	for i := range a {
		d.Sub(a[i], b[i])
		d.Mod(d, Q)
		if d.Cmp(half) > 0 {
			d.Sub(d, Q)
		}
		d.Abs(d)
		if d.Cmp(max) > 0 {
			max.Set(d)
		}
	}
	return max
}

func c20L1(v []int64) int64 {
	var s int64
	for _, x := range v {
		if x < 0 {
			s -= x
		} else {
			s += x
		}
	}
	return s
}

// ---------- decomposition facts (mirror of params.go, used for bounds and hypothesis monitors) ----------

// c20DigitSum returns sum over all gadget rows of the largest digit magnitude, and whether the gadget
// recombination identity sum_j d_ij 2^{wj} = c holds for every coefficient value (hypothesis of extprod_phase).
func (ps *c20PS) digitSum(lq, lp, w int, shape []int, fast32 bool) (sum *big.Int, recombines bool) {
	sum = new(big.Int)
	recombines = true
	if lp >= 1 {
		nP := lp + 1
		for i := range shape {
			st, ed := i*nP, (i+1)*nP
			if ed > lq+1 {
				ed = lq + 1
			}
			g := c20ProdBig(ps.Q[st:ed])
			g.Rsh(g, 1)
			g.Add(g, big.NewInt(1))
			sum.Add(sum, g)
		}
		return
	}
	for i := range shape {
		if w == 0 {
			sum.Add(sum, new(big.Int).SetUint64(ps.Q[i]-1))
			continue
		}
		d := new(big.Int).Lsh(big.NewInt(1), uint(w))
		d.Sub(d, big.NewInt(1))
		d.Mul(d, big.NewInt(int64(shape[i])))
		sum.Add(sum, d)
		if shape[i]*w < bits.Len64(ps.Q[i]-1) { // cannot happen since 170d739 (digit count = ceil(bitlen/w)); kept as a monitor
			recombines = false
		}
	}
	return
}

// extProdNoiseBound: ||noise added by one external product||_inf <=
//   (2 N B_e sum_ij D_ij) / P + (1 + ||s||_1)/2 + 1      (P = 1, no rounding term without P)
// with B_e the bound of the error distribution and D_ij the largest digit magnitude.
func (ps *c20PS) extProdNoiseBound(lq, lp int, digitSum *big.Int, sL1 int64) *big.Int {
	N := int64(ps.N())
	Be := int64(ps.params.NoiseBound()) + 1
	b := new(big.Int).Mul(digitSum, big.NewInt(2*N*Be))
	if lp >= 0 {
		b.Div(b, c20ProdBig(ps.P[:lp+1]))
		b.Add(b, big.NewInt((1+sL1)/2+2))
	}
	return b
}

// ---------- snapshots (input-unchanged probes) ----------

type c20Hasher struct{ h uint64 }

func (x *c20Hasher) poly(p ring.Poly) {
	f := fnv.New64a()
	var b [8]byte
	for _, row := range p.Coeffs {
		for _, v := range row {
			for i := 0; i < 8; i++ {
				b[i] = byte(v >> (8 * i))
			}
			f.Write(b[:])
		}
		f.Write([]byte{0xff})
	}
	x.h = x.h*1099511628211 ^ f.Sum64()
}

// c20SnapCt: every limb of every polynomial, and the metadata, of an RLWE ciphertext.
func c20SnapCt(ct *rlwe.Ciphertext) string {
	var x c20Hasher
	for _, p := range ct.Value {
		x.poly(p)
	}
	md := "nil"
	if ct.MetaData != nil {
		md = fmt.Sprintf("%+v", *ct.MetaData)
	}
	return fmt.Sprintf("%d/%d/%x/%s", len(ct.Value), ct.Level(), x.h, md)
}

func c20SnapGadget(x *c20Hasher, g *rlwe.GadgetCiphertext) {
	for i := range g.Value {
		for j := range g.Value[i] {
			for u := range g.Value[i][j] {
				x.poly(g.Value[i][j][u].Q)
				x.poly(g.Value[i][j][u].P)
			}
		}
	}
}

func c20SnapRGSW(rg *rgsw.Ciphertext) string {
	var x c20Hasher
	c20SnapGadget(&x, &rg.Value[0])
	c20SnapGadget(&x, &rg.Value[1])
	return fmt.Sprintf("%d/%d/%v/%x", rg.LevelQ(), rg.LevelP(), c20Shape(rg), x.h)
}

func c20SnapQP(p ringqp.Poly) string {
	var x c20Hasher
	x.poly(p.Q)
	x.poly(p.P)
	return fmt.Sprintf("%x", x.h)
}

func c20SnapPoly(p ring.Poly) string {
	var x c20Hasher
	x.poly(p)
	return fmt.Sprintf("%d/%x", p.Level(), x.h)
}

// c20Unchanged emits the probe: every named snapshot is the same before and after.
func c20Unchanged(c *Ctx, name, args, key string, before, after map[string]string) {
	detail := ""
	for k, v := range before {
		if after[k] != v && detail == "" {
			detail = fmt.Sprintf("operand %s was modified (%s -> %s)", k, v, after[k])
		}
	}
	c.Probe(name, args, key, detail)
}
