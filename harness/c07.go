package main

// C07 is served by two generators: the integer (BGV) encoder and the approximate (CKKS) encoder.
func init() {
	register("C07", func(c *Ctx) {
		genC07BGV(c)
		genC07CKKS(c)
	})
}
