package main

// C09 — (1) every way of NAMING the same storage, (2) independence of the output from the inputs, (3) operands
// whose metadata differ.
//
//   alias_naming/<op>/<pattern>[<how>]   the output is the same storage as an operand, named through
//        `x.El()` (the *rlwe.Element of the ciphertext, passed as rlwe.ElementInterface), or through a SECOND HEADER
//        `&rlwe.Ciphertext{Element: *x.El()}` (same Value slice, same MetaData pointer, another struct): the call
//        must be refused with an error, or produce what the call with a fresh distinct output produces (accumulating
//        operations: with a deep copy of the operand as accumulator).  A second header is not "the same object" for
//        the pointer comparisons of the library; those lines are counted (`naming_second_header_differs:*`) and probed
//        under their own key.
//   output_independent/<op>             after out := op(in…) with a fresh distinct out: out shares no polynomial
//        storage and no MetaData struct with an input; rewriting out (limbs, Scale, LogDimensions, IsBatched) leaves
//        the inputs bit-identical and rewriting the inputs leaves out bit-identical.  Run for every operation of the
//        catalogue, which includes the degenerate arguments (rotation by 0, galEl = 1, scalar 0 / 1, Rescale and
//        RescaleTo with nothing to do, ScaleUp by 1, PartialTracesSum n = 1, Trace over nothing) and for the …New forms.
//   e.dims                               LogDimensions of op0 smaller / larger than op1's in the alias and history runs
//        (all metadata fields are part of the compared fingerprint).

import (
	"fmt"
	"unsafe"

	"github.com/tuneinsight/lattigo/v6/core/rlwe"
	"github.com/tuneinsight/lattigo/v6/ring"
)

// addresses of the storage of an element: the Value slice, every Coeffs slice, every limb, the MetaData struct
func c09Storage(el *rlwe.Element[ring.Poly]) map[uintptr]bool {
	m := map[uintptr]bool{}
	if el == nil {
		return m
	}
	if len(el.Value) > 0 {
		m[uintptr(unsafe.Pointer(&el.Value[0]))] = true
	}
	for i := range el.Value {
		if len(el.Value[i].Coeffs) > 0 {
			m[uintptr(unsafe.Pointer(&el.Value[i].Coeffs[0]))] = true
		}
		for j := range el.Value[i].Coeffs {
			if len(el.Value[i].Coeffs[j]) > 0 {
				m[uintptr(unsafe.Pointer(&el.Value[i].Coeffs[j][0]))] = true
			}
		}
	}
	if el.MetaData != nil {
		m[uintptr(unsafe.Pointer(el.MetaData))] = true
	}
	return m
}

func c09ElementOf(x interface{}) *rlwe.Element[ring.Poly] {
	switch x := x.(type) {
	case *rlwe.Ciphertext:
		if x == nil {
			return nil
		}
		return x.El()
	case *rlwe.Plaintext:
		if x == nil {
			return nil
		}
		return x.El()
	case *rlwe.Element[ring.Poly]:
		return x
	}
	return nil
}

func c09ScribbleElement(el *rlwe.Element[ring.Poly]) {
	for i := range el.Value {
		for j := range el.Value[i].Coeffs {
			for k := range el.Value[i].Coeffs[j] {
				el.Value[i].Coeffs[j][k] ^= 0x5a5a5
			}
		}
	}
	if el.MetaData != nil {
		el.Scale = rlwe.NewScale(777)
		el.LogDimensions.Cols++
		el.LogDimensions.Rows++
		el.IsBatched = !el.IsBatched
		el.IsMontgomery = !el.IsMontgomery
	}
}

// c09Independent: see the file comment. The inputs and the output are rewritten: call it last.
func c09Independent(out *rlwe.Ciphertext, ins ...interface{}) string {
	if out == nil {
		return ""
	}
	d := ""
	so := c09Storage(out.El())
	var els []*rlwe.Element[ring.Poly]
	for k, in := range ins {
		el := c09ElementOf(in)
		if el == nil || el == out.El() {
			continue
		}
		els = append(els, el)
		n := 0
		for a := range c09Storage(el) {
			if so[a] {
				n++
			}
		}
		if n > 0 {
			d += fmt.Sprintf("output-shares-%d-addresses-with-input%d ", n, k)
		}
	}
	hin := make([]string, len(els))
	for k, el := range els {
		hin[k] = deepHash(el)
	}
	c09ScribbleElement(out.El())
	for k, el := range els {
		if deepHash(el) != hin[k] {
			d += fmt.Sprintf("rewriting-the-output-changed-input%d ", k)
		}
	}
	ho := deepHash(out.El())
	for _, el := range els {
		c09ScribbleElement(el)
	}
	if deepHash(out.El()) != ho {
		d += "rewriting-an-input-changed-the-output"
	}
	return d
}

// LogDimensions of op0 smaller / larger than op1's (metadata only; the operations propagate it, they never read it)
func (e *c09Env) applyDims(A *rlwe.Ciphertext, B interface{}) string {
	if e.dims == "" {
		return ""
	}
	elB := c09ElementOf(B)
	if elB == nil || elB.MetaData == nil {
		return ""
	}
	small := ring.Dimensions{Rows: 0, Cols: 1}
	if e.dims == "a<b" {
		A.LogDimensions = small
	} else {
		elB.LogDimensions = small
	}
	return "/dims:" + e.dims
}

func c09Header(x *rlwe.Ciphertext) *rlwe.Ciphertext { return &rlwe.Ciphertext{Element: *x.El()} }

// ---- (1) naming ----

func (e *c09Env) runNaming(op c09Op, rel string) {
	if op.raw == nil {
		return
	}
	c := e.c
	lvl := e.maxLevel()
	sc := fmt.Sprintf("%s/logN%d/P%d/%s", e.scheme, e.logN, e.nP, rel)
	mulA := uint64(1)
	if dir, k := c09Rel(rel); dir == "gt" {
		mulA = k
	}
	A := e.encrypt(1, lvl, mulA)
	B := e.operand("ct", rel, lvl).(*rlwe.Ciphertext)
	isAcc := containsStr(op.name, "ThenAdd")
	ACC := e.encrypt(5, lvl, 1) // the accumulator of the …ThenAdd operations when it is a distinct object
	if e.scheme == "ckks" {
		ACC.Scale = ACC.Scale.Mul(A.Scale) // scale of a product, as the documentation requires
	}
	fresh := func(lv int) *rlwe.Ciphertext { return e.newCt(op.outDeg, lv) }
	// reference: distinct deep copies; `acc` = content of the receiver for accumulating operations
	ref := func(x, y, acc *rlwe.Ciphertext) (c09FP, string) {
		a, b := x.CopyNew(), y.CopyNew()
		var out *rlwe.Ciphertext
		if isAcc {
			out = acc.CopyNew()
		} else {
			out = fresh(lvl)
		}
		err := c09Err(func() error { return op.raw(e.evals(), a, b, out) })
		if k := c09Outcome(err); k != "" {
			return c09FP{}, k
		}
		return e.fp(out), ""
	}
	type nm struct {
		pat, how string
		second   bool // goes through a second header
		run      func() (*rlwe.Ciphertext, error)
		ref      func() (c09FP, string)
	}
	var runs []nm
	add := func(pat, how string, second bool, run func() (*rlwe.Ciphertext, error), rf func() (c09FP, string)) {
		runs = append(runs, nm{pat, how, second, run, rf})
	}
	call := func(a *rlwe.Ciphertext, b rlwe.Operand, o *rlwe.Ciphertext) error {
		return c09Err(func() error { return op.raw(e.evals(), a, b, o) })
	}
	refAB_B := func() (c09FP, string) { return ref(A, B, B) }
	refAB_A := func() (c09FP, string) { return ref(A, B, A) }
	refAA_O := func() (c09FP, string) { return ref(A, A, ACC) }
	refAA_A := func() (c09FP, string) { return ref(A, A, A) }
	// out is op1
	add("out=op1", "op1.El()", false, func() (*rlwe.Ciphertext, error) { a, b := A.CopyNew(), B.CopyNew(); return b, call(a, b.El(), b) }, refAB_B)
	add("out=op1", "op1=header(out)", true, func() (*rlwe.Ciphertext, error) { a, b := A.CopyNew(), B.CopyNew(); return b, call(a, c09Header(b), b) }, refAB_B)
	add("out=op1", "out=header(op1)", true, func() (*rlwe.Ciphertext, error) {
		a, b := A.CopyNew(), B.CopyNew()
		h := c09Header(b)
		return h, call(a, b, h)
	}, refAB_B)
	// out is op0
	add("out=op0", "op0=header(out)", true, func() (*rlwe.Ciphertext, error) { a, b := A.CopyNew(), B.CopyNew(); return a, call(c09Header(a), b, a) }, refAB_A)
	add("out=op0", "out=header(op0)", true, func() (*rlwe.Ciphertext, error) {
		a, b := A.CopyNew(), B.CopyNew()
		h := c09Header(a)
		return h, call(a, b, h)
	}, refAB_A)
	if rel == "eq" {
		mkOut := func() *rlwe.Ciphertext {
			if isAcc {
				return ACC.CopyNew()
			}
			return fresh(lvl)
		}
		add("op0=op1", "op1=op0.El()", false, func() (*rlwe.Ciphertext, error) { a, o := A.CopyNew(), mkOut(); return o, call(a, a.El(), o) }, refAA_O)
		add("op0=op1", "op1=header(op0)", true, func() (*rlwe.Ciphertext, error) { a, o := A.CopyNew(), mkOut(); return o, call(a, c09Header(a), o) }, refAA_O)
		add("all", "op1=op0.El(),out=op0", false, func() (*rlwe.Ciphertext, error) { a := A.CopyNew(); return a, call(a, a.El(), a) }, refAA_A)
		add("all", "op1=header(op0),out=op0", true, func() (*rlwe.Ciphertext, error) { a := A.CopyNew(); return a, call(a, c09Header(a), a) }, refAA_A)
	}
	for _, r := range runs {
		res, err := r.run()
		c.Count("naming:" + op.name + "/" + r.pat)
		key := "C09-naming-" + op.name + "/" + r.pat
		name := "alias_naming/" + op.name + "/" + r.pat + "[" + r.how + "]"
		probe := func(d string) {
			if !r.second {
				c.Probe(name, sc, key, d)
				return
			}
			switch { // a second header is another object: statistics only
			case d == "":
				c.Count("second_header_same:" + op.name + "/" + r.pat)
			default:
				c.Count("second_header_differs:" + op.name + "/" + r.pat)
			}
		}
		if isPanic(err) {
			probe(err.Error())
			continue
		}
		if err != nil {
			c.Count("naming_refused:" + op.name + "/" + r.pat)
			if r.second {
				c.Count("second_header_refused:" + op.name + "/" + r.pat)
			} else {
				c.Probe(name, sc, key, "")
			}
			continue
		}
		want, refClass := r.ref()
		d := ""
		if refClass != "" {
			d = "accepted-but-the-call-on-distinct-copies-is-" + refClass
		} else if got := e.fp(res); !got.same(want) {
			d = "accepted-and-result-differs"
			if got.meta != want.meta {
				d += "(meta:" + got.meta + "/fresh:" + want.meta + ")"
			}
			if got.dec != want.dec {
				d += "(decrypted)"
			}
		}
		probe(d)
	}
}

// ---- (2) the …New forms and the degenerate arguments that have no receiver ----

func (e *c09Env) runNewForms() {
	c := e.c
	lvl := e.maxLevel()
	sc := fmt.Sprintf("%s/logN%d/P%d", e.scheme, e.logN, e.nP)
	type nf struct {
		name string
		f    func(ev *c09Evals, a, b *rlwe.Ciphertext) (*rlwe.Ciphertext, error)
	}
	var fs []nf
	one := func(m map[int]*rlwe.Ciphertext, err error, k int) (*rlwe.Ciphertext, error) {
		if err != nil {
			return nil, err
		}
		return m[k], nil
	}
	if e.scheme == "ckks" {
		T := "ckks.Evaluator."
		fs = []nf{
			{T + "AddNew", func(ev *c09Evals, a, b *rlwe.Ciphertext) (*rlwe.Ciphertext, error) { return ev.ckks.AddNew(a, b) }},
			{T + "SubNew", func(ev *c09Evals, a, b *rlwe.Ciphertext) (*rlwe.Ciphertext, error) { return ev.ckks.SubNew(a, b) }},
			{T + "AddNew[scalar 0]", func(ev *c09Evals, a, b *rlwe.Ciphertext) (*rlwe.Ciphertext, error) { return ev.ckks.AddNew(a, 0) }},
			{T + "MulNew", func(ev *c09Evals, a, b *rlwe.Ciphertext) (*rlwe.Ciphertext, error) { return ev.ckks.MulNew(a, b) }},
			{T + "MulNew[scalar 1]", func(ev *c09Evals, a, b *rlwe.Ciphertext) (*rlwe.Ciphertext, error) { return ev.ckks.MulNew(a, 1) }},
			{T + "MulRelinNew", func(ev *c09Evals, a, b *rlwe.Ciphertext) (*rlwe.Ciphertext, error) { return ev.ckks.MulRelinNew(a, b) }},
			{T + "RotateNew(0)", func(ev *c09Evals, a, b *rlwe.Ciphertext) (*rlwe.Ciphertext, error) { return ev.ckks.RotateNew(a, 0) }},
			{T + "RotateNew(3)", func(ev *c09Evals, a, b *rlwe.Ciphertext) (*rlwe.Ciphertext, error) { return ev.ckks.RotateNew(a, 3) }},
			{T + "ConjugateNew", func(ev *c09Evals, a, b *rlwe.Ciphertext) (*rlwe.Ciphertext, error) { return ev.ckks.ConjugateNew(a) }},
			{T + "RescaleNew", func(ev *c09Evals, a, b *rlwe.Ciphertext) (*rlwe.Ciphertext, error) {
				o := ckksNewCt(e, a)
				return o, ev.ckks.Rescale(a, o)
			}},
			{T + "DropLevelNew(0)", func(ev *c09Evals, a, b *rlwe.Ciphertext) (*rlwe.Ciphertext, error) {
				return ev.ckks.DropLevelNew(a, 0), nil
			}},
			{T + "ScaleUpNew(1)", func(ev *c09Evals, a, b *rlwe.Ciphertext) (*rlwe.Ciphertext, error) {
				return ev.ckks.ScaleUpNew(a, rlwe.NewScale(1))
			}},
			{T + "RotateHoistedNew[0]", func(ev *c09Evals, a, b *rlwe.Ciphertext) (*rlwe.Ciphertext, error) {
				m, err := ev.ckks.RotateHoistedNew(a, []int{0, 1})
				return one(m, err, 0)
			}},
			{T + "RotateHoistedNew[1]", func(ev *c09Evals, a, b *rlwe.Ciphertext) (*rlwe.Ciphertext, error) {
				m, err := ev.ckks.RotateHoistedNew(a, []int{0, 1})
				return one(m, err, 1)
			}},
		}
	} else {
		T := "bgv.Evaluator."
		fs = []nf{
			{T + "AddNew", func(ev *c09Evals, a, b *rlwe.Ciphertext) (*rlwe.Ciphertext, error) { return ev.bgv.AddNew(a, b) }},
			{T + "SubNew", func(ev *c09Evals, a, b *rlwe.Ciphertext) (*rlwe.Ciphertext, error) { return ev.bgv.SubNew(a, b) }},
			{T + "AddNew[scalar 0]", func(ev *c09Evals, a, b *rlwe.Ciphertext) (*rlwe.Ciphertext, error) {
				return ev.bgv.AddNew(a, uint64(0))
			}},
			{T + "MulNew", func(ev *c09Evals, a, b *rlwe.Ciphertext) (*rlwe.Ciphertext, error) { return ev.bgv.MulNew(a, b) }},
			{T + "MulNew[scalar 1]", func(ev *c09Evals, a, b *rlwe.Ciphertext) (*rlwe.Ciphertext, error) {
				return ev.bgv.MulNew(a, uint64(1))
			}},
			{T + "MulRelinNew", func(ev *c09Evals, a, b *rlwe.Ciphertext) (*rlwe.Ciphertext, error) { return ev.bgv.MulRelinNew(a, b) }},
			{T + "RotateColumnsNew(0)", func(ev *c09Evals, a, b *rlwe.Ciphertext) (*rlwe.Ciphertext, error) {
				return ev.bgv.RotateColumnsNew(a, 0)
			}},
			{T + "RotateColumnsNew(3)", func(ev *c09Evals, a, b *rlwe.Ciphertext) (*rlwe.Ciphertext, error) {
				return ev.bgv.RotateColumnsNew(a, 3)
			}},
			{T + "RotateRowsNew", func(ev *c09Evals, a, b *rlwe.Ciphertext) (*rlwe.Ciphertext, error) { return ev.bgv.RotateRowsNew(a) }},
		}
	}
	for _, f := range fs {
		a, b := e.encrypt(1, lvl, 1), e.encrypt(2, lvl, 1)
		ha, hb := deepHash(a), deepHash(b)
		var out *rlwe.Ciphertext
		err := c09Err(func() (err error) { out, err = f.f(e.evals(), a, b); return })
		if isPanic(err) {
			c.Probe("no_panic/"+f.name, sc, "C09-panic-"+f.name, err.Error())
			continue
		}
		if err != nil || out == nil {
			c.Count("new_rejected:" + f.name)
			continue
		}
		d := ""
		if deepHash(a) != ha || deepHash(b) != hb {
			d = "operand-changed"
		}
		c.Probe("inputs_unchanged/"+f.name, sc, "C09-inputs-"+f.name, d)
		c.Probe("output_independent/"+f.name, sc, "C09-independent-"+f.name, c09Independent(out, a, b))
	}
}

func ckksNewCt(e *c09Env, a *rlwe.Ciphertext) *rlwe.Ciphertext { return e.newCt(a.Degree(), a.Level()) }
