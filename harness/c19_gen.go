package main

// C19 (generated tie) — the derived quantities of core/rlwe/params.go that tools/go2lean regenerates
// into lean/Lattigo/Gen/Params.lean: QiOverflowMargin, PiOverflowMargin, BaseRNSDecompositionVectorSize,
// BaseTwoDecompositionVectorSize, MaxBit, MaxLevel/MaxLevelQ/MaxLevelP.  Tie lines `C19 pgen …` are answered
// by Driver/C19Gen.lean, which executes the GENERATED definitions; probes state the documented
// definitions on the real code.  Appended to C19's generator (the way c01_scalar.go wraps C01).
//
// Chains: NTT-friendly primes (NthRoot 32) of 20..61 bits, including primes just above 2^64/k, where
// float64 rounding makes int(2^64/float64(q)) differ from floor(2^64/q): the pre-fix formula of the
// margins (fix c11167e); the probe margin_floor guards against its return.

import (
	"fmt"
	"math"
	"math/big"
	"math/bits"

	"github.com/tuneinsight/lattigo/v6/core/rlwe"
)

func init() {
	prev := generators["C19"]
	generators["C19"] = func(c *Ctx) {
		prev(c)
		genC19Gen(c)
	}
}

// primes ≡ 1 mod 32 with int(2^64/float64(q)) = floor(2^64/q) + 1
var c19FloatPrimes = []uint64{1152921504606847009, 2049638230412172641, 1844674407370955297, 1676976733973595713,
	512409557603043137, 409927646082434497, 302405640552615617, 116017258325217313, 62110249406429473}

func c19genMaxU(v []uint64) (m uint64) {
	for _, x := range v {
		if x > m {
			m = x
		}
	}
	return
}

func genC19Gen(c *Ctx) {
	type chain struct{ q, p []uint64 }
	base := primesFor(32, []int{20, 30, 33, 40, 45, 50, 53, 54, 55, 58, 59, 60, 61})
	var chains []chain
	if len(base) >= 12 {
		chains = append(chains,
			chain{[]uint64{base[len(base)-1], base[4], base[5], base[6]}, []uint64{base[len(base)-3]}},
			chain{[]uint64{base[8], base[len(base)-2], base[2]}, []uint64{base[len(base)-4], base[len(base)-5]}},
			chain{[]uint64{base[0], base[1]}, nil},
			chain{[]uint64{base[10], base[11], base[12], base[13], base[14], base[15], base[16]}, []uint64{base[17], base[18], base[19]}})
	}
	chains = append(chains,
		chain{[]uint64{c19FloatPrimes[0]}, nil},
		chain{[]uint64{c19FloatPrimes[4], c19FloatPrimes[0], c19FloatPrimes[5]}, []uint64{c19FloatPrimes[1]}},
		chain{[]uint64{c19FloatPrimes[7], c19FloatPrimes[8], c19FloatPrimes[6]}, []uint64{c19FloatPrimes[2], c19FloatPrimes[3]}})
	if c.Thorough() {
		r := c.rng
		for it := 0; it < 40; it++ {
			nq, np := 1+r.Intn(6), r.Intn(4)
			perm := r.Intn(len(base))
			var q, p []uint64
			for i := 0; i < nq; i++ {
				q = append(q, base[(perm+i*3)%len(base)])
			}
			for i := 0; i < np; i++ {
				p = append(p, base[(perm+1+(nq+i)*3)%len(base)])
			}
			chains = append(chains, chain{q, p})
		}
	}
	two64 := new(big.Int).Lsh(big.NewInt(1), 64)
	for _, ch := range chains {
		seen := map[uint64]bool{}
		dup := false
		for _, x := range append(append([]uint64{}, ch.q...), ch.p...) {
			dup = dup || seen[x]
			seen[x] = true
		}
		if dup {
			continue
		}
		rp, err := rlwe.NewParametersFromLiteral(rlwe.ParametersLiteral{LogN: 4, Q: ch.q, P: ch.p, NTTFlag: true})
		if err != nil {
			c.Count("c19gen-rejected-chain")
			continue
		}
		c.Count("c19gen-chain")
		Q, P := rp.Q(), rp.P()
		c.Emit(fmt.Sprintf("pgen levels %s %s", Vec(Q), Vec(P)), fmt.Sprintf("%d %d %d", rp.MaxLevel(), rp.MaxLevelQ(), rp.MaxLevelP()))
		det := ""
		if rp.MaxLevelQ() != len(Q)-1 || rp.MaxLevelP() != len(P)-1 || rp.MaxLevel() != len(Q)-1 {
			det = fmt.Sprintf("%d %d %d", rp.MaxLevel(), rp.MaxLevelQ(), rp.MaxLevelP())
		}
		c.Probe("levels_def", fmt.Sprintf("%s %s", Vec(Q), Vec(P)), "C19-levels-def", det)
		margins := func(kind string, mod []uint64, f func(int) int) {
			for l := 0; l < len(mod); l++ {
				m := f(l)
				c.Emit(fmt.Sprintf("pgen %s %s %d", kind, Vec(mod), l), I(m))
				mx := c19genMaxU(mod[:l+1])
				det := ""
				if want := math.MaxUint64 / mx; uint64(m) != want {
					det = fmt.Sprintf("got=%d (2^64-1)/max(prefix)=%d max=%d", m, want, mx)
				}
				c.Probe("margin_max", fmt.Sprintf("%s %s %d", kind, Vec(mod), l), "C19-margin-def", det)
				det = ""
				fl := new(big.Int).Quo(two64, new(big.Int).SetUint64(mx))
				if !fl.IsInt64() || int64(m) != fl.Int64() {
					over := new(big.Int).Mul(big.NewInt(int64(m)), new(big.Int).SetUint64(mx))
					det = fmt.Sprintf("got=%d floor(2^64/max)=%s max=%d got*max-2^64=%s", m, fl.String(), mx, new(big.Int).Sub(over, two64).String())
				}
				c.Probe("margin_floor", fmt.Sprintf("%s %s %d", kind, Vec(mod), l), "C19-margin-float", det)
			}
		}
		margins("qmargin", Q, rp.QiOverflowMargin)
		margins("pmargin", P, rp.PiOverflowMargin)
		c.Emit(fmt.Sprintf("pgen pmargin %s -1", Vec(P)), I(rp.PiOverflowMargin(-1)))
		for lq := 0; lq < len(Q); lq++ {
			for lp := -1; lp < len(P); lp++ {
				d := rp.BaseRNSDecompositionVectorSize(lq, lp)
				c.Emit(fmt.Sprintf("pgen brns %d %d", lq, lp), I(d))
				want := lq + 1
				if lp >= 0 {
					want = (lq + 1 + lp) / (lp + 1) // ceil((lq+1)/(lp+1))
				}
				det := ""
				if d != want {
					det = fmt.Sprintf("got=%d want=%d", d, want)
				}
				c.Probe("brns_ceil", fmt.Sprintf("%d %d", lq, lp), "C19-brns", det)
				if len(P) > 0 || lp == -1 {
					c.Emit(fmt.Sprintf("pgen maxbit %s %s %d %d", Vec(Q), Vec(P), lq, lp), I(rp.MaxBit(lq, lp)))
					mb := 0
					for _, x := range Q[:lq+1] {
						if bits.Len64(x) > mb {
							mb = bits.Len64(x)
						}
					}
					if len(P) > 0 {
						for _, x := range P[:lp+1] {
							if bits.Len64(x) > mb {
								mb = bits.Len64(x)
							}
						}
					}
					det = ""
					if rp.MaxBit(lq, lp) != mb {
						det = fmt.Sprintf("got=%d want=%d", rp.MaxBit(lq, lp), mb)
					}
					c.Probe("maxbit_def", fmt.Sprintf("%s %s %d %d", Vec(Q), Vec(P), lq, lp), "C19-maxbit", det)
				}
			}
		}
		for _, w := range []int{0, 1, 7, 10, 16, 30, 60, 61} {
			for lp := -1; lp <= 1; lp++ {
				v := rp.BaseTwoDecompositionVectorSize(len(Q)-1, lp, w)
				c.Emit(fmt.Sprintf("pgen btwo %s %d %d %d", Vec(Q), len(Q)-1, lp, w), IVec(v))
				det := ""
				for i, d := range v {
					if w == 0 || lp > 0 {
						if d != 1 {
							det = fmt.Sprintf("entry %d = %d, want 1", i, d)
						}
					} else if bl := bits.Len64(Q[i]); w*d < bl || w*(d-1) >= bl {
						det = fmt.Sprintf("entry %d = %d digits of %d bits for a %d-bit prime", i, d, w, bl)
					}
				}
				c.Probe("btwo_cover", fmt.Sprintf("%s %d %d", Vec(Q), lp, w), "C19-btwo", det)
			}
		}
	}
}
