package main

// Reflection utilities shared by C09 (deep snapshots of arguments) and C10 (classification of the
// fields of a copy against its original).  Everything reachable is visited, unexported fields
// included (read through unsafe), cycles are cut by (address,type).

import (
	"crypto/sha256"
	"encoding/binary"
	"fmt"
	"reflect"
	"sort"
	"unsafe"
)

type c09Hasher struct {
	buf  []byte
	seen map[c09Key]int
}

type c09Key struct {
	p uintptr
	t reflect.Type
}

func (h *c09Hasher) u64(x uint64) {
	var b [8]byte
	binary.LittleEndian.PutUint64(b[:], x)
	h.buf = append(h.buf, b[:]...)
}
func (h *c09Hasher) str(s string) { h.u64(uint64(len(s))); h.buf = append(h.buf, s...) }

// c09Readable returns a value equal to v that can be read/descended (lifts the read-only flag of
// unexported fields when v is addressable, copies it otherwise).
func c09Readable(v reflect.Value) reflect.Value {
	if !v.IsValid() {
		return v
	}
	if v.CanAddr() {
		return reflect.NewAt(v.Type(), unsafe.Pointer(v.UnsafeAddr())).Elem()
	}
	if v.CanInterface() {
		nv := reflect.New(v.Type()).Elem()
		nv.Set(v)
		return nv
	}
	return v
}

func (h *c09Hasher) walk(v reflect.Value, depth int) {
	if !v.IsValid() {
		h.u64(0xdead)
		return
	}
	if depth > 200 {
		h.u64(0xdeeb)
		return
	}
	switch v.Kind() {
	case reflect.Bool:
		if v.Bool() {
			h.u64(1)
		} else {
			h.u64(0)
		}
	case reflect.Int, reflect.Int8, reflect.Int16, reflect.Int32, reflect.Int64:
		h.u64(uint64(v.Int()))
	case reflect.Uint, reflect.Uint8, reflect.Uint16, reflect.Uint32, reflect.Uint64, reflect.Uintptr:
		h.u64(v.Uint())
	case reflect.Float32, reflect.Float64:
		h.str(fmt.Sprintf("%x", v.Float()))
	case reflect.Complex64, reflect.Complex128:
		c := v.Complex()
		h.str(fmt.Sprintf("%x,%x", real(c), imag(c)))
	case reflect.String:
		h.str(v.String())
	case reflect.Ptr:
		if v.IsNil() {
			h.u64(0)
			return
		}
		k := c09Key{v.Pointer(), v.Type()}
		if id, ok := h.seen[k]; ok {
			h.u64(0xbac0)
			h.u64(uint64(id))
			return
		}
		h.seen[k] = len(h.seen) + 1
		h.u64(1)
		h.walk(c09Readable(v.Elem()), depth+1)
	case reflect.Slice:
		if v.IsNil() {
			h.u64(0xffff0)
			return
		}
		n := v.Len()
		h.u64(uint64(n))
		switch v.Type().Elem().Kind() {
		case reflect.Uint64, reflect.Uint, reflect.Uintptr:
			for i := 0; i < n; i++ {
				h.u64(v.Index(i).Uint())
			}
		case reflect.Uint8:
			for i := 0; i < n; i++ {
				h.buf = append(h.buf, byte(v.Index(i).Uint()))
			}
		default:
			for i := 0; i < n; i++ {
				h.walk(c09Readable(v.Index(i)), depth+1)
			}
		}
	case reflect.Array:
		for i := 0; i < v.Len(); i++ {
			h.walk(c09Readable(v.Index(i)), depth+1)
		}
	case reflect.Struct:
		for i := 0; i < v.NumField(); i++ {
			h.walk(c09Readable(v.Field(i)), depth+1)
		}
	case reflect.Map:
		if v.IsNil() {
			h.u64(0xffff1)
			return
		}
		k := c09Key{v.Pointer(), v.Type()}
		if id, ok := h.seen[k]; ok {
			h.u64(0xbac1)
			h.u64(uint64(id))
			return
		}
		h.seen[k] = len(h.seen) + 1
		var ents []string
		it := v.MapRange()
		for it.Next() {
			sub := &c09Hasher{seen: map[c09Key]int{}}
			sub.walk(c09Readable(it.Key()), depth+1)
			sub.walk(c09Readable(it.Value()), depth+1)
			s := sha256.Sum256(sub.buf)
			ents = append(ents, string(s[:]))
		}
		sort.Strings(ents)
		h.u64(uint64(len(ents)))
		for _, e := range ents {
			h.buf = append(h.buf, e...)
		}
	case reflect.Interface:
		if v.IsNil() {
			h.u64(0xffff2)
			return
		}
		e := v.Elem()
		h.str(e.Type().String())
		h.walk(c09Readable(e), depth+1)
	case reflect.Func:
		if v.IsNil() {
			h.u64(0)
		} else {
			h.u64(1)
		}
	default: // Chan, UnsafePointer
		h.u64(0xc4a7)
	}
	if len(h.buf) > 1<<16 {
		s := sha256.Sum256(h.buf)
		h.buf = append(h.buf[:0], s[:]...)
	}
}

// deepHash is a content hash of everything reachable from the arguments (pass pointers).
func deepHash(vs ...interface{}) string {
	h := &c09Hasher{seen: map[c09Key]int{}}
	for _, x := range vs {
		if x == nil {
			h.u64(0x111)
			continue
		}
		h.walk(c09Readable(reflect.ValueOf(x)), 0)
	}
	s := sha256.Sum256(h.buf)
	return Hex(s[:8])
}

// ---------- original-vs-copy classification (C10) ----------

type c10Pair struct {
	shared, distinct, nilBoth, dropped, added, typeChanged int
	seen                                                   map[[2]uintptr]bool
}

func (w *c10Pair) walk(a, b reflect.Value, depth int) {
	if !a.IsValid() || !b.IsValid() || depth > 200 {
		return
	}
	if a.Type() != b.Type() {
		w.typeChanged++
		return
	}
	switch a.Kind() {
	case reflect.Ptr, reflect.Map, reflect.Slice:
		an := a.IsNil() || (a.Kind() == reflect.Slice && a.Cap() == 0)
		bn := b.IsNil() || (b.Kind() == reflect.Slice && b.Cap() == 0)
		switch {
		case an && bn:
			w.nilBoth++
			return
		case !an && bn:
			w.dropped++
			return
		case an && !bn:
			w.added++
			return
		}
		pa, pb := a.Pointer(), b.Pointer()
		if pa == pb {
			w.shared++
			return
		}
		w.distinct++
		k := [2]uintptr{pa, pb}
		if w.seen[k] {
			return
		}
		w.seen[k] = true
		switch a.Kind() {
		case reflect.Ptr:
			w.walk(c09Readable(a.Elem()), c09Readable(b.Elem()), depth+1)
		case reflect.Slice:
			if !c10HasRefs(a.Type().Elem(), map[reflect.Type]bool{}) {
				return
			}
			n := a.Len()
			if b.Len() < n {
				n = b.Len()
			}
			for i := 0; i < n; i++ {
				w.walk(c09Readable(a.Index(i)), c09Readable(b.Index(i)), depth+1)
			}
		case reflect.Map:
			it := a.MapRange()
			for it.Next() {
				bv := b.MapIndex(it.Key())
				if bv.IsValid() {
					w.walk(c09Readable(it.Value()), c09Readable(bv), depth+1)
				}
			}
		}
	case reflect.Interface:
		an, bn := a.IsNil(), b.IsNil()
		switch {
		case an && bn:
			w.nilBoth++
		case !an && bn:
			w.dropped++
		case an && !bn:
			w.added++
		default:
			w.walk(c09Readable(a.Elem()), c09Readable(b.Elem()), depth+1)
		}
	case reflect.Struct:
		for i := 0; i < a.NumField(); i++ {
			w.walk(c09Readable(a.Field(i)), c09Readable(b.Field(i)), depth+1)
		}
	case reflect.Array:
		for i := 0; i < a.Len(); i++ {
			w.walk(c09Readable(a.Index(i)), c09Readable(b.Index(i)), depth+1)
		}
	}
}

func c10HasRefs(t reflect.Type, seen map[reflect.Type]bool) bool {
	if seen[t] {
		return false
	}
	seen[t] = true
	switch t.Kind() {
	case reflect.Ptr, reflect.Map, reflect.Slice, reflect.Interface, reflect.Chan, reflect.Func, reflect.UnsafePointer:
		return true
	case reflect.Array:
		return c10HasRefs(t.Elem(), seen)
	case reflect.Struct:
		for i := 0; i < t.NumField(); i++ {
			if c10HasRefs(t.Field(i).Type, seen) {
				return true
			}
		}
	}
	return false
}

// c10ClassifyField compares one field of the original with the same field of the copy.
func c10ClassifyField(a, b reflect.Value) string {
	w := &c10Pair{seen: map[[2]uintptr]bool{}}
	w.walk(a, b, 0)
	eq := deepHashV(a) == deepHashV(b)
	switch {
	case w.typeChanged > 0 && w.shared+w.distinct == 0:
		return "retyped"
	case w.shared+w.distinct+w.nilBoth+w.dropped+w.added == 0:
		if eq {
			return "config"
		}
		return "config-changed"
	case w.shared+w.distinct == 0 && w.dropped > 0:
		return "dropped"
	case w.shared+w.distinct == 0 && w.added > 0:
		return "added"
	case w.shared+w.distinct == 0:
		return "nil"
	case w.distinct == 0:
		return "shared"
	case w.shared == 0:
		if eq {
			return "owned"
		}
		return "fresh"
	default:
		return "mixed"
	}
}

func deepHashV(v reflect.Value) string {
	h := &c09Hasher{seen: map[c09Key]int{}}
	h.walk(v, 0)
	s := sha256.Sum256(h.buf)
	return Hex(s[:8])
}

// c10Classify returns the sorted `field:class` list of a struct copy against its original
// (both given as pointers to the struct).
func c10Classify(orig, cp interface{}) []string {
	a := reflect.ValueOf(orig)
	b := reflect.ValueOf(cp)
	for a.Kind() == reflect.Ptr || a.Kind() == reflect.Interface {
		a = a.Elem()
	}
	for b.Kind() == reflect.Ptr || b.Kind() == reflect.Interface {
		b = b.Elem()
	}
	a, b = c09Readable(a), c09Readable(b)
	if a.Type() != b.Type() || a.Kind() != reflect.Struct {
		return []string{"?:type-mismatch"}
	}
	var out []string
	for i := 0; i < a.NumField(); i++ {
		out = append(out, a.Type().Field(i).Name+":"+c10ClassifyField(c09Readable(a.Field(i)), c09Readable(b.Field(i))))
	}
	sort.Strings(out)
	return out
}

// c10Footprint collects the addresses of every pointer/slice/map reachable from v.
func c10Footprint(x interface{}) map[uintptr]bool {
	fp := map[uintptr]bool{}
	seen := map[c09Key]bool{}
	var rec func(v reflect.Value, d int)
	rec = func(v reflect.Value, d int) {
		if !v.IsValid() || d > 200 {
			return
		}
		switch v.Kind() {
		case reflect.Ptr:
			if v.IsNil() {
				return
			}
			k := c09Key{v.Pointer(), v.Type()}
			if seen[k] {
				return
			}
			seen[k] = true
			if v.Type().Elem().Size() > 0 {
				fp[v.Pointer()] = true
			}
			rec(c09Readable(v.Elem()), d+1)
		case reflect.Slice:
			if v.IsNil() || v.Cap() == 0 {
				return
			}
			if v.Type().Elem().Size() > 0 {
				fp[v.Pointer()] = true
			}
			if c10HasRefs(v.Type().Elem(), map[reflect.Type]bool{}) {
				for i := 0; i < v.Len(); i++ {
					rec(c09Readable(v.Index(i)), d+1)
				}
			}
		case reflect.Map:
			if v.IsNil() {
				return
			}
			k := c09Key{v.Pointer(), v.Type()}
			if seen[k] {
				return
			}
			seen[k] = true
			fp[v.Pointer()] = true
			it := v.MapRange()
			for it.Next() {
				rec(c09Readable(it.Value()), d+1)
			}
		case reflect.Interface:
			if !v.IsNil() {
				rec(c09Readable(v.Elem()), d+1)
			}
		case reflect.Struct:
			for i := 0; i < v.NumField(); i++ {
				rec(c09Readable(v.Field(i)), d+1)
			}
		case reflect.Array:
			for i := 0; i < v.Len(); i++ {
				rec(c09Readable(v.Index(i)), d+1)
			}
		}
	}
	rec(c09Readable(reflect.ValueOf(x)), 0)
	return fp
}
