package main

// C09 — scalar and big-number ARGUMENTS are inputs: every API that takes a *big.Int, *big.Float, *bignum.Complex, a slice
// of them, or a plain slice / map of values must leave them bit-identical (the deep hash reads the limbs of the
// mantissa, the sign, the precision, the length of every slice) — with negative values, values above the modulus,
// zero.  Ring level, bignum helpers, rlwe.Scale, the scalar and vector operands of the ckks / bgv evaluators and
// encoders.  `scalar_reusable/…`: the same scalar object used again at another level gives the result a fresh copy
// of the original value gives.

import (
	"fmt"
	"math/big"

	"github.com/tuneinsight/lattigo/v6/core/rlwe"
	"github.com/tuneinsight/lattigo/v6/ring"
	"github.com/tuneinsight/lattigo/v6/ring/ringqp"
	"github.com/tuneinsight/lattigo/v6/schemes/ckks"
	"github.com/tuneinsight/lattigo/v6/utils/bignum"
)

func c09BigValues(Q *big.Int) map[string]*big.Int {
	neg := new(big.Int).Neg(big.NewInt(123456789))
	above := new(big.Int).Add(new(big.Int).Lsh(Q, 3), big.NewInt(77))
	negAbove := new(big.Int).Neg(above)
	return map[string]*big.Int{"small": big.NewInt(12345), "zero": big.NewInt(0), "negative": neg, "aboveQ": above, "negAboveQ": negAbove,
		"Q-1": new(big.Int).Sub(Q, big.NewInt(1))}
}

func c09Scalars(c *Ctx) {
	c09ScalarsRing(c)
	c09ScalarsBignum(c)
	c09ScalarsSchemes(c)
}

func c09ScalarsRing(c *Ctx) {
	g := ring.NewNTTFriendlyPrimesGenerator(45, 64)
	moduli, err := g.NextAlternatingPrimes(3)
	if err != nil {
		panic(err)
	}
	rFull, err := ring.NewRing(32, moduli)
	if err != nil {
		panic(err)
	}
	for _, lvl := range []int{rFull.MaxLevel(), 0} {
		r := rFull.AtLevel(lvl)
		for name, v := range c09BigValues(rFull.Modulus()) {
			sc := fmt.Sprintf("ring/level%d/%s", lvl, name)
			p1 := c10RandPoly(c, r)
			type op struct {
				n string
				f func(s *big.Int, out ring.Poly)
			}
			ops := []op{
				{"AddScalarBigint", func(s *big.Int, out ring.Poly) { r.AddScalarBigint(p1, s, out) }},
				{"SubScalarBigint", func(s *big.Int, out ring.Poly) { r.SubScalarBigint(p1, s, out) }},
				{"MulScalarBigint", func(s *big.Int, out ring.Poly) { r.MulScalarBigint(p1, s, out) }},
				{"MulScalarBigintThenAdd", func(s *big.Int, out ring.Poly) { r.MulScalarBigintThenAdd(p1, s, out) }},
				{"NewRNSScalarFromBigint", func(s *big.Int, out ring.Poly) { _ = r.NewRNSScalarFromBigint(s) }},
			}
			for _, o := range ops {
				o := o
				s := new(big.Int).Set(v)
				out := r.NewPoly()
				c09CallArgs(c, "ring.Ring."+o.n, sc, []c09Arg{{"scalar", s}, {"p1", &p1}}, func() error { o.f(s, out); return nil })
				// the same object again at the other level, against a fresh copy of the original value
				r2 := rFull.AtLevel(rFull.MaxLevel() - lvl)
				q1 := c10RandPoly(c, r2)
				a, b := r2.NewPoly(), r2.NewPoly()
				d := Try(func() string {
					f2 := func(sv *big.Int, dst ring.Poly) {
						switch o.n {
						case "AddScalarBigint":
							r2.AddScalarBigint(q1, sv, dst)
						case "SubScalarBigint":
							r2.SubScalarBigint(q1, sv, dst)
						case "MulScalarBigint":
							r2.MulScalarBigint(q1, sv, dst)
						case "MulScalarBigintThenAdd":
							r2.MulScalarBigintThenAdd(q1, sv, dst)
						}
					}
					f2(s, a)
					f2(new(big.Int).Set(v), b)
					if !a.Equal(&b) {
						return "result-with-the-reused-scalar-differs"
					}
					return ""
				})
				c.Probe("scalar_reusable/ring.Ring."+o.n, sc, "C09-reuse-ring.Ring."+o.n, d)
			}
		}
		// slices of big integers
		sc := fmt.Sprintf("ring/level%d", lvl)
		coeffs := make([]*big.Int, r.N())
		for i := range coeffs {
			coeffs[i] = new(big.Int).Lsh(big.NewInt(int64(i*i-50)), uint(i%70))
		}
		p := r.NewPoly()
		c09CallArgs(c, "ring.Ring.SetCoefficientsBigint", sc, []c09Arg{{"coeffs", &coeffs}}, func() error { r.SetCoefficientsBigint(coeffs, p); return nil })
		outB := make([]*big.Int, r.N())
		for i := range outB {
			outB[i] = new(big.Int)
		}
		c09CallArgs(c, "ring.Ring.PolyToBigint", sc, []c09Arg{{"p1", &p}}, func() error { r.PolyToBigint(p, 1, outB); return nil })
		c09CallArgs(c, "ring.Ring.PolyToBigintCentered", sc, []c09Arg{{"p1", &p}}, func() error { r.PolyToBigintCentered(p, 1, outB); return nil })
		rqp := ringqp.Ring{RingQ: r, RingP: rFull.AtLevel(0)}
		pqp := rqp.NewPoly()
		c09FillPoly(c, pqp.Q)
		c09FillPoly(c, pqp.P)
		c09CallArgs(c, "ringqp.Ring.PolyToBigintCentered", sc, []c09Arg{{"p1", &pqp}}, func() error { rqp.PolyToBigintCentered(pqp, 1, outB); return nil })
		c09CallArgs(c, "rlwe.NormStats", sc, []c09Arg{{"vec", &outB}}, func() error { rlwe.NormStats(outB); return nil })
	}
}

func c09ScalarsBignum(c *Ctx) {
	prec := uint(128)
	xs := map[string]*big.Float{"0.75": bignum.NewFloat(0.75, prec), "negative": bignum.NewFloat(-1.375, prec), "large": bignum.NewFloat(12345.678, prec), "zero": bignum.NewFloat(0, prec)}
	for name, x := range xs {
		sc := "bignum/" + name
		un := map[string]func(*big.Float){
			"Round": func(v *big.Float) { bignum.Round(v) }, "Cos": func(v *big.Float) { bignum.Cos(v) }, "Sin": func(v *big.Float) { bignum.Sin(v) },
			"Exp": func(v *big.Float) { bignum.Exp(v) }, "SinH": func(v *big.Float) { bignum.SinH(v) }, "TanH": func(v *big.Float) { bignum.TanH(v) },
			"Sign": func(v *big.Float) { bignum.Sign(v) }, "NewFloat": func(v *big.Float) { bignum.NewFloat(v, 64) },
		}
		if x.Sign() >= 0 {
			un["NewScale"] = func(v *big.Float) { rlwe.NewScale(v) }
		}
		if x.Sign() > 0 {
			un["Log"] = func(v *big.Float) { bignum.Log(v) }
			un["Pow"] = func(v *big.Float) { bignum.Pow(v, bignum.NewFloat(1.5, prec)) }
			un["ArithmeticGeometricMean"] = func(v *big.Float) { bignum.ArithmeticGeometricMean(v, bignum.NewFloat(2, prec)) }
		}
		for n, f := range un {
			f := f
			v := new(big.Float).Copy(x)
			c09CallArgs(c, "bignum."+n, sc, []c09Arg{{"x", v}}, func() error { f(v); return nil })
		}
		poly := []*big.Float{bignum.NewFloat(1, prec), bignum.NewFloat(-0.5, prec), bignum.NewFloat(0.25, prec)}
		v := new(big.Float).Copy(x)
		c09CallArgs(c, "bignum.MonomialEval", sc, []c09Arg{{"x", v}, {"poly", &poly}}, func() error { bignum.MonomialEval(v, poly); return nil })
		iv := bignum.Interval{A: *bignum.NewFloat(-8, prec), B: *bignum.NewFloat(8, prec), Nodes: 7}
		c09CallArgs(c, "bignum.ChebyshevEval", sc, []c09Arg{{"x", v}, {"poly", &poly}, {"interval", &iv}}, func() error { bignum.ChebyshevEval(v, poly, iv); return nil })
		// complex numbers
		a := &bignum.Complex{new(big.Float).Copy(x), bignum.NewFloat(-2.5, prec)}
		b := &bignum.Complex{bignum.NewFloat(3, prec), new(big.Float).Copy(x)}
		out := bignum.NewComplex().SetPrec(prec)
		c09CallArgs(c, "bignum.Complex.Add", sc, []c09Arg{{"a", a}, {"b", b}}, func() error { out.Add(a, b); return nil })
		c09CallArgs(c, "bignum.Complex.Sub", sc, []c09Arg{{"a", a}, {"b", b}}, func() error { out.Sub(a, b); return nil })
		c09CallArgs(c, "bignum.Complex.Neg", sc, []c09Arg{{"a", a}}, func() error { out.Neg(a); return nil })
		cm := bignum.NewComplexMultiplier()
		c09CallArgs(c, "bignum.ComplexMultiplier.Mul", sc, []c09Arg{{"a", a}, {"b", b}}, func() error { cm.Mul(a, b, out); return nil })
		if b.IsInt() || b[0].Sign() != 0 || b[1].Sign() != 0 {
			c09CallArgs(c, "bignum.ComplexMultiplier.Quo", sc, []c09Arg{{"a", a}, {"b", b}}, func() error { cm.Quo(a, b, out); return nil })
		}
	}
	for name, v := range c09BigValues(new(big.Int).Lsh(big.NewInt(1), 100)) {
		sc := "bignum/" + name
		x := new(big.Int).Set(v)
		m := big.NewInt(65537)
		c09CallArgs(c, "bignum.NewInt", sc, []c09Arg{{"x", x}}, func() error { bignum.NewInt(x); return nil })
		c09CallArgs(c, "bignum.NewFloat[*big.Int]", sc, []c09Arg{{"x", x}}, func() error { bignum.NewFloat(x, 128); return nil })
		if x.Sign() >= 0 {
			c09CallArgs(c, "rlwe.NewScale[*big.Int]", sc, []c09Arg{{"x", x}}, func() error { rlwe.NewScale(x); return nil })
		}
		o := new(big.Int)
		c09CallArgs(c, "bignum.DivRound", sc, []c09Arg{{"a", x}, {"b", m}}, func() error { bignum.DivRound(x, m, o); return nil })
		pol := bignum.NewPolynomial(bignum.Monomial, []uint64{1, 2, 3, 4}, nil)
		c09CallArgs(c, "bignum.Polynomial.EvaluateModP", sc, []c09Arg{{"x", x}, {"p", m}}, func() error { pol.EvaluateModP(x, m); return nil })
	}
}

func c09ScalarsSchemes(c *Ctx) {
	for _, scheme := range []string{"ckks", "bgv"} {
		e := newC09Env(c, scheme, 5, 1)
		L := e.maxLevel()
		ev := e.evals()
		type call struct {
			n string
			f func(a *rlwe.Ciphertext, s rlwe.Operand, o *rlwe.Ciphertext) error
		}
		var calls []call
		if scheme == "ckks" {
			calls = []call{{"Add", ev.ckks.Add}, {"Sub", ev.ckks.Sub}, {"Mul", ev.ckks.Mul}, {"MulThenAdd", ev.ckks.MulThenAdd}}
		} else {
			calls = []call{{"Add", ev.bgv.Add}, {"Sub", ev.bgv.Sub}, {"Mul", ev.bgv.Mul}, {"MulThenAdd", ev.bgv.MulThenAdd}}
		}
		Q := e.rp.RingQ().Modulus()
		for _, lvl := range []int{L, 0} {
			for _, cl := range calls {
				cl := cl
				T := scheme + ".Evaluator." + cl.n
				for name, v := range c09BigValues(Q) {
					sc := fmt.Sprintf("%s/level%d/%s", scheme, lvl, name)
					s := new(big.Int).Set(v)
					a, o := e.encrypt(1, lvl, 1), e.encrypt(2, lvl, 1)
					c09CallArgs(c, T+"[*big.Int]", sc, []c09Arg{{"scalar", s}, {"op0", a}}, func() error { return cl.f(a, s, o) })
					// the same object once more at the other level against a fresh copy of the value
					a2 := e.encrypt(1, L-lvl, 1)
					o1, o2 := e.encrypt(2, L-lvl, 1), (*rlwe.Ciphertext)(nil)
					o2 = o1.CopyNew()
					e1 := c09Err(func() error { return cl.f(a2, s, o1) })
					e2 := c09Err(func() error { return cl.f(a2, new(big.Int).Set(v), o2) })
					d := ""
					if (e1 == nil) != (e2 == nil) || (e1 == nil && deepHash(o1) != deepHash(o2)) {
						d = "result-with-the-reused-scalar-differs"
					}
					c.Probe("scalar_reusable/"+T+"[*big.Int]", sc, "C09-reuse-"+T, d)
				}
				sc := fmt.Sprintf("%s/level%d", scheme, lvl)
				if scheme == "ckks" {
					bf := bignum.NewFloat(-1234.5678, 128)
					bc := &bignum.Complex{bignum.NewFloat(0.75, 128), bignum.NewFloat(-3.25, 128)}
					vf := []*big.Float{bignum.NewFloat(0.5, 128), bignum.NewFloat(-0.25, 128), bignum.NewFloat(3, 128)}
					vc := []*bignum.Complex{{bignum.NewFloat(0.5, 128), bignum.NewFloat(-1, 128)}, {bignum.NewFloat(-2, 128), bignum.NewFloat(0.125, 128)}}
					v128 := []complex128{complex(0.5, -0.25), complex(-1, 2)}
					v64 := []float64{0.5, -0.25, 3}
					for _, sv := range []struct {
						n string
						v rlwe.Operand
						h interface{}
					}{{"*big.Float", bf, bf}, {"*bignum.Complex", bc, bc}, {"[]*big.Float", vf, &vf}, {"[]*bignum.Complex", vc, &vc}, {"[]complex128", v128, &v128}, {"[]float64", v64, &v64}} {
						sv := sv
						a, o := e.encrypt(1, lvl, 1), e.encrypt(2, lvl, 1)
						c09CallArgs(c, T+"["+sv.n+"]", sc, []c09Arg{{"operand", sv.h}, {"op0", a}}, func() error { return cl.f(a, sv.v, o) })
					}
				} else {
					vu := []uint64{1, 65536, 3, 0, 40000}
					vi := []int64{-1, 65536, -32768, 0, 7}
					for _, sv := range []struct {
						n string
						v rlwe.Operand
						h interface{}
					}{{"[]uint64", vu, &vu}, {"[]int64", vi, &vi}} {
						sv := sv
						a, o := e.encrypt(1, lvl, 1), e.encrypt(2, lvl, 1)
						c09CallArgs(c, T+"["+sv.n+"]", sc, []c09Arg{{"operand", sv.h}, {"op0", a}}, func() error { return cl.f(a, sv.v, o) })
					}
				}
			}
		}
		// encoders: the value slices are inputs of Encode, the plaintext is the input of Decode
		if scheme == "ckks" {
			for _, prec := range []uint{53, 128} {
				ecd := ckks.NewEncoder(e.ckksP, prec)
				sc := fmt.Sprintf("ckks/prec%d", prec)
				n := e.ckksP.MaxSlots()
				vf := make([]*big.Float, n)
				vc := make([]*bignum.Complex, n)
				v128 := make([]complex128, n)
				v64 := make([]float64, n)
				for i := range vf {
					vf[i] = bignum.NewFloat(float64(i%7)-3.5, 128)
					vc[i] = &bignum.Complex{bignum.NewFloat(float64(i%5)/4, 128), bignum.NewFloat(-float64(i%3), 128)}
					v128[i] = complex(float64(i%5)/4, -float64(i%3))
					v64[i] = float64(i%7) - 3.5
				}
				for _, sv := range []struct {
					n string
					v interface{}
					h interface{}
				}{{"[]*big.Float", vf, &vf}, {"[]*bignum.Complex", vc, &vc}, {"[]complex128", v128, &v128}, {"[]float64", v64, &v64}} {
					sv := sv
					pt := ckks.NewPlaintext(e.ckksP, L)
					if c09CallArgs(c, "ckks.Encoder.Encode["+sv.n+"]", sc, []c09Arg{{"values", sv.h}}, func() error { return ecd.Encode(sv.v, pt) }) {
						outC := make([]*bignum.Complex, n)
						for i := range outC {
							outC[i] = bignum.NewComplex().SetPrec(128)
						}
						c09CallArgs(c, "ckks.Encoder.Decode[[]*bignum.Complex]", sc, []c09Arg{{"pt", pt}}, func() error { return ecd.Decode(pt, outC) })
					}
				}
				scale := bignum.NewFloat(1<<30, 128)
				coeffs := e.ckksP.RingQ().NewPoly().Coeffs
				c09CallArgs(c, "ckks.BigFloatToFixedPointCRT", sc, []c09Arg{{"values", &vf}, {"scale", scale}}, func() error {
					ckks.BigFloatToFixedPointCRT(e.ckksP.RingQ(), vf[:8], scale, coeffs)
					return nil
				})
				c09CallArgs(c, "ckks.ComplexArbitraryToFixedPointCRT", sc, []c09Arg{{"values", &vc}, {"scale", scale}}, func() error {
					ckks.ComplexArbitraryToFixedPointCRT(e.ckksP.RingQ(), vc[:8], scale, coeffs)
					return nil
				})
			}
		} else {
			n := e.bgvP.MaxSlots()
			vu, vi := make([]uint64, n), make([]int64, n)
			for i := range vu {
				vu[i] = uint64(i*977) % 65537
				vi[i] = int64(i*977)%65537 - 32768
			}
			pt := e.newPt(L)
			c09CallArgs(c, "bgv.Encoder.Encode[[]uint64]", "bgv", []c09Arg{{"values", &vu}}, func() error { return e.bgvE.Encode(vu, pt) })
			c09CallArgs(c, "bgv.Encoder.Encode[[]int64]", "bgv", []c09Arg{{"values", &vi}}, func() error { return e.bgvE.Encode(vi, pt) })
			ou := make([]uint64, n)
			c09CallArgs(c, "bgv.Encoder.Decode[[]uint64]", "bgv", []c09Arg{{"pt", pt}}, func() error { return e.bgvE.Decode(pt, ou) })
		}
	}
}
