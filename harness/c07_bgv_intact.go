package main

// C07 (integer half) — inputs intact / decode twice, for every entry point of bgv.Encoder that READS a polynomial or
// a slice: Decode, RingQ2T, RingT2Q, DecodeRingT, EncodeRingT, Embed, EmbedScale; × IsNTT ∈ {true,false} × IsBatched ×
// levels × scaleDown/scaleUp.
//
//	decode_intact   after Decode(pt, values) the plaintext's limbs and metadata are bit-identical to what they were
//	decode_twice    a second Decode of the same plaintext returns what the first returned, and both equal the input mod t
//	entry_intact    RingQ2T leaves pQ, RingT2Q / DecodeRingT leave pT, EncodeRingT / Embed / EmbedScale leave the value
//	                slice and the metadata as they were

import (
	"fmt"

	"github.com/tuneinsight/lattigo/v6/core/rlwe"
	"github.com/tuneinsight/lattigo/v6/schemes/bgv"
)

func c07PtSnap(pt *rlwe.Plaintext) string {
	return Mat(RawRows(pt.Value)) + fmt.Sprintf("|%d/%s/%v/%v/%v", pt.Level(), pt.Scale.Value.Text('g', 40), pt.IsNTT, pt.IsBatched, pt.IsMontgomery)
}

func (c *Ctx) c07Intact(s *c05Set, reps int) {
	t := s.t
	rt := s.params.RingT()
	rq := s.params.RingQ()
	L := len(s.qs) - 1
	large := 2*(t-1) >= s.qs[0]
	for rep := 0; rep < reps; rep++ {
		for level := 0; level <= L; level++ {
			if large && level == 0 {
				continue // known finding C07-bgv-level0-t-above-half-q0
			}
			rql := rq.AtLevel(level)
			for _, ntt := range []bool{true, false} {
				for _, batched := range []bool{true, false} {
					for _, signed := range []bool{false, true} {
						vals := c.c07Vector(s, signed, c.rng.Intn(2))
						scale := []uint64{1, 3 % t, t - 1, c.c05Scale(t)}[c.rng.Intn(4)]
						pt := bgv.NewPlaintext(s.params, level)
						pt.Scale = s.params.NewScale(scale)
						pt.IsBatched, pt.IsNTT = batched, ntt
						args := fmt.Sprintf("%s level=%d ntt=%v batched=%v scale=%d kind=%s len=%d", s.name, level, ntt, batched, scale, vals.kind(), vals.length())
						// Encode must not touch the value slice
						valSnap := vals.tok()
						if err := s.ecd.Encode(vals.arg(), pt); err != nil {
							panic(err)
						}
						d0 := ""
						if vals.tok() != valSnap {
							d0 = "Encode changed the value slice"
						}
						snap := c07PtSnap(pt)
						want := vals.residues(t)
						du1, du2 := make([]uint64, s.n), make([]uint64, s.n)
						di := make([]int64, s.n)
						st := Try(func() string {
							if err := s.ecd.Decode(pt, du1); err != nil {
								return "err"
							}
							return "ok"
						})
						detail := d0
						if st != "ok" {
							detail = st
						} else if c07PtSnap(pt) != snap {
							detail = "plaintext limbs or metadata changed by Decode([]uint64)"
						}
						if st == "ok" && detail == "" {
							if err := s.ecd.Decode(pt, di); err != nil {
								detail = "err"
							} else if c07PtSnap(pt) != snap {
								detail = "plaintext limbs or metadata changed by Decode([]int64)"
							}
						}
						c.Probe("decode_intact", args, "C07-bgv-decode-modifies-plaintext", detail)
						d2 := ""
						if st == "ok" {
							if err := s.ecd.Decode(pt, du2); err != nil {
								d2 = "err"
							} else {
								for k := range du1 {
									w := uint64(0)
									if k < len(want) {
										w = want[k]
									}
									if du1[k] != w {
										d2 = fmt.Sprintf("first decode slot=%d got=%d want=%d", k, du1[k], w)
										break
									}
									if du2[k] != du1[k] {
										d2 = fmt.Sprintf("third decode differs from the first: slot=%d %d vs %d", k, du2[k], du1[k])
										break
									}
								}
							}
						}
						c.Probe("decode_twice", args, "C07-bgv-second-decode-differs", d2)
					}
				}
			}
			// the lower-level entry points
			for _, flag := range []bool{true, false} {
				// RingQ2T(level, scaleDown, pQ, pT): pQ intact
				pQ := rql.NewPoly()
				for i := range pQ.Coeffs {
					for j := range pQ.Coeffs[i] {
						pQ.Coeffs[i][j] = c.rng.Below(s.qs[i])
					}
				}
				snapQ := Mat(RawRows(pQ))
				pT := rt.NewPoly()
				detail := ""
				if st := Try(func() string { s.ecd.RingQ2T(level, flag, pQ, pT); return "ok" }); st != "ok" {
					detail = st
				} else if Mat(RawRows(pQ)) != snapQ {
					detail = "RingQ2T changed pQ"
				}
				c.Probe("entry_intact", fmt.Sprintf("%s RingQ2T level=%d scaleDown=%v", s.name, level, flag), "C07-bgv-entry-point-modifies-input", detail)
				// RingT2Q(level, scaleUp, pT, pQ): pT intact
				for k := range pT.Coeffs[0] {
					pT.Coeffs[0][k] = c.c05Slot(t)
				}
				snapT := Vec(pT.Coeffs[0])
				detail = ""
				if st := Try(func() string { s.ecd.RingT2Q(level, flag, pT, pQ); return "ok" }); st != "ok" {
					detail = st
				} else if Vec(pT.Coeffs[0]) != snapT {
					detail = "RingT2Q changed pT"
				}
				c.Probe("entry_intact", fmt.Sprintf("%s RingT2Q level=%d scaleUp=%v", s.name, level, flag), "C07-bgv-entry-point-modifies-input", detail)
				// Embed / EmbedScale: value slice and metadata intact
				vals := c.c07Vector(s, flag, 0)
				valSnap := vals.tok()
				md := &rlwe.MetaData{}
				md.Scale = s.params.NewScale(c.c05Scale(t))
				md.IsNTT, md.IsMontgomery, md.IsBatched = c.rng.Intn(2) == 0, c.rng.Intn(2) == 0, true
				mdSnap := fmt.Sprintf("%s/%v/%v/%v", md.Scale.Value.Text('g', 40), md.IsNTT, md.IsMontgomery, md.IsBatched)
				detail = ""
				if st := Try(func() string {
					var err error
					if flag {
						err = s.ecd.EmbedScale(vals.arg(), true, md, rql.NewPoly())
					} else {
						err = s.ecd.Embed(vals.arg(), md, rql.NewPoly())
					}
					if err != nil {
						return "err"
					}
					return "ok"
				}); st != "ok" {
					detail = st
				} else if vals.tok() != valSnap {
					detail = "value slice changed"
				} else if mdSnap != fmt.Sprintf("%s/%v/%v/%v", md.Scale.Value.Text('g', 40), md.IsNTT, md.IsMontgomery, md.IsBatched) {
					detail = "metadata changed"
				}
				c.Probe("entry_intact", fmt.Sprintf("%s Embed level=%d scaleUp=%v ntt=%v mont=%v", s.name, level, flag, md.IsNTT, md.IsMontgomery), "C07-bgv-entry-point-modifies-input", detail)
			}
		}
		// EncodeRingT / DecodeRingT
		for _, signed := range []bool{false, true} {
			vals := c.c07Vector(s, signed, 0)
			valSnap := vals.tok()
			pT := rt.NewPoly()
			scale := c.c05Scale(t)
			detail := ""
			if err := s.ecd.EncodeRingT(vals.arg(), s.params.NewScale(scale), pT); err != nil {
				detail = "err"
			} else if vals.tok() != valSnap {
				detail = "EncodeRingT changed the value slice"
			}
			snapT := Vec(pT.Coeffs[0])
			if detail == "" {
				var err error
				if signed {
					err = s.ecd.DecodeRingT(pT, s.params.NewScale(scale), make([]int64, s.n))
				} else {
					err = s.ecd.DecodeRingT(pT, s.params.NewScale(scale), make([]uint64, s.n))
				}
				if err != nil {
					detail = "err"
				} else if Vec(pT.Coeffs[0]) != snapT {
					detail = "DecodeRingT changed pT"
				}
			}
			c.Probe("entry_intact", fmt.Sprintf("%s EncodeRingT/DecodeRingT signed=%v scale=%d", s.name, signed, scale), "C07-bgv-entry-point-modifies-input", detail)
		}
	}
}
