package main

// C09 — sequences on ONE receiver (shrink then grow its degree / level), and protocol objects used repeatedly.

import (
	"fmt"

	"github.com/tuneinsight/lattigo/v6/core/rlwe"
	"github.com/tuneinsight/lattigo/v6/multiparty"
	"github.com/tuneinsight/lattigo/v6/multiparty/mpbgv"
	"github.com/tuneinsight/lattigo/v6/ring"
	"github.com/tuneinsight/lattigo/v6/schemes/bgv"
)

// receiver history: acc = a*b (degree 2) → relinearised in place (degree 1, the third polynomial stays in the
// spare capacity of acc.Value) → an operation that grows the degree again.  Reference: the same operation on a
// fresh deep copy of the relinearised receiver.  Everything is deterministic: limbs must be identical.
func (e *c09Env) runSequences() {
	c := e.c
	sc := fmt.Sprintf("%s/logN%d/P%d", e.scheme, e.logN, e.nP)
	L := e.maxLevel()
	type step struct {
		name string
		f    func(ev *c09Evals, x, y, acc *rlwe.Ciphertext) error
	}
	mulNew := func(ev *c09Evals, x, y *rlwe.Ciphertext) (*rlwe.Ciphertext, error) {
		if ev.bgv != nil {
			return ev.bgv.MulNew(x, y)
		}
		return ev.ckks.MulNew(x, y)
	}
	steps := []step{
		{"MulThenAdd", func(ev *c09Evals, x, y, acc *rlwe.Ciphertext) error {
			if ev.bgv != nil {
				return ev.bgv.MulThenAdd(x, y, acc)
			}
			return ev.ckks.MulThenAdd(x, y, acc)
		}},
		{"MulRelinThenAdd", func(ev *c09Evals, x, y, acc *rlwe.Ciphertext) error {
			if ev.bgv != nil {
				return ev.bgv.MulRelinThenAdd(x, y, acc)
			}
			return ev.ckks.MulRelinThenAdd(x, y, acc)
		}},
		{"Mul", func(ev *c09Evals, x, y, acc *rlwe.Ciphertext) error {
			if ev.bgv != nil {
				return ev.bgv.Mul(x, y, acc)
			}
			return ev.ckks.Mul(x, y, acc)
		}},
		{"Add(degree2)", func(ev *c09Evals, x, y, acc *rlwe.Ciphertext) error {
			d2, err := mulNew(ev, x, y)
			if err != nil {
				return err
			}
			if ev.bgv != nil {
				return ev.bgv.Add(acc, d2, acc)
			}
			return ev.ckks.Add(acc, d2, acc)
		}},
	}
	for _, lvl := range []int{L, L - 1} {
		for _, st := range steps {
			name := "sequence[Mul→Relinearize→" + st.name + "]"
			a, b, x, y := e.encrypt(1, lvl, 1), e.encrypt(2, lvl, 1), e.encrypt(3, lvl, 1), e.encrypt(4, lvl, 1)
			ev := e.evals()
			acc, err := mulNew(ev, a, b)
			if err != nil || acc.Degree() != 2 {
				c.Count("seq_rejected:" + name)
				continue
			}
			for i := range acc.Value[2].Coeffs { // make the stale polynomial recognisable
				for j := range acc.Value[2].Coeffs[i] {
					acc.Value[2].Coeffs[i][j] |= 1
				}
			}
			if err := ev.rl.Relinearize(acc, acc); err != nil {
				c.Count("seq_rejected:" + name)
				continue
			}
			fresh := acc.CopyNew()
			e1 := c09Err(func() error { return st.f(ev, x, y, acc) })
			e2 := c09Err(func() error { return st.f(e.evals(), x, y, fresh) })
			d := ""
			if e1 != nil {
				c.Count("seq_error:" + e.scheme + "." + name)
			}
			switch {
			case isPanic(e1) || isPanic(e2):
				d = "panic"
			case (e1 == nil) != (e2 == nil):
				d = "error-behaviour-differs"
			case e1 == nil && deepHash(acc) != deepHash(fresh):
				d = fmt.Sprintf("result-differs(degree %d vs %d)", acc.Degree(), fresh.Degree())
			}
			c.Probe("history_free/"+e.scheme+"."+name, fmt.Sprintf("%s/l%d", sc, lvl), "C09-history-sequence-degree", d)
		}
	}
	// level: drop then raise
	for _, what := range []string{"InnerSum", "Replicate", "Copy"} {
		name := "sequence[DropLevel→" + what + "]"
		src := e.encrypt(5, L, 1)
		acc := e.garbageCt(1, L)
		acc.Resize(1, L-1)
		fresh := acc.CopyNew()
		run := func(ev *c09Evals, out *rlwe.Ciphertext) error {
			switch what {
			case "InnerSum":
				if ev.bgv != nil {
					return ev.bgv.InnerSum(src, 1, 4, out)
				}
				return ev.ckks.InnerSum(src, 1, 4, out)
			case "Replicate":
				if ev.bgv != nil {
					return ev.bgv.Replicate(src, 1, 3, out)
				}
				return ev.ckks.Replicate(src, 1, 3, out)
			}
			out.Copy(src)
			return nil
		}
		e1 := c09Err(func() error { return run(e.evals(), acc) })
		e2 := c09Err(func() error { return run(e.evals(), fresh) })
		d := ""
		switch {
		case isPanic(e1) || isPanic(e2):
			d = "panic"
		case (e1 == nil) != (e2 == nil):
			d = "error-behaviour-differs"
		case e1 == nil && deepHash(acc) != deepHash(fresh):
			d = fmt.Sprintf("result-differs(level %d vs %d)", acc.Level(), fresh.Level())
		}
		c.Probe("history_free/"+e.scheme+"."+name, sc, "C09-history-sequence-level", d)
	}
}

// ---- protocol objects used repeatedly ----

func c09Protocols(c *Ctx) {
	bp, err := bgv.NewParametersFromLiteral(bgv.ParametersLiteral{LogN: 5, LogQ: []int{45, 40}, LogP: []int{50}, PlaintextModulus: 65537})
	if err != nil {
		panic(err)
	}
	rp := *bp.GetRLWEParameters()
	kgen := rlwe.NewKeyGenerator(bp)
	ecd := bgv.NewEncoder(bp)
	// Shamir: n parties, threshold t
	for _, t := range []int{2, 3, 4} {
		n := 6
		pts := make([]multiparty.ShamirPublicPoint, n)
		for i := range pts {
			pts[i] = multiparty.ShamirPublicPoint(i + 1)
		}
		sks := make([]*rlwe.SecretKey, n)
		thr := make([]multiparty.Thresholdizer, n)
		polys := make([]multiparty.ShamirPolynomial, n)
		for i := range sks {
			sks[i] = kgen.GenSecretKeyNew()
			thr[i] = multiparty.NewThresholdizer(bp)
			polys[i], err = thr[i].GenShamirPolynomial(t, sks[i])
			if err != nil {
				c.Count("shamir_rejected")
				return
			}
		}
		// Thresholdizer reuse: the same share generated twice by a used object and once by a fresh one
		{
			s1, s2, s3 := thr[0].AllocateThresholdSecretShare(), thr[0].AllocateThresholdSecretShare(), thr[0].AllocateThresholdSecretShare()
			thr[0].GenShamirSecretShare(pts[3], polys[0], &s1)
			thr[0].GenShamirSecretShare(pts[1], polys[0], &s2) // unrelated use in between
			thr[0].GenShamirSecretShare(pts[3], polys[0], &s2)
			multiparty.NewThresholdizer(bp).GenShamirSecretShare(pts[3], polys[0], &s3)
			d := ""
			if deepHash(&s1) != deepHash(&s2) || deepHash(&s1) != deepHash(&s3) {
				d = "share-differs"
			}
			c.Probe("history_free/multiparty.Thresholdizer.GenShamirSecretShare", fmt.Sprintf("t=%d", t), "C09-history-Thresholdizer", d)
		}
		// shares[i] = sum_j share_j→i
		shares := make([]multiparty.ShamirSecretShare, n)
		for i := range shares {
			shares[i] = thr[i].AllocateThresholdSecretShare()
			for j := range sks {
				tmp := thr[j].AllocateThresholdSecretShare()
				thr[j].GenShamirSecretShare(pts[i], polys[j], &tmp)
				if j == 0 {
					shares[i].Copy(tmp.Poly)
				} else if err := thr[i].AggregateShares(shares[i], tmp, &shares[i]); err != nil {
					c.Count("shamir_rejected")
					return
				}
			}
		}
		// Combiner of party 0 used for several active sets / orderings vs fresh combiners
		others := pts[1:]
		used := multiparty.NewCombiner(rp, pts[0], others, t)
		var sets [][]multiparty.ShamirPublicPoint
		base := append([]multiparty.ShamirPublicPoint{}, pts[:t]...)
		sets = append(sets, base)
		rev := append([]multiparty.ShamirPublicPoint{}, base...)
		for i, j := 0, len(rev)-1; i < j; i, j = i+1, j-1 {
			rev[i], rev[j] = rev[j], rev[i]
		}
		sets = append(sets, rev)
		alt := append([]multiparty.ShamirPublicPoint{pts[0]}, pts[n-t+1:]...)
		sets = append(sets, alt, base, alt)
		if t < n-1 {
			sets = append(sets, append([]multiparty.ShamirPublicPoint{pts[0], pts[2]}, pts[4:4+t-2]...))
		}
		for k, act := range sets {
			o1, o2 := rlwe.NewSecretKey(bp), rlwe.NewSecretKey(bp)
			e1 := used.GenAdditiveShare(act, pts[0], shares[0], o1)
			e2 := multiparty.NewCombiner(rp, pts[0], others, t).GenAdditiveShare(act, pts[0], shares[0], o2)
			d := ""
			if (e1 == nil) != (e2 == nil) {
				d = "error-behaviour-differs"
			} else if e1 == nil && deepHash(o1) != deepHash(o2) {
				d = "additive-share-differs-from-fresh-combiner"
			}
			c.Probe("history_free/multiparty.Combiner.GenAdditiveShare", fmt.Sprintf("t=%d/call%d/|S|=%d", t, k, len(act)), "C09-history-Combiner", d)
		}
		// and the additive shares of a full active set must sum to the collective secret
		{
			act := pts[:t]
			sum := rp.RingQP().NewPoly()
			for i := 0; i < t; i++ {
				var oth []multiparty.ShamirPublicPoint
				for j := range pts {
					if j != i {
						oth = append(oth, pts[j])
					}
				}
				cmb := multiparty.NewCombiner(rp, pts[i], oth, t)
				o := rlwe.NewSecretKey(bp)
				_ = cmb.GenAdditiveShare(act, pts[i], shares[i], o) // first call
				_ = cmb.GenAdditiveShare(act, pts[i], shares[i], o) // second call on the same object
				rp.RingQP().Add(sum, o.Value, sum)
			}
			want := rp.RingQP().NewPoly()
			for _, s := range sks {
				rp.RingQP().Add(want, s.Value, want)
			}
			d := ""
			if !sum.Equal(&want) {
				d = "second-call-shares-do-not-reconstruct-the-secret"
			}
			c.Probe("history_free/multiparty.Combiner.reconstruction", fmt.Sprintf("t=%d", t), "C09-history-Combiner", d)
		}
	}
	// keygen / keyswitch / refresh objects: two complete single-party runs on the SAME object, each must be correct
	sk, sk2 := kgen.GenSecretKeyNew(), kgen.GenSecretKeyNew()
	vals := func(seed int) []uint64 {
		v := make([]uint64, bp.MaxSlots())
		for i := range v {
			v[i] = uint64((i*7 + seed) % 251)
		}
		return v
	}
	encWith := func(key rlwe.EncryptionKey, seed int) *rlwe.Ciphertext {
		pt := bgv.NewPlaintext(bp, bp.MaxLevel())
		_ = ecd.Encode(vals(seed), pt)
		ct, _ := rlwe.NewEncryptor(bp, key).EncryptNew(pt)
		return ct
	}
	decode := func(key *rlwe.SecretKey, ct *rlwe.Ciphertext) string {
		return Try(func() string {
			v := make([]uint64, bp.MaxSlots())
			_ = ecd.Decode(rlwe.NewDecryptor(bp, key).DecryptNew(ct), v)
			return Vec(v)
		})
	}
	crs := c10Keyed(21)
	nf := ring.DiscreteGaussian{Sigma: 8, Bound: 48}
	{
		ckg := multiparty.NewPublicKeyGenProtocol(bp)
		for call := 0; call < 3; call++ {
			crp := ckg.SampleCRP(crs)
			sh, agg := ckg.AllocateShare(), ckg.AllocateShare()
			ckg.GenShare(sk, crp, &sh)
			zero := ckg.AllocateShare()
			ckg.AggregateShares(sh, zero, &agg)
			pk := rlwe.NewPublicKey(bp)
			ckg.GenPublicKey(agg, crp, pk)
			d := ""
			if decode(sk, encWith(pk, call)) != Vec(vals(call)) {
				d = "collective-public-key-wrong"
			}
			c.Probe("history_free/multiparty.PublicKeyGenProtocol", fmt.Sprintf("call%d", call), "C09-history-PublicKeyGenProtocol", d)
		}
	}
	if cks, err := multiparty.NewKeySwitchProtocol(bp, nf); err == nil {
		for call := 0; call < 3; call++ {
			ct := encWith(sk, 10+call)
			if call == 1 {
				ct.Resize(1, ct.Level()-1) // a lower level in between
			}
			sh, agg := cks.AllocateShare(ct.Level()), cks.AllocateShare(ct.Level())
			cks.GenShare(sk, sk2, ct, &sh)
			zero := cks.AllocateShare(ct.Level())
			_ = cks.AggregateShares(sh, zero, &agg)
			out := bgv.NewCiphertext(bp, 1, ct.Level())
			cks.KeySwitch(ct, agg, out)
			d := ""
			if decode(sk2, out) != Vec(vals(10+call)) {
				d = "key-switched-ciphertext-wrong"
			}
			c.Probe("history_free/multiparty.KeySwitchProtocol", fmt.Sprintf("call%d", call), "C09-history-KeySwitchProtocol", d)
		}
	}
	if rfp, err := mpbgv.NewRefreshProtocol(bp, nf); err == nil {
		for call := 0; call < 3; call++ {
			ct := encWith(sk, 20+call)
			ct.Resize(1, call%2)
			crp := rfp.SampleCRP(bp.MaxLevel(), crs)
			sh := rfp.AllocateShare(ct.Level(), bp.MaxLevel())
			d := ""
			if err := rfp.GenShare(sk, ct, crp, &sh); err != nil {
				d = "GenShare-error"
			} else {
				out := bgv.NewCiphertext(bp, 1, bp.MaxLevel())
				if err := rfp.Finalize(ct, crp, sh, out); err != nil {
					d = "Finalize-error"
				} else if decode(sk, out) != Vec(vals(20+call)) {
					d = "refreshed-ciphertext-wrong"
				}
			}
			c.Probe("history_free/mpbgv.RefreshProtocol", fmt.Sprintf("call%d", call), "C09-history-RefreshProtocol", d)
		}
	}
}
