package main

// C05 — rejection contract of the binary operations (rlwe.Evaluator.InitOutputBinaryOp + bgv checks).
//
// Probe degree_contract: for every binary op × operand degrees (0,1,2)×(0,1,2) × receiver (New, fresh of degree
// 0/1/2; for the accumulating ops a ciphertext of degree 1/2):
//   * documented refusals return an error (never nil + garbage, never a panic) and leave op0 and op1 untouched:
//       - both operands of degree 0 ("op0 and op1 cannot be both plaintexts"),
//       - products (Mul, MulRelin, Mul[Relin]ScaleInvariant, Mul[Relin]ThenAdd) of two ciphertexts one of which has
//         degree 2 ("total degree cannot exceed 2"; doc: "error if either op0.Degree or op1.Degree > 1"),
//       - products whose op0 has degree 0 (fix C05-9);
//   * every other combination — Add/Sub of any degrees (2+1, 2+2, 0+1, …), degree-1 × degree-1, and the legal
//     neighbours degree-2 × plaintext / degree-1 × plaintext — returns nil and decrypts EXACTLY to the Z_t result.

import (
	"fmt"

	"github.com/tuneinsight/lattigo/v6/core/rlwe"
	"github.com/tuneinsight/lattigo/v6/schemes/bgv"
)

func (c *Ctx) c05DegreeContract(s *c05Set) {
	L := len(s.qs) - 1
	t := s.t
	lN := float64(s.logN)
	evStd := s.evaluator(false, true)
	fresh := lN + 7
	nbOf := func(d int) float64 {
		switch d {
		case 0:
			return 0
		case 1:
			return fresh
		}
		return lN + s.lt + 2*fresh + 3
	}
	mk := func(d int) *c05Reg {
		switch d {
		case 0:
			return c.c05NewPt(s, L, 1)
		case 1:
			return c.c05NewCt(s, L, 1)
		}
		x, y := c.c05NewCt(s, L, 1), c.c05NewCt(s, L, 1)
		r, err := evStd.MulNew(x.ct, y.ct)
		if err != nil {
			panic(err)
		}
		w := make([]uint64, s.n)
		for i := range w {
			w[i] = c05MulMod(x.want[i], y.want[i], t)
		}
		return &c05Reg{ct: r, want: w}
	}
	ops := []string{"add", "sub", "mul", "mulrelin", "mulsi", "mulrelinsi", "mta", "mrta"}
	for _, si := range []bool{false, true} {
		ev := s.evaluator(si, true)
		for _, op := range ops {
			isAcc := op == "mta" || op == "mrta"
			isAdd := op == "add" || op == "sub"
			for d0 := 0; d0 <= 2; d0++ {
				for d1 := 0; d1 <= 2; d1++ {
					for _, recv := range []string{"new", "r0", "r1", "r2"} {
						if isAcc && (recv == "new" || recv == "r0") {
							continue
						}
						refuse := d0+d1 == 0
						if !isAdd {
							refuse = d0 == 0 || d0+d1 > 2
						}
						// a-priori noise of the accepted result
						nb := lmax(nbOf(d0), nbOf(d1)) + 1
						if !isAdd {
							switch {
							case d1 == 0:
								nb = lN + s.lt + nbOf(d0) + 2
							case si || op == "mulsi" || op == "mulrelinsi":
								nb = lN + s.lt + lmax(nbOf(d0), nbOf(d1)) + 4
							default:
								nb = lN + s.lt + nbOf(d0) + nbOf(d1) + 3
							}
							nb = lmax(nb, lN+12) + 1
						}
						var acc *c05Reg
						if isAcc {
							acc = mk(int(recv[1] - '0'))
							nb = lmax(nb, nbOf(int(recv[1]-'0'))) + 1
						}
						if !refuse && nb+s.lt+3 > s.logQ[L] {
							c.Count("contract-budget-skip")
							continue
						}
						a := mk(d0)
						if d0 == 0 {
							a = &c05Reg{ct: c05Deg0(a.pt), want: a.want}
						}
						b := mk(d1)
						want := make([]uint64, s.n)
						for i := range want {
							switch {
							case op == "add":
								want[i] = (a.want[i] + b.want[i]) % t
							case op == "sub":
								want[i] = (a.want[i] + t - b.want[i]) % t
							default:
								want[i] = c05MulMod(a.want[i], b.want[i], t)
							}
							if isAcc {
								want[i] = (want[i] + acc.want[i]) % t
							}
						}
						o := c05Out{mode: "new"}
						switch {
						case isAcc:
							o = c05Out{mode: "into", reg: acc}
						case recv != "new":
							o = c05Out{mode: "into", reg: &c05Reg{ct: bgv.NewCiphertext(s.params, int(recv[1]-'0'), L)}}
						}
						snapA := c05Raw(a.ct)
						var snapB string
						if b.ct != nil {
							snapB = c05Raw(b.ct)
						} else {
							snapB = c05RawPt(b.pt)
						}
						var res []*rlwe.Ciphertext
						st := Try(func() string {
							r, err := c05Call(ev, op, a.ct, c05Arg{kind: "r", reg: b}, o)
							if err != nil {
								return "err"
							}
							res = r
							return "ok"
						})
						key, detail := "", ""
						intact := c05Raw(a.ct) == snapA && (b.ct != nil && c05Raw(b.ct) == snapB || b.pt != nil && c05RawPt(b.pt) == snapB)
						switch {
						case st == "panic":
							key, detail = "C05/degree-contract-panic", "panic"
						case refuse && st == "ok":
							key = "C05/degree-too-high-accepted"
							if d0+d1 == 0 || d0 == 0 {
								key = "C05/plaintext-only-operands-accepted"
							}
							got := s.decodeCt(res[0])
							detail = fmt.Sprintf("nil-error out.degree=%d exact=%v", res[0].Degree(), Vec(got) == Vec(want))
						case refuse && !intact:
							key, detail = "C05/refused-call-modified-operand", "err but op0/op1 changed"
						case !refuse && st == "err":
							key, detail = "C05/legal-degree-combination-refused", "err"
						case !refuse:
							if got := s.decodeCt(res[0]); Vec(got) != Vec(want) {
								key = "C05/legal-degree-combination-wrong-value"
								detail = fmt.Sprintf("out.degree=%d slot0 got %d want %d", res[0].Degree(), got[0], want[0])
							} else if !intact {
								key, detail = "C05/accepted-call-modified-operand", "ok but op0/op1 changed"
							}
						}
						if key == "" {
							key = "C05/degree-too-high-accepted"
						}
						c.Probe("degree_contract", fmt.Sprintf("%s si=%v op=%s d0=%d d1=%d recv=%s expect=%s status=%s", s.name, si, op, d0, d1, recv, map[bool]string{true: "error", false: "exact"}[refuse], st), key, detail)
					}
				}
			}
		}
	}
}
