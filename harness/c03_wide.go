package main

// C03 — parameter literals with NON-DEFAULT error and secret distributions on chains of unequal primes.
//
// The default Xe (sigma 3.2, bound 19) is far below every prime, so it never exercises what happens when the
// truncation bound of the error falls between, above or below individual primes of the chain.  These sets do:
// Gaussian errors with sigma from 3.2 up to 2^40 on chains "big q_0, small rest" and "small q_0, big rest",
// Ternary{H}, Ternary{P} for several P, Gaussian and sparse secrets, with and without P, both ring types.
// Every set runs the ordinary C03 sequence (key generation ties, encryptions at random levels with sk and pk
// encryptors, decryption ties, all probes) plus `error_limbs_consistent` (c03ProbeLimbs).

import (
	"fmt"
	"math"
	"math/big"
	"strings"

	"github.com/tuneinsight/lattigo/v6/core/rlwe"
	"github.com/tuneinsight/lattigo/v6/ring"
)

func c03G(logSigma float64) ring.DiscreteGaussian {
	s := math.Exp2(logSigma)
	return ring.DiscreteGaussian{Sigma: s, Bound: 6 * s}
}

type c03WideSpec struct {
	logN       int
	logQ, logP []int
	xs, xe     ring.DistributionParameters
	ci         bool
}

func c03WideSpecs(c *Ctx) []c03WideSpec {
	tern := ring.Ternary{P: 2 / 3.0}
	g32 := ring.DiscreteGaussian{Sigma: 3.2, Bound: 19.2}
	specs := []c03WideSpec{
		// bound 2^38.6 between the primes, big q_0 first (the error exceeds q_1, q_2 but not q_0)
		{4, []int{45, 35, 35}, nil, tern, c03G(36), false},
		{4, []int{45, 35, 35}, []int{50}, tern, c03G(36), false},
		// ... and exceeds the prime of P as well
		{4, []int{50, 30}, []int{28}, tern, c03G(30), false},
		{4, []int{45, 35}, []int{33, 30}, ring.Ternary{H: 6}, c03G(36), false},
		// small q_0 first (the error exceeds q_0 but not q_1, q_2): fine without P, to be rejected with P
		{4, []int{35, 45, 45}, nil, tern, c03G(36), false},
		{4, []int{35, 45, 45}, []int{55}, tern, c03G(36), false},
		{4, []int{50, 30}, nil, ring.Ternary{H: 4}, c03G(30), false},
		{4, []int{30, 50}, nil, tern, c03G(30), false},
		{4, []int{30, 50}, []int{40}, tern, c03G(30), false},
		// bound above every prime (meaningful from level 1 on without P; rejected with P)
		{4, []int{40, 40, 40}, nil, tern, c03G(40), false},
		{4, []int{40, 40, 40}, []int{45}, tern, c03G(40), false},
		// bound below every prime, Gaussian secret
		{4, []int{55, 25}, []int{30}, g32, c03G(20), false},
		{5, []int{33, 52}, nil, g32, c03G(10), false},
		// ternary errors, sparse and dense secrets
		{4, []int{36, 27}, nil, ring.Ternary{P: 0.25}, ring.Ternary{H: 5}, false},
		{4, []int{27, 36}, []int{33}, ring.Ternary{H: 3}, ring.Ternary{P: 0.9}, false},
		{5, []int{25, 45}, []int{30, 30}, c03G(8), ring.Ternary{P: 0.1}, false},
		// wide secret
		{4, []int{45, 35}, []int{50}, c03G(8), c03G(10), false},
		// conjugate-invariant ring
		{4, []int{45, 35}, nil, tern, c03G(36), true},
		{4, []int{45, 35}, []int{50}, tern, c03G(30), true},
	}
	if c.Thorough() {
		r := c.rng
		bits := []int{24, 28, 32, 36, 40, 45, 50, 55}
		for i := 0; i < 45; i++ {
			nQ := 2 + r.Intn(2)
			logQ := make([]int, nQ)
			for j := range logQ {
				logQ[j] = bits[r.Intn(len(bits))]
			}
			var logP []int
			for j := r.Intn(3); j > 0; j-- {
				logP = append(logP, bits[r.Intn(len(bits))])
			}
			var xe, xs ring.DistributionParameters
			switch r.Intn(6) {
			case 0:
				xe = ring.Ternary{H: 1 + r.Intn(16)}
			case 1:
				xe = ring.Ternary{P: []float64{0.1, 0.25, 0.5, 0.75, 0.9}[r.Intn(5)]}
			default:
				xe = c03G(float64(2 + r.Intn(39)))
			}
			switch r.Intn(5) {
			case 0:
				xs = ring.Ternary{H: 1 + r.Intn(16)}
			case 1:
				xs = ring.Ternary{P: []float64{0.1, 0.25, 0.5, 0.75, 0.9}[r.Intn(5)]}
			case 2:
				xs = c03G(float64(1 + r.Intn(10)))
			default:
				xs = tern
			}
			specs = append(specs, c03WideSpec{4 + r.Intn(2), logQ, logP, xs, xe, r.Intn(5) == 0})
		}
	}
	return specs
}

func c03RunWideSets(c *Ctx) {
	nEnc := c.Scale(16, 40)
	specs := c03WideSpecs(c)
	c03AcceptTies(c, specs)
	for _, sp := range specs {
		rt := ring.Standard
		if sp.ci {
			rt = ring.ConjugateInvariant
		}
		lit := rlwe.ParametersLiteral{LogN: sp.logN, LogQ: sp.logQ, LogP: sp.logP, Xs: sp.xs, Xe: sp.xe,
			RingType: rt, NTTFlag: c.rng.Intn(2) == 0}
		c03ProbeRejection(c, sp, lit)
		s := c03NewSet(c, lit)
		if s == nil {
			c.Count("params:rejected(wide)")
			continue
		}
		s.wide = true
		c.Count("params:accepted")
		c.Count("params:wide")
		c.Count("params:ring:" + map[bool]string{false: "standard", true: "conjugate-invariant"}[s.ci])
		c.Count(fmt.Sprintf("params:nQ=%d,nP=%d", s.maxL+1, s.nP))
		c.Count("params:xe=" + s.xeKind)
		c.Count("params:xs=" + s.xsKind)
		c03RunSet(c, s, nEnc)
	}
}

// c03ProbeRejection: with P, a secret/error bound that reaches Q[0]/2 cannot be extended to P from the first
// limb of Q: such a literal must be rejected (fix C03-10), every other one accepted.
func c03ProbeRejection(c *Ctx, sp c03WideSpec, lit rlwe.ParametersLiteral) {
	_, be, _, _ := c03DistInfo(sp.xe, 1<<sp.logN)
	_, bs, _, _ := c03DistInfo(sp.xs, 1<<sp.logN)
	// GenModuli returns primes close to 2^bits: decide only outside a margin of 1/8 around the threshold
	lim := math.Exp2(float64(sp.logQ[0]))
	b := math.Max(be, bs)
	want := ""
	switch {
	case len(sp.logP) != 0 && 2*b >= lim*1.125:
		want = "rejected"
	case len(sp.logP) == 0 || 2*b <= lim*0.875:
		want = "accepted"
	}
	if want == "" {
		return
	}
	_, err := rlwe.NewParametersFromLiteral(lit)
	got := "accepted"
	if err != nil && !strings.Contains(err.Error(), "warning") {
		got = "rejected"
	}
	detail := ""
	if got != want {
		detail = fmt.Sprintf("literal Q=%v P=%v Xs=%s Xe=%s was %s, want %s", sp.logQ, sp.logP, c03DistLabel(sp.xs), c03DistLabel(sp.xe), got, want)
	}
	c.Probe("unextendable_bound_rejected", fmt.Sprintf("logN=%d logQ=%s logP=%s xs=%s xe=%s", sp.logN, IVec(sp.logQ), IVec(sp.logP),
		c03DistLabel(sp.xs), c03DistLabel(sp.xe)), "C03-unextendable-bound-accepted", detail)
}

func c03AbsBound(d ring.DistributionParameters) float64 {
	if g, ok := d.(ring.DiscreteGaussian); ok {
		return g.Bound
	}
	return 1
}

// c03AcceptTie: the acceptance rule of NewParameters for the distribution bounds (fix C03-10) as a tie with the
// model (`RQ.acceptsBounds`): the real outcome of NewParametersFromLiteral on explicit primes vs the model's answer
// from ⌊2·AbsBound⌋ of Xe and Xs, Q[0] and the presence of P.
func c03AcceptTie(c *Ctx, logN int, ci bool, q, p []uint64, xs, xe ring.DistributionParameters) {
	rt := ring.Standard
	if ci {
		rt = ring.ConjugateInvariant
	}
	_, err := rlwe.NewParametersFromLiteral(rlwe.ParametersLiteral{LogN: logN, Q: q, P: p, Xs: xs, Xe: xe, RingType: rt})
	out := "accepted"
	if err != nil && !strings.Contains(err.Error(), "warning") {
		out = "rejected"
	}
	fl := func(x float64) string { return c03BigBound(2 * x).String() }
	c.Emit(fmt.Sprintf("accept n=%d ci=%d q=%s p=%s maxl=%d xe=- be2=%s bs2=%s", 1<<logN, c03B2i(ci), Vec(q), Vec(p), len(q)-1,
		fl(c03AbsBound(xe)), fl(c03AbsBound(xs))), out)
	c.Count("op:accept")
	c.Count("accept:" + out)
}

// c03AcceptTies: the wide specs, plus boundary cases around 2·bound = Q[0] (on primes below 2^53, where the
// float64 comparison of the Go code is exact).
func c03AcceptTies(c *Ctx, specs []c03WideSpec) {
	for _, sp := range specs {
		lnr := sp.logN + 1
		if sp.ci {
			lnr = sp.logN + 2
		}
		q, p, err := rlwe.GenModuli(lnr, sp.logQ, sp.logP)
		if err != nil {
			continue
		}
		c03AcceptTie(c, sp.logN, sp.ci, q, p, sp.xs, sp.xe)
		if q[0] >= 1<<52 {
			continue
		}
		h := float64(q[0]) / 2 // q[0] odd: k + 0.5, exact
		tern := ring.Ternary{P: 2 / 3.0}
		for _, b := range []float64{h, h - 0.5, h + 0.5, h - 1, 2 * h, 19.2} {
			g := ring.DiscreteGaussian{Sigma: 3.2, Bound: b}
			c03AcceptTie(c, sp.logN, sp.ci, q, p, tern, g) // wide error
			c03AcceptTie(c, sp.logN, sp.ci, q, p, g, tern) // wide secret
			c03AcceptTie(c, sp.logN, sp.ci, q, nil, tern, g)
		}
	}
}

func c03BigBound(x float64) *big.Int {
	b, _ := new(big.Float).SetFloat64(math.Floor(x)).Int(nil)
	return b
}

func c03ProdQ(qs []uint64) *big.Int {
	Q := big.NewInt(1)
	for _, q := range qs {
		Q.Mul(Q, new(big.Int).SetUint64(q))
	}
	return Q
}

// c03LimbReport checks that the residue rows `rows` (mod qs) are the limbs of ONE integer polynomial of
// infinity norm ≤ bound.  Meaningful when 2·bound < Q (otherwise every residue vector qualifies: vacuous,
// reported as ok=true, checked=false).  For every limb wide enough to hold the value (q_i > 2·bound) its
// centred residue must be that integer itself; the report names the limbs that deviate.
func c03LimbReport(qs []uint64, rows [][]uint64, bound *big.Int) (checked bool, detail string) {
	Q := c03ProdQ(qs)
	if new(big.Int).Lsh(bound, 1).Cmp(Q) >= 0 {
		return false, ""
	}
	n := c03Centered(qs, rows)
	inf := c03Inf(n)
	var badLimbs []string
	for i, q := range qs {
		qi := new(big.Int).SetUint64(q)
		if new(big.Int).Lsh(bound, 1).Cmp(qi) >= 0 {
			continue
		}
		// a limb wide enough for the value: its centred residue must be within the bound
		m := c03Inf(c03Centered(qs[i:i+1], rows[i:i+1]))
		if m.Cmp(bound) > 0 {
			badLimbs = append(badLimbs, fmt.Sprintf("limb %d (%d bits): centred residue of %d bits", i, qi.BitLen(), m.BitLen()))
		}
	}
	if inf.Cmp(bound) <= 0 && len(badLimbs) == 0 {
		return true, ""
	}
	// which limbs disagree with the value the widest limb suggests?
	wid := 0
	for i, q := range qs {
		if q > qs[wid] {
			wid = i
		}
	}
	ref := c03Centered(qs[wid:wid+1], rows[wid:wid+1])
	var dis []string
	for i, q := range qs {
		if i == wid {
			continue
		}
		qi := new(big.Int).SetUint64(q)
		cnt := 0
		for j := range ref {
			if new(big.Int).Mod(ref[j], qi).Uint64() != rows[i][j]%q {
				cnt++
			}
		}
		if cnt > 0 {
			dis = append(dis, fmt.Sprintf("limb %d disagrees with limb %d on %d of %d coefficients", i, wid, cnt, len(ref)))
		}
	}
	return true, fmt.Sprintf("CRT value has %d bits, bound %d bits, Q %d bits; %s; %s", inf.BitLen(), bound.BitLen(), Q.BitLen(),
		strings.Join(badLimbs, ", "), strings.Join(dis, ", "))
}
