package main

import (
	"crypto/rand"
	"crypto/sha256"
	"encoding/binary"
	"math/bits"
)

// SplitMix is the single PRNG every random choice of the harness derives from.
type SplitMix struct{ s uint64 }

func NewSplitMix(seed uint64) *SplitMix {
	// scramble the seed with the splitmix finaliser so that streams of consecutive seeds are
	// unrelated (a plain affine seed would make seed k+1 the stream of seed k shifted by one draw)
	z := seed + 0x1234567
	z = (z ^ (z >> 30)) * 0xBF58476D1CE4E5B9
	z = (z ^ (z >> 27)) * 0x94D049BB133111EB
	z ^= z >> 31
	return &SplitMix{z}
}

func (r *SplitMix) U64() uint64 {
	r.s += 0x9E3779B97F4A7C15
	z := r.s
	z = (z ^ (z >> 30)) * 0xBF58476D1CE4E5B9
	z = (z ^ (z >> 27)) * 0x94D049BB133111EB
	return z ^ (z >> 31)
}

// Intn returns a value in [0,n).
func (r *SplitMix) Intn(n int) int {
	if n <= 0 {
		return 0
	}
	return int(r.U64() % uint64(n))
}

// Below returns a value in [0,n) for uint64 n>0.
func (r *SplitMix) Below(n uint64) uint64 {
	if n == 0 {
		return 0
	}
	hi, _ := bits.Mul64(r.U64(), n)
	return hi
}

func (r *SplitMix) Bytes(n int) []byte {
	b := make([]byte, n)
	for i := 0; i < n; i += 8 {
		var t [8]byte
		binary.LittleEndian.PutUint64(t[:], r.U64())
		copy(b[i:], t[:])
	}
	return b
}

// detReader is a SHA-256 counter stream replacing crypto/rand.Reader, which makes the
// key of every sampling.NewPRNG() created inside lattigo deterministic (no repo hook).
type detReader struct {
	seed uint64
	ctr  uint64
	buf  []byte
	log  [][]byte // every Read call's bytes, in order (64-byte reads are PRNG keys)
}

func (d *detReader) Read(p []byte) (int, error) {
	n := 0
	for n < len(p) {
		if len(d.buf) == 0 {
			var in [16]byte
			binary.LittleEndian.PutUint64(in[:8], d.seed)
			binary.LittleEndian.PutUint64(in[8:], d.ctr)
			d.ctr++
			h := sha256.Sum256(in[:])
			d.buf = h[:]
		}
		k := copy(p[n:], d.buf)
		d.buf = d.buf[k:]
		n += k
	}
	cp := make([]byte, len(p))
	copy(cp, p)
	d.log = append(d.log, cp)
	return n, nil
}

var theRand *detReader

func InstallDeterministicRand(seed uint64) {
	theRand = &detReader{seed: seed}
	rand.Reader = theRand
}

// RandMark returns the number of crypto/rand reads so far; RandKeysSince(mark) returns the
// byte strings handed out since then. Each sampling.NewPRNG() inside lattigo performs exactly
// one 64-byte read (its key), so a twin generator with the identical stream is
// sampling.NewKeyedPRNG(key).
func RandMark() int { return len(theRand.log) }

func RandKeysSince(mark int) [][]byte { return theRand.log[mark:] }
