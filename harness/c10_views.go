package main

// C10 — ring-level constructors documented as returning "a shallow copy" / "an instance" of the receiver:
// ring.Ring.AtLevel, ring.Ring.ConjugateInvariantRing, ring.Ring.StandardRing, ringqp.Ring.AtLevel — taken on the
// full ring AND on views below the maximum level, at EVERY level.
//
//   table ring.Ring.<Ctor>[…]            reflection tie (the `level` field of the sibling of a view is `config`)
//   view_consistent/<ctor>               level, Level(), MaxLevel(), N, NthRoot, moduli chain, Modulus() = ModulusAtLevel[level],
//                                        the shape of NewPoly() are those of the receiver (converted)
//   copy_behaves_same/<ctor>[vs-full-sibling.AtLevel]
//                                        the sibling of r.AtLevel(l) against (sibling of r).AtLevel(l): NTT/INTT, MulCoeffs,
//                                        PolyToBigintCentered on a level-l polynomial AND on a max-level buffer whose upper
//                                        limbs hold garbage (a ring at level l must not read them): identical
//   copy_independent/<ctor>              the receiver is bit-identical after the sibling was used

import (
	"fmt"
	"math/big"

	"github.com/tuneinsight/lattigo/v6/ring"
	"github.com/tuneinsight/lattigo/v6/ring/ringqp"
)

func c10ViewDescribe(r *ring.Ring) string {
	p := r.NewPoly()
	lim := 0
	if len(p.Coeffs) > 0 {
		lim = len(p.Coeffs[0])
	}
	return fmt.Sprintf("level=%d,max=%d,N=%d,nthroot=%d,chain=%v,modulus=%s,poly=%dx%d,type=%v", r.Level(), r.MaxLevel(), r.N(), r.NthRoot(),
		r.ModuliChain(), r.Modulus().String(), len(p.Coeffs), lim, r.Type())
}

// c10ViewOps: deterministic operations through `r` on inputs of r's level and on a max-level buffer with garbage above
func c10ViewOps(r *ring.Ring, seed uint64) string {
	out := ""
	lvl := r.Level()
	N := r.N()
	mk := func(levels int, garbageAbove bool) ring.Poly {
		p := ring.NewPoly(N, levels)
		for i := range p.Coeffs {
			q := r.SubRings[i].Modulus
			for j := range p.Coeffs[i] {
				v := (seed*2654435761 + uint64(i*7919+j*104729)) % q
				if garbageAbove && i > lvl {
					v = (v*31 + 17) % q
				}
				if i <= lvl { // the same small centred value in every limb: a genuine RNS element
					small := int64((seed+uint64(j)*3)%11) - 5
					if small < 0 {
						v = q - uint64(-small)
					} else {
						v = uint64(small)
					}
				}
				p.Coeffs[i][j] = v
			}
		}
		return p
	}
	for _, garbage := range []bool{false, true} {
		var p ring.Poly
		if garbage {
			p = mk(r.MaxLevel(), true)
		} else {
			p = mk(lvl, false)
		}
		big1 := make([]*big.Int, N)
		for i := range big1 {
			big1[i] = new(big.Int)
		}
		r.PolyToBigintCentered(p, 1, big1)
		s := ""
		for _, b := range big1[:4] {
			s += b.String() + ","
		}
		q := *p.CopyNew()
		r.NTT(q, q)
		h1 := deepHash(q.Coeffs[:lvl+1])
		r.MulCoeffsBarrett(q, q, q)
		r.INTT(q, q)
		out += fmt.Sprintf("%v:%s|%s|%s;", garbage, s, h1, deepHash(q.Coeffs[:lvl+1]))
	}
	return out
}

func c10Views(c *Ctx) {
	g1 := ring.NewNTTFriendlyPrimesGenerator(40, 128)
	moduli, err := g1.NextAlternatingPrimes(4)
	if err != nil {
		panic(err)
	}
	rStd, err := ring.NewRing(32, moduli)
	if err != nil {
		panic(err)
	}
	rCI, err := rStd.ConjugateInvariantRing()
	if err != nil {
		panic(err)
	}
	rStd2, err := rCI.StandardRing() // standard ring rebuilt from the conjugate-invariant one
	if err != nil {
		panic(err)
	}
	L := rStd.MaxLevel()

	type ctor struct {
		name string
		base *ring.Ring                           // ring whose views are converted
		conv func(*ring.Ring) (*ring.Ring, error) // the constructor under test
		full *ring.Ring                           // conv(base), taken once on the full ring
		nMul int                                  // N(sibling) = N(base) * nMul / nDiv
		nDiv int
	}
	toCI := func(r *ring.Ring) (*ring.Ring, error) { return r.ConjugateInvariantRing() }
	toStd := func(r *ring.Ring) (*ring.Ring, error) { return r.StandardRing() }
	ctors := []ctor{
		{"ring.Ring.ConjugateInvariantRing", rStd, toCI, rCI, 1, 2},
		{"ring.Ring.StandardRing[of-CI]", rCI, toStd, rStd2, 2, 1},
		{"ring.Ring.StandardRing[identity]", rStd, toStd, rStd, 1, 1},
		{"ring.Ring.ConjugateInvariantRing[identity]", rCI, toCI, rCI, 1, 1},
	}
	for _, ct := range ctors {
		ct := ct
		// table ties: on the full ring and on a view
		if s, err := ct.conv(ct.base); err == nil {
			c10Tie(c, ct.name, ct.base, s)
		}
		v1 := ct.base.AtLevel(1)
		if s, err := ct.conv(v1); err == nil {
			c10Tie(c, ct.name+"[AtLevel(1)]", v1, s)
		}
		for l := 0; l <= L; l++ {
			args := fmt.Sprintf("level=%d", l)
			v := ct.base.AtLevel(l)
			hv := deepHash(v)
			c10P(c, "view_consistent/"+ct.name, args, "C10-view-"+ct.name, func() string {
				s, err := ct.conv(v)
				if err != nil {
					return "error"
				}
				d := ""
				if s.Level() != l {
					d += fmt.Sprintf("Level()=%d ", s.Level())
				}
				if s.MaxLevel() != v.MaxLevel() {
					d += "MaxLevel "
				}
				if s.N()*ct.nDiv != v.N()*ct.nMul {
					d += fmt.Sprintf("N=%d ", s.N())
				}
				if s.NthRoot() != v.NthRoot() {
					d += "NthRoot "
				}
				if fmt.Sprint(s.ModuliChain()) != fmt.Sprint(v.ModuliChain()) {
					d += "moduli "
				}
				if s.Modulus().Cmp(v.Modulus()) != 0 || s.Modulus().Cmp(s.ModulusAtLevel[l]) != 0 {
					d += "Modulus() "
				}
				if p := s.NewPoly(); p.Level() != l || p.N() != s.N() {
					d += fmt.Sprintf("NewPoly:%dx%d ", p.Level()+1, p.N())
				}
				for i := range s.SubRings {
					if s.SubRings[i].Modulus != v.SubRings[i].Modulus || s.SubRings[i].N != s.N() {
						d += fmt.Sprintf("SubRing%d ", i)
					}
				}
				return d
			})
			c10P(c, "copy_behaves_same/"+ct.name+"[vs-full-sibling.AtLevel]", args, "C10-behaves-"+ct.name, func() string {
				s, err := ct.conv(v)
				if err != nil {
					return "error"
				}
				w := ct.full.AtLevel(l)
				if a, b := c10ViewDescribe(s), c10ViewDescribe(w); a != b {
					return "configuration-differs:" + a + " / " + b
				}
				if c10ViewOps(s, uint64(l)+3) != c10ViewOps(w, uint64(l)+3) {
					return "results-differ"
				}
				return ""
			})
			c10P(c, "copy_independent/"+ct.name, args, "C10-independent-"+ct.name, func() string {
				s, err := ct.conv(v)
				if err != nil {
					return "error"
				}
				_ = Try(func() string { return c10ViewOps(s, 9) })
				if deepHash(v) != hv {
					return "receiver-changed"
				}
				return ""
			})
		}
	}
	// AtLevel of the full ring and of a view, every pair of levels
	c10Tie(c, "ring.Ring.AtLevel[view-of-view]", rStd.AtLevel(2), rStd.AtLevel(2).AtLevel(1))
	for _, base := range []struct {
		name string
		r    *ring.Ring
	}{{"ring.Ring.AtLevel", rStd}, {"ring.Ring.AtLevel[of-CI]", rCI}} {
		base := base
		for l1 := 0; l1 <= L; l1++ {
			for l2 := 0; l2 <= L; l2++ {
				c10P(c, "view_consistent/"+base.name+"[view-of-view]", fmt.Sprintf("levels=%d,%d", l1, l2), "C10-view-"+base.name, func() string {
					v := base.r.AtLevel(l1).AtLevel(l2)
					w := base.r.AtLevel(l2)
					if a, b := c10ViewDescribe(v), c10ViewDescribe(w); a != b {
						return "configuration-differs:" + a + " / " + b
					}
					if v.Modulus().Cmp(v.ModulusAtLevel[l2]) != 0 {
						return "Modulus()"
					}
					if c10ViewOps(v, 5) != c10ViewOps(w, 5) {
						return "results-differ"
					}
					return ""
				})
			}
		}
	}
	// ringqp.Ring.AtLevel at every level pair, on the full ring and on a view
	g2 := ring.NewNTTFriendlyPrimesGenerator(45, 128)
	pm, err := g2.NextAlternatingPrimes(2)
	if err != nil {
		panic(err)
	}
	rP, err := ring.NewRing(32, pm)
	if err != nil {
		panic(err)
	}
	qp := ringqp.Ring{RingQ: rStd, RingP: rP}
	for lq := -1; lq <= L; lq++ {
		for lp := -1; lp <= rP.MaxLevel(); lp++ {
			lq, lp := lq, lp
			c10P(c, "view_consistent/ringqp.Ring.AtLevel", fmt.Sprintf("levels=%d,%d", lq, lp), "C10-view-ringqp.Ring.AtLevel", func() string {
				d := ""
				for _, v := range []ringqp.Ring{qp.AtLevel(lq, lp), qp.AtLevel(L, rP.MaxLevel()).AtLevel(lq, lp), qp.AtLevel(0, 0).AtLevel(lq, lp)} {
					if v.LevelQ() != lq || v.LevelP() != lp {
						d += fmt.Sprintf("levels=%d,%d ", v.LevelQ(), v.LevelP())
					}
					if (lq >= 0) != (v.RingQ != nil) || (lp >= 0) != (v.RingP != nil) {
						d += "nil-part "
					}
					if lq >= 0 && c10ViewDescribe(v.RingQ) != c10ViewDescribe(rStd.AtLevel(lq)) {
						d += "RingQ "
					}
					if lp >= 0 && c10ViewDescribe(v.RingP) != c10ViewDescribe(rP.AtLevel(lp)) {
						d += "RingP "
					}
					if lq >= 0 || lp >= 0 {
						p := v.NewPoly()
						if p.LevelQ() != lq || p.LevelP() != lp {
							d += "NewPoly "
						}
					}
				}
				return d
			})
		}
	}
}
