package main

// C10, circuits layer: bootstrapping.Evaluator.ShallowCopy and the evaluators it rebuilds (dft.Evaluator,
// mod1.Evaluator, which have no copy constructor of their own: the copy idiom is NewEvaluator over a shallow copy
// of the ckks evaluator).
//
//   table dft.Evaluator.NewEvaluator[over-ShallowCopy]            small ckks parameters
//   table mod1.Evaluator.NewEvaluator[over-ShallowCopy]
//   copy_behaves_same/… , copy_independent/…                      C2S / S2C and a mod-1 evaluation, bit-identical
//   internal_wiring/…                                             every inner evaluator is the copy's own
//   table bootstrapping.Evaluator.ShallowCopy (+ /DFTEvaluator, /Mod1Evaluator)
//   copy_behaves_same/bootstrapping.Evaluator.ShallowCopy         bootstrap the same ciphertext: r1 (original),
//                                                                 r2 (copy), r3 (original again) bit-identical,
//                                                                 precision bound, metadata
//   copy_independent/bootstrapping.Evaluator.ShallowCopy
//   internal_wiring/bootstrapping.Evaluator.ShallowCopy

import (
	"fmt"
	"math"
	"math/cmplx"
	"strings"

	"github.com/tuneinsight/lattigo/v6/circuits/ckks/bootstrapping"
	"github.com/tuneinsight/lattigo/v6/circuits/ckks/dft"
	"github.com/tuneinsight/lattigo/v6/circuits/ckks/mod1"
	"github.com/tuneinsight/lattigo/v6/circuits/ckks/polynomial"
	"github.com/tuneinsight/lattigo/v6/core/rlwe"
	"github.com/tuneinsight/lattigo/v6/ring"
	"github.com/tuneinsight/lattigo/v6/schemes/ckks"
	"github.com/tuneinsight/lattigo/v6/utils"
)

func c10Circuits(c *Ctx) {
	safe := func(name string, f func()) {
		if Try(func() string { f(); return "ok" }) != "ok" {
			c.Probe("no_panic/"+name, "-", "C10-panic-"+name, "panic")
		}
	}
	safe("dft+mod1", func() { c10DFTMod1(c) })
	safe("bootstrapping.Evaluator.ShallowCopy", func() { c10Bootstrapping(c) })
}

// c10Wiring checks that every evaluator reachable from a dft / mod1 evaluator pair is `own` and none is `foreign`.
func c10Wiring(d *dft.Evaluator, m *mod1.Evaluator, own, foreign *ckks.Evaluator) string {
	var bad []string
	chk := func(label string, p *ckks.Evaluator) {
		switch {
		case p == foreign && foreign != nil:
			bad = append(bad, label+"=original's")
		case p != own:
			bad = append(bad, label+"=other")
		}
	}
	if d != nil {
		chk("DFTEvaluator.Evaluator", d.Evaluator)
		if d.LTEvaluator == nil {
			bad = append(bad, "DFTEvaluator.LTEvaluator=nil")
		} else if p, ok := d.LTEvaluator.Evaluator.Evaluator.(*ckks.Evaluator); !ok {
			bad = append(bad, "DFTEvaluator.LTEvaluator.inner:not-a-ckks-evaluator")
		} else {
			chk("DFTEvaluator.LTEvaluator.inner", p)
		}
	}
	if m != nil {
		chk("Mod1Evaluator.Evaluator", m.Evaluator)
		if m.PolynomialEvaluator == nil {
			bad = append(bad, "Mod1Evaluator.PolynomialEvaluator=nil")
		} else if p, ok := m.PolynomialEvaluator.Evaluator.Evaluator.(*ckks.Evaluator); !ok {
			bad = append(bad, "Mod1Evaluator.PolynomialEvaluator.inner:not-a-ckks-evaluator")
		} else {
			chk("Mod1Evaluator.PolynomialEvaluator.inner", p)
		}
	}
	return strings.Join(bad, ",")
}

// ---------------------------------------------------------------- dft / mod1 on small parameters

func c10DFTMod1(c *Ctx) {
	logQ := []int{55}
	for i := 0; i < 9; i++ {
		logQ = append(logQ, 45)
	}
	params, err := ckks.NewParametersFromLiteral(ckks.ParametersLiteral{LogN: 6, LogQ: logQ, LogP: []int{55, 55}, LogDefaultScale: 45})
	must(err)
	kgen := rlwe.NewKeyGenerator(params)
	sk := kgen.GenSecretKeyNew()
	ecd := ckks.NewEncoder(params)
	enc := rlwe.NewEncryptor(params, sk)
	logSlots := params.LogMaxSlots()
	c2sLit := dft.MatrixLiteral{Type: dft.HomomorphicEncode, Format: dft.RepackImagAsReal, LogSlots: logSlots, LevelQ: params.MaxLevelQ(), LevelP: params.MaxLevelP(), Levels: []int{1, 1}}
	s2cLit := dft.MatrixLiteral{Type: dft.HomomorphicDecode, Format: dft.RepackImagAsReal, LogSlots: logSlots, LevelQ: params.MaxLevelQ() - 2, LevelP: params.MaxLevelP(), Levels: []int{1, 1}}
	c2s, err := dft.NewMatrixFromLiteral(params, c2sLit, ecd)
	must(err)
	s2c, err := dft.NewMatrixFromLiteral(params, s2cLit, ecd)
	must(err)
	galEls := append(c2sLit.GaloisElements(params), s2cLit.GaloisElements(params)...)
	galEls = append(galEls, params.GaloisElementOrderTwoOrthogonalSubgroup())
	evk := rlwe.NewMemEvaluationKeySet(kgen.GenRelinearizationKeyNew(sk), kgen.GenGaloisKeysNew(utils.GetDistincts(galEls), sk)...)
	m1, err := mod1.NewParametersFromLiteral(params, mod1.ParametersLiteral{LevelQ: params.MaxLevel(), Mod1Type: mod1.CosDiscrete, LogMessageRatio: 8, K: 12, Mod1Degree: 30, DoubleAngle: 3, LogScale: 45})
	must(err)

	mkCt := func(seed int) *rlwe.Ciphertext {
		v := make([]complex128, params.MaxSlots())
		for i := range v {
			v[i] = complex(float64((i*3+seed)%13)/16-0.4, float64((i*7+seed)%5)/16-0.1)
		}
		pt := ckks.NewPlaintext(params, params.MaxLevel())
		must(ecd.Encode(v, pt))
		ct, err := enc.EncryptNew(pt)
		must(err)
		return ct
	}
	ctMain, ctOther := mkCt(1), mkCt(2)
	ct := ctMain

	base := ckks.NewEvaluator(params, evk)
	cpy := base.ShallowCopy()
	dO, dX := dft.NewEvaluator(params, base), dft.NewEvaluator(params, cpy)
	mO := mod1.NewEvaluator(base, polynomial.NewEvaluator(params, base), m1)
	mX := mod1.NewEvaluator(cpy, polynomial.NewEvaluator(params, cpy), m1)

	c10Tie(c, "dft.Evaluator.NewEvaluator[over-ShallowCopy]", dO, dX)
	c10Tie(c, "mod1.Evaluator.NewEvaluator[over-ShallowCopy]", mO, mX)
	c.Probe("internal_wiring/dft.Evaluator.NewEvaluator[over-ShallowCopy]", "-", "C10-wiring-dft.Evaluator", c10Wiring(dX, nil, cpy, base))
	c.Probe("internal_wiring/mod1.Evaluator.NewEvaluator[over-ShallowCopy]", "-", "C10-wiring-mod1.Evaluator", c10Wiring(nil, mX, cpy, base))

	runDFT := func(e *dft.Evaluator) string {
		re, im, err := e.CoeffsToSlotsNew(ct.CopyNew(), c2s)
		if err != nil {
			return "c2s-err"
		}
		out, err := e.SlotsToCoeffsNew(re.CopyNew(), im, s2c)
		if err != nil {
			return "s2c-err"
		}
		return fmt.Sprintf("%s|%s|%s", deepHash(re), deepHash(im), deepHash(out))
	}
	runMod1 := func(e *mod1.Evaluator) string {
		in := ct.CopyNew()
		out, err := e.EvaluateNew(in)
		if err != nil {
			return "mod1-err"
		}
		return fmt.Sprintf("l%d|%s", out.Level(), deepHash(out))
	}
	two := func(name string, orig interface{}, runO, runX func() string) {
		indep := ""
		c10P(c, "copy_behaves_same/"+name, "-", "C10-behaves-"+name, func() string {
			r1 := runO()
			h := deepHash(orig, base)
			ct = ctOther // the copy first works on another ciphertext (different scratch content)
			runX()
			ct = ctMain
			if deepHash(orig, base) != h {
				indep = "original-changed"
			}
			r2 := runX()
			r3 := runO()
			switch {
			case strings.HasSuffix(r1, "-err"):
				return "original:" + r1
			case r1 != r2:
				return "copy-differs(" + r2[:c10Min(len(r2), 12)] + ")"
			case r1 != r3:
				return "original-differs-after-the-copy-was-used"
			}
			return ""
		})
		c.Probe("copy_independent/"+name, "-", "C10-independent-"+name, indep)
	}
	two("dft.Evaluator.NewEvaluator[over-ShallowCopy]", dO, func() string { return runDFT(dO) }, func() string { return runDFT(dX) })
	two("mod1.Evaluator.NewEvaluator[over-ShallowCopy]", mO, func() string { return runMod1(mO) }, func() string { return runMod1(mX) })
	// the TABLES the copies share with the original (mod1 polynomials, DFT matrices, key set, encoder) are read-only: deep
	// snapshot by value, the full API of the evaluators over the COPY with non-default arguments (output scaling ≠ 1, complex
	// scaling, the arcsine variant), snapshot again; and the original's results before / after are bit-identical
	{
		type tab struct {
			name string
			v    interface{}
		}
		m2, errM2 := mod1.NewParametersFromLiteral(params, mod1.ParametersLiteral{LevelQ: params.MaxLevel(), Mod1Type: mod1.CosDiscrete, LogMessageRatio: 8, K: 12, Mod1Degree: 30, DoubleAngle: 2, Mod1InvDegree: 5, LogScale: 45})
		tabs := []tab{{"mod1.Parameters", &m1}, {"dft.Matrix[CoeffsToSlots]", &c2s}, {"dft.Matrix[SlotsToCoeffs]", &s2c}, {"rlwe.MemEvaluationKeySet", evk}, {"ckks.Parameters", &params}}
		evals := []struct {
			name string
			o, x *mod1.Evaluator
		}{{"mod1.Parameters", mO, mX}}
		if errM2 == nil {
			tabs = append(tabs, tab{"mod1.Parameters[arcsine]", &m2})
			evals = append(evals, struct {
				name string
				o, x *mod1.Evaluator
			}{"mod1.Parameters[arcsine]", mod1.NewEvaluator(base, polynomial.NewEvaluator(params, base), m2), mod1.NewEvaluator(cpy, polynomial.NewEvaluator(params, cpy), m2)})
		} else {
			c.Count("mod1_arcsine_parameters_rejected")
		}
		before := make([]string, len(tabs))
		for i, t := range tabs {
			before[i] = deepHash(t.v)
		}
		origRes := make([]string, len(evals))
		for i, e := range evals {
			origRes[i] = runMod1(e.o)
		}
		for _, e := range evals {
			for _, scaling := range []complex128{1, 0.5, complex(0, 2), -3} {
				_ = Try(func() string {
					if out, err := e.x.EvaluateAndScaleNew(ct.CopyNew(), scaling); err != nil || out == nil {
						c.Count("mod1_scaled_evaluation_rejected")
					}
					return ""
				})
			}
			_ = Try(func() string { runMod1(e.x); return "" })
		}
		_ = Try(func() string { runDFT(dX); return "" })
		for i, t := range tabs {
			d := ""
			if deepHash(t.v) != before[i] {
				d = "shared-table-changed-by-the-use-of-a-copy"
			}
			c.Probe("shared_is_readonly/"+t.name, "-", "C10-readonly-"+t.name, d)
		}
		for i, e := range evals {
			d := ""
			if r := runMod1(e.o); r != origRes[i] {
				d = "original-result-differs-after-the-copy-evaluated-with-a-scaling"
			}
			c.Probe("copy_independent/mod1.Evaluator.EvaluateAndScaleNew["+e.name+"]", "-", "C10-independent-mod1.Evaluator.EvaluateAndScaleNew", d)
		}
	}
	if c.Thorough() {
		wantD, wantM := runDFT(dO), runMod1(mO)
		for _, G := range []int{2, 8} {
			ds := make([]*dft.Evaluator, G)
			ms := make([]*mod1.Evaluator, G)
			for g := range ds {
				e := base.ShallowCopy()
				ds[g] = dft.NewEvaluator(params, e)
				e2 := base.ShallowCopy()
				ms[g] = mod1.NewEvaluator(e2, polynomial.NewEvaluator(params, e2), m1)
			}
			ds[0], ms[0] = dO, mO
			c10Parallel(c, "dft.Evaluator.NewEvaluator[over-ShallowCopy]", G, 3, wantD, func(g int) string { return runDFT(ds[g]) })
			c10Parallel(c, "mod1.Evaluator.NewEvaluator[over-ShallowCopy]", G, 3, wantM, func(g int) string { return runMod1(ms[g]) })
		}
	}
}

// ---------------------------------------------------------------- bootstrapping

type c10BtpCfg struct {
	tag      string // suffix of the row name
	res      ckks.ParametersLiteral
	quickRun bool // bootstrap in the quick tier too (otherwise classification / wiring / configuration only)
	batch    int  // number of ciphertexts handed to BootstrapMany
	minPrec  float64
}

func c10Bootstrapping(c *Ctx) {
	logN := 10
	base := ckks.ParametersLiteral{LogN: logN, LogQ: []int{60, 40}, LogP: []int{61}, LogDefaultScale: 40}
	sw := base // residual ring smaller than the bootstrapping ring: xPow2N1 / xPow2InvN1 are set
	sw.LogN, sw.LogNthRoot = logN-1, logN+1
	ci := sw // conjugate-invariant residual ring: DomainSwitcher is set
	ci.RingType = ring.ConjugateInvariant
	for _, cfg := range []c10BtpCfg{
		{tag: "", res: base, quickRun: true, batch: 1, minPrec: 12},
		{tag: "[N1<N2]", res: sw, batch: 3, minPrec: 12},
		{tag: "[ConjugateInvariant]", res: ci, batch: 2, minPrec: 12},
	} {
		cfg := cfg
		if Try(func() string { c10BootstrappingCfg(c, cfg, logN); return "ok" }) != "ok" {
			c.Probe("no_panic/bootstrapping.Evaluator.ShallowCopy"+cfg.tag, "-", "C10-panic-bootstrapping.Evaluator.ShallowCopy", "panic")
		}
	}
}

func c10BootstrappingCfg(c *Ctx, cfg c10BtpCfg, logN int) {
	name := "bootstrapping.Evaluator.ShallowCopy" + cfg.tag
	res, err := ckks.NewParametersFromLiteral(cfg.res)
	must(err)
	p, err := bootstrapping.NewParametersFromLiteral(res, bootstrapping.ParametersLiteral{LogN: utils.Pointy(logN)})
	must(err)
	p.Mod1ParametersLiteral.LogMessageRatio += 16 - res.LogN() // as the repository's tests do for small rings
	skN1 := rlwe.NewKeyGenerator(res).GenSecretKeyNew()
	evk, skN2, err := p.GenEvaluationKeys(skN1)
	must(err)
	orig, err := bootstrapping.NewEvaluator(p, evk)
	must(err)
	cp := orig.ShallowCopy()

	c10Tie(c, name, orig, cp)
	if cfg.tag == "" {
		c10Tie(c, name+"/DFTEvaluator", orig.DFTEvaluator, cp.DFTEvaluator)
		c10Tie(c, name+"/Mod1Evaluator", orig.Mod1Evaluator, cp.Mod1Evaluator)
		// the optional debugging key
		dbg, err := bootstrapping.NewEvaluator(p, evk)
		must(err)
		dbg.SkDebug = skN2
		c10Tie(c, name+"[SkDebug]", dbg, dbg.ShallowCopy())
	}

	// internal wiring: everything inside the copy evaluates through the copy's own ckks evaluator
	{
		d := c10Wiring(cp.DFTEvaluator, cp.Mod1Evaluator, cp.Evaluator, orig.Evaluator)
		if cp.Evaluator == orig.Evaluator {
			d = "ckks-evaluator-shared " + d
		}
		if cp.Evaluator.Evaluator == orig.Evaluator.Evaluator {
			d = "rlwe-evaluator-shared " + d
		}
		c.Probe("internal_wiring/"+name, "-", "C10-wiring-bootstrapping.Evaluator.ShallowCopy", strings.TrimSpace(d))
		// and the original is wired to itself
		c.Probe("internal_wiring/bootstrapping.Evaluator.NewEvaluator"+cfg.tag, "-", "C10-wiring-bootstrapping.NewEvaluator",
			c10Wiring(orig.DFTEvaluator, orig.Mod1Evaluator, orig.Evaluator, nil))
	}
	// configuration (the evaluators are unused at this point)
	c10ConfigProbe(c, name, orig, cp)

	// BootstrapMany first packs sparse ciphertexts (PackAndSwitchN1ToN2, public): whatever the original can pack the
	// copy must pack to the same ciphertexts; inputs above level 0 are documented as supported (Evaluate)
	if res.RingType() == ring.Standard {
		ecd := ckks.NewEncoder(res)
		enc := rlwe.NewEncryptor(res, skN1)
		for lvl := 0; lvl <= res.MaxLevel(); lvl++ {
			lvl := lvl
			ls := utils.Min(res.LogMaxSlots(), p.LogMaxSlots()) - 2
			mk := func() []rlwe.Ciphertext {
				cts := make([]rlwe.Ciphertext, 3)
				for k := range cts {
					pt := ckks.NewPlaintext(res, lvl)
					pt.LogDimensions = ring.Dimensions{Rows: 0, Cols: ls}
					must(ecd.Encode([]complex128{complex(float64(k+1)/8, 0.25)}, pt))
					ct, err := enc.EncryptNew(pt)
					must(err)
					cts[k] = *ct
				}
				return cts
			}
			in := mk()
			pack := func(e *bootstrapping.Evaluator) string {
				cts := make([]rlwe.Ciphertext, len(in))
				for i := range in {
					cts[i] = *in[i].CopyNew()
				}
				return Try(func() string {
					out, _, _, err := e.PackAndSwitchN1ToN2(cts)
					if err != nil {
						return "err"
					}
					return fmt.Sprintf("%d:%s", len(out), deepHash(&out))
				})
			}
			a := pack(orig)
			b := pack(cp)
			args := fmt.Sprintf("level=%d,ciphertexts=3,logSlots=%d", lvl, ls)
			d := ""
			if a != b {
				d = "original:" + a[:c10Min(len(a), 8)] + ",copy:" + b[:c10Min(len(b), 8)]
			}
			c.Probe("copy_behaves_same/"+name+"[PackAndSwitchN1ToN2]", args, "C10-behaves-bootstrapping.Evaluator.ShallowCopy", d)
			d = ""
			if a == "panic" || a == "err" {
				d = "original:" + a + "(xPow2N1/xPow2N2 are generated at level 0 only, pack multiplies at the level of the inputs)"
			}
			c.Probe("original_usable/bootstrapping.Evaluator.PackAndSwitchN1ToN2"+cfg.tag, args, "C10/bootstrapping.BootstrapMany/packing-above-level-0-panics", d)
		}
	}

	if !cfg.quickRun && !c.Thorough() {
		return
	}

	ecd := ckks.NewEncoder(res)
	enc := rlwe.NewEncryptor(res, skN1)
	dec := rlwe.NewDecryptor(res, skN1)
	cplx := res.RingType() == ring.Standard
	mk := func(seed, level int) ([]complex128, rlwe.Ciphertext) {
		v := make([]complex128, res.MaxSlots())
		for i := range v {
			v[i] = complex(float64((i*3+seed)%17)/16-0.5, 0)
			if cplx {
				v[i] += complex(0, float64((i*5+seed)%11)/16-0.3)
			}
		}
		pt := ckks.NewPlaintext(res, level)
		must(ecd.Encode(v, pt))
		ct, err := enc.EncryptNew(pt)
		must(err)
		return v, *ct
	}
	prec := func(ct *rlwe.Ciphertext, want []complex128) float64 {
		got := make([]complex128, len(want))
		must(ecd.Decode(dec.DecryptNew(ct), got))
		worst := 0.0
		for i := range got {
			if e := cmplx.Abs(got[i] - want[i]); e > worst {
				worst = e
			}
		}
		if worst == 0 {
			return 99
		}
		return -math.Log2(worst)
	}
	meta := func(ct *rlwe.Ciphertext) string {
		return fmt.Sprintf("l%d,d%d,%s,%d/%d,ntt%v", ct.Level(), ct.Degree(), ct.Scale.Value.Text('g', 40), ct.LogDimensions.Rows, ct.LogDimensions.Cols, ct.IsNTT)
	}
	run := func(e *bootstrapping.Evaluator, cts []rlwe.Ciphertext) (out []rlwe.Ciphertext, err error) {
		defer func() {
			if r := recover(); r != nil {
				out, err = nil, fmt.Errorf("panic: %v", r)
			}
		}()
		in := make([]rlwe.Ciphertext, len(cts))
		for i := range cts {
			in[i] = *cts[i].CopyNew()
		}
		if len(in) == 1 {
			r, err := e.Bootstrap(&in[0])
			if err != nil {
				return nil, err
			}
			return []rlwe.Ciphertext{*r}, nil
		}
		return e.BootstrapMany(in)
	}
	levels := []int{0}
	if c.Thorough() {
		levels = []int{0, 1}
	}
	indep := ""
	for _, lvl := range levels {
		lvl := lvl
		c10P(c, "copy_behaves_same/"+name, fmt.Sprintf("level=%d,batch=%d", lvl, cfg.batch), "C10-behaves-bootstrapping.Evaluator.ShallowCopy", func() string {
			var vs [][]complex128
			var cts []rlwe.Ciphertext
			for k := 0; k < cfg.batch; k++ {
				v, ct := mk(1+lvl+7*k, lvl)
				vs, cts = append(vs, v), append(cts, ct)
			}
			r1, e1 := run(orig, cts)
			h := deepHash(orig)
			{ // the copy first bootstraps ANOTHER ciphertext (different scratch content)
				_, other := mk(50+lvl, lvl)
				_, _ = run(cp, []rlwe.Ciphertext{other})
			}
			if deepHash(orig) != h {
				indep += fmt.Sprintf("level=%d ", lvl)
			}
			r2, e2 := run(cp, cts)
			if (e1 != nil) != (e2 != nil) {
				return fmt.Sprintf("error(original=%v,copy=%v)", e1 != nil, e2 != nil)
			}
			if e1 != nil {
				// the ORIGINAL cannot do this (not a copy defect; see original_usable/… below): the copy must fail too
				c.Count("bootstrap-fails-on-original-and-copy:" + name)
				return ""
			}
			r3, e3 := run(orig, cts)
			if e3 != nil {
				return "error(original,second-run)"
			}
			if len(r1) != len(cts) || len(r2) != len(cts) || len(r3) != len(cts) {
				return "number-of-results"
			}
			var bad []string
			worst := 99.0
			for k := range cts {
				p1, p2 := prec(&r1[k], vs[k]), prec(&r2[k], vs[k])
				worst = math.Min(worst, math.Min(p1, p2))
				if p1 < cfg.minPrec || p2 < cfg.minPrec {
					bad = append(bad, fmt.Sprintf("precision[%d](original=%.1f,copy=%.1f)<%.0f", k, p1, p2, cfg.minPrec))
				}
				if meta(&r1[k]) != meta(&r2[k]) {
					bad = append(bad, "metadata("+meta(&r1[k])+"/"+meta(&r2[k])+")")
				}
				if r1[k].Level() != orig.OutputLevel() {
					bad = append(bad, "output-level")
				}
			}
			c.Count(fmt.Sprintf("bootstrap-precision-bits%s:%d", cfg.tag, int(math.Floor(worst))))
			if deepHash(&r1) != deepHash(&r3) {
				bad = append(bad, "original-not-reproducible-after-the-copy-ran")
			}
			if deepHash(&r1) != deepHash(&r2) {
				bad = append(bad, "copy-not-bit-identical")
			}
			if c.Thorough() {
				// a copy of the copy, and the copy once more
				r4, e4 := run(cp.ShallowCopy(), cts)
				r5, e5 := run(cp, cts)
				if e4 != nil || e5 != nil || deepHash(&r4) != deepHash(&r1) || deepHash(&r5) != deepHash(&r1) {
					bad = append(bad, "copy-of-copy-or-reused-copy-differs")
				}
			}
			return strings.Join(bad, ",")
		})
	}
	if indep != "" {
		indep = "original-changed-at " + strings.TrimSpace(indep)
	}
	c.Probe("copy_independent/"+name, "-", "C10-independent-bootstrapping.Evaluator.ShallowCopy", indep)
	if c.Thorough() && cfg.batch <= 2 {
		// the original and its copies in parallel, sharing the bootstrapping keys
		var cts []rlwe.Ciphertext
		for k := 0; k < cfg.batch; k++ {
			_, ct := mk(3+k, 0)
			cts = append(cts, ct)
		}
		h := func(e *bootstrapping.Evaluator) string {
			r, err := run(e, cts)
			if err != nil {
				return "err"
			}
			return deepHash(&r)
		}
		want := h(orig)
		for _, G := range []int{2, 4} {
			es := make([]*bootstrapping.Evaluator, G)
			for g := range es {
				es[g] = orig.ShallowCopy()
			}
			es[0] = orig
			c10Parallel(c, name, G, 1, want, func(g int) string { return h(es[g]) })
		}
	}
}
