package main

// C08: the helpers of utils/buffer, driven directly (not through a lattigo type): every
// Read*/Write* function, through every kind of buffer.Reader/Writer, on transports that return
// short counts, with the reader position checked after every item.

import (
	"bufio"
	"bytes"
	"encoding/binary"
	"fmt"
	"io"

	"github.com/tuneinsight/lattigo/v6/utils/buffer"
)

type c08Item struct {
	fn   string // helper under test (read side)
	enc  []byte // reference little-endian encoding
	wr   func(w buffer.Writer) (int64, error)
	rd   func(r buffer.Reader) (int64, error, bool) // n, err, value equal
	size int
}

func (g *c08Gen) bufferItems() []c08Item {
	var items []c08Item
	le := binary.LittleEndian
	u8 := uint8(g.rng.U64())
	items = append(items, c08Item{fn: "ReadUint8", enc: []byte{u8},
		wr: func(w buffer.Writer) (int64, error) { return buffer.WriteUint8(w, u8) },
		rd: func(r buffer.Reader) (int64, error, bool) {
			var x uint8
			n, err := buffer.ReadUint8(r, &x)
			return n, err, x == u8
		}})
	u16 := uint16(g.rng.U64())
	items = append(items, c08Item{fn: "ReadUint16", enc: le.AppendUint16(nil, u16),
		wr: func(w buffer.Writer) (int64, error) { return buffer.WriteUint16(w, u16) },
		rd: func(r buffer.Reader) (int64, error, bool) {
			var x uint16
			n, err := buffer.ReadUint16(r, &x)
			return n, err, x == u16
		}})
	u32 := uint32(g.rng.U64())
	items = append(items, c08Item{fn: "ReadUint32", enc: le.AppendUint32(nil, u32),
		wr: func(w buffer.Writer) (int64, error) { return buffer.WriteUint32(w, u32) },
		rd: func(r buffer.Reader) (int64, error, bool) {
			var x uint32
			n, err := buffer.ReadUint32(r, &x)
			return n, err, x == u32
		}})
	u64 := g.rng.U64()
	items = append(items, c08Item{fn: "ReadUint64", enc: le.AppendUint64(nil, u64),
		wr: func(w buffer.Writer) (int64, error) { return buffer.WriteUint64(w, u64) },
		rd: func(r buffer.Reader) (int64, error, bool) {
			var x uint64
			n, err := buffer.ReadUint64(r, &x)
			return n, err, x == u64
		}})
	for _, n := range []int{0, 1, 3, 33, 600, 5000} {
		n := n
		s8 := g.rng.Bytes(n + 8)[:n]
		items = append(items, c08Item{fn: "ReadUint8Slice", enc: append([]byte(nil), s8...),
			wr: func(w buffer.Writer) (int64, error) { return buffer.WriteUint8Slice(w, s8) },
			rd: func(r buffer.Reader) (int64, error, bool) {
				x := make([]uint8, n)
				m, err := buffer.ReadUint8Slice(r, x)
				return m, err, bytes.Equal(x, s8)
			}})
		blk := g.rng.Bytes(n + 8)[:n]
		items = append(items, c08Item{fn: "Read", enc: append([]byte(nil), blk...),
			wr: func(w buffer.Writer) (int64, error) { return buffer.Write(w, blk) },
			rd: func(r buffer.Reader) (int64, error, bool) {
				x := make([]byte, n)
				m, err := buffer.Read(r, x)
				return m, err, bytes.Equal(x, blk)
			}})
		s16 := make([]uint16, n)
		var e16 []byte
		for i := range s16 {
			s16[i] = uint16(g.rng.U64())
			e16 = le.AppendUint16(e16, s16[i])
		}
		items = append(items, c08Item{fn: "ReadUint16Slice", enc: e16,
			wr: func(w buffer.Writer) (int64, error) { return buffer.WriteUint16Slice(w, s16) },
			rd: func(r buffer.Reader) (int64, error, bool) {
				x := make([]uint16, n)
				m, err := buffer.ReadUint16Slice(r, x)
				ok := true
				for i := range x {
					ok = ok && x[i] == s16[i]
				}
				return m, err, ok
			}})
		s32 := make([]uint32, n)
		var e32 []byte
		for i := range s32 {
			s32[i] = uint32(g.rng.U64())
			e32 = le.AppendUint32(e32, s32[i])
		}
		items = append(items, c08Item{fn: "ReadUint32Slice", enc: e32,
			wr: func(w buffer.Writer) (int64, error) { return buffer.WriteUint32Slice(w, s32) },
			rd: func(r buffer.Reader) (int64, error, bool) {
				x := make([]uint32, n)
				m, err := buffer.ReadUint32Slice(r, x)
				ok := true
				for i := range x {
					ok = ok && x[i] == s32[i]
				}
				return m, err, ok
			}})
		s64 := make([]uint64, n)
		var e64 []byte
		for i := range s64 {
			s64[i] = g.rng.U64()
			e64 = le.AppendUint64(e64, s64[i])
		}
		items = append(items, c08Item{fn: "ReadUint64Slice", enc: e64,
			wr: func(w buffer.Writer) (int64, error) { return buffer.WriteUint64Slice(w, s64) },
			rd: func(r buffer.Reader) (int64, error, bool) {
				x := make([]uint64, n)
				m, err := buffer.ReadUint64Slice(r, x)
				ok := true
				for i := range x {
					ok = ok && x[i] == s64[i]
				}
				return m, err, ok
			}})
	}
	for i := range items {
		items[i].size = len(items[i].enc)
	}
	return items
}

func (g *c08Gen) probeBufferHelpers() {
	c := g.c
	items := g.bufferItems()
	var ref []byte
	for _, it := range items {
		ref = append(ref, it.enc...)
	}
	trailer := []byte("TRAILER")
	// ---- writers: every Write* helper, through every kind of buffer.Writer
	type wk struct {
		name string
		mk   func(dst *bytes.Buffer) (buffer.Writer, func() []byte)
	}
	for _, w := range []wk{
		{"bufio.Writer", func(dst *bytes.Buffer) (buffer.Writer, func() []byte) {
			bw := bufio.NewWriter(dst)
			return bw, func() []byte { bw.Flush(); return dst.Bytes() }
		}},
		{"bufio.Writer16", func(dst *bytes.Buffer) (buffer.Writer, func() []byte) {
			bw := bufio.NewWriterSize(dst, 16)
			return bw, func() []byte { bw.Flush(); return dst.Bytes() }
		}},
		{"bufio.Writer17", func(dst *bytes.Buffer) (buffer.Writer, func() []byte) {
			bw := bufio.NewWriterSize(dst, 17)
			return bw, func() []byte { bw.Flush(); return dst.Bytes() }
		}},
		{"buffer.Buffer", func(dst *bytes.Buffer) (buffer.Writer, func() []byte) {
			b := buffer.NewBufferSize(len(ref))
			return b, func() []byte { return b.Bytes() }
		}},
	} {
		var dst bytes.Buffer
		bw, done := w.mk(&dst)
		detail, k := "", ""
		cls := c08Call(func() error {
			for _, it := range items {
				n, err := it.wr(bw)
				if err != nil {
					return err
				}
				if int(n) != it.size && detail == "" {
					detail = fmt.Sprintf("%s reported n=%d for %d bytes", it.fn, n, it.size)
					k = "C08/buffer.W" + it.fn[1:] + "/wrong-n"
				}
			}
			return nil
		})
		if cls != "ok" {
			detail, k = "writing the items: "+cls, "C08/buffer.Write-helpers/"+cls
		} else if out := done(); detail == "" && !bytes.Equal(out, ref) {
			detail = fmt.Sprintf("bytes differ from the little-endian reference at %d (len %d vs %d)", c08FirstDiff(out, ref), len(out), len(ref))
			k = "C08/buffer.Write-helpers/bytes-differ"
		}
		c.Probe("buffer_helpers", "write "+w.name, k, detail)
	}
	// ---- readers
	stream := append(append([]byte(nil), ref...), trailer...)
	rnd := make([]int, 6)
	for i := range rnd {
		rnd[i] = 1 + g.rng.Intn(200)
	}
	type rk struct {
		name string
		mk   func() buffer.Reader
	}
	readers := []rk{
		{"buffer.Buffer", func() buffer.Reader { return buffer.NewBuffer(append([]byte(nil), stream...)) }},
		{"bufio.Reader", func() buffer.Reader { return bufio.NewReader(bytes.NewReader(stream)) }},
	}
	for _, sz := range []int{16, 17, 100, 1023, 4096, 4097} {
		sz := sz
		readers = append(readers,
			rk{fmt.Sprintf("bufio.ReaderSize(%d) over 1-byte reads", sz), func() buffer.Reader {
				return bufio.NewReaderSize(&c08ChunkReader{data: stream, sizes: []int{1}}, sz)
			}},
			rk{fmt.Sprintf("bufio.ReaderSize(%d) over random short reads %s", sz, IVec(rnd)), func() buffer.Reader {
				return bufio.NewReaderSize(&c08ChunkReader{data: stream, sizes: rnd}, sz)
			}})
	}
	for _, r := range readers {
		rd := r.mk()
		detail, k := "", ""
		cls := c08Call(func() error {
			for i, it := range items {
				n, err, same := it.rd(rd)
				switch {
				case err != nil:
					detail, k = fmt.Sprintf("item %d (%s, %d bytes): error on a complete stream: %v", i, it.fn, it.size, err), "C08/buffer."+it.fn+"/error-on-fragmented-stream"
				case int(n) != it.size:
					detail, k = fmt.Sprintf("item %d (%s): n=%d for %d bytes, no error", i, it.fn, n, it.size), "C08/buffer."+it.fn+"/single-Read-call-short-read"
				case !same:
					detail, k = fmt.Sprintf("item %d (%s, %d bytes): value differs", i, it.fn, it.size), "C08/buffer."+it.fn+"/value-differs"
				}
				if detail != "" {
					return nil
				}
			}
			rest, _ := io.ReadAll(rd)
			if !bytes.Equal(rest, trailer) {
				detail, k = fmt.Sprintf("reader not positioned at the trailer after the items: %d bytes left", len(rest)), "C08/buffer.Read-helpers/reader-position"
			}
			return nil
		})
		if cls != "ok" {
			detail, k = "reading the items: "+cls, "C08/buffer.Read-helpers/"+cls
		}
		c.Probe("buffer_helpers", "read "+r.name, k, detail)
	}
	// ---- truncation of every item at every offset, both reader kinds: error, never a hang
	for _, kind := range []string{"buffer.Buffer", "bufio.Reader"} {
		detail, k := "", ""
		for i, it := range items {
			offs := g.offsets(it.size, c.Scale(80, 2000))
			for _, cut := range offs {
				var rd buffer.Reader
				if kind == "buffer.Buffer" {
					rd = newC08GuardBufAsReader(it.enc[:cut])
				} else {
					rd = bufio.NewReader(bytes.NewReader(it.enc[:cut]))
				}
				var err error
				cls := c08Call(func() error { _, err, _ = it.rd(rd); return nil })
				if cls != "ok" {
					detail, k = fmt.Sprintf("item %d (%s) truncated to %d of %d bytes: %s", i, it.fn, cut, it.size, cls), "C08/buffer."+it.fn+"/"+cls
				} else if err == nil {
					detail, k = fmt.Sprintf("item %d (%s) truncated to %d of %d bytes: no error", i, it.fn, cut, it.size), "C08/buffer."+it.fn+"/truncated-input-accepted"
					if it.fn == "ReadUint8Slice" {
						k = c08KUint8Slice
					}
				}
				if detail != "" {
					break
				}
			}
			if detail != "" {
				break
			}
		}
		c.Probe("buffer_helpers", "truncation "+kind, k, detail)
	}
}

func newC08GuardBufAsReader(b []byte) buffer.Reader { return c08NewGuardBuf(b) }
