package main

// C04 — automorphisms on BOTH ring types (standard, conjugate-invariant) with every way a Galois key can reach the
// evaluator: (a) present in the key set at NewEvaluator, (b) added to the MemEvaluationKeySet AFTER NewEvaluator,
// (c) served lazily by a custom EvaluationKeySet that advertises no key; plus ShallowCopy of such evaluators.
// Variants: Automorphism, AutomorphismHoisted, AutomorphismHoistedLazy + ModDown; NTT and coefficient-domain inputs.
// Probes: decrypt-and-compare with sigma(m) (reference: the coefficient-domain ring.Automorphism on the plaintext)
// and NTT-domain result == coefficient-domain result. The standard ring is also tied to the model (op `aut`).

import (
	"fmt"

	"github.com/tuneinsight/lattigo/v6/core/rlwe"
	"github.com/tuneinsight/lattigo/v6/ring"
	"github.com/tuneinsight/lattigo/v6/ring/ringqp"
)

// c04LazyKeySet serves keys on demand and advertises none (GetGaloisKeysList is empty).
type c04LazyKeySet struct {
	rlk *rlwe.RelinearizationKey
	gks map[uint64]*rlwe.GaloisKey
}

func (s *c04LazyKeySet) GetGaloisKey(galEl uint64) (*rlwe.GaloisKey, error) {
	if k, ok := s.gks[galEl]; ok {
		return k, nil
	}
	return nil, fmt.Errorf("no key")
}
func (s *c04LazyKeySet) GetGaloisKeysList() []uint64 { return []uint64{} }
func (s *c04LazyKeySet) GetRelinearizationKey() (*rlwe.RelinearizationKey, error) {
	if s.rlk == nil {
		return nil, fmt.Errorf("no key")
	}
	return s.rlk, nil
}
func (s *c04LazyKeySet) ShallowCopy() rlwe.EvaluationKeySet { return s }

// autRef applies sigma_g to a signed plaintext with the coefficient-domain ring.Automorphism (both ring types).
func (ps *c04PS) autRef(m []int64, g uint64) []int64 {
	r := ps.params.RingQ().AtLevel(0)
	in := ps.polyFromRows(ps.rowsFromInts(m, 0), false)
	out := r.NewPoly()
	r.Automorphism(in, g, out)
	return c04Centered(out.Coeffs[0], ps.Q[0])
}

func c04AutKeySets(c *Ctx) {
	rounds := c.Scale(2, 12)
	for r := 0; r < rounds; r++ {
		for _, rt := range []ring.Type{ring.ConjugateInvariant, ring.Standard} {
			logN := 4 + c.rng.Intn(2)
			nQ := 1 + c.rng.Intn(3)
			nP := 1 + c.rng.Intn(2)
			if c.rng.Intn(4) == 0 {
				nP = 0
			}
			var ps *c04PS
			for try := 0; try < 20 && ps == nil; try++ {
				bq := make([]int, nQ)
				for i := range bq {
					bq[i] = 30 + c.rng.Intn(26)
				}
				bp := make([]int, nP)
				for i := range bp {
					bp[i] = 30 + c.rng.Intn(26)
				}
				genLogN := logN
				if rt == ring.ConjugateInvariant {
					genLogN = logN + 1 // NthRoot = 4N
				}
				Q, P, ok := c04Primes(genLogN, bq, bp)
				if !ok {
					continue
				}
				c04RingType = rt
				c04XsChoice = c.rng.Intn(5)
				p, err := c04NewPS(logN, Q, P, true)
				c04RingType = ring.Standard
				c04XsChoice = 0
				if err == nil {
					ps = p
				}
			}
			if ps == nil {
				c.Count("autkeys:no-params")
				continue
			}
			cfg := c04KeyCfg{lq: nQ - 1, lp: nP - 1}
			if nP <= 1 && c.rng.Intn(3) == 0 {
				cfg.w = 6 + c.rng.Intn(20)
			}
			c04AutKeySetScenario(c, ps, cfg, rt)
		}
	}
}

func c04AutKeySetScenario(c *Ctx, ps *c04PS, cfg c04KeyCfg, rt ring.Type) {
	N := ps.N()
	rtName := "std"
	if rt == ring.ConjugateInvariant {
		rtName = "ci"
	}
	kgen := rlwe.NewKeyGenerator(ps.params)
	sk := kgen.GenSecretKeyNew()
	nth := ps.params.RingQ().NthRoot()
	galEls := []uint64{ps.params.GaloisElement(1 + c.rng.Intn(N/2-1)), ps.params.GaloisElement(-1 - c.rng.Intn(3))}
	if rt == ring.Standard {
		galEls = append(galEls, ps.params.GaloisElementOrderTwoOrthogonalSubgroup())
	}
	seen := map[uint64]bool{1: true}
	var gs []uint64
	for _, g := range galEls {
		if !seen[g] {
			seen[g] = true
			gs = append(gs, g)
		}
	}
	gks := map[uint64]*rlwe.GaloisKey{}
	var gkl []*rlwe.GaloisKey
	for _, g := range gs {
		gks[g] = kgen.GenGaloisKeyNew(g, sk, cfg.evkParams())
		gkl = append(gkl, gks[g])
	}
	type mode struct {
		name string
		eval *rlwe.Evaluator
	}
	var modes []mode
	// (a) present at construction
	modes = append(modes, mode{"present", rlwe.NewEvaluator(ps.params, rlwe.NewMemEvaluationKeySet(nil, gkl...))})
	// (b) added after construction
	{
		set := rlwe.NewMemEvaluationKeySet(nil)
		ev := rlwe.NewEvaluator(ps.params, set)
		for g, k := range gks {
			set.GaloisKeys[g] = k
		}
		modes = append(modes, mode{"added-after", ev})
		modes = append(modes, mode{"added-after.ShallowCopy", ev.ShallowCopy()})
	}
	// (c) lazy custom key set
	{
		ev := rlwe.NewEvaluator(ps.params, &c04LazyKeySet{gks: gks})
		modes = append(modes, mode{"lazy-keyset", ev})
	}
	// (d) WithKey on an evaluator built without keys
	modes = append(modes, mode{"WithKey", rlwe.NewEvaluator(ps.params, nil).WithKey(rlwe.NewMemEvaluationKeySet(nil, gkl...))})

	lvl := cfg.lq
	if c.rng.Intn(3) == 0 {
		lvl = c.rng.Intn(cfg.lq + 1)
	}
	m := c04Msg(c, ps, lvl)
	e := c04SmallVec(c, N, 3)
	rows := ps.randRows(c, lvl)
	shape := ps.c04ShapeOf(cfg)
	bound := ps.ksNoiseBound(lvl, cfg.lp, cfg.w, shape)
	c.Count(fmt.Sprintf("autkeys:%s:Q%d:P%d:w%d:xs%d:nth%d", rtName, len(ps.Q), len(ps.P), cfg.w, ps.xs, nth))
	for _, g := range gs {
		want := ps.autRef(m, g)
		for _, md := range modes {
			results := map[bool]string{}
			for _, isNTT := range []bool{true, false} {
				ct := ps.mkCt(sk, m, e, [][][]uint64{rows}, isNTT)
				in := ps.ctPolys(ct)
				args := fmt.Sprintf("%s %s %s %d %d %d lvl=%d ntt=%s galEl=%d", rtName, md.name, ps.hdr(), cfg.lq, cfg.lp, cfg.w, lvl, c04B2s(isNTT), g)
				key := func(variant string) string {
					return "C04-automorphism-" + rtName + "-" + md.name + "-" + variant
				}
				// plain
				out := rlwe.NewCiphertext(ps.params, 1, lvl)
				res := Try(func() string {
					if err := md.eval.Automorphism(ct, g, out); err != nil {
						return "err"
					}
					return c04Polys(ps.ctPolys(out))
				})
				if res == "err" || res == "panic" {
					c.Probe("automorphism_keyset_decrypts", "plain "+args, key("plain"), "Automorphism "+res)
					continue
				}
				results[isNTT] = res
				if rt == ring.Standard {
					c.Emit(ps.ksLine("aut", cfg, isNTT, g, 0, &gks[g].EvaluationKey, in), res)
				}
				c04ProbeNoise(c, ps, "automorphism_keyset_decrypts", "plain "+args, out, sk, want, bound, key("plain"))
				c.Count("autkeys:" + rtName + ":" + md.name + ":plain")
				if cfg.w != 0 || cfg.lp < 0 {
					continue
				}
				// hoisted
				nbPi := cfg.lp + 1
				outH := rlwe.NewCiphertext(ps.params, 1, lvl)
				resH := Try(func() string {
					md.eval.DecomposeNTT(lvl, cfg.lp, nbPi, ct.Value[1], ct.IsNTT, md.eval.BuffDecompQP)
					if err := md.eval.AutomorphismHoisted(lvl, ct, md.eval.BuffDecompQP, g, outH); err != nil {
						return "err"
					}
					return c04Polys(ps.ctPolys(outH))
				})
				if resH == "err" || resH == "panic" {
					c.Probe("automorphism_keyset_decrypts", "hoisted "+args, key("hoisted"), "AutomorphismHoisted "+resH)
				} else {
					c04ProbeNoise(c, ps, "automorphism_keyset_decrypts", "hoisted "+args, outH, sk, want, bound, key("hoisted"))
					d := ""
					if resH != res {
						d = "hoisted output differs from plain output"
					}
					c.Probe("hoisted_eq_plain", "keyset "+args, key("hoisted-neq-plain"), d)
				}
				// hoisted lazy + ModDown
				rp := cfg.lp + c.rng.Intn(len(ps.P)-cfg.lp)
				ctQP := &rlwe.Element[ringqp.Poly]{}
				ctQP.Value = []ringqp.Poly{ps.params.RingQP().AtLevel(lvl, rp).NewPoly(), ps.params.RingQP().AtLevel(lvl, rp).NewPoly()}
				ctQP.MetaData = ct.MetaData.CopyNew()
				outM := rlwe.NewCiphertext(ps.params, 1, lvl)
				*outM.MetaData = *ct.MetaData
				resL := Try(func() string {
					md.eval.DecomposeNTT(lvl, cfg.lp, nbPi, ct.Value[1], ct.IsNTT, md.eval.BuffDecompQP)
					if err := md.eval.AutomorphismHoistedLazy(lvl, ct, md.eval.BuffDecompQP, g, ctQP); err != nil {
						return "err"
					}
					md.eval.ModDown(lvl, cfg.lp, ctQP, outM)
					return "ok"
				})
				if resL != "ok" {
					c.Probe("automorphism_keyset_decrypts", "hoisted-lazy "+args, key("hoisted-lazy"), "AutomorphismHoistedLazy "+resL)
				} else {
					c04ProbeNoise(c, ps, "automorphism_keyset_decrypts", "hoisted-lazy "+args, outM, sk, want, bound, key("hoisted-lazy"))
				}
			}
			// the same ciphertext in and out of the NTT domain must give the same canonical result
			if a, ok1 := results[true]; ok1 {
				if b, ok2 := results[false]; ok2 {
					d := ""
					if a != b {
						d = "NTT-domain result differs from coefficient-domain result"
					}
					c.Probe("aut_ntt_eq_coeff", fmt.Sprintf("%s %s galEl=%d", rtName, md.name, g), "C04-automorphism-"+rtName+"-"+md.name+"-ntt-neq-coeff", d)
				}
			}
		}
	}
}
