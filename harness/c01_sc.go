package main

// C01, round 5: every Ring-level scalar operation (ring/operations.go, ring/scalar.go) and its ringqp twin against
// big-integer references, with scalars of every sign and size class: negative (-1, -2^40, -2^63, -(2^64-1), -(Q+1)),
// zero, positive word-sized, >= 2^63, >= 2^64, > Q, around each modulus; at every level of chains of unequal prime
// sizes, both ring types.  After each call the caller's arguments (the *big.Int, the RNS scalars, the input
// polynomial) must be unchanged (key C01/<op>/scalar-argument-modified).

import (
	"fmt"
	"math/big"

	"github.com/tuneinsight/lattigo/v6/ring"
	"github.com/tuneinsight/lattigo/v6/ring/ringqp"
)

// c01scProbeDoubleSmallN enables the probes of the four ...DoubleRNSScalar... operations at N = 8, which fail on /repo
// until fixes/C01-6 is applied (each half row has 4 coefficients, the vector kernels process 8 at a time through an
// unsafe window: the second half is processed twice and 4 words are written past the end of the row).
const c01scProbeDoubleSmallN = true

func init() {
	prev := generators["C01"]
	generators["C01"] = func(c *Ctx) {
		prev(c)
		c01scScalars(c)
	}
}

func c01scPow2(k uint) *big.Int { return new(big.Int).Lsh(big.NewInt(1), k) }

// c01scValues: the scalar classes for a chain with product Q
func c01scValues(c *Ctx, qs []uint64) []*big.Int {
	Q := big.NewInt(1)
	for _, q := range qs {
		Q.Mul(Q, bi(q))
	}
	neg := func(x *big.Int) *big.Int { return new(big.Int).Neg(x) }
	w64 := c01scPow2(64)
	vs := []*big.Int{
		big.NewInt(0), big.NewInt(1), big.NewInt(-1), big.NewInt(2), big.NewInt(-2),
		c01scPow2(40), neg(c01scPow2(40)), sub(c01scPow2(63), big.NewInt(1)), neg(sub(c01scPow2(63), big.NewInt(1))),
		c01scPow2(63), neg(c01scPow2(63)), add(c01scPow2(63), big.NewInt(1)), neg(add(c01scPow2(63), big.NewInt(1))),
		sub(w64, big.NewInt(1)), neg(sub(w64, big.NewInt(1))), w64, neg(w64), add(w64, big.NewInt(1)),
		sub(Q, big.NewInt(1)), Q, neg(Q), add(Q, big.NewInt(1)), neg(add(Q, big.NewInt(1))), mul(Q, Q), neg(c01scPow2(200)),
	}
	for _, q := range qs {
		vs = append(vs, bi(q), bi(q-1), bi(q+1), neg(bi(q)), neg(bi(q+1)), neg(bi(q-1)))
	}
	for k := 0; k < c.Scale(6, 40); k++ {
		v := new(big.Int).Rsh(bi(c.rng.U64()), uint(c.rng.Intn(60)))
		if c.rng.Intn(3) == 0 {
			v.Mul(v, bi(c.rng.U64()))
		}
		if c.rng.Intn(2) == 0 {
			v.Neg(v)
		}
		vs = append(vs, v)
	}
	return vs
}

type c01scOp struct {
	name string
	// kind of scalar argument: "big", "u64" (values in [0, 2^64) only), "rns" (two scalars, halves)
	kind string
	run  func(r *ring.Ring, p1 ring.Poly, acc ring.Poly, s *big.Int, u uint64, s0, s1 ring.RNSScalar)
	// exact value of coefficient k of a row with modulus q: x = p1, z = previous content of the output
	ref func(x, z, s *big.Int, firstHalf bool, s1 *big.Int) *big.Int
}

func c01scOps() []c01scOp {
	pick := func(s, s1 *big.Int, first bool) *big.Int {
		if first {
			return s
		}
		return s1
	}
	return []c01scOp{
		{"Ring.MulScalarBigint", "big", func(r *ring.Ring, p, o ring.Poly, s *big.Int, _ uint64, _, _ ring.RNSScalar) {
			r.MulScalarBigint(p, s, o)
		},
			func(x, z, s *big.Int, _ bool, _ *big.Int) *big.Int { return mul(x, s) }},
		{"Ring.MulScalarBigintThenAdd", "big", func(r *ring.Ring, p, o ring.Poly, s *big.Int, _ uint64, _, _ ring.RNSScalar) {
			r.MulScalarBigintThenAdd(p, s, o)
		}, func(x, z, s *big.Int, _ bool, _ *big.Int) *big.Int { return add(z, mul(x, s)) }},
		{"Ring.AddScalarBigint", "big", func(r *ring.Ring, p, o ring.Poly, s *big.Int, _ uint64, _, _ ring.RNSScalar) {
			r.AddScalarBigint(p, s, o)
		},
			func(x, z, s *big.Int, _ bool, _ *big.Int) *big.Int { return add(x, s) }},
		{"Ring.SubScalarBigint", "big", func(r *ring.Ring, p, o ring.Poly, s *big.Int, _ uint64, _, _ ring.RNSScalar) {
			r.SubScalarBigint(p, s, o)
		},
			func(x, z, s *big.Int, _ bool, _ *big.Int) *big.Int { return sub(x, s) }},
		{"Ring.MulScalar", "u64", func(r *ring.Ring, p, o ring.Poly, _ *big.Int, u uint64, _, _ ring.RNSScalar) { r.MulScalar(p, u, o) },
			func(x, z, s *big.Int, _ bool, _ *big.Int) *big.Int { return mul(x, s) }},
		{"Ring.MulScalarThenAdd", "u64", func(r *ring.Ring, p, o ring.Poly, _ *big.Int, u uint64, _, _ ring.RNSScalar) {
			r.MulScalarThenAdd(p, u, o)
		},
			func(x, z, s *big.Int, _ bool, _ *big.Int) *big.Int { return add(z, mul(x, s)) }},
		{"Ring.MulScalarThenSub", "u64", func(r *ring.Ring, p, o ring.Poly, _ *big.Int, u uint64, _, _ ring.RNSScalar) {
			r.MulScalarThenSub(p, u, o)
		},
			func(x, z, s *big.Int, _ bool, _ *big.Int) *big.Int { return sub(z, mul(x, s)) }},
		{"Ring.AddScalar", "u64", func(r *ring.Ring, p, o ring.Poly, _ *big.Int, u uint64, _, _ ring.RNSScalar) { r.AddScalar(p, u, o) },
			func(x, z, s *big.Int, _ bool, _ *big.Int) *big.Int { return add(x, s) }},
		{"Ring.SubScalar", "u64", func(r *ring.Ring, p, o ring.Poly, _ *big.Int, u uint64, _, _ ring.RNSScalar) { r.SubScalar(p, u, o) },
			func(x, z, s *big.Int, _ bool, _ *big.Int) *big.Int { return sub(x, s) }},
		{"Ring.EvalPolyScalar", "u64", func(r *ring.Ring, p, o ring.Poly, _ *big.Int, u uint64, _, _ ring.RNSScalar) {
			r.EvalPolyScalar([]ring.Poly{p, p, p}, u, o)
		}, func(x, z, s *big.Int, _ bool, _ *big.Int) *big.Int { return add(x, mul(add(x, mul(x, s)), s)) }},
		{"Ring.MulRNSScalarMontgomery", "rns-mont", func(r *ring.Ring, p, o ring.Poly, _ *big.Int, _ uint64, s0, _ ring.RNSScalar) {
			r.MulRNSScalarMontgomery(p, s0, o)
		}, func(x, z, s *big.Int, _ bool, _ *big.Int) *big.Int { return mul(x, s) }},
		{"Ring.MulDoubleRNSScalar", "rns", func(r *ring.Ring, p, o ring.Poly, _ *big.Int, _ uint64, s0, s1 ring.RNSScalar) {
			r.MulDoubleRNSScalar(p, s0, s1, o)
		}, func(x, z, s *big.Int, f bool, s1 *big.Int) *big.Int { return mul(x, pick(s, s1, f)) }},
		{"Ring.MulDoubleRNSScalarThenAdd", "rns", func(r *ring.Ring, p, o ring.Poly, _ *big.Int, _ uint64, s0, s1 ring.RNSScalar) {
			r.MulDoubleRNSScalarThenAdd(p, s0, s1, o)
		}, func(x, z, s *big.Int, f bool, s1 *big.Int) *big.Int { return add(z, mul(x, pick(s, s1, f))) }},
		{"Ring.AddDoubleRNSScalar", "rns", func(r *ring.Ring, p, o ring.Poly, _ *big.Int, _ uint64, s0, s1 ring.RNSScalar) {
			r.AddDoubleRNSScalar(p, s0, s1, o)
		}, func(x, z, s *big.Int, f bool, s1 *big.Int) *big.Int { return add(x, pick(s, s1, f)) }},
		{"Ring.SubDoubleRNSScalar", "rns", func(r *ring.Ring, p, o ring.Poly, _ *big.Int, _ uint64, s0, s1 ring.RNSScalar) {
			r.SubDoubleRNSScalar(p, s0, s1, o)
		}, func(x, z, s *big.Int, f bool, s1 *big.Int) *big.Int { return sub(x, pick(s, s1, f)) }},
	}
}

func c01scChains(c *Ctx) (out []struct {
	k  c01ciKind
	N  int
	qs []uint64
}) {
	type ch = struct {
		k  c01ciKind
		N  int
		qs []uint64
	}
	out = append(out, ch{c01ciStd, 16, c01ciGoodPrimes(32, []int{61, 20, 45, 13})})
	out = append(out, ch{c01ciStd, 8, c01ciGoodPrimes(16, []int{30, 61, 0})})
	out = append(out, ch{c01ciCI, 16, c01ciGoodPrimes(64, []int{0, 60, 33})})
	return
}

func c01scScalars(c *Ctx) {
	rn := c.rng
	ops := c01scOps()
	w64 := c01scPow2(64)
	for _, ch := range c01scChains(c) {
		rg, err := ring.NewRingFromType(ch.N, ch.qs, c01ciType(ch.k))
		if err != nil {
			c.Count("scalar:ring-unavailable")
			continue
		}
		vals := c01scValues(c, ch.qs)
		for vi, sv := range vals {
			lvl := vi % len(ch.qs)
			if vi >= 3*len(ch.qs) {
				lvl = rn.Intn(len(ch.qs))
			}
			rl := rg.AtLevel(lvl)
			s2 := vals[rn.Intn(len(vals))]
			mk := func() ring.Poly {
				p := rl.NewPoly()
				for i := 0; i <= lvl; i++ {
					copy(p.Coeffs[i], c01ciInput(rn, c01ciPats[3+rn.Intn(6)], ch.N, ch.qs[i], ch.qs[i]-1))
				}
				return p
			}
			// NewRNSScalarFromBigint / FromUInt64
			d := Try(func() string {
				keep := new(big.Int).Set(sv)
				rs := rl.NewRNSScalarFromBigint(sv)
				if keep.Cmp(sv) != 0 {
					return "ARG the *big.Int argument was modified"
				}
				for i := 0; i <= lvl; i++ {
					if rs[i] != c01qp2Mod(sv, ch.qs[i]) {
						return fmt.Sprintf("limb %d: got %d, exact %d", i, rs[i], c01qp2Mod(sv, ch.qs[i]))
					}
				}
				if sv.Sign() >= 0 && sv.Cmp(w64) < 0 {
					ru := rl.NewRNSScalarFromUInt64(sv.Uint64())
					for i := 0; i <= lvl; i++ {
						if ru[i]%ch.qs[i] != c01qp2Mod(sv, ch.qs[i]) {
							return fmt.Sprintf("FromUInt64 limb %d: got %d, exact %d", i, ru[i], c01qp2Mod(sv, ch.qs[i]))
						}
					}
				}
				return ""
			})
			c01scProbe(c, "Ring.NewRNSScalarFromBigint", fmt.Sprintf("%s N=%d qs=%s lvl=%d s=%s", ch.k, ch.N, Vec(ch.qs), lvl, sv), d)
			for _, op := range ops {
				if op.kind == "u64" && (sv.Sign() < 0 || sv.Cmp(w64) >= 0) {
					continue
				}
				if op.kind == "rns" && ch.N < 16 && !c01scProbeDoubleSmallN {
					c.Count("scalar:double-rns-scalar-N<16-skipped")
					continue
				}
				p1, acc := mk(), mk()
				in1, in0 := RawRows(p1), RawRows(acc)
				keep, keep2 := new(big.Int).Set(sv), new(big.Int).Set(s2)
				var u uint64
				if op.kind == "u64" {
					u = sv.Uint64()
				}
				var r0, r1 ring.RNSScalar
				if op.kind == "rns" || op.kind == "rns-mont" {
					r0, r1 = make(ring.RNSScalar, len(ch.qs)), make(ring.RNSScalar, len(ch.qs))
					for i, q := range ch.qs {
						if op.kind == "rns-mont" {
							r0[i] = c01qp2Mod(new(big.Int).Lsh(sv, 64), q)
						} else {
							r0[i] = c01qp2Mod(sv, q)
						}
						r1[i] = c01qp2Mod(s2, q)
					}
				}
				k0, k1 := append(ring.RNSScalar(nil), r0...), append(ring.RNSScalar(nil), r1...)
				d := Try(func() string {
					op.run(rl, p1, acc, sv, u, r0, r1)
					if keep.Cmp(sv) != 0 || keep2.Cmp(s2) != 0 {
						return fmt.Sprintf("ARG the *big.Int argument was modified: %s -> %s", keep, sv)
					}
					if !eqVec(k0, r0) || !eqVec(k1, r1) {
						return "ARG the RNS scalar argument was modified"
					}
					if Mat(RawRows(p1)) != Mat(in1) {
						return "ARG the input polynomial was modified"
					}
					for i := 0; i <= lvl; i++ {
						q := ch.qs[i]
						for k := 0; k < ch.N; k++ {
							want := op.ref(bi(in1[i][k]), bi(in0[i][k]), keep, k < ch.N/2, keep2)
							if acc.Coeffs[i][k]%q != c01qp2Mod(want, q) {
								return fmt.Sprintf("row %d (q=%d) coefficient %d: p1=%d p2=%d got %d, exact %d", i, q, k, in1[i][k], in0[i][k], acc.Coeffs[i][k], c01qp2Mod(want, q))
							}
						}
					}
					return ""
				})
				sv.Set(keep) // a modified argument must not contaminate the following probes
				s2.Set(keep2)
				if op.kind == "rns" && ch.N < 16 {
					if len(d) > 4 && d[:4] == "ARG " {
						d = d[4:]
					}
					c.Probe("scalar_ref", fmt.Sprintf("%s %s N=%d qs=%s lvl=%d s=%s s1=%s", op.name, ch.k, ch.N, Vec(ch.qs), lvl, keep, keep2), "C01/Ring.DoubleRNSScalar/half-row-shorter-than-kernel-window", d)
					continue
				}
				c01scProbe(c, op.name, fmt.Sprintf("%s N=%d qs=%s lvl=%d s=%s s1=%s", ch.k, ch.N, Vec(ch.qs), lvl, keep, keep2), d)
			}
			// ringqp twins with uint64 scalars: Q = this ring at lvl, P = the same ring at another level
			if sv.Sign() >= 0 && sv.Cmp(w64) < 0 {
				lp := rn.Intn(len(ch.qs)+1) - 1
				R := ringqp.Ring{RingQ: rg, RingP: rg}.AtLevel(lvl, lp)
				u := sv.Uint64()
				a := c01qp2RandPoly(c, R, ch.qs, ch.qs, ch.N)
				b := c01qp2RandPoly(c, R, ch.qs, ch.qs, ch.N)
				row := func(p ringqp.Poly, isP bool, i, k int) *big.Int {
					if isP {
						return bi(p.P.Coeffs[i][k])
					}
					return bi(p.Q.Coeffs[i][k])
				}
				d := Try(func() string {
					o := R.NewPoly()
					R.MulScalar(a, u, o)
					if d := c01qp2CheckPoly("ringqp.MulScalar", R, o, ch.qs, ch.qs, func(isP bool, i, k int) *big.Int { return mul(row(a, isP, i, k), sv) }); d != "" {
						return d
					}
					o2 := R.NewPoly()
					R.EvalPolyScalar([]ringqp.Poly{a, b}, u, o2)
					return c01qp2CheckPoly("ringqp.EvalPolyScalar", R, o2, ch.qs, ch.qs, func(isP bool, i, k int) *big.Int {
						return add(row(a, isP, i, k), mul(row(b, isP, i, k), sv))
					})
				})
				c01scProbe(c, "ringqp.Ring.MulScalar+EvalPolyScalar", fmt.Sprintf("%s N=%d qs=%s lq=%d lp=%d s=%d", ch.k, ch.N, Vec(ch.qs), lvl, lp, u), d)
			}
		}
	}
}

// c01scProbe: "ARG ..." details go under the scalar-argument-modified key, the rest under not-congruent
func c01scProbe(c *Ctx, op, args, d string) {
	key := "C01/" + op + "/not-congruent"
	if len(d) > 4 && d[:4] == "ARG " {
		key = "C01/" + op + "/scalar-argument-modified"
		d = d[4:]
	}
	c.Probe("scalar_ref", op+" "+args, key, d)
	c.Count("scalar:" + op)
}
