package main

// C11, part "metadata": every rotation / sum operation, run OUT OF PLACE into receivers whose
// metadata differ from the input's (scale, LogDimensions, IsBatched, NTT/Montgomery flags, level;
// fresh, stale and reused receivers), must return
//   (meta)  the input's full metadata (rlwe.MetaData.Equal), and
//   (value) a ciphertext that decrypts and decodes — with the metadata recorded in the RESULT — to
//           the same values as the in-place evaluation of the same operation on a copy of the input
//           (and, for slot-encoded inputs, to the documented rotation / sum of the slot vector).
// All lines are probes.

import (
	"fmt"
	"strings"

	"github.com/tuneinsight/lattigo/v6/core/rlwe"
	"github.com/tuneinsight/lattigo/v6/ring"
	"github.com/tuneinsight/lattigo/v6/schemes/bgv"
	"github.com/tuneinsight/lattigo/v6/schemes/ckks"
)

// c11MetaIn describes how the input ciphertext is encoded.
type c11MetaIn struct {
	label    string
	scale    rlwe.Scale
	logCols  int
	batched  bool
	level    int
	multiple int64 // entries are multiples of this (exact Trace / Average division)
}

func c11ShowMeta(m *rlwe.MetaData) string {
	return fmt.Sprintf("{scale=%s dims=%dx%d batched=%v bitrev=%v ntt=%v mont=%v}", m.Scale.Value.Text('g', 12), m.LogDimensions.Rows, m.LogDimensions.Cols,
		m.IsBatched, m.IsBitReversed, m.IsNTT, m.IsMontgomery)
}

// metaEncrypt encodes v according to in and encrypts.
func (x *c11Ctx) metaEncrypt(v []int64, in c11MetaIn) *rlwe.Ciphertext {
	var pt *rlwe.Plaintext
	if x.name == "bgv" {
		pt = bgv.NewPlaintext(x.bgvP, in.level)
		pt.Scale = in.scale
		pt.IsBatched = in.batched
		u := make([]uint64, len(v))
		for i := range v {
			u[i] = uint64(v[i])
		}
		if err := x.bgvE.Encode(u, pt); err != nil {
			panic(err)
		}
	} else {
		pt = ckks.NewPlaintext(x.ckksP, in.level)
		pt.Scale = in.scale
		pt.IsBatched = in.batched
		if in.batched {
			pt.LogDimensions.Cols = in.logCols
		}
		var err error
		switch {
		case !in.batched:
			z := make([]float64, len(v))
			for i := range z {
				z[i] = float64(v[i])
			}
			err = x.ckksE.Encode(z, pt)
		case x.name == "ckks":
			s := len(v) / 2
			z := make([]complex128, s)
			for i := range z {
				z[i] = complex(float64(v[i]), float64(v[s+i]))
			}
			err = x.ckksE.Encode(z, pt)
		default:
			z := make([]float64, len(v))
			for i := range z {
				z[i] = float64(v[i])
			}
			err = x.ckksE.Encode(z, pt)
		}
		if err != nil {
			panic(err)
		}
	}
	ct, err := x.enc.EncryptNew(pt)
	if err != nil {
		panic(err)
	}
	return ct
}

// metaDecode decrypts ct and decodes it with the metadata recorded in ct itself.
func (x *c11Ctx) metaDecode(ct *rlwe.Ciphertext) (out []int64, status string) {
	defer func() {
		if r := recover(); r != nil {
			out, status = nil, "decode-panic"
		}
	}()
	pt := x.dec.DecryptNew(ct)
	if x.name == "bgv" {
		u := make([]uint64, x.bgvP.N())
		if err := x.bgvE.Decode(pt, u); err != nil {
			return nil, "decode-err"
		}
		out = make([]int64, len(u))
		for i := range u {
			out[i] = int64(u[i])
		}
		return out, ""
	}
	if !pt.IsBatched {
		z := make([]float64, x.ckksP.N())
		if err := x.ckksE.Decode(pt, z); err != nil {
			return nil, "decode-err"
		}
		out = make([]int64, len(z))
		for i := range z {
			out[i] = x.round(z[i])
		}
		return out, ""
	}
	lc := pt.LogDimensions.Cols
	if lc < 0 || lc > x.ckksP.LogMaxSlots() {
		return nil, "decode-bad-dims"
	}
	s := 1 << uint(lc)
	if x.name == "ckks" {
		z := make([]complex128, s)
		if err := x.ckksE.Decode(pt, z); err != nil {
			return nil, "decode-err"
		}
		out = make([]int64, 2*s)
		for i := range z {
			out[i] = x.round(real(z[i]))
			out[s+i] = x.round(imag(z[i]))
		}
		return out, ""
	}
	z := make([]float64, s)
	if err := x.ckksE.Decode(pt, z); err != nil {
		return nil, "decode-err"
	}
	out = make([]int64, s)
	for i := range z {
		out[i] = x.round(z[i])
	}
	return out, ""
}

// c11MetaOp is one operation: out-of-place form, optional "New" form, optional slot reference.
type c11MetaOp struct {
	name string
	run  func(in, out *rlwe.Ciphertext) error                // nil if only the New form exists
	mk   func(in *rlwe.Ciphertext) (*rlwe.Ciphertext, error) // "…New" form
	ref  func(y *c11Ctx, v []int64) []int64                  // documented value on a slot-encoded input (nil: in-place oracle only)
	min  bool                                                // result level = min(in, out) (else the input's level)
}

func c11Meta(c *Ctx) {
	ctxs := []*c11Ctx{newC11CKKS(5, true, false), newC11BGV(5, true), newC11CKKS(5, true, true)}
	if c.Thorough() {
		ctxs = append(ctxs, newC11CKKS(6, true, false), newC11BGV(4, true), newC11CKKS(4, true, true), newC11Multi("ckks", 5, 3, 2))
	}
	for _, x := range ctxs {
		c11MetaCtx(c, x)
		det := ""
		if x.t == 0 && !(x.maxRoundErr < 0.05) {
			det = fmt.Sprintf("max |x-round(x)| = %g (tolerance 0.05)", x.maxRoundErr)
		}
		c.Probe("ckks_round_margin", "meta "+x.tag(), "C11-ckks-precision", det)
	}
}

func c11MetaCtx(c *Ctx, x *c11Ctx) {
	maxL := x.rp.MaxLevel()
	logCols := 0
	for 1<<uint(logCols) < x.cols {
		logCols++
	}
	b, n := 2, 2
	k := 3
	tl := 1

	// ---- keys for everything used below
	var galEls []uint64
	galEls = append(galEls, x.rp.GaloisElement(k), x.rp.GaloisElement(-1), x.rp.GaloisElement(1))
	if x.rt == "std" {
		galEls = append(galEls, x.rp.GaloisElementOrderTwoOrthogonalSubgroup())
	}
	galEls = append(galEls, rlwe.GaloisElementsForInnerSum(x.rp, b, n)...)
	galEls = append(galEls, rlwe.GaloisElementsForInnerSum(x.rp, 1, 3)...)
	galEls = append(galEls, rlwe.GaloisElementsForReplicate(x.rp, 1, 3)...)
	for l := 0; l <= logCols; l++ {
		galEls = append(galEls, rlwe.GaloisElementsForTrace(x.rp, l)...)
	}
	for lb := 0; lb <= logCols; lb++ { // Average(logBatch) on every packing
		for lc := lb; lc <= logCols; lc++ {
			galEls = append(galEls, rlwe.GaloisElementsForInnerSum(x.rp, 1<<uint(lb), 1<<uint(lc-lb))...)
		}
	}
	evk, _, _ := x.keysFor(galEls, false)
	rl, add := x.rlweEval(&evk)

	// ---- operations
	var ops []c11MetaOp
	rotRef := func(kk int) func(y *c11Ctx, v []int64) []int64 {
		return func(y *c11Ctx, v []int64) []int64 { return y.refRot(v, kk) }
	}
	ops = append(ops,
		c11MetaOp{name: "rlwe.Automorphism", min: true, ref: rotRef(k),
			run: func(in, out *rlwe.Ciphertext) error { return rl.Automorphism(in, x.rp.GaloisElement(k), out) }},
		c11MetaOp{name: "rlwe.AutomorphismHoisted", ref: rotRef(k),
			run: func(in, out *rlwe.Ciphertext) error {
				rl.DecomposeNTT(in.Level(), x.rp.MaxLevelP(), x.rp.PCount(), in.Value[1], in.IsNTT, rl.BuffDecompQP)
				if out.Level() != in.Level() {
					out.Resize(1, in.Level())
				}
				return rl.AutomorphismHoisted(in.Level(), in, rl.BuffDecompQP, x.rp.GaloisElement(k), out)
			}},
		c11MetaOp{name: "rlwe.PartialTracesSum", ref: func(y *c11Ctx, v []int64) []int64 { return y.refSum(v, 1, 3) },
			run: func(in, out *rlwe.Ciphertext) error { return rl.PartialTracesSum(in, 1, 3, out) }},
		c11MetaOp{name: "rlwe.Replicate", ref: func(y *c11Ctx, v []int64) []int64 { return y.refSum(v, -1, 3) },
			run: func(in, out *rlwe.Ciphertext) error { return rl.Replicate(in, 1, 3, out) }},
		c11MetaOp{name: "rlwe.InnerFunction", min: true, ref: func(y *c11Ctx, v []int64) []int64 { return y.refSum(v, 1, 3) },
			run: func(in, out *rlwe.Ciphertext) error { return rl.InnerFunction(in, 1, 3, add, out) }},
		c11MetaOp{name: fmt.Sprintf("rlwe.Trace(%d)", tl), min: true, ref: func(y *c11Ctx, v []int64) []int64 { return y.refTrace(v, tl) },
			run: func(in, out *rlwe.Ciphertext) error { return rl.Trace(in, tl, out) }},
		c11MetaOp{name: "rlwe.Trace(0)", min: true, ref: func(y *c11Ctx, v []int64) []int64 { return y.refTrace(v, 0) },
			run: func(in, out *rlwe.Ciphertext) error { return rl.Trace(in, 0, out) }},
	)
	{
		top := x.logN - 1
		if x.rt == "ci" {
			top = x.logN
		}
		// gap = 1: the copy path (opOut.Copy(ctIn): the result is at the input's level, whatever the receiver's)
		ops = append(ops, c11MetaOp{name: "rlwe.Trace(top)",
			run: func(in, out *rlwe.Ciphertext) error { return rl.Trace(in, top, out) }})
	}
	if x.name == "bgv" {
		e := x.bgvEv.WithKey(&evk)
		ops = append(ops,
			c11MetaOp{name: "bgv.RotateColumns", min: true, ref: rotRef(k),
				run: func(in, out *rlwe.Ciphertext) error { return e.RotateColumns(in, k, out) },
				mk:  func(in *rlwe.Ciphertext) (*rlwe.Ciphertext, error) { return e.RotateColumnsNew(in, k) }},
			c11MetaOp{name: "bgv.RotateRows", min: true, ref: func(y *c11Ctx, v []int64) []int64 { return y.refConj(v) },
				run: func(in, out *rlwe.Ciphertext) error { return e.RotateRows(in, out) },
				mk:  func(in *rlwe.Ciphertext) (*rlwe.Ciphertext, error) { return e.RotateRowsNew(in) }},
			c11MetaOp{name: "bgv.InnerSum", ref: func(y *c11Ctx, v []int64) []int64 { return y.refSum(v, b, n) },
				run: func(in, out *rlwe.Ciphertext) error { return e.InnerSum(in, b, n, out) }},
			c11MetaOp{name: "bgv.RotateAndAdd", ref: func(y *c11Ctx, v []int64) []int64 { return y.refSum(v, 1, 3) },
				run: func(in, out *rlwe.Ciphertext) error { return e.RotateAndAdd(in, 1, 3, out) }},
			c11MetaOp{name: "bgv.Replicate", ref: func(y *c11Ctx, v []int64) []int64 { return y.refSum(v, -1, 3) },
				run: func(in, out *rlwe.Ciphertext) error { return e.Replicate(in, 1, 3, out) }},
			c11MetaOp{name: "bgv.Trace", min: true, ref: func(y *c11Ctx, v []int64) []int64 { return y.refTrace(v, tl) },
				run: func(in, out *rlwe.Ciphertext) error { return e.Trace(in, tl, out) }},
		)
	} else {
		e := x.ckksEv.WithKey(&evk)
		ops = append(ops,
			c11MetaOp{name: "ckks.Rotate", min: true, ref: rotRef(k),
				run: func(in, out *rlwe.Ciphertext) error { return e.Rotate(in, k, out) },
				mk:  func(in *rlwe.Ciphertext) (*rlwe.Ciphertext, error) { return e.RotateNew(in, k) }},
			c11MetaOp{name: "ckks.InnerSum", ref: func(y *c11Ctx, v []int64) []int64 { return y.refSum(v, b, n) },
				run: func(in, out *rlwe.Ciphertext) error { return e.InnerSum(in, b, n, out) }},
			c11MetaOp{name: "ckks.RotateAndAdd", ref: func(y *c11Ctx, v []int64) []int64 { return y.refSum(v, 1, 3) },
				run: func(in, out *rlwe.Ciphertext) error { return e.RotateAndAdd(in, 1, 3, out) }},
			c11MetaOp{name: "ckks.Replicate", ref: func(y *c11Ctx, v []int64) []int64 { return y.refSum(v, -1, 3) },
				run: func(in, out *rlwe.Ciphertext) error { return e.Replicate(in, 1, 3, out) }},
			c11MetaOp{name: "ckks.Trace", min: true, ref: func(y *c11Ctx, v []int64) []int64 { return y.refTrace(v, tl) },
				run: func(in, out *rlwe.Ciphertext) error { return e.Trace(in, tl, out) },
				mk:  func(in *rlwe.Ciphertext) (*rlwe.Ciphertext, error) { return e.TraceNew(in, tl) }},
			c11MetaOp{name: "ckks.Average(1)", min: true,
				ref: func(y *c11Ctx, v []int64) []int64 { // average of the cols/2 sub-vectors of size 2
					cnt := y.cols / 2
					u := y.refSum(v, 2, cnt)
					w := make([]int64, len(u))
					for i := range u {
						w[i] = u[i] / int64(cnt)
					}
					return w
				},
				run: func(in, out *rlwe.Ciphertext) error { return e.Average(in, 1, out) }},
			c11MetaOp{name: "ckks.RotateHoisted", ref: rotRef(k),
				run: func(in, out *rlwe.Ciphertext) error {
					return e.RotateHoisted(in, []int{k, -1}, map[int]*rlwe.Ciphertext{k: out, -1: ckks.NewCiphertext(x.ckksP, 1, in.Level())})
				},
				mk: func(in *rlwe.Ciphertext) (*rlwe.Ciphertext, error) {
					m, err := e.RotateHoistedNew(in, []int{-1, k})
					if err != nil {
						return nil, err
					}
					return m[k], nil
				}},
		)
		if x.rt == "std" {
			ops = append(ops, c11MetaOp{name: "ckks.Conjugate", min: true, ref: func(y *c11Ctx, v []int64) []int64 { return y.refConj(v) },
				run: func(in, out *rlwe.Ciphertext) error { return e.Conjugate(in, out) },
				mk:  func(in *rlwe.Ciphertext) (*rlwe.Ciphertext, error) { return e.ConjugateNew(in) }})
		}
	}

	// ---- inputs
	var ins []c11MetaIn
	mult := int64(1) << uint(x.logN)
	if x.name == "bgv" {
		T := x.t
		ins = []c11MetaIn{
			{"scale3", rlwe.NewScaleModT(3, T), logCols, true, maxL, 1},
			{"scale12345/lvl0", rlwe.NewScaleModT(12345, T), logCols, true, 0, 1},
			{"coeffs/scale7", rlwe.NewScaleModT(7, T), logCols, false, maxL, 1},
		}
	} else {
		ins = []c11MetaIn{
			{"scale3*2^31", rlwe.NewScale(float64(3 << 31)), logCols, true, maxL, mult},
			{"sparse/scale2^33", rlwe.NewScale(float64(uint64(1) << 33)), logCols - 2, true, maxL, mult},
			{"sparse1/lvl0/scale5*2^29", rlwe.NewScale(float64(5 << 29)), logCols - 1, true, 0, mult},
			{"coeffs/scale2^31", rlwe.NewScale(float64(uint64(1) << 31)), logCols, false, maxL, mult},
		}
	}

	// a donor ciphertext whose metadata differ from every input: source of "reused" receivers
	donorIn := c11MetaIn{"donor", rlwe.NewScale(float64(uint64(1) << 30)), logCols - 1, true, maxL, 1}
	if x.name == "bgv" {
		donorIn = c11MetaIn{"donor", rlwe.NewScaleModT(99, x.t), logCols, true, maxL, 1}
	}

	for _, in := range ins {
		// the slot view of this input
		y := *x
		if x.name != "bgv" && in.batched {
			y.cols = 1 << uint(in.logCols)
			y.slots = y.cols
			y.veclen = y.cols
			if x.name == "ckks" {
				y.veclen = 2 * y.cols
			}
		}
		if !in.batched {
			y.veclen = x.rp.N()
		}
		for _, op := range ops {
			// receivers
			type recv struct {
				label string
				mk    func() *rlwe.Ciphertext
			}
			recvs := []recv{
				{"fresh", func() *rlwe.Ciphertext { return x.newCtLvl(in.level) }},
				{"stale", func() *rlwe.Ciphertext {
					r := x.newCtLvl(in.level)
					r.Scale = rlwe.NewScale(float64(uint64(1) << 20))
					if x.name == "bgv" {
						r.Scale = rlwe.NewScaleModT(4242, x.t)
					}
					r.LogDimensions = ring.Dimensions{Rows: 0, Cols: 1}
					r.IsBatched = !in.batched
					r.IsBitReversed = true
					r.IsNTT = false
					r.IsMontgomery = true
					return r
				}},
				{"reused", func() *rlwe.Ciphertext {
					d := x.metaEncrypt(y0vec(c, x, donorIn), donorIn)
					r := x.newCtLvl(maxL)
					if err := rl.Automorphism(d, x.rp.GaloisElement(1), r); err != nil {
						panic(err)
					}
					if in.level < maxL && !op.min {
						r.Resize(1, in.level)
					}
					return r
				}},
			}
			if in.level < maxL {
				recvs = append(recvs, recv{"fresh-higher-level", func() *rlwe.Ciphertext { return x.newCtLvl(maxL) }})
			}
			if in.level > 0 {
				recvs = append(recvs, recv{"fresh-lower-level", func() *rlwe.Ciphertext { return x.newCtLvl(in.level - 1) }})
			}
			if op.mk != nil {
				recvs = append(recvs, recv{"New", nil})
			}

			for _, rc := range recvs {
				if op.run == nil && rc.mk != nil {
					continue
				}
				v := make([]int64, y.veclen)
				for i := range v {
					if x.t != 0 {
						v[i] = int64(c.rng.Below(x.t))
					} else {
						v[i] = (int64(c.rng.Intn(41)) - 20) * in.multiple
					}
				}
				ct := x.metaEncrypt(v, in)
				wantMeta := *ct.MetaData
				// in-place oracle on a copy (at the level the result will have)
				oracle := ct.CopyNew()
				var out *rlwe.Ciphertext
				if rc.mk != nil {
					out = rc.mk()
					if op.min && out.Level() < oracle.Level() {
						oracle.Resize(1, out.Level())
					}
				}
				stOracle := ""
				if op.run != nil {
					stOracle = c11TryErr(func() error { return op.run(oracle, oracle) })
				} else {
					stOracle = c11TryErr(func() (err error) { oracle, err = op.mk(oracle); return })
				}
				st := ""
				if rc.mk != nil {
					st = c11TryErr(func() error { return op.run(ct, out) })
				} else {
					st = c11TryErr(func() (err error) { out, err = op.mk(ct); return })
				}
				args := fmt.Sprintf("%s %s in=%s recv=%s", x.tag(), op.name, in.label, rc.label)
				c.Count("meta:" + x.name)

				// (meta)
				det := ""
				switch {
				case st != stOracle:
					det = fmt.Sprintf("status out-of-place=%q in-place=%q", st, stOracle)
				case st == "" && !out.MetaData.Equal(&wantMeta):
					det = fmt.Sprintf("result metadata %s, input metadata %s", c11ShowMeta(out.MetaData), c11ShowMeta(&wantMeta))
				case st == "" && !ct.MetaData.Equal(&wantMeta):
					det = fmt.Sprintf("input metadata modified: %s", c11ShowMeta(ct.MetaData))
				}
				c.Probe("metadata_propagated", args, "C11-meta-"+c11KeyName(op.name), det)

				// (value)
				det = ""
				savedRound := x.maxRoundErr
				if st == "" && stOracle == "" {
					got, s1 := x.metaDecode(out)
					want, s2 := x.metaDecode(oracle)
					switch {
					case s1 != "" || s2 != "":
						det = fmt.Sprintf("decode status out-of-place=%q in-place=%q", s1, s2)
					case out.Level() != oracle.Level():
						det = fmt.Sprintf("level out-of-place=%d in-place=%d", out.Level(), oracle.Level())
					case !c11Eq(got, want):
						det = fmt.Sprintf("out-of-place decodes to %s, in-place to %s", c11I64Vec(got), c11I64Vec(want))
					case in.batched && op.ref != nil:
						if r := op.ref(&y, v); r != nil && !c11Eq(want, r) {
							det = fmt.Sprintf("decodes to %s, documented %s", c11I64Vec(want), c11I64Vec(r))
						}
					}
				}
				if det != "" {
					x.maxRoundErr = savedRound // the rounding margin is only meaningful for correct results
				}
				c.Probe("metadata_value", args, "C11-metaval-"+c11KeyName(op.name), det)
			}
		}
	}
}

// c11KeyName turns an operation name into a finding-key fragment ([A-Za-z0-9-] only).
func c11KeyName(op string) string {
	b := []byte(op)
	for i, ch := range b {
		ok := ch >= 'a' && ch <= 'z' || ch >= 'A' && ch <= 'Z' || ch >= '0' && ch <= '9'
		if !ok {
			b[i] = '-'
		}
	}
	return strings.Trim(string(b), "-")
}

// y0vec: a random vector suitable for the donor encoding.
func y0vec(c *Ctx, x *c11Ctx, in c11MetaIn) []int64 {
	n := x.rp.N()
	if x.name == "ckks" && in.batched {
		n = 2 << uint(in.logCols)
	} else if x.name == "ckksci" && in.batched {
		n = 1 << uint(in.logCols)
	}
	v := make([]int64, n)
	for i := range v {
		v[i] = int64(c.rng.Intn(100))
	}
	return v
}
