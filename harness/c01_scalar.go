package main

import (
	"fmt"
	"math/big"

	"github.com/tuneinsight/lattigo/v6/ring"
)

// RNS scalars (ring/scalar.go): every operation against the integers, on chains of unequal prime
// sizes and with values far above the smallest modulus. The generator is appended to C01's.
func init() {
	prev := generators["C01"]
	generators["C01"] = func(c *Ctx) {
		prev(c)
		genC01Scalars(c)
	}
}

func c01ScalarChains() [][]uint64 {
	N := 16
	return [][]uint64{
		primesFor(uint64(2*N), []int{20, 35, 45, 61}),
		primesFor(uint64(2*N), []int{60, 61}),
		primesFor(uint64(2*N), []int{8, 13}),
	}
}

func genC01Scalars(c *Ctx) {
	r := c.rng
	for _, qs := range c01ScalarChains() {
		if len(qs) == 0 {
			continue
		}
		if len(qs) > 5 {
			qs = qs[:5]
		}
		rg, err := ring.NewRing(16, qs)
		if err != nil {
			continue
		}
		wInv := make([]*big.Int, len(qs))
		for i, q := range qs {
			wInv[i] = new(big.Int).ModInverse(wBig, bi(q))
		}
		edge := []uint64{0, 1, 2, qs[0] - 1, qs[0], qs[0] + 1, 2*qs[0] - 1, 2 * qs[0], 1 << 32, 1<<63 - 1, 1 << 63, 1<<63 + 11, ^uint64(0) - 1, ^uint64(0)}
		for rep := 0; rep < c.Scale(60, 600); rep++ {
			var v, w uint64
			if rep < len(edge)*2 {
				v, w = edge[rep%len(edge)], edge[(rep*7+3)%len(edge)]
			} else {
				v, w = r.U64()>>uint(r.Intn(40)), r.U64()>>uint(r.Intn(40))
			}
			lvl := r.Intn(len(qs))
			rl := rg.AtLevel(lvl)
			sv := rl.NewRNSScalarFromUInt64(v)
			sw := rl.NewRNSScalarFromUInt64(w)
			bv := new(big.Int).Lsh(bi(v), uint(r.Intn(70)))
			if r.Intn(2) == 0 {
				bv.Neg(bv)
			}
			sb := rl.NewRNSScalarFromBigint(bv)
			neg, sub, mf, mul, inv := rl.NewRNSScalar(), rl.NewRNSScalar(), rl.NewRNSScalar(), rl.NewRNSScalar(), rl.NewRNSScalar()
			rl.NegRNSScalar(sv, neg)
			rl.SubRNSScalar(sv, sw, sub)
			rl.MFormRNSScalar(sv, mf)
			rl.MulRNSScalar(mf, sw, mul) // MForm(v)·w·W⁻¹ = v·w
			copy(inv, mf)
			rl.Inverse(inv) // inverse in Montgomery form: inv·W⁻¹ · v ≡ 1 when v ≢ 0
			detail := ""
			chk := func(name string, got uint64, want *big.Int, q uint64) {
				if detail != "" {
					return
				}
				if new(big.Int).Mod(want, bi(q)).Cmp(new(big.Int).Mod(bi(got), bi(q))) != 0 {
					detail = fmt.Sprintf("%s: got %d not congruent to %s mod %d", name, got, want, q)
				}
			}
			for i := 0; i <= lvl; i++ {
				q := qs[i]
				chk("NewRNSScalarFromUInt64", sv[i], bi(v), q)
				chk("NewRNSScalarFromBigint", sb[i], bv, q)
				chk("NegRNSScalar", neg[i], new(big.Int).Neg(bi(v)), q)
				chk("SubRNSScalar", sub[i], sub2(bi(v), bi(w)), q)
				chk("MFormRNSScalar", mf[i], mul2(bi(v), wBig), q)
				chk("MulRNSScalar", mul[i], mul2(bi(v), bi(w)), q)
				if v%q != 0 {
					// inv = (v·W)^(q−2) in Montgomery arithmetic = v⁻¹·W ; so inv·v·W⁻¹ ≡ 1
					chk("Inverse", inv[i], new(big.Int).Mul(new(big.Int).ModInverse(new(big.Int).Mod(bi(v), bi(q)), bi(q)), wBig), q)
				}
			}
			c.Probe("rns_scalar_ref", fmt.Sprintf("%s lvl=%d v=%d w=%d big=%s", Vec(qs), lvl, v, w, bv.String()), "C01/ring.RNSScalar/not-congruent", detail)
		}
	}
}

func sub2(a, b *big.Int) *big.Int { return new(big.Int).Sub(a, b) }
func mul2(a, b *big.Int) *big.Int { return new(big.Int).Mul(a, b) }
