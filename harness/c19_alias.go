package main

// C19 — accessor aliasing: no accessor of a checked parameter object (rlwe / ckks / bgv /
// bootstrapping Parameters) may hand out memory that the object keeps using.
//
// For EVERY method of the object (enumerated by reflection, arguments synthesised by type) the
// returned values are scribbled over: every reachable slice element — including the region
// between len and cap, i.e. what an append within capacity would write —, every map entry, every
// pointee, every exported struct field, the words of big.Int / big.Float / rlwe.Scale.  Afterwards
// the object must be unchanged: Equal to a pristine twin built from the same literal, its Q()/P()/
// big-integer accessors must agree with its rings, and MarshalBinary must give the same bytes as
// before.   Probe `accessor_aliases type= method=`, key C19-accessor-aliases:<Type>.<Method>.
//
// By design (documented "returns a pointer to …") and therefore not scribbled: the rings
// (*ring.Ring, *ringqp.Ring) behind RingQ/RingP/RingQP/RingT/RingQMul.

import (
	"bytes"
	"fmt"
	"io"
	"math/big"
	"reflect"
	"sort"

	"github.com/tuneinsight/lattigo/v6/circuits/ckks/bootstrapping"
	"github.com/tuneinsight/lattigo/v6/core/rlwe"
	"github.com/tuneinsight/lattigo/v6/ring"
	"github.com/tuneinsight/lattigo/v6/ring/ringqp"
	"github.com/tuneinsight/lattigo/v6/schemes/bgv"
	"github.com/tuneinsight/lattigo/v6/schemes/ckks"
)

var (
	tRingPtr   = reflect.TypeOf((*ring.Ring)(nil))
	tRingQPPtr = reflect.TypeOf((*ringqp.Ring)(nil))
	tBigIntPtr = reflect.TypeOf((*big.Int)(nil))
	tBigFltPtr = reflect.TypeOf((*big.Float)(nil))
	tError     = reflect.TypeOf((*error)(nil)).Elem()
	tWriter    = reflect.TypeOf((*io.Writer)(nil)).Elem()
	tReader    = reflect.TypeOf((*io.Reader)(nil)).Elem()
)

// c19ScribbleBigInt overwrites the words of x in place (no reallocation).
func c19ScribbleBigInt(x *big.Int) int {
	if x == nil {
		return 0
	}
	w := x.Bits()
	w = w[:cap(w)]
	for i := range w {
		w[i] ^= 0x5a5a5a5a5a5a5a5a
	}
	x.SetBit(x, 0, x.Bit(0)^1)
	return len(w) + 1
}

// c19ScribbleBigFloat rewrites the mantissa storage of f through the public API: operations on f reuse its backing array.
func c19ScribbleBigFloat(f *big.Float) int {
	if f == nil {
		return 0
	}
	prec := f.Prec()
	if prec == 0 {
		prec = 64
	}
	f.SetPrec(prec)
	f.SetUint64(0x123456789abcdef1) // nat.setUint64 → make(1) reuses the array
	f.Mul(f, f)
	f.Add(f, big.NewFloat(3.5))
	return 1
}

// c19Scribble mutates everything reachable from v (v addressable or a reference kind). Returns the number of writes.
func c19Scribble(v reflect.Value, depth int) (n int) {
	if depth > 6 || !v.IsValid() {
		return 0
	}
	switch v.Type() {
	case tRingPtr, tRingQPPtr:
		return 0 // documented views of the object's rings
	case tBigIntPtr:
		if v.IsNil() {
			return 0
		}
		return c19ScribbleBigInt(v.Interface().(*big.Int))
	case tBigFltPtr:
		if v.IsNil() {
			return 0
		}
		return c19ScribbleBigFloat(v.Interface().(*big.Float))
	case tBigFloat:
		if v.CanAddr() {
			return c19ScribbleBigFloat(v.Addr().Interface().(*big.Float))
		}
		return 0
	case tBigInt:
		if v.CanAddr() {
			return c19ScribbleBigInt(v.Addr().Interface().(*big.Int))
		}
		return 0
	}
	switch v.Kind() {
	case reflect.Ptr:
		if v.IsNil() {
			return 0
		}
		return c19Scribble(v.Elem(), depth+1)
	case reflect.Interface:
		if v.IsNil() {
			return 0
		}
		e := v.Elem()
		switch e.Kind() {
		case reflect.Ptr, reflect.Slice, reflect.Map:
			return c19Scribble(e, depth+1)
		}
		return 0
	case reflect.Slice:
		if v.IsNil() {
			return 0
		}
		full := v.Slice(0, v.Cap()) // also the region an append within capacity would write
		for i := 0; i < full.Len(); i++ {
			n += c19Scribble(full.Index(i), depth+1)
		}
		return n
	case reflect.Array:
		for i := 0; i < v.Len(); i++ {
			n += c19Scribble(v.Index(i), depth+1)
		}
		return n
	case reflect.Map:
		if v.IsNil() {
			return 0
		}
		for _, k := range v.MapKeys() {
			e := v.MapIndex(k)
			cp := reflect.New(e.Type()).Elem()
			cp.Set(e)
			n += c19Scribble(cp, depth+1)
			v.SetMapIndex(k, cp)
			n++
		}
		v.SetMapIndex(reflect.Zero(v.Type().Key()), reflect.Zero(v.Type().Elem()))
		return n + 1
	case reflect.Struct:
		for i := 0; i < v.NumField(); i++ {
			if v.Type().Field(i).IsExported() {
				n += c19Scribble(v.Field(i), depth+1)
			}
		}
		return n
	}
	if !v.CanSet() {
		return 0
	}
	switch v.Kind() {
	case reflect.Bool:
		v.SetBool(!v.Bool())
	case reflect.Int, reflect.Int8, reflect.Int16, reflect.Int32, reflect.Int64:
		v.SetInt(v.Int() ^ 0x2b)
	case reflect.Uint, reflect.Uint8, reflect.Uint16, reflect.Uint32, reflect.Uint64, reflect.Uintptr:
		v.SetUint(v.Uint() ^ 0x2b)
	case reflect.Float32, reflect.Float64:
		v.SetFloat(v.Float() + 1.25)
	case reflect.String:
		v.SetString(v.String() + "x")
	default:
		return 0
	}
	return 1
}

// c19Args synthesises arguments for a method; ok=false when a parameter type is not supported.
func c19Args(mt reflect.Type, first int, extra map[reflect.Type]reflect.Value) (args []reflect.Value, ok bool) {
	for i := first; i < mt.NumIn(); i++ {
		t := mt.In(i)
		if x, has := extra[t]; has {
			args = append(args, x)
			continue
		}
		switch {
		case t == tWriter || t == tReader || t == tError:
			return nil, false
		case t.Kind() == reflect.Int:
			args = append(args, reflect.ValueOf(1).Convert(t))
		case t.Kind() == reflect.Uint64:
			args = append(args, reflect.ValueOf(uint64(5)).Convert(t))
		case t.Kind() == reflect.Slice && t.Elem().Kind() == reflect.Int:
			args = append(args, reflect.ValueOf([]int{1, 2, 3}).Convert(t))
		case t.Kind() == reflect.Interface && t.NumMethod() == 0:
			args = append(args, reflect.ValueOf(2))
		default:
			return nil, false
		}
	}
	return args, true
}

type c19AliasTarget struct {
	typeName string
	make     func() interface{}                 // a fresh object (value), built from the same literal every time
	check    func(p, twin interface{}) string   // "" = p is still what it was
	extra    map[reflect.Type]reflect.Value     // extra argument values by type
	bin      func(p interface{}) ([]byte, error) // MarshalBinary
}

func c19RlweConsistent(p *rlwe.Parameters) string {
	if Vec(p.Q()) != Vec(p.RingQ().ModuliChain()) {
		return fmt.Sprintf("Q()=%v but RingQ() has %v", p.Q(), p.RingQ().ModuliChain())
	}
	var rp []uint64
	if p.RingP() != nil {
		rp = p.RingP().ModuliChain()
	}
	if Vec(p.P()) != Vec(rp) {
		return fmt.Sprintf("P()=%v but RingP() has %v", p.P(), rp)
	}
	prod := big.NewInt(1)
	for _, q := range p.RingQ().ModuliChain() {
		prod.Mul(prod, new(big.Int).SetUint64(q))
	}
	if p.QBigInt().Cmp(prod) != 0 {
		return "QBigInt() is not the product of the ring moduli"
	}
	if p.MaxLevel() != len(p.RingQ().ModuliChain())-1 || p.QCount() != len(p.RingQ().ModuliChain()) {
		return "MaxLevel()/QCount() disagree with the ring"
	}
	if p.N() != p.RingQ().N() {
		return "N() disagrees with the ring"
	}
	return ""
}

func c19AliasRun(c *Ctx, tg c19AliasTarget) {
	proto := tg.make()
	// value-receiver and pointer-receiver methods
	pt := reflect.PtrTo(reflect.TypeOf(proto))
	var names []string
	for i := 0; i < pt.NumMethod(); i++ {
		names = append(names, pt.Method(i).Name)
	}
	sort.Strings(names)
	for _, name := range names {
		m, _ := pt.MethodByName(name)
		args, ok := c19Args(m.Type, 1, tg.extra)
		if !ok {
			c.Count("alias:skipped-signature:" + tg.typeName + "." + name)
			continue
		}
		switch name {
		case "UnmarshalBinary", "UnmarshalJSON", "ReadFrom":
			continue // these are supposed to change the receiver
		}
		detail := Try(func() string {
			obj := reflect.New(reflect.TypeOf(proto))
			obj.Elem().Set(reflect.ValueOf(tg.make()))
			twin := tg.make()
			before, err := tg.bin(obj.Elem().Interface())
			if err != nil {
				return "MarshalBinary before: " + c19Sanitize(err.Error())
			}
			var outs []reflect.Value
			if r := Try(func() string {
				outs = obj.Method(m.Index).Call(args)
				return ""
			}); r != "" {
				c.Count("alias:method-panics-on-synthetic-args:" + tg.typeName + "." + name)
				return ""
			}
			writes := 0
			for _, o := range outs {
				if o.Type() == tError {
					continue
				}
				cp := reflect.New(o.Type()).Elem() // addressable shallow copy: shares what the method shares
				cp.Set(o)
				writes += c19Scribble(cp, 0)
			}
			if writes == 0 {
				c.Count("alias:nothing-to-scribble")
			}
			if d := tg.check(obj.Interface(), twin); d != "" {
				return fmt.Sprintf("after writing to the result of %s.%s (%d writes): %s", tg.typeName, name, writes, d)
			}
			after, err := tg.bin(obj.Elem().Interface())
			if err != nil {
				return "MarshalBinary after: " + c19Sanitize(err.Error())
			}
			if !bytes.Equal(before, after) {
				return fmt.Sprintf("after writing to the result of %s.%s the binary encoding of the object changed", tg.typeName, name)
			}
			return ""
		})
		if detail == "panic" {
			detail = "panic while checking the object after the scribble"
		}
		c.Probe("accessor_aliases", "type="+tg.typeName+" method="+name, "C19-accessor-aliases:"+tg.typeName+"."+name, c19Sanitize(detail))
		c.Count("alias:" + tg.typeName)
	}
}

func c19Aliases(c *Ctx) {
	rlweLit := rlwe.ParametersLiteral{LogN: 5, LogQ: []int{45, 30, 31}, LogP: []int{46, 32}, Xs: ring.Ternary{H: 8}, NTTFlag: true,
		DefaultScale: rlwe.NewScaleModT(3, 65537)}
	ckksLit := ckks.ParametersLiteral{LogN: 5, LogQ: []int{45, 30, 31}, LogP: []int{46, 32}, LogDefaultScale: 30}
	bgvLit := bgv.ParametersLiteral{LogN: 5, LogQ: []int{45, 30, 31}, LogP: []int{46, 32}, PlaintextModulus: 65537}
	logN := 9
	eph := 16
	res, err := ckks.NewParametersFromLiteral(ckks.ParametersLiteral{LogN: logN, LogQ: []int{55, 40, 40}, LogP: []int{56}, LogDefaultScale: 40, Xs: ring.Ternary{H: 64}})
	if err != nil {
		panic(err)
	}
	btpLit := bootstrapping.ParametersLiteral{LogN: &logN, LogP: []int{57, 57}, EphemeralSecretWeight: &eph,
		IterationsParameters: &bootstrapping.IterationsParameters{BootstrappingPrecision: []float64{20.5}, ReservedPrimeBitSize: 28}}

	rlweMake := func() interface{} {
		p, e := rlwe.NewParametersFromLiteral(rlweLit)
		if e != nil {
			panic(e)
		}
		return p
	}
	ckksMake := func() interface{} {
		p, e := ckks.NewParametersFromLiteral(ckksLit)
		if e != nil {
			panic(e)
		}
		return p
	}
	bgvMake := func() interface{} {
		p, e := bgv.NewParametersFromLiteral(bgvLit)
		if e != nil {
			panic(e)
		}
		return p
	}
	btpMake := func() interface{} {
		r, e := ckks.NewParametersFromLiteral(ckks.ParametersLiteral{LogN: logN, LogQ: []int{55, 40, 40}, LogP: []int{56}, LogDefaultScale: 40, Xs: ring.Ternary{H: 64}})
		if e != nil {
			panic(e)
		}
		p, e := bootstrapping.NewParametersFromLiteral(r, btpLit)
		if e != nil {
			panic(e)
		}
		return p
	}
	scaleT := reflect.TypeOf(rlwe.Scale{})
	targets := []c19AliasTarget{
		{"rlwe.Parameters", rlweMake, func(p, twin interface{}) string {
			x, y := p.(*rlwe.Parameters), twin.(rlwe.Parameters)
			if !x.Equal(&y) {
				return "the object is no longer Equal to a pristine twin"
			}
			if !y.Equal(x) {
				return "a pristine twin is no longer Equal to the object"
			}
			return c19RlweConsistent(x)
		}, map[reflect.Type]reflect.Value{}, func(p interface{}) ([]byte, error) { return p.(rlwe.Parameters).MarshalBinary() }},
		{"ckks.Parameters", ckksMake, func(p, twin interface{}) string {
			x, y := p.(*ckks.Parameters), twin.(ckks.Parameters)
			if !x.Equal(&y) || !y.Equal(x) {
				return "the object is no longer Equal to a pristine twin"
			}
			return c19RlweConsistent(&x.Parameters)
		}, map[reflect.Type]reflect.Value{scaleT: reflect.ValueOf(rlwe.NewScale(1 << 30))}, func(p interface{}) ([]byte, error) { return p.(ckks.Parameters).MarshalBinary() }},
		{"bgv.Parameters", bgvMake, func(p, twin interface{}) string {
			x, y := p.(*bgv.Parameters), twin.(bgv.Parameters)
			if !x.Equal(&y) || !y.Equal(x) {
				return "the object is no longer Equal to a pristine twin"
			}
			if x.PlaintextModulus() != 65537 || x.DefaultScale().Cmp(y.DefaultScale()) != 0 {
				return "PlaintextModulus()/DefaultScale() changed"
			}
			return c19RlweConsistent(&x.Parameters)
		}, map[reflect.Type]reflect.Value{}, func(p interface{}) ([]byte, error) { return p.(bgv.Parameters).MarshalBinary() }},
		{"bootstrapping.Parameters", btpMake, func(p, twin interface{}) string {
			x, y := p.(*bootstrapping.Parameters), twin.(bootstrapping.Parameters)
			if !x.Equal(&y) || !y.Equal(x) {
				return "the object is no longer Equal to a pristine twin"
			}
			if d := c19RlweConsistent(&x.BootstrappingParameters.Parameters); d != "" {
				return d
			}
			return c19RlweConsistent(&x.ResidualParameters.Parameters)
		}, map[reflect.Type]reflect.Value{reflect.TypeOf(ckks.Parameters{}): reflect.ValueOf(res)}, func(p interface{}) ([]byte, error) { return p.(bootstrapping.Parameters).MarshalBinary() }},
	}
	for _, tg := range targets {
		c19AliasRun(c, tg)
	}
}
