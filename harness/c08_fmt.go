package main

// C08: harness-side mirror of the format descriptions of lean/Lattigo/Model/Codec.lean.
// It is used ONLY to locate the header fields (element counts, presence flags) inside an
// encoding, so that the corruption probes can overwrite exactly one header field; the
// byte-for-byte correspondence itself is checked against the Lean model (tie lines).

type c08GfKind int

const (
	c08GfUnit c08GfKind = iota
	c08GfUint
	c08GfRaw
	c08GfHex2
	c08GfFramed
	c08GfPair
	c08GfVec
	c08GfOpt
	c08GfTailIf
)

type c08Gf struct {
	k         c08GfKind
	w         int
	pre, post string
	a, b      *c08Gf
	p         func(*c08Gv) bool
	tag       string // Go function responsible for this node (finding attribution)
}

type c08Field struct {
	off, w int
	kind   string // "count" or "flag"
	val    uint64
	tag    string
}

func (f *c08Gf) tagged(t string) *c08Gf { c := *f; c.tag = t; return &c }

func c08FUint(w int) *c08Gf { return &c08Gf{k: c08GfUint, w: w} }
func c08FRaw(n int) *c08Gf  { return &c08Gf{k: c08GfRaw, w: n} }
func c08FHex2() *c08Gf      { return &c08Gf{k: c08GfHex2} }
func c08FFramed(pre string, a *c08Gf, post string) *c08Gf {
	return &c08Gf{k: c08GfFramed, pre: pre, a: a, post: post}
}
func c08FPair(a, b *c08Gf) *c08Gf    { return &c08Gf{k: c08GfPair, a: a, b: b} }
func c08FVec(w int, a *c08Gf) *c08Gf { return &c08Gf{k: c08GfVec, w: w, a: a} }
func c08FOpt(a *c08Gf) *c08Gf        { return &c08Gf{k: c08GfOpt, a: a} }
func c08FTailIf(a *c08Gf, p func(*c08Gv) bool, b *c08Gf) *c08Gf {
	return &c08Gf{k: c08GfTailIf, a: a, p: p, b: b}
}
func c08FTuple(xs ...*c08Gf) *c08Gf {
	if len(xs) == 1 {
		return xs[0]
	}
	return c08FPair(xs[0], c08FTuple(xs[1:]...))
}

// c08GfWalk returns the offset after v and appends the header fields it passes.
// ok=false when the value does not have the shape of the format.
func c08GfWalk(f *c08Gf, v *c08Gv, off int, fields *[]c08Field) (int, bool) {
	switch f.k {
	case c08GfUnit:
		return off, true
	case c08GfUint:
		return off + f.w, v.k == c08GvNum
	case c08GfRaw:
		return off + len(v.b), v.k == c08GvBytes
	case c08GfHex2:
		return off + 2, v.k == c08GvNum || v.k == c08GvInt
	case c08GfFramed:
		o, ok := c08GfWalk(f.a, v, off+len(f.pre), fields)
		return o + len(f.post), ok
	case c08GfPair:
		if v.k != c08GvPair {
			return off, false
		}
		o, ok := c08GfWalk(f.a, v.a, off, fields)
		if !ok {
			return o, false
		}
		return c08GfWalk(f.b, v.c, o, fields)
	case c08GfVec:
		if v.k != c08GvList {
			return off, false
		}
		*fields = append(*fields, c08Field{off: off, w: f.w, kind: "count", val: uint64(len(v.l)), tag: f.tag})
		o := off + f.w
		for _, x := range v.l {
			var ok bool
			if o, ok = c08GfWalk(f.a, x, o, fields); !ok {
				return o, false
			}
		}
		return o, true
	case c08GfOpt:
		switch v.k {
		case c08GvNone:
			*fields = append(*fields, c08Field{off: off, w: 1, kind: "flag", val: 0, tag: f.tag})
			return off + 1, true
		case c08GvSome:
			*fields = append(*fields, c08Field{off: off, w: 1, kind: "flag", val: 1, tag: f.tag})
			return c08GfWalk(f.a, v.a, off+1, fields)
		}
		return off, false
	case c08GfTailIf:
		if v.k != c08GvPair {
			return off, false
		}
		o, ok := c08GfWalk(f.a, v.a, off, fields)
		if !ok {
			return o, false
		}
		if f.p(v.a) {
			if v.c.k != c08GvSome {
				return o, false
			}
			return c08GfWalk(f.b, v.c.a, o, fields)
		}
		return o, true
	}
	return off, false
}

func c08GadgetDegreeZero(v *c08Gv) bool {
	if v.k != c08GvPair || v.c.k != c08GvList || len(v.c.l) == 0 {
		return false
	}
	r0 := v.c.l[0]
	if r0.k != c08GvList || len(r0.l) == 0 {
		return false
	}
	return r0.l[0].k == c08GvList && len(r0.l[0].l) == 1
}

// c08GfDiff walks two values of format f in parallel and names the Go function responsible
// for the first difference ("" = values equal, "?" = not attributable).
func c08GfDiff(f *c08Gf, got, want *c08Gv) string {
	if got == nil || want == nil || got.k != want.k && f.k != c08GfOpt && f.k != c08GfTailIf {
		return "?"
	}
	switch f.k {
	case c08GfUnit:
		return ""
	case c08GfUint, c08GfHex2:
		if got.n != want.n {
			if f.tag != "" {
				return f.tag
			}
			return "?"
		}
		return ""
	case c08GfRaw:
		if string(got.b) != string(want.b) {
			if f.tag != "" {
				return f.tag
			}
			return "?"
		}
		return ""
	case c08GfFramed:
		return c08GfDiff(f.a, got, want)
	case c08GfPair:
		if d := c08GfDiff(f.a, got.a, want.a); d != "" {
			return d
		}
		return c08GfDiff(f.b, got.c, want.c)
	case c08GfVec:
		if len(got.l) != len(want.l) {
			if f.tag != "" && f.w == 4 {
				return "structs.Map.ReadFrom/old-entries-kept"
			}
			return "?"
		}
		for i := range got.l {
			if d := c08GfDiff(f.a, got.l[i], want.l[i]); d != "" {
				if d == "?" && f.w == 4 {
					return "structs.Map.ReadFrom/old-entries-kept"
				}
				return d
			}
		}
		return ""
	case c08GfOpt:
		if got.k != want.k {
			if f.tag != "" {
				return f.tag
			}
			return "?"
		}
		if got.k == c08GvSome {
			return c08GfDiff(f.a, got.a, want.a)
		}
		return ""
	case c08GfTailIf:
		if got.k != c08GvPair || want.k != c08GvPair {
			return "?"
		}
		if d := c08GfDiff(f.a, got.a, want.a); d != "" {
			return d
		}
		g, w := got.c, want.c
		switch {
		case g.k == c08GvNone && w.k == c08GvSome:
			// the original carries a seed that is not part of its encoding
			return "rlwe.EvaluationKey.Expand/Seed-kept-after-Expand"
		case g.k == c08GvSome && w.k == c08GvNone:
			return "rlwe.EvaluationKey.ReadFrom/stale-Seed"
		case g.k == c08GvSome && w.k == c08GvSome && string(g.a.b) != string(w.a.b):
			if f.p(want.a) {
				return "?"
			}
			return "rlwe.EvaluationKey.ReadFrom/stale-Seed"
		}
		return ""
	}
	return "?"
}

var c08Fmts = func() map[string]*c08Gf {
	u8, u64 := c08FUint(1), c08FUint(8)
	vecOf := func(a *c08Gf) *c08Gf { return c08FVec(8, a).tagged("structs.Vector.ReadFrom") }
	matOf := func(a *c08Gf) *c08Gf {
		return c08FVec(8, c08FVec(8, a).tagged("structs.Vector.ReadFrom")).tagged("structs.Matrix.ReadFrom")
	}
	mapOf := func(a *c08Gf) *c08Gf { return c08FVec(4, c08FPair(u64, a)).tagged("structs.Map.ReadFrom") }
	poly := matOf(u64)
	polyQP := c08FPair(poly, poly)
	scale := c08FFramed(`{"Value":"`, c08FPair(c08FRaw(45), c08FFramed(`","Mod":"`, c08FRaw(45), "")), `"}`)
	dim := c08FHex2().tagged("rlwe.PlaintextMetaData.UnmarshalJSON/LogDimensions-signed-byte-not-restored")
	ptMeta := c08FFramed(`{"Scale":`, c08FPair(scale,
		c08FFramed(`,"IsBatched":"0x`, c08FPair(c08FHex2(),
			c08FFramed(`","IsBitReversed":"0x`, c08FPair(c08FHex2(),
				c08FFramed(`","LogDimensions":["0x`, c08FPair(dim, c08FFramed(`","0x`, dim, "")), "")), "")), "")), `"]}`)
	flag := c08FHex2().tagged("rlwe.CiphertextMetaData.UnmarshalJSON/flags-not-reset")
	ctMeta := c08FFramed(`{"IsNTT":"0x`, c08FPair(flag, c08FFramed(`","IsMontgomery":"0x`, flag, "")), `"}`)
	meta := c08FFramed(`{"PlaintextMetaData":`, c08FPair(ptMeta, c08FFramed(`,"CiphertextMetaData":`, ctMeta, "")), `}`)
	element := func(t *c08Gf) *c08Gf {
		return c08FPair(c08FOpt(meta).tagged("rlwe.Element.ReadFrom/stale-MetaData"), vecOf(t))
	}
	vectorQP := vecOf(polyQP)
	gadget := c08FPair(u64, matOf(vectorQP))
	evk := c08FTailIf(gadget, c08GadgetDegreeZero, c08FRaw(32))
	gk := c08FTuple(u64, u64, evk)
	evkset := c08FPair(c08FOpt(evk).tagged("rlwe.MemEvaluationKeySet.ReadFrom/stale-optional-fields"),
		c08FOpt(mapOf(gk)).tagged("rlwe.MemEvaluationKeySet.ReadFrom/stale-optional-fields"))
	ct := element(poly)
	btpOpt := func(a *c08Gf) *c08Gf {
		return c08FOpt(a).tagged("bootstrapping.EvaluationKeys.ReadFrom/stale-optional-fields")
	}
	return map[string]*c08Gf{
		"u8": u8, "u64": u64, "vecu64": vecOf(u64), "vecu32": vecOf(c08FUint(4)), "vecu16": vecOf(c08FUint(2)), "vecu8": vecOf(u8),
		"mappoly": mapOf(poly),
		"poly":    poly, "polyqp": polyQP, "scale": scale, "ptmeta": ptMeta, "ctmeta": ctMeta, "meta": meta,
		"ct": ct, "pt": ct, "elqp": element(polyQP), "vecqp": vectorQP, "pk": vectorQP, "sk": polyQP,
		"gct": gadget, "evk": evk, "rlk": evk, "gk": gk, "evkset": evkset,
		"rgsw": c08FPair(gadget, gadget),
		"pb":   c08FPair(u8, mapOf(ct)),
		"btpkeys": c08FTuple(btpOpt(evk), btpOpt(evk), btpOpt(evk), btpOpt(evk), btpOpt(evk), btpOpt(evk),
			c08FOpt(evkset).tagged("bootstrapping.EvaluationKeys.ReadFrom/stale-MemEvaluationKeySet")),
		"params":   c08FVec(4, u8).tagged("rlwe.Parameters.ReadFrom"),
		"cpkshare": polyQP, "evkshare": gadget, "rlkshare": gadget, "galshare": c08FPair(u64, gadget),
		"ksshare": poly, "pksshare": ct, "refreshshare": c08FTuple(meta, poly, poly), "shamirshare": polyQP,
	}
}()
