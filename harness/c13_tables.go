package main

// C13 — the exported constant tables of the composite circuits and bignum.ChebyshevApproximation.
//   minimax_table_exact        minimax.CoeffsSignX2Cheby / CoeffsSignX4Cheby, converted EXACTLY (big.Rat) from the Chebyshev
//                              to the monomial basis, are the documented polynomials 3/2 x - 1/2 x^3 and
//                              35/16 x - 35/16 x^3 + 21/16 x^5 - 5/16 x^7 (committed exact rationals)
//   default_sign_table_pinned  comparison.DefaultCompositePolynomialForSign is the committed table (SHA-256 of its strings)
//   minimax_stage_value        every exported stage, evaluated homomorphically ALONE on inputs near -1 and 1, is its
//                              documented polynomial (2^-20), and appended to the default composite polynomial the
//                              sign is still exact to 2^-20 (a mistyped coefficient converges to a value off 1)
//   cheby_approx_coeffs        bignum.ChebyshevApproximation(f, [a,b], Nodes) for Nodes even and odd: every coefficient
//                              equals the Chebyshev-Gauss interpolation coefficient computed independently (float64)
//   cheby_approx_error         its maximum error against f on a fine grid is at most twice the reference interpolant's
//                              (+1e-9): smooth functions sin, cos, exp, 1/(1+x^2), several intervals

import (
	"crypto/sha256"
	"fmt"
	"math"
	"math/big"
	"strings"

	"github.com/tuneinsight/lattigo/v6/circuits/ckks/comparison"
	"github.com/tuneinsight/lattigo/v6/circuits/ckks/minimax"
	"github.com/tuneinsight/lattigo/v6/core/rlwe"
	"github.com/tuneinsight/lattigo/v6/utils/bignum"
)

// c13ChebToMono: exact change of basis Chebyshev -> monomial over the rationals
func c13ChebToMono(cheb []*big.Rat) []*big.Rat {
	n := len(cheb)
	out := make([]*big.Rat, n)
	for i := range out {
		out[i] = new(big.Rat)
	}
	tPrev := []*big.Rat{big.NewRat(1, 1)}                  // T_0
	tCur := []*big.Rat{new(big.Rat), big.NewRat(1, 1)}     // T_1
	add := func(t []*big.Rat, c *big.Rat) {
		for i := range t {
			out[i].Add(out[i], new(big.Rat).Mul(c, t[i]))
		}
	}
	for k := 0; k < n; k++ {
		switch k {
		case 0:
			add(tPrev, cheb[0])
		case 1:
			add(tCur, cheb[1])
		default:
			next := make([]*big.Rat, k+1)
			for i := range next {
				next[i] = new(big.Rat)
			}
			for i := range tCur {
				next[i+1].Add(next[i+1], new(big.Rat).Mul(big.NewRat(2, 1), tCur[i]))
			}
			for i := range tPrev {
				next[i].Sub(next[i], tPrev[i])
			}
			tPrev, tCur = tCur, next
			add(tCur, cheb[k])
		}
	}
	return out
}

func c13Tables(c *Ctx) {
	tables := []struct {
		name string
		tab  []string
		mono []*big.Rat
	}{
		{"CoeffsSignX2Cheby", minimax.CoeffsSignX2Cheby, []*big.Rat{new(big.Rat), big.NewRat(3, 2), new(big.Rat), big.NewRat(-1, 2)}},
		{"CoeffsSignX4Cheby", minimax.CoeffsSignX4Cheby, []*big.Rat{new(big.Rat), big.NewRat(35, 16), new(big.Rat), big.NewRat(-35, 16),
			new(big.Rat), big.NewRat(21, 16), new(big.Rat), big.NewRat(-5, 16)}},
	}
	for _, tb := range tables {
		d := ""
		cheb := make([]*big.Rat, len(tb.tab))
		for i, s := range tb.tab {
			r, ok := new(big.Rat).SetString(s)
			if !ok {
				d = "unparsable coefficient " + s
				r = new(big.Rat)
			}
			cheb[i] = r
		}
		mono := c13ChebToMono(cheb)
		if len(mono) != len(tb.mono) {
			d = fmt.Sprintf("%d coefficients, %d documented", len(mono), len(tb.mono))
		} else {
			for i := range mono {
				if mono[i].Cmp(tb.mono[i]) != 0 && d == "" {
					d = fmt.Sprintf("coefficient of x^%d is %s, documented %s (table %v)", i, mono[i].RatString(), tb.mono[i].RatString(), tb.tab)
				}
			}
		}
		c.Probe("minimax_table_exact", tb.name, "C13-minimax-tables", d)
	}
	var sb strings.Builder
	for _, p := range comparison.DefaultCompositePolynomialForSign {
		sb.WriteString(strings.Join(p, ",") + ";")
	}
	d := ""
	if h := fmt.Sprintf("%x", sha256.Sum256([]byte(sb.String()))); h != "0331fea88576532dd2671bd88808794e490f0f578b5d4db27c3d0c72a22df832" {
		d = "comparison.DefaultCompositePolynomialForSign differs from the committed table: sha256 " + h
	}
	c.Probe("default_sign_table_pinned", "DefaultCompositePolynomialForSign", "C13-minimax-tables", d)
	c13ChebyApprox(c)
}

// c13Stages: the exported stages evaluated homomorphically
func c13Stages(c *Ctx, x *c13Comp, minEvl *minimax.Evaluator, slots int) {
	stages := []struct {
		name string
		tab  []string
		f    func(v float64) float64
	}{
		{"X2", minimax.CoeffsSignX2Cheby, func(v float64) float64 { return 1.5*v - 0.5*v*v*v }},
		{"X4", minimax.CoeffsSignX4Cheby, func(v float64) float64 {
			return (35*v - 35*v*v*v + 21*math.Pow(v, 5) - 5*math.Pow(v, 7)) / 16
		}},
	}
	for _, sg := range stages {
		// alone, on inputs near -1 and 1 and across [-1, 1]
		vals := c13Sweep(c, slots, 0.9, 1)
		for i := range vals {
			if i%2 == 0 {
				vals[i] = -vals[i]
			}
			if i%5 == 4 {
				vals[i] = 2*c13U01(c) - 1
			}
		}
		vals[0], vals[1] = 1, -1
		ct := x.encrypt(vals)
		var res *rlwe.Ciphertext
		st := Try(func() string {
			var err error
			if res, err = minEvl.Evaluate(ct, minimax.NewPolynomial([][]string{sg.tab})); err != nil {
				return "err"
			}
			return "ok"
		})
		d := ""
		if st != "ok" {
			d = "status=" + st
		} else {
			got := x.decrypt(res)
			for i := range got {
				if w := sg.f(vals[i]); !(math.Abs(got[i]-w) <= math.Exp2(-20)) {
					d = fmt.Sprintf("stage %s at %g: got %g want %g", sg.name, vals[i], got[i], w)
					break
				}
			}
		}
		c.Probe("minimax_stage_value", "alone "+sg.name, "C13-minimax-tables", d)
		// appended to the default composite polynomial: still the sign
		coeffs := append(append([][]string{}, comparison.DefaultCompositePolynomialForSign...), sg.tab)
		cmp := comparison.NewEvaluator(x.params, minEvl, minimax.NewPolynomial(coeffs))
		vals = c13Sweep(c, slots, math.Exp2(-30), 1)
		for i := 0; i < slots; i += 2 {
			vals[i] = -vals[i]
		}
		vals[0], vals[1] = 1, -1
		ct = x.encrypt(vals)
		st = Try(func() string {
			var err error
			if res, err = cmp.Sign(ct); err != nil {
				return "err"
			}
			return "ok"
		})
		d = ""
		if st != "ok" {
			d = "status=" + st
		} else {
			got := x.decrypt(res)
			for i := range got {
				w := 1.0
				if vals[i] < 0 {
					w = -1
				}
				if !(math.Abs(got[i]-w) <= math.Exp2(-20)) {
					d = fmt.Sprintf("sign(%g) with the stage %s appended: got %g want %g", vals[i], sg.name, got[i], w)
					break
				}
			}
		}
		c.Probe("minimax_stage_value", "default+"+sg.name, "C13-minimax-tables", d)
	}
}

func c13ChebyApprox(c *Ctx) {
	fs := []struct {
		name string
		f    func(float64) float64
	}{
		{"sin", math.Sin}, {"cos", math.Cos}, {"exp", math.Exp}, {"runge", func(v float64) float64 { return 1 / (1 + v*v) }},
	}
	ivs := [][2]float64{{-1, 1}, {-3, 5}, {0, 2}, {-8, 8}}
	nodes := []int{7, 8, 15, 16, 31, 32, 63, 64}
	if c.Thorough() {
		nodes = append(nodes, 3, 4, 5, 6, 23, 24, 47, 48, 126, 127)
	}
	for _, fn := range fs {
		for _, iv := range ivs {
			for _, N := range nodes {
				a, b := iv[0], iv[1]
				pol := bignum.ChebyshevApproximation(fn.f, bignum.Interval{Nodes: N, A: *bignum.NewFloat(a, 128), B: *bignum.NewFloat(b, 128)})
				n := N + 1
				// independent Chebyshev-Gauss interpolation
				ref := make([]float64, n)
				for k := 0; k < n; k++ {
					s := 0.0
					for j := 0; j < n; j++ {
						th := math.Pi * (float64(j) + 0.5) / float64(n)
						s += fn.f((a+b)/2+(b-a)/2*math.Cos(th)) * math.Cos(float64(k)*th)
					}
					ref[k] = 2 * s / float64(n)
				}
				ref[0] /= 2
				tag := fmt.Sprintf("%s [%g,%g] nodes=%d", fn.name, a, b, N)
				d := ""
				scale := 0.0
				for _, r := range ref {
					scale = math.Max(scale, math.Abs(r))
				}
				if len(pol.Coeffs) != n {
					d = fmt.Sprintf("%d coefficients, want %d", len(pol.Coeffs), n)
				} else {
					for k := range ref {
						g, _ := pol.Coeffs[k][0].Float64()
						if !(math.Abs(g-ref[k]) <= 1e-9*math.Max(1, scale)) && d == "" {
							d = fmt.Sprintf("coefficient %d is %.12g, the interpolation coefficient is %.12g", k, g, ref[k])
						}
					}
				}
				c.Probe("cheby_approx_coeffs", tag, "C13-chebyshev-approximation", d)
				evalRef := func(v float64) float64 {
					u := (2*v - a - b) / (b - a)
					t0, t1, r := 1.0, u, ref[0]
					for k := 1; k < n; k++ {
						r += ref[k] * t1
						t0, t1 = t1, 2*u*t1-t0
					}
					return r
				}
				eLib, eRef := 0.0, 0.0
				for g := 0; g <= 400; g++ {
					v := a + (b-a)*float64(g)/400
					y := pol.Evaluate(bignum.NewFloat(v, 128))
					yl, _ := y[0].Float64()
					eLib = math.Max(eLib, math.Abs(yl-fn.f(v)))
					eRef = math.Max(eRef, math.Abs(evalRef(v)-fn.f(v)))
				}
				d = ""
				if !(eLib <= 2*eRef+1e-9*math.Max(1, scale)) {
					d = fmt.Sprintf("max error %g, the interpolant of the same degree achieves %g", eLib, eRef)
				}
				c.Probe("cheby_approx_error", tag, "C13-chebyshev-approximation", d)
			}
		}
	}
}
