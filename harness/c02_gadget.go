package main

// C02: "the digits recombine, against the gadget vector, to the polynomial modulo Q" — against the REAL gadget vector,
// i.e. the rows rlwe.AddPolyTimesGadgetVectorToGadgetCiphertext writes into a zero GadgetCiphertext:
//   tie   gadgetrow : pt = 1  -> rows of Value[i][j][0] = P·2^(w·j) on the Q rows of RNS digit i (model: KS.pgElt)
//   probe           : random pt, Σ_{i,j} digit_ij(c)·row_ij ≡ P·pt·c (mod every prime of QP), slot-wise, with the digits of
//                     MY decompositions (DecomposeAndSplit for w = 0, MaskVec for w > 0) and the digit COUNT of the gadget
//                     ciphertext itself (len(Value[i])).
// Chains of unequal prime sizes in both orders, w in {0, 8, 12, 16}, with and without P, all levels.

import (
	"fmt"
	"math/big"
	"math/bits"

	"github.com/tuneinsight/lattigo/v6/core/rlwe"
	"github.com/tuneinsight/lattigo/v6/ring"
)

func c02Gadget(c *Ctx, po bool, pool map[int][]uint64) {
	r := c.rng
	type cfg struct {
		q, p []int
		ws   []int
	}
	cfgs := []cfg{
		{[]int{36, 45}, nil, []int{0, 8, 12, 16}},        // Q[0] shortest
		{[]int{45, 36}, nil, []int{0, 8, 12, 16}},        // Q[0] longest
		{[]int{30, 58, 45}, []int{50}, []int{0, 12, 16}}, // one P
		{[]int{58, 30, 45}, []int{50}, []int{0, 12}},
		{[]int{36, 45, 30, 55}, []int{55, 58}, []int{0}}, // two P: RNS digits of two primes
		{[]int{55, 30, 45, 36}, []int{58, 55}, []int{0}},
	}
	if c.Thorough() {
		cfgs = append(cfgs, cfg{[]int{20, 61, 40}, nil, []int{5, 13, 20}}, cfg{[]int{61, 20, 40}, []int{61}, []int{7, 20}},
			cfg{[]int{25, 60, 36, 50, 45}, []int{60, 61, 58}, []int{0}})
	}
	for ci, cf := range cfgs {
		used := map[uint64]bool{}
		Q := c02TakePrimes(pool, used, cf.q, r)
		P := c02TakePrimes(pool, used, cf.p, r)
		if len(Q) != len(cf.q) || len(P) != len(cf.p) {
			continue
		}
		params, err := rlwe.NewParametersFromLiteral(rlwe.ParametersLiteral{LogN: 4, Q: Q, P: P, NTTFlag: true})
		if err != nil {
			c.Count("gadget:param-error")
			continue
		}
		N := params.N()
		ringQ, ringP := params.RingQ(), params.RingP()
		dec := ring.NewDecomposer(ringQ, ringP)
		for _, w := range cf.ws {
			for levelQ := 0; levelQ < len(Q); levelQ++ {
				lps := []int{-1}
				if len(P) > 0 {
					lps = nil
					for lp := 0; lp < len(P); lp++ {
						if w == 0 || lp == 0 {
							lps = append(lps, lp)
						}
					}
				}
				for _, levelP := range lps {
					c02GadgetCase(c, po, params, dec, Q, P, N, w, levelQ, levelP, fmt.Sprintf("cfg=%d", ci))
				}
			}
		}
	}
}

func c02GadgetCase(c *Ctx, po bool, params rlwe.Parameters, dec *ring.Decomposer, Q, P []uint64, N, w, levelQ, levelP int, tag string) {
	r := c.rng
	mQ := Q[:levelQ+1]
	var mP []uint64
	if levelP >= 0 {
		mP = P[:levelP+1]
	}
	key := "C02/GadgetVector"
	args := fmt.Sprintf("%s %s %d %d %d %s", Vec(mQ), Vec(mP), w, levelQ, levelP, tag)
	c.Count(fmt.Sprintf("gadget:w=%d,levelP=%d", w, levelP))
	for _, q := range mQ {
		c.Count(fmt.Sprintf("gadget:prime-bits=%d", bits.Len64(q)))
	}
	rqp := *params.RingQP()
	// ---- (a) pt = 1: the gadget vector itself, tied to the model
	one := ring.NewPoly(N, levelQ)
	for k := range one.Coeffs {
		one.Coeffs[k][0] = 1
	}
	g1 := rlwe.NewGadgetCiphertext(params, 0, levelQ, levelP, w)
	buff := ring.NewPoly(N, levelQ)
	var err error
	if c02Panics(func() {
		err = rlwe.AddPolyTimesGadgetVectorToGadgetCiphertext(one, []rlwe.GadgetCiphertext{*g1}, rqp, buff)
	}) || err != nil {
		c.Probe("no_panic", "gadget "+args, key+"/panic-or-error", "AddPolyTimesGadgetVectorToGadgetCiphertext failed")
		return
	}
	if !po {
		for i := range g1.Value {
			for j := range g1.Value[i] {
				rows := c02RowsCopy(g1.Value[i][j][0].Q, levelQ+1)
				if levelP >= 0 {
					rows = append(rows, c02RowsCopy(g1.Value[i][j][0].P, levelP+1)...)
				}
				c.Emit(fmt.Sprintf("gadgetrow %s %s %d %d %d %d", Vec(mQ), Vec(mP), N, w, i, j), Mat(rows))
				c.Count("gadgetrow")
			}
		}
	}
	// ---- (b) random pt, slot-wise recombination of my digits against the rows
	MQ := c02ProdBig(mQ)
	T := make([]*big.Int, N)
	for s := range T {
		T[s] = c02RandBelow(r, MQ)
	}
	pt := c02PolyFromRows(N, c02RowsOf(T, mQ))
	g := rlwe.NewGadgetCiphertext(params, 0, levelQ, levelP, w)
	if c02Panics(func() {
		err = rlwe.AddPolyTimesGadgetVectorToGadgetCiphertext(pt, []rlwe.GadgetCiphertext{*g}, rqp, ring.NewPoly(N, levelQ))
	}) || err != nil {
		c.Probe("no_panic", "gadget "+args, key+"/panic-or-error", "AddPolyTimesGadgetVectorToGadgetCiphertext failed")
		return
	}
	var D *big.Int
	if levelQ > 0 {
		D = c02BigU(mQ[0])
	}
	X := c02FamValues(c, N, MQ, D)
	cpoly := c02PolyFromRows(N, c02RowsOf(X, mQ))
	nbPi := levelP + 1
	if levelP < 0 {
		nbPi = 1
	}
	Pb := big.NewInt(1)
	if levelP >= 0 {
		Pb = c02ProdBig(mP)
	}
	// accumulators per modulus row and slot
	all := append(append([]uint64{}, mQ...), mP...)
	acc := make([][]*big.Int, len(all))
	for k := range acc {
		acc[k] = make([]*big.Int, N)
		for s := range acc[k] {
			acc[k][s] = new(big.Int)
		}
	}
	d := ""
	for i := range g.Value {
		for j := range g.Value[i] {
			// digit rows in every modulus of QP
			dig := make([][]uint64, len(all))
			if w == 0 {
				p1Q := ring.NewPoly(N, levelQ)
				var p1P ring.Poly
				if levelP >= 0 {
					p1P = ring.NewPoly(N, levelP)
				}
				if c02Panics(func() { dec.DecomposeAndSplit(levelQ, levelP, nbPi, i, cpoly, p1Q, p1P) }) {
					d = fmt.Sprintf("DecomposeAndSplit panicked for digit %d", i)
					break
				}
				lo, hi := i*nbPi, i*nbPi+nbPi
				for k := range mQ {
					dig[k] = p1Q.Coeffs[k]
					if nbPi > 1 && k >= lo && k < hi {
						dig[k] = cpoly.Coeffs[k] // the digit's own moduli: the input rows (DecomposeSingleNTT copies them)
					}
				}
				for k := range mP {
					dig[len(mQ)+k] = p1P.Coeffs[k]
				}
			} else {
				v := make([]uint64, N)
				ring.MaskVec(cpoly.Coeffs[i], j*w, uint64(1)<<uint(w)-1, v)
				for k := range all {
					dig[k] = v
				}
			}
			for k, m := range all {
				var row []uint64
				if k < len(mQ) {
					row = g.Value[i][j][0].Q.Coeffs[k]
				} else {
					row = g.Value[i][j][0].P.Coeffs[k-len(mQ)]
				}
				mb := c02BigU(m)
				for s := 0; s < N; s++ {
					t := new(big.Int).Mul(c02BigU(dig[k][s]%m), c02BigU(row[s]%m))
					acc[k][s].Add(acc[k][s], t)
					acc[k][s].Mod(acc[k][s], mb)
				}
			}
		}
	}
	if d == "" {
		for k, m := range all {
			mb := c02BigU(m)
			for s := 0; s < N && d == ""; s++ {
				want := new(big.Int).Mul(Pb, T[s])
				want.Mul(want, X[s])
				want.Mod(want, mb)
				if acc[k][s].Cmp(want) != 0 {
					d = fmt.Sprintf("modulus %d (row %d) slot %d: Σ digit·row = %s, P·pt·c = %s (digit counts %v)", m, k, s, acc[k][s], want, c02DigitCounts(g))
				}
			}
		}
	}
	c.Probe("gadget_recombine", args, key+"/digits-do-not-recombine-against-the-gadget-vector", d)
}

func c02DigitCounts(g *rlwe.GadgetCiphertext) []int {
	out := make([]int, len(g.Value))
	for i := range g.Value {
		out[i] = len(g.Value[i])
	}
	return out
}
