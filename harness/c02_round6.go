package main

// C02 round 6:
//  (1) polynomials ALLOCATED AT A HIGHER LEVEL than the ring view (`e.over` extra junk rows) for every
//      Div* / ModUp* / ModDown* call, and chains of consecutive IN-PLACE rescalings L, L-1, …, 1 on one un-resized poly;
//  (2) crafted boundary coefficients for the HPS index: all y_i = q_i − 1, all y_i = 0, y_i = q_i − 1 for i < k (Σ y_i/q_i
//      within 2^-50 of k from below, k = 0..n), the same +1 unit, and shifted inputs x' ∈ {0, 1, 2, Q−1, Q−2};
//  (3) the real key switch (GadgetProduct) with 58…61-bit primes and BaseTwoDecomposition ∈ {6, 8, 16} (many digits:
//      lazy-reduction bookkeeping), decrypt-level noise bound.

import (
	"fmt"
	"math/big"
	"strings"

	"github.com/tuneinsight/lattigo/v6/core/rlwe"
	"github.com/tuneinsight/lattigo/v6/ring"
)

// c02PolyOver: the rows, followed by `extra` junk rows (a polynomial allocated at a higher level than it is used at)
func c02PolyOver(r *SplitMix, N int, rows [][]uint64, extra int) ring.Poly {
	p := ring.NewPoly(N, len(rows)-1+extra)
	for i := range p.Coeffs {
		if i < len(rows) {
			copy(p.Coeffs[i], rows[i])
		} else {
			for j := range p.Coeffs[i] {
				p.Coeffs[i][j] = r.U64() >> 4
			}
		}
	}
	return p
}

// ---- (1a) over-allocated polynomials ---------------------------------------------------------------------------------

func c02OverAllocated(c *Ctx, po bool, e0 *c02Env) {
	r := c.rng
	e := *e0
	ch := e.ch
	e.over = 1 + r.Intn(2)
	for _, level := range c02Levels(len(ch.Q)) {
		if level == 0 {
			continue
		}
		rl := e.ringQ.AtLevel(level)
		M := c02ProdBig(ch.Q[:level+1])
		D := c02BigU(ch.Q[level])
		for _, kind := range c02DivKinds {
			nb := 1
			if strings.Contains(kind, "many") {
				nb = 1 + r.Intn(level)
			}
			c02OneDiv(c, po, &e, rl, kind, level, nb, c02FamValues(c, e.N, M, D), "")
			c.Count("over-allocated:div")
		}
	}
	if e.ringP != nil {
		be := ring.NewBasisExtender(e.ringQ, e.ringP)
		for _, levelQ := range c02Levels(len(ch.Q)) {
			for levelP := 0; levelP < len(ch.P); levelP++ {
				MQ, MP := c02ProdBig(ch.Q[:levelQ+1]), c02ProdBig(ch.P[:levelP+1])
				c02OneModUp(c, po, &e, be, "qtop", levelQ, levelP, c02FamValues(c, e.N, MQ, nil), "")
				c02OneModUp(c, po, &e, be, "ptoq", levelQ, levelP, c02FamValues(c, e.N, MP, nil), "")
				for _, kind := range []string{"qptoq", "qptoqntt", "qptop"} {
					D := MP
					if kind == "qptop" {
						D = MQ
					}
					c02OneModDown(c, po, &e, be, kind, levelQ, levelP, c02FamValues(c, e.N, new(big.Int).Mul(MQ, MP), D), "")
				}
				c.Count("over-allocated:basisextender")
			}
		}
	}
}

// ---- (1b) consecutive in-place rescalings on one un-resized polynomial ----------------------------------------------------

func c02RescaleChain(c *Ctx, po bool, e *c02Env) {
	r := c.rng
	ch := e.ch
	L := len(ch.Q) - 1
	if L < 1 {
		return
	}
	for _, kind := range []string{"floor", "floorntt", "round", "roundntt"} {
		isNTT := strings.HasSuffix(kind, "ntt")
		isRound := strings.HasPrefix(kind, "round")
		M := c02ProdBig(ch.Q)
		X := c02FamValues(c, e.N, M, c02BigU(ch.Q[L]))
		p := c02PolyFromRows(e.N, c02RowsOf(X, ch.Q))
		if isNTT {
			e.ringQ.AtLevel(L).NTT(p, p)
		}
		buff := c02JunkPoly(r, e.N, L)
		Y := make([]*big.Int, len(X))
		for j := range X {
			Y[j] = new(big.Int).Set(X[j])
		}
		for level := L; level >= 1; level-- {
			rl := e.ringQ.AtLevel(level)
			in := c02RowsCopy(p, level+1)
			args := fmt.Sprintf("%s %s step-level=%d of %d %s", kind, e.Qs, level, L, Mat(in))
			if c02Panics(func() { c02CallDiv(kind, rl, 1, p, buff, p) }) {
				c.Probe("no_panic", "rescale-chain "+args, "C02/Div/"+kind+"/in-place-chain/panic", "panicked")
				break
			}
			// reference: one more division of the running integer by q_level (the RING's level)
			q := c02BigU(ch.Q[level])
			for j := range Y {
				if isRound {
					Y[j].Add(Y[j], new(big.Int).Rsh(new(big.Int).Sub(q, big.NewInt(1)), 1))
				}
				Y[j].Div(Y[j], q)
			}
			want := c02RowsOf(Y, ch.Q[:level])
			got := ring.NewPoly(e.N, level-1)
			for i := 0; i < level; i++ {
				copy(got.Coeffs[i], p.Coeffs[i])
			}
			if isNTT {
				e.ringQ.AtLevel(level-1).INTT(got, got)
			}
			d := ""
			for i := 0; i < level && d == ""; i++ {
				for j := range want[i] {
					if got.Coeffs[i][j] != want[i][j] {
						d = fmt.Sprintf("step at ring level %d (polynomial still has %d rows): coeff %d mod q_%d: got %d want %d", level, L+1, j, i, got.Coeffs[i][j], want[i][j])
						break
					}
				}
			}
			c.Probe("div_inplace_chain", args, "C02/Div/"+kind+"/in-place-chain/not-the-quotient-at-the-ring-level", d)
			// the in-place step equals the out-of-place call (which is tied to the model) on fresh buffers of exact size
			f0 := c02PolyFromRows(e.N, in)
			f1 := c02JunkPoly(r, e.N, level-1)
			fb := c02JunkPoly(r, e.N, level)
			d2 := ""
			if c02Panics(func() { c02CallDiv(kind, rl, 1, f0, fb, f1) }) {
				d2 = "out-of-place call panicked"
			} else if !c02RowsEq(c02RowsCopy(f1, level), c02RowsCopy(p, level)) {
				d2 = "in-place result differs from the out-of-place result"
			}
			c.Probe("div_inplace_equals_outofplace", args, "C02/Div/"+kind+"/in-place-chain/differs-from-out-of-place", d2)
			c.Count("rescale-chain:" + kind)
		}
	}
}

// ---- (2) crafted boundary coefficients for the HPS index --------------------------------------------------------------------

// c02CraftedShifted: shifted inputs x' (what ModUpExact sees) of a source chain qs whose y_i hit the boundaries.
func c02CraftedShifted(qs []uint64) []*big.Int {
	Q := c02ProdBig(qs)
	n := len(qs)
	star := make([]*big.Int, n)
	for i, q := range qs {
		star[i] = new(big.Int).Div(Q, c02BigU(q))
	}
	fromY := func(y []uint64) *big.Int {
		s := new(big.Int)
		for i := range y {
			s.Add(s, new(big.Int).Mul(c02BigU(y[i]), star[i]))
		}
		return s.Mod(s, Q)
	}
	var out []*big.Int
	for k := 0; k <= n; k++ {
		y := make([]uint64, n)
		for i := 0; i < k; i++ {
			y[i] = qs[i] - 1
		}
		out = append(out, fromY(y)) // Σ y_i/q_i = k − Σ_{i<k} 1/q_i
		y2 := append([]uint64(nil), y...)
		y2[n-1] = (y2[n-1] + 1) % qs[n-1]
		out = append(out, fromY(y2))
		y3 := make([]uint64, n)
		for i := n - k; i < n; i++ {
			y3[i] = qs[i] - 1
		}
		out = append(out, fromY(y3))
	}
	for _, v := range []int64{0, 1, 2} {
		out = append(out, big.NewInt(v))
		out = append(out, new(big.Int).Sub(Q, big.NewInt(v+1)))
	}
	return out
}

// c02CraftedValues: N coefficients x whose SHIFTED value (x + ⌊Q/2⌋) mod Q cycles through the crafted list.
func c02CraftedValues(c *Ctx, N int, qs []uint64) []*big.Int {
	Q := c02ProdBig(qs)
	half := new(big.Int).Rsh(Q, 1)
	cr := c02CraftedShifted(qs)
	off := c.rng.Intn(len(cr))
	out := make([]*big.Int, N)
	for j := range out {
		x := new(big.Int).Sub(cr[(off+j)%len(cr)], half)
		out[j] = x.Mod(x, Q)
	}
	c.Count("coef:crafted-hps-boundary")
	return out
}

func c02Crafted(c *Ctx, po bool, e *c02Env) {
	if e.ringP == nil {
		return
	}
	ch := e.ch
	be := ring.NewBasisExtender(e.ringQ, e.ringP)
	for _, levelQ := range c02Levels(len(ch.Q)) {
		for levelP := 0; levelP < len(ch.P); levelP++ {
			mQ, mP := ch.Q[:levelQ+1], ch.P[:levelP+1]
			MQ, MP := c02ProdBig(mQ), c02ProdBig(mP)
			for rep := 0; rep < 2; rep++ {
				c02OneModUp(c, po, e, be, "qtop", levelQ, levelP, c02CraftedValues(c, e.N, mQ), "")
				c02OneModUp(c, po, e, be, "ptoq", levelQ, levelP, c02CraftedValues(c, e.N, mP), "")
			}
			// ModDown: the extended residue is the crafted one; the other basis carries a random multiple
			for _, kind := range []string{"qptoq", "qptoqntt", "qptop"} {
				src, Msrc, Mother := mP, MP, MQ
				if kind == "qptop" {
					src, Msrc, Mother = mQ, MQ, MP
				}
				X := c02CraftedValues(c, e.N, src)
				for j := range X {
					m := c02RandBelow(c.rng, Mother)
					X[j] = new(big.Int).Add(X[j], m.Mul(m, Msrc))
				}
				c02OneModDown(c, po, e, be, kind, levelQ, levelP, X, "")
			}
		}
	}
}

// ---- (3) key switch with big primes and many power-of-two digits ----------------------------------------------------------------

func c02KeySwitchBigPrimes(c *Ctx) {
	pool := c02Pool([]int{58, 60, 61}, 6)
	type cfg struct {
		q, p []int
	}
	cfgs := []cfg{{[]int{61, 61}, nil}, {[]int{61, 60, 61}, nil}, {[]int{61, 61}, []int{61}}, {[]int{58, 61, 60}, []int{61}}}
	ws := []int{6, 8, 16}
	for ci, cf := range cfgs {
		used := map[uint64]bool{}
		Q := c02TakePrimes(pool, used, cf.q, c.rng)
		P := c02TakePrimes(pool, used, cf.p, c.rng)
		if len(Q) != len(cf.q) || len(P) != len(cf.p) {
			continue
		}
		for _, w := range ws {
			if !c.Thorough() && (ci+w)%2 == 1 && ci > 1 {
				continue
			}
			params, err := rlwe.NewParametersFromLiteral(rlwe.ParametersLiteral{LogN: 5, Q: Q, P: P, NTTFlag: true})
			if err != nil {
				c.Count("keyswitch-big:param-error")
				continue
			}
			pw2 := w
			d := Try(func() string {
				kgen := rlwe.NewKeyGenerator(params)
				skIn, skOut := kgen.GenSecretKeyNew(), kgen.GenSecretKeyNew()
				evk := kgen.GenEvaluationKeyNew(skIn, skOut, rlwe.EvaluationKeyParameters{BaseTwoDecomposition: &pw2})
				ct := rlwe.NewEncryptor(params, skIn).EncryptZeroNew(params.MaxLevel())
				out := rlwe.NewCiphertext(params, 1, params.MaxLevel())
				if err := rlwe.NewEvaluator(params, nil).ApplyEvaluationKey(ct, evk, out); err != nil {
					return "error"
				}
				pt := rlwe.NewDecryptor(params, skOut).DecryptNew(out)
				rq := params.RingQ().AtLevel(out.Level())
				if pt.IsNTT {
					rq.INTT(pt.Value, pt.Value)
				}
				coeffs := make([]*big.Int, params.N())
				for i := range coeffs {
					coeffs[i] = new(big.Int)
				}
				rq.PolyToBigintCentered(pt.Value, 1, coeffs)
				mx := 0
				for _, v := range coeffs {
					if b := v.BitLen(); b > mx {
						mx = b
					}
				}
				c.Count(fmt.Sprintf("keyswitch-big:w=%d,noise-bits<=%d", w, (mx/8+1)*8))
				// sound: noise ≈ #digits · N · σ · 2^w (no P) — far below 2^(w+32); garbage is ≈ Q ≥ 2^116
				if mx > w+32 {
					return fmt.Sprintf("decryption of a key-switched encryption of 0 has %d-bit coefficients (bound %d, log Q = %d)", mx, w+32, rq.Modulus().BitLen())
				}
				return ""
			})
			c.Probe("keyswitch_bigprimes_pw2", fmt.Sprintf("%s %s %d", Vec(Q), Vec(P), w), "C02/KeySwitch/big-primes-pow2/garbage", d)
		}
	}
}
