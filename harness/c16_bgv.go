package main

// C16, integer scheme: mpbgv EncToShare / ShareToEnc / Refresh / MaskedTransform.

import (
	"fmt"
	"math/big"
	"slices"
	"strings"

	"github.com/tuneinsight/lattigo/v6/core/rlwe"
	"github.com/tuneinsight/lattigo/v6/multiparty"
	"github.com/tuneinsight/lattigo/v6/multiparty/mpbgv"
	"github.com/tuneinsight/lattigo/v6/ring"
	"github.com/tuneinsight/lattigo/v6/schemes/bgv"
)

type c16BGVSet struct {
	c14Set
	bp  bgv.Parameters
	t   uint64
	nT  int
	enc *bgv.Encoder
}

func c16NewBGV(name string, logN int, qbits, pbits []int, t uint64) c16BGVSet {
	base := c14NewSet(name, logN, qbits, pbits)
	bp, err := bgv.NewParametersFromLiteral(bgv.ParametersLiteral{LogN: logN, Q: base.q, P: base.p, PlaintextModulus: t})
	if err != nil {
		panic(fmt.Errorf("c16 bgv params %s: %w", name, err))
	}
	base.params = bp.Parameters
	return c16BGVSet{c14Set: base, bp: bp, t: t, nT: bp.RingT().N(), enc: bgv.NewEncoder(bp)}
}

var c16BGVCache []c16BGVSet

func c16BGVSets() []c16BGVSet {
	if c16BGVCache == nil {
		c16BGVCache = []c16BGVSet{
			c16NewBGV("bgv97", 4, []int{30, 40, 55}, []int{56}, 97),
			c16NewBGV("bgv257noP", 4, []int{40, 30}, nil, 257),
			c16NewBGV("bgv65537", 5, []int{40, 30, 55}, []int{45, 46}, 65537),
			c16NewBGV("bgv97gap", 5, []int{35, 45}, []int{50}, 97), // RingT degree 16 < N = 32
		}
	}
	return c16BGVCache
}

type c16BGVTwin struct {
	e2sNoise, s2eNoise ring.Sampler
	mask               *ring.UniformSampler
}

// c16BGVTwins rebuilds the samplers of a MaskedTransformProtocol / RefreshProtocol from the
// crypto/rand reads of its constructor.  New…: e2s noise, e2s mask, s2e noise.
// ShallowCopy: e2s mask, e2s noise, s2e noise.
func c16BGVTwins(set c16BGVSet, mark int, copied bool, noise ring.DiscreteGaussian) c16BGVTwin {
	iNoise, iMask := 0, 1
	if copied {
		iNoise, iMask = 1, 0
	}
	mk := func(i int) ring.Sampler {
		s, err := ring.NewSampler(TwinPRNG(mark, i), set.params.RingQ(), noise, false)
		if err != nil {
			panic(err)
		}
		return s
	}
	return c16BGVTwin{e2sNoise: mk(iNoise), s2eNoise: mk(2), mask: ring.NewUniformSampler(TwinPRNG(mark, iMask), set.bp.RingT())}
}

// set by c16BGVRefresh: the refused-call probes of the run, executed once the output ciphertext exists
var c16BGVRefusals func(out *rlwe.Ciphertext)

type c16BGVFunc struct {
	name           string
	decode, encode bool
	f              func([]uint64)
	linear         bool
}

func c16BGVFuncs(set c16BGVSet) []c16BGVFunc {
	t := set.t
	rev := func(v []uint64) { slices.Reverse(v) }
	mul3 := func(v []uint64) {
		for i := range v {
			v[i] = v[i] * 3 % t
		}
	}
	rot := func(v []uint64) {
		if len(v) > 1 {
			x := v[0]
			copy(v, v[1:])
			v[len(v)-1] = x
		}
	}
	return []c16BGVFunc{
		{"reverse_dec_enc", true, true, rev, true},
		{"mul3_dec_enc", true, true, mul3, true},
		{"rotate_coeffs", false, false, rot, true},
		{"mul3_dec_only", true, false, mul3, true},
		{"reverse_enc_only", false, true, rev, true},
	}
}

// apply replays Decode → f → Encode of MaskedTransformProtocol on a polynomial of R_t
func (fn *c16BGVFunc) apply(set c16BGVSet, in []uint64, scale rlwe.Scale) []uint64 {
	ringT := set.bp.RingT()
	p := ringT.NewPoly()
	copy(p.Coeffs[0], in)
	coeffs := make([]uint64, len(p.Coeffs[0]))
	if fn.decode {
		if err := set.enc.DecodeRingT(p, scale, coeffs); err != nil {
			panic(err)
		}
	} else {
		copy(coeffs, p.Coeffs[0])
	}
	fn.f(coeffs)
	out := ringT.NewPoly()
	if fn.encode {
		if err := set.enc.EncodeRingT(coeffs, scale, out); err != nil {
			panic(err)
		}
	} else {
		copy(out.Coeffs[0], coeffs)
	}
	return append([]uint64(nil), out.Coeffs[0]...)
}

// c16BGVScratch: ShallowCopy of every mpbgv protocol shares no scratch buffer with the original
func c16BGVScratch(c *Ctx, set c16BGVSet) {
	flood := ring.DiscreteGaussian{Sigma: 3.2, Bound: 19.2}
	e2s, _ := mpbgv.NewEncToShareProtocol(set.bp, flood)
	c14SharedScratch(c, "C16", "mpbgv.EncToShareProtocol", e2s, e2s.ShallowCopy())
	s2e, _ := mpbgv.NewShareToEncProtocol(set.bp, flood)
	c14SharedScratch(c, "C16", "mpbgv.ShareToEncProtocol", s2e, s2e.ShallowCopy())
	mt, _ := mpbgv.NewMaskedTransformProtocol(set.bp, set.bp, flood)
	mc := mt.ShallowCopy()
	c14SharedScratch(c, "C16", "mpbgv.MaskedTransformProtocol", mt, mc)
	c14SharedScratch(c, "C16", "mpbgv.MaskedTransformProtocol(copy_of_copy)", mc, mc.ShallowCopy())
	rf, _ := mpbgv.NewRefreshProtocol(set.bp, flood)
	c14SharedScratch(c, "C16", "mpbgv.RefreshProtocol", rf, rf.ShallowCopy())
}

// c16BGVOutParams: masked transform from parameters with FEWER primes to parameters with MORE primes (same ring degree,
// same t), on the protocol instance and on its ShallowCopy: the output must decrypt to the message under the output key.
func c16BGVOutParams(c *Ctx) {
	in := c16NewBGV("bgvIn2", 4, []int{40, 45}, []int{56}, 97)
	out := c16NewBGV("bgvOut3", 4, []int{42, 44, 46}, []int{55}, 97)
	flood := ring.DiscreteGaussian{Sigma: 3.2, Bound: 19.2}
	p0, err := mpbgv.NewMaskedTransformProtocol(in.bp, out.bp, flood)
	if err != nil {
		panic(err)
	}
	for _, useCopy := range []bool{false, true} {
		p := p0
		if useCopy {
			p = p0.ShallowCopy()
		}
		kIn, kOut := c14GenKeys(in.c14Set, 1), c14GenKeys(out.c14Set, 1)
		coeffs, ct := c16BGVCt(c, in, kIn, in.maxQ(), 1)
		_, crs := c14CRS(c)
		detail := Try(func() string {
			crp := p.SampleCRP(out.maxQ(), crs)
			sh := p.AllocateShare(in.maxQ(), out.maxQ())
			if err := p.GenShare(kIn.sk[0], kOut.sk[0], ct, crp, nil, &sh); err != nil {
				return "GenShare_error"
			}
			res := bgv.NewCiphertext(out.bp, 1, out.maxQ())
			if err := p.Transform(ct, nil, crp, sh, res); err != nil {
				return "Transform_error"
			}
			have := make([]uint64, len(coeffs))
			if err := out.enc.Decode(rlwe.NewDecryptor(out.bp, kOut.ideal).DecryptNew(res), have); err != nil || !slices.Equal(have, coeffs) {
				return "refreshed_message_differs"
			}
			return ""
		})
		c.Probe("transform_out_params", fmt.Sprintf("bgv in=2primes out=3primes shallow_copy=%t", useCopy), "C16-bgv-shallowcopy-tmpPt", detail)
	}
}

func c16BGV(c *Ctx, ns []int) {
	c14Guard(c, "C16-harness-panic", "c16BGVOutParams", func() { c16BGVOutParams(c) })
	for si, set := range c16BGVSets() {
		c14Guard(c, "C16-harness-panic", "c16BGVScratch", func() { c16BGVScratch(c, set) })
		funcs := c16BGVFuncs(set)
		for ni, n := range ns {
			for lin := 0; lin <= set.maxQ(); lin++ {
				if !c.Thorough() && (lin+ni+si)%2 == 1 {
					continue
				}
				lout := c.rng.Intn(set.maxQ() + 1)
				// exactness modulo t needs t·(n·6σ' + ct noise) well below Q/2 at the lowest level involved
				qmin, _ := new(big.Float).SetInt(set.params.RingQ().AtLevel(0).ModulusAtLevel[min(lin, lout)]).Float64()
				sigma := c16PickSigma(c, qmin/(float64(set.t)*float64(n)*256))
				c14Guard(c, "C16-harness-panic", "c16BGVSharing", func() { c16BGVSharing(c, set, n, lin, sigma) })
				c14Guard(c, "C16-harness-panic", "c16BGVRefresh", func() { c16BGVRefresh(c, set, n, lin, lout, sigma, nil, c.rng.Intn(3)) })
				fn := funcs[c.rng.Intn(len(funcs))]
				c14Guard(c, "C16-harness-panic", "c16BGVRefresh", func() { c16BGVRefresh(c, set, n, lin, set.maxQ(), sigma, &fn, c.rng.Intn(3)) })
			}
		}
		for _, n := range []int{1, 3} {
			c14Guard(c, "C16-harness-panic", "c16BGVFlagMatrix", func() { c16BGVFlagMatrix(c, set, n) })
		}
		if c.Thorough() {
			for i := range funcs {
				for lout := 0; lout <= set.maxQ(); lout++ {
					c14Guard(c, "C16-harness-panic", "c16BGVRefresh", func() { c16BGVRefresh(c, set, 3, set.maxQ(), lout, 3.2, &funcs[i], i%3) })
				}
			}
		}
	}
}

// c16BGVCt encrypts a random message under the ideal secret at level lvl with plaintext scale `scale`.
func c16BGVCt(c *Ctx, set c16BGVSet, keys c14Keys, lvl int, scale uint64) (coeffs []uint64, ct *rlwe.Ciphertext) {
	coeffs = make([]uint64, set.bp.MaxSlots())
	for i := range coeffs {
		coeffs[i] = c.rng.Below(set.t)
	}
	pt := bgv.NewPlaintext(set.bp, set.maxQ())
	pt.Scale = rlwe.NewScaleModT(scale, set.t)
	if err := set.enc.Encode(coeffs, pt); err != nil {
		panic(err)
	}
	ct = bgv.NewCiphertext(set.bp, 1, set.maxQ())
	if err := rlwe.NewEncryptor(set.bp, keys.ideal).Encrypt(pt, ct); err != nil {
		panic(err)
	}
	ct.Resize(1, lvl)
	return
}

// c16T: the stored words of a polynomial of R_t (RingQ2T may leave values in [t, 2t): the basis
// extension it uses returns unreduced residues); c16TC: reduced modulo t.
// c16BGVEmbed: NTT(RingT2Q(level, scaleUp, m)) — the mask / share as it is added to a public share.
func c16BGVEmbed(set c16BGVSet, lvl int, m []uint64) ring.Poly {
	pT := set.bp.RingT().NewPoly()
	copy(pT.Coeffs[0], m)
	r := set.params.RingQ().AtLevel(lvl)
	pQ := r.NewPoly()
	set.enc.RingT2Q(lvl, true, pT, pQ)
	r.NTT(pQ, pQ)
	return pQ
}

func c16T(p ring.Poly) []uint64 { return append([]uint64(nil), p.Coeffs[0]...) }

func c16TC(p ring.Poly, t uint64) []uint64 {
	out := c16T(p)
	for i := range out {
		out[i] %= t
	}
	return out
}

// ---------------------------------------------------------------------------------------------
// EncToShare / ShareToEnc

func c16BGVSharing(c *Ctx, set c16BGVSet, n, lvl int, sigma float64) {
	params := set.params
	keys := c14GenKeys(set.c14Set, n)
	flood := ring.DiscreteGaussian{Sigma: sigma, Bound: 6 * sigma}
	noise := c16Noise(params, sigma)
	scale := []uint64{1, 3, 5}[c.rng.Intn(3)]
	coeffs, ct := c16BGVCt(c, set, keys, lvl, scale)
	ringT := set.bp.RingT()

	e2s := make([]mpbgv.EncToShareProtocol, n)
	s2e := make([]mpbgv.ShareToEncProtocol, n)
	type tw struct {
		e2sNoise, s2eNoise ring.Sampler
		mask               *ring.UniformSampler
	}
	twins := make([]tw, n)
	copiedAll := make([]bool, n)
	for i := range e2s {
		mark := RandMark()
		copied := i > 0 && c.rng.Intn(2) == 0
		copiedAll[i] = copied
		var err error
		if !copied {
			if e2s[i], err = mpbgv.NewEncToShareProtocol(set.bp, flood); err != nil {
				panic(err)
			}
		} else {
			e2s[i] = e2s[0].ShallowCopy()
		}
		iNoise, iMask := 0, 1
		if copied {
			iNoise, iMask = 1, 0
		}
		twins[i].e2sNoise, _ = ring.NewSampler(TwinPRNG(mark, iNoise), params.RingQ(), noise, false)
		twins[i].mask = ring.NewUniformSampler(TwinPRNG(mark, iMask), ringT)
		mark = RandMark()
		if !copied {
			if s2e[i], err = mpbgv.NewShareToEncProtocol(set.bp, flood); err != nil {
				panic(err)
			}
		} else {
			s2e[i] = s2e[0].ShallowCopy()
		}
		twins[i].s2eNoise, _ = ring.NewSampler(TwinPRNG(mark, 0), params.RingQ(), noise, false)
	}

	qs := Vec(set.qs(lvl))
	hdr := fmt.Sprintf("%s %d %d", qs, set.n, set.t)
	c1 := Mat(c16QRows(params, ct.Value[1], lvl, true))
	pub := make([]multiparty.KeySwitchShare, n)
	sec := make([]multiparty.AdditiveShare, n)
	rows := make([]string, n)
	for i := range e2s {
		pub[i] = e2s[i].AllocateShare(lvl)
		sec[i] = mpbgv.NewAdditiveShare(set.bp)
		e2s[i].GenShare(keys.sk[i], ct, &sec[i], &pub[i])
		e := c16SampleSigned(params, twins[i].e2sNoise, lvl, false)
		m := ringT.NewPoly()
		twins[i].mask.Read(m)
		c16Record(fmt.Sprintf("bgv_e2s_share ctor=%s sigma=%g", map[bool]string{false: "new", true: "copy"}[copiedAll[i]], sigma),
			c16Residual(params, lvl, true, pub[i].Value, []c16Term{{ct.Value[1], keys.sk[i], 1}}, nil, []ring.Poly{c16BGVEmbed(set, lvl, c16T(sec[i].Value))}))
		if !slices.Equal(c16T(m), c16T(sec[i].Value)) {
			c.Probe("twin_replay", fmt.Sprintf("bgv mask set=%s party=%d", set.name, i), "C16-twin-replay", "twin_mask_differs_from_the_protocol's_secret_share")
			copy(m.Coeffs[0], sec[i].Value.Coeffs[0])
		}
		rows[i] = Mat(c16QRows(params, pub[i].Value, lvl, true))
		c.Emit(fmt.Sprintf("bgv_e2s %s %s %s %s %s", hdr, c1, IVec(keys.s[i]), IVec(e), Vec(c16T(m))), rows[i])
		c.Count("bgv_e2s")
	}
	add := func(x, y multiparty.KeySwitchShare) (multiparty.KeySwitchShare, error) {
		o := e2s[0].AllocateShare(x.Level())
		err := e2s[0].AggregateShares(x, y, &o)
		return o, err
	}
	rt := func(x multiparty.KeySwitchShare) (multiparty.KeySwitchShare, error) {
		b, err := x.MarshalBinary()
		if err != nil {
			return x, err
		}
		var y multiparty.KeySwitchShare
		err = y.UnmarshalBinary(b)
		return y, err
	}
	eq := func(x, y multiparty.KeySwitchShare) bool { return x.Value.Equal(&y.Value) }
	c14OrderProbeKey(c, fmt.Sprintf("bgv_e2s set=%s lvl=%d", set.name, lvl), "C16-agg-order", pub, add, rt, eq)

	t := c14RandTree(c, c14RandPerm(c, n))
	agg, _ := c14Eval(t, pub, add)
	aggRows := Mat(c16QRows(params, agg.Value, lvl, true))
	c.Emit("agg "+qs+" "+t.String()+" "+I(n)+" "+strings.Join(rows, " "), aggRows)

	// party 0 turns the aggregate into its share
	own := mpbgv.NewAdditiveShare(set.bp)
	e2s[0].GetShare(&sec[0], agg, ct, &own)
	c.Emit(fmt.Sprintf("bgv_get %s %d %s %s %s", hdr, set.nT, aggRows, Mat(c16QRows(params, ct.Value[0], lvl, true)), Vec(c16T(sec[0].Value))), Vec(c16TC(own.Value, set.t)))
	c.Count("bgv_get")
	final := append([]multiparty.AdditiveShare{own}, sec[1:]...)

	// e2s_sum: the additive shares sum to the message, exactly mod t
	sum := ringT.NewPoly()
	for i := range final {
		ringT.Add(sum, final[i].Value, sum)
	}
	got := make([]uint64, len(coeffs))
	detail := ""
	if err := set.enc.DecodeRingT(sum, ct.Scale, got); err != nil {
		detail = "decode_error"
	} else if !slices.Equal(got, coeffs) {
		detail = "sum_of_shares_differs_from_message"
	}
	c.Probe("e2s_sum", fmt.Sprintf("bgv set=%s N=%d lvl=%d sigma=%g scale=%d exact_mod_t", set.name, n, lvl, sigma, scale), "C16-bgv-e2s", detail)
	{
		hl := fmt.Sprintf("bgv set=%s lvl=%d", set.name, lvl)
		_, ctB := c16BGVCt(c, set, keys, lvl, scale)
		c16History(c, "mpbgv.EncToShareProtocol.GenShare", hl, func() string { return Vec(c16T(sec[0].Value)) + " " + c16PolySnap(pub[0].Value) }, func() {
			s2, p2 := mpbgv.NewAdditiveShare(set.bp), e2s[0].AllocateShare(lvl)
			e2s[0].GenShare(keys.sk[0], ctB, &s2, &p2)
		})
		c16History(c, "mpbgv.EncToShareProtocol.GetShare", hl, func() string { return Vec(c16T(own.Value)) }, func() {
			o2 := mpbgv.NewAdditiveShare(set.bp)
			e2s[0].GetShare(&sec[0], agg, ctB, &o2)
			e2s[0].GetShare(nil, agg, ctB, &o2)
		})
	}

	// ShareToEnc at every output level
	for lout := 0; lout <= set.maxQ(); lout++ {
		if !c.Thorough() && lout != set.maxQ() && lout != lvl {
			continue
		}
		// the requested flooding must leave room for exactness modulo t at the output level (same rule as c16PickSigma)
		if qf, _ := new(big.Float).SetInt(set.params.RingQ().AtLevel(0).ModulusAtLevel[lout]).Float64(); sigma > qf/(float64(set.t)*float64(n)*256) {
			c.Count("bgv_s2e_level_skipped(flooding exceeds the noise budget at this level)")
			continue
		}
		_, crs := c14CRS(c)
		crp := s2e[0].SampleCRP(lout, crs)
		a := Mat(c16QRows(params, crp.Value, lout, true))
		sh := make([]multiparty.KeySwitchShare, n)
		shRows := make([]string, n)
		hdrO := fmt.Sprintf("%s %d %d", Vec(set.qs(lout)), set.n, set.t)
		for i := range s2e {
			sh[i] = s2e[i].AllocateShare(lout)
			if err := s2e[i].GenShare(keys.sk[i], crp, final[i], &sh[i]); err != nil {
				panic(err)
			}
			e := c16SampleSigned(params, twins[i].s2eNoise, lout, false)
			c16Record(fmt.Sprintf("bgv_s2e_share ctor=%s sigma=%g", map[bool]string{false: "new", true: "copy"}[copiedAll[i]], sigma),
				c16Residual(params, lout, true, sh[i].Value, []c16Term{{crp.Value, keys.sk[i], -1}}, []ring.Poly{c16BGVEmbed(set, lout, c16T(final[i].Value))}, nil))
			shRows[i] = Mat(c16QRows(params, sh[i].Value, lout, true))
			c.Emit(fmt.Sprintf("bgv_s2e %s %s %s %s %s", hdrO, a, IVec(keys.s[i]), IVec(e), Vec(c16T(final[i].Value))), shRows[i])
			c.Count("bgv_s2e")
		}
		addO := func(x, y multiparty.KeySwitchShare) (multiparty.KeySwitchShare, error) {
			o := s2e[0].AllocateShare(x.Level())
			err := s2e[0].AggregateShares(x, y, &o)
			return o, err
		}
		c14OrderProbeKey(c, fmt.Sprintf("bgv_s2e set=%s lvl=%d", set.name, lout), "C16-agg-order", sh, addO, rt, eq)
		aggO, _ := c14Eval(c14RandTree(c, c14RandPerm(c, n)), sh, addO)
		rec := bgv.NewCiphertext(set.bp, 1, lout)
		*rec.MetaData = *ct.MetaData
		detail := ""
		if err := s2e[0].GetEncryption(aggO, crp, rec); err != nil {
			detail = "GetEncryption_error"
		} else {
			have := make([]uint64, len(coeffs))
			if err := set.enc.Decode(rlwe.NewDecryptor(set.bp, keys.ideal).DecryptNew(rec), have); err != nil {
				detail = "decode_error"
			} else if !slices.Equal(have, coeffs) {
				detail = "reencrypted_message_differs"
			} else if rec.Level() != lout {
				detail = "wrong_level"
			}
		}
		if detail == "" {
			// receivers allocated at every level, pre-filled with junk
			var others []*rlwe.Ciphertext
			for r := 0; r <= set.maxQ(); r++ {
				o := c14RandCt(c, params, 1, r)
				*o.MetaData = *ct.MetaData
				if err := s2e[0].GetEncryption(aggO, crp, o); err != nil {
					detail = fmt.Sprintf("GetEncryption_error_receiver_level_%d", r)
					break
				}
				others = append(others, o)
			}
			if detail == "" {
				detail = c16SameCt(rec, others, lout)
			}
		}
		c.Probe("e2s_s2e_id", fmt.Sprintf("bgv set=%s N=%d lvl=%d lout=%d sigma=%g scale=%d", set.name, n, lvl, lout, sigma, scale), "C16-bgv-s2e", detail)
		c16History(c, "mpbgv.ShareToEncProtocol.GenShare", fmt.Sprintf("bgv set=%s lout=%d", set.name, lout), func() string { return c16PolySnap(sh[0].Value) }, func() {
			o := s2e[0].AllocateShare(lout)
			_ = s2e[0].GenShare(keys.sk[0], crp, final[n-1], &o)
			_ = c16SampleSigned(params, twins[0].s2eNoise, lout, false) // keep the twin of party 0's sampler in step
		})
		// refused calls keep their receivers
		lab := fmt.Sprintf("bgv set=%s lout=%d", set.name, lout)
		if ol := c16OtherLevel(set.maxQ(), lout); ol >= 0 {
			crp2 := s2e[0].SampleCRP(ol, crs)
			c14Refused(c, "C16:mpbgv.ShareToEncProtocol.GenShare", "crp_level", lab, func() string { return c16PolySnap(sh[0].Value) },
				func() error { return s2e[0].GenShare(keys.sk[0], crp2, final[0], &sh[0]) })
		}
		deg2 := c14RandCt(c, params, 2, lout)
		c14Refused(c, "C16:mpbgv.ShareToEncProtocol.GetEncryption", "receiver_degree", lab, func() string { return c16CtSnap(deg2) },
			func() error { return s2e[0].GetEncryption(aggO, crp, deg2) })
	}
}

// ---------------------------------------------------------------------------------------------
// Refresh / MaskedTransform.  mode: 0 in place, 1 fresh output with the caller copying the
// MetaData first, 2 fresh output ciphertext as allocated (bgv.NewCiphertext)

func c16BGVRefresh(c *Ctx, set c16BGVSet, n, lin, lout int, sigma float64, fn *c16BGVFunc, mode int) {
	params := set.params
	keys := c14GenKeys(set.c14Set, n)
	flood := ring.DiscreteGaussian{Sigma: sigma, Bound: 6 * sigma}
	noise := c16Noise(params, sigma)
	scale := []uint64{1, 3, 5}[c.rng.Intn(3)]
	coeffs, ct := c16BGVCt(c, set, keys, lin, scale)
	ringT := set.bp.RingT()

	var tf *mpbgv.MaskedTransformFunc
	name := "refresh"
	if fn != nil {
		tf = &mpbgv.MaskedTransformFunc{Decode: fn.decode, Func: fn.f, Encode: fn.encode}
		name = fn.name
	}

	// every way of constructing the protocol: NewMaskedTransformProtocol, NewRefreshProtocol (refresh only), and the
	// ShallowCopy of either
	protos := make([]mpbgv.MaskedTransformProtocol, n)
	twins := make([]c16BGVTwin, n)
	copiedAll := make([]bool, n)
	ctor := make([]string, n)
	var rfp0 *mpbgv.RefreshProtocol
	for i := range protos {
		mark := RandMark()
		copied := i > 0 && c.rng.Intn(2) == 0
		copiedAll[i] = copied
		switch {
		case copied && rfp0 != nil:
			cp := rfp0.ShallowCopy()
			protos[i], ctor[i] = cp.MaskedTransformProtocol, "NewRefreshProtocol.ShallowCopy"
		case copied:
			protos[i], ctor[i] = protos[0].ShallowCopy(), "NewMaskedTransformProtocol.ShallowCopy"
		case fn == nil && (i > 0 || c.rng.Intn(2) == 0):
			r, err := mpbgv.NewRefreshProtocol(set.bp, flood)
			if err != nil {
				panic(err)
			}
			if i == 0 {
				rfp0 = &r
			}
			protos[i], ctor[i] = r.MaskedTransformProtocol, "NewRefreshProtocol"
		default:
			var err error
			if protos[i], err = mpbgv.NewMaskedTransformProtocol(set.bp, set.bp, flood); err != nil {
				panic(err)
			}
			ctor[i] = "NewMaskedTransformProtocol"
		}
		twins[i] = c16BGVTwins(set, mark, copied, noise)
	}
	_, crs := c14CRS(c)
	crp := protos[0].SampleCRP(lout, crs)

	hdrI := fmt.Sprintf("%s %d %d", Vec(set.qs(lin)), set.n, set.t)
	hdrO := fmt.Sprintf("%s %d %d", Vec(set.qs(lout)), set.n, set.t)
	c1 := Mat(c16QRows(params, ct.Value[1], lin, true))
	a := Mat(c16QRows(params, crp.Value, lout, true))

	shares := make([]multiparty.RefreshShare, n)
	rowsE := make([]string, n)
	rowsS := make([]string, n)
	for i := range protos {
		shares[i] = protos[i].AllocateShare(lin, lout)
		if err := protos[i].GenShare(keys.sk[i], keys.sk[i], ct, crp, tf, &shares[i]); err != nil {
			panic(err)
		}
		e1 := c16SampleSigned(params, twins[i].e2sNoise, lin, false)
		e2 := c16SampleSigned(params, twins[i].s2eNoise, lout, false)
		m := ringT.NewPoly()
		twins[i].mask.Read(m)
		mask := c16T(m)
		mask2 := mask
		if fn != nil {
			mask2 = fn.apply(set, mask, ct.Scale)
		}
		c16Record(fmt.Sprintf("bgv_refresh_e2s_share ctor=%s sigma=%g", ctor[i], sigma),
			c16Residual(params, lin, true, shares[i].EncToShareShare.Value, []c16Term{{ct.Value[1], keys.sk[i], 1}}, nil, []ring.Poly{c16BGVEmbed(set, lin, mask)}))
		c16Record(fmt.Sprintf("bgv_refresh_s2e_share ctor=%s sigma=%g", ctor[i], sigma),
			c16Residual(params, lout, true, shares[i].ShareToEncShare.Value, []c16Term{{crp.Value, keys.sk[i], -1}}, []ring.Poly{c16BGVEmbed(set, lout, mask2)}, nil))
		rowsE[i] = Mat(c16QRows(params, shares[i].EncToShareShare.Value, lin, true))
		rowsS[i] = Mat(c16QRows(params, shares[i].ShareToEncShare.Value, lout, true))
		c.Emit(fmt.Sprintf("bgv_e2s %s %s %s %s %s", hdrI, c1, IVec(keys.s[i]), IVec(e1), Vec(mask)), rowsE[i])
		c.Emit(fmt.Sprintf("bgv_s2e %s %s %s %s %s", hdrO, a, IVec(keys.s[i]), IVec(e2), Vec(mask2)), rowsS[i])
		c.Count("bgv_refresh_share")
	}

	add := func(x, y multiparty.RefreshShare) (multiparty.RefreshShare, error) {
		o := protos[0].AllocateShare(lin, lout)
		err := protos[0].AggregateShares(x, y, &o)
		o.MetaData = x.MetaData
		return o, err
	}
	rt := func(x multiparty.RefreshShare) (multiparty.RefreshShare, error) {
		b, err := x.MarshalBinary()
		if err != nil {
			return x, err
		}
		var y multiparty.RefreshShare
		err = y.UnmarshalBinary(b)
		return y, err
	}
	eq := func(x, y multiparty.RefreshShare) bool {
		return x.EncToShareShare.Value.Equal(&y.EncToShareShare.Value) && x.ShareToEncShare.Value.Equal(&y.ShareToEncShare.Value)
	}
	c14OrderProbeKey(c, fmt.Sprintf("bgv_refresh set=%s lin=%d lout=%d", set.name, lin, lout), "C16-agg-order", shares, add, rt, eq)

	t := c14RandTree(c, c14RandPerm(c, n))
	agg, _ := c14Eval(t, shares, add)
	if !agg.MetaData.Equal(ct.MetaData) {
		c.Count("refresh_aggregate_metadata_not_set_by_AggregateShares")
		agg.MetaData = *ct.MetaData
	}
	aggE := Mat(c16QRows(params, agg.EncToShareShare.Value, lin, true))
	aggS := Mat(c16QRows(params, agg.ShareToEncShare.Value, lout, true))
	c.Emit("agg "+Vec(set.qs(lin))+" "+t.String()+" "+I(n)+" "+strings.Join(rowsE, " "), aggE)
	c.Emit("agg "+Vec(set.qs(lout))+" "+t.String()+" "+I(n)+" "+strings.Join(rowsS, " "), aggS)

	c16RefreshMetaProbe(c, fmt.Sprintf("bgv set=%s", set.name), func() error {
		addRaw := func(x, y multiparty.RefreshShare) (multiparty.RefreshShare, error) {
			o := protos[0].AllocateShare(lin, lout)
			return o, protos[0].AggregateShares(x, y, &o)
		}
		ag, err := c14Eval(c14Comb(c14RandPerm(c, n)), shares, addRaw)
		if err != nil {
			return err
		}
		o := bgv.NewCiphertext(set.bp, 1, set.maxQ())
		*o.MetaData = *ct.MetaData
		return protos[0].Transform(ct.CopyNew(), tf, crp, ag, o)
	}, n)

	c16BGVRefusals = func(out *rlwe.Ciphertext) {
		lab := fmt.Sprintf("bgv set=%s lin=%d lout=%d", set.name, lin, lout)
		_, ctB := c16BGVCt(c, set, keys, lin, scale)
		c16History(c, "mpbgv.MaskedTransformProtocol.GenShare", lab, func() string { return c16RefreshSnap(&shares[0]) }, func() {
			o := protos[0].AllocateShare(lin, lout)
			_ = protos[0].GenShare(keys.sk[0], keys.sk[0], ctB, crp, tf, &o)
		})
		c16History(c, "mpbgv.MaskedTransformProtocol.Transform", lab, func() string { return c16CtSnap(out) }, func() {
			o := bgv.NewCiphertext(set.bp, 1, set.maxQ())
			sh := protos[0].AllocateShare(lin, lout)
			_ = protos[0].GenShare(keys.sk[0], keys.sk[0], ctB, crp, tf, &sh)
			_ = protos[0].Transform(ctB, tf, crp, sh, o)
		})
		aggSnap := func() string { return c16RefreshSnap(&agg) }
		shSnap := func() string { return c16RefreshSnap(&shares[0]) }
		outSnap := func() string { return c16CtSnap(out) }
		if ol := c16OtherLevel(set.maxQ(), lin); ol >= 0 {
			bad := protos[0].AllocateShare(ol, lout)
			c14Refused(c, "C16:mpbgv.MaskedTransformProtocol.AggregateShares", "e2s_level", lab, aggSnap, func() error { return protos[0].AggregateShares(bad, shares[0], &agg) })
		}
		if ol := c16OtherLevel(set.maxQ(), lout); ol >= 0 {
			bad := protos[0].AllocateShare(lin, ol)
			c14Refused(c, "C16:mpbgv.MaskedTransformProtocol.AggregateShares", "s2e_level", lab, aggSnap, func() error { return protos[0].AggregateShares(shares[0], bad, &agg) })
			crp2 := protos[0].SampleCRP(ol, crs)
			c14Refused(c, "C16:mpbgv.MaskedTransformProtocol.GenShare", "crs_level", lab, shSnap, func() error { return protos[0].GenShare(keys.sk[0], keys.sk[0], ct, crp2, tf, &shares[0]) })
			c14Refused(c, "C16:mpbgv.MaskedTransformProtocol.Transform", "crs_level", lab, outSnap, func() error { return protos[0].Transform(ct.CopyNew(), tf, crp2, agg, out) })
		}
		if lin > 0 {
			low := ct.CopyNew()
			low.Resize(1, lin-1)
			c14Refused(c, "C16:mpbgv.MaskedTransformProtocol.GenShare", "ct_below_share_level", lab, shSnap, func() error { return protos[0].GenShare(keys.sk[0], keys.sk[0], low, crp, tf, &shares[0]) })
			c14Refused(c, "C16:mpbgv.MaskedTransformProtocol.Transform", "ct_below_share_level", lab, outSnap, func() error { return protos[0].Transform(low, tf, crp, agg, out) })
		}
		other := agg
		other.MetaData.Scale = rlwe.NewScaleModT(7, set.t)
		c14Refused(c, "C16:mpbgv.MaskedTransformProtocol.Transform", "metadata", lab, outSnap, func() error { return protos[0].Transform(ct.CopyNew(), tf, crp, other, out) })
	}

	// the masked plaintext the finalisation works on (pure function of public values)
	e2s, _ := mpbgv.NewEncToShareProtocol(set.bp, flood)
	maskedShare := mpbgv.NewAdditiveShare(set.bp)
	e2s.GetShare(nil, agg.EncToShareShare, ct, &maskedShare)
	masked := c16T(maskedShare.Value)
	for _, x := range masked {
		if x >= set.t {
			c.Count("bgv_masked_plaintext_word_not_reduced_mod_t")
			break
		}
	}

	c0 := Mat(c16QRows(params, ct.Value[0], lin, true))
	var out *rlwe.Ciphertext
	switch mode {
	case 0:
		out = ct.CopyNew()
	case 1:
		out = bgv.NewCiphertext(set.bp, 1, set.maxQ())
		*out.MetaData = *ct.MetaData
	default:
		out = bgv.NewCiphertext(set.bp, 1, set.maxQ())
	}
	in := ct
	if mode == 0 {
		in = out
	}
	// the (transformed) masked plaintext as the code re-embeds it (stored words)
	fTok := Vec(masked)
	if fn != nil {
		fTok = Vec(fn.apply(set, masked, ct.Scale)) // (before fixes/C16-3 the code used the output's scale)
	}
	res := Try(func() string {
		if err := protos[0].Transform(in, tf, crp, agg, out); err != nil {
			return "err"
		}
		return Vec(c16TC(maskedShare.Value, set.t)) + "|" + Mat(c16QRows(params, out.Value[0], lout, true)) + "|" + Mat(c16QRows(params, out.Value[1], lout, true))
	})
	c.Emit(fmt.Sprintf("bgv_fin %s %s %d %d %d %s %s %s %s %s", Vec(set.qs(lin)), Vec(set.qs(lout)), set.n, set.t, set.nT, aggE, c0, aggS, a, fTok), res)
	c.Count("bgv_fin")

	// expected plaintext polynomial of R_t: Encode?(f(Decode?(m)))
	ptIn := bgv.NewPlaintext(set.bp, set.maxQ())
	ptIn.Scale = ct.Scale
	_ = set.enc.Encode(coeffs, ptIn)
	mT := ringT.NewPoly()
	tmp := params.RingQ().NewPoly()
	params.RingQ().INTT(ptIn.Value, tmp)
	set.enc.RingQ2T(set.maxQ(), true, tmp, mT)
	want := c16TC(mT, set.t)
	if fn != nil {
		want = fn.apply(set, want, ct.Scale)
		for i := range want {
			want[i] %= set.t
		}
	}
	detail := Try(func() string {
		if res == "err" || res == "panic" {
			return "Transform_" + res
		}
		if out.Level() != lout {
			return fmt.Sprintf("level=%d_want=%d", out.Level(), lout)
		}
		dec := rlwe.NewDecryptor(set.bp, keys.ideal).DecryptNew(out)
		params.RingQ().AtLevel(lout).INTT(dec.Value, dec.Value)
		gotT := ringT.NewPoly()
		set.enc.RingQ2T(lout, true, dec.Value, gotT)
		if !slices.Equal(c16TC(gotT, set.t), want) {
			return "output_plaintext_differs_from_expected"
		}
		if out.Scale.Cmp(ct.Scale) != 0 {
			return "output_scale_differs_from_input_scale"
		}
		// receivers allocated at every level, pre-filled with junk: same output at the CRP's level
		var others []*rlwe.Ciphertext
		for r := 0; r <= set.maxQ(); r++ {
			o := c14RandCt(c, params, 1, r)
			if err := protos[0].Transform(ct.CopyNew(), tf, crp, agg, o); err != nil {
				return fmt.Sprintf("Transform_error_receiver_level_%d", r)
			}
			others = append(others, o)
		}
		if d := c16SameCt(out, others, lout); d != "" {
			return d
		}
		if fn == nil {
			have := make([]uint64, len(coeffs))
			if err := set.enc.Decode(rlwe.NewDecryptor(set.bp, keys.ideal).DecryptNew(out), have); err != nil || !slices.Equal(have, coeffs) {
				return "decoded_message_differs"
			}
		}
		return ""
	})
	probe := "refresh_roundtrip"
	key := "C16-bgv-refresh"
	if fn != nil {
		probe = "transform_applies_f"
		key = "C16-bgv-transform"
	}
	if mode == 2 && scale != 1 {
		key = "C16-bgv-transform-metadata"
	}
	c.Probe(probe, fmt.Sprintf("bgv set=%s f=%s N=%d lin=%d lout=%d sigma=%g scale=%d out=%s", set.name, name, n, lin, lout, sigma, scale,
		[]string{"in_place", "fresh_with_metadata", "fresh_as_allocated"}[mode]), key, detail)
	if detail == "" && mode != 0 {
		c16BGVRefusals(out)
	}
}

// ---------------------------------------------------------------------------------------------
// masked transform over all (Decode, Encode) × input IsBatched

// c16BGVFlagMatrix runs the n-party masked transform for every combination of transform.Decode,
// transform.Encode (and transform = nil) and of the input's IsBatched flag (slot-encoded and
// coefficient-encoded messages), with plaintext scales 1 and ≠ 1.  As documented the output carries the
// MetaData of the input (scale, encoding flag, dimensions) and its plaintext polynomial of R_t is
// Encode?(f(Decode?(m))) for the input's plaintext polynomial m; when nothing is transformed the message
// decoded through the API with the returned metadata is the input message.
func c16BGVFlagMatrix(c *Ctx, set c16BGVSet, n int) {
	params := set.params
	keys := c14GenKeys(set.c14Set, n)
	flood := ring.DiscreteGaussian{Sigma: 3.2, Bound: 19.2}
	ringT := set.bp.RingT()
	lin := set.maxQ()
	funcs := c16BGVFuncs(set)
	type tfc struct {
		name           string
		isNil          bool
		decode, encode bool
		f              func([]uint64)
	}
	tfs := []tfc{{name: "nil", isNil: true}}
	for _, d := range []bool{false, true} {
		for _, e := range []bool{false, true} {
			fn := funcs[c.rng.Intn(len(funcs))]
			tfs = append(tfs, tfc{name: fmt.Sprintf("Decode=%t,Encode=%t,f=%s", d, e, strings.Split(fn.name, "_")[0]), decode: d, encode: e, f: fn.f})
		}
	}
	crs := c16PRNG(c.rng.Bytes(32))
	for _, batched := range []bool{true, false} {
		for _, scale := range []uint64{1, 3 + c.rng.Below(set.t-3)} {
			msg := make([]uint64, set.bp.MaxSlots())
			for i := range msg {
				msg[i] = c.rng.Below(set.t)
			}
			pt := bgv.NewPlaintext(set.bp, lin)
			pt.Scale = rlwe.NewScaleModT(scale, set.t)
			pt.IsBatched = batched
			if err := set.enc.Encode(msg, pt); err != nil {
				panic(err)
			}
			ct := bgv.NewCiphertext(set.bp, 1, lin)
			if err := rlwe.NewEncryptor(set.bp, keys.ideal).Encrypt(pt, ct); err != nil {
				panic(err)
			}
			mdIn := *ct.MetaData
			// the input's plaintext polynomial of R_t
			mT := ringT.NewPoly()
			tmp := params.RingQ().NewPoly()
			params.RingQ().INTT(pt.Value, tmp)
			set.enc.RingQ2T(lin, true, tmp, mT)
			m := c16TC(mT, set.t)
			for _, t := range tfs {
				lout := c.rng.Intn(set.maxQ() + 1)
				var tf *mpbgv.MaskedTransformFunc
				want := m
				if !t.isNil {
					tf = &mpbgv.MaskedTransformFunc{Decode: t.decode, Func: t.f, Encode: t.encode}
					fn := c16BGVFunc{t.name, t.decode, t.encode, t.f, true}
					want = fn.apply(set, m, ct.Scale)
					for i := range want {
						want[i] %= set.t
					}
				}
				label := fmt.Sprintf("bgv set=%s N=%d lin=%d lout=%d scale=%d input_IsBatched=%t transform=%s", set.name, n, lin, lout, scale, batched, t.name)
				detail := Try(func() string {
					proto, err := mpbgv.NewMaskedTransformProtocol(set.bp, set.bp, flood)
					if err != nil {
						return "constructor_error"
					}
					crp := proto.SampleCRP(lout, crs)
					var acc multiparty.RefreshShare
					for i := 0; i < n; i++ {
						p := proto
						if i > 0 {
							p = proto.ShallowCopy()
						}
						sh := p.AllocateShare(lin, lout)
						if err := p.GenShare(keys.sk[i], keys.sk[i], ct, crp, tf, &sh); err != nil {
							return "GenShare_error:" + strings.ReplaceAll(err.Error(), " ", "_")
						}
						if i == 0 {
							acc = sh
						} else if err := p.AggregateShares(acc, sh, &acc); err != nil {
							return "AggregateShares_error:" + strings.ReplaceAll(err.Error(), " ", "_")
						}
					}
					out := bgv.NewCiphertext(set.bp, 1, set.maxQ())
					// the receiver arrives with the opposite flag and another scale: nothing of its metadata may survive
					out.IsBatched = !batched
					out.Scale = rlwe.NewScaleModT(2, set.t)
					ctIn := ct.CopyNew()
					if err := proto.Transform(ctIn, tf, crp, acc, out); err != nil {
						return "Transform_error:" + strings.ReplaceAll(err.Error(), " ", "_")
					}
					if !ctIn.MetaData.Equal(&mdIn) || !ctIn.Equal(ct) {
						return "Transform_modified_the_input_ciphertext"
					}
					if out.IsBatched != mdIn.IsBatched {
						return fmt.Sprintf("output_IsBatched=%t_want_the_input's_%t", out.IsBatched, mdIn.IsBatched)
					}
					if out.LogDimensions != mdIn.LogDimensions {
						return fmt.Sprintf("output_LogDimensions=%v_want_%v", out.LogDimensions, mdIn.LogDimensions)
					}
					if out.Scale.Cmp(mdIn.Scale) != 0 {
						return "output_Scale_differs_from_the_input's"
					}
					if out.IsNTT != mdIn.IsNTT || out.IsMontgomery != mdIn.IsMontgomery {
						return "output_IsNTT/IsMontgomery_differ_from_the_input's"
					}
					if out.Level() != lout {
						return fmt.Sprintf("output_level=%d_want_%d", out.Level(), lout)
					}
					dec := rlwe.NewDecryptor(set.bp, keys.ideal).DecryptNew(out)
					pq := params.RingQ().AtLevel(lout).NewPoly()
					params.RingQ().AtLevel(lout).INTT(dec.Value, pq)
					gotT := ringT.NewPoly()
					set.enc.RingQ2T(lout, true, pq, gotT)
					if !slices.Equal(c16TC(gotT, set.t), want) {
						return "output_plaintext_polynomial_differs_from_Encode?(f(Decode?(m)))"
					}
					// through the API with the metadata as returned
					have := make([]uint64, len(msg))
					if err := set.enc.Decode(dec, have); err != nil {
						return "decode_error_with_the_returned_metadata"
					}
					wantMsg := append([]uint64(nil), msg...)
					switch {
					case t.isNil:
					case t.decode == t.encode && (t.decode == batched):
						// f acts on the message vector itself
						t.f(wantMsg)
					default:
						return ""
					}
					if !slices.Equal(have, wantMsg) {
						return "message_decoded_with_the_returned_metadata_differs_from_f(message)"
					}
					return ""
				})
				c.Probe("transform_flag_matrix", label, "C16-bgv-transform-flags", detail)
			}
		}
	}
}
