package main

// C02 — RNS basis extension, rescaling and gadget decomposition match integer division.
//
// Tie lines (model must reproduce every limb):  div <8 kinds>, modupexact, modup qtop|ptoq,
// moddown qptoq|qptop, moddownntt, decomp, mask, extsmall, extsmallntt, int floor|round|hps|pow2.
// Probes (property predicates on the real code against a math/big reference): c02_probes.go.

import (
	"fmt"
	"math/big"
	"math/bits"
	"os"
	"path/filepath"
	"regexp"
	"strconv"
	"strings"

	"github.com/tuneinsight/lattigo/v6/ring"
)

func init() { register("C02", genC02) }

// ---- primes ---------------------------------------------------------------------------------

// c02Pool returns, per bit size, NTT-friendly primes (≡ 1 mod 64, usable for N = 16 and N = 32).
func c02Pool(sizes []int, per int) map[int][]uint64 {
	pool := map[int][]uint64{}
	for _, b := range sizes {
		g := ring.NewNTTFriendlyPrimesGenerator(uint64(b), 64)
		for len(pool[b]) < per {
			p, err := g.NextDownstreamPrime()
			if err != nil {
				break
			}
			if bits.Len64(p) == b {
				pool[b] = append(pool[b], p)
			}
		}
	}
	return pool
}

type c02Chain struct {
	Q, P []uint64
	tag  string
}

// c02TakePrimes draws distinct primes with the requested bit sizes.
func c02TakePrimes(pool map[int][]uint64, used map[uint64]bool, sizes []int, r *SplitMix) []uint64 {
	var out []uint64
	for _, b := range sizes {
		cands := pool[b]
		start := r.Intn(len(cands))
		for k := 0; k < len(cands); k++ {
			p := cands[(start+k)%len(cands)]
			if !used[p] {
				used[p] = true
				out = append(out, p)
				break
			}
		}
	}
	return out
}

var c02Sizes = []int{20, 25, 30, 36, 40, 45, 50, 55, 58, 60, 61}

func c02Chains(c *Ctx, pool map[int][]uint64) []c02Chain {
	r := c.rng
	var chains []c02Chain
	add := func(tag string, qs, ps []int) {
		used := map[uint64]bool{}
		Q := c02TakePrimes(pool, used, qs, r)
		P := c02TakePrimes(pool, used, ps, r)
		if len(Q) == len(qs) && len(P) == len(ps) {
			chains = append(chains, c02Chain{Q: Q, P: P, tag: tag})
		}
	}
	// fixed corner chains
	add("max61", []int{61, 61, 61, 61, 61}, []int{61, 61, 61})
	add("min20", []int{20, 20, 20}, []int{20, 20})
	add("bigQsmallP", []int{60, 55, 61, 58}, []int{20, 25})
	add("smallQbigP", []int{20, 25, 30}, []int{61, 60, 61})
	add("lastbig", []int{20, 30, 61}, []int{45})
	add("lastsmall", []int{61, 60, 20}, []int{61})
	add("noP", []int{45, 36, 50, 40}, nil)
	add("single", []int{55}, []int{61})
	add("single-noP", []int{61}, nil)
	if c.Thorough() {
		// range side-conditions of multSum: many 60/61-bit primes
		add("wide61", []int{61, 61, 61, 61, 61, 60, 60, 60, 61, 61, 60, 61}, []int{61, 60, 61, 60})
	}
	// random mixed chains: #Q 1..5, #P 0..3
	n := c.Scale(3, 36)
	for k := 0; k < n; k++ {
		nq := 1 + r.Intn(5)
		np := r.Intn(4)
		qs := make([]int, nq)
		ps := make([]int, np)
		for i := range qs {
			qs[i] = c02Sizes[r.Intn(len(c02Sizes))]
		}
		for i := range ps {
			ps[i] = c02Sizes[r.Intn(len(c02Sizes))]
		}
		add(fmt.Sprintf("rnd%d", k), qs, ps)
	}
	return chains
}

// c02Levels: every level of a chain of up to 6 moduli; the two ends of a longer one.
func c02Levels(n int) []int {
	var out []int
	for l := 0; l < n; l++ {
		if n <= 6 || l < 2 || l >= n-2 {
			out = append(out, l)
		}
	}
	return out
}

// ---- big.Int helpers --------------------------------------------------------------------------

func c02BigU(x uint64) *big.Int { return new(big.Int).SetUint64(x) }

func c02ProdBig(m []uint64) *big.Int {
	p := big.NewInt(1)
	for _, q := range m {
		p.Mul(p, c02BigU(q))
	}
	return p
}

// c02RowsOf returns the residue rows of the integer vector X modulo every modulus.
func c02RowsOf(X []*big.Int, moduli []uint64) [][]uint64 {
	rows := make([][]uint64, len(moduli))
	t := new(big.Int)
	for i, q := range moduli {
		rows[i] = make([]uint64, len(X))
		qb := c02BigU(q)
		for j, x := range X {
			rows[i][j] = t.Mod(x, qb).Uint64()
		}
	}
	return rows
}

// c02CrtOf reconstructs, per coefficient, the integer in [0, Π moduli) from (reduced or not) residue rows.
func c02CrtOf(rows [][]uint64, moduli []uint64) []*big.Int {
	M := c02ProdBig(moduli)
	n := len(rows[0])
	out := make([]*big.Int, n)
	coef := make([]*big.Int, len(moduli))
	for i, q := range moduli {
		Mi := new(big.Int).Div(M, c02BigU(q))
		inv := new(big.Int).ModInverse(new(big.Int).Mod(Mi, c02BigU(q)), c02BigU(q))
		coef[i] = Mi.Mul(Mi, inv)
	}
	for j := 0; j < n; j++ {
		acc := new(big.Int)
		for i := range moduli {
			acc.Add(acc, new(big.Int).Mul(coef[i], c02BigU(rows[i][j])))
		}
		out[j] = acc.Mod(acc, M)
	}
	return out
}

func c02RandBelow(r *SplitMix, M *big.Int) *big.Int {
	nb := (M.BitLen() + 71) / 8
	return new(big.Int).Mod(new(big.Int).SetBytes(r.Bytes(nb)), M)
}

// c02FamValues builds N integers in [0, M) cycling through the boundary families of the property:
// uniform, 0, M-1, small, multiples of D, kD±{0..3}, kD+D/2±{0,1}, ±M/2, M/4±1 (D = divisor, may be nil).
func c02FamValues(c *Ctx, N int, M, D *big.Int) []*big.Int {
	r := c.rng
	one := big.NewInt(1)
	half := new(big.Int).Rsh(M, 1)
	quarter := new(big.Int).Rsh(M, 2)
	var fam []func() *big.Int
	add := func(name string, f func() *big.Int) {
		fam = append(fam, func() *big.Int { c.Count("coef:" + name); return f() })
	}
	add("uniform", func() *big.Int { return c02RandBelow(r, M) })
	add("zero", func() *big.Int { return new(big.Int) })
	add("M-1", func() *big.Int { return new(big.Int).Sub(M, one) })
	add("small+", func() *big.Int { return big.NewInt(int64(r.Intn(8))) })
	add("small-", func() *big.Int { return new(big.Int).Sub(M, big.NewInt(int64(1+r.Intn(8)))) })
	for _, d := range []int64{-1, 0, 1} {
		d := d
		add("M/2"+fmt.Sprintf("%+d", d), func() *big.Int { return new(big.Int).Add(half, big.NewInt(d)) })
		add("M/4"+fmt.Sprintf("%+d", d), func() *big.Int { return new(big.Int).Add(quarter, big.NewInt(d)) })
		add("3M/4"+fmt.Sprintf("%+d", d), func() *big.Int {
			return new(big.Int).Add(new(big.Int).Sub(M, quarter), big.NewInt(d))
		})
	}
	if D != nil && D.Cmp(M) < 0 {
		K := new(big.Int).Div(M, D)
		kD := func() *big.Int {
			k := c02RandBelow(r, K)
			if r.Intn(4) == 0 {
				k = new(big.Int).Sub(K, one) // the last multiple below M
			}
			return k.Mul(k, D)
		}
		dh := new(big.Int).Rsh(D, 1)
		for _, d := range []int64{-3, -2, -1, 0, 1, 2, 3} {
			d := d
			add("kD"+fmt.Sprintf("%+d", d), func() *big.Int { v := kD(); return v.Add(v, big.NewInt(d)) })
		}
		for _, d := range []int64{-1, 0, 1, 2} {
			d := d
			add("kD+D/2"+fmt.Sprintf("%+d", d), func() *big.Int {
				v := kD()
				v.Add(v, dh)
				return v.Add(v, big.NewInt(d))
			})
		}
	}
	out := make([]*big.Int, N)
	off := r.Intn(len(fam))
	for j := range out {
		var v *big.Int
		if r.Intn(5) == 0 {
			v = fam[0]()
		} else {
			v = fam[(off+j)%len(fam)]()
		}
		out[j] = v.Mod(v, M)
	}
	return out
}

// uniformValues: all coefficients uniform (or all 0 / all M-1)
func c02ConstValues(N int, v *big.Int) []*big.Int {
	out := make([]*big.Int, N)
	for j := range out {
		out[j] = new(big.Int).Set(v)
	}
	return out
}

func c02PolyFromRows(N int, rows [][]uint64) ring.Poly {
	p := ring.NewPoly(N, len(rows)-1)
	for i := range rows {
		copy(p.Coeffs[i], rows[i])
	}
	return p
}

func c02RowsCopy(p ring.Poly, n int) [][]uint64 {
	out := make([][]uint64, n)
	for i := 0; i < n; i++ {
		out[i] = append([]uint64(nil), p.Coeffs[i]...)
	}
	return out
}

func c02EqVec(a, b []uint64) bool {
	if len(a) != len(b) {
		return false
	}
	for i := range a {
		if a[i] != b[i] {
			return false
		}
	}
	return true
}

func c02RowsEq(a, b [][]uint64) bool {
	if len(a) != len(b) {
		return false
	}
	for i := range a {
		if !c02EqVec(a[i], b[i]) {
			return false
		}
	}
	return true
}

func c02PrimRoots(rg *ring.Ring) []uint64 {
	g := make([]uint64, len(rg.SubRings))
	for i, s := range rg.SubRings {
		g[i] = s.PrimitiveRoot
	}
	return g
}

func c02JunkPoly(r *SplitMix, N, level int) ring.Poly {
	p := ring.NewPoly(N, level)
	for i := range p.Coeffs {
		for j := range p.Coeffs[i] {
			p.Coeffs[i][j] = r.U64() >> 4
		}
	}
	return p
}

// ---- generator --------------------------------------------------------------------------------

func genC02(c *Ctx) {
	po := probesOnly()
	r := c.rng
	pool := c02Pool(c02Sizes, 12)
	chains := c02Chains(c, pool)
	for ci, ch := range chains {
		N := []int{16, 32, 8}[ci%3] // 8 is the smallest degree ring.NewRing accepts (N < 16: the non-unrolled NTT)
		ringQ, err := ring.NewRing(N, ch.Q)
		if err != nil {
			c.Count("ring-error")
			continue
		}
		var ringP *ring.Ring
		if len(ch.P) > 0 {
			if ringP, err = ring.NewRing(N, ch.P); err != nil {
				c.Count("ring-error")
				continue
			}
		}
		c.Count(fmt.Sprintf("chain:#Q=%d,#P=%d", len(ch.Q), len(ch.P)))
		for _, q := range append(append([]uint64{}, ch.Q...), ch.P...) {
			c.Count(fmt.Sprintf("prime-bits:%d", bits.Len64(q)))
		}
		e := c02NewEnv(N, ringQ, ringP, ch)
		// every real-code call below is individually guarded; this is the safety net for anything else
		// (constructors, helpers): a panic becomes a failing probe, never a dead harness
		guard := func(section string, f func()) {
			if c02Panics(f) {
				c.Probe("no_panic", section+" chain="+ch.tag, "C02/"+section+"/panic", "section panicked outside a guarded call")
			}
		}
		guard("Div", func() { c02Div(c, po, e) })
		if ringP != nil {
			guard("BasisExtender", func() { c02BasisExt(c, po, e) })
		}
		guard("Decomposer", func() { c02Decomp(c, po, e) })
		guard("History", func() { c02History(c, po, e) })
		guard("OverAllocated", func() { c02OverAllocated(c, po, e) })
		guard("RescaleChain", func() { c02RescaleChain(c, po, e) })
		guard("CraftedHPS", func() { c02Crafted(c, po, e) })
		if ringP != nil {
			guard("SmallNorm", func() { c02Small(c, po, N, ringQ, ringP, ch) })
		}
		if len(ch.Q) <= 6 {
			guard("DecomposeNTT", func() { c02DecompNTT(c, po, ch) })
			if c.Thorough() || ci%2 == 0 {
				guard("Evaluator.ModDown", func() { c02EvalModDown(c, po, ch) })
			}
			// conjugate-invariant twins (primes are = 1 mod 64 = 4N for N <= 16)
			guard("ConjugateInvariant", func() { c02CI(c, po, ch, []int{8, 16}[ci%2]) })
		}
	}
	top := func(section string, f func()) {
		if c02Panics(f) {
			c.Probe("no_panic", section, "C02/"+section+"/panic", "section panicked")
		}
	}
	top("MaskVec", func() { c02Mask(c, po, pool) })
	top("IntSpec", func() { c02Int(c, po, pool) })
	top("KeySwitch", func() { c02KeySwitchNoP(c) })
	top("DigitCount", func() { c02DigitCount(c) })
	top("GadgetVector", func() { c02Gadget(c, po, pool) })
	top("KeySwitchBigPrimes", func() { c02KeySwitchBigPrimes(c) })
	_ = r
}

// ---- Div*ByLastModulus* -------------------------------------------------------------------------

var c02DivKinds = []string{"floor", "floorntt", "round", "roundntt", "floormany", "floormanyntt", "roundmany", "roundmanyntt"}

func c02CallDiv(kind string, rl *ring.Ring, nb int, p0, buff, p1 ring.Poly) {
	switch kind {
	case "floor":
		rl.DivFloorByLastModulus(p0, p1)
	case "floorntt":
		rl.DivFloorByLastModulusNTT(p0, buff, p1)
	case "round":
		rl.DivRoundByLastModulus(p0, p1)
	case "roundntt":
		rl.DivRoundByLastModulusNTT(p0, buff, p1)
	case "floormany":
		rl.DivFloorByLastModulusMany(nb, p0, buff, p1)
	case "floormanyntt":
		rl.DivFloorByLastModulusManyNTT(nb, p0, buff, p1)
	case "roundmany":
		rl.DivRoundByLastModulusMany(nb, p0, buff, p1)
	case "roundmanyntt":
		rl.DivRoundByLastModulusManyNTT(nb, p0, buff, p1)
	}
}

func c02Div(c *Ctx, po bool, e *c02Env) {
	r := c.rng
	N, ringQ, ch := e.N, e.ringQ, e.ch
	gs := e.gQ
	for _, level := range c02Levels(len(ch.Q)) {
		rl := ringQ.AtLevel(level)
		moduli := ch.Q[:level+1]
		M := c02ProdBig(moduli)
		D := c02BigU(ch.Q[level])
		for _, kind := range c02DivKinds {
			many := strings.Contains(kind, "many")
			nbs := []int{1}
			if many {
				nbs = nil
				for nb := 0; nb <= level; nb++ {
					nbs = append(nbs, nb)
				}
			} else if level == 0 {
				continue
			}
			for _, nb := range nbs {
				reps := c.Scale(1, 3)
				for rep := 0; rep < reps; rep++ {
					var X []*big.Int
					switch {
					case rep == 0:
						X = c02FamValues(c, N, M, D)
					case r.Intn(3) == 0:
						X = c02ConstValues(N, new(big.Int).Sub(M, big.NewInt(1)))
					default:
						X = c02FamValues(c, N, M, new(big.Int).Mul(D, c02BigU(ch.Q[(level+len(ch.Q)-1)%len(ch.Q)])))
					}
					c02OneDiv(c, po, e, rl, kind, level, nb, X, "")
				}
				if nb > 0 {
					for _, X := range c02DivInputs(c, N, M, D)[1:] {
						c02OneDiv(c, po, e, rl, kind, level, nb, X, "")
					}
				}
			}
		}
		// malformed: unreduced limbs (lazy 2q range and full 64-bit words) — tie only, the model follows the
		// uint64 wrap-around of the code
		if !po && level >= 1 {
			for _, kind := range c02DivKinds {
				if strings.Contains(kind, "many") && level < 2 {
					continue
				}
				nb := 1
				if strings.Contains(kind, "many") {
					nb = 2
				}
				p0 := ring.NewPoly(N, level)
				full := r.Intn(2) == 0
				for i := range p0.Coeffs {
					for j := range p0.Coeffs[i] {
						if full {
							p0.Coeffs[i][j] = r.U64()
						} else {
							p0.Coeffs[i][j] = r.Below(2 * ch.Q[i])
						}
					}
				}
				in := c02RowsCopy(p0, level+1)
				buff := c02JunkPoly(r, N, level)
				p1 := c02JunkPoly(r, N, level-nb)
				line := fmt.Sprintf("div %s %d %s %s %d %d %s", kind, N, Vec(ringQ.ModuliChain()), Vec(gs), level, nb, Mat(in))
				out := Try(func() string {
					c02CallDiv(kind, rl, nb, p0, buff, p1)
					return Mat(c02RowsCopy(p1, level-nb+1)) + "|" + Mat(c02RowsCopy(p0, level+1))
				})
				c.Emit(line, out)
				c.Count("div:malformed-unreduced-limbs")
			}
		}
		// malformed: more rescalings than levels -> AtLevel(-1) panics
		if !po && level <= 2 {
			for _, kind := range []string{"floormany", "floormanyntt", "roundmany", "roundmanyntt"} {
				nb := level + 1 + r.Intn(2)
				if nb == 1 && (kind == "floormany" || kind == "roundmany" || kind == "roundmanyntt") {
					nb = 2 // nbRescales = 1 at level 0 is a silent no-op in these three
				}
				X := c02FamValues(c, N, M, D)
				p0 := c02PolyFromRows(N, c02RowsOf(X, moduli))
				in := c02RowsCopy(p0, level+1)
				buff := c02JunkPoly(r, N, level)
				p1 := c02JunkPoly(r, N, level)
				line := fmt.Sprintf("div %s %d %s %s %d %d %s", kind, N, Vec(ringQ.ModuliChain()), Vec(gs), level, nb, Mat(in))
				out := Try(func() string {
					c02CallDiv(kind, ringQ.AtLevel(level), nb, p0, buff, p1)
					return "no-panic"
				})
				c.Emit(line, out)
				c.Count("div:malformed-nbRescales>level")
			}
		}
	}
}

// c02DocK is the k of "returned values are in [0, kP-1]" in the doc comment of ring.ModUpExact (read from the
// source under test; 2 if the comment cannot be parsed).
var c02DocK = func() int64 {
	b, err := os.ReadFile(filepath.Join(repoPath(), "ring/basis_extension.go"))
	if err == nil {
		if m := regexp.MustCompile(`returned values are in \[0, (\d+)P-1\]`).FindSubmatch(b); m != nil {
			k, _ := strconv.ParseInt(string(m[1]), 10, 64)
			return k
		}
	}
	return 2
}()

// c02ModUpBound: the documented upper bound of a ModUpExact output limb for target modulus p.
func c02ModUpBound(src []uint64, p uint64) *big.Int {
	var qmax uint64
	for _, q := range src {
		if q > qmax {
			qmax = q
		}
	}
	if len(src) <= 8 && bits.Len64(qmax) <= 61 {
		b := new(big.Int).Mul(big.NewInt(c02DocK), c02BigU(p))
		return b.Sub(b, big.NewInt(1))
	}
	// (2 + n·max(Qi)/2^64)·P
	b := new(big.Int).Mul(big.NewInt(int64(len(src))), c02BigU(qmax))
	b.Mul(b, c02BigU(p))
	b.Rsh(b, 64)
	return b.Add(b, new(big.Int).Mul(big.NewInt(2), c02BigU(p)))
}

// ---- BasisExtender ------------------------------------------------------------------------------

func c02BasisExt(c *Ctx, po bool, e *c02Env) {
	r := c.rng
	N, ringQ, ringP, ch := e.N, e.ringQ, e.ringP, e.ch
	be := ring.NewBasisExtender(ringQ, ringP)
	copies := []*ring.BasisExtender{be.ShallowCopy(), be.ShallowCopy().ShallowCopy()}
	Qs, Ps := e.Qs, e.Ps
	for _, levelQ := range c02Levels(len(ch.Q)) {
		for levelP := 0; levelP < len(ch.P); levelP++ {
			mQ, mP := ch.Q[:levelQ+1], ch.P[:levelP+1]
			MQ, MP := c02ProdBig(mQ), c02ProdBig(mP)
			reps := c.Scale(1, 3)
			for rep := 0; rep < reps; rep++ {
				// ---- ModUp Q -> P and P -> Q, ModUpExact
				for _, dir := range []string{"qtop", "ptoq"} {
					src, dst, Msrc := mQ, mP, MQ
					if dir == "ptoq" {
						src, dst, Msrc = mP, mQ, MP
					}
					X := c02FamValues(c, N, Msrc, nil)
					if rep == 2 {
						X = c02ConstValues(N, new(big.Int).Sub(Msrc, big.NewInt(1)))
					}
					pin, in := c02OneModUp(c, po, e, be, dir, levelQ, levelP, X, "")
					// raw ModUpExact (unreduced output, exposes the float index v)
					{
						var line string
						raw := c02JunkPoly(r, N, len(dst)-1)
						pan := c02Panics(func() {
							if dir == "qtop" {
								ring.ModUpExact(pin.Coeffs[:levelQ+1], raw.Coeffs[:levelP+1], ringQ, ringP, ring.GenModUpConstants(mQ, ch.P))
							} else {
								ring.ModUpExact(pin.Coeffs[:levelP+1], raw.Coeffs[:levelQ+1], ringP, ringQ, ring.GenModUpConstants(mP, ch.Q))
							}
						})
						if dir == "qtop" {
							line = fmt.Sprintf("%s %s %d %d %s", Qs, Ps, levelQ, levelP, Mat(in))
						} else {
							line = fmt.Sprintf("%s %s %d %d %s", Ps, Qs, levelP, levelQ, Mat(in))
						}
						c.Count("modupexact")
						if pan {
							if !po {
								c.Emit("modupexact "+line, "panic")
							}
							c.Probe("no_panic", "modupexact "+line, "C02/ModUpExact/panic", "panicked")
							continue
						}
						rawRows := c02RowsCopy(raw, len(dst))
						if !po {
							c.Emit("modupexact "+line, Mat(rawRows))
						}
						// the doc comment of ModUpExact: "returned values are in [0, kP-1]" (k read from the source;
						// stated for at most 8 source moduli of at most 61 bits), else (2 + n·max(Qi)/2^64)·P
						dd := ""
						for i, p := range dst {
							bound := c02ModUpBound(src, p)
							for j, v := range rawRows[i] {
								if c02BigU(v).Cmp(bound) > 0 {
									dd = fmt.Sprintf("row %d coeff %d: %d > documented bound %s", i, j, v, bound)
								}
							}
						}
						c.Probe("modupexact_documented_range", line, "C02/ModUpExact/output-exceeds-documented-range", dd)
					}
				}
				// ---- ModDown
				for _, kind := range []string{"qptoq", "qptoqntt", "qptop"} {
					D := MP
					if kind == "qptop" {
						D = MQ
					}
					c02OneModDown(c, po, e, be, kind, levelQ, levelP, c02FamValues(c, N, new(big.Int).Mul(MQ, MP), D), "")
				}
				// ---- the same operations on ShallowCopy()s of the extender (what Evaluator.ShallowCopy hands out) and on a
				// copy of a copy: same ties, same reference probes
				if rep == 0 {
					for ci, cp := range copies {
						c.Count(fmt.Sprintf("basisextender:shallow-copy-depth-%d", ci+1))
						c02OneModUp(c, po, e, cp, "qtop", levelQ, levelP, c02FamValues(c, N, MQ, nil), "")
						c02OneModUp(c, po, e, cp, "ptoq", levelQ, levelP, c02FamValues(c, N, MP, nil), "")
						for _, kind := range []string{"qptoq", "qptoqntt", "qptop"} {
							D := MP
							if kind == "qptop" {
								D = MQ
							}
							c02OneModDown(c, po, e, cp, kind, levelQ, levelP, c02FamValues(c, N, new(big.Int).Mul(MQ, MP), D), "")
						}
					}
				}
			}
		}
	}
}

// ---- Decomposer ---------------------------------------------------------------------------------

func c02Decomp(c *Ctx, po bool, e *c02Env) {
	dec := ring.NewDecomposer(e.ringQ, e.ringP)
	for _, levelQ := range c02Levels(len(e.ch.Q)) {
		lps := []int{-1}
		if e.ringP != nil {
			lps = nil
			for lp := 0; lp < len(e.ch.P); lp++ {
				lps = append(lps, lp)
			}
		}
		for _, levelP := range lps {
			c02OneDecomp(c, po, e, dec, levelQ, levelP, "")
		}
	}
}

// ---- small-norm extension -----------------------------------------------------------------------

func c02Mask(c *Ctx, po bool, pool map[int][]uint64) {
	r := c.rng
	sizes, ws := []int{20, 45, 61}, []int{1, 5, 16, 31}
	if c.Thorough() {
		sizes, ws = c02Sizes, []int{1, 2, 5, 8, 13, 16, 20, 31, 32}
	}
	for _, b := range sizes {
		q := pool[b][r.Intn(len(pool[b]))]
		for _, w := range ws {
			n := (bits.Len64(q) + w - 1) / w // enough digits: q ≤ 2^(w n)
			mask := uint64(1)<<uint(w) - 1
			x := make([]uint64, 16)
			for k := range x {
				x[k] = r.Below(q)
			}
			x[0], x[1], x[2] = 0, q-1, q>>1
			digits := make([][]uint64, n)
			for j := 0; j < n; j++ {
				digits[j] = make([]uint64, 16)
				c02Panics(func() { ring.MaskVec(x, j*w, mask, digits[j]) })
				if !po {
					c.Emit(fmt.Sprintf("mask %d %d %s", j*w, mask, Vec(x)), Vec(digits[j]))
				}
				c.Count("mask")
			}
			d := ""
			for k := range x {
				acc := new(big.Int)
				for j := 0; j < n; j++ {
					if digits[j][k] > mask {
						d = fmt.Sprintf("digit %d of %d exceeds 2^w-1", j, x[k])
					}
					acc.Add(acc, new(big.Int).Lsh(c02BigU(digits[j][k]), uint(j*w)))
				}
				if acc.Cmp(c02BigU(x[k])) != 0 {
					d = fmt.Sprintf("digits of %d recombine to %s", x[k], acc)
				}
			}
			c.Probe("mask_recombine", fmt.Sprintf("%d %d %d %s", q, w, n, Vec(x)), "C02/MaskVec/digits-do-not-recombine", d)
		}
	}
}

// ---- integer-level specification against math/big -----------------------------------------------

func c02Int(c *Ctx, po bool, pool map[int][]uint64) {
	if po {
		return
	}
	r := c.rng
	n := c.Scale(60, 600)
	for k := 0; k < n; k++ {
		used := map[uint64]bool{}
		nq := 2 + r.Intn(4)
		sz := make([]int, nq)
		for i := range sz {
			sz[i] = c02Sizes[r.Intn(len(c02Sizes))]
		}
		qs := c02TakePrimes(pool, used, sz, r)
		M := c02ProdBig(qs)
		nb := 1 + r.Intn(nq-1)
		D := c02ProdBig(qs[nq-nb:])
		x := c02FamValues(c, 1, M, D)[0]
		xs := c02RowsOf([]*big.Int{x}, qs)
		res := make([]uint64, nq)
		for i := range res {
			res[i] = xs[i][0]
		}
		// floor
		y := new(big.Int).Set(x)
		for s := 0; s < nb; s++ {
			y.Div(y, c02BigU(qs[nq-1-s]))
		}
		ref := c02RowsOf([]*big.Int{y}, qs[:nq-nb])
		out := make([]uint64, nq-nb)
		for i := range out {
			out[i] = ref[i][0]
		}
		c.Emit(fmt.Sprintf("int floor %s %d %s", Vec(qs), nb, Vec(res)), Vec(out))
		// round half up, step by step
		y.Set(x)
		for s := 0; s < nb; s++ {
			q := c02BigU(qs[nq-1-s])
			y.Add(y, new(big.Int).Rsh(new(big.Int).Sub(q, big.NewInt(1)), 1))
			y.Div(y, q)
		}
		ref = c02RowsOf([]*big.Int{y}, qs[:nq-nb])
		for i := range out {
			out[i] = ref[i][0]
		}
		c.Emit(fmt.Sprintf("int round %s %d %s", Vec(qs), nb, Vec(res)), Vec(out))
		// HPS with the exact index v
		ps := c02TakePrimes(pool, used, []int{c02Sizes[r.Intn(len(c02Sizes))], c02Sizes[r.Intn(len(c02Sizes))]}, r)
		ys := make([]uint64, nq)
		sum := new(big.Int)
		for i, q := range qs {
			Mi := new(big.Int).Div(M, c02BigU(q))
			inv := new(big.Int).ModInverse(new(big.Int).Mod(Mi, c02BigU(q)), c02BigU(q))
			yi := new(big.Int).Mul(c02BigU(res[i]), inv)
			yi.Mod(yi, c02BigU(q))
			ys[i] = yi.Uint64()
			sum.Add(sum, yi.Mul(yi, Mi))
		}
		v := new(big.Int).Div(sum, M)
		outs := make([]uint64, len(ps))
		for j, p := range ps {
			outs[j] = new(big.Int).Mod(x, c02BigU(p)).Uint64()
		}
		c.Emit(fmt.Sprintf("int hps %s %s %s", Vec(qs), Vec(ps), Vec(res)), fmt.Sprintf("%s|%s|%s", v.String(), Vec(ys), Vec(outs)))
		// power-of-two digits
		w := 1 + r.Intn(20)
		xx := r.Below(qs[0])
		nd := (bits.Len64(qs[0]) + w - 1) / w
		dg := make([]uint64, nd)
		for j := range dg {
			dg[j] = (xx >> uint(j*w)) & (uint64(1)<<uint(w) - 1)
		}
		c.Emit(fmt.Sprintf("int pow2 %d %d %d", w, nd, xx), fmt.Sprintf("%s|%d", Vec(dg), xx))
		c.Count("int-spec")
	}
}
