
package main

// C12 — permutations end to end: Permutation.GetDiagonals -> Parameters.DiagonalsIndexList -> NewLinearTransformation
// -> Encode -> Evaluate on a real ciphertext, for ckks (one row) and bgv (two rows), checked against the PERMUTATION
// ITSELF (out[To] = Scaling * in[From], every other slot 0) — not against Diagonals.Evaluate on the same map.
// Families: rotations by every k (n/2 included: swapping the two halves), reversals, random permutations, partial
// maps, random scalings.
//   tie   permdiags / permdiagsc   the diagonals (index -> vector), keys as the map has them
//   probe perm_diag_keys_unique    the keys of the returned map are pairwise different modulo n (one diagonal of the
//                                  matrix = one key; two keys for the same diagonal share one encoded plaintext)
//   probe perm_e2e_<scheme>        decrypted = the permutation (bgv exact, ckks rounded within 2^-8)

import (
	"fmt"
	"math"
	"sort"
	"strings"

	bgvlt "github.com/tuneinsight/lattigo/v6/circuits/bgv/lintrans"
	ckkslt "github.com/tuneinsight/lattigo/v6/circuits/ckks/lintrans"
	clt "github.com/tuneinsight/lattigo/v6/circuits/common/lintrans"
	"github.com/tuneinsight/lattigo/v6/core/rlwe"
)

type c12PM struct{ row, from, to int; sc uint64 }

func c12PermE2E(c *Ctx, x *c12Ctx) {
	n := 1 << x.logMaxC // columns of a row
	type fam struct {
		name string
		f    func(row, i int) int // To of From = i; -1: unmapped
	}
	var fams []fam
	ks := []int{0, 1, n/2 - 1, n / 2, n/2 + 1, n - 1}
	if c.Thorough() {
		ks = nil
		for k := 0; k < n; k++ {
			ks = append(ks, k)
		}
	}
	for _, k := range ks {
		k := k
		fams = append(fams, fam{fmt.Sprintf("rot%d", k), func(_, i int) int { return (i + k) % n }})
	}
	fams = append(fams, fam{"reverse", func(_, i int) int { return n - 1 - i }})
	// the two halves swapped in one row, the identity in the other
	fams = append(fams, fam{"halfswap-row0", func(r, i int) int {
		if r == 0 {
			return (i + n/2) % n
		}
		return i
	}})
	// only the mappings at offset exactly +n/2 and -n/2 and a few others
	fams = append(fams, fam{"halfswap-partial", func(_, i int) int {
		if i%3 == 2 {
			return -1
		}
		return (i + n/2) % n
	}})
	for r := 0; r < c.Scale(3, 10); r++ {
		perms := [2][]int{c12RandPerm(c, n), c12RandPerm(c, n)}
		drop := r % 2
		fams = append(fams, fam{fmt.Sprintf("random%d", r), func(row, i int) int {
			if drop == 1 && (i+row)%4 == 0 {
				return -1
			}
			return perms[row][i]
		}})
	}
	for fi, fm := range fams {
		var maps []c12PM
		for row := 0; row < x.rows; row++ {
			for i := 0; i < n; i++ {
				if to := fm.f(row, i); to >= 0 {
					sc := uint64(1)
					if fi%2 == 1 {
						if x.scheme == "bgv" {
							sc = 1 + c.rng.Below(x.t-1)
						} else {
							sc = 1 + c.rng.Below(4)
						}
					}
					maps = append(maps, c12PM{row, i, to, sc})
				}
			}
		}
		for a := len(maps) - 1; a > 0; a-- {
			b := c.rng.Intn(a + 1)
			maps[a], maps[b] = maps[b], maps[a]
		}
		for _, ratio := range []int{-1, 1} {
			if !c.Thorough() && (fi+ratio)%2 == 0 && !strings.HasPrefix(fm.name, "halfswap") && fm.name != fmt.Sprintf("rot%d", n/2) {
				continue
			}
			x.runPerm(c, fm.name, maps, ratio)
		}
	}
}

func (x *c12Ctx) runPerm(c *Ctx, name string, maps []c12PM, ratio int) {
	n := 1 << x.logMaxC
	L := x.maxLevel()
	var desc strings.Builder
	for _, m := range maps {
		fmt.Fprintf(&desc, " M %d %d %d %d", m.row, m.from, m.to, m.sc)
	}
	tag := fmt.Sprintf("%s logN=%d %s ratio=%d", x.scheme, x.logN, name, ratio)
	var keys []int
	var common clt.LinearTransformation
	var adv []uint64
	var shown []string
	encErr := false
	if x.scheme == "bgv" {
		var perm [2][]bgvlt.PermutationMapping[uint64]
		for _, m := range maps {
			perm[m.row] = append(perm[m.row], bgvlt.PermutationMapping[uint64]{From: m.from, To: m.to, Scaling: m.sc})
		}
		dg := bgvlt.Permutation[uint64](perm).GetDiagonals(x.logMaxC + 1)
		for k := range dg {
			keys = append(keys, k)
		}
		sort.Ints(keys)
		for _, k := range keys {
			shown = append(shown, fmt.Sprintf("%d:%s", k, Vec(dg[k])))
		}
		p := bgvlt.Parameters{DiagonalsIndexList: dg.DiagonalsIndexList(), LevelQ: L, LevelP: x.rp.MaxLevelP(),
			Scale: x.bp.NewScale(3), LogDimensions: x.dims(x.logMaxC), LogBabyStepGiantStepRatio: ratio}
		l := bgvlt.NewLinearTransformation(x.bp, p)
		encErr = bgvlt.Encode(x.becd, dg, l) != nil
		common = clt.LinearTransformation(l)
		adv = l.GaloisElements(x.bp)
	} else {
		var perm []ckkslt.PermutationMapping[float64]
		for _, m := range maps {
			perm = append(perm, ckkslt.PermutationMapping[float64]{From: m.from, To: m.to, Scaling: float64(m.sc)})
		}
		dg := ckkslt.Permutation[float64](perm).GetDiagonals(x.logMaxC)
		for k := range dg {
			keys = append(keys, k)
		}
		sort.Ints(keys)
		for _, k := range keys {
			u := make([]uint64, len(dg[k]))
			for i := range u {
				u[i] = uint64(dg[k][i])
			}
			shown = append(shown, fmt.Sprintf("%d:%s", k, Vec(u)))
		}
		p := ckkslt.Parameters{DiagonalsIndexList: dg.DiagonalsIndexList(), LevelQ: L, LevelP: x.rp.MaxLevelP(),
			Scale: rlwe.NewScale(uint64(1 << 40)), LogDimensions: x.dims(x.logMaxC), LogBabyStepGiantStepRatio: ratio}
		l := ckkslt.NewTransformation(x.cp, p)
		encErr = ckkslt.Encode(x.cecd, dg, l) != nil
		common = clt.LinearTransformation(l)
		adv = l.GaloisElements(x.cp)
	}
	if ratio == -1 { // the diagonals do not depend on the algorithm: one tie line per permutation
		out := strings.Join(shown, "|")
		if out == "" {
			out = "-"
		}
		op := "permdiags"
		if x.scheme == "ckks" {
			op = "permdiagsc"
		}
		c.Emit(fmt.Sprintf("%s %d%s", op, n, desc.String()), out)
		seen := map[int]bool{}
		d := ""
		for _, k := range keys {
			r := ((k % n) + n) % n
			if seen[r] {
				d = fmt.Sprintf("two keys for the diagonal %d (keys %v)%s", r, keys, desc.String())
			}
			seen[r] = true
		}
		c.Probe("perm_diag_keys_unique", tag, "C12-perm-diagonals", d)
	}
	v := x.randVec(c, x.logMaxC)
	want := make([]int64, len(v))
	for _, m := range maps {
		want[m.row*n+m.to] = x.red(x.red(int64(m.sc)) * x.red(v[m.row*n+m.from]))
	}
	d := ""
	if encErr {
		d = "Encode refused the diagonals of the permutation"
	} else {
		ks, _, _ := x.keysFor(adv, x.rp.MaxLevelP())
		ev := x.schemeEval(ks)
		ct := x.encrypt(v, L, x.ctScale(c), x.logMaxC)
		out := rlwe.NewCiphertext(x.rp, 1, L)
		st := Try(func() string {
			var err error
			if x.scheme == "bgv" {
				err = bgvlt.NewEvaluator(ev).Evaluate(ct, bgvlt.LinearTransformation(common), out)
			} else {
				err = ckkslt.NewEvaluator(ev).Evaluate(ct, ckkslt.LinearTransformation(common), out)
			}
			if err != nil {
				return "err"
			}
			return "ok"
		})
		c.Count("perm-e2e:" + x.scheme + ":" + st)
		if st != "ok" {
			d = "status=" + st
		} else {
			x.maxErr = 0
			got := x.decrypt(out, len(v))
			if !c12Eq(got, want) || math.IsInf(x.maxErr, 1) || (x.scheme == "ckks" && !(x.maxErr < 1.0/256)) {
				bad := -1
				for i := range got {
					if got[i] != want[i] {
						bad = i
						break
					}
				}
				d = fmt.Sprintf("slot %d: got %d want %d", bad, got[utilsMax0(bad)], want[utilsMax0(bad)])
			}
		}
	}
	if d != "" {
		d += desc.String()
	}
	c.Probe("perm_e2e_"+x.scheme, tag, "C12-perm-e2e", d)
}

func utilsMax0(a int) int {
	if a < 0 {
		return 0
	}
	return a
}

func c12RandPerm(c *Ctx, n int) []int {
	p := make([]int, n)
	for i := range p {
		p[i] = i
	}
	for i := n - 1; i > 0; i-- {
		j := c.rng.Intn(i + 1)
		p[i], p[j] = p[j], p[i]
	}
	return p
}
