package main

// C08: every metadata field over its whole representable range, in every type that carries
// metadata, through the binary and the JSON entry points.
//
//   LogDimensions.Rows/Cols  signed, one two's-complement byte on the wire: {-128,-2,-1,0,1,127}
//                            (negative values are reachable: RingPackingEvaluator.Split decrements Cols)
//   IsBatched/IsBitReversed/IsNTT/IsMontgomery   all 16 combinations
//   Scale                    integers, non-integers, big and tiny values with a two-digit
//                            decimal exponent, mod-T forms, the zero value
// plus the values a fixed-width byte CANNOT hold (probe byte_field_range).

import (
	"encoding/json"
	"fmt"
	"math/big"
	"strings"

	"github.com/tuneinsight/lattigo/v6/circuits/common/polynomial"
	"github.com/tuneinsight/lattigo/v6/core/rlwe"
	"github.com/tuneinsight/lattigo/v6/multiparty"
	"github.com/tuneinsight/lattigo/v6/ring"
	"github.com/tuneinsight/lattigo/v6/schemes/bgv"
	"github.com/tuneinsight/lattigo/v6/schemes/ckks"
	"github.com/tuneinsight/lattigo/v6/utils/bignum"
)

var c08Dims = []int{-128, -2, -1, 0, 1, 127}

const c08NScales = 12

func (g *c08Gen) scaleVariant(i int) rlwe.Scale {
	bf := func(m float64, e int) *big.Float { return new(big.Float).SetPrec(128).SetMantExp(big.NewFloat(m), e) }
	switch i % c08NScales {
	case 0:
		return rlwe.NewScale(1 << 40)
	case 1:
		return rlwe.NewScaleModT(3, 65537)
	case 2:
		return rlwe.NewScale(1.5)
	case 3:
		return rlwe.NewScale(float64(g.rng.U64()>>11) * 1.25)
	case 4:
		return rlwe.NewScale(new(big.Int).Add(new(big.Int).Lsh(big.NewInt(1), 120), big.NewInt(1)))
	case 5:
		return rlwe.Scale{}
	case 6:
		return rlwe.NewScaleModT(65536, 65537)
	case 7:
		return rlwe.NewScale(bf(1.25, -100))
	case 8:
		return rlwe.NewScale(bf(1.5, 331)) // 6.5e99: largest decimal exponent with two digits
	case 9:
		return rlwe.NewScale(bf(1.5, -328)) // 2.7e-99
	case 10:
		return rlwe.NewScaleModT(g.rng.U64()>>3, 0x1fffffffffffffff)
	default:
		return rlwe.NewScale(^uint64(0))
	}
}

// metaCombo: combination number idx of (rows, cols, flags, scale).
func (g *c08Gen) metaCombo(idx int) (*rlwe.MetaData, string) {
	r, c := c08Dims[idx%6], c08Dims[(idx/6)%6]
	fl := (idx / 36) % 16
	sc := (idx / 576) % c08NScales
	m := &rlwe.MetaData{}
	m.Scale = g.scaleVariant(sc)
	m.LogDimensions = ring.Dimensions{Rows: r, Cols: c}
	m.IsBatched, m.IsBitReversed, m.IsNTT, m.IsMontgomery = fl&1 != 0, fl&2 != 0, fl&4 != 0, fl&8 != 0
	return m, fmt.Sprintf("rows=%d cols=%d flags=%d scale#%d", r, c, fl, sc)
}

const c08NCombos = 36 * 16 * c08NScales

// metaCarrier: a metadata-carrying type, built around a given metadata value.
type c08Carrier struct {
	ty, goType string
	mk         func(m *rlwe.MetaData) c08Obj
}

func (g *c08Gen) carriers() []c08Carrier {
	cp := func(m *rlwe.MetaData) *rlwe.MetaData { return m.CopyNew() }
	return []c08Carrier{
		{"meta", "rlwe.MetaData", func(m *rlwe.MetaData) c08Obj { return cp(m) }},
		{"ptmeta", "rlwe.PlaintextMetaData", func(m *rlwe.MetaData) c08Obj { x := cp(m).PlaintextMetaData; return &x }},
		{"ctmeta", "rlwe.CiphertextMetaData", func(m *rlwe.MetaData) c08Obj { x := m.CiphertextMetaData; return &x }},
		{"ct", "rlwe.Ciphertext", func(m *rlwe.MetaData) c08Obj {
			ct := g.ciphertext(g.pB, 1, 0, 0)
			ct.MetaData = cp(m)
			return ct
		}},
		{"pt", "rlwe.Plaintext", func(m *rlwe.MetaData) c08Obj {
			pt := rlwe.NewPlaintext(g.pB, 0)
			g.fillPoly(pt.Value)
			pt.MetaData = cp(m)
			return pt
		}},
		{"elqp", "rlwe.Element[ringqp.Poly]", func(m *rlwe.MetaData) c08Obj {
			e := rlwe.NewElementExtended(g.pA, 0, 0, 0)
			g.fillQP(e.Value[0])
			e.MetaData = cp(m)
			return e
		}},
		{"pksshare", "multiparty.PublicKeySwitchShare", func(m *rlwe.MetaData) c08Obj {
			ct := g.ciphertext(g.pB, 1, 0, 0)
			ct.MetaData = cp(m)
			return &multiparty.PublicKeySwitchShare{Element: ct.Element}
		}},
		{"refreshshare", "multiparty.RefreshShare", func(m *rlwe.MetaData) c08Obj {
			return &multiparty.RefreshShare{EncToShareShare: multiparty.KeySwitchShare{Value: g.newPoly(16, 0)},
				ShareToEncShare: multiparty.KeySwitchShare{Value: g.newPoly(16, 0)}, MetaData: *cp(m)}
		}},
		{"pb", "polynomial.PowerBasis", func(m *rlwe.MetaData) c08Obj {
			ct := g.ciphertext(g.pB, 1, 0, 0)
			ct.MetaData = cp(m)
			return &polynomial.PowerBasis{Basis: bignum.Chebyshev, Value: map[int]*rlwe.Ciphertext{1: ct}}
		}},
	}
}

// probeMetaFields: for sampled combinations, every carrier, binary and JSON, fresh and dirty.
func (g *c08Gen) probeMetaFields() {
	c := g.c
	idxs := []int{}
	for i := 0; i < 36; i++ { // every (rows, cols) pair, with rotating flags and scales
		idxs = append(idxs, i+36*((i*7)%16)+576*(i%c08NScales))
	}
	for i := 0; i < c.Scale(60, 1200); i++ {
		idxs = append(idxs, g.rng.Intn(c08NCombos))
	}
	carriers := g.carriers()
	prev := make([]c08Obj, len(carriers)) // the previous value of each carrier: dirty receiver
	for _, idx := range idxs {
		m, desc := g.metaCombo(idx)
		c.Count("meta-combo")
		// tie on the metadata block itself: model bytes and model decode, signed fields included
		tree := c08RMeta(*m)
		if b, err := m.MarshalBinary(); err == nil {
			c.Emit("enc meta "+tree.String(), Hex(b))
			back := new(rlwe.MetaData)
			out := "err"
			if back.UnmarshalBinary(b) == nil {
				out = "ok " + I(len(b)) + " " + c08RMeta(*back).String()
			}
			c.Emit("dec meta "+Hex(b), out)
		}
		detail, k := "", ""
		fail := func(d, kk string) {
			if detail == "" {
				detail, k = d, kk
			}
		}
		for ci, cr := range carriers {
			s := c08Spec{ty: cr.ty, goType: cr.goType}
			val := cr.mk(m)
			want := c08Render(val)
			enc, _, cls := c08Write(val, "WriteTo(bufio.Writer)+Flush")
			if cls != "ok" {
				fail(cr.goType+" WriteTo: "+cls, c08Key(cr.goType, "WriteTo", strings.ReplaceAll(cls, ":", "-")))
				continue
			}
			// binary, fresh and dirty
			for _, e := range []string{"ReadFrom(bufio.Reader)", "UnmarshalBinary"} {
				for _, dirty := range []bool{false, true} {
					recv := c08Fresh[cr.goType]()
					if dirty {
						if prev[ci] == nil {
							continue
						}
						recv = prev[ci]
						prev[ci] = nil
					}
					n, cls := c08Read(recv, e, enc, nil)
					d, kk := g.checkDecoded(s, e, recv, n, cls, want, len(enc), e != "UnmarshalBinary", false)
					if d != "" {
						fail(fmt.Sprintf("%s %s dirty=%v: %s", cr.goType, e, dirty, d), kk)
					}
				}
			}
			// JSON entry points of the metadata blocks
			if cr.ty == "meta" || cr.ty == "ptmeta" || cr.ty == "ctmeta" {
				jb, err := json.Marshal(val)
				if err != nil {
					fail(cr.goType+" json.Marshal: "+err.Error(), c08Key(cr.goType, "MarshalJSON", "err"))
				} else {
					if string(jb) != string(enc) {
						fail(cr.goType+" json.Marshal differs from WriteTo", c08Key(cr.goType, "MarshalJSON", "bytes-differ"))
					}
					for _, dirty := range []bool{false, true} {
						recv := c08Fresh[cr.goType]()
						if dirty {
							recv = cr.mk(g.meta(idx)) // another value
						}
						cls := c08Call(func() error { return json.Unmarshal(jb, recv) })
						d, kk := g.checkDecoded(s, "UnmarshalJSON", recv, int64(len(jb)), cls, want, len(jb), false, false)
						if d != "" {
							fail(fmt.Sprintf("%s json.Unmarshal dirty=%v: %s", cr.goType, dirty, d), kk)
						}
					}
				}
			}
			prev[ci] = cr.mk(m)
		}
		c.Probe("meta_fields", fmt.Sprintf("idx=%d %s", idx, desc), k, detail)
	}
}

// probeByteFieldRange: values that a fixed-width byte cannot hold must not be silently
// truncated: writing has to fail, or the value has to come back unchanged.
func (g *c08Gen) probeByteFieldRange() {
	c := g.c
	for _, v := range []int{128, 200, 255, 256, 300, -129, -256, 1 << 20} {
		for _, which := range []string{"Rows", "Cols"} {
			m := g.meta(0)
			if which == "Rows" {
				m.LogDimensions.Rows = v
			} else {
				m.LogDimensions.Cols = v
			}
			detail := ""
			var b []byte
			cls := c08Call(func() (err error) { b, err = m.MarshalBinary(); return })
			if cls == "ok" {
				back := new(rlwe.MetaData)
				if cls2 := c08Call(func() error { return back.UnmarshalBinary(b) }); cls2 == "ok" && back.LogDimensions != m.LogDimensions {
					detail = fmt.Sprintf("LogDimensions.%s=%d is written as the byte %d without error and read back as %v", which, v, uint8(v), back.LogDimensions)
				}
			} else if strings.HasPrefix(cls, "panic") {
				detail = "MarshalBinary " + cls
			}
			c.Probe("byte_field_range", fmt.Sprintf("rlwe.MetaData LogDimensions.%s=%d", which, v), "C08/rlwe.PlaintextMetaData.MarshalJSON/LogDimensions-truncated-to-byte", detail)
		}
	}
	for _, v := range []int{0, 1, 2, 255, -1, 256, 257} {
		pb := &polynomial.PowerBasis{Basis: bignum.Basis(v), Value: map[int]*rlwe.Ciphertext{1: g.ciphertext(g.pB, 1, 0, 1)}}
		detail := ""
		var b []byte
		cls := c08Call(func() (err error) { b, err = pb.MarshalBinary(); return })
		if cls == "ok" {
			back := new(polynomial.PowerBasis)
			if cls2 := c08Call(func() error { return back.UnmarshalBinary(b) }); cls2 == "ok" && back.Basis != pb.Basis {
				detail = fmt.Sprintf("Basis=%d is written as the byte %d without error and read back as %d", v, uint8(v), back.Basis)
			} else if cls2 != "ok" {
				detail = "UnmarshalBinary " + cls2
			}
		} else if strings.HasPrefix(cls, "panic") {
			detail = "MarshalBinary " + cls
		}
		c.Probe("byte_field_range", fmt.Sprintf("polynomial.PowerBasis Basis=%d", v), "C08/polynomial.PowerBasis.WriteTo/Basis-truncated-to-byte", detail)
	}
}

// schemePlaintexts: plaintexts as the schemes allocate them (their own metadata defaults),
// and after the dimension bookkeeping of ring packing (Cols decremented below zero).
func (g *c08Gen) schemePlaintextSpecs(add func(ty, goType, label string, mk func() c08Obj)) {
	ck, err := ckks.NewParametersFromLiteral(ckks.ParametersLiteral{LogN: 4, LogQ: []int{30, 30}, LogP: []int{31}, LogDefaultScale: 20})
	if err != nil {
		panic(err)
	}
	bg, err := bgv.NewParametersFromLiteral(bgv.ParametersLiteral{LogN: 4, LogQ: []int{30, 30}, LogP: []int{31}, PlaintextModulus: 65537})
	if err != nil {
		panic(err)
	}
	add("pt", "rlwe.Plaintext", "ckks.NewPlaintext", func() c08Obj { pt := ckks.NewPlaintext(ck, 1); g.fillPoly(pt.Value); return pt })
	add("pt", "rlwe.Plaintext", "bgv.NewPlaintext", func() c08Obj { pt := bgv.NewPlaintext(bg, 1); g.fillPoly(pt.Value); return pt })
	add("pt", "rlwe.Plaintext", "ckks.NewPlaintext-cols-1", func() c08Obj {
		pt := ckks.NewPlaintext(ck, 0)
		g.fillPoly(pt.Value)
		pt.LogDimensions = ring.Dimensions{Rows: 0, Cols: -1} // {0,0} after one RingPackingEvaluator.Split
		return pt
	})
	add("ct", "rlwe.Ciphertext", "ckks.NewCiphertext-dims(-1,-128)", func() c08Obj {
		ct := ckks.NewCiphertext(ck, 1, 1)
		for i := range ct.Value {
			g.fillPoly(ct.Value[i])
		}
		ct.LogDimensions = ring.Dimensions{Rows: -1, Cols: -128}
		return ct
	})
}
